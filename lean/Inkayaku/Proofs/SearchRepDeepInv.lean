import Inkayaku.Props.C10Rep
/-!
# C10 below the root, step 1: nodes of the search WITH their line, the line-dependent table invariant

`Props/C08Sim.lean` simulates the search model by the plain minimax `mm game` under the assumption that the repetition history is
fresh (`HistZero`), so that the repetition return is never taken.  After `position <b0> moves …` that is false: a node's value
depends on the LINE that led to it.  This file sets up the simulation by `mm RepSpec.repGame` (the exact path-dependent minimax of
`Model/RepSpec.lean`):

* `RNode b0 T k Lb p`  – `p` is the board of a node at ply `k` of a search started at the last position of the game `b0 :: T`,
                         `Lb` = all boards before it, oldest first: the game (without its last position when `k = 0`) followed by
                         the search line; `rnode Lb p k` = the node of the specification game (keys of `Lb`, newest first);
* `mm_rep_congr`       – `mm repGame` sees the visible position only;
* `REntryOK`, `RTTOK`  – table invariant: every entry belongs to a node `(k, Lb, p)` with `k < D`, is keyed by `hash p`, has draft
                         `≤ D − k` and tells the truth about `mm repGame draft (rnode Lb p k)` — the value ON THAT LINE;
* `RHashInj b0 T D`    – EXPLICIT HYPOTHESIS replacing `SearchSim.HashInj`: a stored node (`k' < D`) and a probed node (`k ≤ D`) with
                         the same hash stand at the same ply, show the same position AND were reached over lines with the same keys
                         inside the window of the repetition test (`mm_rep_window`: `mm repGame` sees only the last `halfmove` keys).
                         For `D ≤ 2` this follows from `NoCollision` (`Proofs/SearchRepDeepHash.lean`): nodes at plies 0 and 1 have
                         only one line.  For `D ≥ 3` it excludes exactly the transpositions (graph-history interaction);
* `RHyp`               – the bundle of explicit hypotheses: a legal game line, clock budget, no 16-bit wrap, non-zero hashes below
                         the root, no collision of a node with the positions of its line inside the window, `RHashInj`, capture
                         sequences of length ≤ 64;
* `rep_iff`            – the repetition test of a node below the root ⇔ `RepSpec.isRepetition` of its specification node;
* `rep_bounds`, `rep_root_bounds` – the values of `mm repGame` lie strictly inside the score range.
-/
namespace Inkayaku.SearchRepDeep
open Inkayaku.Board Inkayaku.Eval Inkayaku.WF Inkayaku.BoardCongr Inkayaku.Minimax Inkayaku.SpecSearch Inkayaku.Search
open Inkayaku.SearchSim Inkayaku.History Inkayaku.SearchRep
open Inkayaku.C06 (HashKey)
open Inkayaku.RepSpec (RPos Key key repGame isRepetition)

/-! ## lists and lines -/

theorem snoc_lastBoard : ∀ (T : List Board) (b0 : Board), (b0 :: T).dropLast ++ [lastBoard b0 T] = b0 :: T
  | [], _ => rfl
  | q :: T, b0 => by
    rw [List.dropLast_cons_cons, List.cons_append]
    show b0 :: ((q :: T).dropLast ++ [lastBoard q T]) = _
    rw [snoc_lastBoard T q]

theorem lastBoard_of_snoc : ∀ (X : List Board) (b0 : Board) (Lb : List Board) (p : Board), Lb ++ [p] = b0 :: X →
    lastBoard b0 X = p
  | [], b0, Lb, p, h => by
    cases Lb with
    | nil => simp only [List.nil_append, List.cons.injEq, and_true] at h; exact h.symm
    | cons a L =>
      have := congrArg List.length h
      simp at this
  | q :: X, b0, Lb, p, h => by
    cases Lb with
    | nil =>
      have := congrArg List.length h
      simp at this
    | cons a L =>
      simp only [List.cons_append, List.cons.injEq] at h
      exact lastBoard_of_snoc X q L p h.2

/-- the last board of a line may be replaced by a board with the same visible position -/
theorem isLine_congr_last : ∀ (L : List Board) (p p' : Board), IsLine (L ++ [p]) → vis p' = vis p → IsLine (L ++ [p'])
  | [], _, _, _, _ => trivial
  | [a], p, p', h, hv => by
    obtain ⟨⟨m, hm, hvm⟩, _⟩ := h
    exact ⟨⟨m, hm, hv.trans hvm⟩, trivial⟩
  | a :: b :: L, p, p', h, hv => ⟨h.1, isLine_congr_last (b :: L) p p' h.2 hv⟩

theorem LineHist.prefix {r : Nat} {L L' : List Board} {h : Array Nat} (hl : LineHist r (L ++ L') h) : LineHist r L h := by
  refine ⟨hl.1, ?_⟩
  intro i b hb
  apply hl.2 i b
  rw [List.getElem?_append_left (lt_of_getElem? hb)]
  exact hb

theorem key_congr {b b' : Board} (h : vis b = vis b') : key b = key b' :=
  (RepSpec.key_eq_iff b b').mpr (hashKey_vis h)

/-! ## nodes with their line -/

/-- the node of the specification game -/
def rnode (Lb : List Board) (p : Board) (k : Nat) : RPos := { board := p, only := [], ply := k, before := Lb.reverse.map key }

/-- a canonical search line below `q`: every board is `make` of its predecessor by a legal move (equality, not only the same
visible position: these are the boards the specification game `repGame` walks through) -/
def CLine : Board → List Board → Prop
  | _, [] => True
  | q, c :: E => (∃ m, m ∈ genLegal q ∧ c = make q m) ∧ CLine c E

theorem lastBoard_append : ∀ (T E : List Board) (b0 : Board), lastBoard b0 (T ++ E) = lastBoard (lastBoard b0 T) E
  | [], _, _ => rfl
  | q :: T, E, _ => lastBoard_append T E q

theorem cline_snoc : ∀ (E : List Board) (q : Board) (m : Move), CLine q E → m ∈ genLegal (lastBoard q E) →
    CLine q (E ++ [make (lastBoard q E) m])
  | [], _, m, _, hm => ⟨⟨m, hm, rfl⟩, trivial⟩
  | c :: E, _, m, h, hm => ⟨h.1, cline_snoc E c m h.2 hm⟩

theorem cline_prefix : ∀ (E E' : List Board) (q : Board), CLine q (E ++ E') → CLine q E
  | [], _, _, _ => trivial
  | c :: E, E', _, h => ⟨h.1, cline_prefix E E' c h.2⟩

/-- `p` = the board of a search node at ply `k` below the last position of the game `b0 :: T`; `Lb` = the boards before it (game,
then search line).  `E` = the boards of the search line at the plies `1 … k` (canonical: `CLine`). -/
def RNode (b0 : Board) (T : List Board) (k : Nat) (Lb : List Board) (p : Board) : Prop :=
  ∃ E : List Board, E.length = k ∧ IsLine (b0 :: (T ++ E)) ∧ CLine (lastBoard b0 T) E ∧ Lb ++ [p] = b0 :: (T ++ E)

theorem RNode.root {b0 : Board} {T : List Board} (hl : IsLine (b0 :: T)) :
    RNode b0 T 0 (b0 :: T).dropLast (lastBoard b0 T) :=
  ⟨[], rfl, by rw [List.append_nil]; exact hl, trivial, by rw [List.append_nil]; exact snoc_lastBoard T b0⟩

theorem RNode.child {b0 : Board} {T : List Board} {k : Nat} {Lb : List Board} {p : Board} (h : RNode b0 T k Lb p)
    {m : Move} (hm : m ∈ genLegal p) : RNode b0 T (k + 1) (Lb ++ [p]) (make p m) := by
  obtain ⟨E, h1, h2, hc, h3⟩ := h
  have hp : lastBoard b0 (T ++ E) = p := lastBoard_of_snoc _ _ _ _ h3
  refine ⟨E ++ [make p m], by simp [h1], ?_, ?_, ?_⟩
  · rw [← List.append_assoc]
    apply isLine_snoc (T ++ E) b0 _ h2
    rw [hp]
    exact ⟨m, hm, rfl⟩
  · rw [lastBoard_append] at hp
    have := cline_snoc E _ m hc (by rw [hp]; exact hm)
    rw [hp] at this
    exact this
  · rw [h3]; simp

theorem RNode.isLine {b0 : Board} {T : List Board} {k : Nat} {Lb : List Board} {p : Board} (h : RNode b0 T k Lb p) :
    IsLine (Lb ++ [p]) := by
  obtain ⟨E, _, h2, _, h3⟩ := h
  rw [h3]; exact h2

theorem RNode.length {b0 : Board} {T : List Board} {k : Nat} {Lb : List Board} {p : Board} (h : RNode b0 T k Lb p) :
    Lb.length = T.length + k := by
  obtain ⟨E, h1, _, _, h3⟩ := h
  have := congrArg List.length h3
  simp only [List.length_append, List.length_cons, List.length_nil] at this
  omega

/-- clock budget and ply counter of a node -/
theorem RNode.facts {b0 : Board} {T : List Board} {k : Nat} {Lb : List Board} {p : Board} (h : RNode b0 T k Lb p) {B : Nat}
    (hinv : Inv B b0) (hB : T.length + k ≤ B) : Inv (B - (T.length + k)) p ∧ ply2 p = ply2 b0 + (T.length + k) := by
  have hlen := h.length
  obtain ⟨E, h1, h2, _, h3⟩ := h
  apply line_facts (T ++ E) b0 B h2 hinv (by simp only [List.length_append]; omega) (T.length + k) p
  rw [← h3, List.getElem?_append_right (by omega)]
  simp [hlen]

/-- a node below the root: its line starts with the root of the game -/
theorem RNode.cons {b0 : Board} {T : List Board} {k : Nat} {Lb : List Board} {p : Board} (h : RNode b0 T (k + 1) Lb p) :
    ∃ T', Lb = b0 :: T' ∧ T'.length = T.length + k := by
  have hlen := h.length
  obtain ⟨E, h1, _, _, h3⟩ := h
  cases Lb with
  | nil => simp at hlen
  | cons a L =>
    simp only [List.cons_append, List.cons.injEq] at h3
    refine ⟨L, by rw [h3.1], ?_⟩
    simp only [List.length_cons] at hlen
    omega

/-- the plies `0` and `1` have one line each -/
theorem RNode.line_le1 {b0 : Board} {T : List Board} {k : Nat} {Lb Lb' : List Board} {p p' : Board} (hk : k ≤ 1)
    (h : RNode b0 T k Lb p) (h' : RNode b0 T k Lb' p') : Lb' = Lb := by
  obtain ⟨E, h1, _, _, h3⟩ := h
  obtain ⟨E', h1', _, _, h3'⟩ := h'
  have hk' : k = 0 ∨ k = 1 := by omega
  rcases hk' with rfl | rfl
  · have e : E = [] := List.length_eq_zero_iff.mp h1
    have e' : E' = [] := List.length_eq_zero_iff.mp h1'
    subst e; subst e'
    exact (List.append_inj' (h3'.trans h3.symm) rfl).1
  · obtain ⟨c, rfl⟩ := List.length_eq_one_iff.mp h1
    obtain ⟨c', rfl⟩ := List.length_eq_one_iff.mp h1'
    have e : Lb ++ [p] = (b0 :: T) ++ [c] := by rw [h3]; simp
    have e' : Lb' ++ [p'] = (b0 :: T) ++ [c'] := by rw [h3']; simp
    rw [(List.append_inj' e rfl).1, (List.append_inj' e' rfl).1]

/-- a node is reached from the last position of the game by `k` legal moves -/
theorem RNode.reach {b0 : Board} {T : List Board} : ∀ {k : Nat} {Lb : List Board} {p : Board}, RNode b0 T k Lb p →
    Reach (lastBoard b0 T) k p := by
  intro k
  induction k with
  | zero =>
    intro Lb p h
    obtain ⟨E, h1, _, _, h3⟩ := h
    have e : E = [] := List.length_eq_zero_iff.mp h1
    subst e
    rw [List.append_nil] at h3
    show vis p = vis (lastBoard b0 T)
    rw [lastBoard_of_snoc _ _ _ _ h3]
  | succ k ih =>
    intro Lb p h
    obtain ⟨E, h1, h2, hcl, h3⟩ := h
    obtain ⟨E', c, rfl⟩ : ∃ E' c, E = E' ++ [c] := by
      cases hE : E.reverse with
      | nil => rw [List.reverse_eq_nil_iff] at hE; subst hE; simp at h1
      | cons c R => exact ⟨R.reverse, c, by rw [← List.reverse_reverse E, hE]; simp⟩
    have hc : p = c ∧ Lb = b0 :: (T ++ E') := by
      have e : Lb ++ [p] = (b0 :: (T ++ E')) ++ [c] := by rw [h3]; simp
      have := List.append_inj' e rfl
      exact ⟨by simpa using this.2, this.1⟩
    obtain ⟨rfl, rfl⟩ := hc
    have h2' : IsLine ((b0 :: (T ++ E')) ++ [p]) := by
      have : b0 :: (T ++ (E' ++ [p])) = (b0 :: (T ++ E')) ++ [p] := by simp
      rw [← this]; exact h2
    -- the line without its last board
    have hpre : IsLine (b0 :: (T ++ E')) := by
      have : ∀ (L : List Board) (x : Board), IsLine (L ++ [x]) → IsLine L := by
        intro L
        induction L with
        | nil => intro _ _; trivial
        | cons a L ihL =>
          intro x hx
          cases L with
          | nil => trivial
          | cons b L' => exact ⟨hx.1, ihL x hx.2⟩
      exact this _ _ h2'
    have hq : (b0 :: (T ++ E')).dropLast ++ [lastBoard b0 (T ++ E')] = b0 :: (T ++ E') := snoc_lastBoard _ _
    have hnode : RNode b0 T k (b0 :: (T ++ E')).dropLast (lastBoard b0 (T ++ E')) :=
      ⟨E', by simp at h1; omega, hpre, cline_prefix E' [p] _ hcl, hq⟩
    have hr := ih hnode
    -- the last step
    have hlen : (b0 :: (T ++ E')).length = T.length + k + 1 := by simp at h1 ⊢; omega
    have g1 : ((b0 :: (T ++ E')) ++ [p])[T.length + k]? = some (lastBoard b0 (T ++ E')) := by
      rw [List.getElem?_append_left (by omega)]
      have := getElem?_lastBoard (T ++ E') b0
      have hl2 : (T ++ E').length = T.length + k := by simp at hlen ⊢; omega
      rw [hl2] at this
      exact this
    have g2 : ((b0 :: (T ++ E')) ++ [p])[T.length + k + 1]? = some p := by
      rw [List.getElem?_append_right (by omega)]
      simp [hlen]
    obtain ⟨m, hm, hv⟩ := line_step _ _ _ _ h2' g1 g2
    obtain ⟨g, l⟩ := List.mem_filter.mp hm
    exact ⟨_, m, hr, g, l, hv⟩

/-! ## the specification value sees the visible position only -/

theorem isRepetition_congr {b b' : Board} (h : vis b = vis b') (o : List String) (k : Nat) (bf : List Key) :
    isRepetition ⟨b, o, k, bf⟩ = isRepetition ⟨b', o, k, bf⟩ := by
  unfold isRepetition RepSpec.occurrences
  simp only
  rw [halfmove_congr h, key_congr h]

theorem rootMoves_congr {b b' : Board} (h : vis b = vis b') (o : List String) : rootMoves b o = rootMoves b' o := by
  unfold rootMoves
  rw [genLegal_congr h]

theorem leafExact_congr {b b' : Board} (h : vis b = vis b') (o : List String) :
    game.leafExact (b, o) = game.leafExact (b', o) := by
  show (if noisy b then Qexact chess.qgame chess.fuel (b, o) else evalFor b b.turn true) =
    (if noisy b' then Qexact chess.qgame chess.fuel (b', o) else evalFor b' b'.turn true)
  rw [noisy_congr h, Qexact_congr _ (b, o) (b', o) h, evalFor_vis h]

theorem repMoves_congr {b b' : Board} (h : vis b = vis b') (o : List String) (k : Nat) (bf : List Key) :
    repGame.moves ⟨b, o, k, bf⟩ = repGame.moves ⟨b', o, k, bf⟩ := by
  show (if isRepetition ⟨b, o, k, bf⟩ then [] else rootMoves b o) = (if isRepetition ⟨b', o, k, bf⟩ then [] else rootMoves b' o)
  rw [isRepetition_congr h, rootMoves_congr h]

theorem repTerm_congr {b b' : Board} (h : vis b = vis b') (o : List String) (k : Nat) (bf : List Key) :
    repGame.term ⟨b, o, k, bf⟩ = repGame.term ⟨b', o, k, bf⟩ := by
  show (if isRepetition ⟨b, o, k, bf⟩ then RepSpec.repetitionValue k else evalFor b b.turn false) =
    (if isRepetition ⟨b', o, k, bf⟩ then RepSpec.repetitionValue k else evalFor b' b'.turn false)
  rw [isRepetition_congr h, evalFor_vis h]

/-- **`mm repGame` depends on the visible position only** -/
theorem mm_rep_congr (d : Nat) : ∀ (b b' : Board) (o : List String) (k : Nat) (bf : List Key), vis b = vis b' →
    mm repGame d ⟨b, o, k, bf⟩ = mm repGame d ⟨b', o, k, bf⟩ := by
  induction d with
  | zero =>
    intro b b' o k bf h
    simp only [mm]
    rw [repMoves_congr h, repTerm_congr h,
      show repGame.leafExact ⟨b, o, k, bf⟩ = game.leafExact (b, o) from RepSpec.leafExact_board _ ⟨b, o, k, bf⟩ o,
      show repGame.leafExact ⟨b', o, k, bf⟩ = game.leafExact (b', o) from RepSpec.leafExact_board _ ⟨b', o, k, bf⟩ o,
      leafExact_congr h]
  | succ d ih =>
    intro b b' o k bf h
    simp only [mm]
    rw [repMoves_congr h, repTerm_congr h]
    split
    · rfl
    · unfold Game.children
      rw [repMoves_congr h, RepSpec.mmFold_map, RepSpec.mmFold_map]
      apply mmFold_congr
      intro m _
      show mm repGame d ⟨make b m, [], k + 1, key b :: bf⟩ = mm repGame d ⟨make b' m, [], k + 1, key b' :: bf⟩
      rw [key_congr h]
      exact ih _ _ _ _ _ (make_congr h m)

theorem mm_rnode_congr (d : Nat) (Lb : List Board) {p p' : Board} (k : Nat) (h : vis p = vis p') :
    mm repGame d (rnode Lb p k) = mm repGame d (rnode Lb p' k) :=
  mm_rep_congr d p p' [] k _ h

/-! ## the specification value sees the line only inside the window -/

theorem isRepetition_window (b : Board) (o : List String) (k : Nat) {bf bf' : List Key}
    (h : bf.take b.halfmove = bf'.take b.halfmove) : isRepetition ⟨b, o, k, bf⟩ = isRepetition ⟨b, o, k, bf'⟩ := by
  unfold isRepetition RepSpec.occurrences
  simp only
  rw [h]

/-- **`mm repGame` depends on the line only through its last `halfmove` keys**: the positions before the last capture or pawn
move are never compared with anything again, at any depth -/
theorem mm_rep_window (d : Nat) : ∀ (b : Board) (o : List String) (k : Nat) (bf bf' : List Key),
    bf.take b.halfmove = bf'.take b.halfmove → mm repGame d ⟨b, o, k, bf⟩ = mm repGame d ⟨b, o, k, bf'⟩ := by
  have hmoves : ∀ (b : Board) (o : List String) (k : Nat) (bf bf' : List Key), bf.take b.halfmove = bf'.take b.halfmove →
      repGame.moves ⟨b, o, k, bf⟩ = repGame.moves ⟨b, o, k, bf'⟩ := by
    intro b o k bf bf' h
    show (if isRepetition ⟨b, o, k, bf⟩ then [] else rootMoves b o) = (if isRepetition ⟨b, o, k, bf'⟩ then [] else rootMoves b o)
    rw [isRepetition_window b o k h]
  have hterm : ∀ (b : Board) (o : List String) (k : Nat) (bf bf' : List Key), bf.take b.halfmove = bf'.take b.halfmove →
      repGame.term ⟨b, o, k, bf⟩ = repGame.term ⟨b, o, k, bf'⟩ := by
    intro b o k bf bf' h
    show (if isRepetition ⟨b, o, k, bf⟩ then RepSpec.repetitionValue k else evalFor b b.turn false) =
      (if isRepetition ⟨b, o, k, bf'⟩ then RepSpec.repetitionValue k else evalFor b b.turn false)
    rw [isRepetition_window b o k h]
  induction d with
  | zero =>
    intro b o k bf bf' h
    simp only [mm]
    rw [hmoves b o k bf bf' h, hterm b o k bf bf' h,
      show repGame.leafExact ⟨b, o, k, bf⟩ = game.leafExact (b, o) from RepSpec.leafExact_board _ ⟨b, o, k, bf⟩ o,
      show repGame.leafExact ⟨b, o, k, bf'⟩ = game.leafExact (b, o) from RepSpec.leafExact_board _ ⟨b, o, k, bf'⟩ o]
  | succ d ih =>
    intro b o k bf bf' h
    simp only [mm]
    rw [hmoves b o k bf bf' h, hterm b o k bf bf' h]
    split
    · rfl
    · unfold Game.children
      rw [hmoves b o k bf bf' h, RepSpec.mmFold_map, RepSpec.mmFold_map]
      apply mmFold_congr
      intro m _
      show mm repGame d ⟨make b m, [], k + 1, key b :: bf⟩ = mm repGame d ⟨make b m, [], k + 1, key b :: bf'⟩
      apply ih
      rw [make_halfmove]
      split
      · rfl
      · rw [List.take_succ_cons, List.take_succ_cons, h]

/-! ## which keys of the line a node really looks at -/

/-- the count of a node looks only at the keys at even distance, and only at whether they are the node's own key -/
theorem occ_congr (b : Board) (o : List String) (k : Nat) (bf bf' : List Key) (hlen : bf.length = bf'.length)
    (h : ∀ i, (i + 1) % 2 = 0 → (bf[i]? == some (key b)) = (bf'[i]? == some (key b))) :
    RepSpec.occurrences ⟨b, o, k, bf⟩ = RepSpec.occurrences ⟨b, o, k, bf'⟩ := by
  unfold RepSpec.occurrences
  simp only
  have hl : (bf.take b.halfmove).length = (bf'.take b.halfmove).length := by
    rw [List.length_take, List.length_take, hlen]
  rw [hl]
  congr 2
  apply List.filter_congr
  intro i hi
  have hi' : i < (bf'.take b.halfmove).length := List.mem_range.mp hi
  have hih : i < b.halfmove := by rw [List.length_take] at hi'; omega
  rw [List.getElem?_take_of_lt hih, List.getElem?_take_of_lt hih]
  by_cases hp : (i + 1) % 2 = 0
  · rw [h i hp]
  · have : ((i + 1) % 2 == 0) = false := by simpa using hp
    rw [this, Bool.false_and, Bool.false_and]

/-- the key of the parent (distance 1: the other side to move) is never looked at -/
theorem occ_head (b : Board) (o : List String) (k : Nat) (x y : Key) (r : List Key) :
    RepSpec.occurrences ⟨b, o, k, x :: r⟩ = RepSpec.occurrences ⟨b, o, k, y :: r⟩ := by
  apply occ_congr b o k (x :: r) (y :: r) rfl
  intro i hi
  cases i with
  | zero => omega
  | succ j => rw [List.getElem?_cons_succ, List.getElem?_cons_succ]

/-- a key at distance 2 that is not the node's key may be replaced by another such key -/
theorem occ_second (b : Board) (o : List String) (k : Nat) (z x y : Key) (r : List Key) (hx : x ≠ key b) (hy : y ≠ key b) :
    RepSpec.occurrences ⟨b, o, k, z :: x :: r⟩ = RepSpec.occurrences ⟨b, o, k, z :: y :: r⟩ := by
  apply occ_congr b o k (z :: x :: r) (z :: y :: r) rfl
  intro i hi
  cases i with
  | zero => omega
  | succ j =>
    cases j with
    | zero =>
      simp only [List.getElem?_cons_succ, List.getElem?_cons_zero]
      have e1 : (some x == some (key b)) = false := by simpa using hx
      have e2 : (some y == some (key b)) = false := by simpa using hy
      rw [e1, e2]
    | succ j => simp only [List.getElem?_cons_succ]

theorem isRepetition_of_occ (b : Board) (o : List String) (k : Nat) {bf bf' : List Key}
    (h : RepSpec.occurrences ⟨b, o, k, bf⟩ = RepSpec.occurrences ⟨b, o, k, bf'⟩) :
    isRepetition ⟨b, o, k, bf⟩ = isRepetition ⟨b, o, k, bf'⟩ := by
  unfold isRepetition
  rw [h]

/-- a horizon node depends on its line through the rule only -/
theorem mm_zero_line (b : Board) (o : List String) (k : Nat) {bf bf' : List Key}
    (h : isRepetition ⟨b, o, k, bf⟩ = isRepetition ⟨b, o, k, bf'⟩) :
    mm repGame 0 ⟨b, o, k, bf⟩ = mm repGame 0 ⟨b, o, k, bf'⟩ := by
  have hmoves : repGame.moves ⟨b, o, k, bf⟩ = repGame.moves ⟨b, o, k, bf'⟩ := by
    show (if isRepetition ⟨b, o, k, bf⟩ then [] else rootMoves b o) = (if isRepetition ⟨b, o, k, bf'⟩ then [] else rootMoves b o)
    rw [h]
  have hterm : repGame.term ⟨b, o, k, bf⟩ = repGame.term ⟨b, o, k, bf'⟩ := by
    show (if isRepetition ⟨b, o, k, bf⟩ then RepSpec.repetitionValue k else evalFor b b.turn false) =
      (if isRepetition ⟨b, o, k, bf'⟩ then RepSpec.repetitionValue k else evalFor b b.turn false)
    rw [h]
  simp only [mm]
  rw [hmoves, hterm,
    show repGame.leafExact ⟨b, o, k, bf⟩ = game.leafExact (b, o) from RepSpec.leafExact_board _ ⟨b, o, k, bf⟩ o,
    show repGame.leafExact ⟨b, o, k, bf'⟩ = game.leafExact (b, o) from RepSpec.leafExact_board _ ⟨b, o, k, bf'⟩ o]

/-- an interior node: the rule at the node, and its children on the extended lines -/
theorem mm_succ_line (d : Nat) (b : Board) (o : List String) (k : Nat) {bf bf' : List Key}
    (h : isRepetition ⟨b, o, k, bf⟩ = isRepetition ⟨b, o, k, bf'⟩)
    (hc : ∀ m ∈ rootMoves b o, mm repGame d ⟨make b m, [], k + 1, key b :: bf⟩ = mm repGame d ⟨make b m, [], k + 1, key b :: bf'⟩) :
    mm repGame (d + 1) ⟨b, o, k, bf⟩ = mm repGame (d + 1) ⟨b, o, k, bf'⟩ := by
  have hmoves : repGame.moves ⟨b, o, k, bf⟩ = repGame.moves ⟨b, o, k, bf'⟩ := by
    show (if isRepetition ⟨b, o, k, bf⟩ then [] else rootMoves b o) = (if isRepetition ⟨b, o, k, bf'⟩ then [] else rootMoves b o)
    rw [h]
  have hterm : repGame.term ⟨b, o, k, bf⟩ = repGame.term ⟨b, o, k, bf'⟩ := by
    show (if isRepetition ⟨b, o, k, bf⟩ then RepSpec.repetitionValue k else evalFor b b.turn false) =
      (if isRepetition ⟨b, o, k, bf'⟩ then RepSpec.repetitionValue k else evalFor b b.turn false)
    rw [h]
  simp only [mm]
  rw [hmoves, hterm]
  split
  · rfl
  · unfold Game.children
    rw [hmoves, RepSpec.mmFold_map, RepSpec.mmFold_map]
    apply mmFold_congr
    intro m hm
    have hm' : m ∈ rootMoves b o := by
      have : repGame.moves ⟨b, o, k, bf'⟩ = if isRepetition ⟨b, o, k, bf'⟩ then [] else rootMoves b o := rfl
      rw [this] at hm
      split at hm
      · cases hm
      · exact hm
    exact hc m hm'

/-- the node below the move `m` -/
theorem rnode_child (Lb : List Board) (p : Board) (k : Nat) (m : Move) :
    ({ board := make p m, only := [], ply := k + 1, before := key p :: (rnode Lb p k).before } : RPos) =
      rnode (Lb ++ [p]) (make p m) (k + 1) := by
  unfold rnode
  simp

/-! ## the transposition-table invariant -/

/-- the entry tells the truth about the path-dependent minimax value of its own draft at the specification node `n` -/
def REntryOK (n : RPos) (e : TtEntry) : Prop :=
  e.mv.value = e.value ∧
  match e.nodeType with
  | .exact => e.value = mm repGame e.depth n
  | .lower => e.value ≤ mm repGame e.depth n
  | .upper => mm repGame e.depth n ≤ e.value

def RTTOK (b0 : Board) (T : List Board) (D : Nat) (tt : Std.HashMap UInt64 TtEntry) : Prop :=
  ∀ h e, tt.get? h = some e →
    ∃ k Lb p, k < D ∧ RNode b0 T k Lb p ∧ Zobrist.hash p = h ∧ e.depth + k ≤ D ∧ REntryOK (rnode Lb p k) e

/-- **RHashInj** (explicit hypothesis, not an axiom): a node at which the search stores (`k' < D`) and a node at which it probes
(`k ≤ D`) that have the same hash stand at the same ply, show the same position and have the same specification values for every
draft the table can hold there — e.g. because their lines have the same keys INSIDE THE WINDOW of the repetition test (the last
`halfmove` positions: `rhashInj_of_window`, the executable sufficient condition), or because the keys in which the lines differ are
never compared with anything (`Proofs/SearchRepDeepHash.lean`: depth ≤ 3) -/
def RHashInj (b0 : Board) (T : List Board) (D : Nat) : Prop :=
  ∀ (k' k : Nat) (Lb' Lb : List Board) (p' p : Board), k' < D → k ≤ D → RNode b0 T k' Lb' p' → RNode b0 T k Lb p →
    Zobrist.hash p' = Zobrist.hash p →
      k' = k ∧ vis p' = vis p ∧ ∀ d, d + k ≤ D → mm repGame d (rnode Lb' p' k) = mm repGame d (rnode Lb p k)

theorem RHashInj.mono {b0 : Board} {T : List Board} {D D' : Nat} (h : RHashInj b0 T D) (hle : D' ≤ D) : RHashInj b0 T D' :=
  fun k' k Lb' Lb p' p h1 h2 hn' hn he =>
    let r := h k' k Lb' Lb p' p (by omega) (by omega) hn' hn he
    ⟨r.1, r.2.1, fun d hd => r.2.2 d (by omega)⟩

/-- the sufficient condition that can be evaluated: same ply, same visible position, same keys inside the window -/
theorem rhashInj_of_window {b0 : Board} {T : List Board} {D : Nat}
    (h : ∀ (k' k : Nat) (Lb' Lb : List Board) (p' p : Board), k' < D → k ≤ D → RNode b0 T k' Lb' p' → RNode b0 T k Lb p →
      Zobrist.hash p' = Zobrist.hash p →
        k' = k ∧ vis p' = vis p ∧ (Lb'.reverse.map key).take p'.halfmove = (Lb.reverse.map key).take p.halfmove) :
    RHashInj b0 T D := by
  intro k' k Lb' Lb p' p hk' hk hn' hn he
  obtain ⟨rfl, hv, hkeys⟩ := h k' k Lb' Lb p' p hk' hk hn' hn he
  refine ⟨rfl, hv, fun d _ => ?_⟩
  unfold rnode
  rw [mm_rep_window d p' [] k' _ (Lb.reverse.map key) (by rw [hkeys, halfmove_congr hv])]
  exact mm_rep_congr d p' p [] k' _ hv

theorem rttok_empty (b0 : Board) (T : List Board) (D : Nat) : RTTOK b0 T D {} := by
  intro h e he
  simp at he

theorem rttok_mono {b0 : Board} {T : List Board} {D D' : Nat} {tt : Std.HashMap UInt64 TtEntry} (h : RTTOK b0 T D tt)
    (hle : D ≤ D') : RTTOK b0 T D' tt := by
  intro x e he
  obtain ⟨k, Lb, p, h1, h2, h3, h4, h5⟩ := h x e he
  exact ⟨k, Lb, p, by omega, h2, h3, by omega, h5⟩

theorem rttok_insert {b0 : Board} {T : List Board} {D : Nat} {tt : Std.HashMap UInt64 TtEntry} (h : RTTOK b0 T D tt)
    {k : Nat} {Lb : List Board} {p : Board} (hk : k < D) (hr : RNode b0 T k Lb p) (e : TtEntry) (hd : e.depth + k ≤ D)
    (he : REntryOK (rnode Lb p k) e) : RTTOK b0 T D (tt.insert (Zobrist.hash p) e) := by
  intro x e' hget
  simp only [Std.HashMap.get?_eq_getElem?, Std.HashMap.getElem?_insert] at hget
  split at hget
  · rename_i hx
    cases hget
    exact ⟨k, Lb, p, hk, hr, by simpa using hx, hd, he⟩
  · exact h x e' (by simpa [Std.HashMap.get?_eq_getElem?] using hget)

/-- every entry for the hash of a node is an entry of that node on that line -/
theorem rttok_entry {b0 : Board} {T : List Board} {D : Nat} {tt : Std.HashMap UInt64 TtEntry} (h : RTTOK b0 T D tt)
    (hinj : RHashInj b0 T D) {k : Nat} {Lb : List Board} {p : Board} (hk : k ≤ D) (hr : RNode b0 T k Lb p) {e : TtEntry}
    (he : tt.get? (Zobrist.hash p) = some e) : k < D ∧ e.depth + k ≤ D ∧ REntryOK (rnode Lb p k) e := by
  obtain ⟨k', Lb', p', h1, h2, h3, h4, h5⟩ := h _ e he
  obtain ⟨rfl, hv, hvals⟩ := hinj k' k Lb' Lb p' p h1 hk h2 hr h3
  refine ⟨h1, h4, h5.1, ?_⟩
  have e1 : mm repGame e.depth (rnode Lb' p' k') = mm repGame e.depth (rnode Lb p k') := hvals e.depth h4
  have := h5.2
  rw [e1] at this
  exact this

/-! ## the explicit hypotheses -/

structure RHyp (b0 : Board) (T : List Board) (D : Nat) : Prop where
  line : IsLine (b0 :: T)
  inv : Inv (T.length + D) b0
  /-- the 16-bit ply clock does not wrap within game + search -/
  nowrap : ply2 b0 + (T.length + D) < 65536
  /-- no node below the root hashes to zero (the content of the never written history cells) -/
  nz : ∀ (k : Nat) (Lb : List Board) (p : Board), 1 ≤ k → k ≤ D → RNode b0 T k Lb p → Zobrist.hash p ≠ 0
  /-- no collision between a node and the positions of its line inside the window of the repetition test -/
  coll : ∀ (k : Nat) (Lb : List Board) (p : Board), 1 ≤ k → k ≤ D → RNode b0 T k Lb p → ∀ (i : Nat) (b : Board),
    Lb[i]? = some b → Lb.length - p.halfmove ≤ i → Zobrist.hash b = Zobrist.hash p → HashKey b = HashKey p
  inj : RHashInj b0 T D
  qb : ∀ (k : Nat) (Lb : List Board) (p : Board), k ≤ D → RNode b0 T k Lb p → QDepth quiescenceFuel p

theorem RHyp.mono {b0 : Board} {T : List Board} {D D' : Nat} (h : RHyp b0 T D) (hle : D' ≤ D) : RHyp b0 T D' :=
  ⟨h.line, Inv_mono (by omega) h.inv, by have := h.nowrap; omega, fun k Lb p h1 h2 => h.nz k Lb p h1 (by omega),
    fun k Lb p h1 h2 => h.coll k Lb p h1 (by omega), h.inj.mono hle, fun k Lb p h1 => h.qb k Lb p (by omega)⟩

/-- table invariant, the history holds the line, not stopped, no `searchmoves` restriction -/
structure RSOK (b0 : Board) (T : List Board) (D : Nat) (Lb : List Board) (s : St) : Prop where
  tt : RTTOK b0 T D s.tt
  hist : LineHist (plyClock b0) Lb s.history
  stop : s.stop = false
  sm : s.go.searchMoves = []

theorem RSOK.setBoard {b0 : Board} {T : List Board} {D : Nat} {Lb : List Board} {s : St} (h : RSOK b0 T D Lb s) (b : Board) :
    RSOK b0 T D Lb { s with board := b } := ⟨h.tt, h.hist, h.stop, h.sm⟩

theorem RSOK.mono {b0 : Board} {T : List Board} {D D' : Nat} {Lb : List Board} {s : St} (h : RSOK b0 T D Lb s) (hle : D ≤ D') :
    RSOK b0 T D' Lb s := ⟨rttok_mono h.tt hle, h.hist, h.stop, h.sm⟩

theorem RSOK.setKillers {b0 : Board} {T : List Board} {D : Nat} {Lb : List Board} {s : St} (h : RSOK b0 T D Lb s)
    (k : List Move) : RSOK b0 T D Lb { s with killers := k } := ⟨h.tt, h.hist, h.stop, h.sm⟩

/-! ## the repetition test of a node -/

section
variable {b0 : Board} {T : List Board} {D : Nat} (H : RHyp b0 T D)
include H

/-- the ply clock of a node -/
theorem plyClock_node {k : Nat} {Lb : List Board} {p : Board} (hk : k ≤ D) (hn : RNode b0 T k Lb p) {c : Board}
    (hv : vis c = vis p) : plyClock c = plyClock b0 + Lb.length := by
  obtain ⟨_, hp⟩ := hn.facts H.inv (by omega)
  have hnw := H.nowrap
  rw [plyClock_congr hv, plyClock_of_ply2 (by omega), plyClock_of_ply2 (by omega), hp, hn.length]

/-- the hypotheses of the node theorem of `Proofs/SearchRepNode.lean` -/
theorem nodeHyp_of {k : Nat} {Lb : List Board} {p : Board} (hk1 : 1 ≤ k) (hk : k ≤ D) (hn : RNode b0 T k Lb p) {s : St}
    (hv : vis s.board = vis p) (hh : LineHist (plyClock b0) Lb s.history) :
    ∃ T', Lb = b0 :: T' ∧ NodeHyp b0 T' s := by
  obtain ⟨j, rfl⟩ : ∃ j, k = j + 1 := ⟨k - 1, by omega⟩
  obtain ⟨T', rfl, hlen⟩ := hn.cons
  refine ⟨T', rfl, ?_, Inv_mono (by omega) H.inv, by have := H.nowrap; omega, hh, ?_, ?_⟩
  · have := isLine_congr_last _ _ _ hn.isLine hv
    rw [List.cons_append] at this
    exact this
  · rw [hash_congr hv]; exact H.nz _ _ _ hk1 hk hn
  · intro i b hb hw he
    rw [hashKey_vis hv]
    rw [hash_congr hv] at he
    rw [halfmove_congr hv] at hw
    exact H.coll _ _ _ hk1 hk hn i b hb (by simp only [List.length_cons]; exact hw) he

/-- **the repetition test of the search node ⇔ the rule of the specification node** -/
theorem rep_iff {k : Nat} {Lb : List Board} {p : Board} (hk1 : 1 ≤ k) (hk : k ≤ D) (hn : RNode b0 T k Lb p) {s : St}
    (hv : vis s.board = vis p) (hh : LineHist (plyClock b0) Lb s.history) :
    isRep (enter s (Zobrist.hash s.board)) k = isRepetition (rnode Lb p k) := by
  obtain ⟨T', rfl, hN⟩ := nodeHyp_of H hk1 hk hn hv hh
  have h1 := isRep_enter_iff hN k (by omega)
  have h2 : isRepetition (rnode (b0 :: T') p k) = true ↔ 3 ≤ SearchRep.occurrences (b0 :: T') p :=
    C10Rep.isRepetition_iff_occurrences (b0 :: T') p hn.isLine [] k (by omega)
  rw [occurrences_congr _ hv] at h1
  rw [Bool.eq_iff_iff, h1, h2]

end

/-! ## bounds -/

/-- the child of a specification node -/
def rchild (p : RPos) (m : Move) : RPos :=
  { board := make p.board m, only := [], ply := p.ply + 1, before := key p.board :: p.before }

theorem mm_succ_rchild (d : Nat) (p : RPos) (h : isRepetition p = false) (hn : rootMoves p.board p.only ≠ []) :
    mm repGame (d + 1) p = mmFold (mm repGame d) lossScore ((rootMoves p.board p.only).map (rchild p)) :=
  RepSpec.mm_succ_norep d p h hn

theorem rep_bounds : ∀ (d : Nat) (p : RPos), Small p.board d →
    lossScore + (p.board.fullmove : Int) ≤ mm repGame d p ∧
      mm repGame d p ≤ Gen.winScore - ((p.board.fullmove : Int) + (p.board.turn : Int)) := by
  have hw := winScore_val
  have hl := lossScore_val
  intro d
  induction d with
  | zero =>
    intro p hs
    obtain ⟨h1, h2⟩ := hs
    cases hr : isRepetition p with
    | true =>
      rw [RepSpec.mm_repetition 0 p hr]
      have := RepSpec.repetitionValue_bound p.ply
      omega
    | false =>
      by_cases ht : rootMoves p.board p.only = []
      · rw [RepSpec.mm_norep_terminal 0 p hr ht, term_value']
        split <;> omega
      · rw [RepSpec.mm_zero_norep p hr ht]
        have hb : -176000 ≤ game.leafExact (p.board, p.only) ∧ game.leafExact (p.board, p.only) ≤ 176000 :=
          game_leaf_bound byMvvLva (p.board, p.only)
        omega
  | succ d ih =>
    intro p hs
    have hs' := hs
    obtain ⟨h1, h2⟩ := hs
    cases hr : isRepetition p with
    | true =>
      rw [RepSpec.mm_repetition _ p hr]
      have := RepSpec.repetitionValue_bound p.ply
      omega
    | false =>
      by_cases ht : rootMoves p.board p.only = []
      · rw [RepSpec.mm_norep_terminal _ p hr ht, term_value']
        split <;> omega
      · rw [mm_succ_rchild d p hr ht]
        constructor
        · obtain ⟨m, hm⟩ := List.exists_mem_of_ne_nil _ ht
          have h3 := Minimax.neg_le_mmFold (mm repGame d) lossScore _ _ (List.mem_map.mpr ⟨m, hm, rfl⟩ :
            rchild p m ∈ (rootMoves p.board p.only).map (rchild p))
          have h4 := (ih (rchild p m) (small_child hs' m)).2
          have e1 : (rchild p m).board.turn = 1 - p.board.turn := make_turn _ _
          have e2 : (rchild p m).board.fullmove = p.board.fullmove + p.board.turn := make_fullmove _ _
          rw [e1, e2] at h4
          omega
        · apply mmFold_le _ _ _ _ (by omega)
          intro c hc
          obtain ⟨m, _, rfl⟩ := List.mem_map.mp hc
          have h4 := (ih (rchild p m) (small_child hs' m)).1
          have e2 : (rchild p m).board.fullmove = p.board.fullmove + p.board.turn := make_fullmove _ _
          rw [e2] at h4
          omega

/-- a value of a node with a legal move, one ply above nodes with small clocks, is strictly inside the score range -/
theorem rep_root_bounds (d : Nat) (p : RPos) (hr : isRepetition p = false) (hs : Small p.board (d + 1))
    (hfm : 1 ≤ p.board.fullmove) (hne : rootMoves p.board p.only ≠ []) :
    lossScore < mm repGame (d + 1) p ∧ mm repGame (d + 1) p < Gen.winScore := by
  have hw := winScore_val
  have hl := lossScore_val
  rw [mm_succ_rchild d p hr hne]
  obtain ⟨h1, h2⟩ := hs
  constructor
  · obtain ⟨m, hm⟩ := List.exists_mem_of_ne_nil _ hne
    have h3 := Minimax.neg_le_mmFold (mm repGame d) lossScore _ _ (List.mem_map.mpr ⟨m, hm, rfl⟩ :
      rchild p m ∈ (rootMoves p.board p.only).map (rchild p))
    have h4 := (rep_bounds d (rchild p m) (small_child ⟨h1, h2⟩ m)).2
    have e1 : (rchild p m).board.turn = 1 - p.board.turn := make_turn _ _
    have e2 : (rchild p m).board.fullmove = p.board.fullmove + p.board.turn := make_fullmove _ _
    rw [e1, e2] at h4
    omega
  · have : mmFold (mm repGame d) lossScore ((rootMoves p.board p.only).map (rchild p)) ≤ Gen.winScore - 1 := by
      apply mmFold_le _ _ _ _ (by omega)
      intro c hc
      obtain ⟨m, _, rfl⟩ := List.mem_map.mp hc
      have h4 := (rep_bounds d (rchild p m) (small_child ⟨h1, h2⟩ m)).1
      have e2 : (rchild p m).board.fullmove = p.board.fullmove + p.board.turn := make_fullmove _ _
      rw [e2] at h4
      omega
    omega

end Inkayaku.SearchRepDeep
