import Inkayaku.Proofs.GenSpecPieces
/-!
# C01, part 5: pawns — pushes, double pushes, captures, en passant, the four promotions

`Spec.pawnMoves p white s` is split (definitionally) into `specPushes ++ specCaptures`.

* `pushes_eq`: the pushes generated for the pawn on `s` (`pawnStepK`, square arithmetic `s ∓ 8`, `s ∓ 16`) ARE the
  Spec's pushes, as lists (same order: queen, rook, bishop, knight; single step before double step);
* `capture_iff`: for every target `t`, "`t` is in the capture set `pawnAttSet` and the key is generated for `t`" iff
  "`t` is diagonally ahead and the Spec allows the capture / en-passant capture / capturing promotion";
* `mem_pawnK`: membership in `pawnAttacksK ++ pawnMovesK` in the vocabulary of the Spec.

Uses of well-formedness: disjoint words; no pawn on ranks 1/8 (`8 ≤ s < 56`); the e.p. square, when set, is empty and
lies on rank 3/6 (conjunct (6) of `WF.wf`), which makes `b.ep = 0` ("none", also the index of a8) harmless.
-/
namespace Inkayaku.GenSpec
open Inkayaku.Board Inkayaku.Gen Inkayaku.Bits Inkayaku.Geometry Inkayaku.Attack Inkayaku.Abs Inkayaku.Spec

/-! ## the Spec's pawn moves in two parts -/

def withPromo (white : Bool) (s t : Nat) : List SMove :=
  if rowOf t == (if white then 0 else 7) then promoKinds.map fun k => ⟨s, t, some k⟩ else [⟨s, t, none⟩]

def specPushes (p : Pos) (white : Bool) (s : Nat) : List SMove :=
  let dir : Int := if white then -1 else 1
  let startRow : Int := if white then 6 else 1
  let f := fileOf s
  let r := rowOf s
  if inside f (r + dir) && (p.at (mkSq f (r + dir))).isNone then
    withPromo white s (mkSq f (r + dir)) ++
      (if r == startRow && (p.at (mkSq f (r + 2 * dir))).isNone then [⟨s, mkSq f (r + 2 * dir), none⟩] else [])
  else []

def capAt (p : Pos) (white : Bool) (s t : Nat) : List SMove :=
  match p.at t with
  | some victim => if victim.white != white then withPromo white s t else []
  | none => if p.ep == some t then [⟨s, t, none⟩] else []

def capDir (white : Bool) : Int := if white then -1 else 1

def specCaptures (p : Pos) (white : Bool) (s : Nat) : List SMove :=
  [(-1 : Int), 1].flatMap fun df =>
    if inside (fileOf s + df) (rowOf s + capDir white) then
      capAt p white s (mkSq (fileOf s + df) (rowOf s + capDir white))
    else []

theorem pawnMoves_split (p : Pos) (white : Bool) (s : Nat) :
    Spec.pawnMoves p white s = specPushes p white s ++ specCaptures p white s := rfl

/-! ## pushes -/

theorem specPushes_white (p : Pos) (s : Nat) (h8 : 8 ≤ s) (_h56 : s < 56) :
    specPushes p true s =
      if (p.at (s - 8)).isNone then
        withPromo true s (s - 8) ++ (if decide (48 ≤ s) && (p.at (s - 16)).isNone then [⟨s, s - 16, none⟩] else [])
      else [] := by
  have hin : inside (fileOf s) (rowOf s + -1) = true := by
    unfold inside fileOf rowOf
    simp only [Bool.and_eq_true, decide_eq_true_eq]; omega
  have h1 : mkSq (fileOf s) (rowOf s + -1) = s - 8 := by unfold mkSq fileOf rowOf; omega
  have h2 : mkSq (fileOf s) (rowOf s + 2 * -1) = s - 16 := by unfold mkSq fileOf rowOf; omega
  have h3 : (rowOf s == 6) = decide (48 ≤ s) := by
    unfold rowOf; rw [Bool.eq_iff_iff]; simp only [beq_iff_eq, decide_eq_true_eq]; omega
  unfold specPushes
  simp only [if_true, hin, h1, h2, h3, Bool.true_and]

theorem specPushes_black (p : Pos) (s : Nat) (_h8 : 8 ≤ s) (h56 : s < 56) :
    specPushes p false s =
      if (p.at (s + 8)).isNone then
        withPromo false s (s + 8) ++ (if decide (s < 16) && (p.at (s + 16)).isNone then [⟨s, s + 16, none⟩] else [])
      else [] := by
  have hin : inside (fileOf s) (rowOf s + 1) = true := by
    unfold inside fileOf rowOf
    simp only [Bool.and_eq_true, decide_eq_true_eq]; omega
  have h1 : mkSq (fileOf s) (rowOf s + 1) = s + 8 := by unfold mkSq fileOf rowOf; omega
  have h2 : mkSq (fileOf s) (rowOf s + 2 * 1) = s + 16 := by unfold mkSq fileOf rowOf; omega
  have h3 : (rowOf s == 1) = decide (s < 16) := by
    unfold rowOf; rw [Bool.eq_iff_iff]; simp only [beq_iff_eq, decide_eq_true_eq]; omega
  unfold specPushes
  simp only [Bool.false_eq_true, if_false, hin, h1, h2, h3, Bool.true_and]

theorem rowOf_zero (t : Nat) : (rowOf t == 0) = decide (t < 8) := by
  unfold rowOf; rw [Bool.eq_iff_iff]; simp only [beq_iff_eq, decide_eq_true_eq]; omega

theorem rowOf_seven (t : Nat) (ht : t < 64) : (rowOf t == 7) = decide (56 ≤ t) := by
  unfold rowOf; rw [Bool.eq_iff_iff]; simp only [beq_iff_eq, decide_eq_true_eq]; omega

theorem map_mv_promoK (s t : Nat) : (promoK s t).map Key.mv = promoKinds.map fun k => ⟨s, t, some k⟩ := rfl

/-- **pawn pushes: the generated list is the Spec's list** (`occ` = any word with the occupied squares) -/
theorem pushes_eq (b : Board) (occ : UInt64) (hocc : ∀ q, testU occ q = testU (b.white.full ||| b.black.full) q)
    (white : Bool) (s : Nat) (h8 : 8 ≤ s) (h56 : s < 56) :
    (pawnStepK white occ s).map Key.mv = specPushes (abs b) white s := by
  have hnone : ∀ q, ((abs b).at q).isNone = !testU occ q := by
    intro q
    rw [hocc, ← at_isSome]
    cases (abs b).at q <;> rfl
  unfold pawnStepK
  cases white
  · rw [specPushes_black _ s h8 h56, hnone, hnone]
    simp only [Bool.false_eq_true, if_false]
    cases h1 : testU occ (s + 8)
    · simp only [Bool.false_eq_true, if_false, Bool.not_false, if_true]
      have hl : lastRank (s + 8) = decide (56 ≤ s + 8) := by
        unfold lastRank
        have : decide (s + 8 < 8) = false := by simp
        rw [this, Bool.false_or]
      unfold withPromo
      simp only [Bool.false_eq_true, if_false]
      rw [hl, rowOf_seven _ (by omega)]
      by_cases h2 : 56 ≤ s + 8
      · have h16 : decide (s < 16) = false := by simp; omega
        simp only [h2, decide_true, if_true, h16, Bool.false_and, Bool.false_eq_true, if_false, List.append_nil]
        rfl
      · simp only [h2, decide_false, Bool.false_eq_true, if_false]
        split <;> rfl
    · simp
  · rw [specPushes_white _ s h8 h56, hnone, hnone]
    simp only [if_true]
    cases h1 : testU occ (s - 8)
    · simp only [Bool.false_eq_true, if_false, Bool.not_false, if_true]
      have hl : lastRank (s - 8) = decide (s - 8 < 8) := by
        unfold lastRank
        have : decide (56 ≤ s - 8) = false := by simp; omega
        rw [this, Bool.or_false]
      unfold withPromo
      simp only [if_true]
      rw [hl, rowOf_zero]
      by_cases h2 : s - 8 < 8
      · have h48 : decide (48 ≤ s) = false := by simp; omega
        simp only [h2, decide_true, if_true, h48, Bool.false_and, Bool.false_eq_true, if_false, List.append_nil]
        rfl
      · simp only [h2, decide_false, Bool.false_eq_true, if_false]
        split <;> rfl
    · simp

/-! ## captures: geometry -/

/-- the two capture squares of the Spec are exactly the squares of the pawn-attack relation -/
def capGeomOK (white : Bool) : Bool :=
  (List.range 64).all fun s => (List.range 64).all fun t =>
    ([(-1 : Int), 1].any fun df =>
      inside (fileOf s + df) (rowOf s + capDir white) && (t == mkSq (fileOf s + df) (rowOf s + capDir white)))
      == pawnGeom white s t

theorem capGeomOK_white : capGeomOK true = true := by decide +kernel
theorem capGeomOK_black : capGeomOK false = true := by decide +kernel

/-- a capture from a square off ranks 1/8 lands on the last rank iff it lands on the mover's promotion row -/
def lastRankOK (white : Bool) : Bool :=
  (List.range 64).all fun s => (List.range 64).all fun t =>
    !(decide (8 ≤ s) && decide (s < 56) && pawnGeom white s t) ||
      (lastRank t == (rowOf t == (if white then 0 else 7)))

theorem lastRankOK_white : lastRankOK true = true := by decide +kernel
theorem lastRankOK_black : lastRankOK false = true := by decide +kernel

private theorem all2 {f : Nat → Nat → Bool}
    (h : ((List.range 64).all fun a => (List.range 64).all fun b => f a b) = true)
    {a b : Nat} (ha : a < 64) (hb : b < 64) : f a b = true := by
  rw [List.all_eq_true] at h
  have := h a (List.mem_range.mpr ha)
  rw [List.all_eq_true] at this
  exact this b (List.mem_range.mpr hb)

theorem capGeom (white : Bool) {s t : Nat} (hs : s < 64) (ht : t < 64) :
    pawnGeom white s t = true ↔
      ∃ df ∈ [(-1 : Int), 1], inside (fileOf s + df) (rowOf s + capDir white) = true ∧
        t = mkSq (fileOf s + df) (rowOf s + capDir white) := by
  have h : capGeomOK white = true := by cases white; exact capGeomOK_black; exact capGeomOK_white
  have := all2 h hs ht
  rw [beq_iff_eq] at this
  rw [← this, List.any_eq_true]
  simp only [Bool.and_eq_true, beq_iff_eq]

theorem lastRank_geom (white : Bool) {s t : Nat} (h8 : 8 ≤ s) (h56 : s < 56) (ht : t < 64)
    (hg : pawnGeom white s t = true) : lastRank t = (rowOf t == (if white then 0 else 7)) := by
  have h : lastRankOK white = true := by cases white; exact lastRankOK_black; exact lastRankOK_white
  have := all2 h (show s < 64 by omega) ht
  simp only [hg, Bool.and_true, Bool.or_eq_true, Bool.not_eq_true', Bool.and_eq_false_iff, decide_eq_false_iff_not,
    beq_iff_eq] at this
  rcases this with (h | h) | h
  · omega
  · omega
  · exact h

theorem inside_lt {f r : Int} (h : inside f r = true) : mkSq f r < 64 := by
  unfold inside at h
  simp only [Bool.and_eq_true, decide_eq_true_eq] at h
  unfold mkSq; omega

theorem mem_ite_nil {α : Type} {c : Prop} [Decidable c] {l : List α} {x : α} :
    x ∈ (if c then l else []) ↔ c ∧ x ∈ l := by
  split <;> simp_all

theorem mem_specCaptures (p : Pos) (white : Bool) (s : Nat) (hs : s < 64) (sm : SMove) :
    sm ∈ specCaptures p white s ↔ ∃ t, t < 64 ∧ pawnGeom white s t = true ∧ sm ∈ capAt p white s t := by
  unfold specCaptures
  rw [List.mem_flatMap]
  constructor
  · rintro ⟨df, hdf, h⟩
    rw [mem_ite_nil] at h
    exact ⟨_, inside_lt h.1, (capGeom white hs (inside_lt h.1)).mpr ⟨df, hdf, h.1, rfl⟩, h.2⟩
  · rintro ⟨t, ht, hg, hm⟩
    obtain ⟨df, hdf, hin, rfl⟩ := (capGeom white hs ht).mp hg
    exact ⟨df, hdf, mem_ite_nil.mpr ⟨hin, hm⟩⟩

/-! ## captures: the model's capture set -/

theorem rank18_iff : ∀ t, t < 64 → testU rank18 t = lastRank t := by decide

/-- what the pawn generators use of `WF.wf` beyond `GenOK.WFacts` -/
structure PawnWF (b : Board) : Prop where
  disjoint : Disjoint b
  facts : GenOK.WFacts b
  epEmpty : b.ep ≠ 0 → testU (b.white.full ||| b.black.full) b.ep = false
  epRank : b.ep ≠ 0 → lastRank b.ep = false

theorem pawnWF_of_wf {b : Board} (h : WF.wf b = true) : PawnWF b := by
  have hf := GenOK.wf_facts h
  refine ⟨(Check.struct_of_wf h).1.disjoint, hf, ?_, ?_⟩
  · intro hne
    unfold WF.wf at h
    simp only [Bool.and_eq_true, Bool.or_eq_true, Bool.not_eq_true', decide_eq_true_eq, beq_iff_eq] at h
    obtain ⟨⟨⟨⟨-, c11⟩, -⟩, -⟩, -⟩ := h
    rcases c11 with c11 | c11
    · exact absurd c11 hne
    · split at c11 <;> simp only [Bool.and_eq_true, beq_iff_eq, Bool.not_eq_true'] at c11 <;> exact c11.1.2
  · intro hne
    have hep := hf.epOK hne
    have hmid : 8 ≤ b.ep ∧ b.ep < 56 := by
      by_cases ht0 : b.turn = 0
      · rw [if_pos ht0] at hep; omega
      · rw [if_neg ht0] at hep; omega
    unfold lastRank
    simp only [Bool.or_eq_false_iff, decide_eq_false_iff_not]
    omega

theorem map_mv_pawnAttackK (white : Bool) {s t : Nat} (h8 : 8 ≤ s) (h56 : s < 56) (ht : t < 64)
    (hg : pawnGeom white s t = true) : (pawnAttackK s t).map Key.mv = withPromo white s t := by
  unfold pawnAttackK withPromo
  rw [lastRank_geom white h8 h56 ht hg]
  generalize (rowOf t == (if white then 0 else 7)) = c
  cases c <;> rfl

/-- **pawn captures, en passant and capturing promotions**: for the pawn of the side to move on `s` and any target
`t`: the generator produces `sm` for `t` iff the Spec does -/
theorem capture_iff {b : Board} (hw : PawnWF b) {s t : Nat} (h8 : 8 ≤ s) (h56 : s < 56) (sm : SMove) :
    (testU (pawnAttSet b b.active.full b.passive.full s) t = true ∧ sm ∈ (pawnAttackK s t).map Key.mv) ↔
      (t < 64 ∧ pawnGeom b.whiteTurn s t = true ∧ sm ∈ capAt (abs b) b.whiteTurn s t) := by
  have hd := hw.disjoint
  by_cases ht : t < 64
  case neg =>
    constructor
    · rintro ⟨h, -⟩; exact absurd (testU_lt h) ht
    · rintro ⟨h, -⟩; exact absurd h ht
  have hs : s < 64 := by omega
  have hact := own_iff b hd b.whiteTurn t ht
  have hpas := own_iff b hd (!b.whiteTurn) t ht
  rw [← active_eq] at hact
  rw [← passive_eq] at hpas
  have hset : testU (pawnAttSet b b.active.full b.passive.full s) t =
      (pawnGeom b.whiteTurn s t && (testU b.passive.full t || (decide (b.ep = t) && !lastRank t))
        && !testU b.active.full t) := by
    unfold pawnAttSet
    rw [testU_and, testU_and, testU_or, testU_and, testU_not, testU_not, testU_bitU b.ep t hw.facts.basic.ep,
      rank18_iff t ht, fwd_pawn (abs b) b.whiteTurn s t hs ht, attacksGeom_pawn]
    simp [ht]
  rw [hset]
  simp only [ht, true_and]
  cases hat : (abs b).at t with
  | none =>
    have ha : testU b.active.full t = false := by
      cases h : testU b.active.full t
      · rfl
      · obtain ⟨k, hk⟩ := hact.mp h; rw [hat] at hk; cases hk
    have hp : testU b.passive.full t = false := by
      cases h : testU b.passive.full t
      · rfl
      · obtain ⟨k, hk⟩ := hpas.mp h; rw [hat] at hk; cases hk
    have hcap : capAt (abs b) b.whiteTurn s t = if (abs b).ep == some t then [⟨s, t, none⟩] else [] := by
      unfold capAt; rw [hat]
    rw [hcap, ha, hp]
    have hep : ((abs b).ep == some t) = (decide (b.ep = t) && !lastRank t) := by
      unfold abs
      simp only
      by_cases h0 : b.ep = 0
      · have : (b.ep == 0) = true := by simpa using h0
        rw [this]
        by_cases he : b.ep = t
        · have : lastRank t = true := by rw [← he, h0]; decide
          simp [this]
        · simp [he]
      · have : (b.ep == 0) = false := by simpa using h0
        rw [this]
        by_cases he : b.ep = t
        · have : lastRank t = false := by rw [← he]; exact hw.epRank h0
          simp [this, he]
        · simp [he]
    rw [hep]
    simp only [Bool.false_or, Bool.not_false, Bool.and_true, Bool.and_eq_true]
    constructor
    · rintro ⟨⟨hg, he⟩, hm⟩
      refine ⟨hg, ?_⟩
      have hl : lastRank t = false := by simpa using he.2
      unfold pawnAttackK at hm
      rw [hl] at hm
      simp only [he]
      exact hm
    · rintro ⟨hg, hm⟩
      rw [mem_ite_nil] at hm
      have hl : lastRank t = false := by simpa using hm.1.2
      refine ⟨⟨hg, by simpa using hm.1⟩, ?_⟩
      unfold pawnAttackK
      rw [hl]
      exact hm.2
  | some v =>
    obtain ⟨vw, vk⟩ := v
    have hepF : (decide (b.ep = t) && !lastRank t) = false := by
      by_cases he : b.ep = t
      · by_cases h0 : b.ep = 0
        · have : lastRank t = true := by rw [← he, h0]; decide
          simp [this]
        · have := hw.epEmpty h0
          rw [he, ← at_isSome, hat] at this
          cases this
      · simp [he]
    have hcap : capAt (abs b) b.whiteTurn s t = if (vw != b.whiteTurn) = true then withPromo b.whiteTurn s t else [] := by
      unfold capAt; rw [hat]
    rw [hcap, hepF, Bool.or_false, mem_ite_nil]
    by_cases hvw : vw = b.whiteTurn
    · have ha : testU b.active.full t = true := hact.mpr ⟨vk, by rw [← hvw]; exact hat⟩
      simp [ha, hvw]
    · have ha : testU b.active.full t = false := by
        cases h : testU b.active.full t
        · rfl
        · obtain ⟨k, hk⟩ := hact.mp h
          rw [hat] at hk
          simp only [Option.some.injEq, Spec.Piece.mk.injEq] at hk
          exact absurd hk.1 hvw
      have hp : testU b.passive.full t = true := by
        apply hpas.mpr
        refine ⟨vk, ?_⟩
        have : vw = !b.whiteTurn := by cases vw <;> cases hh : b.whiteTurn <;> simp_all
        rw [← this]; exact hat
      have hne : (vw != b.whiteTurn) = true := by simpa using hvw
      rw [ha, hp, hne]
      simp only [Bool.and_true, Bool.not_false, true_and]
      constructor
      · rintro ⟨hg, hm⟩
        exact ⟨hg, by rwa [← map_mv_pawnAttackK b.whiteTurn h8 h56 ht hg]⟩
      · rintro ⟨hg, hm⟩
        exact ⟨hg, by rwa [map_mv_pawnAttackK b.whiteTurn h8 h56 ht hg]⟩

/-! ## all moves of the pawns of the side to move -/

/-- the Spec's condition for a pawn move: a pawn of the side to move stands on `s` and the movement rules allow `sm` -/
def PawnStep (p : Pos) (sm : SMove) : Prop :=
  ∃ s, s < 64 ∧ p.at s = some ⟨p.whiteToMove, .pawn⟩ ∧ sm ∈ Spec.pawnMoves p p.whiteToMove s

theorem piece_pawnAttackK {s t : Nat} {x : Key} (h : x ∈ pawnAttackK s t) : x.piece = PAWN ∧ x.castle = false := by
  unfold pawnAttackK at h
  split at h
  · simp only [promoK, List.mem_cons, List.not_mem_nil, or_false] at h
    rcases h with rfl | rfl | rfl | rfl <;> exact ⟨rfl, rfl⟩
  · simp only [List.mem_singleton] at h
    subst h; exact ⟨rfl, rfl⟩

theorem piece_pushes {occ : UInt64} {s t1 t2 : Nat} {c : Bool} {x : Key}
    (h : x ∈ (if testU occ t1 then [] else if lastRank t1 then promoK s t1
      else quiet PAWN s t1 :: (if c && !testU occ t2 then [quiet PAWN s t2] else []))) :
    x.piece = PAWN ∧ x.castle = false := by
  split at h
  · cases h
  · split at h
    · simp only [promoK, List.mem_cons, List.not_mem_nil, or_false] at h
      rcases h with rfl | rfl | rfl | rfl <;> exact ⟨rfl, rfl⟩
    · rw [List.mem_cons] at h
      rcases h with rfl | h
      · exact ⟨rfl, rfl⟩
      · rw [mem_ite_nil, List.mem_singleton] at h
        rw [h.2]; exact ⟨rfl, rfl⟩

theorem piece_pawnStepK {w : Bool} {occ : UInt64} {s : Nat} {x : Key} (h : x ∈ pawnStepK w occ s) :
    x.piece = PAWN ∧ x.castle = false := by
  unfold pawnStepK at h
  exact piece_pushes h

/-- **pawns**: a key is generated by `pawnAttacks` or `pawnMoves` iff it is a pawn key whose move the Spec allows -/
theorem mem_pawnK {b : Board} (hw : PawnWF b) (x : Key) :
    (x ∈ pawnAttacksK b b.active.pawns b.active.full b.passive.full ∨
      x ∈ pawnMovesK b.whiteTurn b.active.pawns (b.active.full ||| b.passive.full)) ↔
      x.piece = PAWN ∧ x.castle = false ∧ PawnStep (abs b) x.mv := by
  have hd := hw.disjoint
  have hpawn : ∀ s, s < 64 → ((abs b).at s = some ⟨b.whiteTurn, .pawn⟩ ↔ testU b.active.pawns s = true) :=
    fun s hs => at_iff b hd s hs b.whiteTurn .pawn
  have hmid : ∀ s, testU b.active.pawns s = true → 8 ≤ s ∧ s < 56 :=
    fun s hs => pawn_mid' hw.facts ((mem_bitsAsc _ _).mpr hs)
  unfold PawnStep
  rw [whiteToMove_eq]
  constructor
  · rintro (h | h)
    · unfold pawnAttacksK at h
      rw [List.mem_flatMap] at h
      obtain ⟨s, hs, h⟩ := h
      rw [List.mem_flatMap] at h
      obtain ⟨t, ht, h⟩ := h
      have hs' := (mem_bitsAsc _ _).mp hs
      have hm := hmid s hs'
      have hs64 : s < 64 := by omega
      obtain ⟨hp, hc⟩ := piece_pawnAttackK h
      refine ⟨hp, hc, s, hs64, (hpawn s hs64).mpr hs', ?_⟩
      rw [pawnMoves_split, List.mem_append]
      right
      rw [mem_specCaptures _ _ _ hs64]
      exact ⟨t, (capture_iff hw hm.1 hm.2 x.mv).mp ⟨(mem_bitsAsc _ _).mp ht, List.mem_map.mpr ⟨x, h, rfl⟩⟩⟩
    · unfold pawnMovesK at h
      rw [List.mem_flatMap] at h
      obtain ⟨s, hs, h⟩ := h
      have hs' := (mem_bitsAsc _ _).mp hs
      have hm := hmid s hs'
      have hs64 : s < 64 := by omega
      obtain ⟨hp, hc⟩ := piece_pawnStepK h
      refine ⟨hp, hc, s, hs64, (hpawn s hs64).mpr hs', ?_⟩
      rw [pawnMoves_split, List.mem_append]
      left
      rw [← pushes_eq b _ (fullOcc_eq b) b.whiteTurn s hm.1 hm.2]
      exact List.mem_map.mpr ⟨x, h, rfl⟩
  · rintro ⟨hp, hc, s, hs64, hat, hmem⟩
    have hs' := (hpawn s hs64).mp hat
    have hm := hmid s hs'
    rw [pawnMoves_split, List.mem_append] at hmem
    -- a key is determined by its move once piece and castle flag are known
    have hkey : ∀ y : Key, y.piece = PAWN → y.castle = false → y.mv = x.mv → y = x := by
      intro y h1 h2 h3
      obtain ⟨a, c, m⟩ := x
      obtain ⟨a', c', m'⟩ := y
      simp only at hp hc h1 h2 h3
      subst hp hc h1 h2 h3
      rfl
    rcases hmem with hmem | hmem
    · right
      rw [← pushes_eq b _ (fullOcc_eq b) b.whiteTurn s hm.1 hm.2, List.mem_map] at hmem
      obtain ⟨y, hy, hyx⟩ := hmem
      obtain ⟨h1, h2⟩ := piece_pawnStepK hy
      rw [← hkey y h1 h2 hyx]
      unfold pawnMovesK
      exact List.mem_flatMap.mpr ⟨s, (mem_bitsAsc _ _).mpr hs', hy⟩
    · left
      rw [mem_specCaptures _ _ _ hs64] at hmem
      obtain ⟨t, hmem⟩ := hmem
      obtain ⟨ht, hmem⟩ := (capture_iff hw hm.1 hm.2 x.mv).mpr hmem
      rw [List.mem_map] at hmem
      obtain ⟨y, hy, hyx⟩ := hmem
      obtain ⟨h1, h2⟩ := piece_pawnAttackK hy
      rw [← hkey y h1 h2 hyx]
      unfold pawnAttacksK
      exact List.mem_flatMap.mpr ⟨s, (mem_bitsAsc _ _).mpr hs',
        List.mem_flatMap.mpr ⟨t, (mem_bitsAsc _ _).mpr ht, hy⟩⟩

end Inkayaku.GenSpec
