import Inkayaku.Proofs.GenSpecNodup
/-!
# C01, part 9 (items 4 and 5): UCI text, no duplicates, legal moves

* `uci_agree`, `uci_injective`: `Move.uci` is `SMove.uci` of the abstracted move, and the text determines the triple;
* `genPseudo_nodup`, `genLegal_nodup`: no UCI string is produced twice;
* `genLegal_eq_spec`: the legal moves of the board are the legal moves of the rules, GIVEN the successor property
  (C02, hypothesis `hsucc`) and that `make` keeps the structural invariant (`hstruct`; needed by `C05.move_legal`);
* `perft_moves`: the perft/search path (`genPseudo` + make + `isValid`) visits exactly `genLegal b`.
-/
namespace Inkayaku.GenSpec
open Inkayaku.Board Inkayaku.Gen Inkayaku.Bits Inkayaku.Abs Inkayaku.Spec

/-! ## UCI text -/

theorem squareString_eq (s : Nat) (h : s < 64) : squareString s = sqName s := by
  simp [squareString, sqName, fileChar, rankChar, h]

theorem pieceString_eq : ∀ p, p ≤ 6 →
    pieceString p = (match promoOf p with | some k => String.ofList [kindLetter k] | none => "") := by decide

/-- the model's UCI text of a move = the Spec's UCI text of the abstracted move -/
theorem uci_agree (f : MoveF) (hs : f.source < 64) (ht : f.target < 64) (hp : f.promotion ≤ 6) :
    f.uci = (absMove f).uci := by
  unfold MoveF.uci SMove.uci absMove
  simp only
  rw [squareString_eq _ hs, squareString_eq _ ht, pieceString_eq _ hp]
  rfl

theorem fileChar_inj : ∀ a, a < 8 → ∀ c, c < 8 → Char.ofNat (97 + a) = Char.ofNat (97 + c) → a = c := by decide
theorem rankChar_inj : ∀ a, a < 8 → ∀ c, c < 8 → Char.ofNat (56 - a) = Char.ofNat (56 - c) → a = c := by decide

theorem kindLetter_inj (a c : Kind) (h : kindLetter a = kindLetter c) : a = c := by
  cases a <;> cases c <;> first | rfl | (revert h; decide)

theorem uci_toList (m : SMove) : m.uci.toList =
    [Char.ofNat (97 + m.src % 8), Char.ofNat (56 - m.src / 8), Char.ofNat (97 + m.tgt % 8),
      Char.ofNat (56 - m.tgt / 8)] ++ (match m.promo with | some k => [kindLetter k] | none => []) := by
  unfold SMove.uci sqName
  rw [String.toList_append, String.toList_append, String.toList_ofList, String.toList_ofList]
  cases m.promo <;> simp

/-- **the UCI text determines source, target and promotion** -/
theorem uci_injective {a c : SMove} (ha : a.src < 64 ∧ a.tgt < 64) (hc : c.src < 64 ∧ c.tgt < 64)
    (h : a.uci = c.uci) : a = c := by
  have h' := congrArg String.toList h
  rw [uci_toList, uci_toList] at h'
  simp only [List.cons_append, List.nil_append, List.cons.injEq] at h'
  obtain ⟨h1, h2, h3, h4, h5⟩ := h'
  have e1 := fileChar_inj _ (Nat.mod_lt _ (by decide)) _ (Nat.mod_lt _ (by decide)) h1
  have e2 := rankChar_inj (a.src / 8) (by omega) (c.src / 8) (by omega) h2
  have e3 := fileChar_inj _ (Nat.mod_lt _ (by decide)) _ (Nat.mod_lt _ (by decide)) h3
  have e4 := rankChar_inj (a.tgt / 8) (by omega) (c.tgt / 8) (by omega) h4
  obtain ⟨as, at_, ap⟩ := a
  obtain ⟨cs, ct, cp⟩ := c
  simp only at e1 e2 e3 e4 h5 ha hc
  have hs : as = cs := by omega
  have ht : at_ = ct := by omega
  have hp : ap = cp := by
    cases ap <;> cases cp
    · rfl
    · simp at h5
    · simp at h5
    · simp only [List.cons.injEq, and_true] at h5
      rw [kindLetter_inj _ _ h5]
  rw [hs, ht, hp]

/-! ## facts about every generated move -/

theorem kindOf_seven : kindOf 7 = .king := rfl

/-- every generated move has squares `< 64` and a promotion code whose text is its piece letter -/
theorem gen_bounds {b : Board} (h : WF.wf b = true) {m : Move} (hm : m ∈ genPseudo b) :
    m.f.source < 64 ∧ m.f.target < 64 ∧ m.f.promotion ≤ 6 := by
  obtain ⟨⟨-, -, hs, ht, -, -, -, hp, -⟩, -⟩ := GenOK.genPseudo_ok h m hm
  refine ⟨hs, ht, ?_⟩
  have hk : key m ∈ genK b := by
    rw [← map_key_genPseudo (GenOK.wf_facts h)]; exact List.mem_map.mpr ⟨m, hm, rfl⟩
  have := promo_genK hk
  by_cases h7 : m.f.promotion = 7
  · exfalso
    apply this
    show (absMove m.f).promo = some .king
    unfold absMove
    simp [h7, kindOf_seven]
  · omega

theorem uci_of_generated {b : Board} (h : WF.wf b = true) {m : Move} (hm : m ∈ genPseudo b) :
    m.uci = (absMove m.f).uci := by
  obtain ⟨hs, ht, hp⟩ := gen_bounds h hm
  exact uci_agree m.f hs ht hp

theorem map_uci_genPseudo {b : Board} (h : WF.wf b = true) :
    (genPseudo b).map Move.uci = ((genPseudo b).map (absMove ∘ Move.f)).map SMove.uci := by
  rw [List.map_map]
  apply List.map_congr_left
  intro m hm
  exact uci_of_generated h hm

/-! ## no duplicates -/

theorem nodup_map_of_inj {α β : Type} {l : List α} {f : α → β} (hl : l.Nodup)
    (hinj : ∀ a ∈ l, ∀ c ∈ l, f a = f c → a = c) : (l.map f).Nodup := by
  unfold List.Nodup at hl ⊢
  rw [List.pairwise_map]
  exact List.Pairwise.imp_of_mem (fun ha hc hne he => hne (hinj _ ha _ hc he)) hl

/-- the generated triples are pairwise distinct -/
theorem genPseudo_nodup_triples {b : Board} (h : WF.wf b = true) :
    ((genPseudo b).map (absMove ∘ Move.f)).Nodup := by
  have hw := pawnWF_of_wf h
  rw [map_absMove_eq, map_key_genPseudo hw.facts]
  unfold List.Nodup
  rw [List.pairwise_map]
  exact noDup_genK hw

/-- **Item 4 of C01.**  No UCI string is generated twice. -/
theorem genPseudo_nodup {b : Board} (h : WF.wf b = true) : ((genPseudo b).map Move.uci).Nodup := by
  rw [map_uci_genPseudo h]
  apply nodup_map_of_inj (genPseudo_nodup_triples h)
  intro a ha c hc he
  obtain ⟨m, hm, rfl⟩ := List.mem_map.mp ha
  obtain ⟨m', hm', rfl⟩ := List.mem_map.mp hc
  obtain ⟨h1, h2, -⟩ := gen_bounds h hm
  obtain ⟨h1', h2', -⟩ := gen_bounds h hm'
  exact uci_injective ⟨h1, h2⟩ ⟨h1', h2'⟩ he

theorem genLegal_nodup {b : Board} (h : WF.wf b = true) : ((genLegal b).map Move.uci).Nodup := by
  unfold genLegal
  exact List.Pairwise.sublist (List.Sublist.map _ (List.filter_sublist)) (genPseudo_nodup h)

/-! ## legal moves -/

theorem make_turn (b : Board) (m : Move) : (make b m).turn = 1 - b.turn := rfl

/-- the make/validity filter is the Spec's king-safety condition, given the successor property for `m` -/
theorem isMoveLegal_eq {b : Board} (h : WF.wf b = true) {m : Move}
    (hsucc : abs (make b m) = Spec.apply (abs b) (absMove m.f))
    (hstruct : Check.Struct (make b m)) :
    isMoveLegal b m = !Spec.inCheck (Spec.apply (abs b) (absMove m.f)) (abs b).whiteToMove := by
  have ht : b.turn ≤ 1 := (Check.struct_of_wf h).2
  have ht' : (make b m).turn ≤ 1 := by rw [make_turn]; omega
  rw [C05.move_legal b m hstruct ht', hsucc]
  have : (!(abs (make b m)).whiteToMove) = (abs b).whiteToMove := by
    show (!((make b m).turn == 0)) = (b.turn == 0)
    rw [make_turn]
    have : b.turn = 0 ∨ b.turn = 1 := by omega
    rcases this with h0 | h0 <;> simp [h0]
  rw [← hsucc, this]

/-- **Item 5 of C01.**  On a legal position the moves the board offers as legal are exactly the legal moves of the
rules.  `hsucc` is property C02 (`Successor.make_eq_apply`), `hstruct` says that `make` keeps the piece words disjoint
with one king per side (proved with the well-formedness step of the board layer); both are only needed for the
pseudo-legal moves of `b`. -/
theorem genLegal_eq_spec {b : Board} (h : WF.wf b = true)
    (hsucc : ∀ m ∈ genPseudo b, abs (make b m) = Spec.apply (abs b) (absMove m.f))
    (hstruct : ∀ m ∈ genPseudo b, Check.Struct (make b m)) (sm : SMove) :
    sm ∈ (genLegal b).map (absMove ∘ Move.f) ↔ sm ∈ Spec.legalMoves (abs b) := by
  unfold genLegal Spec.legalMoves
  rw [List.mem_map, List.mem_filter, ← genPseudo_iff h, List.mem_map]
  constructor
  · rintro ⟨m, hm, rfl⟩
    obtain ⟨hm1, hm2⟩ := List.mem_filter.mp hm
    rw [isMoveLegal_eq h (hsucc m hm1) (hstruct m hm1)] at hm2
    exact ⟨⟨m, hm1, rfl⟩, hm2⟩
  · rintro ⟨⟨m, hm, rfl⟩, hP⟩
    refine ⟨m, List.mem_filter.mpr ⟨hm, ?_⟩, rfl⟩
    rw [isMoveLegal_eq h (hsucc m hm) (hstruct m hm)]
    exact hP

/-- the same on UCI strings -/
theorem genLegal_uci_eq_spec {b : Board} (h : WF.wf b = true)
    (hsucc : ∀ m ∈ genPseudo b, abs (make b m) = Spec.apply (abs b) (absMove m.f))
    (hstruct : ∀ m ∈ genPseudo b, Check.Struct (make b m)) (s : String) :
    s ∈ (genLegal b).map Move.uci ↔ s ∈ (Spec.legalMoves (abs b)).map SMove.uci := by
  have hmap : (genLegal b).map Move.uci = ((genLegal b).map (absMove ∘ Move.f)).map SMove.uci := by
    rw [List.map_map]
    apply List.map_congr_left
    intro m hm
    exact uci_of_generated h (List.mem_filter.mp hm).1
  rw [hmap, List.mem_map, List.mem_map]
  constructor
  · rintro ⟨sm, hsm, rfl⟩; exact ⟨sm, (genLegal_eq_spec h hsucc hstruct sm).mp hsm, rfl⟩
  · rintro ⟨sm, hsm, rfl⟩; exact ⟨sm, (genLegal_eq_spec h hsucc hstruct sm).mpr hsm, rfl⟩

theorem genPseudo_uci_iff {b : Board} (h : WF.wf b = true) (s : String) :
    s ∈ (genPseudo b).map Move.uci ↔ s ∈ (Spec.pseudoMoves (abs b)).map SMove.uci := by
  rw [map_uci_genPseudo h, List.mem_map, List.mem_map]
  constructor
  · rintro ⟨sm, hsm, rfl⟩; exact ⟨sm, (genPseudo_iff h sm).mp hsm, rfl⟩
  · rintro ⟨sm, hsm, rfl⟩; exact ⟨sm, (genPseudo_iff h sm).mpr hsm, rfl⟩

/-! ## the perft / search path: pseudo-legal generation, make, validity test -/

theorem filterMap_fst {α β : Type} (l : List α) (p : α → Bool) (g : α → β) :
    (l.filterMap fun m => if p m then some (m, g m) else none).map Prod.fst = l.filter p := by
  induction l with
  | nil => rfl
  | cons a t ih =>
    rw [List.filterMap_cons, List.filter_cons]
    cases hp : p a
    · simpa using ih
    · simp only [if_true, List.map_cons, ih]

/-- the moves `perft` (divide) recurses into are exactly `genLegal b`, in the same order -/
theorem perft_moves (b : Board) (depth : Nat) : (perft b depth).map Prod.fst = genLegal b := by
  unfold perft genLegal
  exact filterMap_fst (genPseudo b) (fun m => isValid (make b m)) (fun m => perftCount (make b m) (depth - 1))

/-- the filter used by perft and by the search loop (`make`, then `is_valid`) is `is_move_legal` -/
theorem search_filter (b : Board) : (genPseudo b).filter (fun m => isValid (make b m)) = genLegal b := rfl

end Inkayaku.GenSpec
