import Inkayaku.Proofs.SearchSimRoot
/-!
# C08 simulation: executable forms of the explicit hypotheses

`reachList b k` lists the boards reached from `b` by `k` legal moves; `hashInjB`, `hashNonzeroB`, `qboundB` evaluate
`HashInj`, `HashNonzero`, `QBound` on these lists (quadratic, meant for small positions and for `#guard`);
`hyp_of_check` turns a successful evaluation into `Hyp b D`.
-/
namespace Inkayaku.SearchSim
open Inkayaku.Board Inkayaku.Eval Inkayaku.WF Inkayaku.BoardCongr Inkayaku.Minimax Inkayaku.SpecSearch Inkayaku.Search

/-- the boards reached from `b` by `k` legal moves (with multiplicity) -/
def reachList (b : Board) : Nat → List Board
  | 0 => [b]
  | k + 1 => (reachList b k).flatMap fun q => (genLegal q).map (make q)

theorem reach_iff (b0 : Board) : ∀ (k : Nat) (p : Board), Reach b0 k p ↔ ∃ q ∈ reachList b0 k, vis p = vis q := by
  intro k
  induction k with
  | zero =>
    intro p
    simp only [Reach, reachList, List.mem_singleton]
    exact ⟨fun h => ⟨b0, rfl, h⟩, fun ⟨q, hq, h⟩ => by rw [h, hq]⟩
  | succ k ih =>
    intro p
    simp only [Reach, reachList, List.mem_flatMap, List.mem_map]
    constructor
    · rintro ⟨q, m, h1, h2, h3, h4⟩
      obtain ⟨q', hq', hv⟩ := (ih q).mp h1
      have hm : m ∈ genLegal q' := by
        rw [← genLegal_congr hv]
        exact List.mem_filter.mpr ⟨h2, h3⟩
      exact ⟨make q' m, ⟨q', hq', m, hm, rfl⟩, h4.trans (make_congr hv m)⟩
    · rintro ⟨x, ⟨q', hq', m, hm, rfl⟩, hv⟩
      have hm' := List.mem_filter.mp hm
      exact ⟨q', m, (ih q').mpr ⟨q', hq', rfl⟩, hm'.1, hm'.2, hv⟩

def hashInjB (b0 : Board) (D : Nat) : Bool :=
  (List.range D).all fun k' => (List.range (D + 1)).all fun k =>
    (reachList b0 k').all fun p' => (reachList b0 k).all fun p =>
      !(Zobrist.hash p' == Zobrist.hash p) || (k' == k && decide (vis p' = vis p))

theorem hashInj_of_check {b0 : Board} {D : Nat} (h : hashInjB b0 D = true) : HashInj b0 D := by
  intro k' k p' p hk' hk hr' hr he
  obtain ⟨q', hq', hv'⟩ := (reach_iff b0 k' p').mp hr'
  obtain ⟨q, hq, hv⟩ := (reach_iff b0 k p).mp hr
  unfold hashInjB at h
  simp only [List.all_eq_true, List.mem_range] at h
  have := h k' hk' k (by omega) q' hq' q hq
  rw [hash_congr hv', hash_congr hv] at he
  simp only [he, beq_self_eq_true, Bool.not_true, Bool.false_or, Bool.and_eq_true, beq_iff_eq, decide_eq_true_eq] at this
  exact ⟨this.1, by rw [hv', hv, this.2]⟩

def hashNonzeroB (b0 : Board) (D : Nat) : Bool :=
  (List.range (D + 1)).all fun k => k == 0 || (reachList b0 k).all fun p => Zobrist.hash p != 0

theorem hashNonzero_of_check {b0 : Board} {D : Nat} (h : hashNonzeroB b0 D = true) : HashNonzero b0 D := by
  intro k p hk1 hk hr
  obtain ⟨q, hq, hv⟩ := (reach_iff b0 k p).mp hr
  unfold hashNonzeroB at h
  simp only [List.all_eq_true, List.mem_range, Bool.or_eq_true, beq_iff_eq, bne_iff_ne] at h
  rcases h k (by omega) with h0 | h1
  · omega
  · rw [hash_congr hv]; exact h1 q hq

/-- `QDepth`, executable -/
def qdepthB : Nat → Board → Bool
  | 0, b => (legalCaptures b).isEmpty
  | k + 1, b => (legalCaptures b).all fun m => qdepthB k (make b m)

theorem qdepth_of_check : ∀ (k : Nat) (b : Board), qdepthB k b = true → QDepth k b := by
  intro k
  induction k with
  | zero => intro b h; exact List.isEmpty_iff.mp h
  | succ k ih =>
    intro b h m hm
    simp only [qdepthB, List.all_eq_true] at h
    exact ih _ (h m hm)

def qboundB (b0 : Board) (D : Nat) : Bool :=
  (List.range (D + 1)).all fun k => (reachList b0 k).all fun p => qdepthB quiescenceFuel p

theorem qbound_of_check {b0 : Board} {D : Nat} (h : qboundB b0 D = true) : QBound b0 D := by
  intro k p hk hr
  obtain ⟨q, hq, hv⟩ := (reach_iff b0 k p).mp hr
  unfold qboundB at h
  simp only [List.all_eq_true, List.mem_range] at h
  exact QDepth_congr _ hv.symm (qdepth_of_check _ _ (h k (by omega) q hq))

/-- all explicit hypotheses of the simulation, executable -/
def hypB (b0 : Board) (D : Nat) : Bool :=
  hashInjB b0 D && hashNonzeroB b0 D && qboundB b0 D && decide (D ≤ 3) && decide (ply2 b0 + D < 65536) &&
    wf b0 && decide (b0.halfmove + D ≤ 4095) && decide (b0.fullmove + D < 2147483648)

theorem hyp_of_check {b0 : Board} {D : Nat} (h : hypB b0 D = true) : Hyp b0 D := by
  unfold hypB at h
  simp only [Bool.and_eq_true, decide_eq_true_eq] at h
  obtain ⟨⟨⟨⟨⟨⟨⟨h1, h2⟩, h3⟩, h4⟩, h5⟩, h6⟩, h7⟩, h8⟩ := h
  exact ⟨hashInj_of_check h1, hashNonzero_of_check h2, qbound_of_check h3, h4, h5, ⟨h6, h7, h8⟩⟩

end Inkayaku.SearchSim
