import Inkayaku.Model.Zobrist
/-!
Algebra of the XOR fold `Zobrist.hashOcc` (`zobrist_hash_for_occupancy`):

* `hashOcc_pointwise` : the fold over the set bits is a fold over all 64 squares of "key if the bit is set";
* `hashOcc_xor`       : it is linear over `^^^` on occupancy words;
* `hashOcc_bitU`      : a one-square word hashes to exactly that square's key;
* `hashOcc_setBit`, `hashOcc_clearBit`, `hashOcc_moveBit` : setting a clear bit / clearing a set bit toggles one key;
* `hashOcc_noPiece`   : the `NO_PIECE` rows of the generated key table are all zero (kernel-evaluated on `Gen`).

Core Lean only.
-/
namespace Inkayaku.ZobristLinear
open Inkayaku.Board Inkayaku.Zobrist Inkayaku.Gen

/-! ## XOR on `UInt64`: an AC-normalising simp set with cancellation -/

theorem xor_left_comm (a b c : UInt64) : a ^^^ (b ^^^ c) = b ^^^ (a ^^^ c) := by
  rw [← UInt64.xor_assoc, UInt64.xor_comm a b, UInt64.xor_assoc]

theorem xor_cancel_left (a b : UInt64) : a ^^^ (a ^^^ b) = b := by
  rw [← UInt64.xor_assoc, UInt64.xor_self, UInt64.zero_xor]

theorem xor_eq_iff (a b c : UInt64) : a ^^^ b = c ↔ a = c ^^^ b := by
  constructor
  · intro h; rw [← h, UInt64.xor_assoc, UInt64.xor_self, UInt64.xor_zero]
  · intro h; rw [h, UInt64.xor_assoc, UInt64.xor_self, UInt64.xor_zero]

theorem xor_eq_zero_iff (a b : UInt64) : a ^^^ b = 0 ↔ a = b := by
  rw [xor_eq_iff, UInt64.zero_xor]

/-- `simp only [xor_ac]`-style normalisation: sorts the operands and cancels equal pairs. Use as
`simp only [UInt64.xor_assoc, UInt64.xor_comm, xor_left_comm, UInt64.xor_self, UInt64.xor_zero, UInt64.zero_xor,
xor_cancel_left]`. -/
macro "xor_norm" : tactic =>
  `(tactic| simp only [UInt64.xor_assoc, UInt64.xor_comm, Inkayaku.ZobristLinear.xor_left_comm, UInt64.xor_self,
      UInt64.xor_zero, UInt64.zero_xor, Inkayaku.ZobristLinear.xor_cancel_left])

/-! ## Bits of `UInt64` words -/

theorem testU_ge (x : UInt64) {i : Nat} (h : 64 ≤ i) : testU x i = false := by
  unfold testU
  apply Nat.testBit_lt_two_pow
  exact Nat.lt_of_lt_of_le x.toNat_lt (Nat.pow_le_pow_right (by decide) h)

theorem lt_of_testU {x : UInt64} {i : Nat} (h : testU x i = true) : i < 64 := by
  apply Decidable.byContradiction
  intro hn
  rw [testU_ge x (Nat.le_of_not_lt hn)] at h
  exact Bool.noConfusion h

/-- two words with the same 64 bits are equal -/
theorem ext_testU {a b : UInt64} (h : ∀ i, i < 64 → testU a i = testU b i) : a = b := by
  apply UInt64.toNat_inj.mp
  apply Nat.eq_of_testBit_eq
  intro i
  by_cases hi : i < 64
  · exact h i hi
  · have ha := testU_ge a (Nat.le_of_not_lt hi)
    have hb := testU_ge b (Nat.le_of_not_lt hi)
    unfold testU at ha hb
    rw [ha, hb]

theorem testU_xor (a b : UInt64) (i : Nat) : testU (a ^^^ b) i = (testU a i ^^ testU b i) := by
  simp [testU, UInt64.toNat_xor, Nat.testBit_xor]

/-- the xor bit lemma in the `toNat.testBit` form -/
theorem toNat_testBit_xor (a b : UInt64) (i : Nat) :
    (a ^^^ b).toNat.testBit i = xor (a.toNat.testBit i) (b.toNat.testBit i) := testU_xor a b i

theorem testU_or (a b : UInt64) (i : Nat) : testU (a ||| b) i = (testU a i || testU b i) := by
  simp [testU, UInt64.toNat_or, Nat.testBit_or]

theorem testU_and (a b : UInt64) (i : Nat) : testU (a &&& b) i = (testU a i && testU b i) := by
  simp [testU, UInt64.toNat_and, Nat.testBit_and]

theorem testU_zero (i : Nat) : testU 0 i = false := by
  simp [testU]

theorem testU_not (a : UInt64) {i : Nat} (hi : i < 64) : testU (~~~a) i = !testU a i := by
  have h : ~~~a = a ^^^ (18446744073709551615 : UInt64) := by
    rw [← UInt64.xor_neg_one]; rfl
  have hones : testU (18446744073709551615 : UInt64) i = true := by
    have : (18446744073709551615 : UInt64).toNat = 2 ^ 64 - 1 := by decide
    unfold testU
    rw [this, Nat.testBit_two_pow_sub_one]
    exact decide_eq_true hi
  rw [h, testU_xor, hones, Bool.xor_true]

theorem testU_bitU {s : Nat} (hs : s < 64) (i : Nat) : testU (bitU s) i = decide (i = s) := by
  have hs' : s.toUInt64.toNat = s := by
    show (UInt64.ofNat s).toNat = s
    rw [UInt64.toNat_ofNat']
    exact Nat.mod_eq_of_lt (Nat.lt_trans hs (by decide))
  unfold testU bitU
  rw [UInt64.toNat_shiftLeft, hs', Nat.mod_eq_of_lt hs, Nat.testBit_mod_two_pow]
  have : (1 : UInt64).toNat = 1 := rfl
  rw [this, Nat.one_shiftLeft, Nat.testBit_two_pow]
  by_cases h : i = s
  · subst h; simp [hs]
  · have : ¬ s = i := fun e => h e.symm
    simp [h, this]

theorem testU_clearBit (x : UInt64) {s : Nat} (hs : s < 64) (i : Nat) :
    testU (clearBit x (bitU s)) i = (testU x i && !decide (i = s)) := by
  unfold clearBit
  rw [testU_and]
  by_cases hi : i < 64
  · rw [testU_not _ hi, testU_bitU hs]
  · rw [testU_ge x (Nat.le_of_not_lt hi)]; simp

/-- setting a clear bit is an XOR -/
theorem or_bitU_eq_xor {x : UInt64} {s : Nat} (hs : s < 64) (h : testU x s = false) :
    x ||| bitU s = x ^^^ bitU s := by
  apply ext_testU
  intro i _
  rw [testU_or, testU_xor, testU_bitU hs]
  by_cases e : i = s
  · subst e; simp [h]
  · simp [e]

/-- clearing a set bit is an XOR -/
theorem clearBit_eq_xor {x : UInt64} {s : Nat} (h : testU x s = true) :
    clearBit x (bitU s) = x ^^^ bitU s := by
  have hs := lt_of_testU h
  apply ext_testU
  intro i _
  rw [testU_clearBit x hs, testU_xor, testU_bitU hs]
  by_cases e : i = s
  · subst e; simp [h]
  · simp [e]

/-! ## The fold -/

/-- fold "XOR the value of `g` at every listed square" -/
def xorFold (g : Nat → UInt64) (l : List Nat) (acc : UInt64) : UInt64 := l.foldl (fun a sq => a ^^^ g sq) acc

theorem xorFold_acc (g : Nat → UInt64) (l : List Nat) (acc : UInt64) : xorFold g l acc = acc ^^^ xorFold g l 0 := by
  induction l generalizing acc with
  | nil => simp [xorFold]
  | cons x xs ih =>
    have h1 := ih (acc ^^^ g x)
    have h2 := ih (0 ^^^ g x)
    simp only [xorFold, List.foldl_cons] at h1 h2 ⊢
    rw [h1, h2, UInt64.zero_xor, UInt64.xor_assoc]

theorem xorFold_filter (g : Nat → UInt64) (p : Nat → Bool) (l : List Nat) (acc : UInt64) :
    xorFold g (l.filter p) acc = xorFold (fun sq => if p sq then g sq else 0) l acc := by
  induction l generalizing acc with
  | nil => rfl
  | cons x xs ih =>
    cases hp : p x
    · simp only [List.filter_cons, hp, xorFold, List.foldl_cons, Bool.false_eq_true, if_false, UInt64.xor_zero]
      exact ih _
    · simp only [List.filter_cons, hp, if_true, xorFold, List.foldl_cons]
      exact ih _

theorem xorFold_xor (f g : Nat → UInt64) (l : List Nat) (a b : UInt64) :
    xorFold (fun sq => f sq ^^^ g sq) l (a ^^^ b) = xorFold f l a ^^^ xorFold g l b := by
  induction l generalizing a b with
  | nil => rfl
  | cons x xs ih =>
    simp only [xorFold, List.foldl_cons]
    have h := ih (a ^^^ f x) (b ^^^ g x)
    simp only [xorFold] at h
    rw [← h]
    congr 1
    xor_norm

theorem xorFold_congr {f g : Nat → UInt64} {l : List Nat} (h : ∀ i, i ∈ l → f i = g i) (acc : UInt64) :
    xorFold f l acc = xorFold g l acc := by
  induction l generalizing acc with
  | nil => rfl
  | cons x xs ih =>
    simp only [xorFold, List.foldl_cons]
    rw [h x (List.mem_cons_self)]
    exact ih (fun i hi => h i (List.mem_cons_of_mem _ hi)) _

/-- a fold that picks one square -/
theorem xorFold_single (g : Nat → UInt64) (s n : Nat) :
    xorFold (fun sq => if sq = s then g sq else 0) (List.range n) 0 = if s < n then g s else 0 := by
  induction n with
  | zero => simp [xorFold]
  | succ n ih =>
    have h : xorFold (fun sq => if sq = s then g sq else 0) (List.range (n + 1)) 0
        = xorFold (fun sq => if sq = s then g sq else 0) (List.range n) 0 ^^^ (if n = s then g n else 0) := by
      simp only [xorFold, List.range_succ, List.foldl_append, List.foldl_cons, List.foldl_nil]
    rw [h, ih]
    by_cases h1 : s < n
    · have : ¬ n = s := by omega
      have h2 : s < n + 1 := by omega
      simp [h1, h2, this]
    · by_cases h2 : n = s
      · subst h2; simp
      · have : ¬ s < n + 1 := by omega
        simp [h1, h2, this]

/-- (pointwise characterisation) `hashOcc` folds over all 64 squares, contributing the key where the bit is set -/
theorem hashOcc_pointwise (occ : UInt64) (piece color : Nat) :
    hashOcc occ piece color
      = xorFold (fun sq => if testU occ sq then pieceSquare piece sq color else 0) (List.range 64) 0 := by
  unfold hashOcc bitsAsc
  exact xorFold_filter (fun sq => pieceSquare piece sq color) (testU occ) (List.range 64) 0

/-- the hash of a word depends only on its 64 bits -/
theorem hashOcc_congr {a b : UInt64} (h : ∀ i, i < 64 → testU a i = testU b i) (p c : Nat) :
    hashOcc a p c = hashOcc b p c := by
  rw [ext_testU h]

/-- (a) linearity -/
theorem hashOcc_xor (a b : UInt64) (p c : Nat) : hashOcc (a ^^^ b) p c = hashOcc a p c ^^^ hashOcc b p c := by
  rw [hashOcc_pointwise, hashOcc_pointwise a, hashOcc_pointwise b]
  have h0 : (0 : UInt64) = 0 ^^^ 0 := by simp
  rw [h0, ← xorFold_xor, ← h0]
  apply xorFold_congr
  intro i _
  rw [testU_xor]
  cases testU a i <;> cases testU b i <;> simp

theorem hashOcc_zero (p c : Nat) : hashOcc 0 p c = 0 := by
  rw [hashOcc_pointwise]
  have : (fun sq => if testU 0 sq then pieceSquare p sq c else (0 : UInt64)) = fun sq => if sq = 64 then 0 else 0 := by
    funext sq; simp [testU_zero]
  rw [this]
  exact (xorFold_single (fun _ => 0) 64 64).trans (by simp)

/-- (b) a one-square word hashes to that square's key -/
theorem hashOcc_bitU {s : Nat} (hs : s < 64) (p c : Nat) : hashOcc (bitU s) p c = pieceSquare p s c := by
  rw [hashOcc_pointwise]
  have : (fun sq => if testU (bitU s) sq then pieceSquare p sq c else (0 : UInt64))
      = fun sq => if sq = s then pieceSquare p sq c else 0 := by
    funext sq; rw [testU_bitU hs]; simp
  rw [this, xorFold_single (fun sq => pieceSquare p sq c) s 64]
  simp [hs]

/-- (c1) setting a clear bit toggles exactly one key -/
theorem hashOcc_setBit {occ : UInt64} {s : Nat} (hs : s < 64) (h : testU occ s = false) (p c : Nat) :
    hashOcc (occ ||| bitU s) p c = hashOcc occ p c ^^^ pieceSquare p s c := by
  rw [or_bitU_eq_xor hs h, hashOcc_xor, hashOcc_bitU hs]

/-- (c2) clearing a set bit toggles exactly one key -/
theorem hashOcc_clearBit {occ : UInt64} {s : Nat} (h : testU occ s = true) (p c : Nat) :
    hashOcc (clearBit occ (bitU s)) p c = hashOcc occ p c ^^^ pieceSquare p s c := by
  rw [clearBit_eq_xor h, hashOcc_xor, hashOcc_bitU (lt_of_testU h)]

/-- (c3) moving a bit from a set square to a clear square toggles the two keys -/
theorem hashOcc_moveBit {occ : UInt64} {s t : Nat} (hs : testU occ s = true) (ht : t < 64)
    (htc : testU occ t = false) (p c : Nat) :
    hashOcc (clearBit occ (bitU s) ||| bitU t) p c = hashOcc occ p c ^^^ pieceSquare p s c ^^^ pieceSquare p t c := by
  have h : testU (clearBit occ (bitU s)) t = false := by
    rw [testU_clearBit occ (lt_of_testU hs), htc]; rfl
  rw [hashOcc_setBit ht h, hashOcc_clearBit hs]

/-! ## The `NO_PIECE` rows -/

/-- the two `NO_PIECE` rows (white: 0, black: 7) of the generated table are all zero -/
theorem zero_rows : (zobristPieceSquare.getD 0 []).all (· == 0) ∧ (zobristPieceSquare.getD 7 []).all (· == 0) := by
  decide +kernel

theorem getD_of_all_zero {l : List Nat} (h : l.all (· == 0) = true) (i : Nat) : l.getD i 0 = 0 := by
  induction l generalizing i with
  | nil => rfl
  | cons x xs ih =>
    simp only [List.all_cons, Bool.and_eq_true, beq_iff_eq] at h
    cases i with
    | zero => simpa using h.1
    | succ i => simpa using ih h.2 i

theorem table_rows : zobristPieceSquare.length = 14 := by decide +kernel

/-- `pieceSquare NO_PIECE sq color = 0` for every square and EVERY colour value (rows beyond the table read as 0) -/
theorem pieceSquare_noPiece (sq c : Nat) : pieceSquare 0 sq c = 0 := by
  unfold pieceSquare
  have hz : ∀ row, (row = 0 ∨ row = 7 ∨ 14 ≤ row) → (zobristPieceSquare.getD row []).getD sq 0 = 0 := by
    intro row h
    rcases h with h | h | h
    · subst h; exact getD_of_all_zero zero_rows.1 sq
    · subst h; exact getD_of_all_zero zero_rows.2 sq
    · have : zobristPieceSquare.getD row [] = [] := by
        rw [List.getD_eq_getElem?_getD, List.getElem?_eq_none (by rw [table_rows]; exact h)]; rfl
      rw [this]; rfl
  rw [hz (0 + 7 * c) (by omega)]
  rfl

/-- (d) the scratch word never contributes -/
theorem hashOcc_noPiece (occ : UInt64) (c : Nat) : hashOcc occ 0 c = 0 := by
  rw [hashOcc_pointwise]
  have : (fun sq => if testU occ sq then pieceSquare 0 sq c else (0 : UInt64)) = fun sq => if sq = 64 then 0 else 0 := by
    funext sq; simp [pieceSquare_noPiece]
  rw [this]
  exact (xorFold_single (fun _ => 0) 64 64).trans (by simp)

/-! ## A divide-and-conquer distinctness check that the kernel can run on the 781 keys

A quadratic `Nodup` check costs the kernel > 30 s on 781 64-bit numbers; splitting the list by one bit after the other
needs only `n · log n` steps.  Soundness does not depend on what `bitOf` computes: splitting by ANY predicate is sound. -/

/-- bit `i` of `x`, written with the `Nat` primitives the kernel evaluates natively -/
def bitOf (i x : Nat) : Bool := Nat.beq (Nat.land (Nat.shiftRight x i) 1) 1

/-- `true` only if the numbers are pairwise distinct (`fuel` bits are looked at, starting from bit `i`) -/
def radixDistinct : Nat → Nat → List Nat → Bool
  | _, _, [] => true
  | _, _, [_] => true
  | 0, _, _ => false
  | fuel + 1, i, l =>
    radixDistinct fuel (i + 1) (l.filter fun x => bitOf i x) && radixDistinct fuel (i + 1) (l.filter fun x => !bitOf i x)

theorem pairwise_ne_of_split {α : Type} (p : α → Bool) (l : List α)
    (h1 : (l.filter p).Pairwise (· ≠ ·)) (h2 : (l.filter fun x => !p x).Pairwise (· ≠ ·)) : l.Pairwise (· ≠ ·) := by
  induction l with
  | nil => exact List.Pairwise.nil
  | cons x xs ih =>
    cases hx : p x
    · have e1 : (x :: xs).filter p = xs.filter p := by simp [hx]
      have e2 : (x :: xs).filter (fun x => !p x) = x :: xs.filter (fun x => !p x) := by simp [hx]
      rw [e1] at h1
      rw [e2, List.pairwise_cons] at h2
      refine List.pairwise_cons.mpr ⟨?_, ih h1 h2.2⟩
      intro y hy hxy
      subst hxy
      exact h2.1 x (List.mem_filter.mpr ⟨hy, by simp [hx]⟩) rfl
    · have e1 : (x :: xs).filter p = x :: xs.filter p := by simp [hx]
      have e2 : (x :: xs).filter (fun x => !p x) = xs.filter (fun x => !p x) := by simp [hx]
      rw [e1, List.pairwise_cons] at h1
      rw [e2] at h2
      refine List.pairwise_cons.mpr ⟨?_, ih h1.2 h2⟩
      intro y hy hxy
      subst hxy
      exact h1.1 x (List.mem_filter.mpr ⟨hy, hx⟩) rfl

theorem radixDistinct_sound : ∀ (fuel i : Nat) (l : List Nat), radixDistinct fuel i l = true → l.Pairwise (· ≠ ·) := by
  intro fuel
  induction fuel with
  | zero =>
    intro i l h
    match l, h with
    | [], _ => exact List.Pairwise.nil
    | [x], _ => exact List.pairwise_singleton _ _
    | _ :: _ :: _, h => simp [radixDistinct] at h
  | succ fuel ih =>
    intro i l h
    match l, h with
    | [], _ => exact List.Pairwise.nil
    | [x], _ => exact List.pairwise_singleton _ _
    | x :: y :: r, h =>
      simp only [radixDistinct, Bool.and_eq_true] at h
      exact pairwise_ne_of_split (fun x => bitOf i x) _ (ih _ _ h.1) (ih _ _ h.2)

/-- pairwise distinct images: the map is injective on the list -/
theorem inj_of_pairwise_map {α β : Type} {f : α → β} {l : List α} (h : (l.map f).Pairwise (· ≠ ·))
    {a b : α} (ha : a ∈ l) (hb : b ∈ l) (hab : f a = f b) : a = b := by
  induction l with
  | nil => cases ha
  | cons x xs ih =>
    rw [List.map_cons, List.pairwise_cons] at h
    rcases List.mem_cons.mp ha with rfl | ha'
    · rcases List.mem_cons.mp hb with rfl | hb'
      · rfl
      · exact absurd hab (h.1 _ (List.mem_map_of_mem hb'))
    · rcases List.mem_cons.mp hb with rfl | hb'
      · exact absurd hab.symm (h.1 _ (List.mem_map_of_mem ha'))
      · exact ih h.2 ha' hb'

end Inkayaku.ZobristLinear
