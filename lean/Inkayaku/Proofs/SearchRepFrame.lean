import Inkayaku.Proofs.SearchRepNode
/-!
# C10 at the search level: the search never writes the history below the node it is in

`search_negamax` records the hash of its node at the node's own ply index; the nodes of its subtree record theirs at larger
indices; `search_quiescence` records nothing.  Hence

* `negamax_sameBelow`     – `negamax` leaves every cell strictly below `plyClock s.board` as it was;
* `negamaxLoop_sameBelow` – the move loop of a node with board `b0` leaves every cell up to AND INCLUDING `plyClock b0` as it was;
* `LineHist.of_sameBelow`, `lineHist_child` – therefore `LineHist` (the hypothesis `NodeHyp.hist` of the repetition theorem) is
  an invariant of the search: if it holds for the line `b0 :: T` when the node `c` is entered, then it holds for the line
  `b0 :: T ++ [c]` in the state in which ANY child of `c` is entered – whatever siblings were searched before.

So the node theorem `negamax_repetition` applies, by induction along the current line, to every node of every iteration.
(No 16-bit wrap of the ply counter inside the search: `ply2 + fuel < 65536`.)
-/
namespace Inkayaku.SearchRep
open Inkayaku.Board Inkayaku.WF Inkayaku.BoardCongr Inkayaku.Search Inkayaku.SearchSim Inkayaku.History Inkayaku.Eval

/-- the cells below index `n` of `h'` are those of `h` -/
def SameBelow (n : Nat) (h h' : Array Nat) : Prop := ∀ j, j < n → h'.getD j 0 = h.getD j 0

theorem SameBelow.refl (n : Nat) (h : Array Nat) : SameBelow n h h := fun _ _ => rfl

theorem SameBelow.trans {n : Nat} {a b c : Array Nat} (h1 : SameBelow n a b) (h2 : SameBelow n b c) : SameBelow n a c :=
  fun j hj => (h2 j hj).trans (h1 j hj)

theorem SameBelow.mono {n n' : Nat} {a b : Array Nat} (h : SameBelow n a b) (hle : n' ≤ n) : SameBelow n' a b :=
  fun j hj => h j (by omega)

theorem sameBelow_set (h : Array Nat) (i v n : Nat) (hi : n ≤ i) : SameBelow n h (historySet h i v) := by
  intro j hj
  rw [getD_historySet, if_neg (by omega)]

/-- `search_quiescence` does not touch the history -/
def HistKept (s s' : St) : Prop := s'.history = s.history

theorem histKept_qStepRel : QStepRel HistKept where
  refl := fun _ => rfl
  trans := fun h1 h2 => h2.trans h1
  board := fun _ _ => rfl
  qnode := fun _ => rfl

theorem quiescence_history (fuel : Nat) (s : St) (a b : Int) : (quiescence fuel s a b).2.history = s.history :=
  quiescence_rel histKept_qStepRel fuel s a b

theorem finish_history (c : Nat) (a b : Int) (h : UInt64) (rem : Nat) (r : LoopAcc × Bool × St) :
    (finish c a b h rem r).2.history = r.2.2.history := by
  obtain ⟨acc, ab, s⟩ := r
  unfold finish
  simp only
  split
  · rfl
  · split
    · rfl
    · split <;> rfl

theorem pollStep_history (s : St) : (pollStep s).history = s.history := by
  rcases pollStep_eq s with h | ⟨st, q, rn, h⟩ <;> rw [h]

/-- `negamax` leaves the cells below its node's index alone -/
def NFrame (fuel : Nat) : Prop :=
  ∀ (s : St) (ply maxPly : Nat) (a b : Int) (isPv : Bool) (h ph : UInt64), Inv fuel s.board → ply2 s.board + fuel < 65536 →
    SameBelow (plyClock s.board) s.history (negamax fuel s ply maxPly a b isPv h ph).2.history

/-- the move loop leaves the cells up to and including its node's index alone -/
def NLoopFrame (fuel : Nat) : Prop :=
  ∀ (b0 : Board), Inv (fuel + 1) b0 → ply2 b0 + (fuel + 1) < 65536 → ∀ (moves : List Move), (∀ m ∈ moves, Generated b0 m) →
    ∀ (s : St) (ply maxPly : Nat) (beta : Int) (isPv : Bool) (pvMove : Option Move) (h ph : UInt64) (rem : Nat)
      (acc : LoopAcc), vis s.board = vis b0 →
      SameBelow (plyClock b0 + 1) s.history (negamaxLoop fuel s moves ply maxPly beta isPv pvMove h ph rem acc).2.2.history

theorem plyClock_make {b : Board} (hwf : wf b = true) (m : Move) (h : ply2 b + 1 < 65536) :
    plyClock (make b m) = plyClock b + 1 := by
  rw [plyClock_of_ply2 (by rw [ply2_make hwf]; exact h), plyClock_of_ply2 (by omega), ply2_make hwf]

theorem nLoopFrame_of {fuel : Nat} (hn : NFrame fuel) : NLoopFrame fuel := by
  intro b0 hinv hnw moves
  have hwf := hinv.wf
  induction moves with
  | nil => intro _ s ply maxPly beta isPv pvMove h ph rem acc _; rw [negamaxLoop_nil]; exact SameBelow.refl _ _
  | cons m rest ih =>
    intro hmem s ply maxPly beta isPv pvMove h ph rem acc hs
    have hm : Generated b0 m := hmem m (List.mem_cons_self ..)
    have hrest : ∀ m ∈ rest, Generated b0 m := fun x hx => hmem x (List.mem_cons_of_mem _ hx)
    have hmk : vis (make s.board m) = vis (make b0 m) := make_congr hs m
    rw [negamaxLoop_cons]
    split
    · exact ih hrest { s with board := unmake (make s.board m) m } ply maxPly beta isPv pvMove h ph rem acc (back hwf hm hmk)
    · rename_i hv
      have hi1 := (child_inv boardLaws hinv hs hm (by simpa using hv)).1
      have hpc : plyClock (make s.board m) = plyClock b0 + 1 := by
        rw [plyClock_congr hmk]
        exact plyClock_make hwf m (by omega)
      have hp2 : ply2 (make s.board m) + fuel < 65536 := by
        rw [ply2_congr hmk, ply2_make hwf]; omega
      have hfr := hn { s with board := make s.board m } (ply + 1) maxPly (-beta) (-acc.alpha)
        (childPvOf isPv pvMove m) (h ^^^ (Zobrist.xorOf m.f).1) (ph ^^^ (Zobrist.xorOf m.f).2) hi1 hp2
      have hfr' : SameBelow (plyClock b0 + 1) s.history
          (negamax fuel { s with board := make s.board m } (ply + 1) maxPly (-beta) (-acc.alpha)
            (childPvOf isPv pvMove m) (h ^^^ (Zobrist.xorOf m.f).1) (ph ^^^ (Zobrist.xorOf m.f).2)).2.history := by
        have := hfr
        rw [show ({ s with board := make s.board m } : St).board = make s.board m from rfl, hpc] at this
        exact this
      have hr := negamax_ok boardLaws fuel { s with board := make s.board m } (ply + 1) maxPly (-beta) (-acc.alpha)
        (childPvOf isPv pvMove m) (h ^^^ (Zobrist.xorOf m.f).1) (ph ^^^ (Zobrist.xorOf m.f).2) hi1
      have hb := back hwf hm (hr.trans hmk)
      simp only
      split
      · exact hfr'
      · split
        · exact hfr'
        · exact hfr'.trans (ih hrest _ ply maxPly beta isPv pvMove h ph rem _ hb)

/-- **the search never writes below the node it is in** -/
theorem negamax_sameBelow : ∀ fuel, NFrame fuel := by
  intro fuel
  induction fuel with
  | zero => intro s ply maxPly a b isPv h ph _ _; rw [negamax_zero]; exact SameBelow.refl _ _
  | succ fuel ih =>
    intro s ply maxPly a b isPv h ph hinv hnw
    have he : (enter s h).board = s.board := enter_board s h
    have hinv3 : Inv (fuel + 1) (enter s h).board := by rw [he]; exact hinv
    have hent : SameBelow (plyClock s.board) s.history (enter s h).history := by
      rw [enter_history]; exact sameBelow_set _ _ _ _ (Nat.le_refl _)
    rw [negamax_succ]
    split
    · intro j _
      show (pollStep s).history.getD j 0 = _
      rw [pollStep_history]
    · simp only
      split
      · exact hent
      · split
        · exact hent
        · split
          · exact hent
          · split
            · unfold horizon
              simp only
              split
              · intro j hj
                rw [quiescence_history]; exact hent j hj
              · exact hent
            · intro j hj
              rw [finish_history]
              rw [nLoopFrame_of ih (enter s h).board hinv3 (by rw [he]; exact hnw) _ ?_ (enter s h) _ _ _ _ _ _ _ _ _ rfl j
                (by rw [he]; omega)]
              · exact hent j hj
              · intro m hm
                exact Or.inl (mem_rootBuffer_genPseudo (mem_sortMoves.mp hm))

theorem negamaxLoop_sameBelow (fuel : Nat) : NLoopFrame fuel := nLoopFrame_of (negamax_sameBelow fuel)

/-! ## `LineHist` along the search -/

theorem LineHist.of_sameBelow {r : Nat} {L : List Board} {h h' : Array Nat} (hl : LineHist r L h)
    (hs : SameBelow (r + L.length) h h') : LineHist r L h' := by
  refine ⟨fun j hj => by rw [hs j (by omega)]; exact hl.1 j hj, ?_⟩
  intro i b hb
  have := lt_of_getElem? hb
  rw [hs (r + i) (by omega)]
  exact hl.2 i b hb

/-- **`LineHist` is inherited by the children of a node**: `s` = the state in which the node `c = s.board` was entered
(`NodeHyp b0 T s`); `s'` = any later state of the search of that node whose history agrees with the one after the node's `enter`
up to and including the node's own index (`negamaxLoop_sameBelow`: every state the move loop passes through).  Then the history
of `s'` holds the line `b0 :: T ++ [c]`, which is what the repetition theorem needs for a child of `c`. -/
theorem lineHist_child {b0 : Board} {T : List Board} {s : St} (H : NodeHyp b0 T s) (s' : St)
    (hs : SameBelow (plyClock s.board + 1) (enter s (Zobrist.hash s.board)).history s'.history) :
    LineHist (plyClock b0) (b0 :: (T ++ [s.board])) s'.history := by
  obtain ⟨_, _, hpc⟩ := H.node
  have h1 : LineHist (plyClock b0) ((b0 :: T) ++ [s.board]) (enter s (Zobrist.hash s.board)).history := by
    rw [enter_history, hpc]
    exact H.hist.snoc s.board
  apply LineHist.of_sameBelow h1
  have : plyClock b0 + ((b0 :: T) ++ [s.board]).length = plyClock s.board + 1 := by
    rw [hpc]; simp only [List.length_append, List.length_cons, List.length_nil]; omega
  rw [this]
  exact hs

/-- the node theorem's hypotheses for a child `m` of the node `c = s.board`, entered from a state `s'` of the move loop of `c` -/
theorem nodeHyp_step {b0 : Board} {T : List Board} {s : St} (H : NodeHyp b0 T s) (s' : St) (m : Move)
    (hinv : Inv (T.length + 2) b0) (hnw : ply2 b0 + (T.length + 2) < 65536)
    (hs : SameBelow (plyClock s.board + 1) (enter s (Zobrist.hash s.board)).history s'.history)
    (hb : vis s'.board = vis s.board) (hm : m ∈ genLegal s.board)
    (hnz : Zobrist.hash (make s'.board m) ≠ 0)
    (hcoll : ∀ (i : Nat) (b : Board), (b0 :: (T ++ [s.board]))[i]? = some b →
      (T ++ [s.board]).length + 1 - (make s'.board m).halfmove ≤ i →
      Zobrist.hash b = Zobrist.hash (make s'.board m) → C06.HashKey b = C06.HashKey (make s'.board m)) :
    NodeHyp b0 (T ++ [s.board]) { s' with board := make s'.board m } := by
  have hlen : (T ++ [s.board]).length = T.length + 1 := by simp
  refine ⟨?_, by rw [hlen]; exact hinv, by rw [hlen]; exact hnw, lineHist_child H s' hs, hnz, hcoll⟩
  show IsLine (b0 :: (T ++ [s.board] ++ [make s'.board m]))
  apply isLine_snoc (T ++ [s.board]) b0 _ H.line
  rw [lastBoard_snoc]
  exact ⟨m, hm, make_congr hb m⟩

end Inkayaku.SearchRep
