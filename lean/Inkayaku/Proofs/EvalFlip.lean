import Inkayaku.Model.Eval
import Inkayaku.Model.Generate
import Inkayaku.Props.C04
/-!
Helper lemmas for C11 (colour-flip symmetry of the static evaluation, terminal scores, mate arithmetic).

* the piece-square tables of the current build: `blackTables` is the vertical mirror of `whiteTables` with the
  sign flipped (`black_tables_mirror`, a kernel computation over all 3 × 6 × 64 entries of `Gen.Eval`);
* `flipU` (vertical mirror of a 64-bit word) bit by bit, on `bitsAsc`/`popcount`/`squareSum`;
* `gameStage`, `pieceValue`, `evaluateOngoing`, `evaluate` under `flipBoard`;
* pure arithmetic on `evaluate`/`scoreFromValue` for terminal positions;
* check detection (`inCheck`, `isCurrentInCheck`, `isValid`) under `flipBoard`: the magic lookups are replaced by the
  ray attacks through C04 (`rook_correct_u64`, `bishop_correct_u64`), the rays and leaper tables are mirrored by a
  kernel computation over the 64 squares, `scan` along a mirrored ray is mirrored by induction.
-/
namespace Inkayaku.EvalFlip
open Inkayaku.Board Inkayaku.Gen Inkayaku.Eval Inkayaku.Generate Inkayaku.Rays

/-- vertical mirror of a square index (row i ↔ row 7 − i, same file) -/
def mirror (sq : Nat) : Nat := 8 * (7 - sq / 8) + sq % 8

theorem mirror_lt {j : Nat} (h : j < 64) : mirror j < 64 := by unfold mirror; omega
theorem mirror_mirror {j : Nat} (h : j < 64) : mirror (mirror j) = j := by unfold mirror; omega

/-! ## 1. the tables -/

/-- entry `[stage][piece-1][square]` exactly as `pieceSquareValue`/`sideSquareSum`/`squareSum` read it -/
def wEntry (stage piece sq : Nat) : Int := ((whiteTables.getD stage []).getD piece []).getD sq 0
def bEntry (stage piece sq : Nat) : Int := ((blackTables.getD stage []).getD piece []).getD sq 0

def tablesMirrorCheck : Bool :=
  (List.range 3).all fun stage => (List.range 6).all fun piece => (List.range 64).all fun sq =>
    bEntry stage piece (mirror sq) == - wEntry stage piece sq

theorem tables_mirror_check : tablesMirrorCheck = true := by decide +kernel

def shapeOk (t : List (List (List Int))) : Bool :=
  t.length == 3 && t.all fun st => st.length == 6 && st.all fun row => row.length == 64

/-- both tables are 3 stages × 6 pieces × 64 squares (so no `getD` above ever falls back to its default for
`stage < 3`, `piece < 6`, `sq < 64`) -/
theorem tables_shape : shapeOk whiteTables = true ∧ shapeOk blackTables = true := by decide +kernel

/-- pointwise form of `tables_mirror_check` -/
theorem black_tables_mirror {stage piece sq : Nat} (hs : stage < 3) (hp : piece < 6) (hq : sq < 64) :
    bEntry stage piece (mirror sq) = - wEntry stage piece sq := by
  have h := tables_mirror_check
  unfold tablesMirrorCheck at h
  rw [List.all_eq_true] at h
  have h1 := h stage (List.mem_range.mpr hs)
  rw [List.all_eq_true] at h1
  have h2 := h1 piece (List.mem_range.mpr hp)
  rw [List.all_eq_true] at h2
  have h3 := h2 sq (List.mem_range.mpr hq)
  exact eq_of_beq h3

theorem white_tables_mirror {stage piece sq : Nat} (hs : stage < 3) (hp : piece < 6) (hq : sq < 64) :
    wEntry stage piece (mirror sq) = - bEntry stage piece sq := by
  have h := black_tables_mirror hs hp (mirror_lt hq)
  rw [mirror_mirror hq] at h
  omega

/-! ## 2. `flipU` bit by bit -/

theorem testU_or (a b : UInt64) (j : Nat) : testU (a ||| b) j = (testU a j || testU b j) := by
  simp [testU, UInt64.toNat_or, Nat.testBit_or]

theorem testU_and (a b : UInt64) (j : Nat) : testU (a &&& b) j = (testU a j && testU b j) := by
  simp [testU, UInt64.toNat_and, Nat.testBit_and]

theorem testU_zero (j : Nat) : testU 0 j = false := by simp [testU]

theorem testU_ge (x : UInt64) {j : Nat} (h : 64 ≤ j) : testU x j = false := by
  unfold testU
  apply Nat.testBit_lt_two_pow
  exact Nat.lt_of_lt_of_le x.toNat_lt (Nat.pow_le_pow_right (by decide) h)

/-- two words with the same 64 bits are equal -/
theorem ext_testU {x y : UInt64} (h : ∀ j, j < 64 → testU x j = testU y j) : x = y := by
  apply UInt64.toNat_inj.mp
  apply Nat.eq_of_testBit_eq
  intro j
  by_cases hj : j < 64
  · exact h j hj
  · have hx := testU_ge x (Nat.le_of_not_lt hj)
    have hy := testU_ge y (Nat.le_of_not_lt hj)
    unfold testU at hx hy
    rw [hx, hy]

/-- one summand of `flipU`: row `r` of `x` moved to row `7 - r` -/
theorem term_bit (x : UInt64) (r j : Nat) (hr : r < 8) :
    testU (((x >>> (8 * r).toUInt64) &&& 0xFF) <<< (8 * (7 - r)).toUInt64) j
      = (decide (j < 64) && decide (j / 8 = 7 - r) && testU x (mirror j)) := by
  have h1 : (8 * r).toUInt64.toNat % 64 = 8 * r := by
    simp [Nat.toUInt64, UInt64.toNat_ofNat']; omega
  have h2 : (8 * (7 - r)).toUInt64.toNat % 64 = 8 * (7 - r) := by
    simp [Nat.toUInt64, UInt64.toNat_ofNat']; omega
  unfold testU
  rw [UInt64.toNat_shiftLeft, UInt64.toNat_and, UInt64.toNat_shiftRight, h1, h2]
  have h3 : (0xFF : UInt64).toNat = 2 ^ 8 - 1 := by decide
  rw [h3, Nat.testBit_mod_two_pow, Nat.testBit_shiftLeft, Nat.testBit_and, Nat.testBit_shiftRight,
    Nat.testBit_two_pow_sub_one]
  by_cases hj : j < 64
  · by_cases hk : j / 8 = 7 - r
    · have e1 : 8 * r + (j - 8 * (7 - r)) = mirror j := by unfold mirror; omega
      have e2 : j ≥ 8 * (7 - r) := by omega
      have e3 : j - 8 * (7 - r) < 8 := by omega
      simp [hj, hk, e1, e2, e3]
    · by_cases e2 : j ≥ 8 * (7 - r)
      · have e3 : ¬ j - 8 * (7 - r) < 8 := by omega
        simp [hj, hk, e2, e3]
      · simp [hj, hk, e2]
  · simp [hj]

/-- bit `j` of the mirrored word is bit `mirror j` of the word -/
theorem testU_flipU (x : UInt64) (j : Nat) : testU (flipU x) j = (decide (j < 64) && testU x (mirror j)) := by
  have hr : List.range 8 = [0, 1, 2, 3, 4, 5, 6, 7] := by decide
  unfold flipU
  rw [hr]
  simp only [List.foldl_cons, List.foldl_nil, testU_or, testU_zero, Bool.false_or]
  rw [term_bit x 0 j (by omega), term_bit x 1 j (by omega), term_bit x 2 j (by omega), term_bit x 3 j (by omega),
    term_bit x 4 j (by omega), term_bit x 5 j (by omega), term_bit x 6 j (by omega), term_bit x 7 j (by omega)]
  by_cases hj : j < 64
  · have : j / 8 = 0 ∨ j / 8 = 1 ∨ j / 8 = 2 ∨ j / 8 = 3 ∨ j / 8 = 4 ∨ j / 8 = 5 ∨ j / 8 = 6 ∨ j / 8 = 7 := by omega
    rcases this with h | h | h | h | h | h | h | h <;> simp [hj, h]
  · simp [hj]

theorem testU_flipU_mirror (x : UInt64) {s : Nat} (h : s < 64) : testU (flipU x) (mirror s) = testU x s := by
  rw [testU_flipU, mirror_mirror h]
  simp [mirror_lt h]

theorem flipU_flipU (x : UInt64) : flipU (flipU x) = x := by
  apply ext_testU
  intro j hj
  rw [testU_flipU, testU_flipU, mirror_mirror hj]
  simp [hj, mirror_lt hj]

theorem flipU_or (a b : UInt64) : flipU (a ||| b) = flipU a ||| flipU b := by
  apply ext_testU
  intro j hj
  simp [testU_flipU, testU_or, hj]

theorem flipU_and (a b : UInt64) : flipU (a &&& b) = flipU a &&& flipU b := by
  apply ext_testU
  intro j hj
  simp [testU_flipU, testU_and, hj]

theorem flipU_zero : flipU 0 = 0 := by decide

theorem flipU_eq_zero (x : UInt64) : (flipU x = 0) ↔ (x = 0) := by
  constructor
  · intro h
    have := flipU_flipU x
    rw [h, flipU_zero] at this
    exact this.symm
  · intro h; rw [h, flipU_zero]

theorem flipU_ne_zero (x : UInt64) : (flipU x != 0) = (x != 0) := by
  by_cases h : x = 0
  · simp [h, flipU_zero]
  · have h' : ¬ flipU x = 0 := fun e => h ((flipU_eq_zero x).mp e)
    rw [bne_iff_ne.mpr h', bne_iff_ne.mpr h]

/-! ### sums over the 64 squares, re-indexed by the involution `mirror` -/

theorem range64 : List.range 64 = [0, 1, 2, 3, 4, 5, 6, 7, 8, 9, 10, 11, 12, 13, 14, 15, 16, 17, 18, 19, 20, 21, 22, 23,
    24, 25, 26, 27, 28, 29, 30, 31, 32, 33, 34, 35, 36, 37, 38, 39, 40, 41, 42, 43, 44, 45, 46, 47,
    48, 49, 50, 51, 52, 53, 54, 55, 56, 57, 58, 59, 60, 61, 62, 63] := by decide

theorem sum_mirror_int (f : Nat → Int) :
    ((List.range 64).map (fun j => f (mirror j))).sum = ((List.range 64).map f).sum := by
  rw [range64]
  simp only [List.map_cons, List.map_nil, List.sum_cons, List.sum_nil, mirror, Nat.reduceDiv, Nat.reduceMod,
    Nat.reduceSub, Nat.reduceMul, Nat.reduceAdd]
  omega

theorem sum_mirror_nat (f : Nat → Nat) :
    ((List.range 64).map (fun j => f (mirror j))).sum = ((List.range 64).map f).sum := by
  rw [range64]
  simp only [List.map_cons, List.map_nil, List.sum_cons, List.sum_nil, mirror, Nat.reduceDiv, Nat.reduceMod,
    Nat.reduceSub, Nat.reduceMul, Nat.reduceAdd]
  omega

theorem foldl_add_eq (l : List Nat) (g : Nat → Int) (a : Int) :
    l.foldl (fun acc s => acc + g s) a = a + (l.map g).sum := by
  induction l generalizing a with
  | nil => simp
  | cons x xs ih => simp only [List.foldl_cons, List.map_cons, List.sum_cons]; rw [ih]; omega

theorem sum_map_filter (l : List Nat) (p : Nat → Bool) (g : Nat → Int) :
    ((l.filter p).map g).sum = (l.map fun s => if p s then g s else 0).sum := by
  induction l with
  | nil => simp
  | cons x xs ih =>
    by_cases h : p x = true
    · simp [h, ih]
    · simp [h, ih]

theorem length_filter_sum (l : List Nat) (p : Nat → Bool) :
    (l.filter p).length = (l.map fun s => if p s then 1 else 0).sum := by
  induction l with
  | nil => simp
  | cons x xs ih =>
    by_cases h : p x = true
    · simp [h, ih]; omega
    · simp [h, ih]

/-- `squareSum` is the sum of the table entries of the set squares -/
theorem squareSum_eq (occ : UInt64) (tbl : List Int) :
    squareSum occ tbl = ((bitsAsc occ).map fun s => tbl.getD s 0).sum := by
  unfold squareSum
  rw [foldl_add_eq]; omega

/-- the sum over the mirrored word reads the table at the mirrored squares of the original word -/
theorem squareSum_flipU (occ : UInt64) (tbl : List Int) :
    squareSum (flipU occ) tbl = ((bitsAsc occ).map fun s => tbl.getD (mirror s) 0).sum := by
  rw [squareSum_eq]
  unfold bitsAsc
  rw [sum_map_filter, sum_map_filter]
  rw [← sum_mirror_int (fun s => if testU occ s = true then tbl.getD (mirror s) 0 else 0)]
  congr 1
  apply List.map_congr_left
  intro j hj
  have hj' : j < 64 := List.mem_range.mp hj
  rw [testU_flipU, mirror_mirror hj']
  simp [hj']

theorem popcount_flipU (x : UInt64) : popcount (flipU x) = popcount x := by
  unfold popcount bitsAsc
  rw [length_filter_sum, length_filter_sum]
  rw [← sum_mirror_nat (fun s => if testU x s = true then 1 else 0)]
  congr 1
  apply List.map_congr_left
  intro j hj
  have hj' : j < 64 := List.mem_range.mp hj
  rw [testU_flipU]
  simp [hj']

theorem mem_bitsAsc {x : UInt64} {s : Nat} : s ∈ bitsAsc x ↔ s < 64 ∧ testU x s = true := by
  simp [bitsAsc]

/-! ## 3. game stage and material -/

theorem gameStage_flip (b : Board) : gameStage (flipBoard b) = gameStage b := by
  unfold gameStage flipBoard flipSide
  simp only [← flipU_or, popcount_flipU, flipU_ne_zero]
  generalize (b.white.queens != 0) = wq
  generalize (b.black.queens != 0) = bq
  generalize decide (popcount (b.white.knights ||| b.white.bishops) ≤ 1) = wm
  generalize decide (popcount (b.black.knights ||| b.black.bishops) ≤ 1) = bm
  cases wq <;> cases bq <;> cases wm <;> cases bm <;> rfl

theorem gameStage_lt (b : Board) : gameStage b < 3 := by
  unfold gameStage
  simp only
  split <;> omega

theorem pieceValue_flipSide (s : Side) : pieceValue (flipSide s) = pieceValue s := by
  unfold pieceValue flipSide
  simp only [popcount_flipU]

/-- material of the swapped sides -/
theorem pieceValue_flip (b : Board) :
    pieceValue (flipBoard b).white = pieceValue b.black ∧ pieceValue (flipBoard b).black = pieceValue b.white := by
  unfold flipBoard
  exact ⟨pieceValue_flipSide _, pieceValue_flipSide _⟩

/-! ## 4. piece-square sums and `evaluateOngoing` -/

theorem squareSum_flip_white {stage piece : Nat} (hs : stage < 3) (hp : piece < 6) (occ : UInt64) :
    squareSum (flipU occ) ((whiteTables.getD stage []).getD piece [])
      = - squareSum occ ((blackTables.getD stage []).getD piece []) := by
  rw [squareSum_flipU, squareSum_eq]
  have : ∀ l : List Nat, (∀ s ∈ l, s < 64) →
      (l.map fun s => ((whiteTables.getD stage []).getD piece []).getD (mirror s) 0).sum
        = - (l.map fun s => ((blackTables.getD stage []).getD piece []).getD s 0).sum := by
    intro l
    induction l with
    | nil => simp
    | cons x xs ih =>
      intro hl
      have hx : x < 64 := hl x (by simp)
      have e := white_tables_mirror hs hp hx
      unfold wEntry bEntry at e
      simp only [List.map_cons, List.sum_cons]
      rw [ih (fun s hs' => hl s (by simp [hs'])), e]
      omega
  exact this _ (fun s hs' => (mem_bitsAsc.mp hs').1)

theorem squareSum_flip_black {stage piece : Nat} (hs : stage < 3) (hp : piece < 6) (occ : UInt64) :
    squareSum (flipU occ) ((blackTables.getD stage []).getD piece [])
      = - squareSum occ ((whiteTables.getD stage []).getD piece []) := by
  rw [squareSum_flipU, squareSum_eq]
  have : ∀ l : List Nat, (∀ s ∈ l, s < 64) →
      (l.map fun s => ((blackTables.getD stage []).getD piece []).getD (mirror s) 0).sum
        = - (l.map fun s => ((whiteTables.getD stage []).getD piece []).getD s 0).sum := by
    intro l
    induction l with
    | nil => simp
    | cons x xs ih =>
      intro hl
      have hx : x < 64 := hl x (by simp)
      have e := black_tables_mirror hs hp hx
      unfold wEntry bEntry at e
      simp only [List.map_cons, List.sum_cons]
      rw [ih (fun s hs' => hl s (by simp [hs'])), e]
      omega
  exact this _ (fun s hs' => (mem_bitsAsc.mp hs').1)

theorem sideSquareSum_flip_white {stage : Nat} (hs : stage < 3) (s : Side) :
    sideSquareSum (flipSide s) (whiteTables.getD stage []) = - sideSquareSum s (blackTables.getD stage []) := by
  unfold sideSquareSum flipSide
  simp only
  rw [squareSum_flip_white hs (by omega : 0 < 6), squareSum_flip_white hs (by omega : 1 < 6),
    squareSum_flip_white hs (by omega : 2 < 6), squareSum_flip_white hs (by omega : 3 < 6),
    squareSum_flip_white hs (by omega : 4 < 6), squareSum_flip_white hs (by omega : 5 < 6)]
  omega

theorem sideSquareSum_flip_black {stage : Nat} (hs : stage < 3) (s : Side) :
    sideSquareSum (flipSide s) (blackTables.getD stage []) = - sideSquareSum s (whiteTables.getD stage []) := by
  unfold sideSquareSum flipSide
  simp only
  rw [squareSum_flip_black hs (by omega : 0 < 6), squareSum_flip_black hs (by omega : 1 < 6),
    squareSum_flip_black hs (by omega : 2 < 6), squareSum_flip_black hs (by omega : 3 < 6),
    squareSum_flip_black hs (by omega : 4 < 6), squareSum_flip_black hs (by omega : 5 < 6)]
  omega

theorem pieceSquareValue_flip (b : Board) : pieceSquareValue (flipBoard b) = - pieceSquareValue b := by
  unfold pieceSquareValue
  simp only [gameStage_flip]
  have hs := gameStage_lt b
  have hw : (flipBoard b).white = flipSide b.black := rfl
  have hb : (flipBoard b).black = flipSide b.white := rfl
  rw [hw, hb, sideSquareSum_flip_white hs, sideSquareSum_flip_black hs]
  omega

/-- the static evaluation of an ongoing game is negated by the colour flip — for EVERY board, no well-formedness -/
theorem eval_flip (b : Board) : evaluateOngoing (flipBoard b) = - evaluateOngoing b := by
  unfold evaluateOngoing
  rw [pieceSquareValue_flip, (pieceValue_flip b).1, (pieceValue_flip b).2]
  omega

/-! ## 5. `evaluate` -/

theorem drawScore_zero : drawScore = 0 := by decide

/-- terminal branch of `evaluate` (no legal move, in check): the mate values of the two colours are opposite -/
theorem mateValue_flip (b : Board) :
    (if (flipBoard b).turn == 0 then lossScore + ((flipBoard b).fullmove : Int) else winScore - ((flipBoard b).fullmove : Int))
      = - (if b.turn == 0 then lossScore + (b.fullmove : Int) else winScore - (b.fullmove : Int)) := by
  have hf : (flipBoard b).fullmove = b.fullmove := rfl
  have ht : (flipBoard b).turn = 1 - b.turn := rfl
  rw [hf, ht]
  unfold lossScore
  by_cases h : b.turn = 0
  · simp [h]; omega
  · have h1 : 1 - b.turn = 0 := by omega
    simp [h, h1]; omega

/-- `Heuristic::evaluate` is negated by the colour flip.  `hcheck` (the flipped side to move is in check exactly when
the original one is) is only needed for positions without legal moves. -/
theorem evaluate_flip_of (b : Board) (lm : Bool)
    (hcheck : lm = false → isCurrentInCheck (flipBoard b) = isCurrentInCheck b) :
    evaluate (flipBoard b) lm = - evaluate b lm := by
  unfold evaluate
  cases lm with
  | true =>
    have hh : (flipBoard b).halfmove = b.halfmove := rfl
    simp only [if_true, hh]
    split
    · rw [drawScore_zero]; rfl
    · exact eval_flip b
  | false =>
    simp only [Bool.false_eq_true, if_false, hcheck rfl]
    split
    · exact mateValue_flip b
    · rw [drawScore_zero]; rfl

theorem evaluate_flip_ongoing (b : Board) : evaluate (flipBoard b) true = - evaluate b true :=
  evaluate_flip_of b true (fun h => by cases h)

/-! ## 6. terminal signs, mate ordering, `scoreFromValue` -/

/-- `calculate_heuristic_factor` (search.rs): `1 + color * -2` -/
def factor (turn : Nat) : Int := 1 + (turn : Int) * -2

theorem factor_zero : factor 0 = 1 := by decide
theorem factor_one : factor 1 = -1 := by decide

/-- checkmated side to move: its own (mover-centric) score is `-(winScore - fullmove)` -/
theorem terminal_value (b : Board) (ht : b.turn ≤ 1) (hc : isCurrentInCheck b = true) :
    factor b.turn * evaluate b false = - (winScore - (b.fullmove : Int)) := by
  unfold evaluate lossScore
  simp only [Bool.false_eq_true, if_false, hc, if_true]
  have : b.turn = 0 ∨ b.turn = 1 := by omega
  rcases this with h | h
  · rw [h]; simp [factor]; omega
  · rw [h]; simp [factor]

theorem stalemate_value (b : Board) (hc : isCurrentInCheck b = false) :
    evaluate b false = drawScore ∧ drawScore = 0 := by
  unfold evaluate
  simp [hc, drawScore_zero]

theorem winScore_val : winScore = 16777216 := by decide
theorem maxFullMoves_val : maxFullMoves = 1048576 := by decide

theorem isCheckmateValue_iff (v : Int) :
    isCheckmateValue v = true ↔ (v > winScore - maxFullMoves ∨ v < - winScore + maxFullMoves) := by
  unfold isCheckmateValue lossScore
  simp

/-- value `> winScore / 2`: reported as mate, distance `winScore - v - fullmove (+ 1 with white to move)` -/
theorem scoreFromValue_pos (v : Int) (b : Board) (hv : v > winScore / 2) :
    scoreFromValue v b = .mate (winScore - v - (b.fullmove : Int) + (if b.turn == 0 then 1 else 0)) := by
  have hpos : 0 < v := by rw [winScore_val] at hv; omega
  have hs : v.sign = 1 := Int.sign_eq_one_of_pos hpos
  have ha : (v.natAbs : Int) = v := by omega
  unfold scoreFromValue
  rw [ha, hs]
  simp only [hv, if_true, Int.mul_one, decide_eq_true hpos, Bool.true_and]

/-- value `< -(winScore / 2)`: reported as mate with a negative distance -/
theorem scoreFromValue_neg (v : Int) (b : Board) (hv : v < - (winScore / 2)) :
    scoreFromValue v b = .mate (- (winScore + v - (b.fullmove : Int))) := by
  have hneg : v < 0 := by rw [winScore_val] at hv; omega
  have hs : v.sign = -1 := Int.sign_eq_neg_one_of_neg hneg
  have ha : (v.natAbs : Int) = - v := by omega
  have hnp : ¬ v > 0 := by omega
  have hgt : - v > winScore / 2 := by omega
  unfold scoreFromValue
  rw [ha, hs]
  simp only [hgt, if_true, hnp, decide_false, Bool.false_and, Bool.false_eq_true, if_false]
  congr 1
  omega

/-- values up to `winScore / 2` in absolute value are centipawns, unchanged -/
theorem score_cp (v : Int) (b : Board) (hv : (v.natAbs : Int) ≤ winScore / 2) : scoreFromValue v b = .cp v := by
  unfold scoreFromValue
  have : ¬ (v.natAbs : Int) > winScore / 2 := by omega
  simp [this]

/-! ## 7. check detection under the flip -/

theorem mirror_inj {a b : Nat} (ha : a < 64) (hb : b < 64) : mirror a = mirror b ↔ a = b := by
  unfold mirror; omega

theorem testBit_bit (s j : Nat) : (bit s).testBit j = decide (s = j) := by
  unfold bit
  rw [Nat.one_shiftLeft, Nat.testBit_two_pow]

/-- `scan` along a mirrored ray with a mirrored occupancy is the mirrored scan -/
theorem scan_mirror (occ occ' : Nat) (hocc : ∀ s, s < 64 → occ'.testBit (mirror s) = occ.testBit s)
    (r : List Nat) (hr : ∀ s ∈ r, s < 64) (j : Nat) (hj : j < 64) :
    (scan occ' (r.map mirror)).testBit (mirror j) = (scan occ r).testBit j := by
  induction r with
  | nil => simp [scan]
  | cons s rest ih =>
    have hs : s < 64 := hr s (by simp)
    have hb : (bit (mirror s)).testBit (mirror j) = (bit s).testBit j := by
      rw [testBit_bit, testBit_bit]
      by_cases e : s = j
      · simp [e]
      · have : ¬ mirror s = mirror j := fun h => e ((mirror_inj hs hj).mp h)
        simp [e, this]
    cases rest with
    | nil => simpa [scan] using hb
    | cons s' rest' =>
      have ih' := ih (fun t ht => hr t (by simp [ht]))
      simp only [List.map_cons] at ih' ⊢
      simp only [scan, Nat.testBit_or, hb, hocc s hs]
      cases occ.testBit s
      · simp only [Bool.false_eq_true, if_false]; rw [ih']
      · simp

def raysMirrorCheck : Bool :=
  (List.range 64).all fun sq =>
    rays (mirror sq) rookDirs == [(ray sq (0, 1)).map mirror, (ray sq (1, 0)).map mirror,
                                  (ray sq (0, -1)).map mirror, (ray sq (-1, 0)).map mirror]
    && rays (mirror sq) bishopDirs == [(ray sq (1, 1)).map mirror, (ray sq (1, -1)).map mirror,
                                       (ray sq (-1, -1)).map mirror, (ray sq (-1, 1)).map mirror]
    && (rays sq (rookDirs ++ bishopDirs)).all fun r => r.all fun s => decide (s < 64)

theorem rays_mirror_check : raysMirrorCheck = true := by decide +kernel

theorem rays_facts {sq : Nat} (h : sq < 64) :
    rays (mirror sq) rookDirs = [(ray sq (0, 1)).map mirror, (ray sq (1, 0)).map mirror,
                                  (ray sq (0, -1)).map mirror, (ray sq (-1, 0)).map mirror]
    ∧ rays (mirror sq) bishopDirs = [(ray sq (1, 1)).map mirror, (ray sq (1, -1)).map mirror,
                                       (ray sq (-1, -1)).map mirror, (ray sq (-1, 1)).map mirror]
    ∧ ∀ d ∈ rookDirs ++ bishopDirs, ∀ s ∈ ray sq d, s < 64 := by
  have hc := rays_mirror_check
  unfold raysMirrorCheck at hc
  rw [List.all_eq_true] at hc
  have h1 := hc sq (List.mem_range.mpr h)
  simp only [Bool.and_eq_true, beq_iff_eq, List.all_eq_true, decide_eq_true_eq] at h1
  refine ⟨h1.1.1, h1.1.2, ?_⟩
  intro d hd s hs
  exact h1.2 (ray sq d) (by unfold rays; exact List.mem_map.mpr ⟨d, hd, rfl⟩) s hs

theorem slide_rook_mirror (occ occ' : Nat) (hocc : ∀ s, s < 64 → occ'.testBit (mirror s) = occ.testBit s)
    {sq : Nat} (hsq : sq < 64) {j : Nat} (hj : j < 64) :
    (slide rookDirs (mirror sq) occ').testBit (mirror j) = (slide rookDirs sq occ).testBit j := by
  obtain ⟨hr, _, hb⟩ := rays_facts hsq
  have e : rays sq rookDirs = [ray sq (0, -1), ray sq (1, 0), ray sq (0, 1), ray sq (-1, 0)] := rfl
  unfold slide slideOn
  rw [hr, e]
  simp only [List.foldl_cons, List.foldl_nil, Nat.testBit_or, Nat.zero_testBit, Bool.false_or]
  rw [scan_mirror occ occ' hocc _ (hb (0, 1) (by decide)) j hj, scan_mirror occ occ' hocc _ (hb (1, 0) (by decide)) j hj,
    scan_mirror occ occ' hocc _ (hb (0, -1) (by decide)) j hj, scan_mirror occ occ' hocc _ (hb (-1, 0) (by decide)) j hj]
  generalize (scan occ (ray sq (0, 1))).testBit j = a
  generalize (scan occ (ray sq (1, 0))).testBit j = b
  generalize (scan occ (ray sq (0, -1))).testBit j = c
  generalize (scan occ (ray sq (-1, 0))).testBit j = d
  cases a <;> cases b <;> cases c <;> cases d <;> rfl

theorem slide_bishop_mirror (occ occ' : Nat) (hocc : ∀ s, s < 64 → occ'.testBit (mirror s) = occ.testBit s)
    {sq : Nat} (hsq : sq < 64) {j : Nat} (hj : j < 64) :
    (slide bishopDirs (mirror sq) occ').testBit (mirror j) = (slide bishopDirs sq occ).testBit j := by
  obtain ⟨_, hr, hb⟩ := rays_facts hsq
  have e : rays sq bishopDirs = [ray sq (1, -1), ray sq (1, 1), ray sq (-1, 1), ray sq (-1, -1)] := rfl
  unfold slide slideOn
  rw [hr, e]
  simp only [List.foldl_cons, List.foldl_nil, Nat.testBit_or, Nat.zero_testBit, Bool.false_or]
  rw [scan_mirror occ occ' hocc _ (hb (1, 1) (by decide)) j hj, scan_mirror occ occ' hocc _ (hb (1, -1) (by decide)) j hj,
    scan_mirror occ occ' hocc _ (hb (-1, -1) (by decide)) j hj, scan_mirror occ occ' hocc _ (hb (-1, 1) (by decide)) j hj]
  generalize (scan occ (ray sq (1, 1))).testBit j = a
  generalize (scan occ (ray sq (1, -1))).testBit j = b
  generalize (scan occ (ray sq (-1, -1))).testBit j = c
  generalize (scan occ (ray sq (-1, 1))).testBit j = d
  cases a <;> cases b <;> cases c <;> cases d <;> rfl

theorem testU_toUInt64 (n : Nat) {j : Nat} (hj : j < 64) : testU n.toUInt64 j = n.testBit j := by
  unfold testU
  simp only [Nat.toUInt64, UInt64.toNat_ofNat']
  rw [Nat.testBit_mod_two_pow]
  simp [hj]

theorem flipU_testBit (occ : UInt64) : ∀ s, s < 64 → (flipU occ).toNat.testBit (mirror s) = occ.toNat.testBit s :=
  fun _ hs => testU_flipU_mirror occ hs

theorem rookAttacks_flip {sq : Nat} (hsq : sq < 64) (occ : UInt64) :
    rookAttacks (mirror sq) (flipU occ) = flipU (rookAttacks sq occ) := by
  apply ext_testU
  intro j hj
  rw [testU_flipU]
  simp only [hj, decide_true, Bool.true_and]
  unfold rookAttacks
  rw [(C04.rook_correct_u64 _ (mirror_lt hsq) _).2, (C04.rook_correct_u64 _ hsq _).2,
    testU_toUInt64 _ hj, testU_toUInt64 _ (mirror_lt hj)]
  have := slide_rook_mirror occ.toNat (flipU occ).toNat (flipU_testBit occ) hsq (mirror_lt hj)
  rw [mirror_mirror hj] at this
  exact this

theorem bishopAttacks_flip {sq : Nat} (hsq : sq < 64) (occ : UInt64) :
    bishopAttacks (mirror sq) (flipU occ) = flipU (bishopAttacks sq occ) := by
  apply ext_testU
  intro j hj
  rw [testU_flipU]
  simp only [hj, decide_true, Bool.true_and]
  unfold bishopAttacks
  rw [(C04.bishop_correct_u64 _ (mirror_lt hsq) _).2, (C04.bishop_correct_u64 _ hsq _).2,
    testU_toUInt64 _ hj, testU_toUInt64 _ (mirror_lt hj)]
  have := slide_bishop_mirror occ.toNat (flipU occ).toNat (flipU_testBit occ) hsq (mirror_lt hj)
  rw [mirror_mirror hj] at this
  exact this

def leapersMirrorCheck : Bool :=
  (List.range 64).all fun sq =>
    leaperAttacks knightTable (mirror sq) == flipU (leaperAttacks knightTable sq)
    && leaperAttacks kingTable (mirror sq) == flipU (leaperAttacks kingTable sq)
    && leaperAttacks whitePawnTable (mirror sq) == flipU (leaperAttacks blackPawnTable sq)
    && leaperAttacks blackPawnTable (mirror sq) == flipU (leaperAttacks whitePawnTable sq)

theorem leapers_mirror_check : leapersMirrorCheck = true := by decide +kernel

theorem leapers_flip {sq : Nat} (h : sq < 64) :
    leaperAttacks knightTable (mirror sq) = flipU (leaperAttacks knightTable sq)
    ∧ leaperAttacks kingTable (mirror sq) = flipU (leaperAttacks kingTable sq)
    ∧ leaperAttacks whitePawnTable (mirror sq) = flipU (leaperAttacks blackPawnTable sq)
    ∧ leaperAttacks blackPawnTable (mirror sq) = flipU (leaperAttacks whitePawnTable sq) := by
  have hc := leapers_mirror_check
  unfold leapersMirrorCheck at hc
  rw [List.all_eq_true] at hc
  have h1 := hc sq (List.mem_range.mpr h)
  simp only [Bool.and_eq_true, beq_iff_eq] at h1
  exact ⟨h1.1.1.1, h1.1.1.2, h1.1.2, h1.2⟩


theorem and_ne_zero_flip (a b : UInt64) : (flipU a &&& flipU b != 0) = (a &&& b != 0) := by
  rw [← flipU_and, flipU_ne_zero]

theorem flipSide_full (s : Side) : (flipSide s).full = flipU s.full := by
  unfold Side.full flipSide
  simp only [flipU_or]

/-- is square `sq` attacked by `passive`: same answer for the mirrored square, mirrored attackers, mirrored occupancy
and the other pawn direction -/
theorem squareInCheck_flip (c : Nat) (hc : c ≤ 1) (p : Side) {sq : Nat} (hsq : sq < 64) (occ : UInt64) :
    squareInCheck (1 - c) (flipSide p) (mirror sq) (flipU occ) = squareInCheck c p sq occ := by
  obtain ⟨hn, hk, hwp, hbp⟩ := leapers_flip hsq
  have hpawn : leaperAttacks (if (1 - c == 0) = true then whitePawnTable else blackPawnTable) (mirror sq)
      = flipU (leaperAttacks (if (c == 0) = true then whitePawnTable else blackPawnTable) sq) := by
    have : c = 0 ∨ c = 1 := by omega
    rcases this with h | h <;> subst h <;> simp [hwp, hbp]
  unfold squareInCheck
  rw [rookAttacks_flip hsq, bishopAttacks_flip hsq, hn, hk, hpawn]
  have e1 : (flipSide p).rooks ||| (flipSide p).queens = flipU (p.rooks ||| p.queens) := by
    rw [flipU_or]; rfl
  have e2 : (flipSide p).bishops ||| (flipSide p).queens = flipU (p.bishops ||| p.queens) := by
    rw [flipU_or]; rfl
  have e3 : (flipSide p).knights = flipU p.knights := rfl
  have e4 : (flipSide p).pawns = flipU p.pawns := rfl
  have e5 : (flipSide p).kings = flipU p.kings := rfl
  rw [e1, e2, e3, e4, e5]
  simp only [and_ne_zero_flip]

/-- with exactly one bit set, the lowest set bit of the mirrored word is the mirror of the lowest set bit -/
theorem trailingZeros_flip (k : UInt64) (h1 : popcount k = 1) :
    trailingZeros k < 64 ∧ trailingZeros (flipU k) = mirror (trailingZeros k) := by
  have hb : ∀ x : UInt64, trailingZeros x = ((bitsAsc x).head?).getD 64 := by
    intro x; unfold trailingZeros bitsAsc; rw [List.head?_filter]
  obtain ⟨s, hs⟩ : ∃ s, bitsAsc k = [s] := by
    unfold popcount at h1
    exact List.length_eq_one_iff.mp h1
  have hmem : s ∈ bitsAsc k := by rw [hs]; simp
  obtain ⟨hs64, hst⟩ := mem_bitsAsc.mp hmem
  have hmem' : mirror s ∈ bitsAsc (flipU k) :=
    mem_bitsAsc.mpr ⟨mirror_lt hs64, by rw [testU_flipU_mirror k hs64]; exact hst⟩
  have hlen : (bitsAsc (flipU k)).length = 1 := by
    have := popcount_flipU k
    unfold popcount at this h1
    omega
  have hs' : bitsAsc (flipU k) = [mirror s] := by
    obtain ⟨t, ht⟩ := List.length_eq_one_iff.mp hlen
    rw [ht] at hmem' ⊢
    simp at hmem'
    rw [hmem']
  rw [hb, hb, hs, hs']
  exact ⟨hs64, rfl⟩


theorem inCheck_flip (b : Board) (c : Nat) (hc : c ≤ 1)
    (hk : popcount (if c == 0 then b.white else b.black).kings = 1) :
    inCheck (flipBoard b) (1 - c) = inCheck b c := by
  have hw : (flipBoard b).white = flipSide b.black := rfl
  have hb : (flipBoard b).black = flipSide b.white := rfl
  have : c = 0 ∨ c = 1 := by omega
  rcases this with h | h
  · subst h
    simp only [beq_self_eq_true, if_true] at hk
    obtain ⟨h64, htz⟩ := trailingZeros_flip b.white.kings hk
    unfold inCheck
    simp only [hw, hb, Nat.sub_zero, Nat.reduceBEq, Bool.false_eq_true, if_false, beq_self_eq_true, if_true]
    rw [flipSide_full, flipSide_full, ← flipU_or]
    have e : (flipSide b.white).kings = flipU b.white.kings := rfl
    rw [e, htz]
    exact squareInCheck_flip 0 (by omega) b.black h64 _
  · subst h
    simp only [Nat.reduceBEq, Bool.false_eq_true, if_false] at hk
    obtain ⟨h64, htz⟩ := trailingZeros_flip b.black.kings hk
    unfold inCheck
    simp only [hw, hb, Nat.sub_self, Nat.reduceBEq, Bool.false_eq_true, if_false, beq_self_eq_true, if_true]
    rw [flipSide_full, flipSide_full, ← flipU_or]
    have e : (flipSide b.black).kings = flipU b.black.kings := rfl
    rw [e, htz]
    exact squareInCheck_flip 1 (by omega) b.white h64 _

/-- the flipped side to move is in check exactly when the original one is (one king of the side to move) -/
theorem isCurrentInCheck_flip (b : Board) (ht : b.turn ≤ 1) (hk : popcount b.active.kings = 1) :
    isCurrentInCheck (flipBoard b) = isCurrentInCheck b := by
  unfold isCurrentInCheck
  have e : (flipBoard b).turn = 1 - b.turn := rfl
  rw [e]
  apply inCheck_flip b b.turn ht
  unfold Board.active Board.whiteTurn at hk
  exact hk

/-- same for the side NOT to move (`is_valid`) -/
theorem isValid_flip (b : Board) (ht : b.turn ≤ 1) (hk : popcount b.passive.kings = 1) :
    isValid (flipBoard b) = isValid b := by
  unfold isValid
  have e : (flipBoard b).turn = 1 - b.turn := rfl
  rw [e]
  have : inCheck (flipBoard b) (1 - (1 - b.turn)) = inCheck b (1 - b.turn) := by
    apply inCheck_flip b (1 - b.turn) (by omega)
    unfold Board.passive Board.whiteTurn at hk
    have : b.turn = 0 ∨ b.turn = 1 := by omega
    rcases this with h | h <;> rw [h] at hk ⊢ <;> simpa using hk
  rw [this]

/-! ## 8. `evaluate` under the flip, unconditionally for boards with one king of the side to move -/

/-- `Heuristic::evaluate` is negated by the colour flip, for ongoing and for terminal positions -/
theorem evaluate_flip (b : Board) (lm : Bool) (ht : b.turn ≤ 1) (hk : popcount b.active.kings = 1) :
    evaluate (flipBoard b) lm = - evaluate b lm :=
  evaluate_flip_of b lm (fun _ => isCurrentInCheck_flip b ht hk)

/-- what `evaluate_flip` needs follows from the decidable well-formedness predicate -/
theorem wf_turn_king (b : Board) (h : WF.wf b = true) : b.turn ≤ 1 ∧ popcount b.active.kings = 1 := by
  unfold WF.wf at h
  simp only [Bool.and_eq_true, beq_iff_eq, decide_eq_true_eq] at h
  obtain ⟨⟨⟨⟨⟨⟨⟨⟨⟨⟨⟨⟨⟨_, hwk⟩, hbk⟩, _⟩, ht⟩, _⟩, _⟩, _⟩, _⟩, _⟩, _⟩, _⟩, _⟩, _⟩ := h
  refine ⟨ht, ?_⟩
  unfold Board.active Board.whiteTurn
  have : b.turn = 0 ∨ b.turn = 1 := by omega
  rcases this with e | e <;> rw [e] <;> simp only [beq_self_eq_true, if_true, Nat.reduceBEq, Bool.false_eq_true, if_false]
  · exact hwk
  · exact hbk

theorem evaluate_flip_wf (b : Board) (lm : Bool) (h : WF.wf b = true) :
    evaluate (flipBoard b) lm = - evaluate b lm :=
  evaluate_flip b lm (wf_turn_king b h).1 (wf_turn_king b h).2

end Inkayaku.EvalFlip
