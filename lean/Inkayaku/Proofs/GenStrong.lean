import Inkayaku.Proofs.GenOK
/-!
# What the generator knows about the moves it emits (helper for the well-formedness step H2')

`genPseudo_strong`/`genNonQuiescent_strong`: every generated move `m` of a well-formed board has `m.f = mkF b args` for
arguments satisfying `ArgsOK b args` — the exact field formulas of `make_move` plus the facts the generator loops
establish about source, target, move kind (castling, en passant, promotion, double push) and the attack relation between
source and target.  (`GenOK.genPseudo_ok` gives the weaker `MoveOK`, which is enough for make/unmake but not for
well-formedness of the resulting board.)
-/
namespace Inkayaku.GenStrong
open Inkayaku.Board Inkayaku.Gen Inkayaku.WF Inkayaku.MakeUnmake Inkayaku.MoveBits Inkayaku.GenOK

def dCastle (b : Board) : Nat := if b.whiteTurn then 0 else 56

/-- the union of all piece words, as the generators compute it -/
def fullOcc (b : Board) : UInt64 := b.active.full ||| b.passive.full

/-- the fields `make_move` computes from its arguments -/
def mkF (b : Board) (src tgt piece : Nat) (castle ep : Bool) (promo epOpp : Nat) : MoveF :=
  let attackSq := if b.whiteTurn then tgt + (if ep then 8 else 0) else tgt - (if ep then 8 else 0)
  let attacked := b.passive.pieceAt attackSq
  let oppLostQueen := b.passive.qs && tgt == A8 + dCastle b
  { pieceMoved := piece, pieceAttacked := attacked,
    selfLostKing := b.active.ks && (src == H1 - dCastle b || src == E1 - dCastle b),
    selfLostQueen := b.active.qs && (src == A1 - dCastle b || src == E1 - dCastle b),
    oppLostKing := !oppLostQueen && b.passive.ks && tgt == H8 + dCastle b,
    oppLostQueen := oppLostQueen,
    castle := castle, enPassant := ep, source := src, target := tgt,
    halfmoveReset := piece == PAWN || attacked != NO_PIECE,
    prevHalfmove := b.halfmove, prevEp := b.ep, nextEp := epOpp, promotion := promo, side := b.turn }

theorem mkMove_f {b : Board} {nq castle ep : Bool} {src tgt piece promo epOpp : Nat} {m : Move}
    (hb : Basic b) (hs : src < 64) (ht : tgt < 64) (hpc : piece < 8) (hpr : promo < 8) (heo : epOpp < 64)
    (h : mkMove b nq src tgt piece castle ep promo epOpp = some m) : m.f = mkF b src tgt piece castle ep promo epOpp := by
  have hfit : FieldsFit (mkF b src tgt piece castle ep promo epOpp) := by
    have h1 := hb.turn; have h2 := hb.hm; have h3 := hb.ep
    have h4 : b.passive.pieceAt (if b.whiteTurn then tgt + (if ep then 8 else 0) else tgt - (if ep then 8 else 0)) ≤ 6 :=
      pieceAtMask_le _ _
    unfold FieldsFit mkF
    simp only
    omega
  have heq : mkMove b nq src tgt piece castle ep promo epOpp =
      if (mkF b src tgt piece castle ep promo epOpp).pieceAttacked == NO_PIECE && promo == NO_PIECE && nq then none
      else some { bits := encode (mkF b src tgt piece castle ep promo epOpp),
                  mvvlva := mvvLva piece (mkF b src tgt piece castle ep promo epOpp).pieceAttacked } := rfl
  rw [heq] at h
  split at h
  · exact absurd h (by simp)
  · simp only [Option.some.injEq] at h
    subst h
    exact decode_encode hfit

/-! ## what the loops establish -/

/-- the piece `piece` on `src` attacks `tgt` (geometry of the lookup the generator used) -/
def Attacks (b : Board) (piece src tgt : Nat) : Prop :=
  ((piece = ROOK ∨ piece = QUEEN) ∧ testU (rookAttacks src (fullOcc b)) tgt = true) ∨
  ((piece = BISHOP ∨ piece = QUEEN) ∧ testU (bishopAttacks src (fullOcc b)) tgt = true) ∨
  (piece = KNIGHT ∧ testU (leaperAttacks knightTable src) tgt = true) ∨
  (piece = KING ∧ testU (leaperAttacks kingTable src) tgt = true) ∨
  (piece = PAWN ∧ testU (leaperAttacks (if b.whiteTurn then whitePawnTable else blackPawnTable) src) tgt = true)

structure ArgsOK (b : Board) (src tgt piece : Nat) (castle ep : Bool) (promo epOpp : Nat) : Prop where
  src_lt : src < 64
  tgt_lt : tgt < 64
  piece_ge : 1 ≤ piece
  piece_le : piece ≤ 6
  hasSrc : has (b.active.get piece) (bitU src)
  lacksTgt : lacks b.active.full (bitU tgt)
  promo_lt : promo < 8
  epOpp_lt : epOpp < 64
  castle_ : castle = true → piece = KING ∧ ep = false ∧ promo = 0 ∧ epOpp = 0 ∧ src = E1 - dCastle b ∧
    ∃ rs rt, castleRook tgt = some (rs, rt) ∧ rs < 64 ∧ rt < 64 ∧ has b.active.rooks (bitU rs) ∧
      lacks (fullOcc b) (bitU rt) ∧ lacks (fullOcc b) (bitU tgt)
  ep_ : ep = true → piece = PAWN ∧ castle = false ∧ promo = 0 ∧ epOpp = 0 ∧ tgt = b.ep ∧ 8 ≤ tgt ∧ tgt < 56
  promo_ : promo ≠ 0 → piece = PAWN ∧ 2 ≤ promo ∧ promo ≤ 5 ∧ castle = false ∧ ep = false ∧ epOpp = 0
  pawnMid : piece = PAWN → promo = 0 → 8 ≤ tgt ∧ tgt < 56
  dbl : epOpp ≠ 0 → piece = PAWN ∧ castle = false ∧ ep = false ∧ promo = 0 ∧
    lacks (fullOcc b) (bitU epOpp) ∧ lacks (fullOcc b) (bitU tgt) ∧
    (if b.whiteTurn then 48 ≤ src ∧ src < 56 ∧ tgt + 16 = src ∧ epOpp + 8 = src
     else 8 ≤ src ∧ src < 16 ∧ tgt = src + 16 ∧ epOpp = src + 8)
  attacks : castle = false → ep = false → ¬ lacks b.passive.full (bitU tgt) → Attacks b piece src tgt

/-- `m` was packed by `make_move` from arguments with the properties above -/
def GenS (b : Board) (m : Move) : Prop :=
  ∃ src tgt piece castle ep promo epOpp,
    m.f = mkF b src tgt piece castle ep promo epOpp ∧ ArgsOK b src tgt piece castle ep promo epOpp

def AllS (b : Board) (l : List Move) : Prop := ∀ m ∈ l, GenS b m

theorem allS_nil (b : Board) : AllS b [] := fun _ h => absurd h List.not_mem_nil

theorem pushOpt_s {b : Board} {acc : List Move} {o : Option Move} (hacc : AllS b acc)
    (h : ∀ m, o = some m → GenS b m) : AllS b (pushOpt acc o) := by
  cases o with
  | none => exact hacc
  | some x =>
    intro m hm
    simp only [pushOpt, List.mem_append, List.mem_singleton] at hm
    rcases hm with hm | rfl
    · exact hacc m hm
    · exact h _ rfl

theorem foldl_s {α : Type} {b : Board} (xs : List α) (step : List Move → α → List Move) (acc : List Move)
    (hstep : ∀ acc x, x ∈ xs → AllS b acc → AllS b (step acc x)) (hacc : AllS b acc) :
    AllS b (xs.foldl step acc) := by
  induction xs generalizing acc with
  | nil => exact hacc
  | cons x xs ih =>
    simp only [List.foldl_cons]
    exact ih _ (fun a y hy => hstep a y (List.mem_cons_of_mem _ hy)) (hstep _ _ (List.mem_cons_self ..) hacc)

/-- pushing one `make_move` result -/
theorem push_s {b : Board} {nq castle ep : Bool} {src tgt piece promo epOpp : Nat} {acc : List Move}
    (hb : Basic b) (ha : ArgsOK b src tgt piece castle ep promo epOpp) (hacc : AllS b acc) :
    AllS b (pushOpt acc (mkMove b nq src tgt piece castle ep promo epOpp)) := by
  apply pushOpt_s hacc
  intro m hm
  exact ⟨src, tgt, piece, castle, ep, promo, epOpp,
    mkMove_f hb ha.src_lt ha.tgt_lt (by have := ha.piece_le; omega) ha.promo_lt ha.epOpp_lt hm, ha⟩

/-! ## pieces -/

theorem lacks_full_of_masked {fl att T : UInt64} (hT : has (att &&& ~~~fl) T) : lacks fl T := by
  ubits [hT] [att, fl, T]

theorem has_att_of_masked {fl att T : UInt64} (hT : has (att &&& ~~~fl) T) : has att T := by
  ubits [hT] [att, fl, T]

theorem genAttacks_s {b : Board} {nq : Bool} {src piece : Nat} {att : UInt64} {acc : List Move}
    (hb : Basic b) (hs : src < 64) (hp2 : 2 ≤ piece) (hp6 : piece ≤ 6)
    (hS : has (b.active.get piece) (bitU src))
    (hatt : ∀ tgt, tgt < 64 → testU att tgt = true → Attacks b piece src tgt) (hacc : AllS b acc) :
    AllS b (genAttacks b nq src (att &&& ~~~b.active.full) piece acc) := by
  unfold genAttacks
  apply foldl_s _ _ _ _ hacc
  intro acc tgt htgt hacc
  rw [GenOK.mem_bitsAsc] at htgt
  have hT := (testU_iff_has htgt.1).1 htgt.2
  refine push_s hb ?_ hacc
  exact {
    src_lt := hs, tgt_lt := htgt.1, piece_ge := by omega, piece_le := hp6, hasSrc := hS,
    lacksTgt := lacks_full_of_masked hT, promo_lt := by decide, epOpp_lt := by decide,
    castle_ := fun h => (by cases h), ep_ := fun h => (by cases h), promo_ := fun h => absurd rfl h,
    pawnMid := fun h => (by rw [h] at hp2; exact absurd hp2 (by decide)),
    dbl := fun h => absurd rfl h,
    attacks := fun _ _ _ => hatt tgt htgt.1 ((testU_iff_has htgt.1).2 (has_att_of_masked hT)) }

theorem slidingMoves_s {b : Board} {nq rook : Bool} {piece : Nat} {acc : List Move}
    (hb : Basic b) (hp2 : 2 ≤ piece) (hp6 : piece ≤ 6)
    (hk : if rook then piece = ROOK ∨ piece = QUEEN else piece = BISHOP ∨ piece = QUEEN) (hacc : AllS b acc) :
    AllS b (slidingMoves b nq (b.active.get piece) b.active.full (fullOcc b) rook piece acc) := by
  unfold slidingMoves
  apply foldl_s _ _ _ _ hacc
  intro acc src hsrc hacc
  rw [GenOK.mem_bitsAsc] at hsrc
  refine genAttacks_s hb hsrc.1 hp2 hp6 ((testU_iff_has hsrc.1).1 hsrc.2) ?_ hacc
  intro tgt _ ht
  cases rook
  · simp only [Bool.false_eq_true, if_false] at hk ht
    exact Or.inr (Or.inl ⟨hk, ht⟩)
  · simp only [if_true] at hk ht
    exact Or.inl ⟨hk, ht⟩

theorem singleMoves_s {b : Board} {nq : Bool} {piece : Nat} {tbl : List Nat} {acc : List Move}
    (hb : Basic b) (hp2 : 2 ≤ piece) (hp6 : piece ≤ 6)
    (hk : (piece = KNIGHT ∧ tbl = knightTable) ∨ (piece = KING ∧ tbl = kingTable)) (hacc : AllS b acc) :
    AllS b (singleMoves b nq (b.active.get piece) b.active.full tbl piece acc) := by
  unfold singleMoves
  apply foldl_s _ _ _ _ hacc
  intro acc src hsrc hacc
  rw [GenOK.mem_bitsAsc] at hsrc
  refine genAttacks_s hb hsrc.1 hp2 hp6 ((testU_iff_has hsrc.1).1 hsrc.2) ?_ hacc
  intro tgt _ ht
  rcases hk with ⟨h1, h2⟩ | ⟨h1, h2⟩
  · subst h2; exact Or.inr (Or.inr (Or.inl ⟨h1, ht⟩))
  · subst h2; exact Or.inr (Or.inr (Or.inr (Or.inl ⟨h1, ht⟩)))

/-! ## pawns -/

theorem r8_ge : ∀ t, t < 64 → (bitU t &&& rank8.toUInt64 == 0) = true → 8 ≤ t := by decide
theorem r1_lt : ∀ t, t < 64 → (bitU t &&& rank1.toUInt64 == 0) = true → t < 56 := by decide
theorem r8_lt : ∀ t, t < 64 → (bitU t &&& rank8.toUInt64 == 0) = false → t < 8 := by decide
theorem r1_ge : ∀ t, t < 64 → (bitU t &&& rank1.toUInt64 == 0) = false → 56 ≤ t := by decide

theorem pawnArgs {b : Board} {src tgt : Nat} {ep : Bool} (hs : src < 64) (ht : tgt < 64)
    (hS : has b.active.pawns (bitU src)) (hl : lacks b.active.full (bitU tgt)) (hmid : 8 ≤ tgt ∧ tgt < 56)
    (hep : ep = true → tgt = b.ep)
    (hatt : ep = false → ¬ lacks b.passive.full (bitU tgt) → Attacks b PAWN src tgt) :
    ArgsOK b src tgt PAWN false ep NO_PIECE 0 :=
  { src_lt := hs, tgt_lt := ht, piece_ge := by decide, piece_le := by decide, hasSrc := hS, lacksTgt := hl,
    promo_lt := by decide, epOpp_lt := by decide,
    castle_ := fun h => (by cases h),
    ep_ := fun h => ⟨rfl, rfl, rfl, rfl, hep h, hmid.1, hmid.2⟩,
    promo_ := fun h => absurd rfl h, pawnMid := fun _ _ => hmid, dbl := fun h => absurd rfl h,
    attacks := fun _ h2 h3 => hatt h2 h3 }

theorem promoArgs {b : Board} {src tgt p : Nat} (hs : src < 64) (ht : tgt < 64)
    (hS : has b.active.pawns (bitU src)) (hl : lacks b.active.full (bitU tgt)) (hp2 : 2 ≤ p) (hp5 : p ≤ 5)
    (hatt : ¬ lacks b.passive.full (bitU tgt) → Attacks b PAWN src tgt) :
    ArgsOK b src tgt PAWN false false p 0 :=
  { src_lt := hs, tgt_lt := ht, piece_ge := by decide, piece_le := by decide, hasSrc := hS, lacksTgt := hl,
    promo_lt := by omega, epOpp_lt := by decide,
    castle_ := fun h => (by cases h), ep_ := fun h => (by cases h),
    promo_ := fun _ => ⟨rfl, hp2, hp5, rfl, rfl, rfl⟩,
    pawnMid := fun _ h => (by omega), dbl := fun h => absurd rfl h,
    attacks := fun _ _ h3 => hatt h3 }

theorem promotions_s {b : Board} {src tgt : Nat} {acc : List Move} (hb : Basic b) (hs : src < 64) (ht : tgt < 64)
    (hS : has b.active.pawns (bitU src)) (hl : lacks b.active.full (bitU tgt))
    (hatt : ¬ lacks b.passive.full (bitU tgt) → Attacks b PAWN src tgt)
    (hacc : AllS b acc) : AllS b (promotions b src tgt acc) := by
  unfold promotions
  apply foldl_s _ _ _ _ hacc
  intro acc p hp hacc
  have hp' : p = 5 ∨ p = 4 ∨ p = 3 ∨ p = 2 := by simpa [QUEEN, ROOK, BISHOP, KNIGHT] using hp
  exact push_s hb (promoArgs hs ht hS hl (by omega) (by omega) hatt) hacc

theorem pawnAtt_split {a pocc fl T : UInt64} (hT : has (a &&& pocc &&& ~~~fl) T) : has a T ∧ lacks fl T := by
  constructor
  · ubits [hT] [a, pocc, fl, T]
  · ubits [hT] [a, pocc, fl, T]

theorem pawnAttacks_s {b : Board} {acc : List Move} (hw : WFacts b) (hacc : AllS b acc) :
    AllS b (pawnAttacks b b.active.pawns b.active.full b.passive.full acc) := by
  have hb := hw.basic
  unfold pawnAttacks
  apply foldl_s _ _ _ _ hacc
  intro acc src hsrc hacc
  rw [GenOK.mem_bitsAsc] at hsrc
  have hS : has b.active.pawns (bitU src) := (testU_iff_has hsrc.1).1 hsrc.2
  simp only
  apply foldl_s _ _ _ _ hacc
  intro acc tgt htgt hacc
  rw [GenOK.mem_bitsAsc] at htgt
  obtain ⟨hA, hl⟩ := pawnAtt_split ((testU_iff_has htgt.1).1 htgt.2)
  have hatt : Attacks b PAWN src tgt := by
    refine Or.inr (Or.inr (Or.inr (Or.inr ⟨rfl, ?_⟩)))
    exact (testU_iff_has htgt.1).2 hA
  cases hc : (bitU tgt &&& rank8.toUInt64 != 0 || bitU tgt &&& rank1.toUInt64 != 0)
  · simp only [Bool.false_eq_true, if_false]
    have hmid := mid_of_not_r18 tgt htgt.1 hc
    refine push_s hb (pawnArgs hsrc.1 htgt.1 hS hl hmid ?_ (fun _ _ => hatt)) hacc
    intro he; simpa using he
  · simp only [if_true]
    exact promotions_s hb hsrc.1 htgt.1 hS hl (fun _ => hatt) hacc

theorem empty_split {T fa fp : UInt64} (h : (T &&& (fa ||| fp) == 0) = true) :
    lacks fa T ∧ lacks fp T ∧ lacks (fa ||| fp) T := by
  refine ⟨?_, ?_, ?_⟩
  · ubits [h] [T, fa, fp]
  · ubits [h] [T, fa, fp]
  · ubits [h] [T, fa, fp]

theorem pawnMoves_s {b : Board} {nq : Bool} {acc : List Move} (hw : WFacts b) (hacc : AllS b acc) :
    AllS b (pawnMoves b nq b.active.pawns (fullOcc b) acc) := by
  have hb := hw.basic
  unfold pawnMoves fullOcc
  apply foldl_s _ _ _ _ hacc
  intro acc src hsrc hacc
  rw [GenOK.mem_bitsAsc] at hsrc
  have hs := hsrc.1
  have hS : has b.active.pawns (bitU src) := (testU_iff_has hsrc.1).1 hsrc.2
  have hmid := pawn_mid hw hs hS
  simp only
  cases hwt : b.whiteTurn
  · -- black: pawns move towards higher square numbers
    simp only [Bool.false_eq_true, if_false]
    rw [shl8 src hmid.2, tz_bitU (src + 8) (by omega)]
    split
    · next hfree =>
      obtain ⟨hla, hlp, _⟩ := empty_split hfree
      split
      · next hnp =>
        have h56 := r1_lt (src + 8) (by omega) hnp
        have h1 : AllS b (pushOpt acc (mkMove b nq src (src + 8) PAWN false false NO_PIECE 0)) :=
          push_s hb (pawnArgs hs (by omega) hS hla ⟨by omega, h56⟩ (fun h => by cases h) (fun _ h => absurd hlp h)) hacc
        split
        · next hd =>
          simp only [Bool.and_eq_true] at hd
          have h16 := of_rank7 src hs hd.1
          have hd2 := hd.2
          rw [shl8 (src + 8) (by omega)] at hd2 ⊢
          rw [tz_bitU (src + 8 + 8) (by omega)]
          obtain ⟨hla2, hlp2, hlf2⟩ := empty_split hd2
          refine push_s hb ?_ h1
          exact {
            src_lt := hs, tgt_lt := by omega, piece_ge := by decide, piece_le := by decide, hasSrc := hS,
            lacksTgt := hla2, promo_lt := by decide, epOpp_lt := by omega,
            castle_ := fun h => (by cases h), ep_ := fun h => (by cases h), promo_ := fun h => absurd rfl h,
            pawnMid := fun _ _ => ⟨by omega, by omega⟩,
            dbl := fun _ => ⟨rfl, rfl, rfl, rfl, (empty_split hfree).2.2, hlf2, by
              rw [if_neg (by simp [hwt])]; omega⟩,
            attacks := fun _ _ h => absurd hlp2 h }
        · exact h1
      · next hnp =>
        have hnp' : (bitU (src + 8) &&& rank1.toUInt64 == 0) = false := by simpa using hnp
        have := r1_ge (src + 8) (by omega) hnp'
        exact promotions_s hb hs (by omega) hS hla (fun h => absurd hlp h) hacc
    · exact hacc
  · -- white: pawns move towards lower square numbers
    simp only [if_true]
    rw [shr8 src hs hmid.1, tz_bitU (src - 8) (by omega)]
    split
    · next hfree =>
      obtain ⟨hla, hlp, _⟩ := empty_split hfree
      split
      · next hnp =>
        have h8 := r8_ge (src - 8) (by omega) hnp
        have h1 : AllS b (pushOpt acc (mkMove b nq src (src - 8) PAWN false false NO_PIECE 0)) :=
          push_s hb (pawnArgs hs (by omega) hS hla ⟨h8, by omega⟩ (fun h => by cases h) (fun _ h => absurd hlp h)) hacc
        split
        · next hd =>
          simp only [Bool.and_eq_true] at hd
          have h48 := of_rank2 src hs hd.1
          have hd2 := hd.2
          rw [shr8 (src - 8) (by omega) (by omega)] at hd2 ⊢
          rw [tz_bitU (src - 8 - 8) (by omega)]
          obtain ⟨hla2, hlp2, hlf2⟩ := empty_split hd2
          refine push_s hb ?_ h1
          exact {
            src_lt := hs, tgt_lt := by omega, piece_ge := by decide, piece_le := by decide, hasSrc := hS,
            lacksTgt := hla2, promo_lt := by decide, epOpp_lt := by omega,
            castle_ := fun h => (by cases h), ep_ := fun h => (by cases h), promo_ := fun h => absurd rfl h,
            pawnMid := fun _ _ => ⟨by omega, by omega⟩,
            dbl := fun _ => ⟨rfl, rfl, rfl, rfl, (empty_split hfree).2.2, hlf2, by
              rw [if_pos hwt]; omega⟩,
            attacks := fun _ _ h => absurd hlp2 h }
        · exact h1
      · next hnp =>
        exact promotions_s hb hs (by omega) hS hla (fun h => absurd hlp h) hacc
    · exact hacc

/-! ## castling -/

theorem lacks_of_mask_empty {fl mask T : UInt64} (h : (fl &&& mask == 0) = true) (hm : has mask T) : lacks fl T := by
  ubits [h, hm] [fl, mask, T]

theorem lacks_left {fa fp T : UInt64} (h : lacks (fa ||| fp) T) : lacks fa T := by
  ubits [h] [fa, fp, T]

theorem castleArgs {b : Board} {src tgt rs rt : Nat} (hs : src < 64) (ht : tgt < 64) (hsrc : src = E1 - dCastle b)
    (hK : has b.active.kings (bitU src)) (hcr : castleRook tgt = some (rs, rt)) (hrs : rs < 64) (hrt : rt < 64)
    (hR : has b.active.rooks (bitU rs)) (h1 : lacks (fullOcc b) (bitU rt)) (h2 : lacks (fullOcc b) (bitU tgt)) :
    ArgsOK b src tgt KING true false NO_PIECE 0 :=
  { src_lt := hs, tgt_lt := ht, piece_ge := by decide, piece_le := by decide, hasSrc := hK,
    lacksTgt := lacks_left h2, promo_lt := by decide, epOpp_lt := by decide,
    castle_ := fun _ => ⟨rfl, rfl, rfl, rfl, hsrc, rs, rt, hcr, hrs, hrt, hR, h1, h2⟩,
    ep_ := fun h => (by cases h), promo_ := fun h => absurd rfl h,
    pawnMid := fun h => (by cases h), dbl := fun h => absurd rfl h,
    attacks := fun h => (by cases h) }

theorem castleMoves_s {b : Board} {acc : List Move} (hw : WFacts b) (hacc : AllS b acc) :
    AllS b (castleMoves b (fullOcc b) acc) := by
  have hb := hw.basic
  unfold castleMoves
  simp only
  cases hwt : b.whiteTurn
  · have hact : b.active = b.black := by simp [Board.active, hwt]
    have hd : dCastle b = 56 := by simp [dCastle, hwt]
    simp only [Bool.false_eq_true, if_false]
    have h1 : AllS b (if (b.black.qs && fullOcc b &&& blackQueenSideCastleEmpty.toUInt64 == 0
        && !occupancyInCheck 1 b.white (fullOcc b) blackQueenSideCastleCheck.toUInt64) = true
        then pushOpt acc (mkMove b false E8 C8 KING true false NO_PIECE 0) else acc) := by
      split
      · next hc =>
        simp only [Bool.and_eq_true] at hc
        obtain ⟨⟨hq, he⟩, -⟩ := hc
        have hk := hw.bqs hq
        refine push_s hb (castleArgs (rs := A8) (rt := D8) (by decide) (by decide) (by rw [hd]; decide) ?_ rfl
          (by decide) (by decide) ?_ (lacks_of_mask_empty he (by decide)) (lacks_of_mask_empty he (by decide))) hacc
        · rw [hact]; exact (testU_iff_has (by decide)).1 hk.1
        · rw [hact]; exact (testU_iff_has (by decide)).1 hk.2
      · exact hacc
    split
    · next hc =>
      simp only [Bool.and_eq_true] at hc
      obtain ⟨⟨hq, he⟩, -⟩ := hc
      have hk := hw.bks hq
      refine push_s hb (castleArgs (rs := H8) (rt := F8) (by decide) (by decide) (by rw [hd]; decide) ?_ rfl
        (by decide) (by decide) ?_ (lacks_of_mask_empty he (by decide)) (lacks_of_mask_empty he (by decide))) h1
      · rw [hact]; exact (testU_iff_has (by decide)).1 hk.1
      · rw [hact]; exact (testU_iff_has (by decide)).1 hk.2
    · exact h1
  · have hact : b.active = b.white := by simp [Board.active, hwt]
    have hd : dCastle b = 0 := by simp [dCastle, hwt]
    simp only [if_true]
    have h1 : AllS b (if (b.white.qs && fullOcc b &&& whiteQueenSideCastleEmpty.toUInt64 == 0
        && !occupancyInCheck 0 b.black (fullOcc b) whiteQueenSideCastleCheck.toUInt64) = true
        then pushOpt acc (mkMove b false E1 C1 KING true false NO_PIECE 0) else acc) := by
      split
      · next hc =>
        simp only [Bool.and_eq_true] at hc
        obtain ⟨⟨hq, he⟩, -⟩ := hc
        have hk := hw.wqs hq
        refine push_s hb (castleArgs (rs := A1) (rt := D1) (by decide) (by decide) (by rw [hd]; decide) ?_ rfl
          (by decide) (by decide) ?_ (lacks_of_mask_empty he (by decide)) (lacks_of_mask_empty he (by decide))) hacc
        · rw [hact]; exact (testU_iff_has (by decide)).1 hk.1
        · rw [hact]; exact (testU_iff_has (by decide)).1 hk.2
      · exact hacc
    split
    · next hc =>
      simp only [Bool.and_eq_true] at hc
      obtain ⟨⟨hq, he⟩, -⟩ := hc
      have hk := hw.wks hq
      refine push_s hb (castleArgs (rs := H1) (rt := F1) (by decide) (by decide) (by rw [hd]; decide) ?_ rfl
        (by decide) (by decide) ?_ (lacks_of_mask_empty he (by decide)) (lacks_of_mask_empty he (by decide))) h1
      · rw [hact]; exact (testU_iff_has (by decide)).1 hk.1
      · rw [hact]; exact (testU_iff_has (by decide)).1 hk.2
    · exact h1

/-! ## the whole generator -/

/-- every pseudo-legal move of a well-formed board was packed by `make_move` from arguments satisfying `ArgsOK` -/
theorem genPseudo_strong {b : Board} (h : wf b = true) : ∀ m ∈ genPseudo b, GenS b m := by
  have hw := wf_facts h
  have hb := hw.basic
  unfold genPseudo
  simp only
  have a1 : AllS b _ := slidingMoves_s (nq := false) (rook := true) (piece := QUEEN) hb (by decide) (by decide)
    (Or.inr rfl) (allS_nil b)
  have a2 : AllS b _ := slidingMoves_s (nq := false) (rook := false) (piece := QUEEN) hb (by decide) (by decide)
    (Or.inr rfl) a1
  have a3 : AllS b _ := slidingMoves_s (nq := false) (rook := false) (piece := BISHOP) hb (by decide) (by decide)
    (Or.inl rfl) a2
  have a4 : AllS b _ := slidingMoves_s (nq := false) (rook := true) (piece := ROOK) hb (by decide) (by decide)
    (Or.inl rfl) a3
  have a5 : AllS b _ := singleMoves_s (nq := false) (piece := KNIGHT) (tbl := knightTable) hb (by decide) (by decide)
    (Or.inl ⟨rfl, rfl⟩) a4
  have a6 : AllS b _ := singleMoves_s (nq := false) (piece := KING) (tbl := kingTable) hb (by decide) (by decide)
    (Or.inr ⟨rfl, rfl⟩) a5
  have a7 : AllS b _ := pawnAttacks_s hw a6
  have a8 : AllS b _ := pawnMoves_s (nq := false) hw a7
  exact castleMoves_s hw a8

/-- the same for the capture/promotion-only generator of the quiescence search -/
theorem genNonQuiescent_strong {b : Board} (h : wf b = true) : ∀ m ∈ genNonQuiescent b, GenS b m := by
  have hw := wf_facts h
  have hb := hw.basic
  unfold genNonQuiescent
  simp only
  have a1 : AllS b _ := slidingMoves_s (nq := true) (rook := true) (piece := QUEEN) hb (by decide) (by decide)
    (Or.inr rfl) (allS_nil b)
  have a2 : AllS b _ := slidingMoves_s (nq := true) (rook := false) (piece := QUEEN) hb (by decide) (by decide)
    (Or.inr rfl) a1
  have a3 : AllS b _ := slidingMoves_s (nq := true) (rook := false) (piece := BISHOP) hb (by decide) (by decide)
    (Or.inl rfl) a2
  have a4 : AllS b _ := slidingMoves_s (nq := true) (rook := true) (piece := ROOK) hb (by decide) (by decide)
    (Or.inl rfl) a3
  have a5 : AllS b _ := singleMoves_s (nq := true) (piece := KNIGHT) (tbl := knightTable) hb (by decide) (by decide)
    (Or.inl ⟨rfl, rfl⟩) a4
  have a6 : AllS b _ := singleMoves_s (nq := true) (piece := KING) (tbl := kingTable) hb (by decide) (by decide)
    (Or.inr ⟨rfl, rfl⟩) a5
  have a7 : AllS b _ := pawnAttacks_s hw a6
  exact pawnMoves_s (nq := true) hw a7

#print axioms genPseudo_strong
#print axioms genNonQuiescent_strong

end Inkayaku.GenStrong
