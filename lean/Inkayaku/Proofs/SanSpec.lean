import Inkayaku.Props.Closure
/-!
# C14: the text of `uci_to_pgn` IS `Spec.san`

`Props/C14.lean` shows that the text written for a legal move is `renderSan (shapeOfMove b m)`.  Here the executable
reference `Spec.san (abs b) (absMove m.f)` of `Spec/Chess.lean` is unfolded on the same data and shown to be the same
list of characters, part by part:

* the piece found on the source square (`Successor.at_src`), hence the piece letter and the pawn / piece split;
* `Spec.isCastle` = the castle flag = "the model writes `O-O` / `O-O-O`" (`Successor.isCastle_eq`, `castleKind_iff`);
* `Spec.isCapture` = `pieceAttacked ≠ 0` (`Successor.isCapture_eq`, en passant included) = the model's capture mark;
* the promotion letter;
* the disambiguation: `others` of `Spec.san` (other legal moves of the rules, same piece, same target) and the
  model's candidate sources without the mover are the same set of squares (`Closure.genLegal_eq_rules`,
  `mem_candSources`), and the model's case split is the standard one (`disamb_standard`);
* the suffix: the position after the move is `Spec.apply` (`C02.make_eq_apply`), it is well-formed
  (`Search.make_wf`: this is where the two clock conditions come from), so "no legal move" and "in check" mean the same
  on both sides (`Closure.no_moves_iff_rules`, `C05.current_in_check`).
-/
namespace Inkayaku.SanSpec
open Inkayaku.Board Inkayaku.San Inkayaku.Spec.SanGrammar Inkayaku.SanProofs Inkayaku.Util Inkayaku.Abs

/-! ## small facts about the characters -/

theorem fileOf_eq6 (t : Nat) : (Spec.fileOf t == 6) = (t % 8 == 6) := by
  rw [Bool.eq_iff_iff]
  simp only [Spec.fileOf, beq_iff_eq]
  omega

theorem sqName_toList (t : Nat) : (Spec.sqName t).toList = [fileChar t, rankChar t] := by
  simp only [Spec.sqName, String.toList_ofList, fileChar, rankChar]

theorem kindOf_inj {p q : Nat} (hp1 : 1 ≤ p) (hp6 : p ≤ 6) (hq1 : 1 ≤ q) (hq6 : q ≤ 6) (h : kindOf p = kindOf q) :
    p = q := by
  have hp : p = 1 ∨ p = 2 ∨ p = 3 ∨ p = 4 ∨ p = 5 ∨ p = 6 := by omega
  have hq : q = 1 ∨ q = 2 ∨ q = 3 ∨ q = 4 ∨ q = 5 ∨ q = 6 := by omega
  rcases hp with rfl | rfl | rfl | rfl | rfl | rfl <;> rcases hq with rfl | rfl | rfl | rfl | rfl | rfl <;>
    first | rfl | (exfalso; revert h; decide)

/-- the upper-case letter of the Spec is the letter the model writes (knight … king) -/
theorem letter_eq {p : Nat} (h2 : 2 ≤ p) (h6 : p ≤ 6) :
    letterOf p = some (Char.ofNat ((Spec.kindLetter (kindOf p)).toNat - 32)) := by
  have hp : p = 2 ∨ p = 3 ∨ p = 4 ∨ p = 5 ∨ p = 6 := by omega
  rcases hp with rfl | rfl | rfl | rfl | rfl <;> decide

theorem capturesOf_eq {f : MoveF} (h : f.pieceAttacked ≤ 6) : capturesOf f = (f.pieceAttacked != NO_PIECE) := by
  unfold capturesOf
  rw [Bool.eq_iff_iff]
  simp only [Bool.and_eq_true, decide_eq_true_eq, bne_iff_ne, ne_eq, NO_PIECE]
  omega

/-! ## the suffix -/

/-- on a well-formed position the check mark of the model is the check mark of the rules -/
theorem suffix_eq {b1 : Board} (hwf1 : WF.wf b1 = true) :
    (if Spec.isCheckmate (abs b1) = true then "#"
      else if Spec.inCheck (abs b1) (abs b1).whiteToMove = true then "+" else "").toList = optC (sanSuffix b1) := by
  obtain ⟨hmate, -⟩ := Closure.no_moves_iff_rules b1 hwf1
  rw [← hmate, ← C05.current_in_check b1 hwf1]
  unfold sanSuffix
  rw [anyLegal_eq, Bool.not_not]
  cases isCurrentInCheck b1 <;> cases (genLegal b1).isEmpty <;> rfl

/-! ## the candidates -/

theorem all_congr_mem {α : Type} {l1 l2 : List α} (P : α → Bool) (h : ∀ x, x ∈ l1 ↔ x ∈ l2) :
    l1.all P = l2.all P := by
  rw [Bool.eq_iff_iff, List.all_eq_true, List.all_eq_true]
  exact ⟨fun h1 x hx => h1 x ((h x).mpr hx), fun h2 x hx => h2 x ((h x).mp hx)⟩

/-- **the candidate sets agree**: the source squares of `others` in `Spec.san` (the other LEGAL moves of the rules with
the same kind and colour of piece to the same target) are the model's candidate sources without the mover's square -/
theorem others_all {b : Board} (hwf : WF.wf b = true) {m : Move} (hmp : m ∈ genPseudo b) (P : Nat → Bool) :
    ((Spec.legalMoves (abs b)).filter fun o =>
        o.tgt == m.f.target && o.src != m.f.source &&
          (abs b).at o.src == some ⟨b.whiteTurn, kindOf m.f.pieceMoved⟩).all (fun o => P o.src) =
      ((candSources b (genPseudo b) m.f).filter (· != m.f.source)).all P := by
  have he := GenFacts.env_of_wf hwf
  have hfacts := GenFacts.genPseudo_facts hwf
  have hrange : ∀ x ∈ genPseudo b, 1 ≤ x.f.pieceMoved ∧ x.f.pieceMoved ≤ 6 := (sanGenFacts_of_wf hwf).piece_range
  rw [Bool.eq_iff_iff, List.all_eq_true, List.all_eq_true]
  constructor
  · intro h n hn
    obtain ⟨hn1, hn2⟩ := List.mem_filter.mp hn
    obtain ⟨x, hx, hxt, hxp, hxs⟩ := (C14.mem_candSources (b := b) (m := m)).mp hn1
    have hxp' := mem_genPseudo_of_legal hx
    have hxl : absMove x.f ∈ Spec.legalMoves (abs b) :=
      (Closure.genLegal_eq_rules hwf _).mp (List.mem_map.mpr ⟨x, hx, rfl⟩)
    have hat : (abs b).at x.f.source = some ⟨b.whiteTurn, kindOf x.f.pieceMoved⟩ := Successor.at_src he (hfacts x hxp')
    have := h (absMove x.f) (by
      rw [List.mem_filter]
      refine ⟨hxl, ?_⟩
      show (x.f.target == m.f.target && x.f.source != m.f.source &&
        (abs b).at x.f.source == some ⟨b.whiteTurn, kindOf m.f.pieceMoved⟩) = true
      rw [hat, hxt, hxp, hxs]
      simpa using hn2)
    rw [← hxs]
    exact this
  · intro h o ho
    obtain ⟨hol, hoc⟩ := List.mem_filter.mp ho
    simp only [Bool.and_eq_true, beq_iff_eq, bne_iff_ne, ne_eq] at hoc
    obtain ⟨⟨hot, hos⟩, hoat⟩ := hoc
    obtain ⟨x, hx, hxo⟩ := List.mem_map.mp ((Closure.genLegal_eq_rules hwf o).mpr hol)
    have hxo' : absMove x.f = o := hxo
    subst hxo'
    have hxp' := mem_genPseudo_of_legal hx
    have hat : (abs b).at x.f.source = some ⟨b.whiteTurn, kindOf x.f.pieceMoved⟩ := Successor.at_src he (hfacts x hxp')
    have hoat' : (abs b).at x.f.source = some ⟨b.whiteTurn, kindOf m.f.pieceMoved⟩ := hoat
    rw [hat] at hoat'
    have hk : kindOf x.f.pieceMoved = kindOf m.f.pieceMoved := by
      injection hoat' with h1; injection h1
    have hpm := kindOf_inj (hrange x hxp').1 (hrange x hxp').2 (hrange m hmp).1 (hrange m hmp).2 hk
    refine h x.f.source ?_
    rw [List.mem_filter]
    refine ⟨(C14.mem_candSources (b := b) (m := m)).mpr ⟨x, hx, hot, hpm, rfl⟩, ?_⟩
    have hos' : x.f.source ≠ m.f.source := hos
    simpa using hos'

/-! ## the equation -/

/-- **the characters of `Spec.san` are the rendering of the shape `uci_to_pgn` writes** -/
theorem san_toList {b : Board} (hwf : WF.wf b = true) (hhm : b.halfmove < 4095) (hfm : b.fullmove + 1 < 2147483648)
    {m : Move} (hm : m ∈ genLegal b) :
    (Spec.san (abs b) (absMove m.f)).toList = renderSan (shapeOfMove b m) := by
  have hmp := mem_genPseudo_of_legal hm
  have hleg : isValid (make b m) = true := legal_of_mem_genLegal hm
  have hwf1 : WF.wf (make b m) = true := Search.make_wf b m hwf hhm hfm (Or.inl hmp) hleg
  have he := GenFacts.env_of_wf hwf
  have hf := GenFacts.genPseudo_facts hwf m hmp
  have hF := sanGenFacts_of_wf hwf
  have hat := Successor.at_src he hf
  have hcas := Successor.isCastle_eq he hf
  have hcap := Successor.isCapture_eq he hf
  have happ := C02.make_eq_apply hwf hmp
  obtain ⟨hp1, hp6⟩ := hF.piece_range m hmp
  have hpa6 := hF.attacked_le m hmp
  have hsfx := suffix_eq hwf1
  unfold Spec.san
  rw [hat]
  simp only [← happ, hcas, hcap, Successor.kindOf_pawn hp1 hp6]
  cases hc : m.f.castle
  · -- not castling
    have hck : castleKind m.f = none := by
      have := C14.castleKind_iff hwf hmp
      rw [hc] at this
      cases h : castleKind m.f with
      | none => rfl
      | some l => rw [h] at this; cases this
    simp only [Bool.false_eq_true, if_false]
    by_cases hpawn : m.f.pieceMoved = PAWN
    · -- pawn
      rw [C14.shape_pawn hck hpawn]
      simp only [hpawn, beq_self_eq_true, if_true, String.toList_append, hsfx, sqName_toList, renderSan, renderBody,
        capturesOf_eq hpa6, List.append_nil, optC]
      rcases hF.promo_pawn m hmp hpawn with ⟨h0, -, -⟩ | ⟨h2, h5, -⟩
      · simp only [absMove, h0, promoOf_zero h0, beq_self_eq_true, if_true]
        cases (m.f.pieceAttacked != NO_PIECE) <;> simp [fileChar]
      · have : m.f.promotion = 2 ∨ m.f.promotion = 3 ∨ m.f.promotion = 4 ∨ m.f.promotion = 5 := by omega
        rcases this with e | e | e | e <;> simp only [absMove, promoOf, e] <;>
          cases (m.f.pieceAttacked != NO_PIECE) <;> simp [fileChar, letterOf, kindOf, Spec.kindLetter]
    · -- piece
      rw [C14.shape_piece hwf hm hck hpawn]
      have hne : (m.f.pieceMoved == PAWN) = false := by simpa using hpawn
      have h2 : 2 ≤ m.f.pieceMoved := by
        have : m.f.pieceMoved ≠ 1 := hpawn
        omega
      simp only [hne, Bool.false_eq_true, if_false, absMove, isEmpty_eq_all]
      have hE := others_all hwf hmp (fun _ => false)
      have hFl := others_all hwf hmp (fun o => o % 8 != m.f.source % 8)
      have hRk := others_all hwf hmp (fun o => o / 8 != m.f.source / 8)
      simp only [hE, hFl, hRk]
      simp only [String.toList_append, hsfx, sqName_toList, renderSan, renderBody, capturesOf_eq hpa6,
        List.append_nil, letter_eq h2 hp6, standardDisamb, ← isEmpty_eq_all, String.toList_ofList, optC]
      generalize ((candSources b (genPseudo b) m.f).filter (· != m.f.source)).isEmpty = E
      generalize ((candSources b (genPseudo b) m.f).filter (· != m.f.source)).all (fun o => o % 8 != m.f.source % 8) = F
      generalize ((candSources b (genPseudo b) m.f).filter (· != m.f.source)).all (fun o => o / 8 != m.f.source / 8) = R
      cases E <;> cases F <;> cases R <;> cases (m.f.pieceAttacked != NO_PIECE) <;>
        simp [Disamb.fileOf, Disamb.rankOf, fileChar, rankChar]
  · -- castling
    have hck : ∃ long, castleKind m.f = some long := by
      have := C14.castleKind_iff hwf hmp
      rw [hc] at this
      cases h : castleKind m.f with
      | none => rw [h] at this; cases this
      | some l => exact ⟨l, rfl⟩
    obtain ⟨long, hck⟩ := hck
    obtain ⟨-, -, ht⟩ := castleKind_some hck
    rw [C14.shape_castle hck]
    simp only [if_true, String.toList_append, hsfx, renderSan, List.append_nil, absMove, fileOf_eq6, ht]
    cases long <;> rfl

/-- **C14, literal form**: in a legal position (with one more ply of room in both clocks, so that the position after
the move is again well-formed) the text `uci_to_pgn` writes for a legal move is `Spec.san` of that move -/
theorem san_eq_spec {b : Board} (hwf : WF.wf b = true) (hhm : b.halfmove < 4095) (hfm : b.fullmove + 1 < 2147483648)
    {m : Move} (hm : m ∈ genLegal b) {s : String} (h : (uciToSan b m.uci).1 = .ok s) :
    s = Spec.san (abs b) (absMove m.f) := by
  have h1 := (C14.text_standard hwf (C14.uciNodup_of_wf hwf) hm h).1
  have h2 := san_toList hwf hhm hfm hm
  exact String.toList_inj.mp (h1.trans h2.symm)

end Inkayaku.SanSpec
