import Inkayaku.Model.WF
import Inkayaku.Proofs.BoardCongr
import Inkayaku.Props.C03
/-!
# What the board layer owes the search: H1 (proved, from C03) and the budgeted well-formedness step H2'

`WF.wf` contains the clock bounds `halfmove ≤ 4095` (the 12-bit undo field of the packed move) and `fullmove < 2^31`.
They are not inductive: a quiet move from `halfmove = 4095` leaves the well-formed boards.  The search therefore carries
a budget: `Inv k b` = "`b` is well-formed and stays within the clock bounds for `k` more plies".

* H1 `unmake_make_of_generated`: PROVED from `C03.unmake_make_generated`/`unmake_make_generated_nq`.
* H2' `BoardLaws.make_inv`: a generated move that passes `isValid` takes `Inv (k+1)` to `Inv k`
  (stated here, PROVED in `Proofs/WfStepProof.lean` as `Search.boardLaws`).
-/
namespace Inkayaku.Search
open Inkayaku.Board Inkayaku.WF Inkayaku.BoardCongr

/-- a move produced by one of the two generators the search uses -/
def Generated (b : Board) (m : Move) : Prop := m ∈ genPseudo b ∨ m ∈ genNonQuiescent b

/-- well-formed, with room for `k` more plies in both clocks -/
def Inv (k : Nat) (b : Board) : Prop := wf b = true ∧ b.halfmove + k ≤ 4095 ∧ b.fullmove + k < 2147483648

theorem Inv.wf {k : Nat} {b : Board} (h : Inv k b) : WF.wf b = true := h.1

theorem Inv_mono {k k' : Nat} {b : Board} (hk : k' ≤ k) (h : Inv k b) : Inv k' b :=
  ⟨h.1, by have := h.2.1; omega, by have := h.2.2; omega⟩

theorem Inv_zero (b : Board) : Inv 0 b ↔ WF.wf b = true := by
  constructor
  · exact fun h => h.1
  · intro h
    refine ⟨h, ?_, ?_⟩
    · have := h
      simp only [WF.wf, Bool.and_eq_true, decide_eq_true_eq] at this
      omega
    · have := h
      simp only [WF.wf, Bool.and_eq_true, decide_eq_true_eq] at this
      omega

theorem Inv_congr {k : Nat} {b b' : Board} (h : vis b = vis b') (hi : Inv k b) : Inv k b' := by
  refine ⟨by rw [← wf_congr h]; exact hi.1, ?_, ?_⟩
  · rw [← halfmove_congr h]; exact hi.2.1
  · rw [show b'.fullmove = b.fullmove from by rw [← fullmove_vis b', ← h, fullmove_vis]]; exact hi.2.2

/-- the budget as explicit bounds -/
theorem Inv_of_bounds {k : Nat} {b : Board} (hwf : WF.wf b = true) (h1 : b.halfmove + k ≤ 4095)
    (h2 : b.fullmove + k < 2147483648) : Inv k b := ⟨hwf, h1, h2⟩

/-- **H1 (proved)**: `unmake ∘ make` restores the visible position of a well-formed board for every generated move -/
theorem unmake_make_of_generated (b : Board) (hwf : WF.wf b = true) (m : Move) (hm : Generated b m) :
    vis (unmake (make b m) m) = vis b := by
  rcases hm with hm | hm
  · exact (C03.unmake_make_generated b hwf m hm).1
  · exact (C03.unmake_make_generated_nq b hwf m hm).1

/-- **H2'**: the budgeted well-formedness step -/
structure BoardLaws : Prop where
  make_inv : ∀ (k : Nat) (b : Board) (m : Move), Inv (k + 1) b → Generated b m → isValid (make b m) = true →
    Inv k (make b m)

end Inkayaku.Search
