import Inkayaku.Proofs.SearchBracket
import Inkayaku.Proofs.SearchRel
import Inkayaku.Proofs.SearchTrace
/-!
# The search sees the visible position only

`Eqv s s'`: the states agree in every field except the board, and the boards have the same visible position.
On such states `quiescence`, `negamax`, the move loops, `deepen` and `goCmd` return the same value / output and again
`Eqv` states.  Together with the bracket theorem this is the precise meaning of "a following go searches the same
position as before": the scratch words left behind by an (interrupted) search cannot influence any later search.
-/
namespace Inkayaku.Search
open Inkayaku.Board Inkayaku.Eval Inkayaku.WF Inkayaku.BoardCongr

/-- same state up to the scratch occupancy words of the board -/
def Eqv (s s' : St) : Prop := ∃ b', vis b' = vis s.board ∧ s' = { s with board := b' }

theorem Eqv.refl (s : St) : Eqv s s := ⟨s.board, rfl, rfl⟩

theorem Eqv.board {s s' : St} (h : Eqv s s') : vis s'.board = vis s.board := by
  obtain ⟨b', hb, rfl⟩ := h; exact hb

theorem Eqv.setBoard {s s' : St} (h : Eqv s s') {b b' : Board} (hb : vis b' = vis b) :
    Eqv { s with board := b } { s' with board := b' } := by
  obtain ⟨b0, _, rfl⟩ := h
  exact ⟨b', hb, rfl⟩

/-- results agree: same value, equivalent states -/
def Rel2 (r r' : VM × St) : Prop := r'.1 = r.1 ∧ Eqv r.2 r'.2
def Rel3 (r r' : LoopAcc × Bool × St) : Prop := r'.1 = r.1 ∧ r'.2.1 = r.2.1 ∧ Eqv r.2.2 r'.2.2

theorem rel2_ite {c : Prop} [Decidable c] {a a' b b' : VM × St} (h1 : c → Rel2 a a') (h2 : ¬c → Rel2 b b') :
    Rel2 (if c then a else b) (if c then a' else b') := by
  split
  · exact h1 ‹_›
  · exact h2 ‹_›

theorem rel3_ite {c : Prop} [Decidable c] {a a' b b' : LoopAcc × Bool × St} (h1 : c → Rel3 a a') (h2 : ¬c → Rel3 b b') :
    Rel3 (if c then a else b) (if c then a' else b') := by
  split
  · exact h1 ‹_›
  · exact h2 ‹_›

theorem Eqv.map {s s' : St} (h : Eqv s s') (f : St → St) (hf : ∀ (x : St) (b : Board), f { x with board := b } = { f x with board := b })
    (hfb : ∀ x, (f x).board = x.board) : Eqv (f s) (f s') := by
  obtain ⟨b', hb, rfl⟩ := h
  exact ⟨b', by rw [hfb]; exact hb, hf s b'⟩

theorem evalFor_congr {b b' : Board} (h : vis b' = vis b) (c : Nat) (l : Bool) : evalFor b' c l = evalFor b c l := by
  unfold evalFor; rw [evaluate_congr h]

/-! ## quiescence -/

def QC (fuel : Nat) : Prop := ∀ (s s' : St) (a b : Int), Eqv s s' → Rel2 (quiescence fuel s a b) (quiescence fuel s' a b)

theorem qLoop_congr {fuel : Nat} (hq : QC fuel) :
    ∀ (moves : List Move) (s s' : St) (a b : Int) (bm : Option Move) (bc : Option VM), Eqv s s' →
      Rel2 (quiescenceLoop fuel s moves a b bm bc) (quiescenceLoop fuel s' moves a b bm bc) := by
  intro moves
  induction moves with
  | nil => intro s s' a b bm bc h; rw [quiescenceLoop_nil, quiescenceLoop_nil]; exact ⟨rfl, h⟩
  | cons m rest ih =>
    intro s s' a b bm bc h
    have hb := h.board
    have hmk : vis (make s'.board m) = vis (make s.board m) := make_congr hb m
    have hv : isValid (make s'.board m) = isValid (make s.board m) := isValid_congr hmk
    rw [quiescenceLoop_cons, quiescenceLoop_cons, hv]
    by_cases hc : (!isValid (make s.board m)) = true
    · rw [if_pos hc, if_pos hc]
      exact ih _ _ a b bm bc (h.setBoard (unmake_congr hmk m))
    · rw [if_neg hc, if_neg hc]
      have h1 : Eqv { s with board := make s.board m, quiescenceNodes := s.quiescenceNodes + 1 }
          { s' with board := make s'.board m, quiescenceNodes := s'.quiescenceNodes + 1 } := by
        obtain ⟨b0, _, rfl⟩ := h
        exact ⟨_, hmk, rfl⟩
      obtain ⟨hr1, hr2⟩ := hq _ _ (-b) (-a) h1
      simp only
      rw [hr1]
      have h3 := hr2.setBoard (unmake_congr hr2.board m)
      split
      · exact ⟨rfl, h3⟩
      · split
        · exact ih _ _ _ b _ _ h3
        · exact ih _ _ a b bm bc h3

theorem quiescence_congr : ∀ fuel, QC fuel := by
  intro fuel
  induction fuel with
  | zero => intro s s' a b h; rw [quiescence_zero, quiescence_zero]; exact ⟨rfl, h⟩
  | succ fuel ih =>
    intro s s' a b h
    have hb := h.board
    rw [quiescence_succ, quiescence_succ, evalFor_congr hb, turn_congr hb, genNonQuiescent_congr hb]
    split
    · exact ⟨rfl, h⟩
    · exact qLoop_congr ih _ s s' _ b none none h

/-! ## the non-recursive phases -/

theorem msgStep_setBoard (s : St) (b' : Board) (m : Msg) :
    msgStep { s with board := b' } m = { msgStep s m with board := b' } := by
  cases m <;> rfl

theorem foldl_msgStep_setBoard (l : List Msg) (s : St) (b' : Board) :
    l.foldl msgStep { s with board := b' } = { l.foldl msgStep s with board := b' } := by
  induction l generalizing s with
  | nil => rfl
  | cons m l ih => rw [List.foldl_cons, List.foldl_cons, msgStep_setBoard, ih]

theorem checkMessages_setBoard (s : St) (b' : Board) :
    checkMessages { s with board := b' } = { checkMessages s with board := b' } := by
  rw [checkMessages_def, checkMessages_def]
  show ({ List.foldl msgStep { s with board := b' } s.pending with pending := [] } : St) = _
  rw [foldl_msgStep_setBoard]

theorem pollStep_setBoard (s : St) (b' : Board) : pollStep { s with board := b' } = { pollStep s with board := b' } := by
  unfold pollStep
  have hf : pollFlag { s with board := b' } = pollFlag s := rfl
  rw [hf]
  split
  · simp only
    rw [checkMessages_setBoard]
    rfl
  · rfl

theorem timedOut_setBoard (s : St) (b' : Board) : timedOut { s with board := b' } = timedOut s := by
  unfold timedOut
  rw [pollStep_setBoard]
  rfl

theorem enter_setBoard (s : St) (b' : Board) (h : UInt64) (hb : vis b' = vis s.board) :
    enter { s with board := b' } h = { enter s h with board := b' } := by
  unfold enter
  rw [pollStep_setBoard]
  simp only
  rw [plyClock_congr hb, pollStep_board]

theorem isRep_eqv {s s' : St} (h : Eqv s s') (ply : Nat) : isRep s' ply = isRep s ply := by
  obtain ⟨b', hb, rfl⟩ := h
  unfold isRep
  simp only
  rw [plyClock_congr hb, halfmove_congr hb]

theorem rootBuffer_eqv {s s' : St} (h : Eqv s s') (ply : Nat) : rootBuffer s' ply = rootBuffer s ply := by
  obtain ⟨b', hb, rfl⟩ := h
  unfold rootBuffer
  simp only
  rw [genPseudo_congr hb]

theorem isAnyMoveLegal_congr {b b' : Board} (h : vis b' = vis b) (ms : List Move) :
    isAnyMoveLegal b' ms = isAnyMoveLegal b ms := by
  unfold isAnyMoveLegal
  have : isMoveLegal b' = isMoveLegal b := funext (isMoveLegal_congr h)
  rw [this]

theorem horizon_congr (fuel : Nat) (c : Nat) {s s' : St} (h : Eqv s s') (buf : List Move) (a b : Int) :
    Rel2 (horizon fuel c s buf a b) (horizon fuel c s' buf a b) := by
  unfold horizon
  simp only
  rw [isAnyMoveLegal_congr h.board, evalFor_congr h.board]
  split
  · exact quiescence_congr fuel s s' a b h
  · exact ⟨rfl, h⟩

theorem finish_congr (c : Nat) (a b : Int) (hash : UInt64) (rem : Nat) {x x' : LoopAcc × Bool × St} (h : Rel3 x x') :
    Rel2 (finish c a b hash rem x) (finish c a b hash rem x') := by
  obtain ⟨acc, ab, s⟩ := x
  obtain ⟨acc', ab', s'⟩ := x'
  obtain ⟨h1, h2, h3⟩ := h
  simp only at h1 h2 h3
  subst h1 h2
  unfold finish
  simp only
  rw [evalFor_congr h3.board]
  split
  · exact ⟨rfl, h3⟩
  · split
    · exact ⟨rfl, h3⟩
    · split
      · refine ⟨rfl, ?_⟩
        obtain ⟨b', hb, rfl⟩ := h3
        exact ⟨b', hb, rfl⟩
      · exact ⟨rfl, h3⟩

/-! ## negamax -/

def NC (fuel : Nat) : Prop :=
  ∀ (s s' : St) (ply maxPly : Nat) (a b : Int) (isPv : Bool) (h ph : UInt64), Eqv s s' →
    Rel2 (negamax fuel s ply maxPly a b isPv h ph) (negamax fuel s' ply maxPly a b isPv h ph)

theorem nLoop_congr {fuel : Nat} (hn : NC fuel) :
    ∀ (moves : List Move) (s s' : St) (ply maxPly : Nat) (beta : Int) (isPv : Bool) (pvMove : Option Move) (h ph : UInt64)
      (rem : Nat) (acc : LoopAcc), Eqv s s' →
      Rel3 (negamaxLoop fuel s moves ply maxPly beta isPv pvMove h ph rem acc)
        (negamaxLoop fuel s' moves ply maxPly beta isPv pvMove h ph rem acc) := by
  intro moves
  induction moves with
  | nil =>
    intro s s' ply maxPly beta isPv pvMove h ph rem acc he
    rw [negamaxLoop_nil, negamaxLoop_nil]; exact ⟨rfl, rfl, he⟩
  | cons m rest ih =>
    intro s s' ply maxPly beta isPv pvMove h ph rem acc he
    have hb := he.board
    have hmk : vis (make s'.board m) = vis (make s.board m) := make_congr hb m
    have hv : isValid (make s'.board m) = isValid (make s.board m) := isValid_congr hmk
    rw [negamaxLoop_cons, negamaxLoop_cons, hv]
    by_cases hc : (!isValid (make s.board m)) = true
    · rw [if_pos hc, if_pos hc]
      exact ih _ _ ply maxPly beta isPv pvMove h ph rem acc (he.setBoard (unmake_congr hmk m))
    · rw [if_neg hc, if_neg hc]
      have hr := hn _ _ (ply + 1) maxPly (-beta) (-acc.alpha) (childPvOf isPv pvMove m)
        (h ^^^ (Zobrist.xorOf m.f).1) (ph ^^^ (Zobrist.xorOf m.f).2) (he.setBoard hmk)
      simp only
      generalize negamax fuel { s with board := make s.board m } (ply + 1) maxPly (-beta) (-acc.alpha)
        (childPvOf isPv pvMove m) (h ^^^ (Zobrist.xorOf m.f).1) (ph ^^^ (Zobrist.xorOf m.f).2) = r at hr ⊢
      generalize negamax fuel { s' with board := make s'.board m } (ply + 1) maxPly (-beta) (-acc.alpha)
        (childPvOf isPv pvMove m) (h ^^^ (Zobrist.xorOf m.f).1) (ph ^^^ (Zobrist.xorOf m.f).2) = r' at hr ⊢
      obtain ⟨c, st⟩ := r
      obtain ⟨c', st'⟩ := r'
      obtain ⟨hr1, hr2⟩ := hr
      simp only at hr1 hr2 ⊢
      subst hr1
      have hstop : st'.stop = st.stop := by
        obtain ⟨b0, _, h0⟩ := hr2
        rw [h0]
      have h3 : Eqv { st with board := unmake st.board m } { st' with board := unmake st'.board m } :=
        hr2.setBoard (unmake_congr hr2.board m)
      by_cases hst : st.stop = true
      · rw [if_pos hst, if_pos (hstop.trans hst)]
        exact ⟨rfl, rfl, h3⟩
      · rw [if_neg hst, if_neg (show ¬ st'.stop = true from by rw [hstop]; exact hst)]
        apply rel3_ite
        · intro _
          refine ⟨rfl, rfl, ?_⟩
          have hk : st'.killers = st.killers := by
            obtain ⟨b0, _, h0⟩ := hr2
            rw [h0]
          rw [show ({ st' with board := unmake st'.board m } : St).killers = st.killers from hk]
          exact h3.map (fun x => { x with killers := killerPut st.killers rem m }) (fun _ _ => rfl) (fun _ => rfl)
        · intro _
          exact ih _ _ ply maxPly beta isPv pvMove h ph rem _ h3

theorem negamax_congr : ∀ fuel, NC fuel := by
  intro fuel
  induction fuel with
  | zero => intro s s' ply maxPly a b isPv h ph he; rw [negamax_zero, negamax_zero]; exact ⟨rfl, he⟩
  | succ fuel ih =>
    intro s s' ply maxPly a b isPv h ph he
    obtain ⟨b', hb, rfl⟩ := he
    have he3 : Eqv (enter s h) (enter { s with board := b' } h) :=
      ⟨b', by rw [enter_board]; exact hb, enter_setBoard s b' h hb⟩
    have htt : (enter { s with board := b' } h).tt = (enter s h).tt := by rw [enter_setBoard s b' h hb]
    have hk : (enter { s with board := b' } h).killers = (enter s h).killers := by rw [enter_setBoard s b' h hb]
    have hpv : ∀ isPv ply, pvMoveOf (enter { s with board := b' } h) isPv ply = pvMoveOf (enter s h) isPv ply := by
      intro isPv ply; rw [enter_setBoard s b' h hb]; rfl
    rw [negamax_succ, negamax_succ, timedOut_setBoard s b', pollStep_setBoard s b']
    apply rel2_ite
    · intro _
      exact ⟨rfl, (Eqv.refl (pollStep s)).setBoard (b := (pollStep s).board) (b' := b')
        (by rw [pollStep_board]; exact hb) |>.map (fun x => { x with stop := true }) (fun _ _ => rfl) (fun _ => rfl)⟩
    · intro _
      simp only
      rw [isRep_eqv he3, htt, rootBuffer_eqv he3, hk, hpv]
      apply rel2_ite
      · intro _; exact ⟨rfl, he3⟩
      · intro _
        generalize probe ((enter s h).tt.get? h) (maxPly - ply) a b = pr
        obtain ⟨o, al, be⟩ := pr
        cases o with
        | some r => exact ⟨rfl, he3⟩
        | none =>
          simp only
          apply rel2_ite
          · intro _; exact ⟨rfl, he3⟩
          · intro _
            apply rel2_ite
            · intro _
              show Rel2 (horizon fuel s.board.turn _ _ _ _) (horizon fuel b'.turn _ _ _ _)
              rw [turn_congr hb]
              exact horizon_congr fuel _ he3 _ _ _
            · intro _
              show Rel2 (finish s.board.turn _ _ _ _ _) (finish b'.turn _ _ _ _ _)
              rw [turn_congr hb]
              exact finish_congr _ _ _ _ _ (nLoop_congr ih _ _ _ _ _ _ _ _ _ _ _ _ he3)

/-! ## iterative deepening and `go` -/

theorem Eqv.fields {s s' : St} (h : Eqv s s') :
    s'.stop = s.stop ∧ s'.pv = s.pv ∧ s'.out = s.out ∧ s'.elapsedNs = s.elapsedNs ∧ s'.totalNodes = s.totalNodes := by
  obtain ⟨b', _, rfl⟩ := h
  exact ⟨rfl, rfl, rfl, rfl, rfl⟩

theorem scoreFromValue_congr {b b' : Board} (h : vis b' = vis b) (v : Int) : scoreFromValue v b' = scoreFromValue v b := by
  unfold scoreFromValue
  rw [turn_congr h, show b'.fullmove = b.fullmove from by rw [← fullmove_vis b', h, fullmove_vis]]

theorem rootSearch_congr {s s' : St} (h : Eqv s s') (d : Nat) : Rel2 (rootSearch s d) (rootSearch s' d) := by
  unfold rootSearch
  rw [h.fields.2.1, hash_congr h.board, pawnHash_congr h.board]
  exact negamax_congr _ s s' 0 d _ _ _ _ _ h

theorem iterAborted_congr {r r' : VM × St} (h : Rel2 r r') : iterAborted r' = iterAborted r := by
  unfold iterAborted
  rw [h.1, h.2.fields.1]

theorem iterState_congr {r r' : VM × St} (h : Rel2 r r') (d : Nat) (sc : Option Score) (u : Option (List Move)) :
    Eqv (iterState r d sc u) (iterState r' d sc u) := by
  unfold iterState
  rw [iterAborted_congr h, h.1, h.2.fields.2.2.2.1, h.2.fields.2.2.2.2, scoreFromValue_congr h.2.board]
  obtain ⟨c, st⟩ := r
  obtain ⟨c', st'⟩ := r'
  obtain ⟨h1, b', hb, h2⟩ := h
  simp only at h1 h2 hb ⊢
  subst h1 h2
  split
  · exact ⟨b', hb, rfl⟩
  · exact ⟨b', hb, rfl⟩

theorem deepen_congr (n : Nat) {s s' : St} (h : Eqv s s') (d mt : Nat) (best : Option VM) (u : Option (List Move))
    (sc : Option Score) :
    (deepen n s' d mt best u sc).1 = (deepen n s d mt best u sc).1 ∧
    Eqv (deepen n s d mt best u sc).2 (deepen n s' d mt best u sc).2 := by
  induction n generalizing s s' d best u sc with
  | zero => rw [deepen_zero, deepen_zero]; exact ⟨rfl, h⟩
  | succ n ih =>
    have hr := rootSearch_congr h d
    have hst := iterState_congr hr d sc u
    rw [deepen_succ, deepen_succ]
    simp only
    rw [iterAborted_congr hr, hr.1, hr.2.fields.2.2.2.1, scoreFromValue_congr hr.2.board]
    split
    · exact ⟨rfl, hst⟩
    · split
      · exact ⟨rfl, hst⟩
      · exact ih hst _ _ _ _

theorem continuePv_setBoard (s : St) (b' : Board) : continuePv { s with board := b' } = { continuePv s with board := b' } := by
  unfold continuePv
  simp only
  split
  · split
    · split
      · split <;> rfl
      · rfl
    · rfl
  · rfl

theorem maxThinkingNs_setBoard (s : St) (b' : Board) (hb : b'.turn = s.board.turn) :
    maxThinkingNs { s with board := b' } = maxThinkingNs s := by
  unfold maxThinkingNs
  simp only
  rw [hb]

theorem goTail_setBoard (s : St) (b' : Board) (hb : b'.turn = s.board.turn) :
    goTail { s with board := b' } = { goTail s with board := b' } := by
  unfold goTail
  rw [continuePv_setBoard]
  have hm : maxThinkingNs { continuePv s with board := b' } = maxThinkingNs (continuePv s) :=
    maxThinkingNs_setBoard (continuePv s) b' (by rw [continuePv_board]; exact hb)
  simp only
  split
  · rw [hm]
  · rfl

theorem goHead_setBoard (s : St) (b' : Board) (g : GoParams) :
    goHead { s with board := b' } g = { goHead s g with board := b' } := by
  unfold goHead
  cases s.resetNext <;> rfl

theorem goHead_board (s : St) (g : GoParams) : (goHead s g).board = s.board := by
  obtain ⟨k, h⟩ := goHead_eq s g; rw [h]

theorem goPrep_eqv {s s' : St} (h : Eqv s s') (g : GoParams) : Eqv (goPrep s g) (goPrep s' g) := by
  obtain ⟨b', hb, rfl⟩ := h
  refine ⟨b', by rw [goPrep_board]; exact hb, ?_⟩
  rw [goPrep_split, goPrep_split, goHead_setBoard, goTail_setBoard (goHead s g) b' (by rw [goHead_board]; exact turn_congr hb)]

theorem goMaxThinking_eqv {s s' : St} (h : Eqv s s') : goMaxThinking s' = goMaxThinking s := by
  obtain ⟨b', _, rfl⟩ := h; rfl

/-- **a `go` sees the visible position only**: on states that differ in the scratch words of the board only, `go`
produces the same output and states that again differ in the scratch words only -/
theorem goCmd_congr {s s' : St} (h : Eqv s s') (g : GoParams) (maxIter : Nat) :
    (goCmd s' g maxIter).out = (goCmd s g maxIter).out ∧ Eqv (goCmd s g maxIter) (goCmd s' g maxIter) := by
  have hp := goPrep_eqv h g
  obtain ⟨h1, h2⟩ := deepen_congr (goIters g maxIter) hp 1 (goMaxThinking (goPrep s g)) none none none
  have hd1 : (goDeepen s' g maxIter).1 = (goDeepen s g maxIter).1 := by
    unfold goDeepen; rw [goMaxThinking_eqv hp]; exact h1
  have hd2 : Eqv (goDeepen s g maxIter).2 (goDeepen s' g maxIter).2 := by
    unfold goDeepen; rw [goMaxThinking_eqv hp]; exact h2
  have hpd : ponderOf (goDeepen s' g maxIter).1 (goDeepen s' g maxIter).2 =
      ponderOf (goDeepen s g maxIter).1 (goDeepen s g maxIter).2 := by
    unfold ponderOf; rw [hd1, hd2.fields.2.1]
  rw [goCmd_eq, goCmd_eq, hpd, hd1]
  refine ⟨?_, ?_⟩
  · show _ :: (goDeepen s' g maxIter).2.out = _ :: (goDeepen s g maxIter).2.out
    rw [hd2.fields.2.2.1]
  · obtain ⟨b', hb, h0⟩ := hd2
    rw [h0]
    exact ⟨b', hb, rfl⟩

end Inkayaku.Search
