import Inkayaku.Proofs.SearchShape
/-!
# Board-blind invariants of the search, proved once

`StepRel maxPly R` lists the elementary state changes of `search_negamax`/`search_quiescence` (flag poll, stop flag,
node counters, history, killers, transposition-table store of an entry of depth ≤ `maxPly`, any change of the board).
If a reflexive transitive relation `R` on search states is closed under them, then `R s s'` holds between the state
given to `quiescence`/`negamax`/the move loops and the state they return — for every fuel and all arguments
(`quiescence_rel`, `negamax_rel`).  The instances used by C07/C09/C16 follow:

* `Frame`: runtime parameters, go parameters, previous PV are unchanged, node counters grow, and the output grows by
  periodic infos only whose node counts are sorted and whose time is the virtual clock of their node count;
* `TTBound D`: every table entry has depth ≤ `D`.
-/
namespace Inkayaku.Search
open Inkayaku.Board Inkayaku.Eval

/-- closure under what `search_quiescence` does -/
structure QStepRel (R : St → St → Prop) : Prop where
  refl : ∀ s, R s s
  trans : ∀ {a b c}, R a b → R b c → R a c
  board : ∀ s b, R s { s with board := b }
  qnode : ∀ s, R s { s with quiescenceNodes := s.quiescenceNodes + 1 }

/-- closure under what `search_negamax` does -/
structure StepRel (maxPly : Nat) (R : St → St → Prop) : Prop extends QStepRel R where
  poll : ∀ s, R s (pollStep s)
  stop : ∀ s, R s { s with stop := true }
  node : ∀ s, R s { s with negamaxNodes := s.negamaxNodes + 1 }
  hist : ∀ s h, R s { s with history := h }
  killers : ∀ s k, R s { s with killers := k }
  tt : ∀ s h e, e.depth ≤ maxPly → R s { s with tt := s.tt.insert h e }

section
variable {R : St → St → Prop} (H : QStepRel R)
include H

theorem qLoop_rel {fuel : Nat} (hq : ∀ s a b, R s (quiescence fuel s a b).2) :
    ∀ (moves : List Move) (s : St) (a b : Int) (bm : Option Move) (bc : Option VM),
      R s (quiescenceLoop fuel s moves a b bm bc).2 := by
  intro moves
  induction moves with
  | nil => intro s a b bm bc; rw [quiescenceLoop_nil]; exact H.refl s
  | cons m rest ih =>
    intro s a b bm bc
    rw [quiescenceLoop_cons]
    split
    · exact H.trans (H.board s _) (ih _ a b bm bc)
    · have h1 : R s { s with board := make s.board m, quiescenceNodes := s.quiescenceNodes + 1 } :=
        H.trans (H.qnode s) (H.board _ _)
      have h2 := hq { s with board := make s.board m, quiescenceNodes := s.quiescenceNodes + 1 } (-b) (-a)
      have h3 := H.trans (H.trans h1 h2) (H.board _ (unmake
        (quiescence fuel { s with board := make s.board m, quiescenceNodes := s.quiescenceNodes + 1 } (-b) (-a)).2.board m))
      simp only
      split
      · exact h3
      · split
        · exact H.trans h3 (ih _ _ b _ _)
        · exact H.trans h3 (ih _ a b bm bc)

theorem quiescence_rel : ∀ (fuel : Nat) (s : St) (a b : Int), R s (quiescence fuel s a b).2 := by
  intro fuel
  induction fuel with
  | zero => intro s a b; rw [quiescence_zero]; exact H.refl s
  | succ fuel ih =>
    intro s a b
    rw [quiescence_succ]
    split
    · exact H.refl s
    · exact qLoop_rel H ih _ s _ b none none

end

section
variable {R : St → St → Prop} {maxPly : Nat} (H : StepRel maxPly R)
include H

theorem enter_rel (s : St) (h : UInt64) : R s (enter s h) := by
  unfold enter
  exact H.trans (H.poll s) (H.trans (H.node _) (H.hist _ _))

theorem finish_rel (c : Nat) (a b : Int) (h : UInt64) (rem : Nat) (hrem : rem ≤ maxPly) (r : LoopAcc × Bool × St) :
    R r.2.2 (finish c a b h rem r).2 := by
  obtain ⟨acc, ab, s⟩ := r
  unfold finish
  simp only
  split
  · exact H.refl s
  · split
    · exact H.refl s
    · split
      · exact H.tt s h _ hrem
      · exact H.refl s

theorem nLoop_rel {fuel : Nat}
    (hn : ∀ s ply a b isPv h ph, R s (negamax fuel s ply maxPly a b isPv h ph).2) :
    ∀ (moves : List Move) (s : St) (ply : Nat) (beta : Int) (isPv : Bool) (pvMove : Option Move) (h ph : UInt64) (rem : Nat)
      (acc : LoopAcc), R s (negamaxLoop fuel s moves ply maxPly beta isPv pvMove h ph rem acc).2.2 := by
  intro moves
  induction moves with
  | nil => intro s ply beta isPv pvMove h ph rem acc; rw [negamaxLoop_nil]; exact H.refl s
  | cons m rest ih =>
    intro s ply beta isPv pvMove h ph rem acc
    rw [negamaxLoop_cons]
    split
    · exact H.trans (H.board s _) (ih _ ply beta isPv pvMove h ph rem acc)
    · have h2 := hn { s with board := make s.board m } (ply + 1) (-beta) (-acc.alpha)
        (childPvOf isPv pvMove m) (h ^^^ (Zobrist.xorOf m.f).1) (ph ^^^ (Zobrist.xorOf m.f).2)
      have h3 := H.trans (H.trans (H.board s _) h2) (H.board _ (unmake
        (negamax fuel { s with board := make s.board m } (ply + 1) maxPly (-beta) (-acc.alpha)
          (childPvOf isPv pvMove m) (h ^^^ (Zobrist.xorOf m.f).1) (ph ^^^ (Zobrist.xorOf m.f).2)).2.board m))
      simp only
      split
      · exact h3
      · split
        · exact H.trans h3 (H.killers _ _)
        · exact H.trans h3 (ih _ ply beta isPv pvMove h ph rem _)

theorem negamax_rel : ∀ (fuel : Nat) (s : St) (ply : Nat) (a b : Int) (isPv : Bool) (h ph : UInt64),
    R s (negamax fuel s ply maxPly a b isPv h ph).2 := by
  intro fuel
  induction fuel with
  | zero => intro s ply a b isPv h ph; rw [negamax_zero]; exact H.refl s
  | succ fuel ih =>
    intro s ply a b isPv h ph
    have he := enter_rel H s h
    rw [negamax_succ]
    split
    · exact H.trans (H.poll s) (H.stop _)
    · simp only
      split
      · exact he
      · split
        · exact he
        · split
          · exact he
          · split
            · unfold horizon
              simp only
              split
              · exact H.trans he (quiescence_rel H.toQStepRel fuel _ _ _)
              · exact he
            · exact H.trans (H.trans he (nLoop_rel H ih _ _ _ _ _ _ _ _ _ _)) (finish_rel H _ _ _ _ _ (Nat.sub_le _ _) _)

end

/-! ## the flag poll, field by field -/

/-- what `check_messages` does with one message -/
def msgStep (s : St) (m : Msg) : St :=
  match m with
  | .newGame => { s with resetNext := true }
  | .stop => { s with stop := true }
  | .quit => { s with stop := true, quit := true }
  | _ => s

theorem checkMessages_def (s : St) : checkMessages s = { s.pending.foldl msgStep s with pending := [] } := rfl

theorem foldl_msgStep_eq (l : List Msg) (s : St) :
    ∃ st q rn, l.foldl msgStep s = { s with stop := st, quit := q, resetNext := rn } := by
  induction l generalizing s with
  | nil => exact ⟨_, _, _, rfl⟩
  | cons m l ih =>
    rw [List.foldl_cons]
    cases m
    all_goals
      obtain ⟨st, q, rn, h⟩ := ih _
      rw [h]
      exact ⟨_, _, _, rfl⟩

theorem checkMessages_eq (s : St) :
    ∃ st q rn, checkMessages s = { s with stop := st, quit := q, resetNext := rn, pending := [] } := by
  obtain ⟨st, q, rn, h⟩ := foldl_msgStep_eq s.pending s
  refine ⟨st, q, rn, ?_⟩
  rw [checkMessages_def, h]

/-- the periodic info emitted by a flag poll in state `s` -/
def pollInfo (s : St) : Out := .info none (some (s.elapsedNs / 1000000)) s.totalNodes none none

theorem pollStep_eq (s : St) :
    pollStep s = s ∨ ∃ st q rn, pollStep s =
      { s with stop := st, quit := q, resetNext := rn, pending := [], out := pollInfo s :: s.out } := by
  unfold pollStep
  split
  · right
    obtain ⟨st, q, rn, h⟩ := checkMessages_eq s
    refine ⟨st, q, rn, ?_⟩
    rw [h]
    rfl
  · left; rfl

/-! ## instance 1: what the search keeps -/

/-- fields no search function writes -/
def Kept (s s' : St) : Prop :=
  s'.pv = s.pv ∧ s'.playedMoves = s.playedMoves ∧ s'.go = s.go ∧ s'.pollPeriod = s.pollPeriod ∧ s'.nsPerNode = s.nsPerNode

theorem kept_stepRel (D : Nat) : StepRel D Kept where
  refl := fun s => ⟨rfl, rfl, rfl, rfl, rfl⟩
  trans := fun ⟨a1, a2, a3, a4, a5⟩ ⟨b1, b2, b3, b4, b5⟩ =>
    ⟨b1.trans a1, b2.trans a2, b3.trans a3, b4.trans a4, b5.trans a5⟩
  board := fun _ _ => ⟨rfl, rfl, rfl, rfl, rfl⟩
  poll := fun s => by
    rcases pollStep_eq s with h | ⟨st, q, rn, h⟩ <;> rw [h] <;> exact ⟨rfl, rfl, rfl, rfl, rfl⟩
  stop := fun _ => ⟨rfl, rfl, rfl, rfl, rfl⟩
  node := fun _ => ⟨rfl, rfl, rfl, rfl, rfl⟩
  hist := fun _ _ => ⟨rfl, rfl, rfl, rfl, rfl⟩
  qnode := fun _ => ⟨rfl, rfl, rfl, rfl, rfl⟩
  killers := fun _ _ => ⟨rfl, rfl, rfl, rfl, rfl⟩
  tt := fun _ _ _ _ => ⟨rfl, rfl, rfl, rfl, rfl⟩

/-! ## instance 2: the output grows by periodic infos only -/

/-- `o` is a periodic (flag poll) info: no depth, no score, no PV -/
def IsPollInfo : Out → Prop
  | .info none _ _ none none => True
  | _ => False

def PollOnly (s s' : St) : Prop := ∃ news, s'.out = news ++ s.out ∧ ∀ o ∈ news, IsPollInfo o

theorem pollOnly_refl (s : St) : PollOnly s s := ⟨[], rfl, by simp⟩

theorem pollOnly_stepRel (D : Nat) : StepRel D PollOnly where
  refl := pollOnly_refl
  trans := by
    rintro a b c ⟨n1, h1, p1⟩ ⟨n2, h2, p2⟩
    refine ⟨n2 ++ n1, by rw [h2, h1, List.append_assoc], ?_⟩
    intro o ho
    rcases List.mem_append.mp ho with h | h
    · exact p2 o h
    · exact p1 o h
  board := fun s _ => pollOnly_refl s
  poll := fun s => by
    rcases pollStep_eq s with h | ⟨st, q, rn, h⟩ <;> rw [h]
    · exact pollOnly_refl s
    · refine ⟨[pollInfo s], rfl, ?_⟩
      intro o ho
      rw [List.mem_singleton.mp ho]
      exact trivial
  stop := fun s => pollOnly_refl s
  node := fun s => pollOnly_refl s
  hist := fun s _ => pollOnly_refl s
  qnode := fun s => pollOnly_refl s
  killers := fun s _ => pollOnly_refl s
  tt := fun s _ _ _ => pollOnly_refl s

/-! ## instance 3: node counters grow, infos are sorted and carry the virtual clock -/

/-- the virtual clock: elapsed nanoseconds at node count `n` -/
def elapsedOf (k : Option Nat) (n : Nat) : Nat := match k with | some k => n * k | none => 0

theorem elapsedNs_eq (s : St) : s.elapsedNs = elapsedOf s.nsPerNode s.totalNodes := rfl

theorem elapsedOf_mono (k : Option Nat) {a b : Nat} (h : a ≤ b) : elapsedOf k a ≤ elapsedOf k b := by
  unfold elapsedOf
  cases k with
  | none => exact Nat.le_refl _
  | some k => exact Nat.mul_le_mul_right k h

/-- node count of an info -/
def nodesOf : Out → Nat
  | .info _ _ n _ _ => n
  | .bestMove _ _ => 0

/-- `o` is an info whose node count lies in `[lo, hi]` and whose time is the clock value of that node count -/
def InfoOK (k : Option Nat) (lo hi : Nat) : Out → Prop
  | .info _ t n _ _ => t = some (elapsedOf k n / 1000000) ∧ lo ≤ n ∧ n ≤ hi
  | .bestMove _ _ => False

/-- `l` (newest first) consists of infos with node counts in `[lo, hi]`, newer ones having the larger count -/
def Chain (k : Option Nat) (lo hi : Nat) (l : List Out) : Prop :=
  (∀ o ∈ l, InfoOK k lo hi o) ∧ l.Pairwise (fun a b => nodesOf b ≤ nodesOf a)

theorem InfoOK.mono {k : Option Nat} {lo hi lo' hi' : Nat} {o : Out} (h : InfoOK k lo hi o) (h1 : lo' ≤ lo) (h2 : hi ≤ hi') :
    InfoOK k lo' hi' o := by
  cases o with
  | info d t n sc pv => exact ⟨h.1, Nat.le_trans h1 h.2.1, Nat.le_trans h.2.2 h2⟩
  | bestMove _ _ => exact h

theorem InfoOK.nodes {k : Option Nat} {lo hi : Nat} {o : Out} (h : InfoOK k lo hi o) : lo ≤ nodesOf o ∧ nodesOf o ≤ hi := by
  cases o with
  | info d t n sc pv => exact h.2
  | bestMove _ _ => exact h.elim

theorem Chain.nil (k : Option Nat) (lo hi : Nat) : Chain k lo hi [] := ⟨by simp, List.Pairwise.nil⟩

theorem Chain.append {k : Option Nat} {lo mid hi : Nat} {l2 l1 : List Out} (h2 : Chain k mid hi l2) (h1 : Chain k lo mid l1)
    (hlo : lo ≤ mid) (hhi : mid ≤ hi) : Chain k lo hi (l2 ++ l1) := by
  refine ⟨?_, ?_⟩
  · intro o ho
    rcases List.mem_append.mp ho with h | h
    · exact (h2.1 o h).mono hlo (Nat.le_refl _)
    · exact (h1.1 o h).mono (Nat.le_refl _) hhi
  · rw [List.pairwise_append]
    refine ⟨h2.2, h1.2, ?_⟩
    intro a ha b hb
    exact Nat.le_trans (h1.1 b hb).nodes.2 (h2.1 a ha).nodes.1

theorem Chain.mono {k : Option Nat} {lo hi lo' hi' : Nat} {l : List Out} (h : Chain k lo hi l) (h1 : lo' ≤ lo) (h2 : hi ≤ hi') :
    Chain k lo' hi' l :=
  ⟨fun o ho => (h.1 o ho).mono h1 h2, h.2⟩

theorem Chain.single {k : Option Nat} {lo hi : Nat} {o : Out} (h : InfoOK k lo hi o) : Chain k lo hi [o] :=
  ⟨by intro x hx; rw [List.mem_singleton.mp hx]; exact h, List.pairwise_singleton _ _⟩

/-- the frame of one search step -/
structure Frame (s s' : St) : Prop where
  nsPerNode : s'.nsPerNode = s.nsPerNode
  nn : s.negamaxNodes ≤ s'.negamaxNodes
  qn : s.quiescenceNodes ≤ s'.quiescenceNodes
  out : ∃ news, s'.out = news ++ s.out ∧ Chain s.nsPerNode s.totalNodes s'.totalNodes news

theorem Frame.total {s s' : St} (h : Frame s s') : s.totalNodes ≤ s'.totalNodes :=
  Nat.add_le_add h.nn h.qn

/-- a change that touches neither clock, counters nor output -/
theorem Frame.of_same {s s' : St} (h1 : s'.nsPerNode = s.nsPerNode) (h2 : s'.negamaxNodes = s.negamaxNodes)
    (h3 : s'.quiescenceNodes = s.quiescenceNodes) (h4 : s'.out = s.out) : Frame s s' where
  nsPerNode := h1
  nn := Nat.le_of_eq h2.symm
  qn := Nat.le_of_eq h3.symm
  out := ⟨[], by rw [h4]; rfl, Chain.nil _ _ _⟩

/-- a counter step -/
theorem Frame.of_count {s s' : St} (h1 : s'.nsPerNode = s.nsPerNode) (h2 : s.negamaxNodes ≤ s'.negamaxNodes)
    (h3 : s.quiescenceNodes ≤ s'.quiescenceNodes) (h4 : s'.out = s.out) : Frame s s' where
  nsPerNode := h1
  nn := h2
  qn := h3
  out := ⟨[], by rw [h4]; rfl, Chain.nil _ _ _⟩

theorem Frame.trans {a b c : St} (h1 : Frame a b) (h2 : Frame b c) : Frame a c where
  nsPerNode := h2.nsPerNode.trans h1.nsPerNode
  nn := Nat.le_trans h1.nn h2.nn
  qn := Nat.le_trans h1.qn h2.qn
  out := by
    obtain ⟨n1, e1, c1⟩ := h1.out
    obtain ⟨n2, e2, c2⟩ := h2.out
    refine ⟨n2 ++ n1, by rw [e2, e1, List.append_assoc], ?_⟩
    rw [h1.nsPerNode] at c2
    exact c2.append c1 h1.total h2.total

theorem frame_stepRel (D : Nat) : StepRel D Frame where
  refl := fun s => Frame.of_same rfl rfl rfl rfl
  trans := Frame.trans
  board := fun _ _ => Frame.of_same rfl rfl rfl rfl
  poll := fun s => by
    rcases pollStep_eq s with h | ⟨st, q, rn, h⟩ <;> rw [h]
    · exact Frame.of_same rfl rfl rfl rfl
    · exact ⟨rfl, Nat.le_refl _, Nat.le_refl _, [pollInfo s], rfl,
        Chain.single ⟨rfl, Nat.le_refl _, Nat.le_refl _⟩⟩
  stop := fun _ => Frame.of_same rfl rfl rfl rfl
  node := fun _ => Frame.of_count rfl (Nat.le_succ _) (Nat.le_refl _) rfl
  hist := fun _ _ => Frame.of_same rfl rfl rfl rfl
  qnode := fun _ => Frame.of_count rfl (Nat.le_refl _) (Nat.le_succ _) rfl
  killers := fun _ _ => Frame.of_same rfl rfl rfl rfl
  tt := fun _ _ _ _ => Frame.of_same rfl rfl rfl rfl

/-! ## instance 4: the depth of the table entries -/

/-- every transposition-table entry has depth ≤ `D` -/
def TTBound (D : Nat) (s : St) : Prop := ∀ h e, s.tt.get? h = some e → e.depth ≤ D

def TTRel (D : Nat) (s s' : St) : Prop := TTBound D s → TTBound D s'

theorem ttRel_stepRel {maxPly D : Nat} (hD : maxPly ≤ D) : StepRel maxPly (TTRel D) where
  refl := fun _ h => h
  trans := fun h1 h2 h => h2 (h1 h)
  board := fun _ _ h => h
  poll := fun s => by
    rcases pollStep_eq s with h | ⟨st, q, rn, h⟩ <;> rw [h] <;> exact fun x => x
  stop := fun _ h => h
  node := fun _ h => h
  hist := fun _ _ h => h
  qnode := fun _ h => h
  killers := fun _ _ h => h
  tt := by
    intro s h e he hb h' e' hget
    simp only [Std.HashMap.get?_eq_getElem?, Std.HashMap.getElem?_insert] at hget
    split at hget
    · cases hget; exact Nat.le_trans he hD
    · exact hb h' e' (by simpa [Std.HashMap.get?_eq_getElem?] using hget)

end Inkayaku.Search
