import Inkayaku.Model.RepSpec
import Inkayaku.Proofs.SearchRepGame
/-!
# The two notions of "occurred three times" agree on the positions of a legal line

* `RepSpec.occurrences` (executable specification `Model/RepSpec.lean`): the path is a list of `Key`s NEWEST FIRST; counted are the
  entries at even distance `2, 4, …` inside the window `take halfmove` that equal the key of the node's board;
* `SearchRep.occurrences` (`Proofs/SearchRepGame.lean`, used by `Props/C10Search.lean`): the line is a list of boards OLDEST FIRST;
  counted are the boards among the last `halfmove` ones with the `C06.HashKey` of the position, whatever the distance.

`occurrences_agree`: for a line `L` (oldest first) and a position `c` such that `L ++ [c]` is a line of legal moves,
`RepSpec.occurrences ⟨c, only, ply, L.reverse.map key⟩ = SearchRep.occurrences L c`.
The parity condition of the specification is implied on a line: the side to move alternates, and `key` contains the side to move,
so an earlier position at odd distance never has the key of `c` (`line_turn_odd`; no well-formedness hypothesis is needed: after
one step the side to move is `0` or `1`, and `1 - t ≠ t` for every natural number `t`).
-/
namespace Inkayaku.RepSpec
open Inkayaku.Board Inkayaku.WF Inkayaku.BoardCongr Inkayaku.SearchRep Inkayaku.SearchSim
open Inkayaku.C06 (HashKey)

/-- `RepSpec.key` and `C06.HashKey` carry the same information -/
theorem key_eq_iff (a b : Board) : key a = key b ↔ HashKey a = HashKey b := by
  simp only [key, Key.mk.injEq, HashKey, C06.HashData.mk.injEq, List.cons.injEq, and_true]
  constructor
  · rintro ⟨⟨w1, w2, w3, w4, w5, w6⟩, ⟨b1, b2, b3, b4, b5, b6⟩, t, ⟨r1, r2, r3, r4⟩, e1, e2⟩
    exact ⟨w1, w2, w3, w4, w5, w6, b1, b2, b3, b4, b5, b6, t, r2, r1, r4, r3, e1, e2⟩
  · rintro ⟨w1, w2, w3, w4, w5, w6, b1, b2, b3, b4, b5, b6, t, r2, r1, r4, r3, e1, e2⟩
    exact ⟨⟨w1, w2, w3, w4, w5, w6⟩, ⟨b1, b2, b3, b4, b5, b6⟩, t, ⟨r1, r2, r3, r4⟩, e1, e2⟩

/-! ## counting over an index range = counting over the list -/

theorem count_range_drop {α : Type} (q : α → Bool) : ∀ (l : List α) (d : Nat) (p : Nat → Bool),
    (∀ i (hi : i < l.length), p i = (decide (d ≤ i) && q l[i])) →
    ((List.range l.length).filter p).length = (l.drop d).countP q
  | [], d, p, _ => by simp
  | a :: l, d, p, h => by
    rw [List.length_cons, List.range_succ_eq_map, List.filter_cons, List.filter_map]
    have h0 := h 0 (by simp)
    have hs : ∀ i (hi : i < l.length), p (i + 1) = (decide (d ≤ i + 1) && q l[i]) := by
      intro i hi
      have := h (i + 1) (by simp only [List.length_cons]; omega)
      simpa using this
    cases d with
    | zero =>
      have ih := count_range_drop q l 0 (p ∘ Nat.succ) (fun i hi => by
        show p (i + 1) = _
        rw [hs i hi]; simp)
      simp only [List.getElem_cons_zero, Nat.le_refl, decide_true, Bool.true_and] at h0
      rw [List.drop_zero] at ih ⊢
      rw [List.countP_cons, ← ih, h0]
      by_cases hq : q a = true
      · simp [hq]
      · simp [hq]
    | succ d =>
      have ih := count_range_drop q l d (p ∘ Nat.succ) (fun i hi => by
        show p (i + 1) = _
        rw [hs i hi]; simp)
      have h0' : p 0 = false := by rw [h0]; simp
      rw [List.drop_succ_cons, ← ih, h0']
      simp

theorem count_range {α : Type} (q : α → Bool) (l : List α) (p : Nat → Bool)
    (h : ∀ i (hi : i < l.length), p i = q l[i]) :
    ((List.range l.length).filter p).length = l.countP q := by
  have := count_range_drop q l 0 p (fun i hi => by rw [h i hi]; simp)
  rw [List.drop_zero] at this
  exact this

/-! ## the side to move along a line -/

theorem step_turn {p q : Board} (h : Step p q) : q.turn = 1 - p.turn := by
  obtain ⟨m, _, hv⟩ := h
  rw [turn_congr hv]
  rfl

/-- at odd distance the side to move has changed -/
theorem line_turn_odd (M : List Board) (hl : IsLine M) (j : Nat) (p : Board) (hp : M[j]? = some p) :
    ∀ (k : Nat) (q : Board), M[j + 2 * k + 1]? = some q → q.turn = 1 - p.turn := by
  intro k
  induction k with
  | zero =>
    intro q hq
    exact step_turn (line_step M j p q hl hp hq)
  | succ k ih =>
    intro q hq
    have hlen : j + 2 * (k + 1) + 1 < M.length := lt_of_getElem? hq
    have g1 : M[j + 2 * k + 1]? = some M[j + 2 * k + 1] := List.getElem?_eq_getElem (by omega)
    have g2 : M[j + 2 * k + 1 + 1]? = some M[j + 2 * k + 1 + 1] := List.getElem?_eq_getElem (by omega)
    have t1 := ih _ g1
    have t2 := step_turn (line_step M _ _ _ hl g1 g2)
    have t3 := step_turn (line_step M (j + 2 * k + 1 + 1) _ q hl g2 (by rw [← hq]; congr 1))
    omega

/-- **the two counts agree.**  `L` = the earlier positions OLDEST FIRST (game history followed by the search line), `c` = the
position reached after them; the specification node carries their keys NEWEST FIRST (`L.reverse.map key`).  The `searchmoves`
list and the ply of the node do not enter the count. -/
theorem occurrences_agree (L : List Board) (c : Board) (hl : IsLine (L ++ [c])) (only : List String) (ply : Nat) :
    RepSpec.occurrences ⟨c, only, ply, L.reverse.map key⟩ = SearchRep.occurrences L c := by
  unfold RepSpec.occurrences SearchRep.occurrences
  simp only
  congr 1
  have hW : (L.reverse.map key).take c.halfmove = (L.reverse.take c.halfmove).map key := List.map_take.symm
  rw [hW, List.length_map]
  have hc : (L ++ [c])[L.length]? = some c := by
    rw [List.getElem?_append_right (Nat.le_refl _)]; simp
  rw [count_range (fun b => decide (HashKey b = HashKey c)) (L.reverse.take c.halfmove) _ ?_,
    count_range_drop (fun b => decide (HashKey b = HashKey c)) L (L.length - c.halfmove) _ ?_,
    List.take_reverse, List.countP_reverse]
  · -- the history side: `getD` inside the range is `getElem`
    intro i hi
    rw [List.getD_eq_getElem?_getD, List.getElem?_eq_getElem hi]
    rfl
  · -- the specification side: the parity condition is implied
    intro i hi
    have hi' : i < L.reverse.length := by
      have := hi
      rw [List.length_take] at this
      omega
    have hiL : i < L.length := by rw [List.length_reverse] at hi'; exact hi'
    have hget : ((L.reverse.take c.halfmove).map key)[i]? = some (key (L.reverse.take c.halfmove)[i]) := by
      rw [List.getElem?_map, List.getElem?_eq_getElem hi]; rfl
    have hb : (L.reverse.take c.halfmove)[i] = L[L.length - 1 - i] := by
      rw [List.getElem_take, List.getElem_reverse]
    rw [hget, Bool.eq_iff_iff]
    simp only [Bool.and_eq_true, beq_iff_eq, decide_eq_true_eq, Option.some.injEq]
    rw [key_eq_iff]
    constructor
    · exact fun h => h.2
    · intro hk
      refine ⟨?_, hk⟩
      false_or_by_contra
      rename_i hodd
      have hM : (L ++ [c])[L.length - 1 - i]? = some (L.reverse.take c.halfmove)[i] := by
        rw [List.getElem?_append_left (by omega), hb]
        exact List.getElem?_eq_getElem (by omega)
      have := line_turn_odd (L ++ [c]) hl (L.length - 1 - i) _ hM (i / 2) c
        (by rw [← hc]; congr 1; omega)
      have ht := key_turn hk
      omega

/-- the same with the root board split off, as the lines of `Props/C10Search.lean` are written: `b0 :: T` oldest first -/
theorem occurrences_agree_cons (b0 : Board) (T : List Board) (c : Board) (hl : IsLine (b0 :: (T ++ [c])))
    (only : List String) (ply : Nat) :
    RepSpec.occurrences ⟨c, only, ply, (b0 :: T).reverse.map key⟩ = SearchRep.occurrences (b0 :: T) c :=
  occurrences_agree (b0 :: T) c hl only ply

end Inkayaku.RepSpec
