import Inkayaku.Model.San
import Inkayaku.Spec.SanGrammar
import Inkayaku.Proofs.BoardCongr
import Inkayaku.Proofs.GenOK
import Inkayaku.Proofs.MoveBits
import Inkayaku.Props.C03
import Inkayaku.Proofs.GenSpecKeys
import Inkayaku.Proofs.Attack
import Inkayaku.Proofs.Check
/-!
# SAN: the parser reads back the printer, the check mark, disambiguation, round trip (helper lemmas for C14)

Everything is stated on the models of `Model/San.lean` (`sanCaptures` = hand translation of `PGN_REGEX`, `sanToMove` =
`pgn_to_bb`, `uciToSan` = `uci_to_pgn`) and on the printer of `Spec/SanGrammar.lean`.

1. `sanCaptures_render`, `sanCaptures_inv` (`sanCaptures_some_iff`): the regex translation (leftmost-first, optional
   groups greedy-then-backtrack) accepts exactly the texts of `renderSan`, with the parts of the shape as captures;
   `sanCaptures_none`, `sanCaptures_nil`, `sanCaptures_illegal_char`, `sanCaptures_short`.
3. `modelDisamb` (the four-way case split of `uci_to_pgn`), `disamb_standard`, `disamb_unique`, `disamb_pawn`.
2. `uciToSan_eq`, `sanText`, `sanText_toList` (the text is `renderSan (sanShapeOf …)`), `sanText_split` (body ++ check
   mark), `sanBodyText_noMark`, `uciToSan_suffix` (last character `#` / `+` / neither).
5. `consistent`, `sanToMove_eq`, `sanToMove_some_iff`, `sanToMove_none_iff`, `sanToMove_sound`,
   `consistent_piece` / `consistent_pawn` / `consistent_castle`.
4. `SanGenFacts` (what the round trip uses of the generator), `roundtrip_castle` / `roundtrip_pawn` /
   `roundtrip_piece`, `san_roundtrip_of_facts`; `Origin`, `origin_of_mem`, `IsCapture`, `IsPush`, `pawn_cases`,
   `sanGenFacts_of_wf` (the facts hold in every legal position); `san_roundtrip`, `uciToSan_legal_ok`,
   `uciToSan_standard`.

The generator part uses the list forms of the generators (`Proofs/GenSpecList.lean`, `GenSpecKeys.lean`: `genPseudo_eq`,
`mkL_false`, `mkM_f`, `pawnStepL_white/black`) and the leaper-table geometry of `Proofs/Attack.lean`.
-/
namespace Inkayaku.SanProofs
open Inkayaku.Board Inkayaku.San Inkayaku.Spec.SanGrammar Inkayaku.Util

/-! ## characters -/

theorem char_le_iff (a c : Char) : a ≤ c ↔ a.toNat ≤ c.toNat := by
  rw [Char.le_def, UInt32.le_iff_toNat_le]; rfl
theorem char_eq_iff (a c : Char) : a = c ↔ a.toNat = c.toNat :=
  ⟨fun h => by rw [h], fun h => Char.toNat_inj.mp h⟩

theorem isFile_iff (c : Char) : isFile c = true ↔ 97 ≤ c.toNat ∧ c.toNat ≤ 104 := by
  simp only [isFile, Bool.and_eq_true, decide_eq_true_eq, char_le_iff]; exact Iff.rfl
theorem isRank_iff (c : Char) : isRank c = true ↔ 49 ≤ c.toNat ∧ c.toNat ≤ 56 := by
  simp only [isRank, Bool.and_eq_true, decide_eq_true_eq, char_le_iff]; exact Iff.rfl
theorem isPieceLetter_iff (c : Char) : isPieceLetter c = true ↔
    c.toNat = 66 ∨ c.toNat = 78 ∨ c.toNat = 82 ∨ c.toNat = 81 ∨ c.toNat = 75 := by
  simp only [isPieceLetter, Bool.or_eq_true, beq_iff_eq, char_eq_iff, or_assoc]; exact Iff.rfl
theorem isPromoLetter_iff (c : Char) : isPromoLetter c = true ↔
    c.toNat = 66 ∨ c.toNat = 78 ∨ c.toNat = 82 ∨ c.toNat = 81 := by
  simp only [isPromoLetter, Bool.or_eq_true, beq_iff_eq, char_eq_iff, or_assoc]; exact Iff.rfl
theorem isCheckMark_iff (c : Char) : isCheckMark c = true ↔ c.toNat = 43 ∨ c.toNat = 35 := by
  simp only [isCheckMark, Bool.or_eq_true, beq_iff_eq, char_eq_iff]; exact Iff.rfl
theorem isAnnot_iff (c : Char) : isAnnot c = true ↔ c.toNat = 33 ∨ c.toNat = 63 := by
  simp only [isAnnot, Bool.or_eq_true, beq_iff_eq, char_eq_iff]; exact Iff.rfl
theorem isX_iff (c : Char) : (c == 'x') = true ↔ c.toNat = 120 := by
  simp only [beq_iff_eq, char_eq_iff]; exact Iff.rfl

/-- closes goals about character classes: everything is turned into (in)equalities on `Char.toNat` -/
macro "char_omega" : tactic => `(tactic| (
  simp only [← Bool.not_eq_true, isFile_iff, isRank_iff, isPieceLetter_iff, isPromoLetter_iff, isCheckMark_iff,
    isAnnot_iff, isX_iff, beq_iff_eq, bne_iff_ne, ne_eq, char_eq_iff, Char.reduceToNat] at *
  omega))


theorem isFileChar_eq : isFileChar = isFile := rfl
theorem isRankChar_eq : isRankChar = isRank := rfl
theorem pieceSet_eq (c : Char) : "BNRQK".toList.contains c = isPieceLetter c := by
  have : "BNRQK".toList = ['B','N','R','Q','K'] := by decide
  rw [this]; simp only [List.contains_cons, List.contains_nil, isPieceLetter, Bool.or_false, Bool.or_assoc]
theorem promoSet_eq (c : Char) : "BNRQ".toList.contains c = isPromoLetter c := by
  have : "BNRQ".toList = ['B','N','R','Q'] := by decide
  rw [this]; simp only [List.contains_cons, List.contains_nil, isPromoLetter, Bool.or_false, Bool.or_assoc]

/-! ## the pieces of the regex translation -/

/-- the first character of `s`, if any, is not in class `p` -/
def HeadNot (p : Char → Bool) (s : List Char) : Prop := ∀ c rest, s = c :: rest → p c = false

theorem headNot_nil (p : Char → Bool) : HeadNot p [] := fun _ _ h => by cases h
theorem headNot_cons {p : Char → Bool} {c : Char} {s : List Char} (h : p c = false) : HeadNot p (c :: s) := by
  intro c' rest e; cases e; exact h

theorem optChar_hit {ok : Char → Bool} {k : Option Char → List Char → Option SanCaps} {c : Char} {rest : List Char}
    {r : SanCaps} (hc : ok c = true) (h : k (some c) rest = some r) : optChar ok (c :: rest) k = some r := by
  simp only [optChar, hc, if_true, h]

theorem optChar_backtrack {ok : Char → Bool} {k : Option Char → List Char → Option SanCaps} {c : Char} {rest : List Char}
    (h : k (some c) rest = none) : optChar ok (c :: rest) k = k none (c :: rest) := by
  by_cases hc : ok c = true
  · simp only [optChar, hc, if_true, h]
  · simp only [optChar, hc, Bool.false_eq_true, if_false]

theorem optChar_skip {ok : Char → Bool} {k : Option Char → List Char → Option SanCaps} {s : List Char}
    (h : HeadNot ok s) : optChar ok s k = k none s := by
  cases s with
  | nil => rfl
  | cons c rest => simp only [optChar, h c rest rfl, Bool.false_eq_true, if_false]

/-- what a successful optional group did -/
theorem optChar_some {ok : Char → Bool} {k : Option Char → List Char → Option SanCaps} {s : List Char} {r : SanCaps}
    (h : optChar ok s k = some r) :
    (∃ c rest, s = c :: rest ∧ ok c = true ∧ k (some c) rest = some r) ∨ k none s = some r := by
  cases s with
  | nil => exact Or.inr h
  | cons c rest =>
    by_cases hc : ok c = true
    · cases hk : k (some c) rest with
      | some r' =>
        simp only [optChar, hc, if_true, hk, Option.some.injEq] at h
        subst h; exact Or.inl ⟨c, rest, rfl, hc, hk⟩
      | none =>
        simp only [optChar, hc, if_true, hk] at h
        exact Or.inr h
    · simp only [optChar, hc, Bool.false_eq_true, if_false] at h
      exact Or.inr h

/-! ### suffix -/

theorem suffixOk_render (sfx : Option Char) (annot : List Char) (h1 : optOk isCheckMark sfx = true)
    (h2 : annot.all isAnnot = true) : suffixOk (optC sfx ++ annot) = true := by
  have hall : (annot.all fun c => c == '!' || c == '?') = true := h2
  cases sfx with
  | some c =>
    have hc : (c == '+' || c == '#') = true := h1
    simp only [suffixOk, optC, List.cons_append, List.nil_append, hc, if_true, hall]
  | none =>
    cases annot with
    | nil => rfl
    | cons a rest =>
      have ha : isAnnot a = true := by simp only [List.all_cons, Bool.and_eq_true] at h2; exact h2.1
      have : (a == '+' || a == '#') = false := by
        have : isCheckMark a = false := by char_omega
        exact this
      simp only [suffixOk, optC, List.nil_append, this, Bool.false_eq_true, if_false, hall]

theorem suffixOk_inv {s : List Char} (h : suffixOk s = true) :
    ∃ sfx annot, optOk isCheckMark sfx = true ∧ annot.all isAnnot = true ∧ s = optC sfx ++ annot := by
  cases s with
  | nil => exact ⟨none, [], rfl, rfl, rfl⟩
  | cons c rest =>
    unfold suffixOk at h
    simp only at h
    split at h
    · next hc => exact ⟨some c, rest, hc, h, rfl⟩
    · exact ⟨none, c :: rest, rfl, h, rfl⟩

/-- a string accepted by the suffix part does not start with a character that could continue the move body -/
theorem suffix_headNot {p : Char → Bool} (hp : ∀ c, (isCheckMark c = true ∨ isAnnot c = true) → p c = false)
    (sfx : Option Char) (annot : List Char) (h1 : optOk isCheckMark sfx = true) (h2 : annot.all isAnnot = true) :
    HeadNot p (optC sfx ++ annot) := by
  intro c rest e
  cases sfx with
  | some q =>
    simp only [optC, List.cons_append, List.nil_append, List.cons.injEq] at e
    rw [← e.1]; exact hp q (Or.inl h1)
  | none =>
    simp only [optC, List.nil_append] at e
    subst e
    simp only [List.all_cons, Bool.and_eq_true] at h2
    exact hp c (Or.inr h2.1)


/-! ### target, promotion -/

def promoChars : Option Char → List Char
  | some q => ['=', q]
  | none => []

/-- promotion part ++ suffix part -/
def tailChars (promo sfx : Option Char) (annot : List Char) : List Char := promoChars promo ++ (optC sfx ++ annot)

theorem tail_headNot {p : Char → Bool} (hp : ∀ c, (isCheckMark c = true ∨ isAnnot c = true ∨ c = '=') → p c = false)
    (promo sfx : Option Char) (annot : List Char) (h1 : optOk isCheckMark sfx = true) (h2 : annot.all isAnnot = true) :
    HeadNot p (tailChars promo sfx annot) := by
  cases promo with
  | some q => exact headNot_cons (hp '=' (Or.inr (Or.inr rfl)))
  | none =>
    exact suffix_headNot (fun c hc => hp c (hc.elim Or.inl (fun h => Or.inr (Or.inl h)))) sfx annot h1 h2

theorem matchTail_none {caps : SanCaps} {s : List Char} (h : HeadNot isFile s) : matchTail caps s = none := by
  unfold matchTail
  split
  · next f r rest => rw [isFileChar_eq, h f _ rfl]; rfl
  · rfl

theorem matchTail_render (caps : SanCaps) (hcp : caps.promotion = none) (tf tr : Char) (promo sfx : Option Char)
    (annot : List Char) (htf : isFile tf = true) (htr : isRank tr = true) (hpr : optOk isPromoLetter promo = true)
    (h1 : optOk isCheckMark sfx = true) (h2 : annot.all isAnnot = true) :
    matchTail caps (tf :: tr :: tailChars promo sfx annot) =
      some { caps with target := some (tf, tr), promotion := promo } := by
  have hs := suffixOk_render sfx annot h1 h2
  cases promo with
  | some q =>
    have hq : "BNRQ".toList.contains q = true := by rw [promoSet_eq]; exact hpr
    simp only [matchTail, isFileChar_eq, isRankChar_eq, htf, htr, Bool.and_self, if_true, tailChars, promoChars,
      List.cons_append, List.nil_append, hq, hs]
  | none =>
    have hne : HeadNot (· == '=') (optC sfx ++ annot) :=
      suffix_headNot (fun c hc => by rcases hc with hc | hc <;> char_omega) sfx annot h1 h2
    simp only [matchTail, isFileChar_eq, isRankChar_eq, htf, htr, Bool.and_self, if_true, tailChars, promoChars,
      List.nil_append]
    split
    · next p rest' e => have := hne _ _ e; simp at this
    · simp only [hs, if_true]; rw [← hcp]

theorem matchTail_inv {caps r : SanCaps} {s : List Char} (h : matchTail caps s = some r) :
    ∃ tf tr promo sfx annot, isFile tf = true ∧ isRank tr = true ∧ optOk isPromoLetter promo = true ∧
      optOk isCheckMark sfx = true ∧ annot.all isAnnot = true ∧ s = tf :: tr :: tailChars promo sfx annot ∧
      r = { caps with target := some (tf, tr), promotion := promo.or caps.promotion } := by
  unfold matchTail at h
  split at h
  · next f rk rest =>
    split at h
    · next hfr =>
      rw [isFileChar_eq, isRankChar_eq, Bool.and_eq_true] at hfr
      split at h
      · next p rest' =>
        split at h
        · next hq =>
          rw [Bool.and_eq_true, promoSet_eq] at hq
          obtain ⟨sfx, annot, h1, h2, e⟩ := suffixOk_inv hq.2
          cases h
          exact ⟨f, rk, some p, sfx, annot, hfr.1, hfr.2, hq.1, h1, h2, by rw [e]; rfl, rfl⟩
        · split at h
          · next hs =>
            obtain ⟨sfx, annot, h1, h2, e⟩ := suffixOk_inv hs
            cases h
            exact ⟨f, rk, none, sfx, annot, hfr.1, hfr.2, rfl, h1, h2, by rw [e]; rfl, rfl⟩
          · cases h
      · split at h
        · next hs =>
          obtain ⟨sfx, annot, h1, h2, e⟩ := suffixOk_inv hs
          cases h
          exact ⟨f, rk, none, sfx, annot, hfr.1, hfr.2, rfl, h1, h2, by rw [e]; rfl, rfl⟩
        · cases h
    · cases h
  · cases h


/-! ### the move alternative -/

/-- the captures the regex must report for a shape -/
def capsOf (sh : SanShape) : SanCaps :=
  match sh.body with
  | .move piece ff fr takes tf tr promo =>
    { piece := piece, fromFile := ff, fromRank := fr, takes := takes, target := some (tf, tr), promotion := promo }
  | .castle long => { castle := true, longCastle := long }

def takesChars (takes : Bool) : List Char := if takes then ['x'] else []

theorem optC_none : optC none = [] := rfl
theorem optC_some (c : Char) : optC (some c) = [c] := rfl

theorem renderSan_move (piece ff fr : Option Char) (takes : Bool) (tf tr : Char) (promo sfx : Option Char)
    (annot : List Char) :
    renderSan ⟨.move piece ff fr takes tf tr promo, sfx, annot⟩ =
      optC piece ++ (optC ff ++ (optC fr ++ (takesChars takes ++ (tf :: tr :: tailChars promo sfx annot)))) := by
  cases piece <;> cases ff <;> cases fr <;> cases takes <;> cases promo <;> rfl

section Move
variable (piece ff fr : Option Char) (takes : Bool) (tf tr : Char) (promo sfx : Option Char) (annot : List Char)
  (htf : isFile tf = true) (htr : isRank tr = true) (hpr : optOk isPromoLetter promo = true)
  (h1 : optOk isCheckMark sfx = true) (h2 : annot.all isAnnot = true)
include htf htr hpr h1 h2

/-- stage 4: the capture mark -/
theorem stageX_render :
    optChar (· == 'x') (takesChars takes ++ (tf :: tr :: tailChars promo sfx annot))
      (fun x s => matchTail { piece, fromFile := ff, fromRank := fr, takes := x.isSome } s) =
    some { piece, fromFile := ff, fromRank := fr, takes := takes, target := some (tf, tr), promotion := promo } := by
  cases takes with
  | true =>
    exact optChar_hit rfl (matchTail_render _ rfl tf tr promo sfx annot htf htr hpr h1 h2)
  | false =>
    have : HeadNot (· == 'x') (tf :: tr :: tailChars promo sfx annot) := headNot_cons (by char_omega)
    simp only [takesChars, Bool.false_eq_true, if_false, List.nil_append]
    rw [optChar_skip this]
    exact matchTail_render _ rfl tf tr promo sfx annot htf htr hpr h1 h2


/-- stage 3: the source rank -/
theorem stageR_render (hfr : optOk isRank fr = true) :
    optChar isRankChar (optC fr ++ (takesChars takes ++ (tf :: tr :: tailChars promo sfx annot)))
      (fun fr s => optChar (· == 'x') s
        (fun x s => matchTail { piece, fromFile := ff, fromRank := fr, takes := x.isSome } s)) =
    some { piece, fromFile := ff, fromRank := fr, takes := takes, target := some (tf, tr), promotion := promo } := by
  cases fr with
  | some r =>
    exact optChar_hit hfr (stageX_render piece ff (some r) takes tf tr promo sfx annot htf htr hpr h1 h2)
  | none =>
    have : HeadNot isRankChar (takesChars takes ++ (tf :: tr :: tailChars promo sfx annot)) := by
      rw [isRankChar_eq]
      cases takes
      · exact headNot_cons (by char_omega)
      · exact headNot_cons (by char_omega)
    rw [optC_none, List.nil_append]
    rw [optChar_skip this]
    exact stageX_render piece ff none takes tf tr promo sfx annot htf htr hpr h1 h2

omit htf hpr in
/-- the wrong decomposition "target file read as source file" fails and is backtracked -/
theorem stageF_greedy_fails :
    optChar isRankChar (tr :: tailChars promo sfx annot)
      (fun fr s => optChar (· == 'x') s
        (fun x s => matchTail { piece, fromFile := some tf, fromRank := fr, takes := x.isSome } s)) = none := by
  have hx : HeadNot (· == 'x') (tailChars promo sfx annot) :=
    tail_headNot (fun c hc => by rcases hc with hc | hc | hc <;> char_omega) promo sfx annot h1 h2
  have hf : HeadNot isFile (tailChars promo sfx annot) :=
    tail_headNot (fun c hc => by rcases hc with hc | hc | hc <;> char_omega) promo sfx annot h1 h2
  have hx' : HeadNot (· == 'x') (tr :: tailChars promo sfx annot) := headNot_cons (by char_omega)
  have hf' : HeadNot isFile (tr :: tailChars promo sfx annot) := headNot_cons (by char_omega)
  rw [optChar_backtrack]
  · rw [optChar_skip hx']; exact matchTail_none hf'
  · rw [optChar_skip hx]; exact matchTail_none hf

/-- stage 2: the source file -/
theorem stageF_render (hff : optOk isFile ff = true) (hfr : optOk isRank fr = true) :
    optChar isFileChar (optC ff ++ (optC fr ++ (takesChars takes ++ (tf :: tr :: tailChars promo sfx annot))))
      (fun ff s => optChar isRankChar s (fun fr s => optChar (· == 'x') s
        (fun x s => matchTail { piece, fromFile := ff, fromRank := fr, takes := x.isSome } s))) =
    some { piece, fromFile := ff, fromRank := fr, takes := takes, target := some (tf, tr), promotion := promo } := by
  cases ff with
  | some f =>
    exact optChar_hit hff (stageR_render piece (some f) fr takes tf tr promo sfx annot htf htr hpr h1 h2 hfr)
  | none =>
    have goal := stageR_render piece none fr takes tf tr promo sfx annot htf htr hpr h1 h2 hfr
    rw [optC_none, List.nil_append]
    cases fr with
    | some r =>
      have : HeadNot isFileChar (optC (some r) ++ (takesChars takes ++ (tf :: tr :: tailChars promo sfx annot))) := by
        rw [isFileChar_eq]; exact headNot_cons (by have : isRank r = true := hfr; char_omega)
      rw [optChar_skip this]; exact goal
    | none =>
      cases takes with
      | true =>
        have : HeadNot isFileChar (optC none ++ (takesChars true ++ (tf :: tr :: tailChars promo sfx annot))) := by
          rw [isFileChar_eq]; exact headNot_cons (by char_omega)
        rw [optChar_skip this]; exact goal
      | false =>
        simp only [optC_none, takesChars, Bool.false_eq_true, if_false, List.nil_append] at goal ⊢
        rw [optChar_backtrack (stageF_greedy_fails piece tf tr promo sfx annot htr h1 h2)]
        exact goal

/-- all four optional groups -/
theorem matchMove_render (hp : optOk isPieceLetter piece = true) (hff : optOk isFile ff = true)
    (hfr : optOk isRank fr = true) :
    matchMove (optC piece ++ (optC ff ++ (optC fr ++ (takesChars takes ++ (tf :: tr :: tailChars promo sfx annot))))) =
    some { piece, fromFile := ff, fromRank := fr, takes := takes, target := some (tf, tr), promotion := promo } := by
  unfold matchMove
  cases piece with
  | some pc =>
    refine optChar_hit (by rw [pieceSet_eq]; exact hp) ?_
    exact stageF_render (some pc) ff fr takes tf tr promo sfx annot htf htr hpr h1 h2 hff hfr
  | none =>
    have : HeadNot (fun c => "BNRQK".toList.contains c)
        (optC none ++ (optC ff ++ (optC fr ++ (takesChars takes ++ (tf :: tr :: tailChars promo sfx annot))))) := by
      simp only [pieceSet_eq]
      cases ff with
      | some f => exact headNot_cons (by have : isFile f = true := hff; char_omega)
      | none =>
        cases fr with
        | some r => exact headNot_cons (by have : isRank r = true := hfr; char_omega)
        | none =>
          cases takes
          · exact headNot_cons (by char_omega)
          · exact headNot_cons (by char_omega)
    rw [optChar_skip this]
    exact stageF_render none ff fr takes tf tr promo sfx annot htf htr hpr h1 h2 hff hfr

end Move


/-! ### the castling alternative -/

theorem matchMove_castle_none (rest : List Char) : matchMove ('O' :: rest) = none := by
  unfold matchMove
  rw [optChar_skip (headNot_cons (by decide)), optChar_skip (headNot_cons (by decide)),
    optChar_skip (headNot_cons (by decide)), optChar_skip (headNot_cons (by decide))]
  exact matchTail_none (headNot_cons (by decide))

theorem matchCastle_render (long : Bool) (sfx : Option Char) (annot : List Char)
    (h1 : optOk isCheckMark sfx = true) (h2 : annot.all isAnnot = true) :
    matchCastle (renderBody (.castle long) ++ (optC sfx ++ annot)) = some { castle := true, longCastle := long } := by
  have hs := suffixOk_render sfx annot h1 h2
  cases long with
  | true =>
    simp only [renderBody, List.cons_append, List.nil_append, matchCastle, hs, if_true]
  | false =>
    have hne : HeadNot (· == '-') (optC sfx ++ annot) :=
      suffix_headNot (fun c hc => by rcases hc with hc | hc <;> char_omega) sfx annot h1 h2
    simp only [renderBody, List.cons_append, List.nil_append, matchCastle]
    split
    · next rest' e => have := hne _ _ e; simp at this
    · simp only [hs, if_true]

/-! ## 1. the regex translation reads back every printed shape -/

/-- **every printed shape is read back** with exactly its parts as captures: all combinations of the optional
parts, any check mark, any annotation -/
theorem sanCaptures_render (sh : SanShape) (h : sh.wf = true) : sanCaptures (renderSan sh) = some (capsOf sh) := by
  obtain ⟨body, sfx, annot⟩ := sh
  simp only [SanShape.wf, Bool.and_eq_true] at h
  obtain ⟨⟨hb, h1⟩, h2⟩ := h
  cases body with
  | move piece ff fr takes tf tr promo =>
    simp only [SanBody.wf, Bool.and_eq_true] at hb
    obtain ⟨⟨⟨⟨⟨hp, hff⟩, hfr⟩, htf⟩, htr⟩, hpr⟩ := hb
    rw [renderSan_move, sanCaptures,
      matchMove_render piece ff fr takes tf tr promo sfx annot htf htr hpr h1 h2 hp hff hfr]
    rfl
  | castle long =>
    have e : renderSan ⟨.castle long, sfx, annot⟩ = 'O' :: ('-' :: 'O' :: (if long then ['-', 'O'] else []) ++ (optC sfx ++ annot)) := by
      cases long <;> rfl
    rw [sanCaptures, e, matchMove_castle_none]
    have := matchCastle_render long sfx annot h1 h2
    rw [show renderBody (.castle long) ++ (optC sfx ++ annot) =
      'O' :: ('-' :: 'O' :: (if long then ['-', 'O'] else []) ++ (optC sfx ++ annot)) by cases long <;> rfl] at this
    simp only [this]
    rfl


/-! ## 1'. … and accepts nothing else -/

theorem optChar_some' {ok : Char → Bool} {k : Option Char → List Char → Option SanCaps} {s : List Char} {r : SanCaps}
    (h : optChar ok s k = some r) :
    ∃ o rest, optOk ok o = true ∧ s = optC o ++ rest ∧ k o rest = some r := by
  rcases optChar_some h with ⟨c, rest, e, hc, hk⟩ | hk
  · exact ⟨some c, rest, hc, e, hk⟩
  · exact ⟨none, s, rfl, rfl, hk⟩

theorem matchMove_inv {s : List Char} {r : SanCaps} (h : matchMove s = some r) :
    ∃ sh : SanShape, sh.wf = true ∧ renderSan sh = s ∧ capsOf sh = r := by
  unfold matchMove at h
  obtain ⟨piece, s1, hp, e1, h⟩ := optChar_some' h
  obtain ⟨ff, s2, hff, e2, h⟩ := optChar_some' h
  obtain ⟨fr, s3, hfr, e3, h⟩ := optChar_some' h
  obtain ⟨x, s4, hx, e4, h⟩ := optChar_some' h
  obtain ⟨tf, tr, promo, sfx, annot, htf, htr, hpr, h1, h2, e5, hr⟩ := matchTail_inv h
  refine ⟨⟨.move piece ff fr x.isSome tf tr promo, sfx, annot⟩, ?_, ?_, ?_⟩
  · simp only [pieceSet_eq] at hp
    rw [isFileChar_eq] at hff; rw [isRankChar_eq] at hfr
    simp only [SanShape.wf, SanBody.wf, hp, hff, hfr, htf, htr, hpr, h1, h2, Bool.and_self]
  · rw [renderSan_move, e1, e2, e3, e4, e5]
    cases x with
    | none => rfl
    | some c =>
      have : c = 'x' := by simpa [optOk] using hx
      subst this; rfl
  · rw [hr]; cases promo <;> rfl

theorem matchCastle_inv {s : List Char} {r : SanCaps} (h : matchCastle s = some r) :
    ∃ sh : SanShape, sh.wf = true ∧ renderSan sh = s ∧ capsOf sh = r := by
  unfold matchCastle at h
  split at h
  · next rest =>
    split at h
    · next rest' =>
      split at h
      · next hs =>
        obtain ⟨sfx, annot, h1, h2, e⟩ := suffixOk_inv hs
        cases h
        refine ⟨⟨.castle true, sfx, annot⟩, ?_, by rw [e]; rfl, rfl⟩
        simp only [SanShape.wf, SanBody.wf, h1, h2, Bool.and_self]
      · split at h
        · next hs =>
          obtain ⟨sfx, annot, h1, h2, e⟩ := suffixOk_inv hs
          cases h
          refine ⟨⟨.castle false, sfx, annot⟩, ?_, ?_, rfl⟩
          · simp only [SanShape.wf, SanBody.wf, h1, h2, Bool.and_self]
          · show 'O' :: '-' :: 'O' :: (optC sfx ++ annot) = _
            rw [← e]
        · cases h
    · split at h
      · next hs =>
        obtain ⟨sfx, annot, h1, h2, e⟩ := suffixOk_inv hs
        cases h
        refine ⟨⟨.castle false, sfx, annot⟩, ?_, by rw [e]; rfl, rfl⟩
        simp only [SanShape.wf, SanBody.wf, h1, h2, Bool.and_self]
      · cases h
  · cases h

/-- **the regex translation accepts exactly the printed shapes** -/
theorem sanCaptures_inv {s : List Char} {r : SanCaps} (h : sanCaptures s = some r) :
    ∃ sh : SanShape, sh.wf = true ∧ renderSan sh = s ∧ capsOf sh = r := by
  unfold sanCaptures at h
  split at h
  · next c hc => cases h; exact matchMove_inv hc
  · exact matchCastle_inv h

theorem sanCaptures_some_iff (s : List Char) (r : SanCaps) :
    sanCaptures s = some r ↔ ∃ sh : SanShape, sh.wf = true ∧ renderSan sh = s ∧ capsOf sh = r :=
  ⟨sanCaptures_inv, fun ⟨sh, hw, hs, hr⟩ => by rw [← hs, ← hr]; exact sanCaptures_render sh hw⟩

/-- strings outside the grammar are rejected -/
theorem sanCaptures_none {s : List Char} (h : ¬ ∃ sh : SanShape, sh.wf = true ∧ renderSan sh = s) :
    sanCaptures s = none := by
  cases hc : sanCaptures s with
  | none => rfl
  | some r => obtain ⟨sh, hw, hs, _⟩ := sanCaptures_inv hc; exact absurd ⟨sh, hw, hs⟩ h


/-! ### corollaries: strings outside the grammar -/

theorem sanCaptures_nil : sanCaptures [] = none := by decide

theorem optC_all {p q : Char → Bool} (hpq : ∀ c, p c = true → q c = true) {o : Option Char}
    (h : optOk p o = true) : ∀ c ∈ optC o, q c = true := by
  cases o with
  | none => intro c hc; cases hc
  | some x => intro c hc; simp only [optC, List.mem_singleton] at hc; subst hc; exact hpq _ h

theorem renderSan_alphabet {sh : SanShape} (h : sh.wf = true) : ∀ c ∈ renderSan sh, isSanChar c = true := by
  obtain ⟨body, sfx, annot⟩ := sh
  simp only [SanShape.wf, Bool.and_eq_true] at h
  obtain ⟨⟨hb, h1⟩, h2⟩ := h
  have hs : ∀ c ∈ optC sfx ++ annot, isSanChar c = true := by
    intro c hc
    rw [List.mem_append] at hc
    rcases hc with hc | hc
    · exact optC_all (q := isSanChar) (fun c h => by simp [isSanChar, h]) h1 c hc
    · have := List.all_eq_true.mp h2 c hc; simp [isSanChar, this]
  intro c hc
  unfold renderSan at hc
  rw [List.mem_append] at hc
  rcases hc with hc | hc
  · cases body with
    | castle long =>
      have : ∀ c ∈ renderBody (.castle long), isSanChar c = true := by cases long <;> decide
      exact this c hc
    | move piece ff fr takes tf tr promo =>
      simp only [SanBody.wf, Bool.and_eq_true] at hb
      obtain ⟨⟨⟨⟨⟨hp, hff⟩, hfr⟩, htf⟩, htr⟩, hpr⟩ := hb
      simp only [renderBody, List.mem_append, List.mem_cons] at hc
      rcases hc with hc | hc | hc | hc | rfl | rfl | hc
      · exact optC_all (q := isSanChar) (fun c h => by simp [isSanChar, h]) hp c hc
      · exact optC_all (q := isSanChar) (fun c h => by simp [isSanChar, h]) hff c hc
      · exact optC_all (q := isSanChar) (fun c h => by simp [isSanChar, h]) hfr c hc
      · cases takes
        · cases hc
        · simp at hc; subst hc; decide
      · simp [isSanChar, htf]
      · simp [isSanChar, htr]
      · cases promo with
        | none => cases hc
        | some q =>
          simp at hc
          rcases hc with rfl | rfl
          · decide
          · have : isPromoLetter c = true := hpr
            have : isPieceLetter c = true := by
              simp only [isPromoLetter, Bool.or_eq_true] at this
              simp only [isPieceLetter, Bool.or_eq_true]
              rcases this with ((h | h) | h) | h <;> simp [h]
            simp [isSanChar, this]
  · exact hs c hc

theorem renderSan_length {sh : SanShape} : 2 ≤ (renderSan sh).length := by
  obtain ⟨body, sfx, annot⟩ := sh
  cases body with
  | castle long => cases long <;> simp [renderSan, renderBody] <;> omega
  | move piece ff fr takes tf tr promo => simp [renderSan, renderBody]; omega

/-- a text containing a character outside the SAN alphabet is rejected -/
theorem sanCaptures_illegal_char {s : List Char} {c : Char} (hc : c ∈ s) (hbad : isSanChar c = false) :
    sanCaptures s = none := by
  apply sanCaptures_none
  rintro ⟨sh, hw, rfl⟩
  rw [renderSan_alphabet hw c hc] at hbad
  cases hbad

/-- a text of fewer than two characters is rejected -/
theorem sanCaptures_short {s : List Char} (h : s.length < 2) : sanCaptures s = none := by
  apply sanCaptures_none
  rintro ⟨sh, _, rfl⟩
  have := renderSan_length (sh := sh)
  omega


/-! ## 3. disambiguation -/

/-- the four-way case split of `uci_to_pgn`, on the list of candidate source squares -/
def modelDisamb (src : Nat) (cands : List Nat) (isPawn : Bool) : Disamb :=
  let shareRank := cands.any fun o => o / 8 == src / 8 && o % 8 != src % 8
  let shareFile := cands.any fun o => o % 8 == src % 8 && o / 8 != src / 8
  let anyOther := cands.any fun o => o != src
  if shareFile && isPawn then .file
  else if !shareFile && !isPawn && anyOther then .file
  else if shareFile && shareRank && !isPawn then .both
  else if shareFile && !shareRank && !isPawn then .rank
  else .none

theorem isEmpty_eq_all {α : Type} (l : List α) : l.isEmpty = l.all fun _ => false := by
  cases l <;> rfl

theorem anyOther_eq (src : Nat) (cands : List Nat) :
    (cands.any fun o => o != src) = !(cands.filter (· != src)).isEmpty := by
  rw [isEmpty_eq_all, List.all_filter, List.not_all_eq_any_not]
  exact List.any_congr rfl (fun a => by cases (a != src) <;> rfl)

theorem shareFile_eq (src : Nat) (cands : List Nat) :
    (cands.any fun o => o % 8 == src % 8 && o / 8 != src / 8) =
      !(cands.filter (· != src)).all (fun o => o % 8 != src % 8) := by
  rw [List.all_filter, List.not_all_eq_any_not]
  refine List.any_congr rfl (fun a => ?_)
  rw [Bool.eq_iff_iff]
  simp only [Bool.and_eq_true, Bool.not_eq_true', beq_iff_eq, bne_iff_ne, ne_eq, Bool.or_eq_false_iff,
    Bool.not_eq_false', bne_eq_false_iff_eq]
  omega

theorem shareRank_eq (src : Nat) (cands : List Nat) :
    (cands.any fun o => o / 8 == src / 8 && o % 8 != src % 8) =
      !(cands.filter (· != src)).all (fun o => o / 8 != src / 8) := by
  rw [List.all_filter, List.not_all_eq_any_not]
  refine List.any_congr rfl (fun a => ?_)
  rw [Bool.eq_iff_iff]
  simp only [Bool.and_eq_true, Bool.not_eq_true', beq_iff_eq, bne_iff_ne, ne_eq, Bool.or_eq_false_iff,
    Bool.not_eq_false', bne_eq_false_iff_eq]
  omega

/-- **for a piece move the model's case split is the standard rule**: no other candidate → nothing; else no other
candidate on the mover's file → file letter; else no other candidate on the mover's rank → rank digit; else both -/
theorem disamb_standard (src : Nat) (cands : List Nat) :
    modelDisamb src cands false = standardDisamb src cands := by
  unfold modelDisamb standardDisamb
  simp only [anyOther_eq, shareFile_eq, shareRank_eq]
  cases he : (cands.filter (· != src)).isEmpty with
  | true =>
    rw [List.isEmpty_iff] at he
    simp only [he, List.all_nil, if_true]
    rfl
  | false =>
    generalize (cands.filter (· != src)).all (fun o => o % 8 != src % 8) = F
    generalize (cands.filter (· != src)).all (fun o => o / 8 != src / 8) = R
    cases F <;> cases R <;> rfl


theorem agrees_self (d : Disamb) (src : Nat) : d.agrees src src = true := by
  cases d <;> simp [Disamb.agrees]

/-- **the hint identifies the mover**: no other candidate agrees with the hint the standard rule writes -/
theorem disamb_unique (src : Nat) (cands : List Nat) (o : Nat) (ho : o ∈ cands)
    (h : (standardDisamb src cands).agrees src o = true) : o = src := by
  by_cases hne : o = src
  · exact hne
  · exfalso
    have hmem : o ∈ cands.filter (· != src) := by
      rw [List.mem_filter]; exact ⟨ho, by simpa using hne⟩
    unfold standardDisamb at h
    simp only at h
    split at h
    · next he => rw [List.isEmpty_iff] at he; rw [he] at hmem; cases hmem
    · split at h
      · next hF =>
        have := List.all_eq_true.mp hF o hmem
        simp only [Disamb.agrees, beq_iff_eq] at h
        simp only [bne_iff_ne, ne_eq] at this
        exact this h
      · split at h
        · next hR =>
          have := List.all_eq_true.mp hR o hmem
          simp only [Disamb.agrees, beq_iff_eq] at h
          simp only [bne_iff_ne, ne_eq] at this
          exact this h
        · simp only [Disamb.agrees, Bool.and_eq_true, beq_iff_eq] at h
          omega

/-- a pawn gets a hint only if another candidate pawn stands on the same file -/
theorem disamb_pawn (src : Nat) (cands : List Nat) (h : ∀ o ∈ cands, o % 8 = src % 8 → o = src) :
    modelDisamb src cands true = .none := by
  have : (cands.any fun o => o % 8 == src % 8 && o / 8 != src / 8) = false := by
    rw [← Bool.not_eq_true, List.any_eq_true]
    rintro ⟨o, ho, hh⟩
    simp only [Bool.and_eq_true, beq_iff_eq, bne_iff_ne, ne_eq] at hh
    have := h o ho hh.1
    subst this
    exact hh.2 rfl
  unfold modelDisamb
  simp only [this]
  rfl


/-! ## 2. the text of `uci_to_pgn` -/

/-- the text `uci_to_pgn` assembles for the accepted move `result`: `b2` is the board after make/unmake (the
candidates are tested on it), `b1` the board after the move (check and mate are tested on it) -/
def sanText (b b2 b1 : Board) (result : Move) : String :=
  let moves := genPseudo b
  let isCheck := isCurrentInCheck b1
  let isMate := isCheck && !isAnyMoveLegal b1 (genPseudo b1)
  let f := result.f
  let cands := moves.filter fun (m : Move) => isMoveLegal b2 m && m.f.target == f.target && m.f.pieceMoved == f.pieceMoved
  let shareRank := cands.any fun (m : Move) => m.f.source / 8 == f.source / 8 && m.f.source % 8 != f.source % 8
  let shareFile := cands.any fun (m : Move) => m.f.source % 8 == f.source % 8 && m.f.source / 8 != f.source / 8
  let anyOther := cands.any fun (m : Move) => m.f.source != f.source
  let isPawn := f.pieceMoved == PAWN
  let captures := 1 ≤ f.pieceAttacked && f.pieceAttacked ≤ 6
  let fileS := String.ofList [fileChar f.source]
  let rankS := String.ofList [rankChar f.source]
  let piece := if !isPawn then upperPieceLetter f.pieceMoved else if captures then fileS else ""
  let disamb :=
    if shareFile && isPawn then fileS
    else if !shareFile && !isPawn && anyOther then fileS
    else if shareFile && shareRank && !isPawn then fileS ++ rankS
    else if shareFile && !shareRank && !isPawn then rankS
    else ""
  let capture := if captures then "x" else ""
  let promo := if 1 ≤ f.promotion && f.promotion ≤ 6 then "=" ++ upperPieceLetter f.promotion else ""
  let checkStr := if isMate then "#" else if isCheck then "+" else ""
  let castle : Option String :=
    if f.pieceMoved == KING then
      if f.source % 8 == 4 && f.target % 8 == 6 then some "O-O"
      else if f.source % 8 == 4 && f.target % 8 == 2 then some "O-O-O" else none
    else none
  match castle with
  | some c => c ++ checkStr
  | none => piece ++ disamb ++ capture ++ squareString f.target ++ promo ++ checkStr

theorem uciToSan_eq (b : Board) (u : String) :
    uciToSan b u =
      match (genPseudo b).find? (fun m => m.uci == rustTrim u) with
      | none => (.error .notExist, b)
      | some m =>
        if !isValid (make b m) then (.error .notValid, unmake (make b m) m)
        else (.ok (sanText b (unmake (make b m) m) (make b m) m), unmake (make b m) m) := by
  unfold uciToSan
  simp only
  cases (genPseudo b).find? (fun m => m.uci == rustTrim u) with
  | none => rfl
  | some m =>
    simp only
    by_cases hv : (!isValid (make b m)) = true
    · simp only [hv, if_true]
    · simp only [hv, Bool.false_eq_true, if_false]
      unfold sanText
      simp only
      split <;> simp_all


/-- `#` / `+` / nothing, from the position after the move -/
def sanSuffix (b1 : Board) : Option Char :=
  if isCurrentInCheck b1 && !isAnyMoveLegal b1 (genPseudo b1) then some '#'
  else if isCurrentInCheck b1 then some '+' else none

/-- `some long` when the text is a castling text -/
def castleKind (f : MoveF) : Option Bool :=
  if f.pieceMoved == KING then
    if f.source % 8 == 4 && f.target % 8 == 6 then some false
    else if f.source % 8 == 4 && f.target % 8 == 2 then some true else none
  else none

def letterOf : Nat → Option Char
  | 1 => some 'P' | 2 => some 'N' | 3 => some 'B' | 4 => some 'R' | 5 => some 'Q' | 6 => some 'K' | _ => none

theorem upperPieceLetter_toList (n : Nat) : (upperPieceLetter n).toList = optC (letterOf n) := by
  rcases n with _|_|_|_|_|_|_|n <;> first | rfl | decide

/-- source squares of the candidates of `uci_to_pgn` (legality tested on `b2`) -/
def candSources (b2 : Board) (moves : List Move) (f : MoveF) : List Nat :=
  (moves.filter fun (x : Move) => isMoveLegal b2 x && x.f.target == f.target && x.f.pieceMoved == f.pieceMoved).map
    fun x => x.f.source

def disambChars (d : Disamb) (src : Nat) : List Char :=
  optC (d.fileOf (fileChar src)) ++ optC (d.rankOf (rankChar src))

theorem disamb_text (cands : List Move) (src : Nat) (isPawn : Bool) :
    (if ((cands.any fun (m : Move) => m.f.source % 8 == src % 8 && m.f.source / 8 != src / 8) && isPawn) = true
      then String.ofList [fileChar src]
     else if (!(cands.any fun (m : Move) => m.f.source % 8 == src % 8 && m.f.source / 8 != src / 8) && !isPawn
        && cands.any fun (m : Move) => m.f.source != src) = true then String.ofList [fileChar src]
     else if ((cands.any fun (m : Move) => m.f.source % 8 == src % 8 && m.f.source / 8 != src / 8)
        && (cands.any fun (m : Move) => m.f.source / 8 == src / 8 && m.f.source % 8 != src % 8) && !isPawn) = true
       then String.ofList [fileChar src] ++ String.ofList [rankChar src]
     else if ((cands.any fun (m : Move) => m.f.source % 8 == src % 8 && m.f.source / 8 != src / 8)
        && !(cands.any fun (m : Move) => m.f.source / 8 == src / 8 && m.f.source % 8 != src % 8) && !isPawn) = true
       then String.ofList [rankChar src]
     else "").toList = disambChars (modelDisamb src (cands.map fun x => x.f.source) isPawn) src := by
  unfold modelDisamb
  simp only [List.any_map, Function.comp_def]
  split
  · simp [disambChars, Disamb.fileOf, Disamb.rankOf, optC]
  · split
    · simp [disambChars, Disamb.fileOf, Disamb.rankOf, optC]
    · split
      · simp [disambChars, Disamb.fileOf, Disamb.rankOf, optC]
      · split
        · simp [disambChars, Disamb.fileOf, Disamb.rankOf, optC]
        · simp [disambChars, Disamb.fileOf, Disamb.rankOf, optC]


def capturesOf (f : MoveF) : Bool := decide (1 ≤ f.pieceAttacked) && decide (f.pieceAttacked ≤ 6)
def promoOf (f : MoveF) : Option Char := if (decide (1 ≤ f.promotion) && decide (f.promotion ≤ 6)) = true then letterOf f.promotion else none

/-- the body of the text as a shape; `cands` = source squares of the candidates -/
def sanBodyOf (cands : List Nat) (f : MoveF) : SanBody :=
  match castleKind f with
  | some long => .castle long
  | none =>
    if f.pieceMoved == PAWN then
      .move none (if capturesOf f then some (fileChar f.source) else none) none (capturesOf f)
        (fileChar f.target) (rankChar f.target) (promoOf f)
    else
      let d := modelDisamb f.source cands false
      .move (letterOf f.pieceMoved) (d.fileOf (fileChar f.source)) (d.rankOf (rankChar f.source)) (capturesOf f)
        (fileChar f.target) (rankChar f.target) (promoOf f)

/-- the text of `uci_to_pgn` as a SAN shape -/
def sanShapeOf (b b2 b1 : Board) (m : Move) : SanShape :=
  { body := sanBodyOf (candSources b2 (genPseudo b) m.f) m.f, suffix := sanSuffix b1, annot := [] }

/-- **the text is the rendering of `sanShapeOf`**, provided the target square is on the board and a pawn gets no
hint from the disambiguation table (no other candidate pawn on the same file: always so for generated moves) -/
theorem sanText_toList (b b2 b1 : Board) (m : Move) (ht : m.f.target < 64)
    (hp : m.f.pieceMoved = PAWN → modelDisamb m.f.source (candSources b2 (genPseudo b) m.f) true = .none) :
    (sanText b b2 b1 m).toList = renderSan (sanShapeOf b b2 b1 m) := by
  have hsuf : (if (isCurrentInCheck b1 && !isAnyMoveLegal b1 (genPseudo b1)) = true then "#"
      else if isCurrentInCheck b1 = true then "+" else "").toList = optC (sanSuffix b1) := by
    unfold sanSuffix
    split
    · rfl
    · split <;> rfl
  unfold sanText sanShapeOf renderSan
  simp only [List.append_nil]
  have hck : (if (m.f.pieceMoved == KING) = true then
      if (m.f.source % 8 == 4 && m.f.target % 8 == 6) = true then some "O-O"
      else if (m.f.source % 8 == 4 && m.f.target % 8 == 2) = true then some "O-O-O" else none
    else none) = (castleKind m.f).map (fun long => if long then "O-O-O" else "O-O") := by
    unfold castleKind
    split
    · split
      · rfl
      · split <;> rfl
    · rfl
  rw [hck]
  cases hc : castleKind m.f with
  | some long =>
    simp only [Option.map_some, sanBodyOf, hc, String.toList_append, hsuf]
    cases long <;> rfl
  | none =>
    simp only [Option.map_none, sanBodyOf, hc, String.toList_append, hsuf]
    rw [disamb_text]
    have hcap : (if (decide (1 ≤ m.f.pieceAttacked) && decide (m.f.pieceAttacked ≤ 6)) = true then "x" else "").toList
        = takesChars (capturesOf m.f) := by
      unfold takesChars capturesOf; split <;> rfl
    have hsq : (squareString m.f.target).toList = [fileChar m.f.target, rankChar m.f.target] := by
      simp only [squareString, ht, if_true, String.toList_ofList]
    have hpr : (if (decide (1 ≤ m.f.promotion) && decide (m.f.promotion ≤ 6)) = true
        then "=" ++ upperPieceLetter m.f.promotion else "").toList = promoChars (promoOf m.f) := by
      unfold promoOf
      split
      · next h =>
        simp only [Bool.and_eq_true, decide_eq_true_eq] at h
        rw [String.toList_append, upperPieceLetter_toList]
        have : m.f.promotion = 1 ∨ m.f.promotion = 2 ∨ m.f.promotion = 3 ∨ m.f.promotion = 4 ∨
          m.f.promotion = 5 ∨ m.f.promotion = 6 := by omega
        rcases this with e | e | e | e | e | e <;> rw [e] <;> rfl
      · rfl
    rw [hcap, hsq, hpr]
    have hcs : (List.filter (fun (m_1 : Move) => isMoveLegal b2 m_1 && m_1.f.target == m.f.target &&
        m_1.f.pieceMoved == m.f.pieceMoved) (genPseudo b)).map (fun x => x.f.source)
        = candSources b2 (genPseudo b) m.f := rfl
    rw [hcs]
    by_cases hpawn : (m.f.pieceMoved == PAWN) = true
    · simp only [hpawn, Bool.not_true, Bool.false_eq_true, if_false, if_true]
      rw [hp (by simpa using hpawn)]
      have hcf : capturesOf m.f = (decide (1 ≤ m.f.pieceAttacked) && decide (m.f.pieceAttacked ≤ 6)) := rfl
      rw [← hcf]
      generalize capturesOf m.f = c
      generalize promoOf m.f = pr
      generalize optC (sanSuffix b1) = S
      generalize fileChar m.f.source = fs
      generalize fileChar m.f.target = tf
      generalize rankChar m.f.target = tr
      cases c <;> cases pr <;> simp [renderBody, takesChars, promoChars, disambChars, Disamb.fileOf, Disamb.rankOf, optC]
    · have hpawn' : (m.f.pieceMoved == PAWN) = false := by simpa using hpawn
      simp only [hpawn', Bool.not_false, if_true, Bool.false_eq_true, if_false, upperPieceLetter_toList, disambChars]
      generalize modelDisamb m.f.source (candSources b2 (genPseudo b) m.f) false = d
      simp only [renderBody, takesChars, promoChars, List.append_assoc, List.cons_append, List.nil_append]
      generalize promoOf m.f = pr
      generalize optC (sanSuffix b1) = S
      cases pr <;> rfl


theorem source_lt (m : Move) : m.f.source < 64 := by
  show field m.bits Gen.sourceSquareMask Gen.sourceSquareShift < 64
  rw [MoveBits.field_eq _ _ _ 6 (by decide) (by decide) (by decide)]
  exact Nat.mod_lt _ (by decide)

theorem target_lt (m : Move) : m.f.target < 64 := by
  show field m.bits Gen.targetSquareMask Gen.targetSquareShift < 64
  rw [MoveBits.field_eq _ _ _ 6 (by decide) (by decide) (by decide)]
  exact Nat.mod_lt _ (by decide)

theorem fileChar_isFile (sq : Nat) : isFile (fileChar sq) = true := by
  have : ∀ k, k < 8 → isFile (Char.ofNat (97 + k)) = true := by decide
  exact this _ (Nat.mod_lt _ (by decide))

theorem rankChar_isRank {sq : Nat} (h : sq < 64) : isRank (rankChar sq) = true := by
  have : ∀ k, k < 8 → isRank (Char.ofNat (56 - k)) = true := by decide
  exact this _ (by omega)


/-! ### body and check mark -/

/-- the text of `uci_to_pgn` without its check mark -/
def sanBodyText (b b2 : Board) (result : Move) : String :=
  let moves := genPseudo b
  let f := result.f
  let cands := moves.filter fun (m : Move) => isMoveLegal b2 m && m.f.target == f.target && m.f.pieceMoved == f.pieceMoved
  let shareRank := cands.any fun (m : Move) => m.f.source / 8 == f.source / 8 && m.f.source % 8 != f.source % 8
  let shareFile := cands.any fun (m : Move) => m.f.source % 8 == f.source % 8 && m.f.source / 8 != f.source / 8
  let anyOther := cands.any fun (m : Move) => m.f.source != f.source
  let isPawn := f.pieceMoved == PAWN
  let captures := 1 ≤ f.pieceAttacked && f.pieceAttacked ≤ 6
  let fileS := String.ofList [fileChar f.source]
  let rankS := String.ofList [rankChar f.source]
  let piece := if !isPawn then upperPieceLetter f.pieceMoved else if captures then fileS else ""
  let disamb :=
    if shareFile && isPawn then fileS
    else if !shareFile && !isPawn && anyOther then fileS
    else if shareFile && shareRank && !isPawn then fileS ++ rankS
    else if shareFile && !shareRank && !isPawn then rankS
    else ""
  let capture := if captures then "x" else ""
  let promo := if 1 ≤ f.promotion && f.promotion ≤ 6 then "=" ++ upperPieceLetter f.promotion else ""
  let castle : Option String :=
    if f.pieceMoved == KING then
      if f.source % 8 == 4 && f.target % 8 == 6 then some "O-O"
      else if f.source % 8 == 4 && f.target % 8 == 2 then some "O-O-O" else none
    else none
  match castle with
  | some c => c
  | none => piece ++ disamb ++ capture ++ squareString f.target ++ promo

/-- the text is the body followed by the check mark computed on the position after the move -/
theorem sanText_split (b b2 b1 : Board) (m : Move) :
    sanText b b2 b1 m = sanBodyText b b2 m ++ String.ofList (optC (sanSuffix b1)) := by
  have hsuf : (if (isCurrentInCheck b1 && !isAnyMoveLegal b1 (genPseudo b1)) = true then "#"
      else if isCurrentInCheck b1 = true then "+" else "") = String.ofList (optC (sanSuffix b1)) := by
    unfold sanSuffix
    split
    · rfl
    · split <;> rfl
  unfold sanText sanBodyText
  simp only [hsuf]
  generalize (if (m.f.pieceMoved == KING) = true then
      if (m.f.source % 8 == 4 && m.f.target % 8 == 6) = true then some "O-O"
      else if (m.f.source % 8 == 4 && m.f.target % 8 == 2) = true then some "O-O-O" else none
    else (none : Option String)) = castle
  cases castle <;> rfl

/-- no character of the string is a check mark -/
def NoMark (s : String) : Prop := ∀ c ∈ s.toList, isCheckMark c = false

theorem NoMark.append {a b : String} (ha : NoMark a) (hb : NoMark b) : NoMark (a ++ b) := by
  intro c hc
  rw [String.toList_append, List.mem_append] at hc
  exact hc.elim (ha c) (hb c)
theorem NoMark.ite {c : Prop} [Decidable c] {a b : String} (ha : NoMark a) (hb : NoMark b) :
    NoMark (if c then a else b) := by split <;> assumption
theorem NoMark.empty : NoMark "" := fun _ h => by cases h
theorem NoMark.single {c : Char} (h : isCheckMark c = false) : NoMark (String.ofList [c]) := by
  intro x hx; rw [String.toList_ofList, List.mem_singleton] at hx; subst hx; exact h
theorem NoMark.letter (n : Nat) : NoMark (upperPieceLetter n) := by
  intro c hc
  rw [upperPieceLetter_toList] at hc
  rcases n with _|_|_|_|_|_|_|n <;> simp [letterOf, optC] at hc <;> subst hc <;> decide
theorem NoMark.file (sq : Nat) : NoMark (String.ofList [fileChar sq]) :=
  NoMark.single (by have := fileChar_isFile sq; char_omega)
theorem NoMark.rank {sq : Nat} (h : sq < 64) : NoMark (String.ofList [rankChar sq]) :=
  NoMark.single (by have := rankChar_isRank h; char_omega)
theorem NoMark.square (sq : Nat) : NoMark (squareString sq) := by
  unfold squareString
  split
  · next h =>
    intro c hc
    rw [String.toList_ofList] at hc
    simp only [List.mem_cons, List.not_mem_nil, or_false] at hc
    rcases hc with rfl | rfl
    · have := fileChar_isFile sq; char_omega
    · have := rankChar_isRank h; char_omega
  · exact NoMark.empty
theorem NoMark.lit {s : String} (h : s.toList.all (fun c => !isCheckMark c) = true) : NoMark s := by
  intro c hc
  have := List.all_eq_true.mp h c hc
  simpa using this

theorem sanBodyText_noMark (b b2 : Board) (m : Move) : NoMark (sanBodyText b b2 m) := by
  have hs := source_lt m
  unfold sanBodyText
  simp only
  split
  · next c hc =>
    split at hc
    · split at hc
      · cases hc; exact NoMark.lit (by decide)
      · split at hc
        · cases hc; exact NoMark.lit (by decide)
        · cases hc
    · cases hc
  · refine NoMark.append (NoMark.append (NoMark.append (NoMark.append ?_ ?_) ?_) (NoMark.square _)) ?_
    · exact NoMark.ite (NoMark.letter _) (NoMark.ite (NoMark.file _) NoMark.empty)
    · exact NoMark.ite (NoMark.file _) (NoMark.ite (NoMark.file _) (NoMark.ite
        (NoMark.append (NoMark.file _) (NoMark.rank hs)) (NoMark.ite (NoMark.rank hs) NoMark.empty)))
    · exact NoMark.ite (NoMark.lit (by decide)) NoMark.empty
    · exact NoMark.ite (NoMark.append (NoMark.lit (by decide)) (NoMark.letter _)) NoMark.empty


theorem getLast?_body_suffix {body : String} (hb : NoMark body) (sfx : Option Char) (mark : Char)
    (hm : isCheckMark mark = true) :
    (body ++ String.ofList (optC sfx)).toList.getLast? = some mark ↔ sfx = some mark := by
  rw [String.toList_append, String.toList_ofList]
  cases sfx with
  | some c =>
    simp only [optC, List.getLast?_append, List.getLast?_singleton, Option.some_or, Option.some.injEq]
  | none =>
    simp only [optC, List.append_nil]
    constructor
    · intro h
      have hmem : mark ∈ body.toList := List.mem_of_getLast? h
      rw [hb mark hmem] at hm; cases hm
    · intro h; cases h

theorem anyLegal_eq (b1 : Board) : isAnyMoveLegal b1 (genPseudo b1) = !(genLegal b1).isEmpty := by
  unfold isAnyMoveLegal genLegal
  rw [isEmpty_eq_all, List.all_filter, List.not_all_eq_any_not]
  exact List.any_congr rfl (fun a => by cases isMoveLegal b1 a <;> rfl)

theorem sanSuffix_hash (b1 : Board) :
    sanSuffix b1 = some '#' ↔ (isCurrentInCheck b1 = true ∧ genLegal b1 = []) := by
  unfold sanSuffix
  rw [anyLegal_eq, Bool.not_not, ← List.isEmpty_iff]
  cases isCurrentInCheck b1 <;> cases (genLegal b1).isEmpty <;> decide

theorem sanSuffix_plus (b1 : Board) :
    sanSuffix b1 = some '+' ↔ (isCurrentInCheck b1 = true ∧ genLegal b1 ≠ []) := by
  unfold sanSuffix
  rw [anyLegal_eq, Bool.not_not, Ne, ← List.isEmpty_iff]
  cases isCurrentInCheck b1 <;> cases (genLegal b1).isEmpty <;> decide

theorem sanSuffix_none (b1 : Board) : sanSuffix b1 = none ↔ isCurrentInCheck b1 = false := by
  unfold sanSuffix
  cases isCurrentInCheck b1 <;> cases (!isAnyMoveLegal b1 (genPseudo b1)) <;> decide

/-- what an accepted call of `uci_to_pgn` returns -/
theorem uciToSan_ok {b : Board} {u s : String} (h : (uciToSan b u).1 = .ok s) :
    ∃ m, (genPseudo b).find? (fun m => m.uci == rustTrim u) = some m ∧ isMoveLegal b m = true ∧
      s = sanText b (unmake (make b m) m) (make b m) m := by
  rw [uciToSan_eq] at h
  split at h
  · cases h
  · next m hm =>
    refine ⟨m, hm, ?_⟩
    split at h
    · cases h
    · next hv =>
      simp only [Bool.not_eq_true', Bool.not_eq_false] at hv
      simp only [Except.ok.injEq] at h
      exact ⟨hv, h.symm⟩

/-- **the check mark of `uci_to_pgn`**, as a statement about the last character of the text: `#` iff the mover gives
check and the opponent has no legal move, `+` iff check and some legal move, no check mark iff no check -/
theorem uciToSan_suffix {b : Board} {u s : String} (h : (uciToSan b u).1 = .ok s) :
    ∃ m, (genPseudo b).find? (fun m => m.uci == rustTrim u) = some m ∧ isMoveLegal b m = true ∧
      (s.toList.getLast? = some '#' ↔ (isCurrentInCheck (make b m) = true ∧ genLegal (make b m) = [])) ∧
      (s.toList.getLast? = some '+' ↔ (isCurrentInCheck (make b m) = true ∧ genLegal (make b m) ≠ [])) ∧
      ((∀ c, s.toList.getLast? = some c → isCheckMark c = false) ↔ isCurrentInCheck (make b m) = false) := by
  obtain ⟨m, hm, hl, rfl⟩ := uciToSan_ok h
  refine ⟨m, hm, hl, ?_, ?_, ?_⟩
  · rw [sanText_split, getLast?_body_suffix (sanBodyText_noMark _ _ _) _ '#' (by decide), sanSuffix_hash]
  · rw [sanText_split, getLast?_body_suffix (sanBodyText_noMark _ _ _) _ '+' (by decide), sanSuffix_plus]
  · rw [← sanSuffix_none, sanText_split]
    constructor
    · intro hall
      cases hs : sanSuffix (make b m) with
      | none => rfl
      | some c =>
        exfalso
        have hc : isCheckMark c = true := by
          unfold sanSuffix at hs
          split at hs
          · cases hs; rfl
          · split at hs
            · cases hs; rfl
            · cases hs
        have := hall c (by
          rw [hs, String.toList_append, String.toList_ofList]
          simp only [optC, List.getLast?_append, List.getLast?_singleton, Option.some_or])
        rw [hc] at this; cases this
    · intro hs c hc
      rw [hs, String.toList_append, String.toList_ofList] at hc
      simp only [optC, List.append_nil] at hc
      exact sanBodyText_noMark _ _ _ c (List.mem_of_getLast? hc)


/-! ## 5. `pgn_to_bb` is sound -/

/-- move `m` is consistent with the captures of a SAN text: exactly the three filters of `pgn_to_bb` -/
def consistent (caps : SanCaps) (m : Move) : Bool :=
  let fileOk := match caps.fromFile with | some c => m.f.source % 8 == fileIdx c | none => true
  let rankOk := match caps.fromRank with | some c => m.f.source / 8 == rowIdx c | none => true
  let targetOk := match caps.target with
    | some (f, r) => m.f.target == fileIdx f + 8 * rowIdx r
    | none => false
  match caps.piece with
  | some p => m.f.pieceMoved == pieceOfLetter p && (!caps.takes || m.isAttack) && fileOk && rankOk && targetOk
  | none =>
    if caps.castle then m.f.castle && m.f.target % 8 == (if caps.longCastle then 2 else 6)
    else m.f.pieceMoved == PAWN && (!caps.takes || m.isAttack)
      && (match caps.promotion with
          | some p => m.isPromotion && m.f.promotion == pieceOfLetter p
          | none => true)
      && fileOk && targetOk

theorem filter_legal_genLegal (b : Board) (p : Move → Bool) :
    ((genLegal b).filter p).filter (isMoveLegal b) = (genLegal b).filter p := by
  rw [List.filter_eq_self]
  intro m hm
  have := (List.mem_filter.mp hm).1
  unfold genLegal at this
  exact (List.mem_filter.mp this).2

theorem sanToMove_eq (b : Board) (s : String) :
    sanToMove b s =
      match sanCaptures s.toList with
      | none => none
      | some caps =>
        match (genLegal b).filter (consistent caps) with
        | [m] => some m
        | _ => none := by
  unfold sanToMove
  cases hc : sanCaptures s.toList with
  | none => rfl
  | some caps =>
    obtain ⟨piece, ff, fr, takes, target, promo, castle, long⟩ := caps
    cases piece with
    | some p =>
      simp only [filter_legal_genLegal]
      rfl
    | none =>
      cases castle with
      | true => simp only [if_true, filter_legal_genLegal]; rfl
      | false => simp only [Bool.false_eq_true, if_false, filter_legal_genLegal]; rfl


theorem singleton_of_match {l : List Move} {m : Move}
    (h : (match l with | [x] => some x | _ => none) = some m) : l = [m] := by
  split at h
  · next x => cases h; rfl
  · cases h

/-- `pgn_to_bb` answers `m` exactly when the text is in the grammar and `m` is the one and only legal move
consistent with its parts -/
theorem sanToMove_some_iff (b : Board) (s : String) (m : Move) :
    sanToMove b s = some m ↔
      ∃ caps, sanCaptures s.toList = some caps ∧ (genLegal b).filter (consistent caps) = [m] := by
  rw [sanToMove_eq]
  constructor
  · intro h
    split at h
    · cases h
    · next caps hc => exact ⟨caps, hc, singleton_of_match h⟩
  · rintro ⟨caps, hc, hl⟩
    simp only [hc, hl]

/-- … and an error in every other case -/
theorem sanToMove_none_iff (b : Board) (s : String) :
    sanToMove b s = none ↔
      (sanCaptures s.toList = none ∨
        ∃ caps, sanCaptures s.toList = some caps ∧ ∀ m, (genLegal b).filter (consistent caps) ≠ [m]) := by
  constructor
  · intro h
    cases hc : sanCaptures s.toList with
    | none => exact Or.inl rfl
    | some caps =>
      refine Or.inr ⟨caps, rfl, fun m hm => ?_⟩
      have := (sanToMove_some_iff b s m).mpr ⟨caps, hc, hm⟩
      rw [h] at this; cases this
  · intro h
    cases hm : sanToMove b s with
    | none => rfl
    | some m =>
      obtain ⟨caps, hc, hl⟩ := (sanToMove_some_iff b s m).mp hm
      rcases h with h | ⟨caps', hc', hne⟩
      · rw [h] at hc; cases hc
      · rw [hc] at hc'; cases hc'; exact absurd hl (hne m)

theorem filter_singleton {l : List Move} {p : Move → Bool} {m : Move} (h : l.filter p = [m]) :
    m ∈ l ∧ p m = true ∧ ∀ x ∈ l, p x = true → x = m := by
  have hm : m ∈ l.filter p := by rw [h]; exact List.mem_singleton.mpr rfl
  refine ⟨(List.mem_filter.mp hm).1, (List.mem_filter.mp hm).2, fun x hx hp => ?_⟩
  have : x ∈ l.filter p := List.mem_filter.mpr ⟨hx, hp⟩
  rw [h] at this
  exact List.mem_singleton.mp this

/-- **soundness of `pgn_to_bb`**: the answer is a legal move of the position, the text is the rendering of a
well-formed shape, the move is consistent with the parts of that shape, and it is the ONLY legal move that is -/
theorem sanToMove_sound {b : Board} {s : String} {m : Move} (h : sanToMove b s = some m) :
    ∃ sh : SanShape, sh.wf = true ∧ renderSan sh = s.toList ∧
      m ∈ genLegal b ∧ consistent (capsOf sh) m = true ∧
      (∀ m' ∈ genLegal b, consistent (capsOf sh) m' = true → m' = m) ∧
      (genLegal b).filter (consistent (capsOf sh)) = [m] := by
  obtain ⟨caps, hc, hl⟩ := (sanToMove_some_iff b s m).mp h
  obtain ⟨sh, hw, hs, rfl⟩ := sanCaptures_inv hc
  obtain ⟨h1, h2, h3⟩ := filter_singleton hl
  exact ⟨sh, hw, hs, h1, h2, h3, hl⟩

/-! ### what "consistent" says, by kind of shape -/

/-- a piece move `Nbd2`, `R1xa3`, …: kind of piece, capture mark ⇒ capture, source file / rank when written,
target square.  (A promotion suffix after a piece move is read by the regex and ignored by the filter.) -/
theorem consistent_piece (p : Char) (ff fr : Option Char) (takes : Bool) (tf tr : Char) (promo sfx : Option Char)
    (annot : List Char) (m : Move) :
    consistent (capsOf ⟨.move (some p) ff fr takes tf tr promo, sfx, annot⟩) m = true ↔
      (m.f.pieceMoved = pieceOfLetter p ∧ (takes = true → m.isAttack = true) ∧
        (∀ c, ff = some c → m.f.source % 8 = fileIdx c) ∧ (∀ c, fr = some c → m.f.source / 8 = rowIdx c) ∧
        m.f.target = fileIdx tf + 8 * rowIdx tr) := by
  simp only [consistent, capsOf, Bool.and_eq_true, beq_iff_eq, Bool.or_eq_true, Bool.not_eq_true']
  cases ff <;> cases fr <;> cases takes <;> simp [and_assoc]

/-- a pawn move `e4`, `exd5`, `e8=Q`, `exd8=N`: a pawn moves, capture mark ⇒ capture, promotion piece when
written, source file when written, target square.  (A source rank is read by the regex and ignored.) -/
theorem consistent_pawn (ff fr : Option Char) (takes : Bool) (tf tr : Char) (promo sfx : Option Char)
    (annot : List Char) (m : Move) :
    consistent (capsOf ⟨.move none ff fr takes tf tr promo, sfx, annot⟩) m = true ↔
      (m.f.pieceMoved = PAWN ∧ (takes = true → m.isAttack = true) ∧
        (∀ q, promo = some q → m.isPromotion = true ∧ m.f.promotion = pieceOfLetter q) ∧
        (∀ c, ff = some c → m.f.source % 8 = fileIdx c) ∧
        m.f.target = fileIdx tf + 8 * rowIdx tr) := by
  simp only [consistent, capsOf, Bool.and_eq_true, beq_iff_eq, Bool.or_eq_true, Bool.not_eq_true',
    Bool.false_eq_true, if_false]
  cases ff <;> cases promo <;> cases takes <;> simp [and_assoc]

/-- castling: a castling move whose king lands on the g-file (`O-O`) or the c-file (`O-O-O`) -/
theorem consistent_castle (long : Bool) (sfx : Option Char) (annot : List Char) (m : Move) :
    consistent (capsOf ⟨.castle long, sfx, annot⟩) m = true ↔
      (m.f.castle = true ∧ m.f.target % 8 = if long then 2 else 6) := by
  simp only [consistent, capsOf, if_true, Bool.and_eq_true, beq_iff_eq]
  cases long <;> simp


/-! ## 4. round trip -/

/-- the UCI texts of the pseudo-legal moves are pairwise different (part of property C01; a hypothesis here) -/
def UciNodup (b : Board) : Prop := ((genPseudo b).map Move.uci).Nodup

theorem eq_of_nodup_map {α β : Type} (f : α → β) {l : List α} (h : (l.map f).Nodup) {x y : α}
    (hx : x ∈ l) (hy : y ∈ l) (e : f x = f y) : x = y := by
  induction l with
  | nil => cases hx
  | cons a t ih =>
    rw [List.map_cons, List.nodup_cons] at h
    rcases List.mem_cons.mp hx with hxa | hx' <;> rcases List.mem_cons.mp hy with hya | hy'
    · rw [hxa, hya]
    · subst hxa; exact (h.1 (List.mem_map.mpr ⟨y, hy', e.symm⟩)).elim
    · subst hya; exact (h.1 (List.mem_map.mpr ⟨x, hx', e⟩)).elim
    · exact ih h.2 hx' hy'

theorem nodup_of_nodup_map {α β : Type} (f : α → β) {l : List α} (h : (l.map f).Nodup) : l.Nodup := by
  induction l with
  | nil => exact List.nodup_nil
  | cons a t ih =>
    rw [List.map_cons, List.nodup_cons] at h
    rw [List.nodup_cons]
    exact ⟨fun ha => h.1 (List.mem_map.mpr ⟨a, ha, rfl⟩), ih h.2⟩

theorem filter_eq_singleton {α : Type} {l : List α} (hnd : l.Nodup) {p : α → Bool} {m : α} (hm : m ∈ l) (hp : p m = true)
    (huniq : ∀ x ∈ l, p x = true → x = m) : l.filter p = [m] := by
  induction l with
  | nil => cases hm
  | cons a t ih =>
    rw [List.nodup_cons] at hnd
    rcases List.mem_cons.mp hm with rfl | hm
    · have : t.filter p = [] := by
        rw [List.filter_eq_nil_iff]
        intro x hx hpx
        have := huniq x (List.mem_cons_of_mem _ hx) hpx
        subst this; exact hnd.1 hx
      rw [List.filter_cons, hp, if_pos rfl, this]
    · have hpa : p a = false := by
        cases h : p a with
        | false => rfl
        | true =>
          have := huniq a (List.mem_cons_self ..) h
          subst this; exact absurd hm hnd.1
      rw [List.filter_cons, hpa]
      exact ih hnd.2 hm (fun x hx => huniq x (List.mem_cons_of_mem _ hx))

theorem uci_eq_of {x m : Move} (hs : x.f.source = m.f.source) (ht : x.f.target = m.f.target)
    (hp : x.f.promotion = m.f.promotion) : x.uci = m.uci := by
  unfold Move.uci MoveF.uci
  rw [hs, ht, hp]

/-! ### the UCI text of a move is not changed by `trim` -/

theorem rustTrimChars_id {l : List Char} (h : ∀ c ∈ l, isRustWhitespace c = false) : rustTrimChars l = l := by
  have key : ∀ l : List Char, (∀ c ∈ l, isRustWhitespace c = false) → l.dropWhile isRustWhitespace = l := by
    intro l hl
    cases l with
    | nil => rfl
    | cons a t => rw [List.dropWhile_cons, hl a (List.mem_cons_self ..)]; rfl
  unfold rustTrimChars
  rw [key l h, key l.reverse (fun c hc => h c (List.mem_reverse.mp hc)), List.reverse_reverse]

theorem uci_noWhitespace (m : Move) : ∀ c ∈ m.uci.toList, isRustWhitespace c = false := by
  have hs := source_lt m
  have ht := target_lt m
  have hfile : ∀ k, k < 8 → isRustWhitespace (Char.ofNat (97 + k)) = false := by decide
  have hrank : ∀ k, k < 8 → isRustWhitespace (Char.ofNat (56 - k)) = false := by decide
  have hsq : ∀ sq, sq < 64 → ∀ c ∈ (squareString sq).toList, isRustWhitespace c = false := by
    intro sq h c hc
    simp only [squareString, h, if_true, String.toList_ofList, List.mem_cons, List.not_mem_nil, or_false] at hc
    rcases hc with rfl | rfl
    · exact hfile _ (Nat.mod_lt _ (by decide))
    · exact hrank _ (by omega)
  have hpc : ∀ n, ∀ c ∈ (pieceString n).toList, isRustWhitespace c = false := by
    intro n
    rcases n with _|_|_|_|_|_|_|n
    all_goals first | decide | (intro c hc; simp [pieceString] at hc)
  intro c hc
  unfold Move.uci MoveF.uci at hc
  rw [String.toList_append, String.toList_append, List.mem_append, List.mem_append] at hc
  rcases hc with (hc | hc) | hc
  · exact hsq _ hs c hc
  · exact hsq _ ht c hc
  · exact hpc _ c hc

theorem rustTrim_uci (m : Move) : rustTrim m.uci = m.uci := by
  unfold rustTrim
  rw [rustTrimChars_id (uci_noWhitespace m), String.ofList_toList]

/-! ### reading back the characters the printer wrote -/

theorem fileIdx_fileChar (sq : Nat) : fileIdx (fileChar sq) = sq % 8 := by
  have : ∀ k, k < 8 → (Char.ofNat (97 + k)).toNat - 97 = k := by decide
  exact this _ (Nat.mod_lt _ (by decide))

theorem rowIdx_rankChar {sq : Nat} (h : sq < 64) : rowIdx (rankChar sq) = sq / 8 := by
  have : ∀ k, k < 8 → 8 - ((Char.ofNat (56 - k)).toNat - 48) = k := by decide
  exact this _ (by omega)

theorem target_readback {sq : Nat} (h : sq < 64) : fileIdx (fileChar sq) + 8 * rowIdx (rankChar sq) = sq := by
  rw [fileIdx_fileChar, rowIdx_rankChar h]; omega

theorem letterOf_piece {p : Nat} (h2 : 2 ≤ p) (h6 : p ≤ 6) :
    ∃ c, letterOf p = some c ∧ pieceOfLetter c = p ∧ isPieceLetter c = true := by
  have : p = 2 ∨ p = 3 ∨ p = 4 ∨ p = 5 ∨ p = 6 := by omega
  rcases this with rfl | rfl | rfl | rfl | rfl
  · exact ⟨'N', rfl, rfl, rfl⟩
  · exact ⟨'B', rfl, rfl, rfl⟩
  · exact ⟨'R', rfl, rfl, rfl⟩
  · exact ⟨'Q', rfl, rfl, rfl⟩
  · exact ⟨'K', rfl, rfl, rfl⟩

theorem letterOf_promo {p : Nat} (h2 : 2 ≤ p) (h5 : p ≤ 5) :
    ∃ c, letterOf p = some c ∧ pieceOfLetter c = p ∧ isPromoLetter c = true := by
  have : p = 2 ∨ p = 3 ∨ p = 4 ∨ p = 5 := by omega
  rcases this with rfl | rfl | rfl | rfl
  · exact ⟨'N', rfl, rfl, rfl⟩
  · exact ⟨'B', rfl, rfl, rfl⟩
  · exact ⟨'R', rfl, rfl, rfl⟩
  · exact ⟨'Q', rfl, rfl, rfl⟩


/-! ### what the round trip uses of the move generator -/

/-- Facts about the moves `generate_pseudo_legal_moves` emits on `b` (all consequences of "the generator implements
the rules", property C01; proved from `wf b` in `sanGenFacts_of_wf` below) -/
structure SanGenFacts (b : Board) : Prop where
  piece_range : ∀ m ∈ genPseudo b, 1 ≤ m.f.pieceMoved ∧ m.f.pieceMoved ≤ 6
  attacked_le : ∀ m ∈ genPseudo b, m.f.pieceAttacked ≤ 6
  /-- a castling move is a king move e1/e8 → c or g file of the same rank -/
  castle_shape : ∀ m ∈ genPseudo b, m.f.castle = true →
    m.f.pieceMoved = KING ∧ m.f.source = (if b.whiteTurn then 60 else 4) ∧
      (m.f.target = m.f.source + 2 ∨ m.f.target + 2 = m.f.source)
  /-- an ordinary king move never goes from the e-file to the c- or g-file -/
  king_step : ∀ m ∈ genPseudo b, m.f.castle = false → m.f.pieceMoved = KING →
    ¬ (m.f.source % 8 = 4 ∧ (m.f.target % 8 = 2 ∨ m.f.target % 8 = 6))
  promo_piece : ∀ m ∈ genPseudo b, m.f.pieceMoved ≠ PAWN → m.f.promotion = 0
  /-- a pawn promotes (to N, B, R or Q) exactly when it reaches the first or last rank -/
  promo_pawn : ∀ m ∈ genPseudo b, m.f.pieceMoved = PAWN →
    (m.f.promotion = 0 ∧ 8 ≤ m.f.target ∧ m.f.target < 56) ∨
    (2 ≤ m.f.promotion ∧ m.f.promotion ≤ 5 ∧ (m.f.target < 8 ∨ 56 ≤ m.f.target))
  /-- a pawn move that captures nothing stays on its file -/
  pawn_push_file : ∀ m ∈ genPseudo b, m.f.pieceMoved = PAWN → m.f.pieceAttacked = 0 →
    m.f.source % 8 = m.f.target % 8
  /-- a square a pawn can be pushed to cannot be captured on by a pawn (not even en passant) -/
  pawn_push_only : ∀ x ∈ genPseudo b, ∀ m ∈ genPseudo b, x.f.pieceMoved = PAWN → m.f.pieceMoved = PAWN →
    x.f.target = m.f.target → m.f.pieceAttacked = 0 → x.f.pieceAttacked = 0
  /-- two pawns on the same file cannot move to the same square -/
  pawn_same_file : ∀ x ∈ genPseudo b, ∀ m ∈ genPseudo b, x.f.pieceMoved = PAWN → m.f.pieceMoved = PAWN →
    x.f.target = m.f.target → x.f.source % 8 = m.f.source % 8 → x.f.source = m.f.source

theorem optOk_some (p : Char → Bool) (c : Char) : optOk p (some c) = p c := rfl
theorem optOk_none (p : Char → Bool) : optOk p none = true := rfl

theorem sanSuffix_ok (b1 : Board) : optOk isCheckMark (sanSuffix b1) = true := by
  unfold sanSuffix
  split
  · rfl
  · split <;> rfl

theorem mem_genPseudo_of_legal {b : Board} {m : Move} (h : m ∈ genLegal b) : m ∈ genPseudo b :=
  (List.mem_filter.mp h).1
theorem legal_of_mem_genLegal {b : Board} {m : Move} (h : m ∈ genLegal b) : isMoveLegal b m = true :=
  (List.mem_filter.mp h).2

/-- the reading half of the round trip: a text that renders a well-formed shape whose parts single out `m` -/
theorem sanToMove_of_shape {b : Board} (hnd : UciNodup b) {s : String} {sh : SanShape} (hw : sh.wf = true)
    (hs : s.toList = renderSan sh) {m : Move} (hm : m ∈ genLegal b) (hc : consistent (capsOf sh) m = true)
    (huniq : ∀ x ∈ genLegal b, consistent (capsOf sh) x = true → x.uci = m.uci) : sanToMove b s = some m := by
  rw [sanToMove_some_iff]
  refine ⟨capsOf sh, by rw [hs]; exact sanCaptures_render sh hw, ?_⟩
  have hndl : (genLegal b).Nodup := (nodup_of_nodup_map Move.uci hnd).sublist List.filter_sublist
  refine filter_eq_singleton hndl hm hc (fun x hx hcx => ?_)
  exact eq_of_nodup_map Move.uci hnd (mem_genPseudo_of_legal hx) (mem_genPseudo_of_legal hm) (huniq x hx hcx)

theorem castleKind_some {f : MoveF} {long : Bool} (h : castleKind f = some long) :
    f.pieceMoved = KING ∧ f.source % 8 = 4 ∧ f.target % 8 = (if long then 2 else 6) := by
  unfold castleKind at h
  split at h
  · next hk =>
    split at h
    · next h1 => cases h; simp only [Bool.and_eq_true, beq_iff_eq] at h1 hk; exact ⟨hk, h1.1, h1.2⟩
    · split at h
      · next h1 => cases h; simp only [Bool.and_eq_true, beq_iff_eq] at h1 hk; exact ⟨hk, h1.1, h1.2⟩
      · cases h
  · cases h

theorem castleKind_none {f : MoveF} (h : castleKind f = none) :
    f.pieceMoved = KING → ¬ (f.source % 8 = 4 ∧ (f.target % 8 = 2 ∨ f.target % 8 = 6)) := by
  intro hk hh
  unfold castleKind at h
  rw [if_pos (by simpa using hk)] at h
  split at h
  · cases h
  · next h1 =>
    split at h
    · cases h
    · next h2 =>
      simp only [Bool.and_eq_true, beq_iff_eq, not_and] at h1 h2
      rcases hh.2 with h3 | h3
      · exact h2 hh.1 h3
      · exact h1 hh.1 h3

/-- **round trip, castling** -/
theorem roundtrip_castle {b : Board} (hnd : UciNodup b) (hF : SanGenFacts b) {m : Move} (hm : m ∈ genLegal b)
    {long : Bool} (hck : castleKind m.f = some long) (cands : List Nat) (sfx : Option Char)
    (hsfx : optOk isCheckMark sfx = true) {s : String}
    (hs : s.toList = renderSan ⟨sanBodyOf cands m.f, sfx, []⟩) : sanToMove b s = some m := by
  have hmp := mem_genPseudo_of_legal hm
  obtain ⟨hk, h4, ht⟩ := castleKind_some hck
  have hbody : sanBodyOf cands m.f = .castle long := by simp only [sanBodyOf, hck]
  rw [hbody] at hs
  have hcastle : m.f.castle = true := by
    cases hc : m.f.castle with
    | true => rfl
    | false =>
      exfalso
      refine hF.king_step m hmp hc hk ⟨h4, ?_⟩
      cases long <;> simp_all
  refine sanToMove_of_shape hnd (sh := ⟨.castle long, sfx, []⟩) ?_ hs hm ?_ ?_
  · simp only [SanShape.wf, SanBody.wf, hsfx, List.all_nil, Bool.and_self]
  · rw [consistent_castle]; exact ⟨hcastle, ht⟩
  · intro x hx hcx
    rw [consistent_castle] at hcx
    have hxp := mem_genPseudo_of_legal hx
    obtain ⟨xk, xs, xt⟩ := hF.castle_shape x hxp hcx.1
    obtain ⟨_, ms, mt⟩ := hF.castle_shape m hmp hcastle
    have hsrc : x.f.source = m.f.source := by rw [xs, ms]
    have h2 := hcx.2
    refine uci_eq_of hsrc ?_ ?_
    · have : m.f.source = 60 ∨ m.f.source = 4 := by rw [ms]; split <;> simp
      cases long <;> simp only [Bool.false_eq_true, if_false, if_true] at h2 ht <;> omega
    · rw [hF.promo_piece x hxp (by rw [xk]; decide), hF.promo_piece m hmp (by rw [hk]; decide)]


theorem capturesOf_isAttack {m : Move} (h : capturesOf m.f = true) : m.isAttack = true := by
  simp only [capturesOf, Bool.and_eq_true, decide_eq_true_eq] at h
  simp only [Move.isAttack, NO_PIECE, bne_iff_ne, ne_eq]
  omega

theorem promoOf_some {f : MoveF} {q : Char} (h : promoOf f = some q) (h2 : 2 ≤ f.promotion) (h5 : f.promotion ≤ 5) :
    pieceOfLetter q = f.promotion ∧ isPromoLetter q = true := by
  obtain ⟨c, hc, hp, hl⟩ := letterOf_promo h2 h5
  unfold promoOf at h
  rw [if_pos (by simp only [Bool.and_eq_true, decide_eq_true_eq]; omega), hc] at h
  cases h; exact ⟨hp, hl⟩

theorem promoOf_zero {f : MoveF} (h : f.promotion = 0) : promoOf f = none := by
  unfold promoOf; rw [h]; rfl

/-- **round trip, pawn moves** (pushes, captures, en passant, promotions) -/
theorem roundtrip_pawn {b : Board} (hnd : UciNodup b) (hF : SanGenFacts b) {m : Move} (hm : m ∈ genLegal b)
    (hck : castleKind m.f = none) (hpawn : m.f.pieceMoved = PAWN) (cands : List Nat) (sfx : Option Char)
    (hsfx : optOk isCheckMark sfx = true) {s : String}
    (hs : s.toList = renderSan ⟨sanBodyOf cands m.f, sfx, []⟩) : sanToMove b s = some m := by
  have hmp := mem_genPseudo_of_legal hm
  have hbody : sanBodyOf cands m.f = .move none (if capturesOf m.f then some (fileChar m.f.source) else none) none
      (capturesOf m.f) (fileChar m.f.target) (rankChar m.f.target) (promoOf m.f) := by
    simp only [sanBodyOf, hck, hpawn, beq_self_eq_true, if_true]
  rw [hbody] at hs
  have hpp := hF.promo_pawn m hmp hpawn
  refine sanToMove_of_shape hnd (sh := ⟨_, sfx, []⟩) ?_ hs hm ?_ ?_
  · -- the shape is well formed
    have hff : optOk isFile (if capturesOf m.f = true then some (fileChar m.f.source) else none) = true := by
      split
      · exact fileChar_isFile _
      · rfl
    have hpr : optOk isPromoLetter (promoOf m.f) = true := by
      cases hq : promoOf m.f with
      | none => rfl
      | some q =>
        rcases hpp with ⟨h0, _⟩ | ⟨h2, h5, _⟩
        · rw [promoOf_zero h0] at hq; cases hq
        · exact (promoOf_some hq h2 h5).2
    simp only [SanShape.wf, SanBody.wf, optOk_none, hff, fileChar_isFile, rankChar_isRank (target_lt m), hpr, hsfx,
      List.all_nil, Bool.and_self]
  · -- the move itself is consistent with its text
    rw [consistent_pawn]
    refine ⟨hpawn, capturesOf_isAttack, ?_, ?_, (target_readback (target_lt m)).symm⟩
    · intro q hq
      rcases hpp with ⟨h0, _⟩ | ⟨h2, h5, _⟩
      · rw [promoOf_zero h0] at hq; cases hq
      · have := (promoOf_some hq h2 h5).1
        refine ⟨?_, this.symm⟩
        simp only [Move.isPromotion, NO_PIECE, bne_iff_ne, ne_eq]; omega
    · intro c hc
      split at hc
      · cases hc; exact (fileIdx_fileChar _).symm
      · cases hc
  · -- no other legal move is
    intro x hx hcx
    rw [consistent_pawn] at hcx
    obtain ⟨xpawn, xatt, xpromo, xfile, xtgt⟩ := hcx
    have hxp := mem_genPseudo_of_legal hx
    have htgt : x.f.target = m.f.target := by rw [xtgt, target_readback (target_lt m)]
    have hfile : x.f.source % 8 = m.f.source % 8 := by
      cases hcap : capturesOf m.f with
      | true =>
        have := xfile (fileChar m.f.source) (by rw [hcap]; rfl)
        rw [this, fileIdx_fileChar]
      | false =>
        have hpa : m.f.pieceAttacked = 0 := by
          have := hF.attacked_le m hmp
          simp only [capturesOf, Bool.and_eq_false_iff, decide_eq_false_iff_not] at hcap
          omega
        have hxa := hF.pawn_push_only x hxp m hmp xpawn hpawn htgt hpa
        rw [hF.pawn_push_file x hxp xpawn hxa, hF.pawn_push_file m hmp hpawn hpa, htgt]
    have hsrc := hF.pawn_same_file x hxp m hmp xpawn hpawn htgt hfile
    refine uci_eq_of hsrc htgt ?_
    rcases hpp with ⟨h0, h8, h56⟩ | ⟨h2, h5, _⟩
    · rcases hF.promo_pawn x hxp xpawn with ⟨x0, _⟩ | ⟨_, _, xl⟩
      · rw [x0, h0]
      · omega
    · obtain ⟨c, hc, hp, _⟩ := letterOf_promo h2 h5
      have hq : promoOf m.f = some c := by
        unfold promoOf
        rw [if_pos (by simp only [Bool.and_eq_true, decide_eq_true_eq]; omega), hc]
      rw [(xpromo c hq).2, hp]

theorem agrees_of_hints {d : Disamb} {src o : Nat} (hs : src < 64)
    (hf : ∀ c, d.fileOf (fileChar src) = some c → o % 8 = fileIdx c)
    (hr : ∀ c, d.rankOf (rankChar src) = some c → o / 8 = rowIdx c) : d.agrees src o = true := by
  cases d with
  | none => rfl
  | file =>
    have := hf _ rfl
    rw [fileIdx_fileChar] at this
    simp only [Disamb.agrees, beq_iff_eq, this]
  | rank =>
    have := hr _ rfl
    rw [rowIdx_rankChar hs] at this
    simp only [Disamb.agrees, beq_iff_eq, this]
  | both =>
    have h1 := hf _ rfl
    have h2 := hr _ rfl
    rw [fileIdx_fileChar] at h1
    rw [rowIdx_rankChar hs] at h2
    simp only [Disamb.agrees, Bool.and_eq_true, beq_iff_eq, h1, h2, and_self]

/-- **round trip, piece moves** (N, B, R, Q, K with or without capture, every disambiguation) -/
theorem roundtrip_piece {b : Board} (hnd : UciNodup b) (hF : SanGenFacts b) {m : Move} (hm : m ∈ genLegal b)
    (hck : castleKind m.f = none) (hpawn : m.f.pieceMoved ≠ PAWN) (sfx : Option Char)
    (hsfx : optOk isCheckMark sfx = true) {s : String}
    (hs : s.toList = renderSan ⟨sanBodyOf (candSources b (genPseudo b) m.f) m.f, sfx, []⟩) :
    sanToMove b s = some m := by
  have hmp := mem_genPseudo_of_legal hm
  have hrange := hF.piece_range m hmp
  have h26 : 2 ≤ m.f.pieceMoved ∧ m.f.pieceMoved ≤ 6 := by
    have : m.f.pieceMoved ≠ 1 := hpawn
    omega
  obtain ⟨pc, hpc, hpl, hpok⟩ := letterOf_piece h26.1 h26.2
  have hpr0 := hF.promo_piece m hmp hpawn
  have hsl := source_lt m
  generalize hd : modelDisamb m.f.source (candSources b (genPseudo b) m.f) false = d at *
  have hbody : sanBodyOf (candSources b (genPseudo b) m.f) m.f =
      .move (some pc) (d.fileOf (fileChar m.f.source)) (d.rankOf (rankChar m.f.source))
        (capturesOf m.f) (fileChar m.f.target) (rankChar m.f.target) none := by
    have : (m.f.pieceMoved == PAWN) = false := by simpa using hpawn
    simp only [sanBodyOf, hck, this, Bool.false_eq_true, if_false, hpc, hd, promoOf_zero hpr0]
  rw [hbody] at hs
  refine sanToMove_of_shape hnd (sh := ⟨_, sfx, []⟩) ?_ hs hm ?_ ?_
  · have hff : optOk isFile (d.fileOf (fileChar m.f.source)) = true := by
      cases d <;> first | rfl | exact fileChar_isFile _
    have hfr : optOk isRank (d.rankOf (rankChar m.f.source)) = true := by
      cases d <;> first | rfl | exact rankChar_isRank hsl
    simp only [SanShape.wf, SanBody.wf, optOk_some, optOk_none, hpok, hff, hfr, fileChar_isFile, rankChar_isRank (target_lt m), hsfx,
      List.all_nil, Bool.and_self]
  · rw [consistent_piece]
    refine ⟨hpl.symm, capturesOf_isAttack, ?_, ?_, (target_readback (target_lt m)).symm⟩
    · intro c hc
      cases d <;> simp only [Disamb.fileOf, Option.some.injEq] at hc <;> cases hc <;>
        exact (fileIdx_fileChar _).symm
    · intro c hc
      cases d <;> simp only [Disamb.rankOf, Option.some.injEq] at hc <;> cases hc <;>
        exact (rowIdx_rankChar hsl).symm
  · intro x hx hcx
    rw [consistent_piece] at hcx
    obtain ⟨xpm, _, xfile, xrank, xtgt⟩ := hcx
    have hxp := mem_genPseudo_of_legal hx
    have htgt : x.f.target = m.f.target := by rw [xtgt, target_readback (target_lt m)]
    have hpm : x.f.pieceMoved = m.f.pieceMoved := by rw [xpm, hpl]
    have hmem : x.f.source ∈ candSources b (genPseudo b) m.f := by
      unfold candSources
      refine List.mem_map.mpr ⟨x, List.mem_filter.mpr ⟨hxp, ?_⟩, rfl⟩
      simp only [legal_of_mem_genLegal hx, htgt, hpm, beq_self_eq_true, Bool.and_self]
    have hag := agrees_of_hints hsl xfile xrank
    rw [← hd, disamb_standard] at hag
    have hsrc := disamb_unique _ _ _ hmem hag
    refine uci_eq_of hsrc htgt ?_
    rw [hF.promo_piece x hxp (by rw [hpm]; exact hpawn), hpr0]


theorem candSources_congr {b b2 : Board} (h : WF.vis b2 = WF.vis b) (moves : List Move) (f : MoveF) :
    candSources b2 moves f = candSources b moves f := by
  unfold candSources
  congr 1
  apply List.filter_congr
  intro x _
  rw [BoardCongr.isMoveLegal_congr h x]

/-- the accepted move of `uci_to_pgn` called with the UCI text of a generated move is that move -/
theorem uciToSan_of_uci {b : Board} (hnd : UciNodup b) {m : Move} (hm : m ∈ genPseudo b) {s : String}
    (h : (uciToSan b m.uci).1 = .ok s) :
    isMoveLegal b m = true ∧ s = sanText b (unmake (make b m) m) (make b m) m := by
  obtain ⟨m0, hfind, hleg, hs⟩ := uciToSan_ok h
  rw [rustTrim_uci] at hfind
  have hm0 : m0 ∈ genPseudo b := List.mem_of_find?_eq_some hfind
  have hu : m0.uci = m.uci := by simpa using List.find?_some hfind
  have : m0 = m := eq_of_nodup_map Move.uci hnd hm0 hm hu
  subst this
  exact ⟨hleg, hs⟩

/-- **the text written for a legal move, as a shape** (relative to the generator facts) -/
theorem uciToSan_shape {b : Board} (hwf : WF.wf b = true) (hnd : UciNodup b) (hF : SanGenFacts b) {m : Move}
    (hm : m ∈ genPseudo b) {s : String} (h : (uciToSan b m.uci).1 = .ok s) :
    s.toList = renderSan ⟨sanBodyOf (candSources b (genPseudo b) m.f) m.f, sanSuffix (make b m), []⟩ := by
  obtain ⟨hleg, rfl⟩ := uciToSan_of_uci hnd hm h
  have hvis := (C03.unmake_make_generated b hwf m hm).1
  have hcs := candSources_congr hvis (genPseudo b) m.f
  rw [sanText_toList b _ _ m (target_lt m), sanShapeOf, hcs]
  intro hpawn
  rw [hcs]
  apply disamb_pawn
  intro o ho hfile
  unfold candSources at ho
  obtain ⟨x, hx, rfl⟩ := List.mem_map.mp ho
  obtain ⟨hxp, hxc⟩ := List.mem_filter.mp hx
  simp only [Bool.and_eq_true, beq_iff_eq] at hxc
  exact hF.pawn_same_file x hxp m hm (by rw [hxc.2, hpawn]) hpawn hxc.1.2 hfile

/-- **round trip**, relative to the generator facts: the text written for a legal move is read back as that move -/
theorem san_roundtrip_of_facts {b : Board} (hwf : WF.wf b = true) (hnd : UciNodup b) (hF : SanGenFacts b)
    {m : Move} (hm : m ∈ genLegal b) {s : String} (h : (uciToSan b m.uci).1 = .ok s) :
    sanToMove b s = some m := by
  have hs := uciToSan_shape hwf hnd hF (mem_genPseudo_of_legal hm) h
  cases hck : castleKind m.f with
  | some long => exact roundtrip_castle hnd hF hm hck _ _ (sanSuffix_ok _) hs
  | none =>
    by_cases hpawn : m.f.pieceMoved = PAWN
    · exact roundtrip_pawn hnd hF hm hck hpawn _ _ (sanSuffix_ok _) hs
    · exact roundtrip_piece hnd hF hm hck hpawn _ (sanSuffix_ok _) hs

section GeneratorFacts
open Inkayaku.GenSpec Inkayaku.GenOK Inkayaku.Gen

/-! ## the generator facts, from `wf b` -/

/-- where a generated move comes from, with the arguments `make_move` was called with -/
inductive Origin (b : Board) (m : Move) : Prop where
  | piece (P src tgt : Nat) (hP : P = QUEEN ∨ P = BISHOP ∨ P = ROOK ∨ P = KNIGHT)
      (hf : m.f = mkF b src tgt P false false 0 0)
  | king (src tgt : Nat) (hs : src < 64) (ht : tgt < 64) (hk : testU (leaperAttacks kingTable src) tgt = true)
      (hf : m.f = mkF b src tgt KING false false 0 0)
  | capture (src tgt promo : Nat) (ep : Bool) (hs : src < 64) (ht : tgt < 64)
      (hsrc : testU b.active.pawns src = true)
      (hatt : testU (pawnAttSet b b.active.full b.passive.full src) tgt = true)
      (hpromo : (lastRank tgt = true ∧ 2 ≤ promo ∧ promo ≤ 5 ∧ ep = false) ∨
        (lastRank tgt = false ∧ promo = 0 ∧ ep = (tgt == b.ep)))
      (hf : m.f = mkF b src tgt PAWN false ep promo 0)
  | push (src tgt promo epOpp : Nat) (hsrc : testU b.active.pawns src = true) (h8 : 8 ≤ src) (h56 : src < 56)
      (ht : tgt < 64)
      (hempty : testU (b.active.full ||| b.passive.full) tgt = false)
      (hstep : tgt = (if b.whiteTurn then src - 8 else src + 8) ∨
        (tgt = (if b.whiteTurn then src - 16 else src + 16) ∧ (if b.whiteTurn then 48 ≤ src else src < 16) ∧
          testU (b.active.full ||| b.passive.full) (if b.whiteTurn then src - 8 else src + 8) = false))
      (hpromo : (lastRank tgt = true ∧ 2 ≤ promo ∧ promo ≤ 5) ∨ (lastRank tgt = false ∧ promo = 0))
      (hf : m.f = mkF b src tgt PAWN false false promo epOpp)
  | castle (tgt : Nat) (ht : tgt + 2 = (if b.whiteTurn then 60 else 4) ∨ tgt = (if b.whiteTurn then 60 else 4) + 2)
      (hf : m.f = mkF b (if b.whiteTurn then 60 else 4) tgt KING true false 0 0)

theorem mem_mkL {b : Board} {src tgt piece promo epOpp : Nat} {castle ep : Bool} {m : Move}
    (h : ArgsFit b src tgt piece promo epOpp) (hm : m ∈ mkL b false src tgt piece castle ep promo epOpp) :
    m.f = mkF b src tgt piece castle ep promo epOpp := by
  rw [mkL_false, List.mem_singleton] at hm
  subst hm
  exact mkM_f castle ep h

theorem mem_attacksL {b : Board} (hb : Basic b) {src piece : Nat} {att : UInt64} {m : Move} (hs : src < 64)
    (hp : piece < 8) (hm : m ∈ attacksL b false src att piece) :
    ∃ tgt, tgt < 64 ∧ testU att tgt = true ∧ m.f = mkF b src tgt piece false false 0 0 := by
  unfold attacksL at hm
  obtain ⟨tgt, ht, hm⟩ := List.mem_flatMap.mp hm
  have htu := (Bits.mem_bitsAsc _ _).mp ht
  exact ⟨tgt, Bits.testU_lt htu, htu, mem_mkL ⟨hb, hs, Bits.testU_lt htu, hp, by decide, by decide⟩ hm⟩

theorem mem_slidingL {b : Board} (hb : Basic b) {occ act full : UInt64} {rook : Bool} {piece : Nat} {m : Move}
    (hp : piece < 8) (hm : m ∈ slidingL b false occ act full rook piece) :
    ∃ src tgt, m.f = mkF b src tgt piece false false 0 0 := by
  unfold slidingL at hm
  obtain ⟨src, hs, hm⟩ := List.mem_flatMap.mp hm
  obtain ⟨tgt, _, _, hf⟩ := mem_attacksL hb (Bits.testU_lt ((Bits.mem_bitsAsc _ _).mp hs)) hp hm
  exact ⟨src, tgt, hf⟩

theorem mem_singleL {b : Board} (hb : Basic b) {occ act : UInt64} {tbl : List Nat} {piece : Nat} {m : Move}
    (hp : piece < 8) (hm : m ∈ singleL b false occ act tbl piece) :
    ∃ src tgt, src < 64 ∧ tgt < 64 ∧ testU (leaperAttacks tbl src) tgt = true ∧
      m.f = mkF b src tgt piece false false 0 0 := by
  unfold singleL at hm
  obtain ⟨src, hs, hm⟩ := List.mem_flatMap.mp hm
  have hs64 := Bits.testU_lt ((Bits.mem_bitsAsc _ _).mp hs)
  obtain ⟨tgt, ht, hatt, hf⟩ := mem_attacksL hb hs64 hp hm
  rw [Bits.testU_and, Bool.and_eq_true] at hatt
  exact ⟨src, tgt, hs64, ht, hatt.1, hf⟩

theorem mem_promotionsL {b : Board} (hb : Basic b) {src tgt : Nat} {m : Move} (hs : src < 64) (ht : tgt < 64)
    (hm : m ∈ promotionsL b src tgt) :
    ∃ p, 2 ≤ p ∧ p ≤ 5 ∧ m.f = mkF b src tgt PAWN false false p 0 := by
  unfold promotionsL at hm
  obtain ⟨p, hp, hm⟩ := List.mem_flatMap.mp hm
  have hp' : p = 5 ∨ p = 4 ∨ p = 3 ∨ p = 2 := by simpa [QUEEN, ROOK, BISHOP, KNIGHT] using hp
  exact ⟨p, by omega, by omega, mem_mkL ⟨hb, hs, ht, by decide, by omega, by decide⟩ hm⟩


theorem origin_pawnAttacksL {b : Board} (hb : Basic b) {m : Move}
    (hm : m ∈ pawnAttacksL b b.active.pawns b.active.full b.passive.full) : Origin b m := by
  unfold pawnAttacksL at hm
  obtain ⟨src, hs, hm⟩ := List.mem_flatMap.mp hm
  obtain ⟨tgt, ht, hm⟩ := List.mem_flatMap.mp hm
  have hsu := (Bits.mem_bitsAsc _ _).mp hs
  have htu := (Bits.mem_bitsAsc _ _).mp ht
  have hs64 := Bits.testU_lt hsu
  have ht64 := Bits.testU_lt htu
  unfold pawnAttackL at hm
  rw [lastRank_iff tgt ht64] at hm
  split at hm
  · next hl =>
    obtain ⟨p, h2, h5, hf⟩ := mem_promotionsL hb hs64 ht64 hm
    exact .capture src tgt p false hs64 ht64 hsu htu (Or.inl ⟨hl, h2, h5, rfl⟩) hf
  · next hl =>
    have hf := mem_mkL ⟨hb, hs64, ht64, by decide, by decide, by decide⟩ hm
    exact .capture src tgt 0 (tgt == b.ep) hs64 ht64 hsu htu (Or.inr ⟨by simpa using hl, rfl, rfl⟩) hf

theorem origin_pawnMovesL {b : Board} (hw : WFacts b) {m : Move}
    (hm : m ∈ pawnMovesL b false b.active.pawns (b.active.full ||| b.passive.full)) : Origin b m := by
  have hb := hw.basic
  unfold pawnMovesL at hm
  obtain ⟨src, hs, hm⟩ := List.mem_flatMap.mp hm
  have hsu := (Bits.mem_bitsAsc _ _).mp hs
  obtain ⟨h8, h56⟩ := pawn_mid' hw hs
  -- the same argument for both colours: `t1` one step ahead, `t2` two steps ahead
  have key : ∀ t1 t2 : Nat, t1 < 64 → ∀ rank2 : Prop, [Decidable rank2] → (rank2 → t2 < 64) →
      t1 = (if b.whiteTurn = true then src - 8 else src + 8) →
      t2 = (if b.whiteTurn = true then src - 16 else src + 16) →
      (rank2 ↔ (if b.whiteTurn = true then 48 ≤ src else src < 16)) →
      (rank2 → lastRank t2 = false) →
      m ∈ (if testU (b.active.full ||| b.passive.full) t1 then []
        else if lastRank t1 then promotionsL b src t1
        else mkL b false src t1 PAWN false false NO_PIECE 0 ++
          (if decide rank2 && !testU (b.active.full ||| b.passive.full) t2
            then mkL b false src t2 PAWN false false NO_PIECE t1 else [])) → Origin b m := by
    intro t1 t2 ht1 rank2 _ ht2 e1 e2 hr hl2 hm
    by_cases hfree : testU (b.active.full ||| b.passive.full) t1 = true
    · rw [if_pos hfree] at hm; cases hm
    · rw [if_neg hfree] at hm
      have hfree' : testU (b.active.full ||| b.passive.full) t1 = false := by simpa using hfree
      by_cases hl : lastRank t1 = true
      · rw [if_pos hl] at hm
        obtain ⟨p, h2, h5, hf⟩ := mem_promotionsL hb (by omega) ht1 hm
        exact .push src t1 p 0 hsu h8 h56 ht1 hfree' (Or.inl e1) (Or.inl ⟨hl, h2, h5⟩) hf
      · rw [if_neg hl] at hm
        have hl' : lastRank t1 = false := by simpa using hl
        rcases List.mem_append.mp hm with hm | hm
        · have hf := mem_mkL ⟨hb, by omega, ht1, by decide, by decide, by decide⟩ hm
          exact .push src t1 0 0 hsu h8 h56 ht1 hfree' (Or.inl e1) (Or.inr ⟨hl', rfl⟩) hf
        · split at hm
          · next hd =>
            simp only [Bool.and_eq_true, Bool.not_eq_true', decide_eq_true_eq] at hd
            have hf := mem_mkL ⟨hb, by omega, ht2 hd.1, by decide, by decide, ht1⟩ hm
            exact .push src t2 0 t1 hsu h8 h56 (ht2 hd.1) hd.2 (Or.inr ⟨e2, hr.mp hd.1, e1 ▸ hfree'⟩)
              (Or.inr ⟨hl2 hd.1, rfl⟩) hf
          · cases hm
  cases hwt : b.whiteTurn
  · rw [pawnStepL_black hwt false _ src h8 h56] at hm
    exact key (src + 8) (src + 16) (by omega) (src < 16) (fun h => by omega) (by simp [hwt]) (by simp [hwt])
      (by simp [hwt]) (fun h => by unfold lastRank; simp; omega) hm
  · rw [pawnStepL_white hwt false _ src h8 h56] at hm
    exact key (src - 8) (src - 16) (by omega) (48 ≤ src) (fun h => by omega) (by simp [hwt]) (by simp [hwt])
      (by simp [hwt]) (fun h => by unfold lastRank; simp; omega) hm

theorem origin_castleL {b : Board} (hb : Basic b) {m : Move}
    (hm : m ∈ castleL b (b.active.full ||| b.passive.full)) : Origin b m := by
  have fit : ∀ s t, s < 64 → t < 64 → ArgsFit b s t KING NO_PIECE 0 :=
    fun s t hs ht => ⟨hb, hs, ht, by decide, by decide, by decide⟩
  unfold castleL at hm
  cases hw : b.whiteTurn
  · simp only [hw, Bool.false_eq_true, if_false] at hm
    rcases List.mem_append.mp hm with hm | hm
    · split at hm
      · have hf := mem_mkL (fit E8 C8 (by decide) (by decide)) hm
        exact .castle C8 (by simp [hw, C8]) (by simpa [hw, E8, NO_PIECE] using hf)
      · cases hm
    · split at hm
      · have hf := mem_mkL (fit E8 G8 (by decide) (by decide)) hm
        exact .castle G8 (by simp [hw, G8]) (by simpa [hw, E8, NO_PIECE] using hf)
      · cases hm
  · simp only [hw, if_true] at hm
    rcases List.mem_append.mp hm with hm | hm
    · split at hm
      · have hf := mem_mkL (fit E1 C1 (by decide) (by decide)) hm
        exact .castle C1 (by simp [hw, C1]) (by simpa [hw, E1, NO_PIECE] using hf)
      · cases hm
    · split at hm
      · have hf := mem_mkL (fit E1 G1 (by decide) (by decide)) hm
        exact .castle G1 (by simp [hw, G1]) (by simpa [hw, E1, NO_PIECE] using hf)
      · cases hm

/-- every generated move has an origin -/
theorem origin_of_mem {b : Board} (hw : WFacts b) {m : Move} (hm : m ∈ genPseudo b) : Origin b m := by
  have hb := hw.basic
  rw [genPseudo_eq] at hm
  simp only [List.mem_append] at hm
  rcases hm with (((((((hm | hm) | hm) | hm) | hm) | hm) | hm) | hm) | hm
  · obtain ⟨s, t, hf⟩ := mem_slidingL hb (by decide) hm; exact .piece QUEEN s t (Or.inl rfl) hf
  · obtain ⟨s, t, hf⟩ := mem_slidingL hb (by decide) hm; exact .piece QUEEN s t (Or.inl rfl) hf
  · obtain ⟨s, t, hf⟩ := mem_slidingL hb (by decide) hm; exact .piece BISHOP s t (Or.inr (Or.inl rfl)) hf
  · obtain ⟨s, t, hf⟩ := mem_slidingL hb (by decide) hm; exact .piece ROOK s t (Or.inr (Or.inr (Or.inl rfl))) hf
  · obtain ⟨s, t, _, _, _, hf⟩ := mem_singleL hb (by decide) hm
    exact .piece KNIGHT s t (Or.inr (Or.inr (Or.inr rfl))) hf
  · obtain ⟨s, t, hs, ht, hk, hf⟩ := mem_singleL hb (by decide) hm
    exact .king s t hs ht hk hf
  · exact origin_pawnAttacksL hb hm
  · exact origin_pawnMovesL hw hm
  · exact origin_castleL hb hm


/-! ### what the origins say about pawn moves -/

/-- a pawn capture (en passant included): something is captured, the pawn changes file by one and advances one rank,
and the target holds an enemy piece or is the en-passant square -/
def IsCapture (b : Board) (m : Move) : Prop :=
  m.f.pieceAttacked ≠ 0 ∧ m.f.source % 8 ≠ m.f.target % 8 ∧
  (if b.whiteTurn then m.f.source / 8 = m.f.target / 8 + 1 else m.f.source / 8 + 1 = m.f.target / 8) ∧
  (testU b.passive.full m.f.target = true ∨ (m.f.target = b.ep ∧ b.ep ≠ 0))

/-- a pawn push: nothing is captured, the target is empty, one step ahead or two steps from the start rank over an
empty square -/
def IsPush (b : Board) (m : Move) : Prop :=
  m.f.pieceAttacked = 0 ∧ testU (b.active.full ||| b.passive.full) m.f.target = false ∧
  testU b.active.pawns m.f.source = true ∧ 8 ≤ m.f.source ∧ m.f.source < 56 ∧
  (m.f.target = (if b.whiteTurn then m.f.source - 8 else m.f.source + 8) ∨
    (m.f.target = (if b.whiteTurn then m.f.source - 16 else m.f.source + 16) ∧
      (if b.whiteTurn then 48 ≤ m.f.source else m.f.source < 16) ∧
      testU (b.active.full ||| b.passive.full) (if b.whiteTurn then m.f.source - 8 else m.f.source + 8) = false))

theorem lastRank_rank18 : ∀ t, t < 64 → testU rank18 t = lastRank t := by decide

theorem full_of_pawns {s : Side} {t : Nat} (h : testU s.pawns t = true) : testU s.full t = true := by
  simp only [Side.full, Bits.testU_or, h, Bool.or_true]

theorem pawnGeom_rows {w : Bool} {s t : Nat} (h : Geometry.pawnGeom w s t = true) :
    s % 8 ≠ t % 8 ∧ (if w then s / 8 = t / 8 + 1 else s / 8 + 1 = t / 8) := by
  simp only [Geometry.pawnGeom, Spec.fileOf, Spec.rowOf, Bool.and_eq_true, bne_iff_ne, ne_eq, beq_iff_eq] at h
  obtain ⟨_, h1, h2⟩ := h
  cases w <;> simp only [Bool.false_eq_true, if_false, if_true] at h2 ⊢ <;> omega

theorem testU_not' (x : UInt64) (t : Nat) (ht : t < 64) : testU (~~~x) t = !testU x t := by
  unfold testU
  rw [UInt64.toNat_not, show 2 ^ 64 - 1 - x.toNat = 2 ^ 64 - (x.toNat + 1) by omega]
  exact (Nat.testBit_two_pow_sub_succ x.toNat_lt t).trans (by simp [ht])

theorem mkF_attacked (b : Board) (src tgt piece : Nat) (castle ep : Bool) (promo epOpp : Nat) :
    (mkF b src tgt piece castle ep promo epOpp).pieceAttacked = b.passive.pieceAt (attackSq b tgt ep) := rfl

theorem capture_isCapture {b : Board} (hw : WFacts b) {m : Move} {src tgt promo : Nat} {ep : Bool}
    (hs : src < 64) (ht : tgt < 64)
    (hatt : testU (pawnAttSet b b.active.full b.passive.full src) tgt = true)
    (hpromo : (lastRank tgt = true ∧ 2 ≤ promo ∧ promo ≤ 5 ∧ ep = false) ∨
      (lastRank tgt = false ∧ promo = 0 ∧ ep = (tgt == b.ep)))
    (hf : m.f = mkF b src tgt PAWN false ep promo 0) : IsCapture b m := by
  have hep64 := hw.basic.ep
  unfold pawnAttSet at hatt
  simp only [Bits.testU_and, Bits.testU_or, Bool.and_eq_true, Bool.or_eq_true, testU_not' _ _ ht,
    Bits.testU_bitU _ _ hep64, lastRank_rank18 tgt ht, decide_eq_true_eq, Bool.not_eq_true'] at hatt
  obtain ⟨⟨htbl, hocc⟩, _⟩ := hatt
  -- geometry of the capture
  have hgeo : src % 8 ≠ tgt % 8 ∧ (if b.whiteTurn then src / 8 = tgt / 8 + 1 else src / 8 + 1 = tgt / 8) := by
    cases hwt : b.whiteTurn
    · rw [hwt] at htbl
      simp only [Bool.false_eq_true, if_false] at htbl
      rw [Attack.leaperAttacks_eq Geometry.blackPawn_tableOK src tgt hs ht] at htbl
      exact pawnGeom_rows htbl
    · rw [hwt] at htbl
      simp only [if_true] at htbl
      rw [Attack.leaperAttacks_eq Geometry.whitePawn_tableOK src tgt hs ht] at htbl
      exact pawnGeom_rows htbl
  have hsrc : m.f.source = src := by rw [hf]; rfl
  have htgt : m.f.target = tgt := by rw [hf]; rfl
  have hpa : m.f.pieceAttacked = b.passive.pieceAt (attackSq b tgt ep) := by rw [hf]; rfl
  rw [IsCapture, hsrc, htgt, hpa]
  refine ⟨?_, hgeo.1, hgeo.2, ?_⟩
  · -- something is captured
    by_cases hte : tgt = b.ep ∧ lastRank tgt = false
    · obtain ⟨hte, hl⟩ := hte
      have hep : ep = true := by
        rcases hpromo with ⟨hl', _⟩ | ⟨_, _, he⟩
        · rw [hl] at hl'; cases hl'
        · rw [he]; simpa using hte
      have hne : b.ep ≠ 0 := by
        intro h0; rw [← hte] at h0; subst h0; revert hl; decide
      have hok := hw.epOK hne
      have hturn := hw.basic.turn
      subst hep
      unfold attackSq
      cases hwt : b.whiteTurn
      · have ht1 : b.turn ≠ 0 := by simpa [Board.whiteTurn] using hwt
        rw [if_neg ht1] at hok
        simp only [Bool.false_eq_true, if_false, if_true]
        have hp : testU b.passive.full (tgt - 8) = true := by
          apply full_of_pawns
          simp only [Board.passive, hwt, Bool.false_eq_true, if_false]
          rw [hte]; exact hok.2
        intro h0
        rw [Attack.pieceAt_zero _ _ (by omega)] at h0
        rw [hp] at h0; cases h0
      · have ht0 : b.turn = 0 := by simpa [Board.whiteTurn] using hwt
        rw [if_pos ht0] at hok
        simp only [if_true]
        have hp : testU b.passive.full (tgt + 8) = true := by
          apply full_of_pawns
          simp only [Board.passive, hwt, if_true]
          rw [hte]; exact hok.2
        intro h0
        rw [Attack.pieceAt_zero _ _ (by omega)] at h0
        rw [hp] at h0; cases h0
    · have hfull : testU b.passive.full tgt = true := by
        rcases hocc with h | ⟨h1, h2⟩
        · exact h
        · exact absurd ⟨h1.symm, h2⟩ hte
      have hep : ep = false := by
        rcases hpromo with ⟨_, _, _, he⟩ | ⟨hl, _, he⟩
        · exact he
        · rw [he]
          cases hbe : (tgt == b.ep) with
          | false => rfl
          | true => exact absurd ⟨by simpa using hbe, hl⟩ hte
      subst hep
      have : attackSq b tgt false = tgt := by unfold attackSq; split <;> simp
      rw [this]
      intro h0
      rw [Attack.pieceAt_zero _ _ ht] at h0
      rw [hfull] at h0; cases h0
  · rcases hocc with h | ⟨h1, h2⟩
    · exact Or.inl h
    · refine Or.inr ⟨h1.symm, ?_⟩
      intro h0; rw [← h1] at h2; rw [h0] at h2; revert h2; decide

theorem push_isPush {b : Board} {m : Move} {src tgt promo epOpp : Nat}
    (hsrc : testU b.active.pawns src = true) (h8 : 8 ≤ src) (h56 : src < 56) (ht : tgt < 64)
    (hempty : testU (b.active.full ||| b.passive.full) tgt = false)
    (hstep : tgt = (if b.whiteTurn then src - 8 else src + 8) ∨
      (tgt = (if b.whiteTurn then src - 16 else src + 16) ∧ (if b.whiteTurn then 48 ≤ src else src < 16) ∧
        testU (b.active.full ||| b.passive.full) (if b.whiteTurn then src - 8 else src + 8) = false))
    (hf : m.f = mkF b src tgt PAWN false false promo epOpp) : IsPush b m := by
  have hs : m.f.source = src := by rw [hf]; rfl
  have htg : m.f.target = tgt := by rw [hf]; rfl
  have hpa : m.f.pieceAttacked = b.passive.pieceAt (attackSq b tgt false) := by rw [hf]; rfl
  rw [IsPush, hs, htg, hpa]
  refine ⟨?_, hempty, hsrc, h8, h56, hstep⟩
  have : attackSq b tgt false = tgt := by unfold attackSq; split <;> simp
  rw [this, Attack.pieceAt_zero _ _ ht]
  rw [Bits.testU_or, Bool.or_eq_false_iff] at hempty
  exact hempty.2

/-- a generated pawn move is a capture or a push -/
theorem pawn_cases {b : Board} (hw : WFacts b) {m : Move} (hm : m ∈ genPseudo b) (hp : m.f.pieceMoved = PAWN) :
    IsCapture b m ∨ IsPush b m := by
  cases origin_of_mem hw hm with
  | piece P s t hP hf =>
    rw [hf] at hp
    have : P = PAWN := hp
    rcases hP with rfl | rfl | rfl | rfl <;> cases this
  | king s t _ _ _ hf => rw [hf] at hp; cases hp
  | capture src tgt promo ep hs ht hsrc hatt hpromo hf => exact Or.inl (capture_isCapture hw hs ht hatt hpromo hf)
  | push src tgt promo epOpp hsrc h8 h56 ht hempty hstep hpromo hf =>
    exact Or.inr (push_isPush hsrc h8 h56 ht hempty hstep hf)
  | castle t _ hf => rw [hf] at hp; cases hp


theorem kingGeom_files {s t : Nat} (h : Geometry.kingGeom s t = true) : s % 8 ≤ t % 8 + 1 ∧ t % 8 ≤ s % 8 + 1 := by
  simp only [Geometry.kingGeom, Spec.fileOf, Spec.rowOf, Bool.and_eq_true] at h
  have := of_decide_eq_true h.2.1
  omega

theorem excl_pawns {b : Board} (hd : Attack.Disjoint b) (t : Nat) :
    ¬ (testU b.white.pawns t = true ∧ testU b.black.pawns t = true) := by
  have := hd.pairwise t
  simp only [Attack.sideWords, List.cons_append, List.nil_append, List.pairwise_cons] at this
  exact this.1 b.black.pawns (by simp)

theorem active_passive_pawns {b : Board} (hd : Attack.Disjoint b) (t : Nat) :
    ¬ (testU b.active.pawns t = true ∧ testU b.passive.pawns t = true) := by
  unfold Board.active Board.passive
  cases b.whiteTurn
  · simp only [Bool.false_eq_true, if_false]; exact fun h => excl_pawns hd t ⟨h.2, h.1⟩
  · simp only [if_true]; exact excl_pawns hd t

theorem full_or_of_active_pawns {b : Board} {t : Nat} (h : testU b.active.pawns t = true) :
    testU (b.active.full ||| b.passive.full) t = true := by
  rw [Bits.testU_or, full_of_pawns h]; rfl

/-- two pushes to the same square start from the same square -/
theorem push_push_source {b : Board} {x m : Move} (hx : IsPush b x) (hm : IsPush b m)
    (ht : x.f.target = m.f.target) : x.f.source = m.f.source := by
  obtain ⟨_, _, xs, x8, x56, xstep⟩ := hx
  obtain ⟨_, _, ms, m8, m56, mstep⟩ := hm
  have hxo := full_or_of_active_pawns xs
  have hmo := full_or_of_active_pawns ms
  rw [ht] at xstep
  cases hw : b.whiteTurn <;> simp only [hw, Bool.false_eq_true, if_false, if_true] at xstep mstep
  · rcases xstep with x1 | ⟨x2, _, xe⟩ <;> rcases mstep with m1 | ⟨m2, _, me⟩
    · omega
    · have : m.f.source + 8 = x.f.source := by omega
      rw [this, hxo] at me; cases me
    · have : x.f.source + 8 = m.f.source := by omega
      rw [this, hmo] at xe; cases xe
    · omega
  · rcases xstep with x1 | ⟨x2, _, xe⟩ <;> rcases mstep with m1 | ⟨m2, _, me⟩
    · omega
    · have : m.f.source - 8 = x.f.source := by omega
      rw [this, hxo] at me; cases me
    · have : x.f.source - 8 = m.f.source := by omega
      rw [this, hmo] at xe; cases xe
    · omega

theorem push_file {b : Board} {m : Move} (hm : IsPush b m) : m.f.source % 8 = m.f.target % 8 := by
  obtain ⟨_, _, _, m8, m56, mstep⟩ := hm
  cases hw : b.whiteTurn <;> simp only [hw, Bool.false_eq_true, if_false, if_true] at mstep
  · rcases mstep with m1 | ⟨m2, _, _⟩ <;> omega
  · rcases mstep with m1 | ⟨m2, h48, _⟩ <;> omega

/-- **the generator facts hold in every legal position** -/
theorem sanGenFacts_of_wf {b : Board} (h : WF.wf b = true) : SanGenFacts b := by
  have hw := wf_facts h
  have hd : Attack.Disjoint b := (Check.struct_of_wf h).1.disjoint
  refine ⟨?_, ?_, ?_, ?_, ?_, ?_, ?_, ?_, ?_⟩
  · -- piece_range
    intro m hm
    cases origin_of_mem hw hm with
    | piece P s t hP hf => rw [hf]; show 1 ≤ P ∧ P ≤ 6; rcases hP with rfl | rfl | rfl | rfl <;> decide
    | king s t _ _ _ hf => rw [hf]; show 1 ≤ KING ∧ KING ≤ 6; decide
    | capture _ _ _ _ _ _ _ _ _ hf => rw [hf]; show 1 ≤ PAWN ∧ PAWN ≤ 6; decide
    | push _ _ _ _ _ _ _ _ _ _ _ hf => rw [hf]; show 1 ≤ PAWN ∧ PAWN ≤ 6; decide
    | castle _ _ hf => rw [hf]; show 1 ≤ KING ∧ KING ≤ 6; decide
  · -- attacked_le
    intro m hm
    cases origin_of_mem hw hm with
    | piece P s t hP hf => rw [hf]; exact pieceAtMask_le _ _
    | king s t _ _ _ hf => rw [hf]; exact pieceAtMask_le _ _
    | capture _ _ _ _ _ _ _ _ _ hf => rw [hf]; exact pieceAtMask_le _ _
    | push _ _ _ _ _ _ _ _ _ _ _ hf => rw [hf]; exact pieceAtMask_le _ _
    | castle _ _ hf => rw [hf]; exact pieceAtMask_le _ _
  · -- castle_shape
    intro m hm hc
    cases origin_of_mem hw hm with
    | piece P s t hP hf => rw [hf] at hc; cases hc
    | king s t _ _ _ hf => rw [hf] at hc; cases hc
    | capture _ _ _ _ _ _ _ _ _ hf => rw [hf] at hc; cases hc
    | push _ _ _ _ _ _ _ _ _ _ _ hf => rw [hf] at hc; cases hc
    | castle t ht hf =>
      rw [hf]
      refine ⟨rfl, rfl, ?_⟩
      show t = (if b.whiteTurn = true then 60 else 4) + 2 ∨ t + 2 = (if b.whiteTurn = true then 60 else 4)
      exact ht.symm
  · -- king_step
    intro m hm hc hk
    cases origin_of_mem hw hm with
    | piece P s t hP hf =>
      rw [hf] at hk
      have : P = KING := hk
      rcases hP with rfl | rfl | rfl | rfl <;> cases this
    | king s t hs ht hkt hf =>
      rw [Attack.leaperAttacks_eq Geometry.king_tableOK s t hs ht] at hkt
      have := kingGeom_files hkt
      rw [hf]
      show ¬ (s % 8 = 4 ∧ (t % 8 = 2 ∨ t % 8 = 6))
      omega
    | capture _ _ _ _ _ _ _ _ _ hf => rw [hf] at hk; cases hk
    | push _ _ _ _ _ _ _ _ _ _ _ hf => rw [hf] at hk; cases hk
    | castle _ _ hf => rw [hf] at hc; cases hc
  · -- promo_piece
    intro m hm hp
    cases origin_of_mem hw hm with
    | piece P s t hP hf => rw [hf]; rfl
    | king s t _ _ _ hf => rw [hf]; rfl
    | capture _ _ _ _ _ _ _ _ _ hf => rw [hf] at hp; exact absurd rfl hp
    | push _ _ _ _ _ _ _ _ _ _ _ hf => rw [hf] at hp; exact absurd rfl hp
    | castle _ _ hf => rw [hf]; rfl
  · -- promo_pawn
    intro m hm hp
    cases origin_of_mem hw hm with
    | piece P s t hP hf =>
      rw [hf] at hp
      have : P = PAWN := hp
      rcases hP with rfl | rfl | rfl | rfl <;> cases this
    | king s t _ _ _ hf => rw [hf] at hp; cases hp
    | capture s t promo ep _ ht _ _ hpromo hf =>
      rw [hf]
      show (promo = 0 ∧ 8 ≤ t ∧ t < 56) ∨ (2 ≤ promo ∧ promo ≤ 5 ∧ (t < 8 ∨ 56 ≤ t))
      simp only [lastRank, Bool.or_eq_true, decide_eq_true_eq, Bool.or_eq_false_iff, decide_eq_false_iff_not] at hpromo
      omega
    | push s t promo _ _ _ _ ht _ _ hpromo hf =>
      rw [hf]
      show (promo = 0 ∧ 8 ≤ t ∧ t < 56) ∨ (2 ≤ promo ∧ promo ≤ 5 ∧ (t < 8 ∨ 56 ≤ t))
      simp only [lastRank, Bool.or_eq_true, decide_eq_true_eq, Bool.or_eq_false_iff, decide_eq_false_iff_not] at hpromo
      omega
    | castle _ _ hf => rw [hf] at hp; cases hp
  · -- pawn_push_file
    intro m hm hp hpa
    rcases pawn_cases hw hm hp with hc | hpush
    · exact absurd hpa hc.1
    · exact push_file hpush
  · -- pawn_push_only
    intro x hx m hm xp mp ht hpa
    rcases pawn_cases hw hm mp with hc | mpush
    · exact absurd hpa hc.1
    · rcases pawn_cases hw hx xp with xc | xpush
      · exfalso
        obtain ⟨_, mempty, ms, m8, m56, mstep⟩ := mpush
        obtain ⟨_, _, _, xocc⟩ := xc
        rw [ht] at xocc
        rcases xocc with hfull | ⟨hte, hne⟩
        · rw [Bits.testU_or, hfull, Bool.or_true] at mempty; cases mempty
        · -- a push onto the en-passant square would start from the square of the pawn that just moved
          have hok := hw.epOK hne
          cases hwt : b.whiteTurn
          · have ht1 : b.turn ≠ 0 := by simpa [Board.whiteTurn] using hwt
            rw [if_neg ht1] at hok
            simp only [hwt, Bool.false_eq_true, if_false] at mstep
            have hsrc : m.f.source = b.ep - 8 := by
              rcases mstep with m1 | ⟨m2, h16, _⟩ <;> omega
            refine active_passive_pawns hd (b.ep - 8) ⟨by rw [← hsrc]; exact ms, ?_⟩
            simp only [Board.passive, hwt, Bool.false_eq_true, if_false]
            exact hok.2
          · have ht0 : b.turn = 0 := by simpa [Board.whiteTurn] using hwt
            rw [if_pos ht0] at hok
            simp only [hwt, if_true] at mstep
            have hsrc : m.f.source = b.ep + 8 := by
              rcases mstep with m1 | ⟨m2, h48, _⟩ <;> omega
            refine active_passive_pawns hd (b.ep + 8) ⟨by rw [← hsrc]; exact ms, ?_⟩
            simp only [Board.passive, hwt, if_true]
            exact hok.2
      · exact xpush.1
  · -- pawn_same_file
    intro x hx m hm xp mp ht hfile
    rcases pawn_cases hw hx xp with xc | xpush <;> rcases pawn_cases hw hm mp with mc | mpush
    · obtain ⟨_, _, xrow, _⟩ := xc
      obtain ⟨_, _, mrow, _⟩ := mc
      rw [ht] at xrow
      cases hwt : b.whiteTurn <;> simp only [hwt, Bool.false_eq_true, if_false, if_true] at xrow mrow <;> omega
    · exact absurd (by rw [hfile, push_file mpush, ht]) xc.2.1
    · exact absurd (by rw [← hfile, push_file xpush, ht]) mc.2.1
    · exact push_push_source xpush mpush ht


end GeneratorFacts


/-! ## the final statements -/

/-- `uci_to_pgn` accepts the UCI text of every legal move -/
theorem uciToSan_legal_ok {b : Board} (hnd : UciNodup b) {m : Move} (hm : m ∈ genLegal b) :
    ∃ s, (uciToSan b m.uci).1 = .ok s := by
  have hmp := mem_genPseudo_of_legal hm
  have hleg := legal_of_mem_genLegal hm
  rw [uciToSan_eq, rustTrim_uci]
  cases hfind : (genPseudo b).find? (fun x => x.uci == m.uci) with
  | none =>
    exfalso
    have := List.find?_eq_none.mp hfind m hmp
    simp at this
  | some m0 =>
    have hm0 : m0 ∈ genPseudo b := List.mem_of_find?_eq_some hfind
    have hu : m0.uci = m.uci := by simpa using List.find?_some hfind
    have : m0 = m := eq_of_nodup_map Move.uci hnd hm0 hmp hu
    subst this
    have hv : isValid (make b m0) = true := hleg
    simp only [hv, Bool.not_true, Bool.false_eq_true, if_false]
    exact ⟨_, rfl⟩

/-- **round trip**: in a legal position the text written for a legal move is read back as exactly that move -/
theorem san_roundtrip {b : Board} (hwf : WF.wf b = true) (hnd : UciNodup b) {m : Move} (hm : m ∈ genLegal b)
    {s : String} (h : (uciToSan b m.uci).1 = .ok s) : sanToMove b s = some m :=
  san_roundtrip_of_facts hwf hnd (sanGenFacts_of_wf hwf) hm h

/-- the shape written for a legal move -/
def shapeOfMove (b : Board) (m : Move) : SanShape :=
  ⟨sanBodyOf (candSources b (genPseudo b) m.f) m.f, sanSuffix (make b m), []⟩

/-- **the text written for a legal move is a standard SAN shape** -/
theorem uciToSan_standard {b : Board} (hwf : WF.wf b = true) (hnd : UciNodup b) {m : Move} (hm : m ∈ genLegal b)
    {s : String} (h : (uciToSan b m.uci).1 = .ok s) :
    s.toList = renderSan (shapeOfMove b m) ∧ (shapeOfMove b m).standard = true := by
  have hF := sanGenFacts_of_wf hwf
  have hmp := mem_genPseudo_of_legal hm
  refine ⟨uciToSan_shape hwf hnd hF hmp h, ?_⟩
  unfold shapeOfMove SanShape.standard SanShape.wf
  simp only [sanSuffix_ok, List.all_nil, Bool.and_true, List.isEmpty_nil]
  cases hck : castleKind m.f with
  | some long => simp only [sanBodyOf, hck, SanBody.wf, SanBody.standard, Bool.and_self]
  | none =>
    by_cases hpawn : m.f.pieceMoved = PAWN
    · have hpp := hF.promo_pawn m hmp hpawn
      have hpr : optOk isPromoLetter (promoOf m.f) = true := by
        cases hq : promoOf m.f with
        | none => rfl
        | some q =>
          rcases hpp with ⟨h0, _⟩ | ⟨h2, h5, _⟩
          · rw [promoOf_zero h0] at hq; cases hq
          · exact (promoOf_some hq h2 h5).2
      simp only [sanBodyOf, hck, hpawn, beq_self_eq_true, if_true, SanBody.wf, SanBody.standard, optOk_none,
        fileChar_isFile, rankChar_isRank (target_lt m), hpr, Option.isNone_none, Bool.true_and, Bool.and_true]
      cases capturesOf m.f <;> simp [optOk, fileChar_isFile]
    · have hrange := hF.piece_range m hmp
      have h26 : 2 ≤ m.f.pieceMoved ∧ m.f.pieceMoved ≤ 6 := by
        have : m.f.pieceMoved ≠ 1 := hpawn
        omega
      obtain ⟨pc, hpc, _, hpok⟩ := letterOf_piece h26.1 h26.2
      have hpr0 := hF.promo_piece m hmp hpawn
      have hne : (m.f.pieceMoved == PAWN) = false := by simpa using hpawn
      simp only [sanBodyOf, hck, hne, Bool.false_eq_true, if_false, hpc, promoOf_zero hpr0, SanBody.wf,
        SanBody.standard, optOk_some, optOk_none, hpok, fileChar_isFile, rankChar_isRank (target_lt m),
        Option.isNone_none, Bool.true_and, Bool.and_true]
      generalize modelDisamb m.f.source (candSources b (genPseudo b) m.f) false = d
      cases d <;> simp [Disamb.fileOf, Disamb.rankOf, optOk, fileChar_isFile, rankChar_isRank (source_lt m)]


end Inkayaku.SanProofs
