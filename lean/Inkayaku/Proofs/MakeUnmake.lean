import Inkayaku.Model.WF
/-!
# `unmake (make b m) m` restores the chess position (helper for C03)

`MoveOK b f` lists what `makeF`/`unmakeF` need of the move fields `f` in position `b`; `unmake_make` shows that
making and unmaking such a move restores `vis b` (everything except the scratch occupancy word), for every value
of the half-move clock.  `unmakeAll_makeAll` lifts this to lines.

Proof plan: `makeF`/`unmakeF` act on the two sides independently (`mkMover`/`mkOther`, `unMover`/`unOther`);
each side is restored (`unMover_mkMover`, `unOther_mkOther`) by UInt64 bit identities proved bit by bit.
-/
namespace Inkayaku.MakeUnmake
open Inkayaku.Board Inkayaku.WF

/-! ## bit identities -/

theorem u64_ext {a b : UInt64} (h : ∀ i, i < 64 → a.toBitVec.getLsbD i = b.toBitVec.getLsbD i) : a = b :=
  UInt64.eq_of_toBitVec_eq (BitVec.eq_of_getLsbD_eq h)

/-- `x` contains every bit of `m` -/
def has (x m : UInt64) : Prop := x &&& m = m
/-- `x` contains no bit of `m` -/
def lacks (x m : UInt64) : Prop := x &&& m = 0

instance (x m : UInt64) : Decidable (has x m) := by unfold has; exact inferInstance
instance (x m : UInt64) : Decidable (lacks x m) := by unfold lacks; exact inferInstance

/-- closes a UInt64 identity in `x S T` from `has`/`lacks` hypotheses `hS hT`, bit by bit -/
macro "bits3" x:term:max S:term:max T:term:max hS:ident hT:ident : tactic => `(tactic| (
  unfold clearBit
  apply u64_ext; intro i hi
  have hS' := congrArg (fun v => v.toBitVec.getLsbD i) $hS
  have hT' := congrArg (fun v => v.toBitVec.getLsbD i) $hT
  simp only [UInt64.toBitVec_and, UInt64.toBitVec_or, UInt64.toBitVec_not, BitVec.getLsbD_and, BitVec.getLsbD_or,
    BitVec.getLsbD_not, hi, decide_true, Bool.true_and, UInt64.toBitVec_zero, BitVec.getLsbD_zero] at *
  revert hS' hT'
  cases ($x).toBitVec.getLsbD i <;> cases ($S).toBitVec.getLsbD i <;> cases ($T).toBitVec.getLsbD i <;> simp))

/-- ordinary move: `(get | src) & !tgt` after `get & !src | tgt` -/
theorem id_move {x S T : UInt64} (hS : has x S) (hT : lacks x T) : clearBit (clearBit x S ||| T ||| S) T = x := by
  unfold has at hS; unfold lacks at hT
  bits3 x S T hS hT

/-- castling / en passant: `get & !tgt | src` after `get & !src | tgt` -/
theorem id_move' {x S T : UInt64} (hS : has x S) (hT : lacks x T) : clearBit (clearBit x S ||| T) T ||| S = x := by
  unfold has at hS; unfold lacks at hT
  bits3 x S T hS hT

/-- capture: `get | tgt` after `get & !tgt` -/
theorem id_capture {y T : UInt64} (hT : has y T) : clearBit y T ||| T = y := by
  unfold has at hT
  bits3 y T T hT hT

/-- promotion, promoted piece: `get & !tgt` after `get | tgt` -/
theorem id_promo {y T : UInt64} (hT : lacks y T) : clearBit (y ||| T) T = y := by
  unfold lacks at hT
  bits3 y T T hT hT

/-! ## `Side.get` / `Side.set` -/

theorem get_set_self (s : Side) {p : Nat} (hp : p ≤ 6) (v : UInt64) : (s.set p v).get p = v := by
  rcases p with _|_|_|_|_|_|_|p <;> first | rfl | omega

theorem set_set (s : Side) (p : Nat) (v w : UInt64) : (s.set p v).set p w = s.set p w := by
  rcases p with _|_|_|_|_|_|_|p <;> rfl

theorem set_get_self (s : Side) (p : Nat) : s.set p (s.get p) = s := by
  rcases p with _|_|_|_|_|_|_|p <;> rfl

theorem visSide_set_zero (s : Side) (v : UInt64) : visSide (s.set 0 v) = visSide s := rfl

theorem ks_set (s : Side) (p : Nat) (v : UInt64) : (s.set p v).ks = s.ks := by
  rcases p with _|_|_|_|_|_|_|p <;> rfl
theorem qs_set (s : Side) (p : Nat) (v : UInt64) : (s.set p v).qs = s.qs := by
  rcases p with _|_|_|_|_|_|_|p <;> rfl

/-- `s ↦ s.set p (F (s.get p))` only looks at the scratch word to write the scratch word -/
theorem visSide_update_congr {s s' : Side} (h : visSide s = visSide s') (p : Nat) (F : UInt64 → UInt64) :
    visSide (s.set p (F (s.get p))) = visSide (s'.set p (F (s'.get p))) := by
  obtain ⟨a0, a1, a2, a3, a4, a5, a6, a7, a8⟩ := s
  obtain ⟨b0, b1, b2, b3, b4, b5, b6, b7, b8⟩ := s'
  simp only [visSide, Side.mk.injEq, true_and] at h
  obtain ⟨h1, h2, h3, h4, h5, h6, h7, h8⟩ := h
  subst h1 h2 h3 h4 h5 h6 h7 h8
  rcases p with _|_|_|_|_|_|_|p <;> rfl

/-! ## `makeF` / `unmakeF` side by side -/

/-- the en-passant victim's square mask as `make` computes it (`white` = white is moving) -/
def epVictim (white : Bool) (tgtM : UInt64) : UInt64 := if white then tgtM <<< 8 else tgtM >>> 8

def dropRights (s : Side) (k q : Bool) : Side :=
  { s with ks := if k then false else s.ks, qs := if q then false else s.qs }
def giveRights (s : Side) (k q : Bool) : Side :=
  { s with ks := if k then true else s.ks, qs := if q then true else s.qs }

/-- what `makeF` does to the side that moves -/
def mkMover (f : MoveF) (s : Side) : Side :=
  let s := dropRights s f.selfLostKing f.selfLostQueen
  let srcM := bitU f.source
  let tgtM := bitU f.target
  if f.castle then
    match castleRook f.target with
    | some (rs, rt) => { s with rooks := clearBit s.rooks (bitU rs) ||| bitU rt, kings := clearBit s.kings srcM ||| tgtM }
    | none => s
  else if f.enPassant then { s with pawns := clearBit s.pawns srcM ||| tgtM }
  else if f.promotion != NO_PIECE then
    let s := { s with pawns := clearBit s.pawns srcM }
    s.set f.promotion (s.get f.promotion ||| tgtM)
  else s.set f.pieceMoved (clearBit (s.get f.pieceMoved) srcM ||| tgtM)

/-- what `makeF` does to the other side (`white` = white is moving) -/
def mkOther (f : MoveF) (white : Bool) (s : Side) : Side :=
  let s := dropRights s f.oppLostKing f.oppLostQueen
  let tgtM := bitU f.target
  if f.castle then s
  else if f.enPassant then { s with pawns := clearBit s.pawns (epVictim white tgtM) }
  else s.set f.pieceAttacked (clearBit (s.get f.pieceAttacked) tgtM)

/-- what `unmakeF` does to the side that moved -/
def unMover (f : MoveF) (s : Side) : Side :=
  let s := giveRights s f.selfLostKing f.selfLostQueen
  let srcM := bitU f.source
  let tgtM := bitU f.target
  if f.castle then
    match castleRook f.target with
    | some (rs, rt) => { s with rooks := clearBit s.rooks (bitU rt) ||| bitU rs, kings := clearBit s.kings tgtM ||| srcM }
    | none => s
  else if f.enPassant then { s with pawns := clearBit s.pawns tgtM ||| srcM }
  else if f.promotion != NO_PIECE then
    let s := { s with pawns := s.pawns ||| srcM }
    s.set f.promotion (clearBit (s.get f.promotion) tgtM)
  else s.set f.pieceMoved (clearBit (s.get f.pieceMoved ||| srcM) tgtM)

/-- what `unmakeF` does to the other side (`white` = white made the move) -/
def unOther (f : MoveF) (white : Bool) (s : Side) : Side :=
  let s := giveRights s f.oppLostKing f.oppLostQueen
  let tgtM := bitU f.target
  if f.castle then s
  else if f.enPassant then s.set f.pieceAttacked (s.get f.pieceAttacked ||| epVictim white tgtM)
  else s.set f.pieceAttacked (s.get f.pieceAttacked ||| tgtM)

theorem makeF_eq (b : Board) (f : MoveF) : makeF b f =
    { white := if b.whiteTurn then mkMover f b.active else mkOther f b.whiteTurn b.passive
      black := if b.whiteTurn then mkOther f b.whiteTurn b.passive else mkMover f b.active
      turn := 1 - b.turn
      ep := f.nextEp
      fullmove := b.fullmove + b.turn
      halfmove := if f.halfmoveReset then 0 else b.halfmove + 1 } := by
  unfold makeF mkMover mkOther dropRights epVictim
  cases f.castle <;> cases f.enPassant <;> cases (f.promotion != NO_PIECE) <;> cases castleRook f.target <;> rfl

theorem unmakeF_eq (b : Board) (f : MoveF) : unmakeF b f =
    { white := if b.whiteTurn then unOther f (!b.whiteTurn) b.white else unMover f b.white
      black := if b.whiteTurn then unMover f b.black else unOther f (!b.whiteTurn) b.black
      turn := 1 - b.turn
      ep := f.prevEp
      fullmove := b.fullmove - (1 - b.turn)
      halfmove := f.prevHalfmove } := by
  unfold unmakeF unMover unOther giveRights epVictim
  cases b.whiteTurn <;> cases f.castle <;> cases f.enPassant <;> cases (f.promotion != NO_PIECE)
    <;> cases castleRook f.target <;> rfl


/-! ## what a move must satisfy -/

/-- castling: the king stands on the source and not on the target, the rook on its source and not on its target -/
def CastleOK (s : Side) (srcM tgtM : UInt64) : Option (Nat × Nat) → Prop
  | some (rs, rt) => has s.kings srcM ∧ lacks s.kings tgtM ∧ has s.rooks (bitU rs) ∧ lacks s.rooks (bitU rt)
  | none => False    -- the Rust `panic!()` arm

instance (s : Side) (srcM tgtM : UInt64) (o : Option (Nat × Nat)) : Decidable (CastleOK s srcM tgtM o) := by
  cases o with
  | none => exact isFalse (fun h => h)
  | some p => unfold CastleOK; exact inferInstance

/-- the piece words of the moving side `s` fit the kind of move -/
def ShapeOK (s : Side) (src tgt piece promo : Nat) (castle ep : Bool) : Prop :=
  if castle then CastleOK s (bitU src) (bitU tgt) (castleRook tgt)
  else if ep then has s.pawns (bitU src) ∧ lacks s.pawns (bitU tgt)
  else if promo != NO_PIECE then
    2 ≤ promo ∧ promo ≤ 5 ∧ has s.pawns (bitU src) ∧ lacks (s.get promo) (bitU tgt)
  else
    1 ≤ piece ∧ piece ≤ 6 ∧ has (s.get piece) (bitU src) ∧ lacks (s.get piece) (bitU tgt)

/-- requirements on the moving side `s` -/
def MoverOK (f : MoveF) (s : Side) : Prop :=
  (f.selfLostKing = true → s.ks = true) ∧ (f.selfLostQueen = true → s.qs = true) ∧
  ShapeOK s f.source f.target f.pieceMoved f.promotion f.castle f.enPassant

/-- requirements on the other side `s` (`white` = white is moving) -/
def OtherOK (f : MoveF) (white : Bool) (s : Side) : Prop :=
  (f.oppLostKing = true → s.ks = true) ∧ (f.oppLostQueen = true → s.qs = true) ∧
  (if f.castle then True
   else if f.enPassant then f.pieceAttacked = PAWN ∧ has s.pawns (epVictim white (bitU f.target))
   else f.pieceAttacked ≤ 6 ∧ (f.pieceAttacked ≠ NO_PIECE → has (s.get f.pieceAttacked) (bitU f.target)))

/-- what `makeF`/`unmakeF` need of the move fields `f` in position `b` -/
def MoveOK (b : Board) (f : MoveF) : Prop :=
  b.turn ≤ 1 ∧ f.source < 64 ∧ f.target < 64 ∧ f.prevHalfmove = b.halfmove ∧ f.prevEp = b.ep ∧
  MoverOK f b.active ∧ OtherOK f b.whiteTurn b.passive

instance (s : Side) (a b c d : Nat) (e g : Bool) : Decidable (ShapeOK s a b c d e g) := by
  unfold ShapeOK; exact inferInstance
instance (f : MoveF) (s : Side) : Decidable (MoverOK f s) := by unfold MoverOK; exact inferInstance
instance (f : MoveF) (w : Bool) (s : Side) : Decidable (OtherOK f w s) := by unfold OtherOK; exact inferInstance
instance (b : Board) (f : MoveF) : Decidable (MoveOK b f) := by unfold MoveOK; exact inferInstance

/-! ## each side is restored -/

theorem unMover_mkMover {f : MoveF} {s : Side} (h : MoverOK f s) : unMover f (mkMover f s) = s := by
  obtain ⟨hk, hq, h⟩ := h
  unfold ShapeOK at h
  obtain ⟨o0, pawns, knights, bishops, rooks, queens, kings, qs, ks⟩ := s
  simp only at hk hq
  have ek : (if f.selfLostKing = true then true else if f.selfLostKing = true then false else ks) = ks := by
    cases hf : f.selfLostKing <;> simp_all
  have eq : (if f.selfLostQueen = true then true else if f.selfLostQueen = true then false else qs) = qs := by
    cases hf : f.selfLostQueen <;> simp_all
  unfold unMover mkMover giveRights dropRights
  cases hc : f.castle
  · simp only [hc, Bool.false_eq_true, if_false] at h ⊢
    cases he : f.enPassant
    · simp only [he, Bool.false_eq_true, if_false] at h ⊢
      cases hp : (f.promotion != NO_PIECE)
      · simp only [hp, Bool.false_eq_true, if_false] at h ⊢
        obtain ⟨p1, p6, h1, h2⟩ := h
        generalize f.pieceMoved = pm at *
        have : pm = 1 ∨ pm = 2 ∨ pm = 3 ∨ pm = 4 ∨ pm = 5 ∨ pm = 6 := by omega
        rcases this with rfl|rfl|rfl|rfl|rfl|rfl <;>
          (simp only [Side.get, Side.set] at h1 h2 ⊢; simp only [id_move h1 h2, ek, eq])
      · simp only [hp, if_true] at h ⊢
        obtain ⟨p2, p5, h1, h2⟩ := h
        generalize f.promotion = pr at *
        have : pr = 2 ∨ pr = 3 ∨ pr = 4 ∨ pr = 5 := by omega
        rcases this with rfl|rfl|rfl|rfl <;>
          (simp only [Side.get, Side.set] at h2 ⊢; simp only [id_promo h2, id_capture h1, ek, eq])
    · simp only [he, if_true] at h ⊢
      simp only [id_move' h.1 h.2, ek, eq]
  · simp only [hc, if_true] at h ⊢
    cases hr : castleRook f.target with
    | none => rw [hr] at h; exact h.elim
    | some p =>
      rw [hr] at h
      obtain ⟨rs, rt⟩ := p
      obtain ⟨h1, h2, h3, h4⟩ := h
      simp only [id_move' h1 h2, id_move' h3 h4, ek, eq]

theorem unOther_mkOther {f : MoveF} {white : Bool} {s : Side} (h : OtherOK f white s) :
    visSide (unOther f white (mkOther f white s)) = visSide s := by
  obtain ⟨hk, hq, h⟩ := h
  obtain ⟨o0, pawns, knights, bishops, rooks, queens, kings, qs, ks⟩ := s
  simp only at hk hq
  have ek : (if f.oppLostKing = true then true else if f.oppLostKing = true then false else ks) = ks := by
    cases hf : f.oppLostKing <;> simp_all
  have eq : (if f.oppLostQueen = true then true else if f.oppLostQueen = true then false else qs) = qs := by
    cases hf : f.oppLostQueen <;> simp_all
  unfold unOther mkOther giveRights dropRights
  cases hc : f.castle
  · simp only [hc, Bool.false_eq_true, if_false] at h ⊢
    cases he : f.enPassant
    · simp only [he, Bool.false_eq_true, if_false] at h ⊢
      obtain ⟨p6, h1⟩ := h
      generalize f.pieceAttacked = pa at *
      have : pa = 0 ∨ pa = 1 ∨ pa = 2 ∨ pa = 3 ∨ pa = 4 ∨ pa = 5 ∨ pa = 6 := by omega
      rcases this with rfl|rfl|rfl|rfl|rfl|rfl|rfl
      · simp only [Side.get, Side.set, visSide, ek, eq]
      all_goals
        (have h1 := h1 (by decide)
         simp only [Side.get, Side.set] at h1 ⊢; simp only [id_capture h1, ek, eq])
    · simp only [he, if_true] at h ⊢
      obtain ⟨h0, h1⟩ := h
      rw [h0]
      simp only [Side.get, Side.set, PAWN, id_capture h1, ek, eq]
  · simp only [if_true, ek, eq]

/-! ## `unmakeF` does not read the scratch word (except to write the scratch word) -/

theorem unMover_congr (f : MoveF) {s s' : Side} (h : visSide s = visSide s') :
    visSide (unMover f s) = visSide (unMover f s') := by
  obtain ⟨a0, a1, a2, a3, a4, a5, a6, a7, a8⟩ := s
  obtain ⟨b0, b1, b2, b3, b4, b5, b6, b7, b8⟩ := s'
  simp only [visSide, Side.mk.injEq, true_and] at h
  obtain ⟨h1, h2, h3, h4, h5, h6, h7, h8⟩ := h
  subst h1 h2 h3 h4 h5 h6 h7 h8
  unfold unMover giveRights
  cases f.castle
  · cases f.enPassant
    · cases (f.promotion != NO_PIECE)
      · simp only [Bool.false_eq_true, if_false]
        exact visSide_update_congr (by rfl) _ (fun x => clearBit (x ||| bitU f.source) (bitU f.target))
      · simp only [Bool.false_eq_true, if_false, if_true]
        exact visSide_update_congr (by rfl) _ (fun x => clearBit x (bitU f.target))
    · rfl
  · cases castleRook f.target <;> rfl

theorem unOther_congr (f : MoveF) (white : Bool) {s s' : Side} (h : visSide s = visSide s') :
    visSide (unOther f white s) = visSide (unOther f white s') := by
  obtain ⟨a0, a1, a2, a3, a4, a5, a6, a7, a8⟩ := s
  obtain ⟨b0, b1, b2, b3, b4, b5, b6, b7, b8⟩ := s'
  simp only [visSide, Side.mk.injEq, true_and] at h
  obtain ⟨h1, h2, h3, h4, h5, h6, h7, h8⟩ := h
  subst h1 h2 h3 h4 h5 h6 h7 h8
  unfold unOther giveRights
  cases f.castle
  · cases f.enPassant
    · simp only [Bool.false_eq_true, if_false]
      exact visSide_update_congr (by rfl) _ (fun x => x ||| bitU f.target)
    · simp only [Bool.false_eq_true, if_false, if_true]
      exact visSide_update_congr (by rfl) _ (fun x => x ||| epVictim white (bitU f.target))
  · rfl

/-- `unmakeF` respects equality of the visible position -/
theorem unmakeF_congr (f : MoveF) {b b' : Board} (h : vis b = vis b') : vis (unmakeF b f) = vis (unmakeF b' f) := by
  obtain ⟨w, k, t, e, fm, hm⟩ := b
  obtain ⟨w', k', t', e', fm', hm'⟩ := b'
  simp only [vis, Board.mk.injEq] at h
  obtain ⟨hw, hk, rfl, rfl, rfl, rfl⟩ := h
  rw [unmakeF_eq, unmakeF_eq]
  simp only [vis, Board.whiteTurn, Board.mk.injEq, and_true]
  by_cases ht : (t == 0) = true
  · simp only [ht, if_true]
    exact ⟨unOther_congr f _ hw, unMover_congr f hk⟩
  · simp only [ht]
    exact ⟨unMover_congr f hw, unOther_congr f _ hk⟩

/-! ## the board is restored -/

/-- **make then unmake restores the visible position** — for every half-move clock value (no bound is assumed) -/
theorem unmake_make {b : Board} {f : MoveF} (h : MoveOK b f) : vis (unmakeF (makeF b f) f) = vis b := by
  obtain ⟨ht, -, -, hhm, hep, hA, hP⟩ := h
  obtain ⟨w, k, t, e, fm, hm⟩ := b
  simp only at ht hhm hep
  rw [unmakeF_eq, makeF_eq]
  have ht' : t = 0 ∨ t = 1 := by omega
  rcases ht' with rfl | rfl
  · simp only [Board.whiteTurn, Board.active, Board.passive] at hA hP ⊢
    simp only [vis, Board.mk.injEq]
    refine ⟨?_, ?_, trivial, hep, by omega, hhm⟩
    · exact congrArg visSide (unMover_mkMover hA)
    · exact unOther_mkOther hP
  · simp only [Board.whiteTurn, Board.active, Board.passive] at hA hP ⊢
    simp only [vis, Board.mk.injEq]
    refine ⟨?_, ?_, trivial, hep, by omega, hhm⟩
    · exact unOther_mkOther hP
    · exact congrArg visSide (unMover_mkMover hA)

/-! ## lines -/

/-- each move of the line is `MoveOK` in the position reached -/
def LineOK : Board → List MoveF → Prop
  | _, [] => True
  | b, f :: fs => MoveOK b f ∧ LineOK (makeF b f) fs

instance : (b : Board) → (fs : List MoveF) → Decidable (LineOK b fs)
  | _, [] => isTrue trivial
  | b, f :: fs =>
    have := instDecidableLineOK (makeF b f) fs
    by unfold LineOK; exact inferInstance

/-- make the moves first to last -/
def makeAll (b : Board) (fs : List MoveF) : Board := fs.foldl makeF b
/-- unmake the moves last to first -/
def unmakeAll (b : Board) (fs : List MoveF) : Board := fs.foldr (fun f b => unmakeF b f) b

theorem unmakeAll_eq_reverse (b : Board) (fs : List MoveF) : unmakeAll b fs = fs.reverse.foldl unmakeF b := by
  unfold unmakeAll; rw [List.foldl_reverse]

/-- **a whole line made and then unmade in reverse order restores the visible position** (any length) -/
theorem unmakeAll_makeAll {b : Board} {fs : List MoveF} (h : LineOK b fs) :
    vis (unmakeAll (makeAll b fs) fs) = vis b := by
  induction fs generalizing b with
  | nil => rfl
  | cons f fs ih =>
    obtain ⟨h1, h2⟩ := h
    have := ih h2
    simp only [makeAll, unmakeAll, List.foldl_cons, List.foldr_cons] at this ⊢
    rw [unmakeF_congr f this]
    exact unmake_make h1

#print axioms unmake_make
#print axioms unmakeAll_makeAll

end Inkayaku.MakeUnmake
