import Inkayaku.Spec.Rays
import Inkayaku.Model.Magic
import Inkayaku.Proofs.Subsets
/-!
From a finite kernel computation over the sub-occupancies of one square's relevant mask to ALL occupancies.
-/
namespace Inkayaku.MagicLift
open Inkayaku.Rays Inkayaku.Magic Inkayaku.Subsets Inkayaku.Gen

/-- the Boolean check evaluated by the kernel for one square: every subset of the mask bits indexes inside the
table and finds exactly the ray attacks -/
def checkCfg (c : MagicCfg) (rs : List (List Nat)) (bits : List Nat) : Bool :=
  forallSubsets (fun sub => decide (magicIndex c sub < c.len) && (lookup c sub == slideOn sub rs)) bits 0

theorem scan_congr (occ occ' : Nat) (l : List Nat)
    (h : ∀ s ∈ l.dropLast, occ.testBit s = occ'.testBit s) : scan occ l = scan occ' l := by
  induction l with
  | nil => rfl
  | cons a t ih =>
    cases t with
    | nil => rfl
    | cons b t' =>
      simp only [scan]
      have ha : occ.testBit a = occ'.testBit a := h a (by simp [List.dropLast])
      have hrest : ∀ s ∈ (b :: t').dropLast, occ.testBit s = occ'.testBit s := by
        intro s hs
        apply h
        simp only [List.dropLast_cons_cons, List.mem_cons]
        exact Or.inr hs
      rw [ha, ih hrest]

theorem foldl_scan_congr (occ occ' : Nat) (rs : List (List Nat)) (acc : Nat)
    (h : ∀ r ∈ rs, ∀ s ∈ r.dropLast, occ.testBit s = occ'.testBit s) :
    rs.foldl (fun acc r => acc ||| scan occ r) acc = rs.foldl (fun acc r => acc ||| scan occ' r) acc := by
  induction rs generalizing acc with
  | nil => rfl
  | cons r rs ih =>
    simp only [List.foldl_cons]
    rw [scan_congr occ occ' r (h r (by simp))]
    exact ih _ (fun r' hr' => h r' (by simp [hr']))

theorem slideOn_congr (occ occ' : Nat) (rs : List (List Nat))
    (h : ∀ r ∈ rs, ∀ s ∈ r.dropLast, occ.testBit s = occ'.testBit s) : slideOn occ rs = slideOn occ' rs :=
  foldl_scan_congr occ occ' rs 0 h

theorem magicIndex_and_mask (c : MagicCfg) (occ : Nat) : magicIndex c (occ &&& c.mask) = magicIndex c occ := by
  simp only [magicIndex, Nat.and_assoc, Nat.and_self]

/-- **Lifting.** If the kernel check succeeds for configuration `c` with the ray lists `rs` of square `sq` and the
bit positions `bits` of the mask, and the mask contains every square whose occupancy matters, then for EVERY
natural number `occ` (in particular every 64-bit occupancy) the index is inside the table and the entry found is
the ray attack set. -/
theorem magic_lift (c : MagicCfg) (sq : Nat) (dirs : List Dir) (rs : List (List Nat)) (bits : List Nat)
    (hrs : rays sq dirs = rs) (hbits : maskOf bits = c.mask)
    (hrel : (rs.all fun r => r.dropLast.all c.mask.testBit) = true)
    (hchk : checkCfg c rs bits = true) (occ : Nat) :
    magicIndex c occ < c.len ∧ lookup c occ = slide dirs sq occ := by
  have h := forall_occ _ bits hchk occ
  rw [hbits] at h
  simp only [Bool.and_eq_true, decide_eq_true_eq, beq_iff_eq] at h
  obtain ⟨h1, h2⟩ := h
  have hcongr : slideOn (occ &&& c.mask) rs = slideOn occ rs := by
    apply slideOn_congr
    intro r hr s hs
    have : c.mask.testBit s = true := by
      rw [List.all_eq_true] at hrel
      have := hrel r hr
      rw [List.all_eq_true] at this
      exact this s hs
    simp [Nat.testBit_and, this]
  refine ⟨?_, ?_⟩
  · rw [← magicIndex_and_mask]; exact h1
  · unfold lookup at h2 ⊢
    rw [magicIndex_and_mask] at h2
    rw [h2, hcongr, slide, hrs]

end Inkayaku.MagicLift
