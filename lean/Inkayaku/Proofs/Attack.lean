import Inkayaku.Model.Abs
import Inkayaku.Model.WF
import Inkayaku.Props.C04
import Inkayaku.Proofs.Bits
import Inkayaku.Proofs.Geometry
/-!
# `_is_square_in_check` is "attacked by an enemy piece under the rules of chess"

The reverse lookup of the bitboard code (magic rook/bishop lookups and the knight/pawn/king tables, all taken FROM
the king's square) is related to `Spec.attacked` on the abstracted mailbox position:

* the magic lookups are ray walks (`C04.rook_correct_u64`, `C04.bishop_correct_u64`), ray walks are "on the line and
  nothing strictly between" (`Geometry.slide_rev_iff`), the leaper tables are the Spec's step geometry
  (`Geometry.table_spec`) and all relations are symmetric – for pawns with the colours swapped, which is why the
  lookup with the king's OWN colour pawn table finds the enemy pawns that attack it;
* the piece standing on a square of the abstracted position is given by the piece words when the twelve words are
  pairwise disjoint (`pieceOn_iff`).
-/
namespace Inkayaku.Attack
open Inkayaku.Board Inkayaku.Bits Inkayaku.Geometry

/-! ## Disjoint piece words and the abstraction -/

def sideWords (s : Side) : List UInt64 := [s.pawns, s.knights, s.bishops, s.rooks, s.queens, s.kings]

/-- the twelve piece words are pairwise disjoint: the first conjunct of `WF.wf` -/
def Disjoint (b : Board) : Prop := WF.disjointAll (sideWords b.white ++ sideWords b.black) = true

instance (b : Board) : Decidable (Disjoint b) := by unfold Disjoint; infer_instance

def Excl (t : Nat) (x y : UInt64) : Prop := ¬ (testU x t = true ∧ testU y t = true)

theorem go_spec (acc : UInt64) (xs : List UInt64) (h : WF.disjointAll.go acc xs = true) (t : Nat) :
    (∀ x ∈ xs, Excl t acc x) ∧ xs.Pairwise (Excl t) := by
  induction xs generalizing acc with
  | nil => simp
  | cons x rest ih =>
    simp only [WF.disjointAll.go, Bool.and_eq_true, beq_iff_eq] at h
    obtain ⟨h0, hrest⟩ := h
    obtain ⟨ih1, ih2⟩ := ih _ hrest
    have hax : Excl t acc x := by
      intro hxy
      exact (and_eq_zero_iff acc x).mp h0 t (testU_lt hxy.1) hxy
    refine ⟨?_, ?_⟩
    · intro y hy
      rcases List.mem_cons.mp hy with rfl | hy
      · exact hax
      · intro hxy
        exact ih1 y hy ⟨by simp [testU_or, hxy.1], hxy.2⟩
    · rw [List.pairwise_cons]
      refine ⟨?_, ih2⟩
      intro y hy hxy
      exact ih1 y hy ⟨by simp [testU_or, hxy.1], hxy.2⟩

theorem Disjoint.pairwise {b : Board} (h : Disjoint b) (t : Nat) :
    (sideWords b.white ++ sideWords b.black).Pairwise (Excl t) := (go_spec 0 _ h t).2

/-- `get_piece_const_by_square_shift` returns 0 exactly on the squares not in the side's occupancy -/
theorem pieceAt_zero (s : Side) (t : Nat) (ht : t < 64) : s.pieceAt t = 0 ↔ testU s.full t = false := by
  simp only [Side.pieceAt, Side.pieceAtMask, and_bitU_ne_zero _ t ht, Side.full, testU_or]
  generalize testU s.pawns t = p
  generalize testU s.knights t = n
  generalize testU s.bishops t = bi
  generalize testU s.rooks t = r
  generalize testU s.queens t = q
  generalize testU s.kings t = k
  cases p <;> cases n <;> cases bi <;> cases r <;> cases q <;> cases k <;>
    simp [PAWN, KNIGHT, BISHOP, ROOK, QUEEN, KING, NO_PIECE]

theorem pieceAt_spec (s : Side) (t : Nat) (ht : t < 64) (hd : (sideWords s).Pairwise (Excl t)) :
    (s.pieceAt t = 1 ↔ testU s.pawns t = true) ∧ (s.pieceAt t = 2 ↔ testU s.knights t = true) ∧
    (s.pieceAt t = 3 ↔ testU s.bishops t = true) ∧ (s.pieceAt t = 4 ↔ testU s.rooks t = true) ∧
    (s.pieceAt t = 5 ↔ testU s.queens t = true) ∧ (s.pieceAt t = 6 ↔ testU s.kings t = true) ∧
    s.pieceAt t ≤ 6 := by
  simp only [sideWords, List.pairwise_cons, List.mem_cons, List.not_mem_nil, or_false, forall_eq_or_imp, forall_eq,
    Excl, List.Pairwise.nil, and_true] at hd
  simp only [Side.pieceAt, Side.pieceAtMask, and_bitU_ne_zero _ t ht]
  generalize testU s.pawns t = p at *
  generalize testU s.knights t = n at *
  generalize testU s.bishops t = bi at *
  generalize testU s.rooks t = r at *
  generalize testU s.queens t = q at *
  generalize testU s.kings t = k at *
  revert hd
  cases p <;> cases n <;> cases bi <;> cases r <;> cases q <;> cases k <;>
    simp [PAWN, KNIGHT, BISHOP, ROOK, QUEEN, KING, NO_PIECE]

theorem pieceAt_code (s : Side) (t : Nat) (ht : t < 64) (hd : (sideWords s).Pairwise (Excl t)) (k : Spec.Kind) :
    s.pieceAt t = Abs.kindCode k ↔ testU (s.get (Abs.kindCode k)) t = true := by
  obtain ⟨h1, h2, h3, h4, h5, h6, _⟩ := pieceAt_spec s t ht hd
  cases k <;> simp only [Abs.kindCode, Side.get] <;> assumption

theorem kind_code (n : Nat) (hn : n ≤ 6) (k : Spec.Kind) : (n ≠ 0 ∧ Abs.kindOf n = k) ↔ n = Abs.kindCode k := by
  have : n = 0 ∨ n = 1 ∨ n = 2 ∨ n = 3 ∨ n = 4 ∨ n = 5 ∨ n = 6 := by omega
  rcases this with rfl | rfl | rfl | rfl | rfl | rfl | rfl <;> cases k <;> simp [Abs.kindOf, Abs.kindCode]

theorem full_iff (s : Side) (t : Nat) : testU s.full t = true ↔ ∃ x ∈ sideWords s, testU x t = true := by
  simp only [Side.full, testU_or, Bool.or_eq_true, sideWords, List.mem_cons, List.not_mem_nil, or_false,
    exists_eq_or_imp, exists_eq_left]
  constructor
  · rintro (((((h | h) | h) | h) | h) | h) <;> simp [h]
  · rintro (h | h | h | h | h | h) <;> simp [h]

theorem get_mem (s : Side) (k : Spec.Kind) : s.get (Abs.kindCode k) ∈ sideWords s := by
  cases k <;> simp [Abs.kindCode, Side.get, sideWords]

/-- the side holding the pieces of colour `white` -/
def sideOf (b : Board) (white : Bool) : Side := if white then b.white else b.black

/-- the occupancy word of the pieces of colour `white` and kind `k` -/
def word (b : Board) (white : Bool) (k : Spec.Kind) : UInt64 := (sideOf b white).get (Abs.kindCode k)

/-- on disjoint words the abstracted square holds piece (`w`, `k`) iff the word of (`w`, `k`) has the bit -/
theorem pieceOn_iff (b : Board) (t : Nat) (ht : t < 64)
    (hp : (sideWords b.white ++ sideWords b.black).Pairwise (Excl t)) (w : Bool) (k : Spec.Kind) :
    Abs.pieceOn b t = some ⟨w, k⟩ ↔ testU (word b w k) t = true := by
  rw [List.pairwise_append] at hp
  obtain ⟨hw, hk, hcross⟩ := hp
  have hwc := pieceAt_code b.white t ht hw k
  have hkc := pieceAt_code b.black t ht hk k
  have hw0 := pieceAt_zero b.white t ht
  have hw6 := (pieceAt_spec b.white t ht hw).2.2.2.2.2.2
  have hk6 := (pieceAt_spec b.black t ht hk).2.2.2.2.2.2
  have hwk := kind_code _ hw6 k
  have hkk := kind_code _ hk6 k
  cases w
  · -- a black piece: the white lookup must find nothing
    simp only [word, sideOf, Bool.false_eq_true, if_false]
    rw [← hkc, ← hkk]
    unfold Abs.pieceOn
    by_cases hz : b.white.pieceAt t = 0
    · simp [hz]
    · have hfull : testU b.white.full t = true := by
        cases h : testU b.white.full t
        · exact absurd (hw0.mpr h) hz
        · rfl
      obtain ⟨x, hx, hxt⟩ := (full_iff _ _).mp hfull
      simp only [bne_iff_ne, ne_eq, hz, not_false_eq_true, if_true, Option.some.injEq, Spec.Piece.mk.injEq,
        Bool.true_eq_false, false_and, false_iff]
      rintro ⟨_, hk'⟩
      have := (hkk.mp ⟨‹_›, hk'⟩)
      exact hcross x hx _ (get_mem b.black k) ⟨hxt, hkc.mp this⟩
  · simp only [word, sideOf, if_true]
    rw [← hwc, ← hwk]
    unfold Abs.pieceOn
    by_cases hz : b.white.pieceAt t = 0
    · simp [hz]
    · simp [hz]

theorem abs_at (b : Board) (t : Nat) : (Abs.abs b).at t = if t < 64 then Abs.pieceOn b t else none := by
  simp only [Spec.Pos.at, Abs.abs]
  split
  · rename_i h; simp [Array.getD, h]
  · rename_i h; simp [Array.getD, h]

theorem at_iff (b : Board) (hd : Disjoint b) (t : Nat) (ht : t < 64) (w : Bool) (k : Spec.Kind) :
    (Abs.abs b).at t = some ⟨w, k⟩ ↔ testU (word b w k) t = true := by
  rw [abs_at, if_pos ht]
  exact pieceOn_iff b t ht (hd.pairwise t) w k

/-- the union of all piece words is the set of occupied squares of the abstracted position (no disjointness needed) -/
theorem at_isSome (b : Board) (q : Nat) :
    ((Abs.abs b).at q).isSome = testU (b.white.full ||| b.black.full) q := by
  rw [abs_at]
  split
  · rename_i hq
    have hw := pieceAt_zero b.white q hq
    have hk := pieceAt_zero b.black q hq
    rw [testU_or]
    unfold Abs.pieceOn
    by_cases h1 : b.white.pieceAt q = 0
    · by_cases h2 : b.black.pieceAt q = 0
      · simp [h1, h2, hw.mp h1, hk.mp h2]
      · have : testU b.black.full q = true := by
          cases h : testU b.black.full q
          · exact absurd (hk.mpr h) h2
          · rfl
        simp [h1, h2, this]
    · have : testU b.white.full q = true := by
        cases h : testU b.white.full q
        · exact absurd (hw.mpr h) h1
        · rfl
      simp [h1, this]
  · rename_i hq
    cases h : testU (b.white.full ||| b.black.full) q
    · rfl
    · exact absurd (testU_lt h) hq

/-! ## The lookups in the vocabulary of the Spec -/

theorem rookAttacks_iff (s t : Nat) (occ : UInt64) (hs : s < 64) (ht : t < 64) :
    testU (rookAttacks s occ) t = true ↔ rookLine t s = true ∧ ∀ q ∈ between t s, testU occ q = false := by
  unfold rookAttacks
  rw [testU_ofNat _ _ ht, (C04.rook_correct_u64 s hs occ).2]
  exact slide_rev_iff rook_rayOK rook_lineOK rook_symOK s t occ.toNat hs ht

theorem bishopAttacks_iff (s t : Nat) (occ : UInt64) (hs : s < 64) (ht : t < 64) :
    testU (bishopAttacks s occ) t = true ↔ bishLine t s = true ∧ ∀ q ∈ between t s, testU occ q = false := by
  unfold bishopAttacks
  rw [testU_ofNat _ _ ht, (C04.bishop_correct_u64 s hs occ).2]
  exact slide_rev_iff bishop_rayOK bishop_lineOK bishop_symOK s t occ.toNat hs ht

/-- forward reading of a leaper table: the entry of `a` holds the squares a piece on `a` attacks -/
theorem leaperAttacks_eq {tbl : List Nat} {geom : Nat → Nat → Bool} (h : tableOK tbl geom = true)
    (a t : Nat) (ha : a < 64) (ht : t < 64) : testU (leaperAttacks tbl a) t = geom a t := by
  unfold leaperAttacks
  rw [testU_ofNat _ _ ht, table_spec h ha ht]

section
variable (b : Board) (occ : UInt64) (hocc : ∀ q, testU occ q = testU (b.white.full ||| b.black.full) q)
include hocc

theorem clear_iff (a c : Nat) :
    Spec.clearBetween (Abs.abs b) a c = true ↔ ∀ q ∈ between a c, testU occ q = false := by
  rw [clearBetween_eq, List.all_eq_true]
  constructor
  · intro h q hq
    have := h q hq
    rw [hocc, ← at_isSome]
    cases hh : (Abs.abs b).at q <;> simp_all
  · intro h q hq
    have := h q hq
    rw [hocc, ← at_isSome] at this
    cases hh : (Abs.abs b).at q <;> simp_all

theorem geom_rook (w : Bool) (s t : Nat) (hs : s < 64) (ht : t < 64) :
    testU (rookAttacks s occ) t = true ↔ Spec.attacksGeom (Abs.abs b) .rook w t s = true := by
  rw [rookAttacks_iff s t occ hs ht, attacksGeom_rook, Bool.and_eq_true, clear_iff b occ hocc]

theorem geom_bishop (w : Bool) (s t : Nat) (hs : s < 64) (ht : t < 64) :
    testU (bishopAttacks s occ) t = true ↔ Spec.attacksGeom (Abs.abs b) .bishop w t s = true := by
  rw [bishopAttacks_iff s t occ hs ht, attacksGeom_bishop, Bool.and_eq_true, clear_iff b occ hocc]

theorem geom_queen (w : Bool) (s t : Nat) (hs : s < 64) (ht : t < 64) :
    (testU (rookAttacks s occ) t = true ∨ testU (bishopAttacks s occ) t = true) ↔
      Spec.attacksGeom (Abs.abs b) .queen w t s = true := by
  rw [rookAttacks_iff s t occ hs ht, bishopAttacks_iff s t occ hs ht, attacksGeom_queen, Bool.and_eq_true,
    Bool.or_eq_true, clear_iff b occ hocc]
  constructor
  · rintro (⟨h1, h2⟩ | ⟨h1, h2⟩)
    · exact ⟨Or.inl h1, h2⟩
    · exact ⟨Or.inr h1, h2⟩
  · rintro ⟨h1 | h1, h2⟩
    · exact Or.inl ⟨h1, h2⟩
    · exact Or.inr ⟨h1, h2⟩

end

theorem geom_knight (p : Spec.Pos) (w : Bool) (s t : Nat) (hs : s < 64) (ht : t < 64) :
    testU (leaperAttacks Gen.knightTable s) t = Spec.attacksGeom p .knight w t s := by
  rw [leaperAttacks_eq knight_tableOK s t hs ht, attacksGeom_knight, rel_symm knight_relSymOK hs ht]

theorem geom_king (p : Spec.Pos) (w : Bool) (s t : Nat) (hs : s < 64) (ht : t < 64) :
    testU (leaperAttacks Gen.kingTable s) t = Spec.attacksGeom p .king w t s := by
  rw [leaperAttacks_eq king_tableOK s t hs ht, attacksGeom_king, rel_symm king_relSymOK hs ht]

/-- the pawn lookup with the table of the king's own colour `c` finds the pawns of the OTHER colour attacking `s` -/
theorem geom_pawn (p : Spec.Pos) (c s t : Nat) (hs : s < 64) (ht : t < 64) :
    testU (leaperAttacks (if c == 0 then Gen.whitePawnTable else Gen.blackPawnTable) s) t =
      Spec.attacksGeom p .pawn (c != 0) t s := by
  rw [attacksGeom_pawn]
  by_cases hc : c = 0
  · subst hc
    simp only [BEq.rfl, if_true, bne_self_eq_false]
    rw [leaperAttacks_eq whitePawn_tableOK s t hs ht, rel_symm pawn_relSymOK hs ht]
  · have h1 : (c == 0) = false := by simpa using hc
    have h2 : (c != 0) = true := by simpa using hc
    simp only [h1, h2, Bool.false_eq_true, if_false]
    rw [leaperAttacks_eq blackPawn_tableOK s t hs ht, rel_symm pawn_relSymOK ht hs]

/-! ## `_is_square_in_check` -/

theorem squareInCheck_eq_or (c : Nat) (p : Side) (s : Nat) (occ : UInt64) :
    squareInCheck c p s occ =
      ((rookAttacks s occ &&& (p.rooks ||| p.queens) != 0)
      || (bishopAttacks s occ &&& (p.bishops ||| p.queens) != 0)
      || (leaperAttacks Gen.knightTable s &&& p.knights != 0)
      || (leaperAttacks (if c == 0 then Gen.whitePawnTable else Gen.blackPawnTable) s &&& p.pawns != 0)
      || (leaperAttacks Gen.kingTable s &&& p.kings != 0)) := by
  unfold squareInCheck
  repeat' split
  all_goals simp_all

theorem attacked_iff (p : Spec.Pos) (w : Bool) (s : Nat) :
    Spec.attacked p w s = true ↔
      ∃ t, t < 64 ∧ ∃ k, p.at t = some ⟨w, k⟩ ∧ Spec.attacksGeom p k w t s = true := by
  unfold Spec.attacked
  rw [List.any_eq_true]
  constructor
  · rintro ⟨t, ht, h⟩
    refine ⟨t, List.mem_range.mp ht, ?_⟩
    cases hp : p.at t with
    | none => simp [hp] at h
    | some pc =>
      obtain ⟨pw, pk⟩ := pc
      simp only [hp, Bool.and_eq_true, beq_iff_eq] at h
      obtain ⟨h1, h2⟩ := h
      subst h1
      exact ⟨pk, rfl, h2⟩
  · rintro ⟨t, ht, k, hp, hg⟩
    exact ⟨t, List.mem_range.mpr ht, by simp [hp, hg]⟩

/-- **Item 5 (general occupancy word).**  `c` is the colour of the (would-be) king on `s` (0 = white), the attackers
are the pieces of the other colour `c != 0` (`true` = white attackers); `occ` is any word with the same squares as
the union of the twelve piece words. -/
theorem squareInCheck_iff_occ (b : Board) (hd : Disjoint b) (c s : Nat) (hs : s < 64) (occ : UInt64)
    (hocc : ∀ q, testU occ q = testU (b.white.full ||| b.black.full) q) :
    squareInCheck c (sideOf b (c != 0)) s occ = Spec.attacked (Abs.abs b) (c != 0) s := by
  rw [Bool.eq_iff_iff, squareInCheck_eq_or, attacked_iff]
  simp only [Bool.or_eq_true, and_ne_zero_iff, testU_or]
  have hat : ∀ t, t < 64 → ∀ k, (Abs.abs b).at t = some ⟨c != 0, k⟩ ↔
      testU ((sideOf b (c != 0)).get (Abs.kindCode k)) t = true := fun t ht k => at_iff b hd t ht _ k
  generalize sideOf b (c != 0) = P at *
  constructor
  · rintro ((((⟨t, ht, hr, hx⟩ | ⟨t, ht, hr, hx⟩) | ⟨t, ht, hr, hx⟩) | ⟨t, ht, hr, hx⟩) | ⟨t, ht, hr, hx⟩)
    · rcases hx with hx | hx
      · exact ⟨t, ht, .rook, (hat t ht .rook).mpr hx, (geom_rook b occ hocc _ s t hs ht).mp hr⟩
      · exact ⟨t, ht, .queen, (hat t ht .queen).mpr hx, (geom_queen b occ hocc _ s t hs ht).mp (Or.inl hr)⟩
    · rcases hx with hx | hx
      · exact ⟨t, ht, .bishop, (hat t ht .bishop).mpr hx, (geom_bishop b occ hocc _ s t hs ht).mp hr⟩
      · exact ⟨t, ht, .queen, (hat t ht .queen).mpr hx, (geom_queen b occ hocc _ s t hs ht).mp (Or.inr hr)⟩
    · exact ⟨t, ht, .knight, (hat t ht .knight).mpr hx, by rw [← geom_knight _ _ s t hs ht]; exact hr⟩
    · exact ⟨t, ht, .pawn, (hat t ht .pawn).mpr hx, by rw [← geom_pawn _ c s t hs ht]; exact hr⟩
    · exact ⟨t, ht, .king, (hat t ht .king).mpr hx, by rw [← geom_king _ _ s t hs ht]; exact hr⟩
  · rintro ⟨t, ht, k, hp, hg⟩
    have hbit := (hat t ht k).mp hp
    cases k with
    | pawn =>
      rw [← geom_pawn _ c s t hs ht] at hg
      exact Or.inl (Or.inr ⟨t, ht, hg, hbit⟩)
    | knight =>
      rw [← geom_knight _ _ s t hs ht] at hg
      exact Or.inl (Or.inl (Or.inr ⟨t, ht, hg, hbit⟩))
    | bishop =>
      exact Or.inl (Or.inl (Or.inl (Or.inr
        ⟨t, ht, (geom_bishop b occ hocc _ s t hs ht).mpr hg, Or.inl hbit⟩)))
    | rook =>
      exact Or.inl (Or.inl (Or.inl (Or.inl
        ⟨t, ht, (geom_rook b occ hocc _ s t hs ht).mpr hg, Or.inl hbit⟩)))
    | queen =>
      rcases (geom_queen b occ hocc _ s t hs ht).mpr hg with hr | hr
      · exact Or.inl (Or.inl (Or.inl (Or.inl ⟨t, ht, hr, Or.inr hbit⟩)))
      · exact Or.inl (Or.inl (Or.inl (Or.inr ⟨t, ht, hr, Or.inr hbit⟩)))
    | king =>
      rw [← geom_king _ _ s t hs ht] at hg
      exact Or.inr ⟨t, ht, hg, hbit⟩

/-- **Item 5.**  For a board with pairwise disjoint piece words, every colour `c` of the would-be king (0 = white,
anything else = black, as in the Rust test `color == WHITE`) and every square `s < 64`: `_is_square_in_check`, called
with the enemy side of `c` and the union of all piece words, says whether `s` is attacked by a piece of the enemy
colour (`c != 0` is `true` iff the attackers are white) under the rules. -/
theorem squareInCheck_iff (b : Board) (hd : Disjoint b) (c s : Nat) (hs : s < 64) :
    squareInCheck c (sideOf b (c != 0)) s (b.white.full ||| b.black.full) =
      Spec.attacked (Abs.abs b) (c != 0) s :=
  squareInCheck_iff_occ b hd c s hs _ (fun _ => rfl)

end Inkayaku.Attack
