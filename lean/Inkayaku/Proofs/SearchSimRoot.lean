import Inkayaku.Proofs.SearchSimNode
import Inkayaku.Props.C08
/-!
# C08, simulation step 4c: the root search, iterative deepening, `go`

* `rootSearch_sim` – iteration `D` (table left by the iterations `< D`: `SOK b0 (D − 1)`): the value returned by
                     `Search.negamax (fuelFor D) s 0 D lossScore winScore …` is `specValue D b0`, the move returned is one
                     of `specBestMoves D b0`, the board is restored, the table invariant holds for `D`;
* `deepen_sim`     – the iterations `d, d+1, …, dmax ≤ 3` all complete and the last one is reported;
* `goCmd_sim`      – `go depth d` (`1 ≤ d ≤ 3`) from a state with a fresh repetition history and a virtual clock that
                     stands still reports `specValue d b` and announces a move of `specBestMoves d b`.
-/
namespace Inkayaku.SearchSim
open Inkayaku.Board Inkayaku.Eval Inkayaku.WF Inkayaku.BoardCongr Inkayaku.Minimax Inkayaku.SpecSearch Inkayaku.Search

theorem Hyp.mono {b0 : Board} {D D' : Nat} (h : Hyp b0 D) (hle : D' ≤ D) : Hyp b0 D' :=
  ⟨h.inj.mono hle, h.nz.mono hle, h.qb.mono hle, Nat.le_trans hle h.hD, by have := h.nowrap; omega,
    Inv_mono hle h.rootInv⟩

/-- **the root search of iteration `D`** -/
theorem rootSearch_sim {b0 : Board} {D : Nat} (hD1 : 1 ≤ D) (H : Hyp b0 D) (s : St) (hb : vis s.board = vis b0)
    (hinv : Inv (fuelFor D) b0) (hsok : SOK b0 (D - 1) s) (hlegal : genLegal b0 ≠ [])
    (hN : NoIntr s (rootSearch s D).2.negamaxNodes) :
    (rootSearch s D).1.value = specValue D b0 ∧
    (∃ m, (rootSearch s D).1.mv = some m ∧ m.uci ∈ specBestMoves D b0) ∧
    vis (rootSearch s D).2.board = vis b0 ∧ SOK b0 D (rootSearch s D).2 := by
  have hw := winScore_val
  have hl := lossScore_val
  have hlegal' : genLegal s.board ≠ [] := by rw [genLegal_congr hb]; exact hlegal
  have hpost := negamax_sim H (fuelFor D) s 0 lossScore Gen.winScore s.pv.isSome (Zobrist.hash s.board)
    (Zobrist.pawnHash s.board) (Nat.zero_le _) hb (Inv_congr hb.symm hinv) (by unfold fuelFor; omega)
    (hsok.mono (by omega)) rfl (fun _ => hlegal') (Int.le_refl _) (by omega) (by omega) hN
  obtain ⟨hok, hvis, hsok', hch⟩ := hpost
  change Ok _ (rootSearch s D).1.value _ _ at hok
  change vis (rootSearch s D).2.board = _ at hvis
  change SOK b0 D (rootSearch s D).2 at hsok'
  change _ → _ → _ → _ < (rootSearch s D).1.value → (rootSearch s D).1.value < _ →
    ChosenC s.board (D - 0 - 1) (rootSearch s D).1.mv (rootSearch s D).1.value at hch
  rw [Nat.sub_zero, mm_congr D s.board b0 [] hb] at hok
  obtain ⟨d, rfl⟩ : ∃ d, D = d + 1 := ⟨D - 1, by omega⟩
  have hP := (MakeWf.wf_iff b0).mp hinv.wf
  have hnw := H.nowrap
  have hsmall : Small b0 (d + 1) := by
    refine ⟨hP.turn, ?_⟩
    have := hP.fm1
    unfold ply2 at hnw
    omega
  have hne : (rootMoves b0 []).isEmpty = false := by
    have : rootMoves b0 [] = genLegal b0 := moves_nil b0
    rw [this]
    cases hg : genLegal b0 with
    | nil => exact absurd hg hlegal
    | cons _ _ => rfl
  obtain ⟨hlo, hhi⟩ := root_bounds d b0 [] hsmall hP.fm1 hne
  obtain ⟨a1, a2, a3⟩ := hok
  have hval : (rootSearch s (d + 1)).1.value = mm game (d + 1) (b0, []) := by
    by_cases x : (rootSearch s (d + 1)).1.value ≤ lossScore
    · have := a1 x; omega
    · by_cases y : Gen.winScore ≤ (rootSearch s (d + 1)).1.value
      · have := a2 y; omega
      · exact a3 (by omega) (by omega)
  refine ⟨by rw [C08.specValue_eq_mm]; exact hval, ?_, hvis.trans hb, hsok'⟩
  -- the move
  have hfresh : TTRootFresh s (Zobrist.hash s.board) (d + 1 - 0) := by
    intro e he
    have hinj : HashInj b0 (d + 1 - 1) := H.inj.mono (by omega)
    have h0 : Reach b0 0 s.board := hb
    have := ttok_entry hsok.tt hinj (Nat.zero_le _) h0 he
    omega
  obtain ⟨m, hm1, hm2, hm3⟩ := hch hfresh (by omega) hlegal' (by omega) (by omega)
  refine ⟨m, hm1, ?_⟩
  show m.uci ∈ specBestMovesOnly (d + 1) b0 []
  rw [C08.specBestMoves_eq_optimal d b0 []]
  refine List.mem_map.mpr ⟨m, ?_, rfl⟩
  unfold optimalMoves
  simp only [List.mem_filter, beq_iff_eq]
  refine ⟨by rw [game_moves, ← genLegal_congr hb]; exact hm2, ?_⟩
  show - mm game d (make b0 m, []) = _
  rw [← hval, ← hm3, show d + 1 - 0 - 1 = d from by omega, mm_congr d _ _ [] (make_congr hb m)]

/-! ## iterative deepening -/

theorem iterState_completed (r : VM × St) (d : Nat) (sc : Option Score) (u : Option (List Move))
    (h : iterAborted r = false) :
    iterState r d sc u =
      ({ r.2 with pv := some r.1.pv } : St).emit
        (.info (some d) (some (r.2.elapsedNs / 1000000)) r.2.totalNodes (some (scoreFromValue r.1.value r.2.board))
          (some r.1.pv)) := by
  unfold iterState
  rw [h]
  rfl

theorem elapsedNs_none {s : St} (h : s.nsPerNode = none) : s.elapsedNs = 0 := by
  unfold St.elapsedNs
  rw [h]

/-- the iterations `d … dmax` all complete; the result is the root result of iteration `dmax` -/
theorem deepen_sim {b0 : Board} {dmax : Nat} (H : Hyp b0 dmax) (hinv : Inv (fuelFor dmax) b0)
    (hlegal : genLegal b0 ≠ []) :
    ∀ (n d : Nat) (s : St) (mt : Nat) (best : Option VM) (u : Option (List Move)) (sc : Option Score),
      1 ≤ d → d + n = dmax → vis s.board = vis b0 → SOK b0 (d - 1) s → s.nsPerNode = none →
      NoIntr s (deepen (n + 1) s d mt best u sc).2.negamaxNodes →
      ∃ (r : VM × St) (u' : Option (List Move)) (sc' : Option Score),
        deepen (n + 1) s d mt best u sc = (some r.1, iterState r dmax sc' u') ∧ iterAborted r = false ∧
        r.1.value = specValue dmax b0 ∧ (∃ m, r.1.mv = some m ∧ m.uci ∈ specBestMoves dmax b0) ∧
        vis r.2.board = vis b0 := by
  intro n
  induction n with
  | zero =>
    intro d s mt best u sc hd1 hdn hb hsok hns hN
    have hd : d = dmax := by omega
    subst hd
    rw [deepen_succ] at hN ⊢
    have hkept := rootSearch_rel (kept_stepRel d) s
    have hrN : NoIntr s (rootSearch s d).2.negamaxNodes := by
      rcases hN with hN | hN
      · left
        refine Nat.lt_of_le_of_lt ?_ hN
        simp only
        split
        · exact (iterState_frame _ _ _ _).nn
        · split
          · exact (iterState_frame _ _ _ _).nn
          · rw [deepen_zero]; exact (iterState_frame _ _ _ _).nn
      · right; exact hN
    obtain ⟨h1, ⟨m, h2, h3⟩, h4, h5⟩ := rootSearch_sim hd1 H s hb hinv hsok hlegal hrN
    have hna : iterAborted (rootSearch s d) = false := by
      unfold iterAborted
      rw [h5.stop, h2]; rfl
    refine ⟨rootSearch s d, u, sc, ?_, hna, h1, ⟨m, h2, h3⟩, h4⟩
    simp only
    rw [hna]
    simp only [Bool.false_eq_true, if_false]
    split
    · rfl
    · rw [deepen_zero]
  | succ n ih =>
    intro d s mt best u sc hd1 hdn hb hsok hns hN
    have hH : Hyp b0 d := H.mono (by omega)
    rw [deepen_succ] at hN ⊢
    have hkept := rootSearch_rel (kept_stepRel d) s
    have hcalm := rootSearch_rel (calm_stepRel d) s
    have hrN : NoIntr s (rootSearch s d).2.negamaxNodes := by
      rcases hN with hN | hN
      · left
        refine Nat.lt_of_le_of_lt ?_ hN
        simp only
        split
        · exact (iterState_frame _ _ _ _).nn
        · split
          · exact (iterState_frame _ _ _ _).nn
          · exact ((iterState_frame _ _ _ _).trans (deepen_frame _ _ _ _ _ _ _)).nn
      · right; exact hN
    obtain ⟨h1, ⟨m, h2, h3⟩, h4, h5⟩ := rootSearch_sim hd1 hH s hb
      (Inv_mono (by unfold fuelFor; omega) hinv) hsok hlegal hrN
    have hna : iterAborted (rootSearch s d) = false := by
      unfold iterAborted
      rw [h5.stop, h2]; rfl
    have hel : (rootSearch s d).2.elapsedNs = 0 := elapsedNs_none (by rw [hkept.2.2.2.2, hns])
    simp only at hN ⊢
    rw [hna, hel] at hN ⊢
    simp only [Bool.false_eq_true, if_false, Nat.not_lt_zero] at hN ⊢
    have hpp : (iterState (rootSearch s d) d sc u).pollPeriod = s.pollPeriod := by
      rw [iterState_completed _ _ _ _ hna]; exact hkept.2.2.2.1
    apply ih (d + 1) _ mt _ _ _ (by omega) (by omega)
    · rw [iterState_board]; exact h4
    · rw [iterState_completed _ _ _ _ hna]
      exact ⟨h5.tt, h5.hist, h5.stop, h5.sm⟩
    · rw [iterState_completed _ _ _ _ hna]; show (rootSearch s d).2.nsPerNode = none; rw [hkept.2.2.2.2, hns]
    · rcases hN with hN | hN
      · left; rw [hpp]; exact hN
      · right
        rw [iterState_completed _ _ _ _ hna]
        exact hcalm hN

/-! ## `go` -/

theorem goPrep_searchMoves (s : St) (g : GoParams) : (goPrep s g).go.searchMoves = g.searchMoves := by
  rw [goPrep_split]
  unfold goTail
  obtain ⟨p, h⟩ := continuePv_eq' (goHead s g)
  rw [h]
  obtain ⟨k, h1⟩ := goHead_eq s g
  rw [h1]
  simp only
  split <;> rfl

theorem goPrep_fields (s : St) (g : GoParams) :
    (goPrep s g).tt = {} ∧ (goPrep s g).history = s.history ∧ (goPrep s g).stop = false ∧
    (goPrep s g).pollPeriod = s.pollPeriod ∧ (goPrep s g).nsPerNode = s.nsPerNode := by
  obtain ⟨k, p, g', h⟩ := goPrep_eq s g
  rw [h]
  exact ⟨rfl, rfl, rfl, rfl, rfl⟩

theorem goPrep_pending (s : St) (g : GoParams) : (goPrep s g).pending = s.pending := by
  obtain ⟨k, p, g', h⟩ := goPrep_eq s g
  rw [h]

theorem maxThinkingNs_none {s : St} (h1 : s.go.wtime = none) (h2 : s.go.btime = none) : maxThinkingNs s = none := by
  unfold maxThinkingNs
  simp only [h1, h2, ite_self]

/-- a `go depth d` without clock parameters has no move time -/
theorem goPrep_moveTime_depth (s : St) (d : Nat) : (goPrep s { depth := some d }).go.moveTime = none := by
  rw [goPrep_split]
  unfold goTail
  obtain ⟨p, h⟩ := continuePv_eq' (goHead s { depth := some d })
  rw [h]
  obtain ⟨k, h1⟩ := goHead_eq s { depth := some d }
  rw [h1]
  simp only
  rw [maxThinkingNs_none rfl rfl]
  rfl

theorem goIters_depth (d maxIter : Nat) (hd1 : 1 ≤ d) (hmi : d ≤ maxIter) :
    goIters { depth := some d } maxIter = d := by
  unfold goIters
  simp only
  omega

/-- **`go depth d`, `1 ≤ d ≤ 3`, reports the exact minimax value and announces a best move.**
`b = s₀.board`.  Hypotheses: `Hyp b d` (`HashInj`, `HashNonzero`, `QBound`, clock guards), the clock budget
`Inv (fuelFor d) b`, a legal move exists, the repetition history is fresh below the root (`HistZero`, e.g. after
`position fen …` without moves), the virtual clock stands still (`nsPerNode = none`; the go has no time control anyway),
and no interruption: the node counter of the whole go stays below the poll period (NoPoll), or no message is waiting (a
poll then only emits its periodic info line; `go depth d` has no move time). -/
theorem goCmd_sim (s₀ : St) (d maxIter : Nat) (hd1 : 1 ≤ d) (hmi : d ≤ maxIter) (H : Hyp s₀.board d)
    (hinv : Inv (fuelFor d) s₀.board) (hlegal : genLegal s₀.board ≠ [])
    (hz : HistZero (plyClock s₀.board) s₀) (hns : s₀.nsPerNode = none)
    (hN : (goCmd s₀ { depth := some d } maxIter).negamaxNodes < s₀.pollPeriod ∨ s₀.pending = []) :
    ∃ (pv : List Move) (nodes : Nat) (t : Option Nat) (m : Move) (older : List Out),
      (goCmd s₀ { depth := some d } maxIter).out =
        .bestMove (some m) (pv[1]?) ::
        .info (some d) t nodes (some (scoreFromValue (specValue d s₀.board) s₀.board)) (some pv) :: older ∧
      m.uci ∈ specBestMoves d s₀.board ∧ vis (goCmd s₀ { depth := some d } maxIter).board = vis s₀.board := by
  rw [goCmd_eq] at hN ⊢
  change (goDeepen s₀ { depth := some d } maxIter).2.negamaxNodes < _ ∨ _ at hN
  unfold goDeepen at hN ⊢
  rw [goIters_depth d maxIter hd1 hmi] at hN ⊢
  obtain ⟨f1, f2, f3, f4, f5⟩ := goPrep_fields s₀ { depth := some d }
  have hsok : SOK s₀.board (1 - 1) (goPrep s₀ { depth := some d }) := by
    refine ⟨by rw [f1]; exact ttok_empty _ _, ?_, f3, goPrep_searchMoves _ _⟩
    intro j hj
    rw [f2]
    exact hz j hj
  obtain ⟨n, rfl⟩ : ∃ n, d = n + 1 := ⟨d - 1, by omega⟩
  obtain ⟨r, u', sc', e1, e2, e3, ⟨m, e4, e5⟩, e6⟩ := deepen_sim H hinv hlegal n 1 (goPrep s₀ { depth := some (n + 1) })
    (goMaxThinking (goPrep s₀ { depth := some (n + 1) })) none none none (Nat.le_refl _) (by omega)
    (by rw [goPrep_board]) hsok (by rw [f5, hns]) (by
      rcases hN with hN | hN
      · left; rw [f4]; exact hN
      · right; exact ⟨by rw [goPrep_pending]; exact hN, goPrep_moveTime_depth _ _⟩)
  rw [e1]
  simp only
  rw [iterState_completed _ _ _ _ e2]
  refine ⟨r.1.pv, r.2.totalNodes, some (r.2.elapsedNs / 1000000), m, r.2.out, ?_, e5, e6⟩
  show Out.bestMove (bestMoveOf (some r.1)) (ponderOf (some r.1) _) :: _ = _
  have hbm : bestMoveOf (some r.1) = some m := e4
  unfold ponderOf
  rw [hbm, e3, scoreFromValue_congr e6]
  rfl

end Inkayaku.SearchSim
