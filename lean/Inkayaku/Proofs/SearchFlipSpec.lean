import Inkayaku.Proofs.Geometry
/-!
# C11 (search half), part 1: the rules of chess commute with the colour flip

Everything here is about the mailbox Spec (`Spec/Chess.lean`) only: no bitboards.

* `mir`      – vertical mirror of a square (row `r` ↦ row `7 − r`), `recolor`, `flipSM` (mirror both squares of a move);
* `SFlip p p'` – "`p'` is the colour flip of `p`" as a RELATION on mailbox positions (square by square through `Pos.at`,
               side to move, castling rights swapped, e.p. square mirrored, same half-move clock; the full-move number is
               NOT related – it does not commute with the flip);
* `attacksGeom_flip`, `attacked_flip`, `pawnMoves_flip`, `castleMoves_flip`, `pseudoMoves_flip` (the pseudo-legal moves of
  the flipped position are the mirrored pseudo-legal moves), `isCapture_flip`, `apply_flip` (the successor of the flipped
  position by the mirrored move is the flip of the successor).

The geometric facts about the 64 × 64 pairs of squares are finite and are established by kernel evaluation.
-/
namespace Inkayaku.SearchFlip
open Inkayaku.Spec Inkayaku.Geometry

/-! ## mirror -/

def mir (s : Nat) : Nat := 8 * (7 - s / 8) + s % 8

theorem mir_lt {s : Nat} (h : s < 64) : mir s < 64 := by unfold mir; omega
theorem mir_mir {s : Nat} (h : s < 64) : mir (mir s) = s := by unfold mir; omega
theorem mir_inj {a b : Nat} (ha : a < 64) (hb : b < 64) : mir a = mir b ↔ a = b := by unfold mir; omega
theorem mir_beq {a b : Nat} (ha : a < 64) (hb : b < 64) : (mir a == mir b) = (a == b) := by
  rw [Bool.eq_iff_iff, beq_iff_eq, beq_iff_eq]; exact mir_inj ha hb

theorem fileOf_mir {s : Nat} (_h : s < 64) : fileOf (mir s) = fileOf s := by unfold fileOf mir; omega
theorem rowOf_mir {s : Nat} (h : s < 64) : rowOf (mir s) = 7 - rowOf s := by unfold rowOf mir; omega
theorem fileOf_bounds (s : Nat) : 0 ≤ fileOf s ∧ fileOf s < 8 := by unfold fileOf; omega
theorem rowOf_bounds {s : Nat} (h : s < 64) : 0 ≤ rowOf s ∧ rowOf s < 8 := by unfold rowOf; omega

theorem mkSq_lt {f r : Int} (hf : 0 ≤ f ∧ f < 8) (hr : 0 ≤ r ∧ r < 8) : mkSq f r < 64 := by unfold mkSq; omega
theorem fileOf_mkSq {f r : Int} (hf : 0 ≤ f ∧ f < 8) (hr : 0 ≤ r ∧ r < 8) : fileOf (mkSq f r) = f := by
  unfold mkSq fileOf; omega
theorem rowOf_mkSq {f r : Int} (hf : 0 ≤ f ∧ f < 8) (hr : 0 ≤ r ∧ r < 8) : rowOf (mkSq f r) = r := by
  unfold mkSq rowOf; omega
theorem mkSq_mir {f r : Int} (hf : 0 ≤ f ∧ f < 8) (hr : 0 ≤ r ∧ r < 8) : mkSq f (7 - r) = mir (mkSq f r) := by
  unfold mkSq mir; omega
theorem mkSq_file_row {s : Nat} (_h : s < 64) : mkSq (fileOf s) (rowOf s) = s := by
  unfold mkSq fileOf rowOf; omega
theorem inside_iff (f r : Int) : inside f r = true ↔ (0 ≤ f ∧ f < 8) ∧ (0 ≤ r ∧ r < 8) := by
  unfold inside; simp only [Bool.and_eq_true, decide_eq_true_eq]; omega

def recolor (pc : Piece) : Piece := ⟨!pc.white, pc.kind⟩

theorem recolor_recolor (pc : Piece) : recolor (recolor pc) = pc := by cases pc; simp [recolor]

def flipSM (m : SMove) : SMove := ⟨mir m.src, mir m.tgt, m.promo⟩

/-! ## finite geometry -/

def geomMirOK : Bool :=
  (List.range 64).all fun a => (List.range 64).all fun b =>
    (rookLine (mir a) (mir b) == rookLine a b) && (bishLine (mir a) (mir b) == bishLine a b)
    && (knightGeom (mir a) (mir b) == knightGeom a b) && (kingGeom (mir a) (mir b) == kingGeom a b)
    && (pawnGeom false (mir a) (mir b) == pawnGeom true a b) && (pawnGeom true (mir a) (mir b) == pawnGeom false a b)
    && (!(rookLine a b || bishLine a b) ||
        ((between (mir a) (mir b) == (between a b).map mir) && (between a b).all fun q => decide (q < 64)))

theorem geom_mir_ok : geomMirOK = true := by decide +kernel

theorem geom_mir {a b : Nat} (ha : a < 64) (hb : b < 64) :
    rookLine (mir a) (mir b) = rookLine a b ∧ bishLine (mir a) (mir b) = bishLine a b ∧
    knightGeom (mir a) (mir b) = knightGeom a b ∧ kingGeom (mir a) (mir b) = kingGeom a b ∧
    pawnGeom false (mir a) (mir b) = pawnGeom true a b ∧ pawnGeom true (mir a) (mir b) = pawnGeom false a b ∧
    ((rookLine a b || bishLine a b) = true →
      between (mir a) (mir b) = (between a b).map mir ∧ ∀ q ∈ between a b, q < 64) := by
  have h := geom_mir_ok
  unfold geomMirOK at h
  rw [List.all_eq_true] at h
  have h1 := h a (List.mem_range.mpr ha)
  rw [List.all_eq_true] at h1
  have h2 := h1 b (List.mem_range.mpr hb)
  simp only [Bool.and_eq_true, beq_iff_eq, Bool.or_eq_true, Bool.not_eq_true', List.all_eq_true,
    decide_eq_true_eq] at h2
  obtain ⟨⟨⟨⟨⟨⟨e1, e2⟩, e3⟩, e4⟩, e5⟩, e6⟩, e7⟩ := h2
  refine ⟨e1, e2, e3, e4, e5, e6, ?_⟩
  intro hl
  rcases e7 with e7 | e7
  · rw [e7] at hl; cases hl
  · exact e7

theorem pawnGeom_mir (w : Bool) {a b : Nat} (ha : a < 64) (hb : b < 64) :
    pawnGeom (!w) (mir a) (mir b) = pawnGeom w a b := by
  obtain ⟨-, -, -, -, e5, e6, -⟩ := geom_mir ha hb
  cases w
  · exact e6
  · exact e5

/-! ## the relation -/

/-- `p'` is the colour flip of `p` (up to the full-move number) -/
structure SFlip (p p' : Pos) : Prop where
  size : p.sq.size = 64
  size' : p'.sq.size = 64
  at_ : ∀ s, s < 64 → p'.at (mir s) = (p.at s).map recolor
  turn : p'.whiteToMove = !p.whiteToMove
  wk : p'.wk = p.bk
  wq : p'.wq = p.bq
  bk : p'.bk = p.wk
  bq : p'.bq = p.wq
  ep : p'.ep = p.ep.map mir
  epLt : ∀ e, p.ep = some e → e < 64
  half : p'.half = p.half

theorem at_ge {p : Pos} (hsz : p.sq.size = 64) {s : Nat} (h : 64 ≤ s) : p.at s = none := by
  unfold Pos.at
  simp [Array.getD, hsz, show ¬ s < 64 by omega]

theorem SFlip.at' {p p' : Pos} (h : SFlip p p') {s : Nat} (hs : s < 64) : p'.at s = (p.at (mir s)).map recolor := by
  have := h.at_ (mir s) (mir_lt hs)
  rwa [mir_mir hs] at this

theorem SFlip.symm {p p' : Pos} (h : SFlip p p') : SFlip p' p where
  size := h.size'
  size' := h.size
  at_ := by
    intro s hs
    rw [h.at' hs]
    cases p.at (mir s) with
    | none => rfl
    | some pc => simp [recolor_recolor]
  turn := by rw [h.turn]; simp
  wk := h.bk.symm
  wq := h.bq.symm
  bk := h.wk.symm
  bq := h.wq.symm
  ep := by
    rw [h.ep]
    cases he : p.ep with
    | none => rfl
    | some e => simp [mir_mir (h.epLt e he)]
  epLt := by
    intro e he
    rw [h.ep] at he
    cases he' : p.ep with
    | none => rw [he'] at he; cases he
    | some e0 =>
      rw [he'] at he
      simp only [Option.map_some, Option.some.injEq] at he
      rw [← he]; exact mir_lt (h.epLt e0 he')
  half := h.half.symm

theorem isNone_map_recolor (o : Option Piece) : (o.map recolor).isNone = o.isNone := by cases o <;> rfl
theorem isSome_map_recolor (o : Option Piece) : (o.map recolor).isSome = o.isSome := by cases o <;> rfl

theorem SFlip.isNone {p p' : Pos} (h : SFlip p p') {s : Nat} (hs : s < 64) : (p'.at (mir s)).isNone = (p.at s).isNone := by
  rw [h.at_ s hs, isNone_map_recolor]

theorem SFlip.isSome {p p' : Pos} (h : SFlip p p') {s : Nat} (hs : s < 64) : (p'.at (mir s)).isSome = (p.at s).isSome := by
  rw [h.at_ s hs, isSome_map_recolor]

theorem map_recolor_beq (o : Option Piece) (w : Bool) (k : Kind) :
    (o.map recolor == some ⟨!w, k⟩) = (o == some ⟨w, k⟩) := by
  cases o with
  | none => rfl
  | some pc =>
    cases pc with
    | mk pw pk =>
      rw [Bool.eq_iff_iff, beq_iff_eq, beq_iff_eq]
      simp only [Option.map_some, recolor, Option.some.injEq, Piece.mk.injEq]
      cases pw <;> cases w <;> simp

theorem SFlip.ep_beq {p p' : Pos} (h : SFlip p p') {t : Nat} (ht : t < 64) : (p'.ep == some (mir t)) = (p.ep == some t) := by
  rw [h.ep]
  cases he : p.ep with
  | none => rfl
  | some e =>
    rw [Bool.eq_iff_iff, beq_iff_eq, beq_iff_eq]
    simp only [Option.map_some, Option.some.injEq]
    exact mir_inj (h.epLt e he) ht

/-! ## attacks -/

theorem all_congr' {α} {p q : α → Bool} {l : List α} (h : ∀ x ∈ l, p x = q x) : l.all p = l.all q := by
  induction l with
  | nil => rfl
  | cons a t ih =>
    simp only [List.all_cons, h a (by simp)]
    rw [ih (fun x hx => h x (by simp [hx]))]

theorem any_congr' {α} {p q : α → Bool} {l : List α} (h : ∀ x ∈ l, p x = q x) : l.any p = l.any q := by
  induction l with
  | nil => rfl
  | cons a t ih =>
    simp only [List.any_cons, h a (by simp)]
    rw [ih (fun x hx => h x (by simp [hx]))]

theorem clearBetween_flip {p p' : Pos} (h : SFlip p p') {a b : Nat} (ha : a < 64) (hb : b < 64)
    (hl : (rookLine a b || bishLine a b) = true) : clearBetween p' (mir a) (mir b) = clearBetween p a b := by
  obtain ⟨hbt, hlt⟩ := (geom_mir ha hb).2.2.2.2.2.2 hl
  rw [clearBetween_eq, clearBetween_eq, hbt, List.all_map]
  apply all_congr'
  intro q hq
  exact h.isNone (hlt q hq)

theorem attacksGeom_flip {p p' : Pos} (h : SFlip p p') (k : Kind) (w : Bool) {a b : Nat} (ha : a < 64) (hb : b < 64) :
    attacksGeom p' k (!w) (mir a) (mir b) = attacksGeom p k w a b := by
  obtain ⟨e1, e2, e3, e4, -, -, -⟩ := geom_mir ha hb
  cases k with
  | pawn => rw [attacksGeom_pawn, attacksGeom_pawn]; exact pawnGeom_mir w ha hb
  | knight => rw [attacksGeom_knight, attacksGeom_knight]; exact e3
  | king => rw [attacksGeom_king, attacksGeom_king]; exact e4
  | rook =>
    rw [attacksGeom_rook, attacksGeom_rook, e1]
    cases hl : rookLine a b
    · rfl
    · rw [clearBetween_flip h ha hb (by rw [hl]; rfl)]
  | bishop =>
    rw [attacksGeom_bishop, attacksGeom_bishop, e2]
    cases hl : bishLine a b
    · rfl
    · rw [clearBetween_flip h ha hb (by rw [hl]; simp)]
  | queen =>
    rw [attacksGeom_queen, attacksGeom_queen, e1, e2]
    cases hl : (rookLine a b || bishLine a b)
    · rfl
    · rw [clearBetween_flip h ha hb hl]

theorem any_range_mir (f : Nat → Bool) : ((List.range 64).any fun t => f (mir t)) = (List.range 64).any f := by
  rw [Bool.eq_iff_iff, List.any_eq_true, List.any_eq_true]
  constructor
  · rintro ⟨t, ht, hf⟩
    exact ⟨mir t, List.mem_range.mpr (mir_lt (List.mem_range.mp ht)), hf⟩
  · rintro ⟨t, ht, hf⟩
    have ht' := List.mem_range.mp ht
    exact ⟨mir t, List.mem_range.mpr (mir_lt ht'), by rw [mir_mir ht']; exact hf⟩

theorem attacked_flip {p p' : Pos} (h : SFlip p p') (w : Bool) {s : Nat} (hs : s < 64) :
    attacked p' (!w) (mir s) = attacked p w s := by
  unfold attacked
  rw [← any_range_mir]
  apply any_congr'
  intro t ht
  have ht' := List.mem_range.mp ht
  show (match p'.at (mir t) with
    | some pc => pc.white == !w && attacksGeom p' pc.kind pc.white (mir t) (mir s)
    | none => false) = _
  rw [h.at_ t ht']
  cases hp : p.at t with
  | none => rfl
  | some pc =>
    simp only [Option.map_some, recolor]
    rw [attacksGeom_flip h pc.kind pc.white ht' hs]
    cases pc.white <;> cases w <;> rfl

end Inkayaku.SearchFlip
