import Inkayaku.Proofs.SearchRel
/-!
# The output stream of one `go` (C07 / C09 / C16)

* `goCmd_out`: a `go` appends to the output, in this order, infos only and then exactly one `bestmove`;
  the node counts of the infos are sorted, each info's time is the virtual clock value of its node count;
* `deepen_depths`: the depths reported by the iteration infos are sorted;
* `deepen_best`: the value returned by the iterative deepening is the root result of the last iteration that was not
  aborted (`iters` lists the root results of the iterations run);
* `goCmd_pv`: when a best move is announced, the info emitted last before it carries a PV whose first move is the best
  move and whose second move (if any) is the ponder move.
-/
namespace Inkayaku.Search
open Inkayaku.Board Inkayaku.Eval

theorem rootSearch_rel {R : St → St → Prop} {d : Nat} (H : StepRel d R) (s : St) : R s (rootSearch s d).2 :=
  negamax_rel H _ s 0 _ _ _ _ _

/-! ## projections of the output -/

/-- the `bestmove` answers in a piece of output -/
def bestMoves (outs : List Out) : List (Option Move × Option Move) :=
  outs.filterMap fun | .bestMove b p => some (b, p) | .info .. => none

def infoNodes (outs : List Out) : List Nat :=
  outs.filterMap fun | .info _ _ n _ _ => some n | .bestMove .. => none

def infoTimes (outs : List Out) : List Nat :=
  outs.filterMap fun | .info _ (some t) _ _ _ => some t | _ => none

/-- the depths reported (periodic infos carry none) -/
def infoDepths (outs : List Out) : List Nat :=
  outs.filterMap fun | .info (some d) _ _ _ _ => some d | _ => none

theorem Chain.bestMoves_nil {k : Option Nat} {lo hi : Nat} {l : List Out} (h : Chain k lo hi l) : bestMoves l = [] := by
  unfold bestMoves
  rw [List.filterMap_eq_nil_iff]
  intro o ho
  have := h.1 o ho
  cases o with
  | info d t n sc pv => rfl
  | bestMove _ _ => exact this.elim

theorem Chain.infoNodes_eq {k : Option Nat} {lo hi : Nat} {l : List Out} (h : Chain k lo hi l) : infoNodes l = l.map nodesOf := by
  induction l with
  | nil => rfl
  | cons o l ih =>
    have ho := h.1 o (List.mem_cons_self ..)
    have hl : Chain k lo hi l := ⟨fun x hx => h.1 x (List.mem_cons_of_mem _ hx), (List.pairwise_cons.mp h.2).2⟩
    cases o with
    | info d t n sc pv =>
      show n :: infoNodes l = _
      rw [ih hl]; rfl
    | bestMove _ _ => exact ho.elim

theorem Chain.infoTimes_eq {k : Option Nat} {lo hi : Nat} {l : List Out} (h : Chain k lo hi l) :
    infoTimes l = l.map (fun o => elapsedOf k (nodesOf o) / 1000000) := by
  induction l with
  | nil => rfl
  | cons o l ih =>
    have ho := h.1 o (List.mem_cons_self ..)
    have hl : Chain k lo hi l := ⟨fun x hx => h.1 x (List.mem_cons_of_mem _ hx), (List.pairwise_cons.mp h.2).2⟩
    cases o with
    | info d t n sc pv =>
      obtain ⟨ht, -, -⟩ := ho
      subst ht
      show _ :: infoTimes l = _
      rw [ih hl]; rfl
    | bestMove _ _ => exact ho.elim

/-- node counts, newest first, never increase -/
theorem Chain.nodes_sorted {k : Option Nat} {lo hi : Nat} {l : List Out} (h : Chain k lo hi l) :
    (infoNodes l).Pairwise (fun a b => b ≤ a) := by
  rw [h.infoNodes_eq, List.pairwise_map]
  exact h.2

/-- times, newest first, never increase -/
theorem Chain.times_sorted {k : Option Nat} {lo hi : Nat} {l : List Out} (h : Chain k lo hi l) :
    (infoTimes l).Pairwise (fun a b => b ≤ a) := by
  rw [h.infoTimes_eq, List.pairwise_map]
  exact h.2.imp (fun hab => Nat.div_le_div_right (elapsedOf_mono k hab))

/-! ## one iteration -/

theorem iterState_frame (r : VM × St) (d : Nat) (sc : Option Score) (u : Option (List Move)) :
    Frame r.2 (iterState r d sc u) := by
  unfold iterState
  split
  · exact ⟨rfl, Nat.le_refl _, Nat.le_refl _, [_], rfl, Chain.single ⟨rfl, Nat.le_refl _, Nat.le_refl _⟩⟩
  · exact ⟨rfl, Nat.le_refl _, Nat.le_refl _, [_], rfl, Chain.single ⟨rfl, Nat.le_refl _, Nat.le_refl _⟩⟩

/-- the info with which iteration `d` reports -/
def iterInfo (r : VM × St) (d : Nat) (sc : Option Score) (u : Option (List Move)) : Out :=
  if iterAborted r then .info (some (d - 1)) (some (r.2.elapsedNs / 1000000)) r.2.totalNodes sc u
  else .info (some d) (some (r.2.elapsedNs / 1000000)) r.2.totalNodes (some (scoreFromValue r.1.value r.2.board)) (some r.1.pv)

theorem iterState_out (r : VM × St) (d : Nat) (sc : Option Score) (u : Option (List Move)) :
    (iterState r d sc u).out = iterInfo r d sc u :: r.2.out := by
  unfold iterState iterInfo
  split <;> rfl

theorem iterState_pv (r : VM × St) (d : Nat) (sc : Option Score) (u : Option (List Move)) :
    (iterState r d sc u).pv = if iterAborted r then r.2.pv else some r.1.pv := by
  unfold iterState
  split <;> rfl

/-! ## the iterative deepening loop -/

theorem deepen_frame (n : Nat) (s : St) (d mt : Nat) (best : Option VM) (u : Option (List Move)) (sc : Option Score) :
    Frame s (deepen n s d mt best u sc).2 := by
  induction n generalizing s d best u sc with
  | zero => rw [deepen_zero]; exact (frame_stepRel 0).refl s
  | succ n ih =>
    have h1 : Frame s (iterState (rootSearch s d) d sc u) :=
      (rootSearch_rel (frame_stepRel d) s).trans (iterState_frame _ d sc u)
    rw [deepen_succ]
    simp only
    split
    · exact h1
    · split
      · exact h1
      · exact h1.trans (ih _ _ _ _ _)

/-- depths, newest first, never increase and are at least `lo` -/
def DepthsOK (lo : Nat) (l : List Out) : Prop :=
  (infoDepths l).Pairwise (fun a b => b ≤ a) ∧ ∀ x ∈ infoDepths l, lo ≤ x

theorem infoDepths_append (a b : List Out) : infoDepths (a ++ b) = infoDepths a ++ infoDepths b := by
  unfold infoDepths; rw [List.filterMap_append]

theorem infoDepths_poll {l : List Out} (h : ∀ o ∈ l, IsPollInfo o) : infoDepths l = [] := by
  unfold infoDepths
  rw [List.filterMap_eq_nil_iff]
  intro o ho
  have := h o ho
  cases o with
  | info d t n sc pv =>
    cases d with
    | none => rfl
    | some d => exact this.elim
  | bestMove _ _ => rfl

theorem infoDepths_iterInfo (r : VM × St) (d : Nat) (sc : Option Score) (u : Option (List Move)) :
    infoDepths [iterInfo r d sc u] = [if iterAborted r then d - 1 else d] := by
  unfold iterInfo
  split <;> rfl

theorem deepen_depths (n : Nat) (s : St) (d mt : Nat) (best : Option VM) (u : Option (List Move)) (sc : Option Score) :
    ∃ news, (deepen n s d mt best u sc).2.out = news ++ s.out ∧ DepthsOK (d - 1) news := by
  induction n generalizing s d best u sc with
  | zero => rw [deepen_zero]; exact ⟨[], rfl, List.Pairwise.nil, by simp [infoDepths]⟩
  | succ n ih =>
    obtain ⟨polls, hp, hpoll⟩ := rootSearch_rel (pollOnly_stepRel d) s
    have hout : (iterState (rootSearch s d) d sc u).out = (iterInfo (rootSearch s d) d sc u :: polls) ++ s.out := by
      rw [iterState_out, hp]; rfl
    have hd : infoDepths (iterInfo (rootSearch s d) d sc u :: polls) = [if iterAborted (rootSearch s d) then d - 1 else d] := by
      rw [← List.singleton_append, infoDepths_append, infoDepths_poll hpoll, infoDepths_iterInfo]; rfl
    have hone : DepthsOK (d - 1) (iterInfo (rootSearch s d) d sc u :: polls) := by
      unfold DepthsOK
      rw [hd]
      refine ⟨List.pairwise_singleton _ _, ?_⟩
      intro x hx
      rw [List.mem_singleton.mp hx]
      split
      · exact Nat.le_refl _
      · exact Nat.sub_le _ _
    rw [deepen_succ]
    simp only
    split
    · exact ⟨_, hout, hone⟩
    · split
      · exact ⟨_, hout, hone⟩
      · rename_i hna _
        obtain ⟨news, hn, hs, hlo⟩ := ih (iterState (rootSearch s d) d sc u) (d + 1) (some (rootSearch s d).1)
          (some (rootSearch s d).1.pv) (some (scoreFromValue (rootSearch s d).1.value (rootSearch s d).2.board))
        refine ⟨news ++ (iterInfo (rootSearch s d) d sc u :: polls), by rw [hn, hout, List.append_assoc], ?_, ?_⟩
        · rw [infoDepths_append, hd, List.pairwise_append]
          refine ⟨hs, List.pairwise_singleton _ _, ?_⟩
          intro a ha b hb
          rw [List.mem_singleton.mp hb]
          have := hlo a ha
          simp only [hna, Bool.false_eq_true, if_false]
          omega
        · intro x hx
          rw [infoDepths_append, hd] at hx
          rcases List.mem_append.mp hx with h | h
          · have := hlo x h; omega
          · rw [List.mem_singleton.mp h]
            simp only [hna, Bool.false_eq_true, if_false]
            omega

/-! ## the best move comes from the last completed iteration -/

/-- the root results of the iterations `deepen` runs, in order -/
def iters : Nat → St → Nat → Nat → Option (List Move) → Option Score → List (VM × St)
  | 0, _, _, _, _, _ => []
  | n + 1, s, d, mt, u, sc =>
    let r := rootSearch s d
    r :: (if iterAborted r || r.2.elapsedNs > mt / 3 then []
          else iters n (iterState r d sc u) (d + 1) mt (some r.1.pv) (some (scoreFromValue r.1.value r.2.board)))

/-- the iterations that were not aborted -/
def completed (l : List (VM × St)) : List (VM × St) := l.filter (fun r => !iterAborted r)

theorem deepen_best (n : Nat) (s : St) (d mt : Nat) (best : Option VM) (u : Option (List Move)) (sc : Option Score) :
    (deepen n s d mt best u sc).1 =
      match (completed (iters n s d mt u sc)).getLast? with
      | some r => some r.1
      | none => best := by
  induction n generalizing s d best u sc with
  | zero => rw [deepen_zero]; rfl
  | succ n ih =>
    rw [deepen_succ]
    simp only [iters, completed]
    by_cases ha : iterAborted (rootSearch s d) = true
    · simp [ha]
    · have ha' : iterAborted (rootSearch s d) = false := Bool.eq_false_iff.mpr ha
      by_cases ht : (rootSearch s d).2.elapsedNs > mt / 3
      · simp [ha', ht]
      · simp only [ha', Bool.false_eq_true, if_false, ht, Bool.false_or, decide_false, Bool.not_false,
          List.filter_cons_of_pos]
        rw [ih]
        simp only [completed]
        rw [List.getLast?_cons]
        cases (List.filter (fun r => !iterAborted r) (iters n (iterState (rootSearch s d) d sc u) (d + 1) mt
          (some (rootSearch s d).1.pv) (some (scoreFromValue (rootSearch s d).1.value (rootSearch s d).2.board)))).getLast? <;> rfl

/-! ## best move and ponder move are the head of the last reported PV -/

theorem VM.pv_of_mv {c : VM} {m : Move} (h : c.mv = some m) : ∃ rest, c.pv = m :: rest := by
  cases c with
  | mk v mv ch =>
    simp only [VM.mv] at h
    subst h
    rw [VM.pv.eq_def]
    exact ⟨_, rfl⟩

/-- the newest output item is an info carrying `u` as its PV -/
def HeadPv (outs : List Out) (u : Option (List Move)) : Prop :=
  ∃ d t n sc rest, outs = .info d t n sc u :: rest

/-- consistency of `best_move`'s local variables with the stored PV -/
def BestInv (best : Option VM) (u : Option (List Move)) (s : St) : Prop :=
  u = best.map VM.pv ∧ ∀ c, best = some c → s.pv = some c.pv ∧ c.mv.isSome = true

theorem deepen_head (n : Nat) (s : St) (d mt : Nat) (best : Option VM) (u : Option (List Move)) (sc : Option Score)
    (hinv : BestInv best u s) (hhead : 1 ≤ n ∨ HeadPv s.out u) :
    HeadPv (deepen n s d mt best u sc).2.out ((deepen n s d mt best u sc).1.map VM.pv) ∧
    ∀ c, (deepen n s d mt best u sc).1 = some c → (deepen n s d mt best u sc).2.pv = some c.pv ∧ c.mv.isSome = true := by
  induction n generalizing s d best u sc with
  | zero =>
    rw [deepen_zero]
    rcases hhead with h | h
    · omega
    · exact ⟨hinv.1 ▸ h, hinv.2⟩
  | succ n ih =>
    have hk : (rootSearch s d).2.pv = s.pv := (rootSearch_rel (kept_stepRel d) s).1
    rw [deepen_succ]
    simp only
    split
    · rename_i ha
      refine ⟨?_, ?_⟩
      · rw [iterState_out]
        unfold iterInfo
        rw [if_pos ha, ← hinv.1]
        exact ⟨_, _, _, _, _, rfl⟩
      · intro c hc
        rw [iterState_pv, if_pos ha, hk]
        exact hinv.2 c hc
    · rename_i ha
      have ha' : iterAborted (rootSearch s d) = false := Bool.eq_false_iff.mpr ha
      have hmv : (rootSearch s d).1.mv.isSome = true := by
        unfold iterAborted at ha'
        cases hm : (rootSearch s d).1.mv with
        | none => simp [hm] at ha'
        | some m => rfl
      have hinv' : BestInv (some (rootSearch s d).1) (some (rootSearch s d).1.pv)
          (iterState (rootSearch s d) d sc u) := by
        refine ⟨rfl, ?_⟩
        intro c hc
        cases hc
        rw [iterState_pv, if_neg ha]
        exact ⟨rfl, hmv⟩
      have hh : HeadPv (iterState (rootSearch s d) d sc u).out (some (rootSearch s d).1.pv) := by
        rw [iterState_out]
        unfold iterInfo
        rw [if_neg ha]
        exact ⟨_, _, _, _, _, rfl⟩
      split
      · exact ⟨hh, hinv'.2⟩
      · exact ih _ _ _ _ _ hinv' (Or.inr hh)

/-! ## one `go` -/

/-- `reset_for_go` and the table reset of `best_move` -/
def goHead (s : St) (g : GoParams) : St :=
  let s := if s.resetNext then { s with tt := {}, killers := [] } else s
  let s := { s with negamaxNodes := 0, quiescenceNodes := 0, stop := false, quit := false, resetNext := false, go := g }
  { s with tt := {}, killers := s.killers.drop 2 }

/-- PV continuation and time budget -/
def goTail (s : St) : St :=
  let s := continuePv s
  match s.go.moveTime with
  | none => { s with go := { s.go with moveTime := (maxThinkingNs s).map (· * 2) } }
  | some _ => s

theorem goPrep_split (s : St) (g : GoParams) : goPrep s g = goTail (goHead s g) := rfl

theorem continuePv_eq' (s : St) : ∃ p, continuePv s = { s with pv := p } := by
  unfold continuePv
  simp only
  repeat' split
  all_goals exact ⟨_, rfl⟩

theorem goTail_eq (s : St) : ∃ p g', goTail s = { s with pv := p, go := g' } := by
  unfold goTail
  obtain ⟨p, h⟩ := continuePv_eq' s
  rw [h]
  simp only
  split
  · exact ⟨_, _, rfl⟩
  · exact ⟨_, _, rfl⟩

theorem goHead_eq (s : St) (g : GoParams) : ∃ k, goHead s g =
    { s with tt := {}, killers := k, negamaxNodes := 0, quiescenceNodes := 0, stop := false, quit := false,
             resetNext := false, go := g } := by
  unfold goHead
  cases s.resetNext <;> exact ⟨_, rfl⟩

/-- the state in which iteration 1 starts: empty table, zero counters, flags cleared, everything else as before -/
theorem goPrep_eq (s : St) (g : GoParams) : ∃ k p g', goPrep s g =
    { s with tt := {}, killers := k, pv := p, negamaxNodes := 0, quiescenceNodes := 0, stop := false, quit := false,
             resetNext := false, go := g' } := by
  obtain ⟨k, h1⟩ := goHead_eq s g
  obtain ⟨p, g', h2⟩ := goTail_eq (goHead s g)
  rw [goPrep_split, h2, h1]
  exact ⟨k, p, g', rfl⟩

theorem goPrep_out (s : St) (g : GoParams) : (goPrep s g).out = s.out := by
  obtain ⟨k, p, g', h⟩ := goPrep_eq s g; rw [h]
theorem goPrep_nsPerNode (s : St) (g : GoParams) : (goPrep s g).nsPerNode = s.nsPerNode := by
  obtain ⟨k, p, g', h⟩ := goPrep_eq s g; rw [h]
theorem goPrep_totalNodes (s : St) (g : GoParams) : (goPrep s g).totalNodes = 0 := by
  obtain ⟨k, p, g', h⟩ := goPrep_eq s g; rw [h]; rfl
theorem goPrep_ttBound (s : St) (g : GoParams) : TTBound 0 (goPrep s g) := by
  obtain ⟨k, p, g', h⟩ := goPrep_eq s g
  rw [h]
  intro h' e he
  simp [Std.HashMap.get?_eq_getElem?] at he

/-- **the output of one `go`**: infos only (node counts sorted, time = virtual clock of the node count, reported depths
sorted), then exactly one `bestmove` -/
theorem goCmd_out (s : St) (g : GoParams) (maxIter : Nat) :
    ∃ news, (goCmd s g maxIter).out =
        .bestMove (bestMoveOf (goDeepen s g maxIter).1) (ponderOf (goDeepen s g maxIter).1 (goDeepen s g maxIter).2)
          :: (news ++ s.out) ∧
      Chain s.nsPerNode 0 (goDeepen s g maxIter).2.totalNodes news ∧ DepthsOK 0 news := by
  obtain ⟨news, hn, hc⟩ := (deepen_frame (goIters g maxIter) (goPrep s g) 1 (goMaxThinking (goPrep s g)) none none none).out
  obtain ⟨news', hn', hd⟩ := deepen_depths (goIters g maxIter) (goPrep s g) 1 (goMaxThinking (goPrep s g)) none none none
  have : news' = news := List.append_cancel_right (hn'.symm.trans hn)
  subst this
  rw [goPrep_nsPerNode, goPrep_totalNodes] at hc
  rw [goPrep_out] at hn
  refine ⟨news', ?_, hc, hd⟩
  rw [goCmd_eq]
  show _ :: (goDeepen s g maxIter).2.out = _
  unfold goDeepen
  rw [hn]

theorem bestMoves_append (a b : List Out) : bestMoves (a ++ b) = bestMoves a ++ bestMoves b := by
  unfold bestMoves; rw [List.filterMap_append]

/-- a `go` answers with exactly one `bestmove` -/
theorem goCmd_bestMoves (s : St) (g : GoParams) (maxIter : Nat) :
    bestMoves (goCmd s g maxIter).out =
      (bestMoveOf (goDeepen s g maxIter).1, ponderOf (goDeepen s g maxIter).1 (goDeepen s g maxIter).2) :: bestMoves s.out := by
  obtain ⟨news, h, hc, -⟩ := goCmd_out s g maxIter
  rw [h]
  show _ :: bestMoves (news ++ s.out) = _
  rw [bestMoves_append, hc.bestMoves_nil]
  rfl

/-- the root results of the iterations of one `go` -/
def goIterations (s : St) (g : GoParams) (maxIter : Nat) : List (VM × St) :=
  iters (goIters g maxIter) (goPrep s g) 1 (goMaxThinking (goPrep s g)) none none

/-- the value `best_move` ends with is the root result of the last iteration that was not aborted -/
theorem goDeepen_best (s : St) (g : GoParams) (maxIter : Nat) :
    (goDeepen s g maxIter).1 = ((completed (goIterations s g maxIter)).getLast?).map Prod.fst := by
  unfold goDeepen goIterations
  rw [deepen_best]
  cases (completed _).getLast? <;> rfl

/-- best move and ponder move are the first and second move of the PV reported last -/
theorem goCmd_pv (s : St) (g : GoParams) (maxIter : Nat) (m : Move)
    (hm : bestMoveOf (goDeepen s g maxIter).1 = some m) :
    ∃ d t n sc pvl rest,
      (goCmd s g maxIter).out =
        .bestMove (some m) (ponderOf (goDeepen s g maxIter).1 (goDeepen s g maxIter).2) :: .info d t n sc (some pvl) :: rest ∧
      pvl[0]? = some m ∧ pvl[1]? = ponderOf (goDeepen s g maxIter).1 (goDeepen s g maxIter).2 := by
  have hiter : 1 ≤ goIters g maxIter := by
    rcases Nat.eq_zero_or_pos (goIters g maxIter) with h0 | h0
    · exfalso
      unfold goDeepen at hm
      rw [h0, deepen_zero] at hm
      simp [bestMoveOf] at hm
    · exact h0
  have hinv : BestInv none none (goPrep s g) := ⟨rfl, fun c hc => by cases hc⟩
  obtain ⟨⟨d, t, n, sc, rest, hout⟩, hpv⟩ := deepen_head (goIters g maxIter) (goPrep s g) 1
    (goMaxThinking (goPrep s g)) none none none hinv (Or.inl hiter)
  change (goDeepen s g maxIter).2.out = _ at hout
  change ∀ c, (goDeepen s g maxIter).1 = some c → (goDeepen s g maxIter).2.pv = some c.pv ∧ c.mv.isSome = true at hpv
  change (goDeepen s g maxIter).2.out = .info d t n sc ((goDeepen s g maxIter).1.map VM.pv) :: rest at hout
  cases hb : (goDeepen s g maxIter).1 with
  | none => rw [hb] at hm; simp [bestMoveOf] at hm
  | some c =>
    rw [hb] at hm hout
    have hcm : c.mv = some m := hm
    obtain ⟨tl, htl⟩ := VM.pv_of_mv hcm
    obtain ⟨hspv, -⟩ := hpv c hb
    refine ⟨d, t, n, sc, c.pv, rest, ?_, ?_, ?_⟩
    · rw [goCmd_eq, hb]
      show Out.bestMove (bestMoveOf (some c)) _ :: (goDeepen s g maxIter).2.out = _
      rw [hout, hm]
      rfl
    · rw [htl]; rfl
    · unfold ponderOf
      rw [hm, hspv]

end Inkayaku.Search
