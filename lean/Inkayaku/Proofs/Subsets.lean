/-!
Enumeration of all subsets of a list of bit positions, and the lifting lemma: a Boolean predicate that holds on
every enumerated subset holds at `occ &&& maskOf bits` for EVERY natural number `occ`.
-/
namespace Inkayaku.Subsets

def forallSubsets (P : Nat → Bool) : List Nat → Nat → Bool
  | [], acc => P acc
  | b :: bs, acc => forallSubsets P bs acc && forallSubsets P bs (acc ||| (1 <<< b))

def selOr (occ : Nat) : List Nat → Nat
  | [] => 0
  | b :: bs => (if occ.testBit b then 1 <<< b else 0) ||| selOr occ bs

theorem forallSubsets_sel (P : Nat → Bool) (bs : List Nat) (acc occ : Nat)
    (h : forallSubsets P bs acc = true) : P (acc ||| selOr occ bs) = true := by
  induction bs generalizing acc with
  | nil => simpa [forallSubsets, selOr] using h
  | cons b bs ih =>
    simp only [forallSubsets, Bool.and_eq_true] at h
    simp only [selOr]
    by_cases hb : occ.testBit b
    · simp only [hb, if_true]
      have := ih (acc ||| (1 <<< b)) h.2
      simpa [Nat.or_assoc] using this
    · simp only [hb]
      have := ih acc h.1
      simpa using this

def maskOf : List Nat → Nat
  | [] => 0
  | b :: bs => (1 <<< b) ||| maskOf bs

theorem testBit_maskOf (bs : List Nat) (i : Nat) : (maskOf bs).testBit i = bs.contains i := by
  induction bs with
  | nil => simp [maskOf]
  | cons b bs ih =>
    simp only [maskOf, Nat.testBit_or, ih, Nat.one_shiftLeft, Nat.testBit_two_pow, List.contains_cons]
    by_cases h : b = i
    · subst h; simp
    · have h' : (i == b) = false := by
        simp only [beq_eq_false_iff_ne, ne_eq]; exact fun e => h e.symm
      simp [h, h']

theorem testBit_selOr (occ : Nat) (bs : List Nat) (i : Nat) :
    (selOr occ bs).testBit i = (occ.testBit i && bs.contains i) := by
  induction bs with
  | nil => simp [selOr]
  | cons b bs ih =>
    simp only [selOr, Nat.testBit_or, ih, List.contains_cons]
    by_cases h : b = i
    · subst h
      by_cases hb : occ.testBit b <;> simp [hb, Nat.one_shiftLeft]
    · have h' : (i == b) = false := by
        simp only [beq_eq_false_iff_ne, ne_eq]; exact fun e => h e.symm
      by_cases hb : occ.testBit b <;> simp [hb, h, h', Nat.one_shiftLeft]

theorem and_maskOf (occ : Nat) (bs : List Nat) : occ &&& maskOf bs = selOr occ bs := by
  apply Nat.eq_of_testBit_eq
  intro i
  rw [Nat.testBit_and, testBit_maskOf, testBit_selOr]

/-- the lifting: a predicate checked on every subset of the mask bits holds at `occ &&& mask` for every `occ` -/
theorem forall_occ (P : Nat → Bool) (bs : List Nat) (h : forallSubsets P bs 0 = true) (occ : Nat) :
    P (occ &&& maskOf bs) = true := by
  have := forallSubsets_sel P bs 0 occ h
  simpa [and_maskOf] using this

/-- positions of the set bits below 64, ascending -/
def bitsOf (m : Nat) : List Nat := (List.range 64).filter m.testBit

end Inkayaku.Subsets
