import Inkayaku.Proofs.SearchFlipAbs
/-!
# C11 (search half), part 3b: the colour flip of a well-formed board is well-formed

`wf_flipBoard : WF.wf b = true → WF.wf (flipBoard b) = true` – all fourteen conjuncts (disjoint words, one king per side, no pawn
on the first/last rank, side to move, the side not to move is not in check, castling rights imply king and rook at home, the
e.p. square lies behind a pawn that just made a double step, clocks).
-/
namespace Inkayaku.SearchFlip
open Inkayaku.Board Inkayaku.WF Inkayaku.Generate Inkayaku.MakeWf Inkayaku.EvalFlip

theorem get_flipSide (s : Side) {q : Nat} (h1 : 1 ≤ q) (h6 : q ≤ 6) : (flipSide s).get q = flipU (s.get q) := by
  have hq : q = 1 ∨ q = 2 ∨ q = 3 ∨ q = 4 ∨ q = 5 ∨ q = 6 := by omega
  rcases hq with rfl|rfl|rfl|rfl|rfl|rfl <;> rfl

theorem testU_flipU_lt (x : UInt64) {t : Nat} (ht : t < 64) : testU (flipU x) t = testU x (mirror t) := by
  rw [testU_flipU, decide_eq_true ht, Bool.true_and]

theorem sd_flipSide {s : Side} (h : SD s) : SD (flipSide s) := by
  intro q q' h1 h6 h1' h6' hne t ht
  rw [get_flipSide s h1 h6, get_flipSide s h1' h6', testU_flipU_lt _ ht, testU_flipU_lt _ ht]
  exact h q q' h1 h6 h1' h6' hne (mirror t) (mirror_lt ht)

theorem cross_flipSide {a p : Side} (h : Cross a p) : Cross (flipSide a) (flipSide p) := by
  intro q q' h1 h6 h1' h6' t ht
  rw [get_flipSide a h1 h6, get_flipSide p h1' h6', testU_flipU_lt _ ht, testU_flipU_lt _ ht]
  exact h q q' h1 h6 h1' h6' (mirror t) (mirror_lt ht)

theorem flipU_rank18 : flipU rank18U = rank18U := by decide +kernel

theorem wfpop_flipU (x : UInt64) : WF.popcount (flipU x) = WF.popcount x := popcount_flipU x

/-- **the flip of a legal position is a legal position** -/
theorem wf_flipBoard {b : Board} (h : wf b = true) : wf (flipBoard b) = true := by
  have hP := (wf_iff b).mp h
  rw [wf_iff]
  have ht := hP.turn
  obtain ⟨hsw, hsk, hc⟩ := (disj_iff b.white b.black).mp hP.disj
  have m60 : mirror 60 = 4 := by decide
  have m63 : mirror 63 = 7 := by decide
  have m56 : mirror 56 = 0 := by decide
  have m4 : mirror 4 = 60 := by decide
  have m7 : mirror 7 = 63 := by decide
  have m0 : mirror 0 = 56 := by decide
  refine ⟨?_, ?_, ?_, ?_, ?_, ?_, ?_, ?_, ?_, ?_, ?_, hP.fm1, hP.fm2, hP.hm⟩
  · exact (disj_iff (flipSide b.black) (flipSide b.white)).mpr ⟨sd_flipSide hsk, sd_flipSide hsw, cross_flipSide hc.symm⟩
  · show WF.popcount (flipU b.black.kings) = 1
    rw [wfpop_flipU]; exact hP.bk
  · show WF.popcount (flipU b.white.kings) = 1
    rw [wfpop_flipU]; exact hP.wk
  · show (flipU b.black.pawns ||| flipU b.white.pawns) &&& rank18U = 0
    rw [← flipU_rank18, ← flipU_or, ← flipU_and, flipU_eq_zero, UInt64.or_comm]
    exact hP.pawns
  · show 1 - b.turn ≤ 1
    omega
  · rw [isValid_flip b ht]
    · exact hP.valid
    · unfold Board.passive Board.whiteTurn
      have : b.turn = 0 ∨ b.turn = 1 := by omega
      rcases this with e | e <;> rw [e]
      · exact hP.bk
      · exact hP.wk
  · show (!b.black.ks || (testU (flipU b.black.kings) E1 && testU (flipU b.black.rooks) H1)) = true
    rw [testU_flipU_lt _ (by decide : E1 < 64), testU_flipU_lt _ (by decide : H1 < 64)]
    show (!b.black.ks || (testU b.black.kings (mirror 60) && testU b.black.rooks (mirror 63))) = true
    rw [m60, m63]; exact hP.bks
  · show (!b.black.qs || (testU (flipU b.black.kings) E1 && testU (flipU b.black.rooks) A1)) = true
    rw [testU_flipU_lt _ (by decide : E1 < 64), testU_flipU_lt _ (by decide : A1 < 64)]
    show (!b.black.qs || (testU b.black.kings (mirror 60) && testU b.black.rooks (mirror 56))) = true
    rw [m60, m56]; exact hP.bqs
  · show (!b.white.ks || (testU (flipU b.white.kings) E8 && testU (flipU b.white.rooks) H8)) = true
    rw [testU_flipU_lt _ (by decide : E8 < 64), testU_flipU_lt _ (by decide : H8 < 64)]
    show (!b.white.ks || (testU b.white.kings (mirror 4) && testU b.white.rooks (mirror 7))) = true
    rw [m4, m7]; exact hP.wks
  · show (!b.white.qs || (testU (flipU b.white.kings) E8 && testU (flipU b.white.rooks) A8)) = true
    rw [testU_flipU_lt _ (by decide : E8 < 64), testU_flipU_lt _ (by decide : A8 < 64)]
    show (!b.white.qs || (testU b.white.kings (mirror 4) && testU b.white.rooks (mirror 0))) = true
    rw [m4, m0]; exact hP.wqs
  · -- the e.p. square
    have hep := hP.ep
    unfold epOK at hep ⊢
    have hfull : (flipBoard b).white.full ||| (flipBoard b).black.full = flipU (b.white.full ||| b.black.full) := by
      show (flipSide b.black).full ||| (flipSide b.white).full = _
      rw [flipSide_full, flipSide_full, flipU_or, UInt64.or_comm]
    simp only [hfull]
    rw [flipBoard_ep]
    by_cases e0 : b.ep = 0
    · simp [e0]
    · have e1 : (b.ep == 0) = false := by simpa using e0
      rw [e1] at hep
      simp only [Bool.false_or] at hep
      rw [e1]
      simp only [Bool.false_eq_true, if_false]
      have tt : (flipBoard b).turn = 1 - b.turn := rfl
      rw [tt]
      have hmir : ∀ s, mir s = mirror s := fun _ => rfl
      have : b.turn = 0 ∨ b.turn = 1 := by omega
      rcases this with e | e
      · rw [e] at hep ⊢
        simp only [beq_self_eq_true, if_true, Bool.and_eq_true, beq_iff_eq, Bool.not_eq_true'] at hep
        obtain ⟨⟨⟨h1, h2⟩, h3⟩, h4⟩ := hep
        have hlt : b.ep < 64 := by omega
        have a1 : mir b.ep / 8 = 5 := by unfold mir; omega
        have a2 : mir b.ep - 8 = mirror (b.ep + 8) := by unfold mir mirror; omega
        have a3 : mir b.ep + 8 = mirror (b.ep - 8) := by unfold mir mirror; omega
        have a4 : mir b.ep ≠ 0 := by unfold mir; omega
        have a5 : (mir b.ep == 0) = false := by simpa using a4
        show (mir b.ep == 0 || (if (1 - 0 == 0) = true then _ else
          mir b.ep / 8 == 5 && testU (flipU b.black.pawns) (mir b.ep - 8) && !testU (flipU (b.white.full ||| b.black.full)) (mir b.ep)
            && !testU (flipU (b.white.full ||| b.black.full)) (mir b.ep + 8))) = true
        have b1 : b.ep + 8 < 64 := by omega
        have b2 : b.ep - 8 < 64 := by omega
        rw [a5, a1, a2, a3, hmir]
        simp only [testU_flipU_mirror _ b1, testU_flipU_mirror _ hlt, testU_flipU_mirror _ b2, h2, h3, h4]
        rfl
      · rw [e] at hep ⊢
        simp only [Nat.reduceBEq, Bool.false_eq_true, if_false, Bool.and_eq_true, beq_iff_eq, Bool.not_eq_true'] at hep
        obtain ⟨⟨⟨h1, h2⟩, h3⟩, h4⟩ := hep
        have hlt : b.ep < 64 := by omega
        have a1 : mir b.ep / 8 = 2 := by unfold mir; omega
        have a2 : mir b.ep + 8 = mirror (b.ep - 8) := by unfold mir mirror; omega
        have a3 : mir b.ep - 8 = mirror (b.ep + 8) := by unfold mir mirror; omega
        have a4 : mir b.ep ≠ 0 := by unfold mir; omega
        have a5 : (mir b.ep == 0) = false := by simpa using a4
        show (mir b.ep == 0 || (if (1 - 1 == 0) = true then
          mir b.ep / 8 == 2 && testU (flipU b.white.pawns) (mir b.ep + 8) && !testU (flipU (b.white.full ||| b.black.full)) (mir b.ep)
            && !testU (flipU (b.white.full ||| b.black.full)) (mir b.ep - 8) else _)) = true
        have b1 : b.ep + 8 < 64 := by omega
        have b2 : b.ep - 8 < 64 := by omega
        rw [a5, a1, a2, a3, hmir]
        simp only [testU_flipU_mirror _ b1, testU_flipU_mirror _ hlt, testU_flipU_mirror _ b2, h2, h3, h4]
        rfl

end Inkayaku.SearchFlip
