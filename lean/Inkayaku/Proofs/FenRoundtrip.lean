import Inkayaku.Model.FenBoard
import Inkayaku.Model.WF
import Inkayaku.Spec.FenText
/-!
# Helper lemmas for C12 (FEN reading and writing are mutually inverse)

Sections: 1 bits, 2 splitting/joining, 3 characters and rank syntax, 4 decoding a printed rank, 5 the placement
field, 6 the other fields, 7 the whole string (`parseChars_printA`, `boardOfFields_spec`), 8 the model printer
against the specification printer (`printFen_eq`), 9 representable boards and the round trip of
boards; 10 inversion of the grammar check (also used by the rejection theorems); 11 every accepted text is the
printed text of a position (`printFen_boardOfFields`).
-/
namespace Inkayaku.FenRoundtrip
open Inkayaku Inkayaku.Board Inkayaku.FenBoard Inkayaku.FenSyntax Inkayaku.FenText

/-! ## 1. bits -/

theorem testU_or (x y : UInt64) (s : Nat) : testU (x ||| y) s = (testU x s || testU y s) := by
  simp [testU, UInt64.toNat_or, Nat.testBit_or]

theorem testU_and (x y : UInt64) (s : Nat) : testU (x &&& y) s = (testU x s && testU y s) := by
  simp [testU, UInt64.toNat_and, Nat.testBit_and]

theorem testU_zero (s : Nat) : testU 0 s = false := by simp [testU]

theorem testU_ge (x : UInt64) {s : Nat} (h : 64 ≤ s) : testU x s = false := by
  unfold testU
  apply Nat.testBit_lt_two_pow
  exact Nat.lt_of_lt_of_le x.toNat_lt (Nat.pow_le_pow_right (by decide) h)

theorem ext_testU {x y : UInt64} (h : ∀ s, s < 64 → testU x s = testU y s) : x = y := by
  apply UInt64.toNat_inj.mp
  apply Nat.eq_of_testBit_eq
  intro i
  by_cases hi : i < 64
  · exact h i hi
  · have := testU_ge x (Nat.le_of_not_lt hi); have := testU_ge y (Nat.le_of_not_lt hi)
    simp_all [testU]

theorem testU_bitU {s : Nat} (hs : s < 64) (t : Nat) : testU (bitU s) t = decide (s = t) := by
  by_cases ht : t < 64
  · have h1 : s.toUInt64.toNat % 64 = s := by
      simp [Nat.toUInt64]; omega
    simp only [testU, bitU, UInt64.toNat_shiftLeft, h1]
    have : (1 : UInt64).toNat = 1 := rfl
    rw [this, Nat.one_shiftLeft, Nat.mod_eq_of_lt (Nat.pow_lt_pow_right (by decide) hs), Nat.testBit_two_pow]
  · rw [testU_ge _ (Nat.le_of_not_lt ht)]
    have : s ≠ t := by omega
    simp [this]

theorem eq_zero_iff_testU (x : UInt64) : x = 0 ↔ ∀ s, s < 64 → testU x s = false := by
  constructor
  · intro h s _; subst h; exact testU_zero s
  · intro h; apply ext_testU; intro s hs; rw [h s hs, testU_zero]

theorem and_bitU_ne_zero (x : UInt64) {s : Nat} (hs : s < 64) : (x &&& bitU s != 0) = testU x s := by
  cases hx : testU x s
  · have : x &&& bitU s = 0 := by
      rw [eq_zero_iff_testU]; intro t ht
      rw [testU_and, testU_bitU hs]
      by_cases h : s = t
      · subst h; simp [hx]
      · simp [h]
    simp [this]
  · have : x &&& bitU s ≠ 0 := by
      intro h
      have := (eq_zero_iff_testU _).mp h s hs
      rw [testU_and, testU_bitU hs, hx] at this
      simp at this
    simp [this]

/-! ## 2. splitting and joining -/

theorem splitOnChar_ne_nil (sep : Char) (l : List Char) : splitOnChar sep l ≠ [] := by
  induction l with
  | nil => simp [splitOnChar]
  | cons c cs ih =>
    unfold splitOnChar
    split
    · simp
    · split <;> simp

theorem splitOnChar_cons_ne {sep c : Char} (h : c ≠ sep) (cs : List Char) :
    ∃ p ps, splitOnChar sep cs = p :: ps ∧ splitOnChar sep (c :: cs) = (c :: p) :: ps := by
  cases hs : splitOnChar sep cs with
  | nil => exact absurd hs (splitOnChar_ne_nil sep cs)
  | cons p ps => exact ⟨p, ps, rfl, by simp [splitOnChar, h, hs]⟩

theorem splitOnChar_append {sep : Char} {a : List Char} (h : sep ∉ a) (rest : List Char) :
    splitOnChar sep (a ++ sep :: rest) = a :: splitOnChar sep rest := by
  induction a with
  | nil => simp [splitOnChar]
  | cons c cs ih =>
    have hc : c ≠ sep := fun e => h (by simp [e])
    have hcs : sep ∉ cs := fun e => h (by simp [e])
    obtain ⟨p, ps, h1, h2⟩ := splitOnChar_cons_ne hc (cs ++ sep :: rest)
    rw [List.cons_append, h2]
    rw [ih hcs] at h1
    injection h1 with h3 h4
    rw [h3, h4]

theorem splitOnChar_of_not_mem {sep : Char} {a : List Char} (h : sep ∉ a) : splitOnChar sep a = [a] := by
  induction a with
  | nil => simp [splitOnChar]
  | cons c cs ih =>
    have hc : c ≠ sep := fun e => h (by simp [e])
    have hcs : sep ∉ cs := fun e => h (by simp [e])
    obtain ⟨p, ps, h1, h2⟩ := splitOnChar_cons_ne hc cs
    rw [h2]; rw [ih hcs] at h1
    injection h1 with h3 h4
    rw [h3, h4]

theorem splitOnChar_joinWith {sep : Char} : ∀ {rs : List (List Char)}, rs ≠ [] → (∀ r ∈ rs, sep ∉ r) →
    splitOnChar sep (joinWith sep rs) = rs
  | [], h, _ => absurd rfl h
  | [r], _, h => by simpa [joinWith] using splitOnChar_of_not_mem (h r (by simp))
  | r :: r' :: rs, _, h => by
    rw [joinWith, splitOnChar_append (h r (by simp)),
      splitOnChar_joinWith (by simp) (fun x hx => h x (List.mem_cons_of_mem _ hx))]

theorem joinWith_splitOnChar (sep : Char) (l : List Char) : joinWith sep (splitOnChar sep l) = l := by
  induction l with
  | nil => simp [splitOnChar, joinWith]
  | cons c cs ih =>
    by_cases hc : c = sep
    · subst hc
      cases hs : splitOnChar c cs with
      | nil => exact absurd hs (splitOnChar_ne_nil c cs)
      | cons p ps => simp [splitOnChar, joinWith, hs] at ih ⊢; exact ih
    · obtain ⟨p, ps, h1, h2⟩ := splitOnChar_cons_ne hc cs
      rw [h2]; rw [h1] at ih
      cases ps with
      | nil => simp [joinWith] at ih ⊢; exact ih
      | cons q qs => simp [joinWith] at ih ⊢; exact ih

theorem not_mem_of_mem_splitOnChar {sep : Char} {l r : List Char} (h : r ∈ splitOnChar sep l) : sep ∉ r := by
  induction l generalizing r with
  | nil => simp [splitOnChar] at h; subst h; simp
  | cons c cs ih =>
    by_cases hc : c = sep
    · subst hc
      simp [splitOnChar] at h
      rcases h with h | h
      · subst h; simp
      · exact ih h
    · obtain ⟨p, ps, h1, h2⟩ := splitOnChar_cons_ne hc cs
      rw [h2] at h; rw [h1] at ih
      simp at h
      rcases h with h | h
      · subst h
        have := ih (r := p) (by simp)
        simp [this]; exact fun e => hc e.symm
      · exact ih (by simp [h])

theorem mem_joinWith {sep c : Char} {rs : List (List Char)} (h : c ∈ joinWith sep rs) :
    c = sep ∨ ∃ r ∈ rs, c ∈ r := by
  match rs, h with
  | [r], h => exact .inr ⟨r, by simp, by simpa [joinWith] using h⟩
  | r :: r' :: rs, h =>
    simp [joinWith] at h
    rcases h with h | h | h
    · exact .inr ⟨r, by simp, h⟩
    · exact .inl h
    · rcases mem_joinWith h with h | ⟨x, hx, hc⟩
      · exact .inl h
      · exact .inr ⟨x, List.mem_cons_of_mem _ hx, hc⟩

/-! ## 3. characters -/

theorem digit_props {n : Nat} (h1 : 1 ≤ n) (h8 : n ≤ 8) :
    isAsciiDigit (digit n) = true ∧ digitVal (digit n) = n ∧ isPlacementChar (digit n) = true
    ∧ natToChars n = [digit n] ∧ digit n ≠ '/' ∧ digit n ≠ ' ' := by
  have h : ∀ m : Fin 9, 1 ≤ m.val → isAsciiDigit (digit m.val) = true ∧ digitVal (digit m.val) = m.val
      ∧ isPlacementChar (digit m.val) = true ∧ natToChars m.val = [digit m.val] ∧ digit m.val ≠ '/'
      ∧ digit m.val ≠ ' ' := by decide
  exact h ⟨n, by omega⟩ h1

theorem piece_props {w : Bool} {k : Nat} (h1 : 1 ≤ k) (h6 : k ≤ 6) :
    isAsciiDigit (pieceChar w k) = false ∧ isPlacementChar (pieceChar w k) = true
    ∧ pieceOfChar (pieceChar w k) = some k ∧ isUpper (pieceChar w k) = w ∧ pieceFenChar k w = pieceChar w k
    ∧ pieceChar w k ≠ '/' ∧ pieceChar w k ≠ ' ' := by
  have h : ∀ (w : Bool) (m : Fin 7), 1 ≤ m.val →
      isAsciiDigit (pieceChar w m.val) = false ∧ isPlacementChar (pieceChar w m.val) = true
      ∧ pieceOfChar (pieceChar w m.val) = some m.val ∧ isUpper (pieceChar w m.val) = w
      ∧ pieceFenChar m.val w = pieceChar w m.val ∧ pieceChar w m.val ≠ '/' ∧ pieceChar w m.val ≠ ' ' := by decide
  exact h w ⟨k, by omega⟩ h1

/-- the cells of a list carry piece kinds -/
def CellsOK (cs : List Cell) : Prop := ∀ w k, some (w, k) ∈ cs → 1 ≤ k ∧ k ≤ 6

theorem CellsOK.tail {c : Cell} {cs : List Cell} (h : CellsOK (c :: cs)) : CellsOK cs :=
  fun w k hm => h w k (List.mem_cons_of_mem _ hm)

theorem CellsOK.head {w : Bool} {k : Nat} {cs : List Cell} (h : CellsOK (some (w, k) :: cs)) : 1 ≤ k ∧ k ≤ 6 :=
  h w k (by simp)

theorem rankCount_nil : rankCount [] = 0 := rfl
theorem rankCount_cons (c : Char) (r : List Char) :
    rankCount (c :: r) = (if isAsciiDigit c then digitVal c else 1) + rankCount r := by
  simp [rankCount]
theorem rankCount_append (a b : List Char) : rankCount (a ++ b) = rankCount a + rankCount b := by
  simp [rankCount]

theorem rankCount_flush {n : Nat} (h : n ≤ 8) : rankCount (flush n) = n := by
  unfold flush
  split
  · simp [rankCount_nil, *]
  · have := digit_props (n := n) (by omega) h
    simp [rankCount_cons, rankCount_nil, this.1, this.2.1]

theorem flush_all_placement {n : Nat} (h : n ≤ 8) : (flush n).all isPlacementChar = true := by
  unfold flush
  split
  · rfl
  · have := digit_props (n := n) (by omega) h
    simp [this.2.2.1]

theorem rankCount_compress : ∀ (cs : List Cell) (n : Nat), CellsOK cs → n + cs.length ≤ 8 →
    rankCount (compress cs n) = n + cs.length
  | [], n, _, h => by simpa [compress] using rankCount_flush (n := n) (by simpa using h)
  | none :: cs, n, hk, h => by
    rw [compress, rankCount_compress cs (n + 1) hk.tail (by simp at h; omega)]; simp; omega
  | some (w, k) :: cs, n, hk, h => by
    have hp := piece_props (w := w) hk.head.1 hk.head.2
    simp at h
    rw [compress, rankCount_append, rankCount_cons, rankCount_flush (by omega),
      rankCount_compress cs 0 hk.tail (by omega), hp.1]
    simp; omega

theorem compress_all_placement : ∀ (cs : List Cell) (n : Nat), CellsOK cs → n + cs.length ≤ 8 →
    (compress cs n).all isPlacementChar = true
  | [], n, _, h => by simpa [compress] using flush_all_placement (n := n) (by simpa using h)
  | none :: cs, n, hk, h => by
    rw [compress]; exact compress_all_placement cs (n + 1) hk.tail (by simp at h; omega)
  | some (w, k) :: cs, n, hk, h => by
    have hp := piece_props (w := w) hk.head.1 hk.head.2
    simp at h
    rw [compress, List.all_append, List.all_cons, flush_all_placement (by omega), hp.2.1,
      compress_all_placement cs 0 hk.tail (by omega)]
    rfl

theorem hasAdjacentDigits_cons_nondigit {c : Char} (h : isAsciiDigit c = false) (r : List Char) :
    hasAdjacentDigits (c :: r) = hasAdjacentDigits r := by
  cases r with
  | nil => simp [hasAdjacentDigits]
  | cons d r => simp [hasAdjacentDigits, h]

theorem hasAdjacentDigits_flush_cons {c : Char} (h : isAsciiDigit c = false) (n : Nat) (r : List Char) :
    hasAdjacentDigits (flush n ++ c :: r) = hasAdjacentDigits r := by
  unfold flush
  split
  · simpa using hasAdjacentDigits_cons_nondigit h r
  · simp [hasAdjacentDigits, h]; exact hasAdjacentDigits_cons_nondigit h r

theorem compress_no_adjacent : ∀ (cs : List Cell) (n : Nat), CellsOK cs →
    hasAdjacentDigits (compress cs n) = false
  | [], n, _ => by
    unfold compress flush; split <;> simp [hasAdjacentDigits]
  | none :: cs, n, hk => by rw [compress]; exact compress_no_adjacent cs (n + 1) hk.tail
  | some (w, k) :: cs, n, hk => by
    have hp := piece_props (w := w) hk.head.1 hk.head.2
    rw [compress, hasAdjacentDigits_flush_cons hp.1]; exact compress_no_adjacent cs 0 hk.tail

theorem length_le_rankCount : ∀ (r : List Char), r.all isPlacementChar = true → r.length ≤ rankCount r
  | [], _ => by simp
  | c :: r, h => by
    simp at h
    have ih := length_le_rankCount r (by simpa using h.2)
    rw [rankCount_cons]
    have : isAsciiDigit c = true → 1 ≤ digitVal c := by
      have hc := h.1
      simp [isPlacementChar] at hc
      rcases hc with hc | hc | hc | hc | hc | hc | hc | hc | hc | hc | hc | hc | hc | hc | hc | hc | hc | hc | hc | hc <;>
        subst hc <;> decide
    split
    · have := this ‹_›; simp; omega
    · simp; omega

/-- a rank text made of placement characters that counts eight squares has the regex shape -/
theorem rankShapeOk_of_count {r : List Char} (h : r.all isPlacementChar = true) (hc : rankCount r = 8) :
    rankShapeOk r = true := by
  have h1 := length_le_rankCount r h
  have h2 : r ≠ [] := by intro e; subst e; simp [rankCount] at hc
  have h3 : 1 ≤ r.length := by cases r <;> simp_all
  simp [rankShapeOk, h]; omega

theorem slash_not_mem_of_all_placement {r : List Char} (h : r.all isPlacementChar = true) : '/' ∉ r := by
  intro hm
  have := List.all_eq_true.mp h _ hm
  revert this; decide

/-! ## 4. decoding a printed rank -/

/-- the occupancy word of colour `w` (true = white) and kind `k` in a pair of sides -/
def word (s : Side × Side) (w : Bool) (k : Nat) : UInt64 := (if w then s.1 else s.2).get k

theorem get_set (s : Side) {k k' : Nat} (hk : 1 ≤ k ∧ k ≤ 6) (hk' : 1 ≤ k' ∧ k' ≤ 6) (v : UInt64) :
    (s.set k v).get k' = if k = k' then v else s.get k' := by
  obtain ⟨h1, h2⟩ := hk; obtain ⟨h3, h4⟩ := hk'
  have : ∀ (a b : Fin 7), 1 ≤ a.val → 1 ≤ b.val →
      (s.set a.val v).get b.val = if a.val = b.val then v else s.get b.val := by
    intro a b
    match a, b with
    | ⟨0, _⟩, _ => intro h; simp at h
    | _, ⟨0, _⟩ => intro _ h; simp at h
    | ⟨a + 1, ha⟩, ⟨b + 1, hb⟩ =>
      intro _ _
      have : a < 6 := by omega
      have : b < 6 := by omega
      rcases a with _ | _ | _ | _ | _ | _ | a <;> rcases b with _ | _ | _ | _ | _ | _ | b <;>
        first | rfl | omega
  exact this ⟨k, by omega⟩ ⟨k', by omega⟩ h1 h3

theorem set_o0 (s : Side) {k : Nat} (hk : 1 ≤ k) (v : UInt64) : (s.set k v).o0 = s.o0 := by
  unfold Side.set
  split <;> first | rfl | omega

theorem placeRank_flush (idx : Nat) {n : Nat} (h : n ≤ 8) (r : List Char) (file : Nat) (ws : Side × Side) :
    placeRank idx (flush n ++ r) file ws = placeRank idx r (file + n) ws := by
  unfold flush
  split
  · subst_vars; simp
  · have := digit_props (n := n) (by omega) h
    obtain ⟨W, B⟩ := ws
    simp [placeRank, this.1, this.2.1]

theorem placeRank_piece (idx : Nat) {w : Bool} {k : Nat} (hk : 1 ≤ k ∧ k ≤ 6) (r : List Char) (file : Nat)
    (W B : Side) :
    placeRank idx (pieceChar w k :: r) file (W, B) = placeRank idx r (file + 1)
      (if w then (W.set k (W.get k ||| bitU (file + 8 * idx)), B)
       else (W, B.set k (B.get k ||| bitU (file + 8 * idx)))) := by
  have hp := piece_props (w := w) hk.1 hk.2
  rw [placeRank]
  simp only [hp.1, hp.2.2.1, hp.2.2.2.1]
  cases w <;> simp

theorem word_after_piece {w : Bool} {k : Nat} (hk : 1 ≤ k ∧ k ≤ 6) (m : UInt64) (W B : Side)
    (w' : Bool) {k' : Nat} (hk' : 1 ≤ k' ∧ k' ≤ 6) :
    word (if w then (W.set k (W.get k ||| m), B) else (W, B.set k (B.get k ||| m))) w' k'
      = if w = w' ∧ k = k' then word (W, B) w k ||| m else word (W, B) w' k' := by
  cases w <;> cases w' <;> simp [word, get_set _ hk hk'] <;> split <;> simp_all

/-- the squares `f .. f+len-1` of row `idx`, whose contents are given by `g`, are decoded from their printed text -/
theorem placeRank_compress (g : Nat → Cell) (idx : Nat) (hidx : idx < 8)
    (hg : ∀ x w k, g x = some (w, k) → 1 ≤ k ∧ k ≤ 6) :
    ∀ (len f n file : Nat) (W B : Side), file + n = f → f + len ≤ 8 →
      let r := placeRank idx (compress ((List.range' f len).map g) n) file (W, B)
      (∀ w k sq, 1 ≤ k ∧ k ≤ 6 → sq < 64 →
        (testU (word r w k) sq = true ↔
          testU (word (W, B) w k) sq = true ∨ ∃ x, f ≤ x ∧ x < f + len ∧ sq = x + 8 * idx ∧ g x = some (w, k)))
      ∧ r.1.o0 = W.o0 ∧ r.2.o0 = B.o0 := by
  intro len
  induction len with
  | zero =>
    intro f n file W B hf hlen
    have : placeRank idx (compress [] n) file (W, B) = (W, B) := by
      have := placeRank_flush idx (n := n) (by omega) [] file (W, B)
      simpa [compress, placeRank] using this
    simp only [List.range'_zero, List.map_nil, this, and_self, and_true]
    intro w k sq _ _
    constructor
    · exact fun h => .inl h
    · rintro (h | ⟨x, h1, h2, _⟩)
      · exact h
      · omega
  | succ len ih =>
    intro f n file W B hf hlen
    rw [List.range'_succ, List.map_cons]
    cases hgf : g f with
    | none =>
      rw [compress]
      have := ih (f + 1) (n + 1) file W B (by omega) (by omega)
      refine ⟨?_, this.2⟩
      intro w k sq hk hsq
      rw [this.1 w k sq hk hsq]
      constructor
      · rintro (h | ⟨x, h1, h2, h3, h4⟩)
        · exact .inl h
        · exact .inr ⟨x, by omega, by omega, h3, h4⟩
      · rintro (h | ⟨x, h1, h2, h3, h4⟩)
        · exact .inl h
        · by_cases hx : x = f
          · subst hx; rw [hgf] at h4; cases h4
          · exact .inr ⟨x, by omega, by omega, h3, h4⟩
    | some c =>
      obtain ⟨w0, k0⟩ := c
      have hk0 := hg f w0 k0 hgf
      rw [compress, placeRank_flush idx (by omega), placeRank_piece idx hk0, hf]
      have hsqf : f + 8 * idx < 64 := by omega
      generalize hWB : (if w0 then (W.set k0 (W.get k0 ||| bitU (f + 8 * idx)), B)
        else (W, B.set k0 (B.get k0 ||| bitU (f + 8 * idx)))) = WB'
      obtain ⟨W', B'⟩ := WB'
      have := ih (f + 1) 0 (f + 1) W' B' (by omega) (by omega)
      refine ⟨?_, ?_, ?_⟩
      · intro w k sq hk hsq
        rw [this.1 w k sq hk hsq, ← hWB, word_after_piece hk0 _ W B w hk]
        constructor
        · rintro (h | ⟨x, h1, h2, h3, h4⟩)
          · split at h
            · rename_i heq
              rw [testU_or, testU_bitU hsqf] at h
              simp at h
              rcases h with h | h
              · left; rw [← heq.1, ← heq.2]; exact h
              · right; exact ⟨f, by omega, by omega, h.symm, by rw [hgf, heq.1, heq.2]⟩
            · exact .inl h
          · exact .inr ⟨x, by omega, by omega, h3, h4⟩
        · rintro (h | ⟨x, h1, h2, h3, h4⟩)
          · left
            split
            · rename_i heq
              rw [testU_or, heq.1, heq.2, h]; rfl
            · exact h
          · by_cases hx : x = f
            · subst hx
              rw [hgf] at h4; cases h4
              left
              simp [testU_or, testU_bitU hsqf, h3]
            · exact .inr ⟨x, by omega, by omega, h3, h4⟩
      · rw [this.2.1]
        have : W' = (if w0 then (W.set k0 (W.get k0 ||| bitU (f + 8 * idx)), B)
          else (W, B.set k0 (B.get k0 ||| bitU (f + 8 * idx)))).1 := by rw [hWB]
        rw [this]; cases w0 <;> simp [set_o0 _ hk0.1]
      · rw [this.2.2]
        have : B' = (if w0 then (W.set k0 (W.get k0 ||| bitU (f + 8 * idx)), B)
          else (W, B.set k0 (B.get k0 ||| bitU (f + 8 * idx)))).2 := by rw [hWB]
        rw [this]; cases w0 <;> simp [set_o0 _ hk0.1]

/-! ## 5. the placement field -/

theorem at_valid {p : APos} (hv : p.Valid) {x : Nat} {w : Bool} {k : Nat} (h : p.at x = some (w, k)) :
    1 ≤ k ∧ k ≤ 6 := by
  unfold APos.at at h
  split at h
  · exact hv.kinds _ w k h
  · cases h

theorem rankCells_ok {p : APos} (hv : p.Valid) (row : Nat) : CellsOK (rankCells p row) := by
  intro w k hm
  simp only [rankCells, List.mem_map] at hm
  obtain ⟨f, _, hf⟩ := hm
  exact at_valid hv hf

theorem rankCells_length (p : APos) (row : Nat) : (rankCells p row).length = 8 := by simp [rankCells]

theorem rankText_props {p : APos} (hv : p.Valid) (row : Nat) :
    rankCount (rankText p row) = 8 ∧ (rankText p row).all isPlacementChar = true
    ∧ hasAdjacentDigits (rankText p row) = false := by
  refine ⟨?_, ?_, ?_⟩
  · rw [rankText, rankCount_compress _ _ (rankCells_ok hv row) (by simp [rankCells_length])]
    simp [rankCells_length]
  · exact compress_all_placement _ _ (rankCells_ok hv row) (by simp [rankCells_length])
  · exact compress_no_adjacent _ _ (rankCells_ok hv row)

theorem rankText_eq (p : APos) (row : Nat) :
    rankText p row = compress ((List.range' 0 8).map fun f => p.at (f + 8 * row)) 0 := by
  simp [rankText, rankCells, List.range_eq_range']

theorem placeRanks_ranks {p : APos} (hv : p.Valid) :
    ∀ (len r : Nat) (W B : Side), r + len ≤ 8 →
      let res := placeRanks ((List.range' r len).map (rankText p)) r (W, B)
      (∀ w k sq, 1 ≤ k ∧ k ≤ 6 → sq < 64 →
        (testU (word res w k) sq = true ↔
          testU (word (W, B) w k) sq = true ∨ (8 * r ≤ sq ∧ sq < 8 * (r + len) ∧ p.at sq = some (w, k))))
      ∧ res.1.o0 = W.o0 ∧ res.2.o0 = B.o0 := by
  intro len
  induction len with
  | zero =>
    intro r W B _
    simp only [List.range'_zero, List.map_nil, placeRanks, and_self, and_true]
    intro w k sq _ _
    constructor
    · exact fun h => .inl h
    · rintro (h | h)
      · exact h
      · omega
  | succ len ih =>
    intro r W B hr
    rw [List.range'_succ, List.map_cons, placeRanks, rankText_eq]
    have h1 := placeRank_compress (fun f => p.at (f + 8 * r)) r (by omega) (fun x w k h => at_valid hv h)
      8 0 0 0 W B rfl (by omega)
    generalize placeRank r (compress ((List.range' 0 8).map fun f => p.at (f + 8 * r)) 0) 0 (W, B) = WB' at h1
    obtain ⟨W', B'⟩ := WB'
    have h2 := ih (r + 1) W' B' (by omega)
    refine ⟨?_, by rw [h2.2.1, h1.2.1], by rw [h2.2.2, h1.2.2]⟩
    intro w k sq hk hsq
    rw [h2.1 w k sq hk hsq, h1.1 w k sq hk hsq]
    constructor
    · rintro ((h | ⟨x, _, hx, h3, h4⟩) | ⟨h3, h4, h5⟩)
      · exact .inl h
      · subst h3; exact .inr ⟨by omega, by omega, h4⟩
      · exact .inr ⟨by omega, by omega, h5⟩
    · rintro (h | ⟨h3, h4, h5⟩)
      · exact .inl (.inl h)
      · by_cases hlt : sq < 8 * (r + 1)
        · refine .inl (.inr ⟨sq - 8 * r, by omega, by omega, by omega, ?_⟩)
          have : sq - 8 * r + 8 * r = sq := by omega
          simp only [this]; exact h5
        · exact .inr ⟨by omega, by omega, h5⟩

theorem empty_get (k : Nat) : ({} : Side).get k = 0 := by
  unfold Side.get; split <;> rfl

def ranksOf (p : APos) : List (List Char) := (List.range 8).map (rankText p)

theorem split_placement {p : APos} (hv : p.Valid) : splitOnChar '/' (placementText p) = ranksOf p := by
  apply splitOnChar_joinWith
  · simp [List.range_succ]
  · intro r hr
    simp only [List.mem_map] at hr
    obtain ⟨row, _, rfl⟩ := hr
    exact slash_not_mem_of_all_placement (rankText_props hv row).2.1

theorem placement_syntax {p : APos} (hv : p.Valid) :
    placementShapeOk (placementText p) = true ∧ validateRanks (placementText p) = none := by
  constructor
  · simp only [placementShapeOk, split_placement hv, ranksOf]
    simp only [List.length_map, List.length_range, List.all_map, Bool.and_eq_true, beq_self_eq_true, true_and,
      List.all_eq_true]
    intro row _
    exact rankShapeOk_of_count (rankText_props hv row).2.1 (rankText_props hv row).1
  · simp only [validateRanks, split_placement hv, ranksOf, List.findSome?_eq_none_iff, List.mem_map]
    rintro r ⟨row, _, rfl⟩
    simp [validateRank, rankText_props hv row]

theorem placement_decode {p : APos} (hv : p.Valid) :
    let res := placeRanks (splitOnChar '/' (placementText p)) 0 ({}, {})
    (∀ w k sq, 1 ≤ k ∧ k ≤ 6 → sq < 64 → (testU (word res w k) sq = true ↔ p.at sq = some (w, k)))
    ∧ res.1.o0 = 0 ∧ res.2.o0 = 0 := by
  rw [split_placement hv, ranksOf, List.range_eq_range']
  have h := placeRanks_ranks hv 8 0 {} {} (by omega)
  refine ⟨?_, h.2⟩
  intro w k sq hk hsq
  rw [h.1 w k sq hk hsq]
  have : testU (word (({} : Side), ({} : Side)) w k) sq = false := by
    cases w <;> simp [word, empty_get, testU_zero]
  rw [this]
  constructor
  · rintro (h | h)
    · cases h
    · exact h.2.2
  · exact fun h => .inr ⟨by omega, by omega, h⟩

/-! ## 6. side, castling, en passant, clocks -/

/-- the en-passant code of the bitboard: 0 = none (and, by the quirk, also a8) -/
def epCode : Option (Fin 64) → Nat
  | none => 0
  | some sq => sq.val

/-- the capture groups the grammar check extracts from `printA p` -/
def fieldsOf (p : APos) : FenFields :=
  { placement := placementText p, side := if p.whiteToMove then 'w' else 'b', castling := castlingText p,
    ep := epText p, hasClocks := true, half := p.half, full := p.full }

theorem castling_props (p : APos) :
    castlingShapeOk (castlingText p) = true ∧ (castlingText p).contains 'K' = p.wK
    ∧ (castlingText p).contains 'Q' = p.wQ ∧ (castlingText p).contains 'k' = p.bK
    ∧ (castlingText p).contains 'q' = p.bQ ∧ ' ' ∉ castlingText p := by
  have h : ∀ a b c d : Bool,
      let s := (if a then ['K'] else []) ++ (if b then ['Q'] else []) ++ (if c then ['k'] else [])
        ++ (if d then ['q'] else [])
      let t := if s.isEmpty then ['-'] else s
      castlingShapeOk t = true ∧ t.contains 'K' = a ∧ t.contains 'Q' = b ∧ t.contains 'k' = c
      ∧ t.contains 'q' = d ∧ ' ' ∉ t := by decide
  exact h p.wK p.wQ p.bK p.bQ

theorem squareName_props (sq : Fin 64) :
    epShapeOk (squareName sq.val) = true ∧ squareName sq.val ≠ ['-']
    ∧ squareOfName (squareName sq.val) = sq.val ∧ ' ' ∉ squareName sq.val := by
  revert sq; decide

theorem ep_props (p : APos) :
    epShapeOk (epText p) = true
    ∧ (if epText p = ['-'] then 0 else squareOfName (epText p)) = epCode p.ep ∧ ' ' ∉ epText p := by
  unfold epText
  cases h : p.ep with
  | none => simp [epShapeOk, epCode]
  | some sq =>
    have := squareName_props sq
    simp [this, epCode]

theorem squareString_toList {n : Nat} (h : n < 64) : (squareString n).toList = squareName n := by
  simp [squareString, h, squareName, fileChar, rankChar]

theorem decimalValue_eq (s : List Char) : decimalValue s = Nat.ofDigitChars 10 s 0 := rfl

theorem natToChars_eq (n : Nat) : natToChars n = decimal n := by
  simp [natToChars, decimal]

theorem isAsciiDigit_eq_isDigit (c : Char) : isAsciiDigit c = c.isDigit := by
  simp [isAsciiDigit, Char.isDigit, Char.le_def, UInt32.le_iff_toNat_le]

theorem decimal_props (n : Nat) :
    decimal n ≠ [] ∧ (decimal n).all isAsciiDigit = true ∧ decimalValue (decimal n) = n ∧ ' ' ∉ decimal n := by
  refine ⟨Nat.toDigits_ne_nil, ?_, ?_, ?_⟩
  · rw [List.all_eq_true]
    intro c hc
    rw [isAsciiDigit_eq_isDigit]
    exact Nat.isDigit_of_mem_toDigits (by decide) (by decide) hc
  · rw [decimalValue_eq]; exact Nat.ofDigitChars_ten_toDigits
  · intro hc
    have := Nat.isDigit_of_mem_toDigits (b := 10) (by decide) (by decide) hc
    revert this; decide

theorem clockOk_decimal {n : Nat} (h : n < 4294967296) : clockOk (decimal n) = true := by
  have := decimal_props n
  simp [clockOk, this.2.1, this.2.2.1, h]
  exact this.1

/-! ## 7. the whole string -/

theorem space_not_mem_placement {p : APos} (hv : p.Valid) : ' ' ∉ placementText p := by
  intro h
  rcases mem_joinWith h with h | ⟨r, hr, hc⟩
  · revert h; decide
  · simp only [List.mem_map] at hr
    obtain ⟨row, _, rfl⟩ := hr
    have := List.all_eq_true.mp (rankText_props hv row).2.1 _ hc
    revert this; decide

theorem split_printA {p : APos} (hv : p.Valid) :
    splitOnChar ' ' (printA p)
      = [placementText p, sideText p, castlingText p, epText p, decimal p.half, decimal p.full] := by
  apply splitOnChar_joinWith (by simp [fields4])
  intro r hr
  simp only [fields4, List.cons_append, List.nil_append, List.mem_cons, List.not_mem_nil, or_false] at hr
  rcases hr with rfl | rfl | rfl | rfl | rfl | rfl
  · exact space_not_mem_placement hv
  · unfold sideText; split <;> decide
  · exact (castling_props p).2.2.2.2.2
  · exact (ep_props p).2.2
  · exact (decimal_props _).2.2.2
  · exact (decimal_props _).2.2.2

theorem split_printA4 {p : APos} (hv : p.Valid) :
    splitOnChar ' ' (printA4 p) = [placementText p, sideText p, castlingText p, epText p] := by
  apply splitOnChar_joinWith (by simp [fields4])
  intro r hr
  simp only [fields4, List.mem_cons, List.not_mem_nil, or_false] at hr
  rcases hr with rfl | rfl | rfl | rfl
  · exact space_not_mem_placement hv
  · unfold sideText; split <;> decide
  · exact (castling_props p).2.2.2.2.2
  · exact (ep_props p).2.2

/-- the grammar check accepts the printed text and extracts exactly the printed fields -/
theorem parseChars_printA {p : APos} (hv : p.Valid) : parseChars (printA p) = .ok (fieldsOf p) := by
  have h1 := placement_syntax hv
  have h2 := castling_props p
  have h3 := ep_props p
  have h4 := decimal_props p.half
  have h5 := decimal_props p.full
  have h6 := clockOk_decimal hv.half
  have h7 := clockOk_decimal hv.full
  simp only [parseChars, regexGroups, split_printA hv, sideText]
  simp [h1, h2, h3, h4, h5, h6, h7, fieldsOf]

theorem parseChars_printA4 {p : APos} (hv : p.Valid) :
    parseChars (printA4 p) = .ok { fieldsOf p with hasClocks := false, half := 0, full := 1 } := by
  have h1 := placement_syntax hv
  have h2 := castling_props p
  have h3 := ep_props p
  simp only [parseChars, regexGroups, split_printA4 hv, sideText]
  simp [h1, h2, h3, fieldsOf]

/-- `b` holds exactly the pieces of `p`: every piece on its square and nothing else -/
def Holds (b : Board) (p : APos) : Prop :=
  ∀ w k sq, 1 ≤ k ∧ k ≤ 6 → sq < 64 → (testU (word (b.white, b.black) w k) sq = true ↔ p.at sq = some (w, k))

theorem boardOfFields_spec (f : FenFields) {p : APos} (hv : p.Valid) (hpl : f.placement = placementText p) :
    Holds (boardOfFields f) p ∧ (boardOfFields f).white.o0 = 0 ∧ (boardOfFields f).black.o0 = 0
    ∧ (boardOfFields f).white.ks = f.castling.contains 'K' ∧ (boardOfFields f).white.qs = f.castling.contains 'Q'
    ∧ (boardOfFields f).black.ks = f.castling.contains 'k' ∧ (boardOfFields f).black.qs = f.castling.contains 'q'
    ∧ (boardOfFields f).turn = (if f.side = 'b' then 1 else 0)
    ∧ (boardOfFields f).ep = (if f.ep = ['-'] then 0 else squareOfName f.ep)
    ∧ (boardOfFields f).halfmove = f.half ∧ (boardOfFields f).fullmove = f.full := by
  have h := placement_decode hv
  unfold boardOfFields
  rw [hpl]
  generalize placeRanks (splitOnChar '/' (placementText p)) 0 ({}, {}) = res at h
  obtain ⟨W, B⟩ := res
  refine ⟨?_, h.2.1, h.2.2, rfl, rfl, rfl, rfl, rfl, rfl, rfl, rfl⟩
  intro w k sq hk hsq
  rw [← h.1 w k sq hk hsq]
  cases w <;> exact Iff.rfl

/-! ## 8. the model printer against the specification printer -/

theorem pieceAt_eq (s : Side) {sq : Nat} (hsq : sq < 64) :
    s.pieceAt sq = if testU s.pawns sq then 1 else if testU s.knights sq then 2 else if testU s.bishops sq then 3
      else if testU s.rooks sq then 4 else if testU s.queens sq then 5 else if testU s.kings sq then 6 else 0 := by
  simp only [Side.pieceAt, Side.pieceAtMask, and_bitU_ne_zero _ hsq]
  rfl

theorem holds_bit {b : Board} {p : APos} (h : Holds b p) (w : Bool) {k : Nat} (hk : 1 ≤ k ∧ k ≤ 6) {sq : Nat}
    (hsq : sq < 64) : testU (word (b.white, b.black) w k) sq = decide (p.at sq = some (w, k)) := by
  have := h w k sq hk hsq
  cases h1 : testU (word (b.white, b.black) w k) sq <;> simp_all

theorem coloredPiece_of_holds {b : Board} {p : APos} (h : Holds b p) (hv : p.Valid) {sq : Nat} (hsq : sq < 64) :
    coloredPiece b sq = some ((p.at sq).map fun c => pieceChar c.1 c.2) := by
  have w1 : testU b.white.pawns sq = _ := holds_bit h true (k := 1) (by omega) hsq
  have w2 : testU b.white.knights sq = _ := holds_bit h true (k := 2) (by omega) hsq
  have w3 : testU b.white.bishops sq = _ := holds_bit h true (k := 3) (by omega) hsq
  have w4 : testU b.white.rooks sq = _ := holds_bit h true (k := 4) (by omega) hsq
  have w5 : testU b.white.queens sq = _ := holds_bit h true (k := 5) (by omega) hsq
  have w6 : testU b.white.kings sq = _ := holds_bit h true (k := 6) (by omega) hsq
  have b1 : testU b.black.pawns sq = _ := holds_bit h false (k := 1) (by omega) hsq
  have b2 : testU b.black.knights sq = _ := holds_bit h false (k := 2) (by omega) hsq
  have b3 : testU b.black.bishops sq = _ := holds_bit h false (k := 3) (by omega) hsq
  have b4 : testU b.black.rooks sq = _ := holds_bit h false (k := 4) (by omega) hsq
  have b5 : testU b.black.queens sq = _ := holds_bit h false (k := 5) (by omega) hsq
  have b6 : testU b.black.kings sq = _ := holds_bit h false (k := 6) (by omega) hsq
  simp only [coloredPiece, pieceAt_eq _ hsq, w1, w2, w3, w4, w5, w6, b1, b2, b3, b4, b5, b6]
  cases hc : p.at sq with
  | none => simp
  | some c =>
    obtain ⟨w, k⟩ := c
    have hk := at_valid hv hc
    have : k = 1 ∨ k = 2 ∨ k = 3 ∨ k = 4 ∨ k = 5 ∨ k = 6 := by omega
    rcases this with rfl | rfl | rfl | rfl | rfl | rfl <;> cases w <;> simp <;> decide

theorem flush_eq {n : Nat} (h : n ≤ 8) : (if n > 0 then natToChars n else []) = flush n := by
  unfold flush
  by_cases h0 : n = 0
  · simp [h0]
  · have := digit_props (n := n) (by omega) h
    simp [h0, this.2.2.2.1, Nat.pos_of_ne_zero h0]

theorem printRank_eq {b : Board} {p : APos} (h : Holds b p) (hv : p.Valid) (rank : Nat) (hr : rank < 8) :
    ∀ (fuel file empty : Nat), file + fuel ≤ 8 → empty + fuel ≤ 8 →
      printRank b rank fuel file empty
        = some (compress ((List.range' file fuel).map fun f => p.at (f + 8 * rank)) empty) := by
  intro fuel
  induction fuel with
  | zero => intro file empty _ he; simp [printRank, compress, flush_eq (n := empty) (by omega)]
  | succ fuel ih =>
    intro file empty hf he
    rw [printRank, coloredPiece_of_holds h hv (by omega), List.range'_succ, List.map_cons]
    cases hc : p.at (file + 8 * rank) with
    | none => simp only [Option.map_none, compress]; exact ih (file + 1) (empty + 1) (by omega) (by omega)
    | some c =>
      obtain ⟨w, k⟩ := c
      simp only [Option.map_some, compress, ih (file + 1) 0 (by omega) (by omega),
        flush_eq (n := empty) (by omega)]

theorem printRanks_eq {b : Board} {p : APos} (h : Holds b p) (hv : p.Valid) :
    ∀ (fuel rank : Nat), rank + fuel = 8 →
      printRanks b fuel rank = some (joinWith '/' ((List.range' rank fuel).map (rankText p))) := by
  intro fuel
  induction fuel with
  | zero => intro rank _; simp [printRanks, joinWith]
  | succ fuel ih =>
    intro rank hr
    rw [printRanks, printRank_eq h hv rank (by omega) 8 0 0 (by omega) (by omega), ← rankText_eq, ih (rank + 1) (by omega),
      List.range'_succ, List.map_cons]
    cases fuel with
    | zero =>
      have : ¬ rank < 7 := by omega
      simp [joinWith, this]
    | succ fuel =>
      have : rank < 7 := by omega
      simp [joinWith, this, List.range'_succ]

/-- the bitboard fields other than the pieces agree with the abstract position -/
structure SameMeta (b : Board) (p : APos) : Prop where
  turn : b.whiteTurn = p.whiteToMove
  wK : b.white.ks = p.wK
  wQ : b.white.qs = p.wQ
  bK : b.black.ks = p.bK
  bQ : b.black.qs = p.bQ
  ep : b.ep = epCode p.ep
  epNotA8 : p.ep ≠ some 0
  half : b.halfmove = p.half
  full : b.fullmove = p.full

/-- on a board that holds the pieces of `p` the serialiser does not panic and writes the canonical text of `p` -/
theorem printFen_eq {b : Board} {p : APos} (h : Holds b p) (hv : p.Valid) (hm : SameMeta b p) :
    printFen b = some (String.ofList (printA p)) := by
  have hep : (if b.ep == 0 then ['-'] else (squareString b.ep).toList) = epText p := by
    unfold epText
    have h1 := hm.ep; have h2 := hm.epNotA8
    cases hc : p.ep with
    | none => simp [hc, epCode] at h1; simp [h1]
    | some sq =>
      simp only [hc, epCode] at h1
      have : b.ep ≠ 0 := by
        rw [h1]; intro e; apply h2; rw [hc]; congr 1; exact Fin.ext e
      simp [this]; rw [h1]; exact squareString_toList sq.isLt
  have hs : printA p = placementText p ++ [' ', if b.whiteTurn then 'w' else 'b', ' ']
      ++ castlingText p ++ [' '] ++ epText p ++ [' '] ++ natToChars b.halfmove ++ [' '] ++ natToChars b.fullmove := by
    simp [printA, fields4, joinWith, sideText, hm.turn, hm.half, hm.full, natToChars_eq]
  unfold printFen
  rw [printRanks_eq h hv 8 0 rfl]
  simp only [hep, hm.wK, hm.wQ, hm.bK, hm.bQ]
  have hpl : joinWith '/' ((List.range' 0 8).map (rankText p)) = placementText p := by
    simp [placementText, List.range_eq_range']
  rw [hpl]
  show (match parseChars (placementText p ++ [' ', if b.whiteTurn then 'w' else 'b', ' ']
      ++ castlingText p ++ [' '] ++ epText p ++ [' '] ++ natToChars b.halfmove ++ [' '] ++ natToChars b.fullmove) with
    | .ok _ => some (String.ofList (placementText p ++ [' ', if b.whiteTurn then 'w' else 'b', ' ']
      ++ castlingText p ++ [' '] ++ epText p ++ [' '] ++ natToChars b.halfmove ++ [' '] ++ natToChars b.fullmove))
    | .error _ => none) = _
  rw [← hs, parseChars_printA hv]

/-! ## 9. representable boards -/

/-- the boards the serialiser is meant for: the twelve piece sets pairwise disjoint (`WF.disjointAll`, the same
check `WF.wf` uses), side to move 0 or 1, the e.p. code a square index, both clocks 32-bit values.
(e.p. code 0 means "none"; it is also the index of a8, so a8 can never be stored as an e.p. square.) -/
structure Repr (b : Board) : Prop where
  disjoint : WF.disjointAll [b.white.pawns, b.white.knights, b.white.bishops, b.white.rooks, b.white.queens,
    b.white.kings, b.black.pawns, b.black.knights, b.black.bishops, b.black.rooks, b.black.queens,
    b.black.kings] = true
  turn : b.turn ≤ 1
  ep : b.ep < 64
  half : b.halfmove < 4294967296
  full : b.fullmove < 4294967296

/-- the content of a square of a bitboard: the first piece set (white before black, pawn … king) that has the bit -/
def cellOf (b : Board) (sq : Nat) : Cell :=
  if b.white.pieceAt sq != 0 then some (true, b.white.pieceAt sq)
  else if b.black.pieceAt sq != 0 then some (false, b.black.pieceAt sq)
  else none

/-- the abstract position a bitboard stands for -/
def absOf (b : Board) : APos :=
  { pieces := fun sq => cellOf b sq.val
    whiteToMove := b.whiteTurn
    wK := b.white.ks, wQ := b.white.qs, bK := b.black.ks, bQ := b.black.qs
    ep := if h : b.ep < 64 ∧ b.ep ≠ 0 then some ⟨b.ep, h.1⟩ else none
    half := b.halfmove, full := b.fullmove }

theorem absOf_at (b : Board) {sq : Nat} (h : sq < 64) : (absOf b).at sq = cellOf b sq := by
  simp [APos.at, h, absOf]

theorem go_disjoint {sq : Nat} (hsq : sq < 64) : ∀ (xs : List UInt64) (acc : UInt64),
    WF.disjointAll.go acc xs = true →
    (∀ (j : Nat) (c : UInt64), xs[j]? = some c → testU acc sq = true → testU c sq = false)
    ∧ (∀ (i j : Nat) (a c : UInt64), xs[i]? = some a → xs[j]? = some c → i < j → testU a sq = true → testU c sq = false)
  | [], _, _ => by simp
  | x :: rest, acc, h => by
    simp only [WF.disjointAll.go, Bool.and_eq_true, beq_iff_eq] at h
    have ih := go_disjoint hsq rest (acc ||| x) h.2
    have h0 := (eq_zero_iff_testU _).mp h.1 sq hsq
    rw [testU_and] at h0
    constructor
    · intro j c hj hacc
      cases j with
      | zero => simp at hj; subst hj; simpa [hacc] using h0
      | succ j => exact ih.1 j c (by simpa using hj) (by simp [testU_or, hacc])
    · intro i j a c hi hj hij ha
      cases j with
      | zero => omega
      | succ j =>
        cases i with
        | zero =>
          simp at hi; subst hi
          exact ih.1 j c (by simpa using hj) (by simp [testU_or, ha])
        | succ i => exact ih.2 i j a c (by simpa using hi) (by simpa using hj) (by omega) ha

/-- position of the word of colour `w`, kind `k` in the list `Repr.disjoint` talks about -/
def wordIdx (w : Bool) (k : Nat) : Nat := (if w then 0 else 6) + (k - 1)

theorem word_eq_getElem (b : Board) (w : Bool) {k : Nat} (hk : 1 ≤ k ∧ k ≤ 6) :
    [b.white.pawns, b.white.knights, b.white.bishops, b.white.rooks, b.white.queens,
      b.white.kings, b.black.pawns, b.black.knights, b.black.bishops, b.black.rooks, b.black.queens,
      b.black.kings][wordIdx w k]? = some (word (b.white, b.black) w k) := by
  have e : k = 1 ∨ k = 2 ∨ k = 3 ∨ k = 4 ∨ k = 5 ∨ k = 6 := by omega
  rcases e with rfl | rfl | rfl | rfl | rfl | rfl <;> cases w <;> rfl

theorem disjoint_bits {b : Board} (h : Repr b) {sq : Nat} (hsq : sq < 64) {w w' : Bool} {k k' : Nat}
    (hk : 1 ≤ k ∧ k ≤ 6) (hk' : 1 ≤ k' ∧ k' ≤ 6) (hne : ¬ (w = w' ∧ k = k'))
    (ht : testU (word (b.white, b.black) w k) sq = true) : testU (word (b.white, b.black) w' k') sq = false := by
  have hd := (go_disjoint hsq _ _ h.disjoint).2
  have hi : wordIdx w k ≠ wordIdx w' k' := by
    unfold wordIdx; cases w <;> cases w' <;> simp at hne ⊢ <;> omega
  rcases Nat.lt_or_gt_of_ne hi with hlt | hgt
  · exact hd _ _ _ _ (word_eq_getElem b w hk) (word_eq_getElem b w' hk') hlt ht
  · cases hc : testU (word (b.white, b.black) w' k') sq with
    | false => rfl
    | true =>
      have := hd _ _ _ _ (word_eq_getElem b w' hk') (word_eq_getElem b w hk) hgt hc
      rw [ht] at this; cases this

theorem pieceAt_spec (s : Side) {sq : Nat} (hsq : sq < 64) :
    s.pieceAt sq = 0 ∨ ((1 ≤ s.pieceAt sq ∧ s.pieceAt sq ≤ 6) ∧ testU (s.get (s.pieceAt sq)) sq = true) := by
  rw [pieceAt_eq s hsq]
  repeat' split
  all_goals simp_all [Side.get]

/-- a representable board holds exactly the pieces of its abstract position -/
theorem absOf_holds {b : Board} (h : Repr b) : Holds b (absOf b) := by
  intro w k sq hk hsq
  rw [absOf_at b hsq]
  have hd := @disjoint_bits b h sq hsq
  have e : k = 1 ∨ k = 2 ∨ k = 3 ∨ k = 4 ∨ k = 5 ∨ k = 6 := by omega
  constructor
  · intro ht
    have f : ∀ w' k', 1 ≤ k' ∧ k' ≤ 6 → ¬ (w = w' ∧ k = k') → testU (word (b.white, b.black) w' k') sq = false :=
      fun w' k' hk' hne => hd hk hk' hne ht
    have w1 := f true 1 (by omega); have w2 := f true 2 (by omega); have w3 := f true 3 (by omega)
    have w4 := f true 4 (by omega); have w5 := f true 5 (by omega); have w6 := f true 6 (by omega)
    have b1 := f false 1 (by omega); have b2 := f false 2 (by omega); have b3 := f false 3 (by omega)
    have b4 := f false 4 (by omega); have b5 := f false 5 (by omega); have b6 := f false 6 (by omega)
    simp only [word, Side.get, ite_true, Bool.false_eq_true, ite_false] at w1 w2 w3 w4 w5 w6 b1 b2 b3 b4 b5 b6 ht
    simp only [cellOf, pieceAt_eq _ hsq]
    rcases e with rfl | rfl | rfl | rfl | rfl | rfl <;> cases w <;>
      simp_all
  · intro hc
    unfold cellOf at hc
    split at hc
    · rename_i hne
      simp only [Option.some.injEq, Prod.mk.injEq] at hc
      obtain ⟨rfl, rfl⟩ := hc
      rcases pieceAt_spec b.white hsq with h0 | h1
      · simp [h0] at hne
      · exact h1.2
    · split at hc
      · rename_i hne
        simp only [Option.some.injEq, Prod.mk.injEq] at hc
        obtain ⟨rfl, rfl⟩ := hc
        rcases pieceAt_spec b.black hsq with h0 | h1
        · simp [h0] at hne
        · exact h1.2
      · cases hc

/-! ### 9b -/

theorem absOf_valid {b : Board} (h : Repr b) : (absOf b).Valid where
  kinds := by
    intro sq w k hc
    simp only [absOf, cellOf] at hc
    split at hc
    · rename_i hne
      simp only [Option.some.injEq, Prod.mk.injEq] at hc
      obtain ⟨rfl, rfl⟩ := hc
      rcases pieceAt_spec b.white sq.isLt with h0 | h1
      · simp [h0] at hne
      · exact h1.1
    · split at hc
      · rename_i hne
        simp only [Option.some.injEq, Prod.mk.injEq] at hc
        obtain ⟨rfl, rfl⟩ := hc
        rcases pieceAt_spec b.black sq.isLt with h0 | h1
        · simp [h0] at hne
        · exact h1.1
      · cases hc
  half := h.half
  full := h.full

theorem absOf_meta {b : Board} (h : Repr b) : SameMeta b (absOf b) where
  turn := rfl
  wK := rfl
  wQ := rfl
  bK := rfl
  bQ := rfl
  ep := by
    simp only [absOf]
    split
    · rfl
    · rename_i hn
      have := h.ep
      simp only [epCode]; omega
  epNotA8 := by
    simp only [absOf]
    split
    · rename_i hn
      intro e
      simp only [Option.some.injEq] at e
      have := congrArg Fin.val e
      simp at this; exact hn.2 this
    · simp
  half := rfl
  full := rfl

/-- what decoding the text of `p` has to produce: the bitboard image of the abstract position -/
structure Decodes (b : Board) (p : APos) : Prop where
  holds : Holds b p
  wScratch : b.white.o0 = 0
  bScratch : b.black.o0 = 0
  turn : b.turn = if p.whiteToMove then 0 else 1
  wK : b.white.ks = p.wK
  wQ : b.white.qs = p.wQ
  bK : b.black.ks = p.bK
  bQ : b.black.qs = p.bQ
  ep : b.ep = epCode p.ep
  half : b.halfmove = p.half
  full : b.fullmove = p.full

theorem word_eq_of_holds {b b' : Board} {p : APos} (h : Holds b p) (h' : Holds b' p) (w : Bool) {k : Nat}
    (hk : 1 ≤ k ∧ k ≤ 6) : word (b'.white, b'.black) w k = word (b.white, b.black) w k := by
  apply ext_testU
  intro sq hsq
  rw [holds_bit h w hk hsq, holds_bit h' w hk hsq]

/-- two boards with the same abstract position show the same chess position -/
theorem vis_eq {b b' : Board} {p : APos} (hd : Decodes b' p) (h : Holds b p) (hm : SameMeta b p)
    (ht : b.turn ≤ 1) : WF.vis b' = WF.vis b := by
  have e := fun w k hk => word_eq_of_holds h hd.holds w (k := k) hk
  have w1 := e true 1 (by omega); have w2 := e true 2 (by omega); have w3 := e true 3 (by omega)
  have w4 := e true 4 (by omega); have w5 := e true 5 (by omega); have w6 := e true 6 (by omega)
  have b1 := e false 1 (by omega); have b2 := e false 2 (by omega); have b3 := e false 3 (by omega)
  have b4 := e false 4 (by omega); have b5 := e false 5 (by omega); have b6 := e false 6 (by omega)
  simp only [word, Side.get, ite_true, Bool.false_eq_true, ite_false] at w1 w2 w3 w4 w5 w6 b1 b2 b3 b4 b5 b6
  have t : b'.turn = b.turn := by
    rw [hd.turn, ← hm.turn]
    have : b.turn = 0 ∨ b.turn = 1 := by omega
    rcases this with h0 | h0 <;> simp [Board.whiteTurn, h0]
  have h1 := hd.wK; have h2 := hd.wQ; have h3 := hd.bK; have h4 := hd.bQ
  have h5 := hd.ep; have h6 := hd.half; have h7 := hd.full
  rw [← hm.wK] at h1; rw [← hm.wQ] at h2; rw [← hm.bK] at h3; rw [← hm.bQ] at h4
  rw [← hm.ep] at h5; rw [← hm.half] at h6; rw [← hm.full] at h7
  obtain ⟨⟨_, _, _, _, _, _, _, _, _⟩, ⟨_, _, _, _, _, _, _, _, _⟩, _, _, _, _⟩ := b
  obtain ⟨⟨_, _, _, _, _, _, _, _, _⟩, ⟨_, _, _, _, _, _, _, _, _⟩, _, _, _, _⟩ := b'
  simp only [WF.vis, WF.visSide] at *
  simp_all

theorem ofList_ne_startpos {l : List Char} (h : ' ' ∈ l) : String.ofList l ≠ "startpos" := by
  intro e
  have : l = "startpos".toList := by rw [← e, String.toList_ofList]
  subst this
  revert h; decide

theorem fromFenString_ofList {l : List Char} (h : ' ' ∈ l) :
    fromFenString (String.ofList l) = match parseChars l with
      | .ok f => .ok (boardOfFields f)
      | .error e => .error e := by
  simp only [fromFenString, FenSyntax.parse, ofList_ne_startpos h, String.toList_ofList, if_false]
  cases parseChars l <;> rfl

theorem space_mem_printA (p : APos) : ' ' ∈ printA p := by
  simp [printA, fields4, joinWith]

theorem space_mem_printA4 (p : APos) : ' ' ∈ printA4 p := by
  simp [printA4, fields4, joinWith]

theorem side_turn (p : APos) : (if (if p.whiteToMove then 'w' else 'b') = 'b' then 1 else 0)
    = if p.whiteToMove then 0 else 1 := by
  cases p.whiteToMove <;> simp

/-- the printed text of a valid abstract position is accepted and decoded to exactly that position -/
theorem decode_printA {p : APos} (hv : p.Valid) :
    ∃ b, fromFenString (String.ofList (printA p)) = .ok b ∧ Decodes b p := by
  refine ⟨boardOfFields (fieldsOf p), ?_, ?_⟩
  · rw [fromFenString_ofList (space_mem_printA p), parseChars_printA hv]
  · have h := boardOfFields_spec (fieldsOf p) hv rfl
    have hc := castling_props p
    have he := ep_props p
    obtain ⟨h1, h2, h3, h4, h5, h6, h7, h8, h9, h10, h11⟩ := h
    exact ⟨h1, h2, h3, by rw [h8]; exact side_turn p, by rw [h4]; exact hc.2.1, by rw [h5]; exact hc.2.2.1,
      by rw [h6]; exact hc.2.2.2.1, by rw [h7]; exact hc.2.2.2.2.1, by rw [h9]; exact he.2.1, h10, h11⟩

/-- the four-field text decodes to the same position with the clocks defaulted to 0 and 1 -/
theorem decode_printA4 {p : APos} (hv : p.Valid) :
    ∃ b, fromFenString (String.ofList (printA4 p)) = .ok b ∧ Decodes b { p with half := 0, full := 1 } := by
  refine ⟨boardOfFields { fieldsOf p with hasClocks := false, half := 0, full := 1 }, ?_, ?_⟩
  · rw [fromFenString_ofList (space_mem_printA4 p), parseChars_printA4 hv]
  · have h := boardOfFields_spec { fieldsOf p with hasClocks := false, half := 0, full := 1 } hv rfl
    have hc := castling_props p
    have he := ep_props p
    obtain ⟨h1, h2, h3, h4, h5, h6, h7, h8, h9, h10, h11⟩ := h
    exact ⟨h1, h2, h3, by rw [h8]; exact side_turn p, by rw [h4]; exact hc.2.1, by rw [h5]; exact hc.2.2.1,
      by rw [h6]; exact hc.2.2.2.1, by rw [h7]; exact hc.2.2.2.2.1, by rw [h9]; exact he.2.1, h10, h11⟩

/-- writing a representable board never panics, and reading the text back gives the same position -/
theorem print_parse_board' {b : Board} (h : Repr b) :
    ∃ s b', printFen b = some s ∧ fromFenString s = .ok b' ∧ WF.vis b' = WF.vis b := by
  obtain ⟨b', h1, h2⟩ := decode_printA (absOf_valid h)
  exact ⟨_, b', printFen_eq (absOf_holds h) (absOf_valid h) (absOf_meta h), h1,
    vis_eq h2 (absOf_holds h) (absOf_meta h) h.turn⟩

/-! ## 10. inversion of the grammar check -/

/-- everything `parseChars l = .ok f` guarantees -/
theorem parseChars_ok {l : List Char} {f : FenFields} (h : parseChars l = .ok f) :
    placementShapeOk f.placement = true ∧ validateRanks f.placement = none ∧ (f.side = 'b' ∨ f.side = 'w')
    ∧ castlingShapeOk f.castling = true ∧ epShapeOk f.ep = true
    ∧ ((f.hasClocks = false ∧ f.half = 0 ∧ f.full = 1
          ∧ splitOnChar ' ' l = [f.placement, [f.side], f.castling, f.ep])
       ∨ (∃ hs fs, f.hasClocks = true ∧ splitOnChar ' ' l = [f.placement, [f.side], f.castling, f.ep, hs, fs]
          ∧ clockOk hs = true ∧ clockOk fs = true ∧ f.half = decimalValue hs ∧ f.full = decimalValue fs)) := by
  unfold parseChars at h
  split at h
  · cases h
  · rename_i p c k e clocks hg
    split at h
    · cases h
    · rename_i hvr
      unfold regexGroups at hg
      split at hg
      · rename_i p' c' k' e' hsp
        split at hg
        · rename_i hcond
          simp only [Option.some.injEq, Prod.mk.injEq] at hg
          obtain ⟨rfl, rfl, rfl, rfl, rfl⟩ := hg
          simp only [Except.ok.injEq] at h
          subst h
          simp only [Bool.and_eq_true, Bool.or_eq_true, decide_eq_true_eq] at hcond
          exact ⟨hcond.1.1.1, hvr, hcond.1.1.2, hcond.1.2, hcond.2, .inl ⟨rfl, rfl, rfl, hsp⟩⟩
        · cases hg
      · rename_i p' c' k' e' h' f' hsp
        split at hg
        · rename_i hcond
          simp only [Option.some.injEq, Prod.mk.injEq] at hg
          obtain ⟨rfl, rfl, rfl, rfl, rfl⟩ := hg
          simp only at h
          split at h
          · rename_i hck
            simp only [Except.ok.injEq] at h
            subst h
            simp only [Bool.and_eq_true, Bool.or_eq_true, decide_eq_true_eq] at hcond hck
            exact ⟨hcond.1.1.1.1.1.1.1, hvr, hcond.1.1.1.1.1.1.2, hcond.1.1.1.1.1.2, hcond.1.1.1.1.2,
              .inr ⟨h', f', rfl, hsp, hck.1, hck.2, rfl, rfl⟩⟩
          · cases h
        · cases hg
      · cases hg

/-! ## 11. every accepted text is the printed text of a position -/

theorem char_mem_range (c : Char) (lo n : Nat) (h1 : lo ≤ c.toNat) (h2 : c.toNat < lo + n) :
    c ∈ (List.range n).map fun i => Char.ofNat (lo + i) := by
  simp only [List.mem_map, List.mem_range]
  refine ⟨c.toNat - lo, by omega, ?_⟩
  have : lo + (c.toNat - lo) = c.toNat := by omega
  rw [this, Char.ofNat_toNat]

theorem char_between {lo hi c : Char} (h1 : lo ≤ c) (h2 : c ≤ hi) :
    c ∈ (List.range (hi.toNat + 1 - lo.toNat)).map fun i => Char.ofNat (lo.toNat + i) := by
  simp only [Char.le_def, UInt32.le_iff_toNat_le] at h1 h2
  apply char_mem_range
  · exact h1
  · have : c.toNat ≤ hi.toNat := h2
    have : lo.toNat ≤ c.toNat := h1
    omega

theorem digit_char_props {c : Char} (h : isAsciiDigit c = true) :
    digitVal c < 10 ∧ Nat.digitChar (digitVal c) = c ∧ (c ≠ '0' → 0 < digitVal c) := by
  simp only [isAsciiDigit, Bool.and_eq_true, decide_eq_true_eq] at h
  have hm := char_between h.1 h.2
  have : ∀ c ∈ (List.range ('9'.toNat + 1 - '0'.toNat)).map (fun i => Char.ofNat ('0'.toNat + i)),
      digitVal c < 10 ∧ Nat.digitChar (digitVal c) = c ∧ (c ≠ '0' → 0 < digitVal c) := by decide
  exact this c hm

/-- the piece kind a placement letter stands for (0 for other characters) -/
def kindOfChar (c : Char) : Nat := (pieceOfChar c).getD 0

theorem placement_char_cases {c : Char} (h : isPlacementChar c = true) :
    (isAsciiDigit c = true ∧ 1 ≤ digitVal c ∧ digitVal c ≤ 8 ∧ digit (digitVal c) = c)
    ∨ (isAsciiDigit c = false ∧ pieceOfChar c = some (kindOfChar c) ∧ 1 ≤ kindOfChar c ∧ kindOfChar c ≤ 6
        ∧ pieceChar (isUpper c) (kindOfChar c) = c) := by
  have hm : c ∈ "PNBRQKpnbrqk12345678".toList := by simpa [isPlacementChar] using h
  have : ∀ c ∈ "PNBRQKpnbrqk12345678".toList,
      (isAsciiDigit c = true ∧ 1 ≤ digitVal c ∧ digitVal c ≤ 8 ∧ digit (digitVal c) = c)
      ∨ (isAsciiDigit c = false ∧ pieceOfChar c = some (kindOfChar c) ∧ 1 ≤ kindOfChar c ∧ kindOfChar c ≤ 6
          ∧ pieceChar (isUpper c) (kindOfChar c) = c) := by decide
  exact this c hm

/-- the squares a placement character describes -/
def cellsOfChar (c : Char) : List Cell :=
  if isAsciiDigit c then List.replicate (digitVal c) none else [some (isUpper c, kindOfChar c)]

/-- the squares a rank text describes -/
def cellsOfRank : List Char → List Cell
  | [] => []
  | c :: r => cellsOfChar c ++ cellsOfRank r

theorem length_cellsOfRank (r : List Char) : (cellsOfRank r).length = rankCount r := by
  induction r with
  | nil => rfl
  | cons c r ih =>
    rw [cellsOfRank, List.length_append, ih, rankCount_cons, cellsOfChar]
    split <;> simp

theorem cellsOfRank_ok {r : List Char} (h : r.all isPlacementChar = true) : CellsOK (cellsOfRank r) := by
  induction r with
  | nil => intro w k hm; simp [cellsOfRank] at hm
  | cons c r ih =>
    simp only [List.all_cons, Bool.and_eq_true] at h
    intro w k hm
    simp only [cellsOfRank, List.mem_append] at hm
    rcases hm with hm | hm
    · rcases placement_char_cases h.1 with hc | hc
      · simp [cellsOfChar, hc.1] at hm
      · simp only [cellsOfChar, hc.1, Bool.false_eq_true, ite_false, List.mem_singleton, Option.some.injEq,
          Prod.mk.injEq] at hm
        rw [hm.2]; exact ⟨hc.2.2.1, hc.2.2.2.1⟩
    · exact ih h.2 w k hm

theorem compress_replicate (d : Nat) (cs : List Cell) (n : Nat) :
    compress (List.replicate d none ++ cs) n = compress cs (n + d) := by
  induction d generalizing n with
  | zero => simp
  | succ d ih =>
    rw [List.replicate_succ, List.cons_append, compress, ih]
    congr 1; omega

theorem flush_pos {n : Nat} (h : 0 < n) : flush n = [digit n] := by
  simp [flush]; omega

/-- printing the squares of a well-formed rank text gives the text back -/
theorem compress_cellsOfRank : ∀ (r : List Char), r.all isPlacementChar = true → hasAdjacentDigits r = false →
    ∀ n, (n = 0 ∨ ∀ c, r.head? = some c → isAsciiDigit c = false) → compress (cellsOfRank r) n = flush n ++ r
  | [], _, _, n, _ => by simp [cellsOfRank, compress]
  | c :: r, hall, hadj, n, hn => by
    simp only [List.all_cons, Bool.and_eq_true] at hall
    rcases placement_char_cases hall.1 with hc | hc
    · -- a digit: the pending run must be empty
      have n0 : n = 0 := by
        rcases hn with h | h
        · exact h
        · have := h c rfl; rw [hc.1] at this; cases this
      subst n0
      have hadj' : hasAdjacentDigits r = false ∧ ∀ c', r.head? = some c' → isAsciiDigit c' = false := by
        cases r with
        | nil => simp [hasAdjacentDigits]
        | cons c' r' =>
          simp only [hasAdjacentDigits, hc.1, Bool.true_and, Bool.or_eq_false_iff] at hadj
          simp [hadj.1, hadj.2]
      rw [cellsOfRank, cellsOfChar, if_pos hc.1, compress_replicate,
        compress_cellsOfRank r hall.2 hadj'.1 _ (.inr hadj'.2), Nat.zero_add, flush_pos hc.2.1, hc.2.2.2]
      simp [flush]
    · have hadj' : hasAdjacentDigits r = false := by
        rw [hasAdjacentDigits_cons_nondigit hc.1] at hadj; exact hadj
      rw [cellsOfRank, cellsOfChar, if_neg (by simp [hc.1]), List.singleton_append, compress,
        compress_cellsOfRank r hall.2 hadj' 0 (.inl rfl), hc.2.2.2.2]
      simp [flush]

theorem map_range8_getD {α : Type} (l : List α) (d : α) (h : l.length = 8) :
    (List.range 8).map (fun i => l.getD i d) = l := by
  match l, h with
  | [_, _, _, _, _, _, _, _], _ => rfl


theorem dropOpt_cases (c : Char) (l m : List Char) (h : dropOpt c l = m) : l = c :: m ∨ l = m := by
  cases l with
  | nil => right; simpa [dropOpt] using h
  | cons d ds =>
    simp only [dropOpt] at h
    split at h
    · left; subst_vars; rfl
    · right; exact h

/-- the sixteen castling fields of the grammar -/
def castlingFields : List (List Char) :=
  [['-'], ['K'], ['Q'], ['k'], ['q'], ['K', 'Q'], ['K', 'k'], ['K', 'q'], ['Q', 'k'], ['Q', 'q'], ['k', 'q'],
   ['K', 'Q', 'k'], ['K', 'Q', 'q'], ['K', 'k', 'q'], ['Q', 'k', 'q'], ['K', 'Q', 'k', 'q']]

theorem castling_enum {k : List Char} (h : castlingShapeOk k = true) : k ∈ castlingFields := by
  unfold castlingShapeOk at h
  split at h
  · subst_vars; decide
  · simp only [Bool.and_eq_true, Bool.not_eq_true', List.isEmpty_iff] at h
    obtain ⟨hne, h4⟩ := h
    rcases dropOpt_cases _ _ _ h4 with h3 | h3 <;>
    rcases dropOpt_cases _ _ _ h3 with h2 | h2 <;>
    rcases dropOpt_cases _ _ _ h2 with h1 | h1 <;>
    rcases dropOpt_cases _ _ _ h1 with h0 | h0 <;>
    (subst h0; first | (simp at hne; done) | decide)

theorem castling_roundtrip {k : List Char} (h : castlingShapeOk k = true) :
    (let s := (if k.contains 'K' then ['K'] else []) ++ (if k.contains 'Q' then ['Q'] else [])
        ++ (if k.contains 'k' then ['k'] else []) ++ (if k.contains 'q' then ['q'] else [])
     if s.isEmpty then ['-'] else s) = k := by
  have : ∀ k ∈ castlingFields,
      (let s := (if k.contains 'K' then ['K'] else []) ++ (if k.contains 'Q' then ['Q'] else [])
          ++ (if k.contains 'k' then ['k'] else []) ++ (if k.contains 'q' then ['q'] else [])
       if s.isEmpty then ['-'] else s) = k := by decide
  exact this k (castling_enum h)

/-- the e.p. field as the serialiser will write it: `a8` cannot be stored (code 0 = none) and comes back as `-` -/
def canonEp (e : List Char) : List Char := if e = ['a', '8'] then ['-'] else e

/-- the e.p. square an accepted e.p. field stands for (the unstorable a8 counts as none) -/
def epOfField (e : List Char) : Option (Fin 64) :=
  if e = ['-'] ∨ squareOfName e % 64 = 0 then none else some ⟨squareOfName e % 64, Nat.mod_lt _ (by decide)⟩

theorem ep_enum {e : List Char} (h : epShapeOk e = true) :
    e = ['-'] ∨ (squareOfName e < 64 ∧ squareName (squareOfName e) = e) := by
  unfold epShapeOk at h
  split at h
  · exact .inl rfl
  · rename_i f r
    right
    simp only [Bool.and_eq_true, decide_eq_true_eq] at h
    have hf := char_between h.1.1.1 h.1.1.2
    have hr := char_between h.1.2 h.2
    have : ∀ f ∈ (List.range ('h'.toNat + 1 - 'a'.toNat)).map (fun i => Char.ofNat ('a'.toNat + i)),
        ∀ r ∈ (List.range ('8'.toNat + 1 - '1'.toNat)).map (fun i => Char.ofNat ('1'.toNat + i)),
        squareOfName [f, r] < 64 ∧ squareName (squareOfName [f, r]) = [f, r] := by decide
    exact this f hf r hr
  · cases h

theorem ep_roundtrip {e : List Char} (h : epShapeOk e = true) :
    (match epOfField e with | none => ['-'] | some sq => squareName sq.val) = canonEp e
    ∧ epCode (epOfField e) = (if e = ['-'] then 0 else squareOfName e) ∧ epOfField e ≠ some 0 := by
  rcases ep_enum h with rfl | ⟨h1, h2⟩
  · decide
  · have : ∀ sq : Fin 64,
        (match epOfField (squareName sq.val) with | none => ['-'] | some sq => squareName sq.val)
          = canonEp (squareName sq.val)
        ∧ epCode (epOfField (squareName sq.val))
          = (if squareName sq.val = ['-'] then 0 else squareOfName (squareName sq.val))
        ∧ epOfField (squareName sq.val) ≠ some 0 := by decide
    have := this ⟨squareOfName e, h1⟩
    rw [h2] at this
    exact this

theorem decimalValue_append (xs : List Char) (d : Char) :
    decimalValue (xs ++ [d]) = 10 * decimalValue xs + digitVal d := by
  simp [decimalValue, List.foldl_append]

/-- a digit string without a leading zero is the decimal text of its value -/
theorem toDigits_decimalValue_rev : ∀ (rs : List Char), rs ≠ [] → rs.all isAsciiDigit = true →
    rs.reverse.head? ≠ some '0' →
    Nat.toDigits 10 (decimalValue rs.reverse) = rs.reverse ∧ 0 < decimalValue rs.reverse
  | [], h, _, _ => absurd rfl h
  | [d], _, hall, hz => by
    simp only [List.all_cons, List.all_nil, Bool.and_true] at hall
    have hd := digit_char_props hall
    have : d ≠ '0' := by simpa using hz
    have hv : decimalValue [d] = digitVal d := by simp [decimalValue]
    simp only [List.reverse_singleton, hv]
    exact ⟨by rw [Nat.toDigits_of_lt_base hd.1, hd.2.1], hd.2.2 this⟩
  | d :: d' :: rs, _, hall, hz => by
    simp only [List.all_cons, Bool.and_eq_true] at hall
    have hd := digit_char_props hall.1
    have hz' : (d' :: rs).reverse.head? ≠ some '0' := by
      intro e
      apply hz
      rw [List.reverse_cons, List.head?_append, e]; rfl
    have ih := toDigits_decimalValue_rev (d' :: rs) (by simp) (by simpa using hall.2) hz'
    rw [List.reverse_cons, decimalValue_append]
    constructor
    · rw [← Nat.toDigits_append_toDigits (by decide) ih.2 hd.1, ih.1, Nat.toDigits_of_lt_base hd.1, hd.2.1]
    · omega

/-- no leading zero: the text is `0` or does not begin with `0` -/
def NoLeadingZero (s : List Char) : Prop := s = ['0'] ∨ s.head? ≠ some '0'

theorem decimal_decimalValue {s : List Char} (hne : s ≠ []) (hall : s.all isAsciiDigit = true)
    (hz : NoLeadingZero s) : decimal (decimalValue s) = s := by
  rcases hz with rfl | hz
  · decide
  · have := toDigits_decimalValue_rev s.reverse (by simpa using hne) (by simpa using hall)
      (by simpa using hz)
    simpa [decimal] using this.1

/-! ### 11b. the position of an accepted text -/

theorem getD_mem {α : Type} (l : List α) (d : α) {i : Nat} (h : i < l.length) : l.getD i d ∈ l := by
  rw [List.getD_eq_getElem?_getD, List.getElem?_eq_getElem h]
  simp

/-- the abstract position the fields of an accepted text describe -/
def posOfFields (f : FenFields) : APos :=
  { pieces := fun sq => (cellsOfRank ((splitOnChar '/' f.placement).getD (sq.val / 8) [])).getD (sq.val % 8) none
    whiteToMove := f.side = 'w'
    wK := f.castling.contains 'K', wQ := f.castling.contains 'Q'
    bK := f.castling.contains 'k', bQ := f.castling.contains 'q'
    ep := epOfField f.ep
    half := f.half, full := f.full }

/-- the canonical text of accepted fields: the text itself with `a8` as e.p. field replaced by `-` and the clocks
(given or defaulted) written without leading zeros -/
def canonText (f : FenFields) : List Char :=
  joinWith ' ' [f.placement, [f.side], f.castling, canonEp f.ep, decimal f.half, decimal f.full]

/-- what the grammar check guarantees about the placement field -/
theorem placement_ok {pl : List Char} (h1 : placementShapeOk pl = true) (h2 : validateRanks pl = none) :
    (splitOnChar '/' pl).length = 8 ∧ ∀ r ∈ splitOnChar '/' pl,
      r.all isPlacementChar = true ∧ rankCount r = 8 ∧ hasAdjacentDigits r = false := by
  simp only [placementShapeOk, Bool.and_eq_true, beq_iff_eq, List.all_eq_true] at h1
  refine ⟨h1.1, fun r hr => ?_⟩
  have hs := h1.2 r hr
  simp only [rankShapeOk, Bool.and_eq_true] at hs
  have hv : validateRank r = none := by
    simp only [validateRanks, List.findSome?_eq_none_iff] at h2
    exact h2 r hr
  simp only [validateRank] at hv
  split at hv
  · cases hv
  · split at hv
    · cases hv
    · rename_i hc ha
      exact ⟨hs.2, by simpa using hc, by simpa using ha⟩

theorem clockOk_lt {s : List Char} (h : clockOk s = true) :
    s ≠ [] ∧ s.all isAsciiDigit = true ∧ decimalValue s < 4294967296 := by
  simp only [clockOk, Bool.and_eq_true, Bool.not_eq_true', List.isEmpty_eq_false_iff, decide_eq_true_eq] at h
  exact ⟨h.1.1, h.1.2, h.2⟩

theorem posOfFields_at {f : FenFields} {row file : Nat} (hf : file < 8) (hr : row < 8) :
    (posOfFields f).at (file + 8 * row)
      = (cellsOfRank ((splitOnChar '/' f.placement).getD row [])).getD file none := by
  have h1 : file + 8 * row < 64 := by omega
  have h2 : (file + 8 * row) / 8 = row := by omega
  have h3 : (file + 8 * row) % 8 = file := by omega
  simp [APos.at, h1, posOfFields, h2, h3]

theorem posOfFields_spec {l : List Char} {f : FenFields} (h : parseChars l = .ok f) :
    (posOfFields f).Valid ∧ placementText (posOfFields f) = f.placement
    ∧ printA (posOfFields f) = canonText f := by
  obtain ⟨h1, h2, h3, h4, h5, h6⟩ := parseChars_ok h
  obtain ⟨hlen, hranks⟩ := placement_ok h1 h2
  have hmem : ∀ row, row < 8 → (splitOnChar '/' f.placement).getD row [] ∈ splitOnChar '/' f.placement := by
    intro row hrow
    exact getD_mem _ _ (by omega)
  have hv : (posOfFields f).Valid := by
    refine ⟨?_, ?_, ?_⟩
    · intro sq w k hc
      simp only [posOfFields] at hc
      have hm := hmem (sq.val / 8) (by omega)
      have hok := cellsOfRank_ok (hranks _ hm).1
      apply hok w k
      have hl : sq.val % 8 < (cellsOfRank ((splitOnChar '/' f.placement).getD (sq.val / 8) [])).length := by
        rw [length_cellsOfRank, (hranks _ hm).2.1]; omega
      rw [← hc]; exact getD_mem _ _ hl
    · rcases h6 with h6 | ⟨hs, fs, h6⟩
      · show f.half < _; rw [h6.2.1]; decide
      · show f.half < _; rw [h6.2.2.2.2.1]; exact (clockOk_lt h6.2.2.1).2.2
    · rcases h6 with h6 | ⟨hs, fs, h6⟩
      · show f.full < _; rw [h6.2.2.1]; decide
      · show f.full < _; rw [h6.2.2.2.2.2]; exact (clockOk_lt h6.2.2.2.1).2.2
  have hrank : ∀ row, row < 8 → rankText (posOfFields f) row = (splitOnChar '/' f.placement).getD row [] := by
    intro row hrow
    have hm := hranks _ (hmem row hrow)
    have hcells : rankCells (posOfFields f) row = cellsOfRank ((splitOnChar '/' f.placement).getD row []) := by
      rw [← map_range8_getD (cellsOfRank _) none (by rw [length_cellsOfRank, hm.2.1])]
      simp only [rankCells]
      apply List.map_congr_left
      intro file hfile
      exact posOfFields_at (by simpa using hfile) hrow
    rw [rankText, hcells, compress_cellsOfRank _ hm.1 hm.2.2 0 (.inl rfl)]
    simp [flush]
  have hpl : placementText (posOfFields f) = f.placement := by
    rw [placementText]
    have : (List.range 8).map (rankText (posOfFields f))
        = (List.range 8).map (fun i => (splitOnChar '/' f.placement).getD i []) := by
      apply List.map_congr_left
      intro row hrow
      exact hrank row (by simpa using hrow)
    rw [this, map_range8_getD _ _ hlen, joinWith_splitOnChar]
  refine ⟨hv, hpl, ?_⟩
  have hside : sideText (posOfFields f) = [f.side] := by
    rcases h3 with h3 | h3 <;> simp [sideText, posOfFields, h3]
  have hcast : castlingText (posOfFields f) = f.castling := castling_roundtrip h4
  have hep : epText (posOfFields f) = canonEp f.ep := (ep_roundtrip h5).1
  simp only [printA, fields4, canonText, hpl, hside, hcast, hep]
  rfl

/-- the board decoded from accepted fields is written back as the canonical text of these fields -/
theorem printFen_boardOfFields {l : List Char} {f : FenFields} (h : parseChars l = .ok f) :
    printFen (boardOfFields f) = some (String.ofList (canonText f)) := by
  obtain ⟨hv, hpl, hprint⟩ := posOfFields_spec h
  obtain ⟨h1, h2, h3, h4, h5, h6⟩ := parseChars_ok h
  obtain ⟨b1, b2, b3, b4, b5, b6, b7, b8, b9, b10, b11⟩ := boardOfFields_spec f hv hpl.symm
  rw [← hprint]
  apply printFen_eq b1 hv
  refine ⟨?_, b4, b5, b6, b7, ?_, (ep_roundtrip h5).2.2, b10, b11⟩
  · simp only [Board.whiteTurn, b8, posOfFields]
    rcases h3 with h3 | h3 <;> simp [h3]
  · rw [b9]; exact (ep_roundtrip h5).2.1.symm

end Inkayaku.FenRoundtrip
