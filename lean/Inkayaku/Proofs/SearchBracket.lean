import Inkayaku.Proofs.SearchShape
import Inkayaku.Proofs.BoardCongr
import Inkayaku.Proofs.WfStep
import Inkayaku.Model.WF
/-!
# The search brackets every `make` with its `unmake` on every exit path (C09)

What the board layer has to provide (see `Proofs/WfStep.lean`):
H1 (`unmake ∘ make` restores the visible position of a well-formed board for every generated move) is PROVED from C03;
H2' (`BoardLaws.make_inv`: a generated move that passes `isValid` takes a board that is well-formed with clock budget
`k+1` to one with budget `k`) is the only hypothesis of this file; it is PROVED in `Proofs/WfStepProof.lean`
(`Search.boardLaws`), so the Props files state everything without it.  H3 (everything the search calls depends on the visible position
only) is proved in `Proofs/BoardCongr.lean`.

The clock budget is consumed with the recursion fuel: a node searched with `fuel` needs `Inv fuel s.board`, every
recursive call one ply deeper has one unit of fuel less.  Under `BoardLaws`, for every fuel, every state whose board
satisfies `Inv fuel`, every window, every poll period, every list of pending messages, every clock and every go
parameters, `quiescence`, `quiescenceLoop`, `negamax`, `negamaxLoop`, `deepen`, `goCmd` and any sequence of `goCmd`s
return a state whose board has the visible position of the board they were given.  No case distinction on *why* a node
returned is needed: the statement is about the function value for arbitrary arguments, so the illegal-move path,
cut-offs, the abort by flag at any node, the time-out return, the transposition-table return, the repetition return
and running out of fuel are all covered.
-/
namespace Inkayaku.Search
open Inkayaku.Board Inkayaku.Eval Inkayaku.WF Inkayaku.BoardCongr

/-! ## fields untouched by the non-recursive phases -/

theorem foldl_checkMessages_board (l : List Msg) (s : St) :
    (l.foldl (fun s m =>
      match m with
      | .newGame => { s with resetNext := true }
      | .stop => { s with stop := true }
      | .quit => { s with stop := true, quit := true }
      | _ => s) s).board = s.board := by
  induction l generalizing s with
  | nil => rfl
  | cons m l ih => rw [List.foldl_cons, ih]; cases m <;> rfl

theorem checkMessages_board (s : St) : (checkMessages s).board = s.board := by
  unfold checkMessages
  exact foldl_checkMessages_board _ _

theorem pollStep_board (s : St) : (pollStep s).board = s.board := by
  unfold pollStep
  split
  · exact checkMessages_board s
  · rfl

theorem enter_board (s : St) (h : UInt64) : (enter s h).board = s.board := pollStep_board s

theorem finish_board (c : Nat) (a b : Int) (h : UInt64) (rem : Nat) (r : LoopAcc × Bool × St) :
    (finish c a b h rem r).2.board = r.2.2.board := by
  obtain ⟨acc, ab, s⟩ := r
  unfold finish
  simp only
  split
  · rfl
  · split
    · rfl
    · split <;> rfl

theorem iterState_board (r : VM × St) (d : Nat) (sc : Option Score) (u : Option (List Move)) :
    (iterState r d sc u).board = r.2.board := by
  unfold iterState
  split <;> rfl

theorem continuePv_eq (s : St) : ∃ p, continuePv s = { s with pv := p } := by
  unfold continuePv
  simp only
  repeat' split
  all_goals exact ⟨_, rfl⟩

theorem continuePv_board (s : St) : (continuePv s).board = s.board := by
  obtain ⟨p, h⟩ := continuePv_eq s
  rw [h]

theorem goPrep_board (s : St) (g : GoParams) : (goPrep s g).board = s.board := by
  unfold goPrep
  simp only
  split
  · rw [continuePv_board]; split <;> rfl
  · rw [continuePv_board]; split <;> rfl

/-- One step of a session: whatever happens to the search thread between two searches without a `position` command
(new messages arrive, `ucinewgame`, the output is read, the verification hooks change poll period or clock — any
function that leaves the board alone), followed by a `go`. -/
structure GoStep where
  env : St → St
  env_board : ∀ s, (env s).board = s.board
  go : GoParams
  maxIter : Nat

def runGo (s : St) (x : GoStep) : St := goCmd (x.env s) x.go x.maxIter

def runGos (s : St) (xs : List GoStep) : St := xs.foldl runGo s

theorem goIters_le (g : GoParams) (maxIter : Nat) : goIters g maxIter ≤ maxIter := Nat.min_le_right _ _

/-! ## quiescence -/

/-- after searching below a generated move and unmaking it, the visible position is back -/
theorem back {b0 b2 : Board} (hwf : wf b0 = true) {m : Move} (hm : Generated b0 m)
    (h2 : vis b2 = vis (make b0 m)) : vis (unmake b2 m) = vis b0 := by
  rw [unmake_congr h2 m]
  exact unmake_make_of_generated b0 hwf m hm

def QOk (fuel : Nat) : Prop :=
  ∀ (s : St) (a b : Int), Inv fuel s.board → vis (quiescence fuel s a b).2.board = vis s.board

def QLoopOk (fuel : Nat) : Prop :=
  ∀ (b0 : Board), Inv (fuel + 1) b0 → ∀ (moves : List Move), (∀ m ∈ moves, Generated b0 m) →
    ∀ (s : St) (a b : Int) (bm : Option Move) (bc : Option VM), vis s.board = vis b0 →
      vis (quiescenceLoop fuel s moves a b bm bc).2.board = vis b0

def NOk (fuel : Nat) : Prop :=
  ∀ (s : St) (ply maxPly : Nat) (a b : Int) (isPv : Bool) (h ph : UInt64), Inv fuel s.board →
    vis (negamax fuel s ply maxPly a b isPv h ph).2.board = vis s.board

def NLoopOk (fuel : Nat) : Prop :=
  ∀ (b0 : Board), Inv (fuel + 1) b0 → ∀ (moves : List Move), (∀ m ∈ moves, Generated b0 m) →
    ∀ (s : St) (ply maxPly : Nat) (beta : Int) (isPv : Bool) (pvMove : Option Move) (h ph : UInt64) (rem : Nat)
      (acc : LoopAcc), vis s.board = vis b0 →
      vis (negamaxLoop fuel s moves ply maxPly beta isPv pvMove h ph rem acc).2.2.board = vis b0

section
variable (L : BoardLaws)
include L

/-- the board after a legal generated move, seen from a state whose board is vis-equal to `b0` -/
theorem child_inv {k : Nat} {b0 b : Board} (hinv : Inv (k + 1) b0) (hb : vis b = vis b0) {m : Move} (hm : Generated b0 m)
    (hv : isValid (make b m) = true) : Inv k (make b m) ∧ isValid (make b0 m) = true := by
  have hmk : vis (make b m) = vis (make b0 m) := make_congr hb m
  have hv' : isValid (make b0 m) = true := by rw [← isValid_congr hmk]; exact hv
  exact ⟨Inv_congr hmk.symm (L.make_inv k b0 m hinv hm hv'), hv'⟩

theorem qLoop_of_q {fuel : Nat} (hq : QOk fuel) : QLoopOk fuel := by
  intro b0 hinv moves
  have hwf := hinv.wf
  induction moves with
  | nil => intro _ s a b bm bc hs; rw [quiescenceLoop_nil]; exact hs
  | cons m rest ih =>
    intro hmem s a b bm bc hs
    have hm : Generated b0 m := hmem m (List.mem_cons_self ..)
    have hrest : ∀ m ∈ rest, Generated b0 m := fun x hx => hmem x (List.mem_cons_of_mem _ hx)
    have hmk : vis (make s.board m) = vis (make b0 m) := make_congr hs m
    rw [quiescenceLoop_cons]
    split
    · exact ih hrest _ a b bm bc (back hwf hm hmk)
    · rename_i hv
      have hi1 := (child_inv L hinv hs hm (by simpa using hv)).1
      have hr := hq { s with board := make s.board m, quiescenceNodes := s.quiescenceNodes + 1 } (-b) (-a) hi1
      have hb := back hwf hm (hr.trans hmk)
      simp only
      split
      · exact hb
      · split
        · exact ih hrest _ _ b _ _ hb
        · exact ih hrest _ a b bm bc hb

theorem quiescence_ok : ∀ fuel, QOk fuel := by
  intro fuel
  induction fuel with
  | zero => intro s a b _; rw [quiescence_zero]
  | succ fuel ih =>
    intro s a b hinv
    rw [quiescence_succ]
    split
    · rfl
    · refine qLoop_of_q L ih s.board hinv _ ?_ s _ b none none rfl
      intro m hm
      exact Or.inr (mem_sortMoves.mp hm)

/-! ## negamax -/

theorem nLoop_of_n {fuel : Nat} (hn : NOk fuel) : NLoopOk fuel := by
  intro b0 hinv moves
  have hwf := hinv.wf
  induction moves with
  | nil => intro _ s ply maxPly beta isPv pvMove h ph rem acc hs; rw [negamaxLoop_nil]; exact hs
  | cons m rest ih =>
    intro hmem s ply maxPly beta isPv pvMove h ph rem acc hs
    have hm : Generated b0 m := hmem m (List.mem_cons_self ..)
    have hrest : ∀ m ∈ rest, Generated b0 m := fun x hx => hmem x (List.mem_cons_of_mem _ hx)
    have hmk : vis (make s.board m) = vis (make b0 m) := make_congr hs m
    rw [negamaxLoop_cons]
    split
    · exact ih hrest _ ply maxPly beta isPv pvMove h ph rem acc (back hwf hm hmk)
    · rename_i hv
      have hi1 := (child_inv L hinv hs hm (by simpa using hv)).1
      have hr := hn { s with board := make s.board m } (ply + 1) maxPly (-beta) (-acc.alpha)
        (childPvOf isPv pvMove m) (h ^^^ (Zobrist.xorOf m.f).1) (ph ^^^ (Zobrist.xorOf m.f).2) hi1
      have hb := back hwf hm (hr.trans hmk)
      simp only
      split
      · exact hb
      · split
        · exact hb
        · exact ih hrest _ ply maxPly beta isPv pvMove h ph rem _ hb

theorem negamax_ok : ∀ fuel, NOk fuel := by
  intro fuel
  induction fuel with
  | zero => intro s ply maxPly a b isPv h ph _; rw [negamax_zero]
  | succ fuel ih =>
    intro s ply maxPly a b isPv h ph hinv
    have he : (enter s h).board = s.board := enter_board s h
    have hinv3 : Inv (fuel + 1) (enter s h).board := by rw [he]; exact hinv
    rw [negamax_succ]
    split
    · show vis (pollStep s).board = _; rw [pollStep_board]
    · simp only
      split
      · rw [he]
      · split
        · rw [he]
        · split
          · rw [he]
          · split
            · unfold horizon
              simp only
              split
              · rw [quiescence_ok L fuel _ _ _ (Inv_mono (Nat.le_succ fuel) hinv3), he]
              · rw [he]
            · rw [finish_board]
              rw [nLoop_of_n L ih (enter s h).board hinv3 _ ?_ (enter s h) _ _ _ _ _ _ _ _ _ rfl, he]
              intro m hm
              exact Or.inl (mem_rootBuffer_genPseudo (mem_sortMoves.mp hm))

/-! ## iterative deepening, `go`, sessions -/

theorem rootSearch_board (s : St) (d : Nat) (hinv : Inv (fuelFor d) s.board) :
    vis (rootSearch s d).2.board = vis s.board :=
  negamax_ok L _ s 0 d _ _ _ _ _ hinv

/-- `n` iterations starting at depth `d` search with fuel `fuelFor d`, …, `fuelFor (d + n - 1)` -/
theorem deepen_board (n : Nat) (s : St) (d mt : Nat) (best : Option VM) (u : Option (List Move)) (sc : Option Score)
    (hinv : Inv (fuelFor d + n) s.board) : vis (deepen n s d mt best u sc).2.board = vis s.board := by
  induction n generalizing s d best u sc with
  | zero => rw [deepen_zero]
  | succ n ih =>
    have hr := rootSearch_board L s d (Inv_mono (Nat.le_add_right _ _) hinv)
    rw [deepen_succ]
    simp only
    split
    · rw [iterState_board]; exact hr
    · split
      · rw [iterState_board]; exact hr
      · rw [ih]
        · rw [iterState_board]; exact hr
        · rw [iterState_board]
          refine Inv_congr hr.symm (Inv_mono ?_ hinv)
          unfold fuelFor; omega

/-- the clock budget of one `go`: the deepest iteration has depth ≤ `maxIter` and searches with fuel ≤ `maxIter + 200` -/
def goBudget (maxIter : Nat) : Nat := maxIter + 201

theorem go_preserves_board (s : St) (g : GoParams) (maxIter : Nat) (hinv : Inv (goBudget maxIter) s.board) :
    vis (goCmd s g maxIter).board = vis s.board := by
  rw [goCmd_eq]
  show vis (goDeepen s g maxIter).2.board = _
  unfold goDeepen
  rw [deepen_board L _ _ _ _ _ _ _ ?_, goPrep_board]
  rw [goPrep_board]
  refine Inv_mono ?_ hinv
  have := goIters_le g maxIter
  unfold fuelFor goBudget; omega

theorem runGo_board (s : St) (x : GoStep) (hinv : Inv (goBudget x.maxIter) s.board) : vis (runGo s x).board = vis s.board := by
  unfold runGo
  rw [go_preserves_board L _ _ _ (by rw [x.env_board]; exact hinv), x.env_board]

/-- any number of consecutive (possibly interrupted) searches leaves the position alone -/
theorem session_preserves_board (xs : List GoStep) (s : St) (hinv : ∀ x ∈ xs, Inv (goBudget x.maxIter) s.board) :
    vis (runGos s xs).board = vis s.board := by
  induction xs generalizing s with
  | nil => rfl
  | cons x xs ih =>
    have h1 := runGo_board L s x (hinv x (List.mem_cons_self ..))
    show vis (runGos (runGo s x) xs).board = _
    rw [ih _ (fun y hy => Inv_congr h1.symm (hinv y (List.mem_cons_of_mem _ hy))), h1]

end

end Inkayaku.Search
