import Inkayaku.Proofs.MakeWf
import Inkayaku.Proofs.WfStep
/-!
# H2' proved: `boardLaws : BoardLaws`

For a board that is well-formed with clock budget `k+1`, every generated move (pseudo-legal generator or the
capture/promotion generator of the quiescence search) whose resulting position passes `isValid` leads to a board that is
well-formed with clock budget `k`.  All fourteen conjuncts of `WF.wf` are proved (`MakeWf.make_wfP`):
(1) pairwise disjoint piece words, (2) one king per side — using that no generated move captures the king because the
side not to move is not in check (`MakeWf.attacked_ne_king`, via the symmetry of the attack lookups) —, (3) no pawn on
rank 1/8, (4) side to move, `isValid` (hypothesis), (5) castling rights imply king and rook at home, (6) the e.p. square
lies behind a pawn that just made a double step, (7) the clocks, from the budget.
-/
namespace Inkayaku.Search
open Inkayaku.Board Inkayaku.WF Inkayaku.MakeWf Inkayaku.GenStrong

theorem make_inv (k : Nat) (b : Board) (m : Move) (hinv : Inv (k + 1) b) (hg : Generated b m)
    (hv : isValid (make b m) = true) : Inv k (make b m) := by
  obtain ⟨hwf, hhm, hfm⟩ := hinv
  have hP := (wf_iff b).mp hwf
  obtain ⟨src, tgt, piece, castle, ep, promo, epOpp, hf, ha⟩ : GenS b m := by
    rcases hg with hg | hg
    · exact genPseudo_strong hwf m hg
    · exact genNonQuiescent_strong hwf m hg
  have hmk : make b m = makeF b (mkF b src tgt piece castle ep promo epOpp) := by
    unfold make; rw [hf]
  rw [hmk] at hv ⊢
  have hW := make_wfP hP ha hv (by omega) (by omega)
  refine ⟨(wf_iff _).mpr hW, ?_, ?_⟩
  · show (if (mkF b src tgt piece castle ep promo epOpp).halfmoveReset = true then 0 else b.halfmove + 1) + k ≤ 4095
    split <;> omega
  · show b.fullmove + b.turn + k < 2147483648
    have := hP.turn
    omega

/-- **H2' holds** -/
theorem boardLaws : BoardLaws := ⟨make_inv⟩

/-- the unbudgeted statement, with the two clock conditions it needs -/
theorem make_wf (b : Board) (m : Move) (hwf : wf b = true) (hhm : b.halfmove < 4095) (hfm : b.fullmove + 1 < 2147483648)
    (hg : Generated b m) (hv : isValid (make b m) = true) : wf (make b m) = true :=
  (make_inv 0 b m ⟨hwf, by omega, by omega⟩ hg hv).1

#print axioms boardLaws
#print axioms make_wf

end Inkayaku.Search
