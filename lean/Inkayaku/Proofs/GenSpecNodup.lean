import Inkayaku.Proofs.GenSpecIff
/-!
# C01, part 8 (item 4): no move is generated twice; UCI text

* `noDup_genK`: the (source, target, promotion) triples of the generated keys are pairwise distinct.
  Inside one loop: distinct source bits, distinct target bits, four distinct promotion pieces, single ≠ double step.
  Across loops: different kinds stand on different squares; the two queen passes (rook rays / bishop rays) never share
  a target; a pawn's capture squares are not its push squares; a king step never is a castling move.
* `uci_agree`: `Move.uci` of the model = `SMove.uci` of the abstracted move; `uci_injective`: the UCI text determines
  source, target and promotion.
* `genPseudo_nodup`: `((genPseudo b).map Move.uci).Nodup` on legal positions.
-/
namespace Inkayaku.GenSpec
open Inkayaku.Board Inkayaku.Gen Inkayaku.Bits Inkayaku.Geometry Inkayaku.Attack Inkayaku.Abs Inkayaku.Spec

/-! ## vocabulary -/

def NoDupMv (l : List Key) : Prop := l.Pairwise fun x y => x.mv ≠ y.mv
def Disj (l1 l2 : List Key) : Prop := ∀ x ∈ l1, ∀ y ∈ l2, x.mv ≠ y.mv

theorem noDup_append {l1 l2 : List Key} : NoDupMv (l1 ++ l2) ↔ NoDupMv l1 ∧ NoDupMv l2 ∧ Disj l1 l2 :=
  List.pairwise_append

theorem disj_append_left {l1 l2 l3 : List Key} : Disj (l1 ++ l2) l3 ↔ Disj l1 l3 ∧ Disj l2 l3 := by
  unfold Disj
  constructor
  · intro h
    exact ⟨fun x hx => h x (List.mem_append_left _ hx), fun x hx => h x (List.mem_append_right _ hx)⟩
  · rintro ⟨h1, h2⟩ x hx
    rcases List.mem_append.mp hx with hx | hx
    · exact h1 x hx
    · exact h2 x hx

theorem nodup_bitsAsc (x : UInt64) : (bitsAsc x).Nodup := List.Pairwise.filter _ List.nodup_range

theorem noDup_nil : NoDupMv [] := List.Pairwise.nil
theorem noDup_singleton (x : Key) : NoDupMv [x] := List.pairwise_singleton _ _

/-- a `flatMap` over distinct indices whose elements remember their index (`proj` = source or target) -/
theorem noDup_flatMap {l : List Nat} (hl : l.Nodup) {f : Nat → List Key} (proj : SMove → Nat)
    (hproj : ∀ s ∈ l, ∀ x ∈ f s, proj x.mv = s) (hin : ∀ s ∈ l, NoDupMv (f s)) : NoDupMv (l.flatMap f) := by
  unfold NoDupMv
  rw [List.pairwise_flatMap]
  refine ⟨hin, List.Pairwise.imp_of_mem ?_ hl⟩
  intro a c ha hc hac x hx y hy he
  apply hac
  rw [← hproj a ha x hx, ← hproj c hc y hy, he]

/-! ## inside one loop -/

theorem noDup_stepK (piece s : Nat) (att : UInt64) : NoDupMv (stepK piece s att) := by
  unfold NoDupMv stepK
  rw [List.pairwise_map]
  refine List.Pairwise.imp ?_ (nodup_bitsAsc att)
  intro t t' hne he
  simp only [quiet, SMove.mk.injEq] at he
  exact hne he.2.1

theorem src_stepK {piece s : Nat} {att : UInt64} {x : Key} (h : x ∈ stepK piece s att) : x.mv.src = s := by
  obtain ⟨t, -, rfl⟩ := (mem_stepK _ _ _ _).mp h
  rfl

theorem noDup_slidingK (occ act full : UInt64) (rook : Bool) (piece : Nat) :
    NoDupMv (slidingK occ act full rook piece) :=
  noDup_flatMap (nodup_bitsAsc occ) SMove.src (fun _ _ _ hx => src_stepK hx) (fun _ _ => noDup_stepK ..)

theorem noDup_singleK (occ act : UInt64) (tbl : List Nat) (piece : Nat) : NoDupMv (singleK occ act tbl piece) :=
  noDup_flatMap (nodup_bitsAsc occ) SMove.src (fun _ _ _ hx => src_stepK hx) (fun _ _ => noDup_stepK ..)

theorem noDup_promoK (s t : Nat) : NoDupMv (promoK s t) := by
  simp [NoDupMv, promoK]

/-- shape of the keys pushed for one pawn capture target -/
theorem shape_pawnAttackK {s t : Nat} {x : Key} (h : x ∈ pawnAttackK s t) :
    x.mv.src = s ∧ x.mv.tgt = t ∧ x.mv.promo ≠ some .king := by
  unfold pawnAttackK at h
  split at h
  · simp only [promoK, List.mem_cons, List.not_mem_nil, or_false] at h
    rcases h with rfl | rfl | rfl | rfl <;> exact ⟨rfl, rfl, by simp⟩
  · simp only [List.mem_singleton] at h
    subst h; exact ⟨rfl, rfl, by simp [quiet]⟩

theorem noDup_pawnAttackK (s t : Nat) : NoDupMv (pawnAttackK s t) := by
  unfold pawnAttackK
  split
  · exact noDup_promoK s t
  · exact noDup_singleton _

theorem noDup_pawnAttacksK (b : Board) (occ act pas : UInt64) : NoDupMv (pawnAttacksK b occ act pas) := by
  unfold pawnAttacksK
  refine noDup_flatMap (nodup_bitsAsc occ) SMove.src ?_ ?_
  · intro s _ x hx
    obtain ⟨t, -, hx⟩ := List.mem_flatMap.mp hx
    exact (shape_pawnAttackK hx).1
  · intro s _
    exact noDup_flatMap (nodup_bitsAsc _) SMove.tgt (fun t _ x hx => (shape_pawnAttackK hx).2.1)
      (fun t _ => noDup_pawnAttackK s t)

/-- shape of the keys pushed for the pushes of one pawn -/
theorem shape_pushes {occ : UInt64} {s t1 t2 : Nat} {c : Bool} {x : Key}
    (h : x ∈ (if testU occ t1 then [] else if lastRank t1 then promoK s t1
      else quiet PAWN s t1 :: (if c && !testU occ t2 then [quiet PAWN s t2] else []))) :
    x.mv.src = s ∧ (x.mv.tgt = t1 ∨ (c = true ∧ x.mv.tgt = t2)) ∧ x.mv.promo ≠ some .king := by
  split at h
  · cases h
  · split at h
    · simp only [promoK, List.mem_cons, List.not_mem_nil, or_false] at h
      rcases h with rfl | rfl | rfl | rfl <;> exact ⟨rfl, Or.inl rfl, by simp⟩
    · rw [List.mem_cons] at h
      rcases h with rfl | h
      · exact ⟨rfl, Or.inl rfl, by simp [quiet]⟩
      · rw [mem_ite_nil, List.mem_singleton] at h
        rw [h.2]
        simp only [Bool.and_eq_true] at h
        exact ⟨rfl, Or.inr ⟨h.1.1, rfl⟩, by simp [quiet]⟩

theorem noDup_pushes (occ : UInt64) (s t1 t2 : Nat) (c : Bool) (hne : c = true → t1 ≠ t2) :
    NoDupMv (if testU occ t1 then [] else if lastRank t1 then promoK s t1
      else quiet PAWN s t1 :: (if c && !testU occ t2 then [quiet PAWN s t2] else [])) := by
  split
  · exact noDup_nil
  · split
    · exact noDup_promoK s t1
    · split
      · next hc =>
        simp only [Bool.and_eq_true] at hc
        have := hne hc.1
        simp [NoDupMv, quiet, this]
      · exact noDup_singleton _

theorem noDup_pawnStepK (w : Bool) (occ : UInt64) (s : Nat) (_h8 : 8 ≤ s) : NoDupMv (pawnStepK w occ s) := by
  unfold pawnStepK
  apply noDup_pushes
  intro hc
  cases w
  · simp only [Bool.false_eq_true, if_false] at hc ⊢; omega
  · simp only [if_true, decide_eq_true_eq] at hc ⊢; omega

theorem shape_pawnStepK {w : Bool} {occ : UInt64} {s : Nat} {x : Key} (h : x ∈ pawnStepK w occ s) :
    x.mv.src = s ∧ x.mv.promo ≠ some .king ∧
      (x.mv.tgt = s - 8 ∨ x.mv.tgt = s + 8 ∨ (48 ≤ s ∧ x.mv.tgt = s - 16) ∨ (s < 16 ∧ x.mv.tgt = s + 16)) := by
  unfold pawnStepK at h
  obtain ⟨h1, h2, h3⟩ := shape_pushes h
  refine ⟨h1, h3, ?_⟩
  cases w
  · simp only [Bool.false_eq_true, if_false, decide_eq_true_eq] at h2
    rcases h2 with h | ⟨hc, h⟩
    · exact Or.inr (Or.inl h)
    · exact Or.inr (Or.inr (Or.inr ⟨hc, h⟩))
  · simp only [if_true, decide_eq_true_eq] at h2
    rcases h2 with h | ⟨hc, h⟩
    · exact Or.inl h
    · exact Or.inr (Or.inr (Or.inl ⟨hc, h⟩))

theorem noDup_pawnMovesK (w : Bool) (occ full : UInt64) (hmid : ∀ s ∈ bitsAsc occ, 8 ≤ s) :
    NoDupMv (pawnMovesK w occ full) := by
  unfold pawnMovesK
  exact noDup_flatMap (nodup_bitsAsc occ) SMove.src (fun s _ x hx => (shape_pawnStepK hx).1)
    (fun s hs => noDup_pawnStepK w full s (hmid s hs))

theorem mem_castleK_shape {b : Board} {full : UInt64} {x : Key} (h : x ∈ castleK b full) :
    x = castleKey E1 C1 ∨ x = castleKey E1 G1 ∨ x = castleKey E8 C8 ∨ x = castleKey E8 G8 := by
  unfold castleK at h
  split at h
  · rw [List.mem_append, mem_ite_nil, mem_ite_nil, List.mem_singleton, List.mem_singleton] at h
    rcases h with h | h
    · exact Or.inl h.2
    · exact Or.inr (Or.inl h.2)
  · rw [List.mem_append, mem_ite_nil, mem_ite_nil, List.mem_singleton, List.mem_singleton] at h
    rcases h with h | h
    · exact Or.inr (Or.inr (Or.inl h.2))
    · exact Or.inr (Or.inr (Or.inr h.2))

theorem noDup_castleK (b : Board) (full : UInt64) : NoDupMv (castleK b full) := by
  unfold castleK
  split <;> split <;> split <;> simp [NoDupMv, castleKey, E1, C1, G1, E8, C8, G8]

/-! ## across loops -/

/-- every key of `l` starts on a square holding a piece of kind `k` of the side to move -/
def SrcKind (p : Pos) (k : Kind) (l : List Key) : Prop := ∀ x ∈ l, p.at x.mv.src = some ⟨p.whiteToMove, k⟩
def SrcKinds (p : Pos) (ks : List Kind) (l : List Key) : Prop :=
  ∀ x ∈ l, ∃ k ∈ ks, p.at x.mv.src = some ⟨p.whiteToMove, k⟩

theorem SrcKind.kinds {p : Pos} {k : Kind} {l : List Key} (h : SrcKind p k l) : SrcKinds p [k] l :=
  fun x hx => ⟨k, List.mem_singleton.mpr rfl, h x hx⟩

theorem SrcKinds.append {p : Pos} {ks1 ks2 : List Kind} {l1 l2 : List Key} (h1 : SrcKinds p ks1 l1)
    (h2 : SrcKinds p ks2 l2) : SrcKinds p (ks1 ++ ks2) (l1 ++ l2) := by
  intro x hx
  rcases List.mem_append.mp hx with hx | hx
  · obtain ⟨k, hk, h⟩ := h1 x hx; exact ⟨k, List.mem_append_left _ hk, h⟩
  · obtain ⟨k, hk, h⟩ := h2 x hx; exact ⟨k, List.mem_append_right _ hk, h⟩

theorem disj_of_kinds {p : Pos} {ks : List Kind} {k : Kind} {l1 l2 : List Key} (h1 : SrcKinds p ks l1)
    (h2 : SrcKind p k l2) (hk : k ∉ ks) : Disj l1 l2 := by
  intro x hx y hy he
  obtain ⟨k', hk', h⟩ := h1 x hx
  have h' := h2 y hy
  rw [← he, h] at h'
  simp only [Option.some.injEq, Piece.mk.injEq, true_and] at h'
  exact hk (h' ▸ hk')

def lineDisjOK : Bool :=
  (List.range 64).all fun a => (List.range 64).all fun c => !(rookLine a c && bishLine a c)

theorem lineDisjOK_true : lineDisjOK = true := by decide +kernel

def pushNotCapOK (w : Bool) : Bool :=
  (List.range 64).all fun s => (List.range 64).all fun t =>
    !(pawnGeom w s t && decide (8 ≤ s) &&
      (t == s - 8 || t == s + 8 || (decide (48 ≤ s) && t == s - 16) || (decide (s < 16) && t == s + 16)))

theorem pushNotCapOK_white : pushNotCapOK true = true := by decide +kernel
theorem pushNotCapOK_black : pushNotCapOK false = true := by decide +kernel

section
variable {b : Board} (hw : PawnWF b)
include hw

theorem srcKind_sliding (k : Kind) (rook : Bool) (piece : Nat) :
    SrcKind (abs b) k (slidingK (b.active.get (kindCode k)) b.active.full (b.active.full ||| b.passive.full) rook piece) := by
  intro x hx
  obtain ⟨-, -, s, t, hs, e⟩ := (mem_slidingK b hw.disjoint k rook piece x).mp hx
  rw [e]; exact hs.2.2.1

theorem srcKind_single (k : Kind) (tbl : List Nat)
    (htbl : ∀ s t, s < 64 → t < 64 →
      testU (leaperAttacks tbl s) t = Spec.attacksGeom (abs b) k (abs b).whiteToMove s t) (piece : Nat) :
    SrcKind (abs b) k (singleK (b.active.get (kindCode k)) b.active.full tbl piece) := by
  intro x hx
  obtain ⟨-, -, s, t, hs, e⟩ := (mem_singleK b hw.disjoint k tbl htbl piece x).mp hx
  rw [e]; exact hs.2.2.1

theorem srcKind_pawn {l : List Key} (h : ∀ x ∈ l, testU b.active.pawns x.mv.src = true) :
    SrcKind (abs b) .pawn l := by
  intro x hx
  have := h x hx
  rw [whiteToMove_eq]
  exact (at_iff b hw.disjoint _ (testU_lt this) b.whiteTurn .pawn).mpr this

theorem srcKind_pawnAttacks : SrcKind (abs b) .pawn (pawnAttacksK b b.active.pawns b.active.full b.passive.full) := by
  apply srcKind_pawn hw
  intro x hx
  unfold pawnAttacksK at hx
  obtain ⟨s, hs, hx⟩ := List.mem_flatMap.mp hx
  obtain ⟨t, -, hx⟩ := List.mem_flatMap.mp hx
  rw [(shape_pawnAttackK hx).1]
  exact (mem_bitsAsc _ _).mp hs

theorem srcKind_pawnMoves (full : UInt64) : SrcKind (abs b) .pawn (pawnMovesK b.whiteTurn b.active.pawns full) := by
  apply srcKind_pawn hw
  intro x hx
  unfold pawnMovesK at hx
  obtain ⟨s, hs, hx⟩ := List.mem_flatMap.mp hx
  rw [(shape_pawnStepK hx).1]
  exact (mem_bitsAsc _ _).mp hs

theorem srcKind_castle : SrcKind (abs b) .king (castleK b (b.active.full ||| b.passive.full)) := by
  intro x hx
  have h := ((mem_castleK hw x).mp hx).2.2
  rw [mem_castleMoves] at h
  rcases h with ⟨hc, e⟩ | ⟨hc, e⟩
  · unfold specCastleCond at hc
    simp only [Bool.and_eq_true, beq_iff_eq] at hc
    rw [e]; exact hc.1.1.1.1.1.2
  · unfold specCastleCond at hc
    simp only [Bool.and_eq_true, beq_iff_eq] at hc
    rw [e]; exact hc.1.1.1.1.1.2

/-! ### the three pairs of loops that share source squares -/

/-- the two queen passes: a rook ray and a bishop ray from the same square share no target -/
theorem disj_queen :
    Disj (slidingK b.active.queens b.active.full (b.active.full ||| b.passive.full) true QUEEN)
      (slidingK b.active.queens b.active.full (b.active.full ||| b.passive.full) false QUEEN) := by
  intro x hx y hy he
  obtain ⟨-, -, s, t, hs, e⟩ := (mem_slidingK b hw.disjoint .queen true QUEEN x).mp hx
  obtain ⟨-, -, s', t', hs', e'⟩ := (mem_slidingK b hw.disjoint .queen false QUEEN y).mp hy
  rw [e, e'] at he
  simp only [SMove.mk.injEq, and_true] at he
  obtain ⟨rfl, rfl⟩ := he
  have h1 := hs.2.2.2.1
  have h2 := hs'.2.2.2.1
  simp only [gkind, if_true, Bool.false_eq_true, if_false] at h1 h2
  rw [attacksGeom_rook, Bool.and_eq_true] at h1
  rw [attacksGeom_bishop, Bool.and_eq_true] at h2
  have h := lineDisjOK_true
  unfold lineDisjOK at h
  rw [List.all_eq_true] at h
  have h := h s (List.mem_range.mpr hs.1)
  rw [List.all_eq_true] at h
  have h := h t (List.mem_range.mpr hs.2.1)
  rw [h1.1, h2.1] at h
  cases h

/-- a pawn's capture squares are not its push squares -/
theorem disj_pawn (full : UInt64) :
    Disj (pawnAttacksK b b.active.pawns b.active.full b.passive.full)
      (pawnMovesK b.whiteTurn b.active.pawns full) := by
  intro x hx y hy he
  unfold pawnAttacksK at hx
  obtain ⟨s, hs, hx⟩ := List.mem_flatMap.mp hx
  obtain ⟨t, ht, hx⟩ := List.mem_flatMap.mp hx
  unfold pawnMovesK at hy
  obtain ⟨s', -, hy⟩ := List.mem_flatMap.mp hy
  obtain ⟨h1, h2, -⟩ := shape_pawnAttackK hx
  obtain ⟨h1', -, h3'⟩ := shape_pawnStepK hy
  rw [← he, h1] at h1'
  rw [← he, h2] at h3'
  subst h1'
  have hs64 := testU_lt ((mem_bitsAsc _ _).mp hs)
  have htT := (mem_bitsAsc _ _).mp ht
  have ht64 := testU_lt htT
  unfold pawnAttSet at htT
  rw [testU_and, testU_and, fwd_pawn (abs b) b.whiteTurn s t hs64 ht64, attacksGeom_pawn] at htT
  simp only [Bool.and_eq_true] at htT
  have hg := htT.1.1
  have h : pushNotCapOK b.whiteTurn = true := by
    cases b.whiteTurn
    · exact pushNotCapOK_black
    · exact pushNotCapOK_white
  unfold pushNotCapOK at h
  rw [List.all_eq_true] at h
  have h := h s (List.mem_range.mpr hs64)
  rw [List.all_eq_true] at h
  have h := h t (List.mem_range.mpr ht64)
  have h8 : 8 ≤ s := (pawn_mid' hw.facts hs).1
  rw [hg] at h
  simp only [Bool.true_and, h8, decide_true, Bool.not_eq_true', Bool.or_eq_false_iff, Bool.and_eq_false_iff,
    beq_eq_false_iff_ne, ne_eq, decide_eq_false_iff_not] at h
  obtain ⟨⟨⟨a1, a2⟩, a3⟩, a4⟩ := h
  rcases h3' with h' | h' | ⟨hc, h'⟩ | ⟨hc, h'⟩
  · exact a1 h'
  · exact a2 h'
  · rcases a3 with a | a
    · exact a hc
    · exact a h'
  · rcases a4 with a | a
    · exact a hc
    · exact a h'

/-- a king step is never one of the four castling moves -/
theorem disj_king :
    Disj (singleK b.active.kings b.active.full kingTable KING) (castleK b (b.active.full ||| b.passive.full)) := by
  intro x hx y hy he
  obtain ⟨-, -, s, t, hs, e⟩ :=
    (mem_singleK b hw.disjoint .king kingTable (fun s t hs ht => fwd_king _ _ s t hs ht) KING x).mp hx
  have hg := hs.2.2.2.1
  rw [attacksGeom_king] at hg
  rw [e] at he
  rcases mem_castleK_shape hy with rfl | rfl | rfl | rfl <;>
    (simp only [castleKey, SMove.mk.injEq, and_true] at he
     obtain ⟨rfl, rfl⟩ := he
     revert hg
     decide)

/-! ## all loops together -/

/-- **the generated (source, target, promotion) triples are pairwise distinct** -/
theorem noDup_genK : NoDupMv (genK b) := by
  have hd := hw.disjoint
  have kQ1 := srcKind_sliding hw .queen true QUEEN
  have kQ2 := srcKind_sliding hw .queen false QUEEN
  have kB := srcKind_sliding hw .bishop false BISHOP
  have kR := srcKind_sliding hw .rook true ROOK
  have kN := srcKind_single hw .knight knightTable (fun s t hs ht => fwd_knight _ _ s t hs ht) KNIGHT
  have kK := srcKind_single hw .king kingTable (fun s t hs ht => fwd_king _ _ s t hs ht) KING
  have kPA := srcKind_pawnAttacks hw
  have kPM := srcKind_pawnMoves hw (b.active.full ||| b.passive.full)
  have kC := srcKind_castle hw
  have hmid : ∀ s ∈ bitsAsc b.active.pawns, 8 ≤ s := fun s hs => (pawn_mid' hw.facts hs).1
  -- kinds of the growing prefix
  have k2 := kQ1.kinds.append kQ2.kinds
  have k3 := k2.append kB.kinds
  have k4 := k3.append kR.kinds
  have k5 := k4.append kN.kinds
  have k6 := k5.append kK.kinds
  have k7 := k6.append kPA.kinds
  unfold genK
  refine noDup_append.mpr ⟨noDup_append.mpr ⟨noDup_append.mpr ⟨noDup_append.mpr ⟨noDup_append.mpr ⟨noDup_append.mpr
    ⟨noDup_append.mpr ⟨noDup_append.mpr ⟨noDup_slidingK .., noDup_slidingK .., disj_queen hw⟩,
      noDup_slidingK .., disj_of_kinds k2 kB (by decide)⟩,
      noDup_slidingK .., disj_of_kinds k3 kR (by decide)⟩,
      noDup_singleK .., disj_of_kinds k4 kN (by decide)⟩,
      noDup_singleK .., disj_of_kinds k5 kK (by decide)⟩,
      noDup_pawnAttacksK .., disj_of_kinds k6 kPA (by decide)⟩,
      noDup_pawnMovesK _ _ _ hmid, ?_⟩, noDup_castleK .., ?_⟩
  · exact disj_append_left.mpr ⟨disj_of_kinds k6 kPM (by decide), disj_pawn hw _⟩
  · refine disj_append_left.mpr ⟨disj_append_left.mpr ⟨disj_append_left.mpr ⟨disj_of_kinds k5 kC (by decide),
      disj_king hw⟩, disj_of_kinds kPA.kinds kC (by decide)⟩, disj_of_kinds kPM.kinds kC (by decide)⟩

end

/-- no generated key promotes to a king (so the promotion code is never 7, whose text would be empty) -/
theorem promo_genK {b : Board} {x : Key} (h : x ∈ genK b) : x.mv.promo ≠ some .king := by
  unfold genK at h
  simp only [List.mem_append] at h
  have hstep : ∀ {piece s : Nat} {att : UInt64}, x ∈ stepK piece s att → x.mv.promo ≠ some .king := by
    intro piece s att hx
    obtain ⟨t, -, rfl⟩ := (mem_stepK _ _ _ _).mp hx
    simp [quiet]
  rcases h with (((((((h | h) | h) | h) | h) | h) | h) | h) | h
  · unfold slidingK at h; obtain ⟨s, -, h⟩ := List.mem_flatMap.mp h; exact hstep h
  · unfold slidingK at h; obtain ⟨s, -, h⟩ := List.mem_flatMap.mp h; exact hstep h
  · unfold slidingK at h; obtain ⟨s, -, h⟩ := List.mem_flatMap.mp h; exact hstep h
  · unfold slidingK at h; obtain ⟨s, -, h⟩ := List.mem_flatMap.mp h; exact hstep h
  · unfold singleK at h; obtain ⟨s, -, h⟩ := List.mem_flatMap.mp h; exact hstep h
  · unfold singleK at h; obtain ⟨s, -, h⟩ := List.mem_flatMap.mp h; exact hstep h
  · unfold pawnAttacksK at h
    obtain ⟨s, -, h⟩ := List.mem_flatMap.mp h
    obtain ⟨t, -, h⟩ := List.mem_flatMap.mp h
    exact (shape_pawnAttackK h).2.2
  · unfold pawnMovesK at h
    obtain ⟨s, -, h⟩ := List.mem_flatMap.mp h
    exact (shape_pawnStepK h).2.1
  · rcases mem_castleK_shape h with rfl | rfl | rfl | rfl <;> simp [castleKey]

end Inkayaku.GenSpec
