/-!
# Minimax, alpha-beta and capture resolution over an abstract game (specification for C08)

Everything is in negamax convention: a value is always from the point of view of the side to move in the
position it belongs to, a parent negates the value of a child.

* `Game`        – positions `P`, move labels `μ` (`child p m` is the position after `m`), the value `term` of a
                  position without moves (mate / stalemate), the exact horizon value `leafExact`, the windowed horizon
                  evaluator `leaf` the search really calls, and the initial best value `loss`;
* `mm`          – plain minimax to a fixed depth, `optimalMoves` – the moves that attain it;
* `ab`          – fail-soft alpha-beta as `search_negamax` does it (best value starts at `loss`, a move replaces the best
                  move only when strictly better, `alpha = max alpha best`, cut-off at `alpha ≥ beta`), visiting the
                  moves of a node in an ARBITRARY order `order p (moves p)`; it returns the value and the chosen move;
* `QGame`, `Qexact`, `q` – exhaustive capture resolution with stand-pat and the fail-hard `search_quiescence`
                  (which never tests for mate: a position without capture is worth its stand-pat value);
* `SearchGame`  – the combination the engine uses: at the horizon a position with a legal move is resolved by
                  quiescence when it is `noisy`, else valued statically;
* `abT`         – the same alpha-beta with a transposition table (keyed by the position) and an arbitrary, state
                  dependent move order (killer / PV / TT-move hints are functions of an opaque hint state `H`).
Core Lean only; everything is executable.
-/
namespace Inkayaku.Minimax

/-- abstract game -/
structure Game (P μ : Type) where
  moves : P → List μ
  child : P → μ → P
  /-- value of a position without moves -/
  term : P → Int
  /-- exact value of a horizon position that has a move -/
  leafExact : P → Int
  /-- what the search computes for such a position with window `(α, β)` -/
  leaf : P → Int → Int → Int
  /-- initial best value of a node (`LOSS_SCORE`) -/
  loss : Int

variable {P μ : Type}

/-- the result `r` of a search with window `(α, β)` is consistent with the exact value `m`
(the classical fail-soft contract) -/
def Ok (m r α β : Int) : Prop := (r ≤ α → m ≤ r) ∧ (β ≤ r → r ≤ m) ∧ (α < r → r < β → r = m)

def clamp (x α β : Int) : Int := max α (min x β)

/-- maximum of `init` and the negated values of the positions `cs` -/
def mmFold (f : P → Int) (init : Int) (cs : List P) : Int := cs.foldl (fun acc c => max acc (- f c)) init

def Game.children (g : Game P μ) (p : P) : List P := (g.moves p).map (g.child p)

/-- plain minimax of depth `d` -/
def mm (g : Game P μ) : Nat → P → Int
  | 0, p => if (g.moves p).isEmpty then g.term p else g.leafExact p
  | d + 1, p => if (g.moves p).isEmpty then g.term p else mmFold (mm g d) g.loss (g.children p)

/-- the moves whose child value attains the minimax value of depth `d` (none for depth 0: no move is looked at) -/
def optimalMoves (g : Game P μ) : Nat → P → List μ
  | 0, _ => []
  | d + 1, p => (g.moves p).filter fun m => - mm g d (g.child p m) == mm g (d + 1) p

/-- a move order: any rearrangement of the move list of a node -/
def IsOrder (order : P → List μ → List μ) : Prop := ∀ p l, (order p l).Perm l

/-- the move loop of `search_negamax`: `f` searches a child with a window -/
def abLoop (f : P → Int → Int → Int) (child : μ → P) : List μ → Int → Int → Int → Option μ → Int × Option μ
  | [], _, _, best, bm => (best, bm)
  | m :: ms, α, β, best, bm =>
    let v := - f (child m) (-β) (-α)
    let best' := if v > best then v else best
    let bm' := if v > best then some m else bm
    let α' := max α best'
    if α' ≥ β then (best', bm') else abLoop f child ms α' β best' bm'

/-- fail-soft alpha-beta with move order `order`; returns (value, chosen move) -/
def ab (g : Game P μ) (order : P → List μ → List μ) : Nat → P → Int → Int → Int × Option μ
  | 0, p, α, β => if (g.moves p).isEmpty then (g.term p, none) else (g.leaf p α β, none)
  | d + 1, p, α, β =>
    if (g.moves p).isEmpty then (g.term p, none)
    else abLoop (fun c a b => (ab g order d c a b).1) (g.child p) (order p (g.moves p)) α β g.loss none

/-! ## Capture resolution -/

structure QGame (P μ : Type) where
  /-- the (legal) capture / promotion moves -/
  captures : P → List μ
  child : P → μ → P
  standPat : P → Int

/-- exhaustive capture resolution: the mover may stop (stand-pat) or play any capture; `fuel` bounds the length of
the capture sequences looked at (see `Qexact_fuel_stable`: enough fuel = no bound) -/
def Qexact (h : QGame P μ) : Nat → P → Int
  | 0, p => h.standPat p
  | f + 1, p => mmFold (Qexact h f) (h.standPat p) ((h.captures p).map (h.child p))

/-- the move loop of `search_quiescence` (fail-hard) -/
def qLoop (f : P → Int → Int → Int) (child : μ → P) : List μ → Int → Int → Int
  | [], α, _ => α
  | m :: ms, α, β =>
    let v := - f (child m) (-β) (-α)
    if v ≥ β then β else if v > α then qLoop f child ms v β else qLoop f child ms α β

/-- `search_quiescence`: stand-pat ≥ β → β; α := max α stand-pat; loop; result α.  No mate test. -/
def q (h : QGame P μ) (order : P → List μ → List μ) : Nat → P → Int → Int → Int
  | 0, p, α, β => if h.standPat p ≥ β then β else max α (h.standPat p)
  | f + 1, p, α, β =>
    if h.standPat p ≥ β then β
    else qLoop (q h order f) (h.child p) (order p (h.captures p)) (max α (h.standPat p)) β

/-! ## The engine's combination -/

structure SearchGame (P μ : Type) where
  moves : P → List μ
  child : P → μ → P
  term : P → Int
  captures : P → List μ
  standPat : P → Int
  /-- does the horizon node enter quiescence (the code: some pseudo-legal move is a capture or a promotion) -/
  noisy : P → Bool
  /-- horizon value of a quiet position with a legal move -/
  static : P → Int
  loss : Int
  /-- recursion bound of the capture resolution -/
  fuel : Nat

def SearchGame.qgame (s : SearchGame P μ) : QGame P μ :=
  { captures := s.captures, child := s.child, standPat := s.standPat }

/-- the game searched by the engine, captures visited in the order `qorder` -/
def SearchGame.game (s : SearchGame P μ) (qorder : P → List μ → List μ) : Game P μ :=
  { moves := s.moves, child := s.child, term := s.term, loss := s.loss
    leafExact := fun p => if s.noisy p then Qexact s.qgame s.fuel p else s.static p
    leaf := fun p α β => if s.noisy p then q s.qgame qorder s.fuel p α β else s.static p }

/-! ## Transposition table -/

inductive Bound where
  | exact | lower | upper
deriving DecidableEq, Repr, Inhabited

structure Entry (μ : Type) where
  depth : Nat
  value : Int
  bound : Bound
  mv : Option μ

/-- search state: the table (a finite map seen as a function) and an opaque hint state (killers, PV, history …) -/
structure TState (P μ H : Type) where
  tt : P → Option (Entry μ)
  hints : H

/-- heuristics that may look at everything but can only reorder moves -/
structure Heur (P μ H : Type) where
  /-- move order at a node: depends on the hint state, the table entry, the draft and the position -/
  order : H → Option (Entry μ) → Nat → P → List μ → List μ
  /-- update at a cut-off (killer table) -/
  onCut : H → Nat → P → μ → H
  /-- is a result stored (the code: not when it is a mate value) -/
  storable : Int → Bool

def Heur.IsOrder (hr : Heur P μ H) : Prop := ∀ h e d p l, (hr.order h e d p l).Perm l

def TState.store [DecidableEq P] (s : TState P μ H) (p : P) (e : Entry μ) : TState P μ H :=
  { s with tt := fun x => if x = p then some e else s.tt x }

/-- the probe of `search_negamax`: an entry is used when its stored draft is AT LEAST the remaining draft `d`
(as in the code).  `inl` = answer from the table, `inr` = narrowed window.  An entry of a strictly deeper draft
holds the minimax value of another depth, which may legitimately differ: the correctness theorem (`abT_ok`) therefore
carries the explicit hypothesis `SameDraft` under which every usable entry has exactly the remaining draft. -/
def probe (e : Option (Entry μ)) (d : Nat) (α β : Int) : (Int × Option μ) ⊕ (Int × Int) :=
  match e with
  | none => .inr (α, β)
  | some e =>
    if e.depth ≥ d then
      match e.bound with
      | .exact => .inl (e.value, e.mv)
      | .lower => let a := max α e.value; if a ≥ β then .inl (e.value, e.mv) else .inr (a, β)
      | .upper => let b := min β e.value; if α ≥ b then .inl (e.value, e.mv) else .inr (α, b)
    else .inr (α, β)

/-- move loop with state threading -/
def abTLoop {H : Type} (f : P → Int → Int → TState P μ H → (Int × Option μ) × TState P μ H) (child : μ → P)
    (cut : TState P μ H → μ → TState P μ H) :
    List μ → Int → Int → Int → Option μ → TState P μ H → (Int × Option μ) × TState P μ H
  | [], _, _, best, bm, s => ((best, bm), s)
  | m :: ms, α, β, best, bm, s =>
    let (r, s) := f (child m) (-β) (-α) s
    let v := - r.1
    let best' := if v > best then v else best
    let bm' := if v > best then some m else bm
    let α' := max α best'
    if α' ≥ β then ((best', bm'), cut s m) else abTLoop f child cut ms α' β best' bm' s

/-- `search_negamax` with transposition table and state dependent move ordering -/
def abT {H : Type} [DecidableEq P] (g : Game P μ) (hr : Heur P μ H) :
    Nat → P → Int → Int → TState P μ H → (Int × Option μ) × TState P μ H
  | d, p, α₀, β₀, s =>
    match probe (s.tt p) d α₀ β₀ with
    | .inl r => (r, s)
    | .inr (α, β) =>
      if (g.moves p).isEmpty then ((g.term p, none), s)
      else match d with
        | 0 => ((g.leaf p α β, none), s)
        | d' + 1 =>
          let (r, s') := abTLoop (abT g hr d') (g.child p)
            (fun s m => { s with hints := hr.onCut s.hints (d' + 1) p m })
            (hr.order s.hints (s.tt p) (d' + 1) p (g.moves p)) α β g.loss none s
          if hr.storable r.1 then
            let b := if r.1 ≤ α₀ then Bound.upper else if r.1 ≥ β then Bound.lower else Bound.exact
            (r, s'.store p { depth := d' + 1, value := r.1, bound := b, mv := r.2 })
          else (r, s')

end Inkayaku.Minimax
