/-!
Specification for C18: a capacity-bounded map with first-in-first-out eviction.

The whole state is ONE list of `(key, value)` pairs, pairwise distinct keys, in order of first insertion
(head = oldest).  `cap` is a fixed parameter.  Core Lean only.
-/
namespace Inkayaku.FifoMap

/-- the operations of the table interface (shared vocabulary of spec and model) -/
inductive Op (K V : Type) where
  | put (k : K) (v : V)
  | get (k : K)
  | clear
  | len
deriving DecidableEq, Repr

/-- what an operation answers: `get` answers a value or nothing, `len` a number, `put`/`clear` answer nothing -/
inductive Out (V : Type) where
  | value (v : Option V)
  | size (n : Nat)
deriving DecidableEq, Repr

variable {K V : Type} [DecidableEq K]

/-- lookup: the value stored under exactly `k`, or nothing -/
def get (m : List (K × V)) (k : K) : Option V := m.lookup k

/-- store: overwrite in place when `k` is present (its age does not change), otherwise append as the youngest entry;
then drop oldest entries while there are more than `cap` -/
def put (cap : Nat) (m : List (K × V)) (k : K) (v : V) : List (K × V) :=
  let m' := if (m.lookup k).isSome
            then m.map (fun e => if e.1 = k then (k, v) else e)
            else m ++ [(k, v)]
  m'.drop (m'.length - cap)

def clear : List (K × V) := []

def len (m : List (K × V)) : Nat := m.length

def step (cap : Nat) (m : List (K × V)) : Op K V → List (K × V) × Option (Out V)
  | .put k v => (put cap m k v, none)
  | .get k   => (m, some (.value (get m k)))
  | .clear   => (clear, none)
  | .len     => (m, some (.size (len m)))

/-- run a sequence of operations: final state and the answers in order -/
def run (cap : Nat) (m : List (K × V)) : List (Op K V) → List (K × V) × List (Out V)
  | [] => (m, [])
  | op :: ops =>
    let r := step cap m op
    let rest := run cap r.1 ops
    (rest.1, r.2.toList ++ rest.2)

end Inkayaku.FifoMap
