import Inkayaku.Model.FenSyntax

/-!
The engine-to-GUI half of the UCI protocol ("Description of the universal chess interface", April 2006, section
"Engine to GUI") as a *recogniser* of single output lines: `accepts : List Char → Bool`.  Core Lean only; nothing of
the engine's printer is used here (the printer model is `Inkayaku.Model.Console`, the theorem is
`Props/C16Console.lean`).

A line is cut at every U+0020 into *fields* (`splitOnChar ' '`: n spaces give n+1 fields, so two adjacent spaces, a
leading or a trailing space produce an empty field).  Keywords, numbers and moves are single fields, consecutive
items are therefore separated by exactly one space; only free text (`<text>` of `id`, of `option name`, of an option
default, and the rest of the line after `info string`) may contain empty fields.

```
line      ::= "id name" text | "id author" text | "uciok" | "readyok"
            | "bestmove" (move | "0000") [ "ponder" move ]
            | ("copyprotection" | "registration") ("checking" | "ok" | "error")
            | "info" item*
            | "option name" text "type" opttype
move      ::= [a-h][1-8][a-h][1-8][qrbnkp]?
item      ::= ("depth"|"seldepth"|"time"|"nodes"|"multipv"|"currmovenumber"|"hashfull"|"nps"|"tbhits"|"sbhits"|"cpuload") nat
            | ("pv" | "refutation") move+
            | "score" ("cp" int ["lowerbound" | "upperbound"] | "mate" int)
            | "currmove" move
            | "currline" nat move+
            | "string" <rest of the line, may be empty>          (always the last item)
nat       ::= [0-9]+            int ::= ["-"] [0-9]+
opttype   ::= "check" "default" ("true"|"false") | "spin" (("default"|"min"|"max") int)*
            | "combo" "default" text | "button" | "string" "default" text
text      ::= one or more fields, not a single empty field (i.e. the text is not empty); the first field of an
              option name is not empty; no text contains a line break
```

Decisions (documented because the protocol text is informal):
* **`pv`, `refutation` and `currline` need at least one move.**  The protocol writes `pv <move1> ... <movei>`,
  `refutation <move1> <move2> ... <movei>`, `currline <cpunr> <move1> ... <movei>`; a keyword followed by nothing is
  not an instance of that.  So `info depth 1 pv  score cp 3` (empty field after `pv`) and `info pv` are rejected.
* `info` with no item at all is accepted (`item*`), as is a `string` item with empty text (`info string `).
* `currline` must carry the cpu number (the protocol lets a single-cpu engine omit it; the engine's printer never
  omits it, and accepting more would only make the theorem weaker).
* the promotion letter may be any of `qrbnkp` (the protocol only ever uses `qrbn`; `UciMove` can carry any piece).
* U+000A and U+000D never occur in an accepted line (a "line" containing them is two lines for the GUI).
-/
namespace Inkayaku.UciOut
open Inkayaku.FenSyntax (splitOnChar)

abbrev Tok := List Char

/-! ## lexical classes -/

def isFile (c : Char) : Bool := 97 ≤ c.toNat && c.toNat ≤ 104      -- a..h
def isRank (c : Char) : Bool := 49 ≤ c.toNat && c.toNat ≤ 56       -- 1..8
def isPromo (c : Char) : Bool := "qrbnkp".toList.contains c
def isDigit (c : Char) : Bool := 48 ≤ c.toNat && c.toNat ≤ 57      -- 0..9

/-- `[a-h][1-8][a-h][1-8][qrbnkp]?` -/
def isMove : Tok → Bool
  | [a, b, c, d] => isFile a && isRank b && isFile c && isRank d
  | [a, b, c, d, p] => isFile a && isRank b && isFile c && isRank d && isPromo p
  | _ => false

/-- `[0-9]+` -/
def isNat (t : Tok) : Bool := !t.isEmpty && t.all isDigit

/-- `-?[0-9]+` -/
def isInt : Tok → Bool
  | '-' :: ds => isNat ds
  | ds => isNat ds

def isLineBreak (c : Char) : Bool := c = '\n' || c = '\r'

/-- non-empty free text, given as its fields -/
def isText (fs : List Tok) : Bool := fs != [] && fs != [[]]

/-! ## `info` -/

/-- keywords followed by one unsigned number -/
def natKeys : List Tok :=
  ["depth", "seldepth", "time", "nodes", "multipv", "currmovenumber", "hashfull", "nps", "tbhits", "sbhits",
   "cpuload"].map String.toList

/-- the kinds of `info` items -/
inductive Item where
  | nat | moves | score | currmove | currline | string
deriving DecidableEq, Repr

/-- the item a keyword starts -/
def itemOf (t : Tok) : Option Item :=
  if natKeys.contains t then some .nat
  else if t = "pv".toList ∨ t = "refutation".toList then some .moves
  else if t = "score".toList then some .score
  else if t = "currmove".toList then some .currmove
  else if t = "currline".toList then some .currline
  else if t = "string".toList then some .string
  else none

def isBound (t : Tok) : Bool := t = "lowerbound".toList || t = "upperbound".toList

/-- the items of an `info` line.  `more = true`: the previous fields were the keyword and at least one move of a move
list (`pv`, `refutation`, `currline`), so the list may continue here. -/
def items : Bool → List Tok → Bool
  | _, [] => true
  | more, t :: rest =>
    if more && isMove t then items true rest
    else
      match itemOf t, rest with
      | some .nat, v :: rest => isNat v && items false rest
      | some .moves, m :: rest => isMove m && items true rest
      | some .score, k :: v :: rest =>
        if k = "cp".toList then
          isInt v &&
            (match rest with
             | b :: rest' => if isBound b then items false rest' else items false (b :: rest')
             | [] => true)
        else if k = "mate".toList then isInt v && items false rest
        else false
      | some .currmove, m :: rest => isMove m && items false rest
      | some .currline, n :: m :: rest => isNat n && isMove m && items true rest
      | some .string, _ => true
      | _, _ => false
termination_by _ l => l.length
decreasing_by all_goals (simp_wf; try omega)

/-! ## `option` -/

def isProtection (t : Tok) : Bool := t = "checking".toList || t = "ok".toList || t = "error".toList

/-- `(("default"|"min"|"max") int)*` -/
def spinParams : List Tok → Bool
  | [] => true
  | k :: v :: rest => (k = "default".toList || k = "min".toList || k = "max".toList) && isInt v && spinParams rest
  | [_] => false

/-- what follows the keyword `type` -/
def optType : List Tok → Bool
  | [] => false
  | ty :: ps =>
    if ty = "check".toList then ps = ["default".toList, "true".toList] || ps = ["default".toList, "false".toList]
    else if ty = "spin".toList then spinParams ps
    else if ty = "combo".toList ∨ ty = "string".toList then
      match ps with
      | d :: text => d = "default".toList && isText text
      | [] => false
    else if ty = "button".toList then ps = []
    else false

/-- the fields after the first field of the option name: more name fields, then `type …` -/
def optScan : List Tok → Bool
  | [] => false
  | t :: rest => (t = "type".toList && optType rest) || optScan rest

/-! ## lines -/

def acceptsFields : List Tok → Bool
  | [] => false
  | k :: rest =>
    if k = "id".toList then
      match rest with
      | w :: text => (w = "name".toList || w = "author".toList) && isText text
      | [] => false
    else if k = "uciok".toList ∨ k = "readyok".toList then rest = []
    else if k = "bestmove".toList then
      match rest with
      | [m] => isMove m || m = "0000".toList
      | [m, w, p] => (isMove m || m = "0000".toList) && w = "ponder".toList && isMove p
      | _ => false
    else if k = "copyprotection".toList ∨ k = "registration".toList then
      match rest with
      | [s] => isProtection s
      | _ => false
    else if k = "info".toList then items false rest
    else if k = "option".toList then
      match rest with
      | w :: n0 :: more => w = "name".toList && n0 ≠ [] && optScan more
      | _ => false
    else false

/-- the recogniser: one output line (without its terminator) is a well-formed engine-to-GUI message -/
def accepts (line : List Char) : Bool :=
  !line.any isLineBreak && acceptsFields (splitOnChar ' ' line)

/-! ## examples from the protocol text, and near misses -/

#guard accepts "id name Shredder X.Y".toList
#guard accepts "id author Stefan MK".toList
#guard accepts "uciok".toList && accepts "readyok".toList
#guard accepts "bestmove g1f3".toList && accepts "bestmove g1f3 ponder d8f6".toList && accepts "bestmove 0000".toList
#guard accepts "bestmove e7e8q".toList
#guard accepts "copyprotection checking".toList && accepts "copyprotection ok".toList
#guard accepts "registration error".toList
#guard accepts "info depth 12 nodes 123456 nps 100000".toList
#guard accepts "info depth 2 score cp 214 time 1242 nodes 2124 nps 34928 pv e2e4 e7e5 g1f3".toList
#guard accepts "info score cp -13 upperbound depth 1".toList && accepts "info score mate -3".toList
#guard accepts "info currmove e2e4 currmovenumber 1".toList
#guard accepts "info refutation d1h5 g6h5".toList
#guard accepts "info currline 1 e2e4 e7e5 string a  b".toList
#guard accepts "info nodes 120000 nps 116391 hashfull 104".toList
#guard accepts "info string ".toList && accepts "info".toList
#guard accepts "option name Nullmove type check default true".toList
#guard accepts "option name Selectivity type spin default 2 min 0 max 4".toList
#guard accepts "option name Style type combo default Normal var Solid var Normal var Risky".toList
#guard accepts "option name NalimovPath type string default c:\\".toList
#guard accepts "option name Clear Hash type button".toList
#guard !accepts "".toList && !accepts "info ".toList && !accepts " info".toList && !accepts "uciok ".toList
#guard !accepts "info depth 1 pv  score cp 3".toList          -- empty move list: two spaces
#guard !accepts "info depth 1 pv score cp 3".toList
#guard !accepts "info pv".toList && !accepts "info pv ".toList && !accepts "info currline 1 ".toList
#guard !accepts "info depth -1".toList && !accepts "info depth".toList && !accepts "info score cp".toList
#guard !accepts "info depth 1\nquit".toList && !accepts "info string a\rb".toList
#guard !accepts "bestmove".toList && !accepts "bestmove e2e9".toList && !accepts "bestmove e2e4 ponder 0000".toList
#guard !accepts "bestmove  e2e4".toList && !accepts "Bestmove e2e4".toList && !accepts "id name ".toList
#guard !accepts "registration".toList && !accepts "registration later".toList
#guard !accepts "option name Clear Hash type button ".toList && !accepts "option name type button".toList
#guard !accepts "Inkayaku by Marvin Kuhnke (see https://github.com/marvk/rust-chess)".toList   -- the banner is free text

end Inkayaku.UciOut
