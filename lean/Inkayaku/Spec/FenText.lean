/-!
# The canonical FEN text of a chess position (specification for C12)

Independent of bitboards and of the parser: an abstract position is a function from the 64 squares to an optional
(colour, kind) pair plus the five other FEN fields, and `printA` writes its FEN text the way the standard
describes it:

* squares are numbered `file + 8 * row`, `row 0` = rank 8, `file 0` = the a-file (so square 0 = a8, 63 = h1);
* the placement field lists rank 8 down to rank 1, ranks separated by `/`; inside a rank every maximal run of
  empty squares is written as ONE digit 1–8, a piece as its letter (upper case = white);
* side to move `w`/`b`; castling rights in the order `KQkq`, `-` if there are none;
* en-passant square as file letter + rank digit, `-` if there is none;
* halfmove clock and fullmove number in decimal (no leading zeros: `Nat.toDigits 10`).

Core Lean only.
-/
namespace Inkayaku.FenText

/-- the content of one square: `none` = empty, `some (white, kind)` with kind 1 = pawn, 2 = knight, 3 = bishop,
4 = rook, 5 = queen, 6 = king -/
abbrev Cell := Option (Bool × Nat)

/-- abstract position (exactly the information a FEN string carries) -/
structure APos where
  pieces : Fin 64 → Cell
  whiteToMove : Bool
  wK : Bool      -- white may castle king side
  wQ : Bool
  bK : Bool
  bQ : Bool
  ep : Option (Fin 64)
  half : Nat
  full : Nat

/-- content of square `sq` (empty outside the board) -/
def APos.at (p : APos) (sq : Nat) : Cell := if h : sq < 64 then p.pieces ⟨sq, h⟩ else none

/-- the piece letter -/
def pieceChar (white : Bool) (kind : Nat) : Char :=
  match white, kind with
  | true, 1 => 'P' | true, 2 => 'N' | true, 3 => 'B' | true, 4 => 'R' | true, 5 => 'Q' | true, 6 => 'K'
  | false, 1 => 'p' | false, 2 => 'n' | false, 3 => 'b' | false, 4 => 'r' | false, 5 => 'q' | false, 6 => 'k'
  | _, _ => '?'

/-- the digit character of `n ≤ 9` -/
def digit (n : Nat) : Char := Char.ofNat (48 + n)

/-- a pending run of `n` empty squares: nothing if `n = 0`, else one digit -/
def flush (n : Nat) : List Char := if n = 0 then [] else [digit n]

/-- one rank: `n` = length of the run of empty squares seen so far -/
def compress : List Cell → Nat → List Char
  | [], n => flush n
  | none :: cs, n => compress cs (n + 1)
  | some (w, k) :: cs, n => flush n ++ pieceChar w k :: compress cs 0

/-- the eight squares of row `row` (row 0 = rank 8), a-file first -/
def rankCells (p : APos) (row : Nat) : List Cell := (List.range 8).map fun f => p.at (f + 8 * row)

def rankText (p : APos) (row : Nat) : List Char := compress (rankCells p row) 0

/-- pieces joined by a separator character -/
def joinWith (sep : Char) : List (List Char) → List Char
  | [] => []
  | [r] => r
  | r :: r' :: rs => r ++ sep :: joinWith sep (r' :: rs)

def placementText (p : APos) : List Char := joinWith '/' ((List.range 8).map (rankText p))

def sideText (p : APos) : List Char := [if p.whiteToMove then 'w' else 'b']

def castlingText (p : APos) : List Char :=
  let s := (if p.wK then ['K'] else []) ++ (if p.wQ then ['Q'] else [])
    ++ (if p.bK then ['k'] else []) ++ (if p.bQ then ['q'] else [])
  if s.isEmpty then ['-'] else s

/-- `a8` for 0, `b8` for 1, …, `h1` for 63 -/
def squareName (sq : Nat) : List Char := [Char.ofNat (97 + sq % 8), Char.ofNat (56 - sq / 8)]

def epText (p : APos) : List Char :=
  match p.ep with
  | none => ['-']
  | some sq => squareName sq.val

def decimal (n : Nat) : List Char := Nat.toDigits 10 n

/-- the four position fields -/
def fields4 (p : APos) : List (List Char) := [placementText p, sideText p, castlingText p, epText p]

/-- the canonical six-field FEN text -/
def printA (p : APos) : List Char := joinWith ' ' (fields4 p ++ [decimal p.half, decimal p.full])

/-- the four-field FEN text (clocks omitted) -/
def printA4 (p : APos) : List Char := joinWith ' ' (fields4 p)

/-- the kinds are piece kinds and the clocks fit the engine's 32-bit counters.  (A *legal* position satisfies much
more; the FEN theorems only need this.) -/
structure APos.Valid (p : APos) : Prop where
  kinds : ∀ sq w k, p.pieces sq = some (w, k) → 1 ≤ k ∧ k ≤ 6
  half : p.half < 4294967296
  full : p.full < 4294967296

/-! ### sanity check of the printer on the initial position -/

def backRank : List Nat := [4, 2, 3, 5, 6, 3, 2, 4]

def startA : APos where
  pieces := fun sq =>
    let row := sq.val / 8
    let file := sq.val % 8
    if row = 0 then some (false, backRank.getD file 0)
    else if row = 1 then some (false, 1)
    else if row = 6 then some (true, 1)
    else if row = 7 then some (true, backRank.getD file 0)
    else none
  whiteToMove := true
  wK := true
  wQ := true
  bK := true
  bQ := true
  ep := none
  half := 0
  full := 1

example : String.ofList (printA startA) = "rnbqkbnr/pppppppp/8/8/8/8/PPPPPPPP/RNBQKBNR w KQkq - 0 1" := by decide
example : String.ofList (printA4 { startA with whiteToMove := false, wQ := false, bK := false, ep := some 20 })
    = "rnbqkbnr/pppppppp/8/8/8/8/PPPPPPPP/RNBQKBNR b Kq e6" := by decide

end Inkayaku.FenText
