import Inkayaku.Model.FenSyntax
/-!
# The rules of chess, written independently of the bitboard code

A mailbox position (`Nat → Option Piece`, 64 squares, index = file + 8 * row with row 0 = rank 8), declarative
piece movement (file/rank differences, "all squares strictly between are empty"), FIDE castling conditions,
en passant, promotion, "a move is legal iff it does not leave the mover's king attacked", the successor position,
check / checkmate / stalemate, standard algebraic notation.  Nothing here uses bitboards, magic tables, packed
moves or make/unmake; it is the executable reference ("Spec") against which both the implementation and the
bitboard model are compared, and the object the C01/C02/C05/C14 theorems speak about.  Core Lean only.
-/
namespace Inkayaku.Spec

inductive Kind where
  | pawn | knight | bishop | rook | queen | king
deriving DecidableEq, Repr, Inhabited

structure Piece where
  white : Bool
  kind : Kind
deriving DecidableEq, Repr, Inhabited

structure Pos where
  sq : Array (Option Piece)     -- 64 entries
  whiteToMove : Bool
  wk : Bool                     -- white may still castle king side
  wq : Bool
  bk : Bool
  bq : Bool
  ep : Option Nat               -- en-passant target square
  half : Nat
  full : Nat
deriving DecidableEq, Repr, Inhabited

structure SMove where
  src : Nat
  tgt : Nat
  promo : Option Kind
deriving DecidableEq, Repr, Inhabited

def Pos.at (p : Pos) (s : Nat) : Option Piece := (p.sq.getD s none)

def fileOf (s : Nat) : Int := (s % 8 : Nat)
def rowOf (s : Nat) : Int := (s / 8 : Nat)
def mkSq (f r : Int) : Nat := (f + 8 * r).toNat
def inside (f r : Int) : Bool := 0 ≤ f && f < 8 && 0 ≤ r && r < 8

def sgn (x : Int) : Int := if x > 0 then 1 else if x < 0 then -1 else 0

/-- all squares strictly between `a` and `b` (which lie on a common line) are empty -/
def clearBetween (p : Pos) (a b : Nat) : Bool :=
  let df := sgn (fileOf b - fileOf a)
  let dr := sgn (rowOf b - rowOf a)
  let n := max (fileOf b - fileOf a).natAbs (rowOf b - rowOf a).natAbs
  (List.range (n - 1)).all fun i =>
    (p.at (mkSq (fileOf a + df * (i + 1 : Nat)) (rowOf a + dr * (i + 1 : Nat)))).isNone

/-- does a piece of kind `k` and colour `white` standing on `a` attack square `b` (geometry + blockers only) -/
def attacksGeom (p : Pos) (k : Kind) (white : Bool) (a b : Nat) : Bool :=
  let df := (fileOf b - fileOf a).natAbs
  let dr := (rowOf b - rowOf a).natAbs
  a != b &&
  match k with
  | .knight => (df == 1 && dr == 2) || (df == 2 && dr == 1)
  | .king => df ≤ 1 && dr ≤ 1
  | .rook => (df == 0 || dr == 0) && clearBetween p a b
  | .bishop => df == dr && clearBetween p a b
  | .queen => (df == 0 || dr == 0 || df == dr) && clearBetween p a b
  | .pawn => df == 1 && rowOf b - rowOf a == (if white then -1 else 1)

/-- square `s` is attacked by some piece of colour `byWhite` -/
def attacked (p : Pos) (byWhite : Bool) (s : Nat) : Bool :=
  (List.range 64).any fun t =>
    match p.at t with
    | some pc => pc.white == byWhite && attacksGeom p pc.kind pc.white t s
    | none => false

def kingSquare (p : Pos) (white : Bool) : Option Nat :=
  (List.range 64).find? fun s => p.at s == some ⟨white, .king⟩

def inCheck (p : Pos) (white : Bool) : Bool :=
  match kingSquare p white with
  | some s => attacked p (!white) s
  | none => false

def setSq (a : Array (Option Piece)) (s : Nat) (v : Option Piece) : Array (Option Piece) := a.setIfInBounds s v

def e1 : Nat := 60
def e8 : Nat := 4

/-- castling: king's source, king's target, rook's source, rook's target -/
def castleSquares (white kingSide : Bool) : Nat × Nat × Nat × Nat :=
  match white, kingSide with
  | true, true => (60, 62, 63, 61)
  | true, false => (60, 58, 56, 59)
  | false, true => (4, 6, 7, 5)
  | false, false => (4, 2, 0, 3)

def isCastle (p : Pos) (m : SMove) : Bool :=
  match p.at m.src with
  | some pc => pc.kind == .king && (fileOf m.tgt - fileOf m.src).natAbs == 2
  | none => false

def isEnPassant (p : Pos) (m : SMove) : Bool :=
  match p.at m.src with
  | some pc => pc.kind == .pawn && p.ep == some m.tgt && fileOf m.src != fileOf m.tgt && (p.at m.tgt).isNone
  | none => false

def isCapture (p : Pos) (m : SMove) : Bool := (p.at m.tgt).isSome || isEnPassant p m

/-- the position after playing `m` (no legality test here) -/
def apply (p : Pos) (m : SMove) : Pos :=
  match p.at m.src with
  | none => p
  | some pc =>
    let white := pc.white
    let board := setSq p.sq m.src none
    let placed : Piece := match m.promo with | some k => ⟨white, k⟩ | none => pc
    let board := setSq board m.tgt (some placed)
    -- en passant removes the pawn that stands beside the source square, on the target's file
    let board := if isEnPassant p m then setSq board (mkSq (fileOf m.tgt) (rowOf m.src)) none else board
    -- castling relocates the rook
    let board :=
      if isCastle p m then
        let (_, _, rs, rt) := castleSquares white (fileOf m.tgt == 6)
        setSq (setSq board rs none) rt (some ⟨white, .rook⟩)
      else board
    let touches (s : Nat) := m.src == s || m.tgt == s
    let doublePush := pc.kind == .pawn && (rowOf m.tgt - rowOf m.src).natAbs == 2
    { sq := board
      whiteToMove := !p.whiteToMove
      wk := p.wk && !touches 60 && !touches 63
      wq := p.wq && !touches 60 && !touches 56
      bk := p.bk && !touches 4 && !touches 7
      bq := p.bq && !touches 4 && !touches 0
      ep := if doublePush then some (mkSq (fileOf m.src) ((rowOf m.src + rowOf m.tgt) / 2)) else none
      half := if pc.kind == .pawn || isCapture p m then 0 else p.half + 1
      full := if p.whiteToMove then p.full else p.full + 1 }

def promoKinds : List Kind := [.queen, .rook, .bishop, .knight]

/-- pawn moves from `s` by the movement rules alone -/
def pawnMoves (p : Pos) (white : Bool) (s : Nat) : List SMove :=
  let dir : Int := if white then -1 else 1
  let startRow : Int := if white then 6 else 1
  let lastRow : Int := if white then 0 else 7
  let f := fileOf s
  let r := rowOf s
  let withPromo (t : Nat) : List SMove :=
    if rowOf t == lastRow then promoKinds.map fun k => ⟨s, t, some k⟩ else [⟨s, t, none⟩]
  let pushes :=
    if inside f (r + dir) && (p.at (mkSq f (r + dir))).isNone then
      withPromo (mkSq f (r + dir)) ++
        (if r == startRow && (p.at (mkSq f (r + 2 * dir))).isNone then [⟨s, mkSq f (r + 2 * dir), none⟩] else [])
    else []
  let captures := [(-1 : Int), 1].flatMap fun df =>
    if inside (f + df) (r + dir) then
      let t := mkSq (f + df) (r + dir)
      match p.at t with
      | some victim => if victim.white != white then withPromo t else []
      | none => if p.ep == some t then [⟨s, t, none⟩] else []
    else []
  pushes ++ captures

/-- castling moves allowed by the FIDE text: the right is still there, king and rook stand on their squares, all
squares between them are empty, the king is not in check and neither the square it crosses nor the one it lands on
is attacked -/
def castleMoves (p : Pos) (white : Bool) : List SMove :=
  [true, false].filterMap fun kingSide =>
    let right := match white, kingSide with
      | true, true => p.wk | true, false => p.wq | false, true => p.bk | false, false => p.bq
    let (ks, kt, rs, _) := castleSquares white kingSide
    let crossing := (ks + kt) / 2
    if right && p.at ks == some ⟨white, .king⟩ && p.at rs == some ⟨white, .rook⟩ && clearBetween p ks rs
        && !attacked p (!white) ks && !attacked p (!white) crossing && !attacked p (!white) kt
    then some ⟨ks, kt, none⟩ else none

/-- moves allowed by the movement rules (before the king-safety condition) -/
def pseudoMoves (p : Pos) : List SMove :=
  let white := p.whiteToMove
  ((List.range 64).flatMap fun s =>
    match p.at s with
    | some pc =>
      if pc.white != white then []
      else if pc.kind == .pawn then pawnMoves p white s
      else (List.range 64).filterMap fun t =>
        if attacksGeom p pc.kind white s t && (match p.at t with | some o => o.white != white | none => true)
        then some ⟨s, t, none⟩ else none
    | none => []) ++ castleMoves p white

/-- Article 3.9: a move is legal iff the mover's king is not attacked afterwards -/
def legalMoves (p : Pos) : List SMove :=
  (pseudoMoves p).filter fun m => !inCheck (apply p m) p.whiteToMove

def isCheckmate (p : Pos) : Bool := (legalMoves p).isEmpty && inCheck p p.whiteToMove
def isStalemate (p : Pos) : Bool := (legalMoves p).isEmpty && !inCheck p p.whiteToMove

/-! ## Text: squares, UCI, FEN, SAN -/

def sqName (s : Nat) : String := String.ofList [Char.ofNat (97 + s % 8), Char.ofNat (56 - s / 8)]

def kindLetter : Kind → Char
  | .pawn => 'p' | .knight => 'n' | .bishop => 'b' | .rook => 'r' | .queen => 'q' | .king => 'k'

def SMove.uci (m : SMove) : String :=
  sqName m.src ++ sqName m.tgt ++ (match m.promo with | some k => String.ofList [kindLetter k] | none => "")

def pieceChar (pc : Piece) : Char :=
  let c := kindLetter pc.kind
  if pc.white then Char.ofNat (c.toNat - 32) else c

def kindOfChar (c : Char) : Option Kind :=
  match c with
  | 'p' => some .pawn | 'n' => some .knight | 'b' => some .bishop | 'r' => some .rook | 'q' => some .queen | 'k' => some .king
  | _ => none

/-- canonical FEN of a position -/
def fen (p : Pos) : String := Id.run do
  let mut out : String := ""
  for row in [0:8] do
    let mut empty := 0
    for file in [0:8] do
      match p.at (file + 8 * row) with
      | some pc =>
        if empty > 0 then out := out ++ toString empty
        empty := 0
        out := out.push (pieceChar pc)
      | none => empty := empty + 1
    if empty > 0 then out := out ++ toString empty
    if row < 7 then out := out.push '/'
  let rights := (if p.wk then "K" else "") ++ (if p.wq then "Q" else "") ++ (if p.bk then "k" else "") ++ (if p.bq then "q" else "")
  out := out ++ " " ++ (if p.whiteToMove then "w" else "b") ++ " " ++ (if rights.isEmpty then "-" else rights)
  out := out ++ " " ++ (match p.ep with | some s => sqName s | none => "-")
  out ++ " " ++ toString p.half ++ " " ++ toString p.full

/-- decode a FEN that passed the grammar (`FenSyntax.parse`) -/
def ofFields (f : FenSyntax.FenFields) : Pos := Id.run do
  let mut board : Array (Option Piece) := Array.replicate 64 none
  let mut row := 0
  for r in FenSyntax.splitOnChar '/' f.placement do
    let mut file := 0
    for c in r do
      if FenSyntax.isAsciiDigit c then file := file + FenSyntax.digitVal c
      else
        let lower := if 'A' ≤ c && c ≤ 'Z' then Char.ofNat (c.toNat + 32) else c
        match kindOfChar lower with
        | some k => board := setSq board (file + 8 * row) (some ⟨'A' ≤ c && c ≤ 'Z', k⟩)
        | none => pure ()
        file := file + 1
    row := row + 1
  let ep := match f.ep with
    | [fc, rc] => some ((fc.toNat - 97) + 8 * (8 - (rc.toNat - 48)))
    | _ => none
  return { sq := board, whiteToMove := f.side == 'w', wk := f.castling.contains 'K', wq := f.castling.contains 'Q',
           bk := f.castling.contains 'k', bq := f.castling.contains 'q', ep := ep, half := f.half, full := f.full }

def ofFen (s : String) : Option Pos :=
  match FenSyntax.parse s with
  | .ok f => some (ofFields f)
  | .error _ => none

/-- Standard algebraic notation of a legal move -/
def san (p : Pos) (m : SMove) : String :=
  match p.at m.src with
  | none => "?"
  | some pc =>
    let after := apply p m
    let suffix := if isCheckmate after then "#" else if inCheck after after.whiteToMove then "+" else ""
    if isCastle p m then (if fileOf m.tgt == 6 then "O-O" else "O-O-O") ++ suffix
    else
      let capture := isCapture p m
      let target := sqName m.tgt
      if pc.kind == .pawn then
        (if capture then String.ofList [Char.ofNat (97 + m.src % 8), 'x'] else "") ++ target
          ++ (match m.promo with | some k => String.ofList ['=', Char.ofNat ((kindLetter k).toNat - 32)] | none => "")
          ++ suffix
      else
        -- other pieces of the same kind and colour that can also legally move to the target
        let others := (legalMoves p).filter fun o =>
          o.tgt == m.tgt && o.src != m.src && p.at o.src == some pc
        let fileS := String.ofList [Char.ofNat (97 + m.src % 8)]
        let rankS := String.ofList [Char.ofNat (56 - m.src / 8)]
        let disamb :=
          if others.isEmpty then ""
          else if others.all (fun o => o.src % 8 != m.src % 8) then fileS
          else if others.all (fun o => o.src / 8 != m.src / 8) then rankS
          else fileS ++ rankS
        String.ofList [Char.ofNat ((kindLetter pc.kind).toNat - 32)] ++ disamb ++ (if capture then "x" else "") ++ target ++ suffix

end Inkayaku.Spec
