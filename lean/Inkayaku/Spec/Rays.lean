/-!
Geometry of the board as the properties speak about it: squares are numbered `file + 8 * row` with row 0 = rank 8
(a8 = 0, h8 = 7, a1 = 56, h1 = 63); a *ray* is the list of squares met when stepping repeatedly in one direction
until the edge; a slider attacks along a ray up to and including the first occupied square; a leaper attacks
the squares one step away that are on the board.  Core Lean only; nothing here is generated.
-/
namespace Inkayaku.Rays

/-- a direction / step as (Δfile, Δrow); Δrow = -1 is "north" (towards rank 8) -/
abbrev Dir := Int × Int

def rookDirs : List Dir := [(0, -1), (1, 0), (0, 1), (-1, 0)]
def bishopDirs : List Dir := [(1, -1), (1, 1), (-1, 1), (-1, -1)]
def kingSteps : List Dir := rookDirs ++ bishopDirs
def knightSteps : List Dir := [(1, -2), (2, -1), (2, 1), (1, 2), (-1, 2), (-2, 1), (-2, -1), (-1, -2)]
/-- squares a white pawn standing on the square attacks (north-west, north-east) -/
def whitePawnSteps : List Dir := [(-1, -1), (1, -1)]
def blackPawnSteps : List Dir := [(-1, 1), (1, 1)]

def onBoard (f r : Int) : Bool := 0 ≤ f && f < 8 && 0 ≤ r && r < 8

def sqOf (f r : Int) : Nat := (f + 8 * r).toNat

/-- squares reached from (f, r) stepping by `d`, nearest first, until the edge (`fuel` ≥ 7 suffices) -/
def rayFrom (d : Dir) : Nat → Int → Int → List Nat
  | 0, _, _ => []
  | fuel + 1, f, r =>
    let f' := f + d.1
    let r' := r + d.2
    if onBoard f' r' then sqOf f' r' :: rayFrom d fuel f' r' else []

def ray (sq : Nat) (d : Dir) : List Nat := rayFrom d 7 (sq % 8) (sq / 8)

def rays (sq : Nat) (dirs : List Dir) : List (List Nat) := dirs.map (ray sq)

def bit (s : Nat) : Nat := 1 <<< s

/-- attack set along one ray: every square up to and including the first occupied one; the last square of the
ray is attacked whenever it is reached, whatever stands on it -/
def scan (occ : Nat) : List Nat → Nat
  | [] => 0
  | [s] => bit s
  | s :: rest => bit s ||| (if occ.testBit s then 0 else scan occ rest)

def slideOn (occ : Nat) (rs : List (List Nat)) : Nat := rs.foldl (fun acc r => acc ||| scan occ r) 0

/-- slider attack set from `sq` for occupancy `occ` -/
def slide (dirs : List Dir) (sq occ : Nat) : Nat := slideOn occ (rays sq dirs)

/-- leaper attack set from `sq`: the steps that stay on the board -/
def stepAttacks (steps : List Dir) (sq : Nat) : Nat :=
  steps.foldl (fun acc d =>
    let f : Int := (sq % 8 : Nat) + d.1
    let r : Int := (sq / 8 : Nat) + d.2
    if onBoard f r then acc ||| bit (sqOf f r) else acc) 0

/-- the squares whose occupancy matters for a slider on `sq`: every ray square except the last of each ray -/
def relevant (sq : Nat) (dirs : List Dir) : List Nat := (rays sq dirs).flatMap List.dropLast

end Inkayaku.Rays
