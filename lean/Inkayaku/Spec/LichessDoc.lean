/-!
The DOCUMENTED wire format of the Lichess Bot API, written by hand from the public API documentation
(https://lichess.org/api, sections "Bot > Stream Bot game state" and "Bot / Board > Stream incoming events") as of the
time of writing.  This file is NOT generated and does not look at the Rust code; `Props/C19.lean` compares the schema
generated from the Rust serde model (`Inkayaku.Gen.Lichess.schema`) against these tables.

Each table lists the member names of one documented JSON object that the client models; members that the documentation
also lists but a client may ignore are kept separately in `unmodelled` (they never hurt: unknown members are skipped).

Places where the documentation is known or suspected to differ from what the Rust model expects are collected at the end
(`knownDeviations`); they cannot be checked offline.
Core Lean only.
-/
namespace Inkayaku.LichessDoc

/-! ## GET /api/bot/game/stream/{gameId}  (one JSON object per line) -/

/-- `type` values of the game stream -/
def stateTypes : List String := ["gameFull", "gameState", "chatLine", "opponentGone"]

def gameFull : List String :=
  ["type", "id", "variant", "speed", "perf", "rated", "createdAt", "white", "black", "initialFen", "clock",
   "daysPerTurn", "tournamentId", "state"]

/-- also the `state` member of `gameFull` -/
def gameState : List String :=
  ["type", "moves", "wtime", "btime", "winc", "binc", "status", "winner", "wdraw", "bdraw", "wtakeback", "btakeback",
   "rematch"]

def chatLine : List String := ["type", "room", "username", "text"]

def opponentGone : List String := ["type", "gone", "claimWinInSeconds"]

/-- `gameFull.variant`, `challenge.variant` -/
def variantFull : List String := ["key", "name", "short"]

/-- `gameFull.perf` -/
def gameFullPerf : List String := ["name"]

/-- `gameFull.white` / `gameFull.black` -/
def gameFullPlayer : List String := ["aiLevel", "id", "name", "title", "rating", "provisional"]

/-- `gameFull.clock` -/
def gameFullClock : List String := ["initial", "increment"]

/-! ## GET /api/stream/event -/

/-- `type` values of the event stream -/
def eventTypes : List String := ["gameStart", "gameFinish", "challenge", "challengeCanceled", "challengeDeclined"]

/-- members of the `gameStart` / `gameFinish` message -/
def gameEvent : List String := ["type", "game"]

/-- members of the `challenge` message -/
def challengeEvent : List String := ["type", "challenge", "compat"]

/-- members of the `challengeCanceled` / `challengeDeclined` message -/
def challengeOtherEvent : List String := ["type", "challenge"]

/-- the `game` member -/
def gameEventInfo : List String :=
  ["fullId", "gameId", "fen", "color", "lastMove", "source", "status", "variant", "speed", "perf", "rated", "hasMoved",
   "opponent", "secondsLeft", "tournamentId", "swissId", "orientation", "winner", "ratingDiff", "compat"]

def gameEventStatus : List String := ["id", "name"]
def gameEventVariant : List String := ["key", "name"]
def gameEventOpponent : List String := ["id", "username", "rating", "ratingDiff", "ai"]
def compat : List String := ["bot", "board"]

/-- the `challenge` member -/
def challengeInfo : List String :=
  ["id", "url", "status", "challenger", "destUser", "variant", "rated", "speed", "timeControl", "color", "finalColor",
   "perf", "rematchOf", "direction", "initialFen", "declineReason", "rules"]

/-- `challenge.challenger` / `challenge.destUser` -/
def challengeUser : List String := ["id", "name", "title", "rating", "provisional", "patron", "online", "lag"]

def challengePerf : List String := ["icon", "name"]

/-- `challenge.timeControl`: discriminated by `type` -/
def timeControlTypes : List String := ["clock", "correspondence", "unlimited"]
def timeControlClock : List String := ["type", "limit", "increment", "show"]
def timeControlCorrespondence : List String := ["type", "daysPerTurn"]
def timeControlUnlimited : List String := ["type"]

/-- documented members the client does not model (ignored when present) -/
def unmodelled : List (String × List String) :=
  [("gameState", ["expiration"]),
   ("gameEventInfo", ["id", "isMyTurn"]),
   ("challengeInfo", ["declineReasonKey"])]

/-! ## Enumerated keys -/

def statusKeys : List String :=
  ["created", "started", "aborted", "mate", "resign", "stalemate", "timeout", "draw", "outoftime", "cheat", "noStart",
   "unknownFinish", "variantEnd"]

def variantKeys : List String :=
  ["standard", "chess960", "crazyhouse", "antichess", "atomic", "horde", "kingOfTheHill", "racingKings", "threeCheck",
   "fromPosition"]

def speedKeys : List String := ["ultraBullet", "bullet", "blitz", "rapid", "classical", "correspondence"]

/-- `game.source`.  (Older revisions of the documentation list `tournament` where lila now sends `arena`.) -/
def sourceKeys : List String :=
  ["lobby", "friend", "ai", "api", "arena", "position", "import", "importlive", "simul", "relay", "pool", "swiss"]

/-- `game.perf`: the speed for standard chess, otherwise the variant -/
def perfKeys : List String :=
  ["ultraBullet", "bullet", "blitz", "rapid", "classical", "correspondence", "chess960", "crazyhouse", "antichess",
   "atomic", "horde", "kingOfTheHill", "racingKings", "threeCheck"]

def colorKeys : List String := ["white", "black"]
def colorChoiceKeys : List String := ["white", "black", "random"]
def roomKeys : List String := ["player", "spectator"]
def challengeStatusKeys : List String := ["created", "offline", "canceled", "declined", "accepted"]
def directionKeys : List String := ["in", "out"]

/-- `challenge.declineReasonKey` (lower case) -/
def declineReasonKeys : List String :=
  ["generic", "later", "toofast", "tooslow", "timecontrol", "rated", "casual", "standard", "variant", "nobot", "onlybot"]

/-- `challenge.rules` -/
def ruleKeys : List String := ["noAbort", "noRematch", "noGiveTime", "noClaimWin", "noEarlyDraw"]

/-- deviations between documentation and Rust model that this project knows about but cannot decide offline -/
def knownDeviations : List String :=
  ["challenge.rules is documented as an ARRAY of rule names; the Rust model expects one comma separated STRING",
   "challenge.declineReason is documented as human readable text, the key being declineReasonKey; the Rust model " ++
     "decodes declineReason as the (lower case) key enum",
   "game.perf can be `horde`; the Rust PerfKey enum has no such variant (it has `standard` and `puzzle` instead)",
   "players / opponents that are the built-in AI may come without `id`; the Rust model requires it"]

end Inkayaku.LichessDoc
