/-!
The Lichess PGN export layout, written as a *printer* (specification side of property C17).

  [Name "Value"]\n          one line per tag pair, at least one
  \n                        blank line
  1. e4 { c } 1... e5 2. Nf3 Nc6 1-0      one-line movetext: every move is followed by one space, a comment is
                                          ` {` bytes `}` after the SAN token, the result token comes last;
                                          a move-number token (`3.` / `3...`) may precede any move
  \n ... \n                 `trailing` line breaks (1 = only the end of the movetext line, 2 = plus a blank line,
                            3 = Lichess; 0 is allowed for the last game only: file without final newline)

`WFGame` lists exactly what the reader needs; real Lichess games satisfy it (tag names are non-empty identifiers
without space/newline/quote, values contain neither `"` nor newline, SAN tokens are non-empty words such as
`e4`, `Nxf7+`, `O-O`, `O-O-O`, `e8=Q#`, comments contain no `}`).  Core Lean only.
-/
namespace Inkayaku.PgnLayout

inductive Result where
  | whiteWins | blackWins | draw | unknown
deriving DecidableEq, Repr, Inhabited

/-- `1-0`, `0-1`, `1/2-1/2`, `*` -/
def Result.token : Result → List UInt8
  | .whiteWins => [49, 45, 48]
  | .blackWins => [48, 45, 49]
  | .draw => [49, 47, 50, 45, 49, 47, 50]
  | .unknown => [42]

def resultTokens : List (List UInt8) :=
  [Result.whiteWins.token, Result.blackWins.token, Result.draw.token, Result.unknown.token]

/-- one half-move.  `numbered`: a move-number token is printed in front of it (`3.` for White, `3...` for
Black); any mix is allowed, the usual styles are given by `Numbering.apply` below. -/
structure Move where
  san : List UInt8
  comment : Option (List UInt8)
  numbered : Bool
deriving DecidableEq, Repr, Inhabited

structure Game where
  tags : List (List UInt8 × List UInt8)
  moves : List Move
  result : Result
  /-- number of `\n` after the result token -/
  trailing : Nat
deriving DecidableEq, Repr, Inhabited

/-- move-number styles: none / `3.` before white moves only / `3.` and `3...` before every move /
Lichess: `3.` before white moves and `3...` before a black move iff White's move carries a comment -/
inductive Numbering where
  | none | white | both | lichess
deriving DecidableEq, Repr, Inhabited

/-- set the `numbered` flags of half-moves `i, i+1, …` (`prevComment`: the move before has a comment) -/
def Numbering.applyFrom (nb : Numbering) : Nat → Bool → List (List UInt8 × Option (List UInt8)) → List Move
  | _, _, [] => []
  | i, prevComment, (san, c) :: rest =>
    let flag := match nb with
      | .none => false
      | .white => i % 2 == 0
      | .both => true
      | .lichess => i % 2 == 0 || prevComment
    ⟨san, c, flag⟩ :: Numbering.applyFrom nb (i + 1) c.isSome rest

def Numbering.apply (nb : Numbering) (ms : List (List UInt8 × Option (List UInt8))) : List Move :=
  nb.applyFrom 0 false ms

/-! ## Printer -/

def decimalAux : Nat → Nat → List UInt8 → List UInt8
  | 0, _, acc => acc
  | fuel + 1, n, acc =>
    let acc' := UInt8.ofNat (48 + n % 10) :: acc
    if n < 10 then acc' else decimalAux fuel (n / 10) acc'

/-- decimal digits of `n` -/
def decimal (n : Nat) : List UInt8 := decimalAux (n + 1) n []

example : decimal 0 = [48] ∧ decimal 7 = [55] ∧ decimal 10 = [49, 48] ∧ decimal 123 = [49, 50, 51] := by decide

/-- `[Name "Value"]\n` -/
def renderTag (t : List UInt8 × List UInt8) : List UInt8 :=
  [91] ++ t.1 ++ [32, 34] ++ t.2 ++ [34, 93, 10]

def renderTags (ts : List (List UInt8 × List UInt8)) : List UInt8 := (ts.map renderTag).flatten

/-- the move-number token (with its following space) in front of half-move `i` (0 = white's first move) -/
def numberPrefix (numbered : Bool) (i : Nat) : List UInt8 :=
  if numbered then
    if i % 2 = 0 then decimal (i / 2 + 1) ++ [46, 32] else decimal (i / 2 + 1) ++ [46, 46, 46, 32]
  else []

def renderComment : Option (List UInt8) → List UInt8
  | none => []
  | some c => [32, 123] ++ c ++ [125]

/-- half-move `i`, followed by one space -/
def renderMove (i : Nat) (m : Move) : List UInt8 :=
  numberPrefix m.numbered i ++ m.san ++ renderComment m.comment ++ [32]

def renderMoves : Nat → List Move → List UInt8
  | _, [] => []
  | i, m :: ms => renderMove i m ++ renderMoves (i + 1) ms

def renderGame (g : Game) : List UInt8 :=
  renderTags g.tags ++ [10] ++ renderMoves 0 g.moves ++ g.result.token ++ List.replicate g.trailing 10

/-- the whole database: the games one after the other (blank lines come from `trailing`) -/
def render (gs : List Game) : List UInt8 := (gs.map renderGame).flatten

/-! ## Well-formedness -/

/-- a SAN token: non-empty, no space / newline / `.`, not a result token, not starting with `{` or `;` -/
def WFSan (s : List UInt8) : Prop :=
  s ≠ [] ∧ 32 ∉ s ∧ 10 ∉ s ∧ 46 ∉ s ∧ s ∉ resultTokens ∧ s.head? ≠ some 123 ∧ s.head? ≠ some 59

instance (s : List UInt8) : Decidable (WFSan s) := by unfold WFSan; infer_instance

def WFMove (m : Move) : Prop := WFSan m.san ∧ 125 ∉ m.comment.getD []

instance (m : Move) : Decidable (WFMove m) := by unfold WFMove; infer_instance

/-- at least one tag; names without space and pairwise distinct; values without `"`; well-formed moves -/
def WFGame (g : Game) : Prop :=
  g.tags ≠ [] ∧ (∀ t ∈ g.tags, 32 ∉ t.1 ∧ 34 ∉ t.2) ∧ (g.tags.map (·.1)).Nodup ∧ ∀ m ∈ g.moves, WFMove m

instance (g : Game) : Decidable (WFGame g) := by unfold WFGame; infer_instance

/-- every game well-formed; every game but the last is followed by at least one line break -/
def WFGames : List Game → Prop
  | [] => True
  | [g] => WFGame g
  | g :: g' :: gs => WFGame g ∧ 1 ≤ g.trailing ∧ WFGames (g' :: gs)

instance : (gs : List Game) → Decidable (WFGames gs)
  | [] => isTrue trivial
  | [g] => inferInstanceAs (Decidable (WFGame g))
  | g :: g' :: gs =>
    have := instDecidableWFGames (g' :: gs)
    inferInstanceAs (Decidable (WFGame g ∧ 1 ≤ g.trailing ∧ WFGames (g' :: gs)))

/-- the strict Lichess export: a blank line (or two) after every game, the last one included -/
def LichessGames (gs : List Game) : Prop := WFGames gs ∧ ∀ g ∈ gs, 2 ≤ g.trailing

instance (gs : List Game) : Decidable (LichessGames gs) := by unfold LichessGames; infer_instance

end Inkayaku.PgnLayout
