/-!
# Standard algebraic notation as a PRINTER

The shapes a SAN text can have, and the function that writes a shape down.  Nothing here mentions a regular
expression, a board or a move generator: the SAN parser of the implementation is compared against this printer
(`Proofs/SanProofs.lean`: the regex translation reads back every printed shape, and accepts nothing else).

```
san    ::= body check? annot*
body   ::= piece? file? rank? 'x'? file rank ('=' promo)?  |  "O-O"  |  "O-O-O"
piece  ::= B N R Q K          promo ::= B N R Q
file   ::= a … h              rank  ::= 1 … 8
check  ::= '+' | '#'          annot ::= '!' | '?'
```

`SanShape.wf` allows every combination of the optional parts (this is the language the implementation's parser must
read); `SanShape.standard` is the sublanguage a standard SAN *writer* produces (a pawn move carries no piece letter
and no source rank, a pawn capture names its source file, only pawns promote, a piece move does not promote).
Core Lean only.
-/
namespace Inkayaku.Spec.SanGrammar

/-- the part of a SAN text before the check mark -/
inductive SanBody where
  /-- `piece? fromFile? fromRank? x? target (=promo)?` -/
  | move (piece : Option Char) (fromFile : Option Char) (fromRank : Option Char) (takes : Bool)
      (targetFile targetRank : Char) (promo : Option Char)
  /-- `O-O` (`long = false`) or `O-O-O` (`long = true`) -/
  | castle (long : Bool)
deriving DecidableEq, Repr, Inhabited

structure SanShape where
  body : SanBody
  /-- `+`, `#` or nothing -/
  suffix : Option Char := none
  /-- `[!?]*` -/
  annot : List Char := []
deriving DecidableEq, Repr, Inhabited

def optC : Option Char → List Char
  | some c => [c]
  | none => []

def renderBody : SanBody → List Char
  | .move piece ff fr takes tf tr promo =>
    optC piece ++ (optC ff ++ (optC fr ++ ((if takes then ['x'] else []) ++
      (tf :: tr :: (match promo with | some q => ['=', q] | none => [])))))
  | .castle false => ['O', '-', 'O']
  | .castle true => ['O', '-', 'O', '-', 'O']

/-- the text of a shape -/
def renderSan (sh : SanShape) : List Char := renderBody sh.body ++ (optC sh.suffix ++ sh.annot)

def isPieceLetter (c : Char) : Bool := c == 'B' || c == 'N' || c == 'R' || c == 'Q' || c == 'K'
def isPromoLetter (c : Char) : Bool := c == 'B' || c == 'N' || c == 'R' || c == 'Q'
def isFile (c : Char) : Bool := 'a' ≤ c && c ≤ 'h'
def isRank (c : Char) : Bool := '1' ≤ c && c ≤ '8'
def isCheckMark (c : Char) : Bool := c == '+' || c == '#'
def isAnnot (c : Char) : Bool := c == '!' || c == '?'

def optOk (ok : Char → Bool) : Option Char → Bool
  | some c => ok c
  | none => true

/-- every optional part, when present, is a character of its class -/
def SanBody.wf : SanBody → Bool
  | .move piece ff fr _ tf tr promo =>
    optOk isPieceLetter piece && optOk isFile ff && optOk isRank fr && isFile tf && isRank tr && optOk isPromoLetter promo
  | .castle _ => true

def SanShape.wf (sh : SanShape) : Bool := sh.body.wf && optOk isCheckMark sh.suffix && sh.annot.all isAnnot

/-- the shapes a standard writer produces: `e4`, `exd5`, `e8=Q`, `exd8=Q`, `Nf3`, `Nbd2`, `R1a3`, `Qh4e1`, `Nxe5`, castling -/
def SanBody.standard : SanBody → Bool
  | .move none ff fr takes _ _ _ => fr.isNone && (ff.isSome == takes)
  | .move (some _) _ _ _ _ _ promo => promo.isNone
  | .castle _ => true

def SanShape.standard (sh : SanShape) : Bool := sh.wf && sh.body.standard && sh.annot.isEmpty

/-- the alphabet of SAN texts -/
def isSanChar (c : Char) : Bool :=
  isPieceLetter c || isFile c || isRank c || c == 'x' || c == '=' || c == 'O' || c == '-' || isCheckMark c || isAnnot c

/-! ## Disambiguation

`cands` are the source squares (index = file + 8 * row) of ALL pieces of the mover's kind and colour that can legally
move to the target square, the mover's own square `src` included. -/

inductive Disamb where
  | none | file | rank | both
deriving DecidableEq, Repr, Inhabited

/-- the standard rule: nothing if no other piece can go there; else the file letter if it tells the mover apart;
else the rank digit if it does; else both -/
def standardDisamb (src : Nat) (cands : List Nat) : Disamb :=
  let others := cands.filter (· != src)
  if others.isEmpty then .none
  else if others.all (fun o => o % 8 != src % 8) then .file
  else if others.all (fun o => o / 8 != src / 8) then .rank
  else .both

/-- does square `o` agree with the hint written for `src` -/
def Disamb.agrees (d : Disamb) (src o : Nat) : Bool :=
  match d with
  | .none => true
  | .file => o % 8 == src % 8
  | .rank => o / 8 == src / 8
  | .both => o % 8 == src % 8 && o / 8 == src / 8

def Disamb.fileOf (d : Disamb) (fileCh : Char) : Option Char :=
  match d with | .file | .both => some fileCh | _ => Option.none
def Disamb.rankOf (d : Disamb) (rankCh : Char) : Option Char :=
  match d with | .rank | .both => some rankCh | _ => Option.none

end Inkayaku.Spec.SanGrammar
