import Inkayaku.Model.Uci

/-!
The GUI-to-engine half of the UCI grammar, written as a *printer*: which token lists spell which command
(`render`, `renderGoItems`, `PosSource.render`, …), how tokens may be spaced on a line (`pad`), and when a command value
is well formed (`Wf`).  Property C15 says that the parser model inverts this printer.  Core Lean only.

Free text (option names/values, register names/codes, FEN text) is a `List Char` whose *words* are its maximal
space-free pieces; the printer emits the words as separate tokens, the parser glues tokens with single spaces.
-/
namespace Inkayaku.UciGrammar
open Inkayaku.Uci
open Inkayaku.FenSyntax (splitOnChar startposString)

/-! ## numbers -/

def digitChar (d : Nat) : Char := Char.ofNat (48 + d)

/-- canonical decimal numeral of a natural number (no sign, no leading zeros) -/
def decimal (n : Nat) : List Char :=
  if n < 10 then [digitChar n] else decimal (n / 10) ++ [digitChar (n % 10)]
decreasing_by omega

/-- canonical decimal numeral of an integer (`-` for negatives) -/
def intText (v : Int) : List Char :=
  if v < 0 then '-' :: decimal v.natAbs else decimal v.toNat

/-! ## free text -/

/-- the words of a text: maximal pieces without U+0020 -/
def words (s : List Char) : List Tok := (splitOnChar ' ' s).filter (fun t => !t.isEmpty)

/-- words glued with single spaces -/
def joinSp : List Tok → List Char
  | [] => []
  | [t] => t
  | t :: t' :: ts => t ++ ' ' :: joinSp (t' :: ts)

/-- a text that survives the trip through the tokenizer: at least one word, single spaces between words, no
leading/trailing space; and the stop word of the field does not occur after the first word (the parser takes the
first word unconditionally, so it may even *be* the stop word). -/
structure TextOk (stop : Option Tok) (s : List Char) : Prop where
  nonempty : words s ≠ []
  normal : joinSp (words s) = s
  nostop : ∀ w, stop = some w → w ∉ (words s).tail

/-! ## moves -/

def MoveWf (m : UciMove) : Prop := m.source < 64 ∧ m.target < 64

instance (m : UciMove) : Decidable (MoveWf m) := by unfold MoveWf; infer_instance

/-! ## `go` parameters -/

/-- one parameter of `go` with the value it spells; durations are signed (the engine clamps negatives to 0) -/
inductive GoItem where
  | searchmoves (ms : List UciMove)
  | ponder
  | wtime (ms : Int)
  | btime (ms : Int)
  | winc (ms : Int)
  | binc (ms : Int)
  | movestogo (n : Nat)
  | depth (n : Nat)
  | nodes (n : Nat)
  | mate (n : Nat)
  | movetime (ms : Int)
  | infinite
deriving DecidableEq, Repr

def GoItem.key : GoItem → GoKey
  | .searchmoves _ => .searchmoves | .ponder => .ponder | .wtime _ => .wtime | .btime _ => .btime
  | .winc _ => .winc | .binc _ => .binc | .movestogo _ => .movestogo | .depth _ => .depth
  | .nodes _ => .nodes | .mate _ => .mate | .movetime _ => .movetime | .infinite => .infinite

/-- the tokens after the keyword -/
def GoItem.args : GoItem → List Tok
  | .searchmoves ms => ms.map UciMove.render
  | .ponder => [] | .infinite => []
  | .wtime v => [intText v] | .btime v => [intText v] | .winc v => [intText v] | .binc v => [intText v]
  | .movetime v => [intText v]
  | .movestogo n => [decimal n] | .depth n => [decimal n] | .nodes n => [decimal n] | .mate n => [decimal n]

/-- what follows a `go` keyword -/
inductive ArgKind where
  | moves | flag | duration | count
deriving DecidableEq, Repr

def argKind : GoKey → ArgKind
  | .searchmoves => .moves
  | .ponder => .flag | .infinite => .flag
  | .wtime => .duration | .btime => .duration | .winc => .duration | .binc => .duration | .movetime => .duration
  | .movestogo => .count | .depth => .count | .nodes => .count | .mate => .count

/-- `v` is not an acceptable value for keyword `k`: not an `i64` numeral for a duration, not a `u64` numeral for a count -/
def BadNumber (k : GoKey) (v : Tok) : Prop :=
  (argKind k = .duration ∧ parseI64 v = none) ∨ (argKind k = .count ∧ parseU64 v = none)

def GoItem.render (it : GoItem) : List Tok := it.key.word :: it.args

def renderGoItems (items : List GoItem) : List Tok := items.flatMap GoItem.render

def I64Range (v : Int) : Prop := -9223372036854775808 ≤ v ∧ v < 9223372036854775808
def U64Range (n : Nat) : Prop := n < 18446744073709551616

/-- value ranges: durations fit `i64`, counts fit `u64`, moves are moves -/
def GoItem.Wf : GoItem → Prop
  | .searchmoves ms => ∀ m ∈ ms, MoveWf m
  | .ponder => True | .infinite => True
  | .wtime v => I64Range v | .btime v => I64Range v | .winc v => I64Range v | .binc v => I64Range v
  | .movetime v => I64Range v
  | .movestogo n => U64Range n | .depth n => U64Range n | .nodes n => U64Range n | .mate n => U64Range n

instance (v : Int) : Decidable (I64Range v) := by unfold I64Range; infer_instance
instance (n : Nat) : Decidable (U64Range n) := by unfold U64Range; infer_instance
instance (it : GoItem) : Decidable it.Wf := by
  cases it <;> unfold GoItem.Wf <;> infer_instance

/-- a parameter list: any order, every keyword at most once, values in range -/
structure GoItemsOk (items : List GoItem) : Prop where
  distinct : (items.map GoItem.key).Nodup
  wf : ∀ it ∈ items, it.Wf

def GoItem.sm? : GoItem → Option (List UciMove) | .searchmoves ms => some ms | _ => none
def GoItem.ponder? : GoItem → Option Unit | .ponder => some () | _ => none
def GoItem.wtime? : GoItem → Option Int | .wtime v => some v | _ => none
def GoItem.btime? : GoItem → Option Int | .btime v => some v | _ => none
def GoItem.winc? : GoItem → Option Int | .winc v => some v | _ => none
def GoItem.binc? : GoItem → Option Int | .binc v => some v | _ => none
def GoItem.movestogo? : GoItem → Option Nat | .movestogo v => some v | _ => none
def GoItem.depth? : GoItem → Option Nat | .depth v => some v | _ => none
def GoItem.nodes? : GoItem → Option Nat | .nodes v => some v | _ => none
def GoItem.mate? : GoItem → Option Nat | .mate v => some v | _ => none
def GoItem.movetime? : GoItem → Option Int | .movetime v => some v | _ => none
def GoItem.infinite? : GoItem → Option Unit | .infinite => some () | _ => none

/-- a signed millisecond count as the engine stores it: `max(d, 0)` -/
def clampMillis (v : Int) : Nat := v.toNat

/-- the `Go` value a parameter list spells: every field is looked up by keyword (so the order of the list is
irrelevant when the keywords are distinct); absent keywords leave the field of `base` -/
def goFrom (base : Go) (items : List GoItem) : Go :=
  { searchMoves := (items.findSome? GoItem.sm?).getD base.searchMoves
    ponder := (items.findSome? GoItem.ponder?).isSome || base.ponder
    wtime := ((items.findSome? GoItem.wtime?).map clampMillis).or base.wtime
    btime := ((items.findSome? GoItem.btime?).map clampMillis).or base.btime
    winc := ((items.findSome? GoItem.winc?).map clampMillis).or base.winc
    binc := ((items.findSome? GoItem.binc?).map clampMillis).or base.binc
    movesToGo := (items.findSome? GoItem.movestogo?).or base.movesToGo
    depth := (items.findSome? GoItem.depth?).or base.depth
    nodes := (items.findSome? GoItem.nodes?).or base.nodes
    mate := (items.findSome? GoItem.mate?).or base.mate
    moveTime := ((items.findSome? GoItem.movetime?).map clampMillis).or base.moveTime
    infinite := (items.findSome? GoItem.infinite?).isSome || base.infinite }

def goOfItems (items : List GoItem) : Go := goFrom Go.empty items

/-- an optional parameter: present iff the field is `some` -/
def optItem (mk : Nat → GoItem) : Option Nat → List GoItem
  | some n => [mk n]
  | none => []

/-- canonical parameter list of a `Go` value (the order of `GO_TOKENS`) -/
def goItemsOf (g : Go) : List GoItem :=
  (if g.searchMoves = [] then [] else [.searchmoves g.searchMoves]) ++
  (if g.ponder = true then [.ponder] else []) ++
  optItem (fun n => .wtime n) g.wtime ++
  optItem (fun n => .btime n) g.btime ++
  optItem (fun n => .winc n) g.winc ++
  optItem (fun n => .binc n) g.binc ++
  optItem .movestogo g.movesToGo ++
  optItem .depth g.depth ++
  optItem .nodes g.nodes ++
  optItem .mate g.mate ++
  optItem (fun n => .movetime n) g.moveTime ++
  (if g.infinite = true then [.infinite] else [])

/-! ## `position` -/

inductive PosSource where
  | startpos
  | fen (text : List Char)
deriving DecidableEq, Repr

def PosSource.render : PosSource → List Tok
  | .startpos => ["startpos".toList]
  | .fen text => "fen".toList :: words text

/-- the `.fen` string of the resulting `Fen`.  (`position fen startpos` is accepted by `Fen::from_str` and yields the
start position as well.) -/
def PosSource.fenString : PosSource → List Char
  | .startpos => startposString.toList
  | .fen text => if text = "startpos".toList then startposString.toList else text

/-- FEN text is well formed iff `Fen::from_str` (model: `FenSyntax.parse`) accepts it -/
def PosSource.Wf : PosSource → Prop
  | .startpos => True
  | .fen text => ∃ f, Inkayaku.FenSyntax.parse (String.ofList text) = .ok f

/-- the move list; the keyword `moves` may be omitted when (and only when) the list is empty -/
def renderMoves (keyword : Bool) (ms : List UciMove) : List Tok :=
  if ms = [] ∧ keyword = false then [] else "moves".toList :: ms.map UciMove.render

/-! ## whole commands -/

/-- canonical token list of a command -/
def render : UciCommand → List Tok
  | .uci => ["uci".toList]
  | .isReady => ["isready".toList]
  | .uciNewGame => ["ucinewgame".toList]
  | .stop => ["stop".toList]
  | .ponderHit => ["ponderhit".toList]
  | .quit => ["quit".toList]
  | .setDebug b => ["debug".toList, if b then "on".toList else "off".toList]
  | .setOption name => "setoption".toList :: "name".toList :: words name
  | .setOptionValue name value => "setoption".toList :: "name".toList :: words name ++ "value".toList :: words value
  | .registerLater => ["register".toList, "later".toList]
  | .register name code => "register".toList :: "name".toList :: words name ++ "code".toList :: words code
  | .positionFrom fen ms =>
    "position".toList ::
      (if fen = startposString.toList then PosSource.startpos else PosSource.fen fen).render ++ renderMoves false ms
  | .go g => "go".toList :: renderGoItems (goItemsOf g)

/-- well-formed command values -/
def Wf : UciCommand → Prop
  | .setOption name => TextOk (some "value".toList) name
  | .setOptionValue name value => TextOk (some "value".toList) name ∧ TextOk none value
  | .register name code => TextOk (some "code".toList) name ∧ TextOk none code
  | .positionFrom fen ms =>
    (∃ f, Inkayaku.FenSyntax.parse (String.ofList fen) = .ok f) ∧ fen ≠ "startpos".toList ∧ ∀ m ∈ ms, MoveWf m
  | .go g =>
    (∀ m ∈ g.searchMoves, MoveWf m) ∧
    (∀ n, n ∈ [g.wtime, g.btime, g.winc, g.binc, g.moveTime].filterMap id → n < 9223372036854775808) ∧
    (∀ n, n ∈ [g.movesToGo, g.depth, g.nodes, g.mate].filterMap id → n < 18446744073709551616)
  | _ => True

/-- the text does not end in a character that `str::trim` removes -/
def LastNotTrimmed (s : List Char) : Prop := ∀ c, s.getLast? = some c → isWhiteSpace c = false

/-- the free text at the very end of a line (if any) must not end in a trimmed character (e.g. a tab or a no-break
space), otherwise `trim` shortens it -/
def EndsClean : UciCommand → Prop
  | .setOption name => LastNotTrimmed name
  | .setOptionValue _ value => LastNotTrimmed value
  | .register _ code => LastNotTrimmed code
  | _ => True

/-! ## spacing -/

def spaces (n : Nat) : List Char := List.replicate n ' '

/-- tokens separated by `gaps[i] + 1` spaces (missing gap entries count as 0) -/
def padBody : List Tok → List Nat → List Char
  | [], _ => []
  | [t], _ => t
  | t :: t' :: ts, gaps => t ++ (spaces (gaps.headD 0 + 1) ++ padBody (t' :: ts) gaps.tail)

/-- a line: leading junk, spaced tokens, trailing junk -/
def pad (lead trail : List Char) (gaps : List Nat) (toks : List Tok) : List Char :=
  lead ++ (padBody toks gaps ++ trail)

/-- side conditions under which `pad` is inverted by the tokenizer: `lead`/`trail` consist of characters that
`str::trim` removes; tokens are non-empty and contain no U+0020; the first token does not start and the last token does
not end with a trimmed character (otherwise `trim` would eat into the token). -/
structure PadOk (lead trail : List Char) (toks : List Tok) : Prop where
  lead_ws : ∀ c ∈ lead, isWhiteSpace c = true
  trail_ws : ∀ c ∈ trail, isWhiteSpace c = true
  tok_ne : ∀ t ∈ toks, t ≠ []
  tok_nosp : ∀ t ∈ toks, ' ' ∉ t
  first : ∀ t c, toks.head? = some t → t.head? = some c → isWhiteSpace c = false
  last : ∀ t c, toks.getLast? = some t → t.getLast? = some c → isWhiteSpace c = false

end Inkayaku.UciGrammar
