/-
GENERATED FILE — do not edit.  Regenerated from the CURRENT Rust sources by /verif/translator:
    rs2lean <repo root> <out dir>
Module `Magic`.  Semantics of the translation: see the header of `Prelude.lean`.
Rust sources: board/src/board/precalculated/magic.rs
-/
import Inkayaku.Gen.Rs.Prelude

set_option linter.unusedVariables false

namespace Inkayaku.Rs

/-- `struct MagicConfiguration` (board/src/board/precalculated/magic.rs) -/
structure MagicConfiguration where
  /-- `u64` -/
  mask : UInt64
  /-- `u64` -/
  magic : UInt64
  /-- `u64` -/
  hash_mask : UInt64
  /-- `u32` -/
  hash_shift : Int
  /-- `Vec<u64>` -/
  attacks : List UInt64
deriving DecidableEq, Repr

/-- `const fn magic_hash(mask: u64, hash_shift: u32, hash_mask: u64, magic: u64, occupancy: u64) -> usize` in `module level` (board/src/board/precalculated/magic.rs:181).
* `mask` = parameter `mask: u64`
* `hash_shift` = parameter `hash_shift: u32`
* `hash_mask` = parameter `hash_mask: u64`
* `magic` = parameter `magic: u64`
* `occupancy` = parameter `occupancy: u64`
`none` = panic (or out of fuel). -/
def magic_hash (mask : UInt64) (hash_shift : Int) (hash_mask : UInt64) (magic : UInt64) (occupancy : UInt64) : Option Int := do
  let i1 : UInt64 := occupancy &&& mask
  let i2 : UInt64 := (u64OverflowingMul i1 magic).1
  let i3 : UInt64 ← u64Shr i2 hash_shift
  let i4 : UInt64 := i3 &&& hash_mask
  pure (cast .usize (u64ToInt i4))

/-- `const fn hash(&self, occupancy: u64) -> usize` in `impl MagicConfiguration` (board/src/board/precalculated/magic.rs:39).
* `mask` = field `self.mask: u64`
* `magic` = field `self.magic: u64`
* `hash_mask` = field `self.hash_mask: u64`
* `hash_shift` = field `self.hash_shift: u32`
* `occupancy` = parameter `occupancy: u64`
`none` = panic (or out of fuel). -/
def MagicConfiguration.hash (mask : UInt64) (magic : UInt64) (hash_mask : UInt64) (hash_shift : Int) (occupancy : UInt64) : Option Int := do
  magic_hash mask hash_shift hash_mask magic occupancy

/-- `unsafe fn get_attacks(&self, occupancy: u64) -> u64` in `impl MagicConfiguration` (board/src/board/precalculated/magic.rs:34).
* `mask` = field `self.mask: u64`
* `magic` = field `self.magic: u64`
* `hash_mask` = field `self.hash_mask: u64`
* `hash_shift` = field `self.hash_shift: u32`
* `attacks` = field `self.attacks: Vec<u64>`
* `occupancy` = parameter `occupancy: u64`
`none` = panic (or out of fuel). -/
def MagicConfiguration.get_attacks (mask : UInt64) (magic : UInt64) (hash_mask : UInt64) (hash_shift : Int) (attacks : List UInt64) (occupancy : UInt64) : Option UInt64 := do
  vecIdx attacks (← MagicConfiguration.hash mask magic hash_mask hash_shift occupancy)

/-- `fn get_attacks(&self, square: SquareShiftBits, occupancy: u64) -> u64` in `impl UnsafeMagicsExt for Magics` (board/src/board/precalculated/magic.rs:13).
* `self` = parameter `self: Vec<MagicConfiguration>`
* `square` = parameter `square: u32`
* `occupancy` = parameter `occupancy: u64`
`none` = panic (or out of fuel). -/
def Magics.get_attacks (self : List Inkayaku.Rs.MagicConfiguration) (square : Int) (occupancy : UInt64) : Option UInt64 := do
  MagicConfiguration.get_attacks (← vecIdx self (cast .usize square)).mask (← vecIdx self (cast .usize square)).magic (← vecIdx self (cast .usize square)).hash_mask (← vecIdx self (cast .usize square)).hash_shift (← vecIdx self (cast .usize square)).attacks occupancy

end Inkayaku.Rs
