/-
GENERATED FILE — do not edit.  Regenerated from the CURRENT Rust sources by /verif/translator:
    rs2lean <repo root> <out dir>
Module `ZobristXor`.  Semantics of the translation: see the header of `Prelude.lean`.
Rust sources: board/src/board.rs
-/
import Inkayaku.Gen.Rs.Prelude
import Inkayaku.Gen.Rs.Board
import Inkayaku.Gen.Rs.Check
import Inkayaku.Gen.Rs.MoveBits

set_option linter.unusedVariables false

namespace Inkayaku.Rs

/-- `fn zobrist_xor(mv: Move) ->(ZobristHash, ZobristHash)` in `impl Bitboard` (board/src/board.rs:902).
* `mv_bits` = field `mv.bits: u64`
* `Zobrist_BLACK_TO_MOVE_HASH` = OPAQUE associated function `Self::Zobrist_BLACK_TO_MOVE_HASH`
* `Zobrist_castle_hash` = OPAQUE associated function `Self::Zobrist_castle_hash`
* `Zobrist_en_passant_square_hash` = OPAQUE associated function `Self::Zobrist_en_passant_square_hash`
* `Zobrist_piece_square_hash` = OPAQUE associated function `Self::Zobrist_piece_square_hash`
`none` = panic (or out of fuel). -/
def Bitboard.zobrist_xor (mv_bits : UInt64) (Zobrist_BLACK_TO_MOVE_HASH : UInt64) (Zobrist_castle_hash : UInt64 → Int → UInt64) (Zobrist_en_passant_square_hash : Int → UInt64) (Zobrist_piece_square_hash : UInt64 → Int → Int → UInt64) : Option (UInt64 × UInt64) := do
  let result : UInt64 := (0 : UInt64)
  let pawn_result : UInt64 := (0 : UInt64)
  let self_color : Int ← Move.get_side_to_move mv_bits
  let opponent_color : Int ← opposite_color self_color
  let pawn_result : UInt64 := pawn_result ^^^ Zobrist_BLACK_TO_MOVE_HASH
  let result ← (
    if (← Move.is_self_lost_king_side_castle mv_bits) then do
      let result : UInt64 := result ^^^ (Zobrist_castle_hash KING self_color)
      pure result
    else do
      pure result)
  let result ← (
    if (← Move.is_self_lost_queen_side_castle mv_bits) then do
      let result : UInt64 := result ^^^ (Zobrist_castle_hash QUEEN self_color)
      pure result
    else do
      pure result)
  let result ← (
    if (← Move.is_opponent_lost_king_side_castle mv_bits) then do
      let result : UInt64 := result ^^^ (Zobrist_castle_hash KING opponent_color)
      pure result
    else do
      pure result)
  let result ← (
    if (← Move.is_opponent_lost_queen_side_castle mv_bits) then do
      let result : UInt64 := result ^^^ (Zobrist_castle_hash QUEEN opponent_color)
      pure result
    else do
      pure result)
  let pawn_result ← (
    if (← Move.get_previous_en_passant_square mv_bits) ≠ NO_SQUARE then do
      let pawn_result : UInt64 := pawn_result ^^^ (Zobrist_en_passant_square_hash (← Move.get_previous_en_passant_square mv_bits))
      pure pawn_result
    else do
      pure pawn_result)
  let pawn_result ← (
    if (← Move.get_next_en_passant_square mv_bits) ≠ NO_SQUARE then do
      let pawn_result : UInt64 := pawn_result ^^^ (Zobrist_en_passant_square_hash (← Move.get_next_en_passant_square mv_bits))
      pure pawn_result
    else do
      pure pawn_result)
  let is_white_turn : Bool := decide (self_color = WHITE)
  let piece_moved : UInt64 ← Move.get_piece_moved mv_bits
  let piece_promoted : UInt64 ← Move.get_promotion_piece mv_bits
  let piece_attacked : UInt64 ← Move.get_piece_attacked mv_bits
  let source_square_shift : Int ← Move.get_source_square mv_bits
  let target_square_shift : Int ← Move.get_target_square mv_bits
  let (result, pawn_result) ← (
    if (← Move.is_castle_move mv_bits) then do
      let (rook_source_shift, king_source_shift, rook_target_shift, king_target_shift) ← (
        if target_square_shift = C1 then do
          pure (A1, E1, D1, C1)
        else do
          if target_square_shift = G1 then do
            pure (H1, E1, F1, G1)
          else do
            if target_square_shift = C8 then do
              pure (A8, E8, D8, C8)
            else do
              if target_square_shift = G8 then do
                pure (H8, E8, F8, G8)
              else do
                none)
      let result : UInt64 := result ^^^ (Zobrist_piece_square_hash ROOK rook_source_shift self_color)
      let result : UInt64 := result ^^^ (Zobrist_piece_square_hash ROOK rook_target_shift self_color)
      let result : UInt64 := result ^^^ (Zobrist_piece_square_hash KING king_source_shift self_color)
      let result : UInt64 := result ^^^ (Zobrist_piece_square_hash KING king_target_shift self_color)
      pure (result, pawn_result)
    else do
      if (← Move.is_en_passant_attack mv_bits) then do
        let pawn_result : UInt64 := pawn_result ^^^ (Zobrist_piece_square_hash PAWN source_square_shift self_color)
        let pawn_result : UInt64 := pawn_result ^^^ (Zobrist_piece_square_hash PAWN target_square_shift self_color)
        let pawn_target_shift : Int ← (
          if is_white_turn then do
            chk .u32 (target_square_shift + 8)
          else do
            chk .u32 (target_square_shift - 8))
        let pawn_result : UInt64 := pawn_result ^^^ (Zobrist_piece_square_hash PAWN pawn_target_shift opponent_color)
        pure (result, pawn_result)
      else do
        let (result, pawn_result) ← (
          if (← Move.is_promotion mv_bits) then do
            let pawn_result : UInt64 := pawn_result ^^^ (Zobrist_piece_square_hash PAWN source_square_shift self_color)
            let result : UInt64 := result ^^^ (Zobrist_piece_square_hash piece_promoted target_square_shift self_color)
            pure (result, pawn_result)
          else do
            if piece_moved = PAWN then do
              let pawn_result : UInt64 := pawn_result ^^^ (Zobrist_piece_square_hash PAWN source_square_shift self_color)
              let pawn_result : UInt64 := pawn_result ^^^ (Zobrist_piece_square_hash PAWN target_square_shift self_color)
              pure (result, pawn_result)
            else do
              let result : UInt64 := result ^^^ (Zobrist_piece_square_hash piece_moved source_square_shift self_color)
              let result : UInt64 := result ^^^ (Zobrist_piece_square_hash piece_moved target_square_shift self_color)
              pure (result, pawn_result))
        let (result, pawn_result) ← (
          if piece_attacked = PAWN then do
            let pawn_result : UInt64 := pawn_result ^^^ (Zobrist_piece_square_hash PAWN target_square_shift opponent_color)
            pure (result, pawn_result)
          else do
            let result : UInt64 := result ^^^ (Zobrist_piece_square_hash piece_attacked target_square_shift opponent_color)
            pure (result, pawn_result))
        pure (result, pawn_result))
  pure (result ^^^ pawn_result, pawn_result)

end Inkayaku.Rs
