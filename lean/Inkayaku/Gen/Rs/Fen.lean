/-
GENERATED FILE — do not edit.  Regenerated from the CURRENT Rust sources by /verif/translator:
    rs2lean <repo root> <out dir>
Module `Fen`.  Semantics of the translation: see the header of `Prelude.lean`.
Rust sources: core/src/fen.rs
-/
import Inkayaku.Gen.Rs.Prelude

set_option linter.unusedVariables false

namespace Inkayaku.Rs

/-- `enum FenParseError` (core/src/fen.rs:21) -/
inductive FenParseError where
  | ConcurrentNumbers (rank : List Char)
  | IllegalNumberOfGroups (_0 : Int)
  | InvalidCapture (_0 : List Char)
  | RankWithInvalidPieceCount (rank : List Char) (count : Int)
deriving DecidableEq, Repr

/-- `for` loop of `validate_rank` (core/src/fen.rs:100).  Reads: rank : str, chars : Vec<char>, range_end_1 : usize.  State: i : usize.  `none` = panic or out of fuel; `Ctl.ret r` = the function returned `r` from inside the loop, `Ctl.next s` = the loop ended. -/
def Fen.validate_rank.for_1 (rank : List Char) (chars : List Char) (range_end_1 : Int) : Nat → Int → Option (Ctl (Except Inkayaku.Rs.FenParseError Unit) (Int))
  | 0, _ => none
  | fuel + 1, i =>
    if i < range_end_1 then do
      if (← (if isAsciiDigit (← vecIdx chars i) then (do pure (isAsciiDigit (← vecIdx chars (← chk .usize (i + 1))))) else pure false)) then do
        pure (Ctl.ret (Except.error (FenParseError.ConcurrentNumbers rank)))
      else do
        let i := i + 1
        Fen.validate_rank.for_1 rank chars range_end_1 fuel i
    else pure (Ctl.next i)

/-- `fn validate_rank(rank: &str) -> Result<(), FenParseError>` in `impl Fen` (core/src/fen.rs:91).
* `rank` = parameter `rank: str`
* `fuel` = loop fuel (one unit per loop iteration)
`none` = panic (or out of fuel). -/
def Fen.validate_rank (rank : List Char) (fuel : Nat) : Option (Except Inkayaku.Rs.FenParseError Unit) := do
  let count : Int ← iterSum .u32 (rank.map (fun c => (toDigit10 c).getD 1))
  if count ≠ 8 then do
    pure (Except.error (FenParseError.RankWithInvalidPieceCount rank count))
  else do
    let chars : List Char := rank
    let range_end_1 : Int ← chk .usize ((strLen rank) - 1)
    let i : Int := 0
    match (← Fen.validate_rank.for_1 rank chars range_end_1 fuel i) with
    | Ctl.ret r => pure r
    | Ctl.next i => do
      pure (Except.ok ())

end Inkayaku.Rs
