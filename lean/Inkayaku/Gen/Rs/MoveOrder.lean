/-
GENERATED FILE — do not edit.  Regenerated from the CURRENT Rust sources by /verif/translator:
    rs2lean <repo root> <out dir>
Module `MoveOrder`.  Semantics of the translation: see the header of `Prelude.lean`.
Rust sources: engine_core/src/engine/move_order.rs
-/
import Inkayaku.Gen.Rs.Prelude
import Inkayaku.Gen.Rs.Board

set_option linter.unusedVariables false

namespace Inkayaku.Rs

/-- `const fn eval(mv: &Move) -> i32` in `impl MvvLvaMoveOrder` (engine_core/src/engine/move_order.rs:14).
* `mv` = parameter `mv: Move`
`none` = panic (or out of fuel). -/
def MvvLvaMoveOrder.eval (mv : Inkayaku.Rs.Move) : Option Int := do
  pure mv.mvvlva

/-- `fn move_bonus(mv: &Move, high_value_move: Option<Move>, bonus: i32) -> i32` in `impl MvvLvaMoveOrder` (engine_core/src/engine/move_order.rs:19).
* `mv` = parameter `mv: Move`
* `high_value_move` = parameter `high_value_move: Option<Move>`
* `bonus` = parameter `bonus: i32`
`none` = panic (or out of fuel). -/
def MvvLvaMoveOrder.move_bonus (mv : Inkayaku.Rs.Move) (high_value_move : Option Inkayaku.Rs.Move) (bonus : Int) : Option Int := do
  pure (match (high_value_move.filter (fun pv_move => decide (pv_move.bits = mv.bits))) with | some _ => bonus | none => 0)

/-- The closure passed to `sort_by_key` (its body is `Reverse(e)`; this is `e`) inside `fn sort(&self, moves: &mut Vec<Move>, pv_move: Option<Move>, transposition_move: Option<Move>, killer_move: Option<Move>)` in `impl MoveOrder for MvvLvaMoveOrder` (engine_core/src/engine/move_order.rs:25).
* `mv` = parameter `mv: Move`
* `pv_move` = parameter `pv_move: Option<Move>`
* `transposition_move` = parameter `transposition_move: Option<Move>`
* `killer_move` = parameter `killer_move: Option<Move>`
`none` = panic (or out of fuel). -/
def MvvLvaMoveOrder.sort_key (mv : Inkayaku.Rs.Move) (pv_move : Option Inkayaku.Rs.Move) (transposition_move : Option Inkayaku.Rs.Move) (killer_move : Option Inkayaku.Rs.Move) : Option Int := do
  chk .i32 ((← chk .i32 ((← chk .i32 ((← MvvLvaMoveOrder.eval mv) + (← MvvLvaMoveOrder.move_bonus mv pv_move 900000))) + (← MvvLvaMoveOrder.move_bonus mv transposition_move 800000))) + (← MvvLvaMoveOrder.move_bonus mv killer_move 700000))

end Inkayaku.Rs
