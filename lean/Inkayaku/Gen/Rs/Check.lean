/-
GENERATED FILE — do not edit.  Regenerated from the CURRENT Rust sources by /verif/translator:
    rs2lean <repo root> <out dir>
Module `Check`.  Semantics of the translation: see the header of `Prelude.lean`.
Rust sources: board/src/board.rs, board/src/lib.rs
-/
import Inkayaku.Gen.Rs.Prelude
import Inkayaku.Gen.Rs.Board
import Inkayaku.Gen.Rs.MoveBits

set_option linter.unusedVariables false

namespace Inkayaku.Rs

/-- `struct PlayerState` (board/src/board.rs) -/
structure PlayerState where
  /-- `Vec<u64>` -/
  occupancy : List UInt64
  /-- `bool` -/
  queen_side_castle : Bool
  /-- `bool` -/
  king_side_castle : Bool
deriving DecidableEq, Repr

/-- `const fn kings(&self) -> OccupancyBits` in `impl PlayerState` (board/src/board.rs:211).
* `occupancy` = field `self.occupancy: Vec<u64>`
`none` = panic (or out of fuel). -/
def PlayerState.kings (occupancy : List UInt64) : Option UInt64 := do
  vecIdx occupancy (cast .usize (u64ToInt KING))

/-- `const fn queens(&self) -> OccupancyBits` in `impl PlayerState` (board/src/board.rs:213).
* `occupancy` = field `self.occupancy: Vec<u64>`
`none` = panic (or out of fuel). -/
def PlayerState.queens (occupancy : List UInt64) : Option UInt64 := do
  vecIdx occupancy (cast .usize (u64ToInt QUEEN))

/-- `const fn rooks(&self) -> OccupancyBits` in `impl PlayerState` (board/src/board.rs:215).
* `occupancy` = field `self.occupancy: Vec<u64>`
`none` = panic (or out of fuel). -/
def PlayerState.rooks (occupancy : List UInt64) : Option UInt64 := do
  vecIdx occupancy (cast .usize (u64ToInt ROOK))

/-- `const fn bishops(&self) -> OccupancyBits` in `impl PlayerState` (board/src/board.rs:217).
* `occupancy` = field `self.occupancy: Vec<u64>`
`none` = panic (or out of fuel). -/
def PlayerState.bishops (occupancy : List UInt64) : Option UInt64 := do
  vecIdx occupancy (cast .usize (u64ToInt BISHOP))

/-- `const fn knights(&self) -> OccupancyBits` in `impl PlayerState` (board/src/board.rs:219).
* `occupancy` = field `self.occupancy: Vec<u64>`
`none` = panic (or out of fuel). -/
def PlayerState.knights (occupancy : List UInt64) : Option UInt64 := do
  vecIdx occupancy (cast .usize (u64ToInt KNIGHT))

/-- `const fn pawns(&self) -> OccupancyBits` in `impl PlayerState` (board/src/board.rs:221).
* `occupancy` = field `self.occupancy: Vec<u64>`
`none` = panic (or out of fuel). -/
def PlayerState.pawns (occupancy : List UInt64) : Option UInt64 := do
  vecIdx occupancy (cast .usize (u64ToInt PAWN))

/-- `const fn occupancy(&self, piece: PieceBits) -> OccupancyBits` in `impl PlayerState` (board/src/board.rs:209).
* `occupancy` = field `self.occupancy: Vec<u64>`
* `piece` = parameter `piece: u64`
`none` = panic (or out of fuel). -/
def PlayerState.occupancy_fn (occupancy : List UInt64) (piece : UInt64) : Option UInt64 := do
  vecIdx occupancy (cast .usize (u64ToInt piece))

/-- `const fn full_occupancy(&self) -> OccupancyBits` in `impl PlayerState` (board/src/board.rs:189).
* `occupancy` = field `self.occupancy: Vec<u64>`
`none` = panic (or out of fuel). -/
def PlayerState.full_occupancy (occupancy : List UInt64) : Option UInt64 := do
  pure ((((((← PlayerState.kings occupancy) ||| (← PlayerState.queens occupancy)) ||| (← PlayerState.rooks occupancy)) ||| (← PlayerState.bishops occupancy)) ||| (← PlayerState.knights occupancy)) ||| (← PlayerState.pawns occupancy))

/-- `const fn opposite_color(color_bits: ColorBits) -> ColorBits` in `module level` (board/src/lib.rs:46).
* `color_bits` = parameter `color_bits: u32`
`none` = panic (or out of fuel). -/
def opposite_color (color_bits : Int) : Option Int := do
  chk .u32 (1 - color_bits)

/-- `const fn is_white_turn(&self) -> bool` in `impl Bitboard` (board/src/board.rs:1065).
* `turn` = field `self.turn: u32`
`none` = panic (or out of fuel). -/
def Bitboard.is_white_turn (turn : Int) : Option Bool := do
  pure (decide (turn = WHITE))

/-- `const fn opposite_turn(&self) -> ColorBits` in `impl Bitboard` (board/src/board.rs:1100).
* `turn` = field `self.turn: u32`
`none` = panic (or out of fuel). -/
def Bitboard.opposite_turn (turn : Int) : Option Int := do
  opposite_color turn

/-- `fn _is_square_in_check(color_bits: ColorBits, passive: &PlayerState, king_square_shift: u32, full_occupancy: OccupancyBits) -> bool` in `impl Bitboard` (board/src/board.rs:864).
* `color_bits` = parameter `color_bits: u32`
* `passive` = parameter `passive: PlayerState`
* `king_square_shift` = parameter `king_square_shift: u32`
* `full_occupancy` = parameter `full_occupancy: u64`
* `ROOK_MAGICS_get_attacks` = OPAQUE associated function `Self::ROOK_MAGICS_get_attacks`
* `BISHOP_MAGICS_get_attacks` = OPAQUE associated function `Self::BISHOP_MAGICS_get_attacks`
* `KNIGHT_NONMAGICS_get_attacks` = OPAQUE associated function `Self::KNIGHT_NONMAGICS_get_attacks`
* `WHITE_PAWN_NONMAGICS_get_attacks` = OPAQUE associated function `Self::WHITE_PAWN_NONMAGICS_get_attacks`
* `BLACK_PAWN_NONMAGICS_get_attacks` = OPAQUE associated function `Self::BLACK_PAWN_NONMAGICS_get_attacks`
* `KING_NONMAGICS_get_attacks` = OPAQUE associated function `Self::KING_NONMAGICS_get_attacks`
`none` = panic (or out of fuel). -/
def Bitboard._is_square_in_check (color_bits : Int) (passive : Inkayaku.Rs.PlayerState) (king_square_shift : Int) (full_occupancy : UInt64) (ROOK_MAGICS_get_attacks : Int → UInt64 → UInt64) (BISHOP_MAGICS_get_attacks : Int → UInt64 → UInt64) (KNIGHT_NONMAGICS_get_attacks : Int → UInt64) (WHITE_PAWN_NONMAGICS_get_attacks : Int → UInt64) (BLACK_PAWN_NONMAGICS_get_attacks : Int → UInt64) (KING_NONMAGICS_get_attacks : Int → UInt64) : Option Bool := do
  let rook_attacks : UInt64 := ROOK_MAGICS_get_attacks king_square_shift full_occupancy
  if (rook_attacks &&& ((← PlayerState.rooks passive.occupancy) ||| (← PlayerState.queens passive.occupancy))) ≠ (0 : UInt64) then do
    pure true
  else do
    let bishop_attacks : UInt64 := BISHOP_MAGICS_get_attacks king_square_shift full_occupancy
    if (bishop_attacks &&& ((← PlayerState.bishops passive.occupancy) ||| (← PlayerState.queens passive.occupancy))) ≠ (0 : UInt64) then do
      pure true
    else do
      let knight_attacks := (KNIGHT_NONMAGICS_get_attacks king_square_shift)
      if (knight_attacks &&& (← PlayerState.knights passive.occupancy)) ≠ (0 : UInt64) then do
        pure true
      else do
        let pawn_attacks := if color_bits = WHITE then (WHITE_PAWN_NONMAGICS_get_attacks king_square_shift) else (BLACK_PAWN_NONMAGICS_get_attacks king_square_shift)
        if (pawn_attacks &&& (← PlayerState.pawns passive.occupancy)) ≠ (0 : UInt64) then do
          pure true
        else do
          let king_attacks := (KING_NONMAGICS_get_attacks king_square_shift)
          pure (decide ((king_attacks &&& (← PlayerState.kings passive.occupancy)) ≠ (0 : UInt64)))

/-- `fn _is_in_check_by_bits(&self, color_bits: ColorBits) -> bool` in `impl Bitboard` (board/src/board.rs:838).
* `white` = field `self.white: PlayerState`
* `black` = field `self.black: PlayerState`
* `color_bits` = parameter `color_bits: u32`
* `ROOK_MAGICS_get_attacks` = OPAQUE associated function `Self::ROOK_MAGICS_get_attacks`
* `BISHOP_MAGICS_get_attacks` = OPAQUE associated function `Self::BISHOP_MAGICS_get_attacks`
* `KNIGHT_NONMAGICS_get_attacks` = OPAQUE associated function `Self::KNIGHT_NONMAGICS_get_attacks`
* `WHITE_PAWN_NONMAGICS_get_attacks` = OPAQUE associated function `Self::WHITE_PAWN_NONMAGICS_get_attacks`
* `BLACK_PAWN_NONMAGICS_get_attacks` = OPAQUE associated function `Self::BLACK_PAWN_NONMAGICS_get_attacks`
* `KING_NONMAGICS_get_attacks` = OPAQUE associated function `Self::KING_NONMAGICS_get_attacks`
`none` = panic (or out of fuel). -/
def Bitboard._is_in_check_by_bits (white : Inkayaku.Rs.PlayerState) (black : Inkayaku.Rs.PlayerState) (color_bits : Int) (ROOK_MAGICS_get_attacks : Int → UInt64 → UInt64) (BISHOP_MAGICS_get_attacks : Int → UInt64 → UInt64) (KNIGHT_NONMAGICS_get_attacks : Int → UInt64) (WHITE_PAWN_NONMAGICS_get_attacks : Int → UInt64) (BLACK_PAWN_NONMAGICS_get_attacks : Int → UInt64) (KING_NONMAGICS_get_attacks : Int → UInt64) : Option Bool := do
  let (active, passive) := if color_bits = WHITE then (white, black) else (black, white)
  let full_occupancy : UInt64 := (← PlayerState.full_occupancy active.occupancy) ||| (← PlayerState.full_occupancy passive.occupancy)
  Bitboard._is_square_in_check color_bits passive (u64Tz (← PlayerState.kings active.occupancy)) full_occupancy ROOK_MAGICS_get_attacks BISHOP_MAGICS_get_attacks KNIGHT_NONMAGICS_get_attacks WHITE_PAWN_NONMAGICS_get_attacks BLACK_PAWN_NONMAGICS_get_attacks KING_NONMAGICS_get_attacks

/-- `fn is_valid(&self) -> bool` in `impl Bitboard` (board/src/board.rs:826).
* `white` = field `self.white: PlayerState`
* `black` = field `self.black: PlayerState`
* `turn` = field `self.turn: u32`
* `ROOK_MAGICS_get_attacks` = OPAQUE associated function `Self::ROOK_MAGICS_get_attacks`
* `BISHOP_MAGICS_get_attacks` = OPAQUE associated function `Self::BISHOP_MAGICS_get_attacks`
* `KNIGHT_NONMAGICS_get_attacks` = OPAQUE associated function `Self::KNIGHT_NONMAGICS_get_attacks`
* `WHITE_PAWN_NONMAGICS_get_attacks` = OPAQUE associated function `Self::WHITE_PAWN_NONMAGICS_get_attacks`
* `BLACK_PAWN_NONMAGICS_get_attacks` = OPAQUE associated function `Self::BLACK_PAWN_NONMAGICS_get_attacks`
* `KING_NONMAGICS_get_attacks` = OPAQUE associated function `Self::KING_NONMAGICS_get_attacks`
`none` = panic (or out of fuel). -/
def Bitboard.is_valid (white : Inkayaku.Rs.PlayerState) (black : Inkayaku.Rs.PlayerState) (turn : Int) (ROOK_MAGICS_get_attacks : Int → UInt64 → UInt64) (BISHOP_MAGICS_get_attacks : Int → UInt64 → UInt64) (KNIGHT_NONMAGICS_get_attacks : Int → UInt64) (WHITE_PAWN_NONMAGICS_get_attacks : Int → UInt64) (BLACK_PAWN_NONMAGICS_get_attacks : Int → UInt64) (KING_NONMAGICS_get_attacks : Int → UInt64) : Option Bool := do
  pure (!(← Bitboard._is_in_check_by_bits white black (← Bitboard.opposite_turn turn) ROOK_MAGICS_get_attacks BISHOP_MAGICS_get_attacks KNIGHT_NONMAGICS_get_attacks WHITE_PAWN_NONMAGICS_get_attacks BLACK_PAWN_NONMAGICS_get_attacks KING_NONMAGICS_get_attacks))

/-- `fn is_current_in_check(&self) -> bool` in `impl Bitboard` (board/src/board.rs:830).
* `white` = field `self.white: PlayerState`
* `black` = field `self.black: PlayerState`
* `turn` = field `self.turn: u32`
* `ROOK_MAGICS_get_attacks` = OPAQUE associated function `Self::ROOK_MAGICS_get_attacks`
* `BISHOP_MAGICS_get_attacks` = OPAQUE associated function `Self::BISHOP_MAGICS_get_attacks`
* `KNIGHT_NONMAGICS_get_attacks` = OPAQUE associated function `Self::KNIGHT_NONMAGICS_get_attacks`
* `WHITE_PAWN_NONMAGICS_get_attacks` = OPAQUE associated function `Self::WHITE_PAWN_NONMAGICS_get_attacks`
* `BLACK_PAWN_NONMAGICS_get_attacks` = OPAQUE associated function `Self::BLACK_PAWN_NONMAGICS_get_attacks`
* `KING_NONMAGICS_get_attacks` = OPAQUE associated function `Self::KING_NONMAGICS_get_attacks`
`none` = panic (or out of fuel). -/
def Bitboard.is_current_in_check (white : Inkayaku.Rs.PlayerState) (black : Inkayaku.Rs.PlayerState) (turn : Int) (ROOK_MAGICS_get_attacks : Int → UInt64 → UInt64) (BISHOP_MAGICS_get_attacks : Int → UInt64 → UInt64) (KNIGHT_NONMAGICS_get_attacks : Int → UInt64) (WHITE_PAWN_NONMAGICS_get_attacks : Int → UInt64) (BLACK_PAWN_NONMAGICS_get_attacks : Int → UInt64) (KING_NONMAGICS_get_attacks : Int → UInt64) : Option Bool := do
  Bitboard._is_in_check_by_bits white black turn ROOK_MAGICS_get_attacks BISHOP_MAGICS_get_attacks KNIGHT_NONMAGICS_get_attacks WHITE_PAWN_NONMAGICS_get_attacks BLACK_PAWN_NONMAGICS_get_attacks KING_NONMAGICS_get_attacks

/-- `fn is_in_check(&self, color: &Color) -> bool` in `impl Bitboard` (board/src/board.rs:834).
* `white` = field `self.white: PlayerState`
* `black` = field `self.black: PlayerState`
* `color_index` = field `color.index: u32`
* `ROOK_MAGICS_get_attacks` = OPAQUE associated function `Self::ROOK_MAGICS_get_attacks`
* `BISHOP_MAGICS_get_attacks` = OPAQUE associated function `Self::BISHOP_MAGICS_get_attacks`
* `KNIGHT_NONMAGICS_get_attacks` = OPAQUE associated function `Self::KNIGHT_NONMAGICS_get_attacks`
* `WHITE_PAWN_NONMAGICS_get_attacks` = OPAQUE associated function `Self::WHITE_PAWN_NONMAGICS_get_attacks`
* `BLACK_PAWN_NONMAGICS_get_attacks` = OPAQUE associated function `Self::BLACK_PAWN_NONMAGICS_get_attacks`
* `KING_NONMAGICS_get_attacks` = OPAQUE associated function `Self::KING_NONMAGICS_get_attacks`
`none` = panic (or out of fuel). -/
def Bitboard.is_in_check (white : Inkayaku.Rs.PlayerState) (black : Inkayaku.Rs.PlayerState) (color_index : Int) (ROOK_MAGICS_get_attacks : Int → UInt64 → UInt64) (BISHOP_MAGICS_get_attacks : Int → UInt64 → UInt64) (KNIGHT_NONMAGICS_get_attacks : Int → UInt64) (WHITE_PAWN_NONMAGICS_get_attacks : Int → UInt64) (BLACK_PAWN_NONMAGICS_get_attacks : Int → UInt64) (KING_NONMAGICS_get_attacks : Int → UInt64) : Option Bool := do
  Bitboard._is_in_check_by_bits white black color_index ROOK_MAGICS_get_attacks BISHOP_MAGICS_get_attacks KNIGHT_NONMAGICS_get_attacks WHITE_PAWN_NONMAGICS_get_attacks BLACK_PAWN_NONMAGICS_get_attacks KING_NONMAGICS_get_attacks

end Inkayaku.Rs
