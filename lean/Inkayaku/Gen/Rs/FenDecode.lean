/-
GENERATED FILE — do not edit.  Regenerated from the CURRENT Rust sources by /verif/translator:
    rs2lean <repo root> <out dir>
Module `FenDecode`.  Semantics of the translation: see the header of `Prelude.lean`.
Rust sources: board/src/board/constants.rs, board/src/board.rs
-/
import Inkayaku.Gen.Rs.Prelude
import Inkayaku.Gen.Rs.Board
import Inkayaku.Gen.Rs.Check
import Inkayaku.Gen.Rs.FenText
import Inkayaku.Gen.Rs.MakeUnmake
import Inkayaku.Gen.Rs.MoveBits
import Inkayaku.Gen.Rs.Square

set_option linter.unusedVariables false

namespace Inkayaku.Rs

/-- `const fn square_shift_from_index(file_index: u32, rank_index: u32) -> SquareShiftBits` in `module level` (board/src/board/constants.rs:282).
* `file_index` = parameter `file_index: u32`
* `rank_index` = parameter `rank_index: u32`
`none` = panic (or out of fuel). -/
def square_shift_from_index (file_index : Int) (rank_index : Int) : Option Int := do
  pure (cast .u32 (← to_square_index_from_indices (cast .usize file_index) (cast .usize rank_index)))

/-- `const fn square_mask_from_index(file_index: u32, rank_index: u32) -> SquareMaskBits` in `module level` (board/src/board/constants.rs:277).
* `file_index` = parameter `file_index: u32`
* `rank_index` = parameter `rank_index: u32`
`none` = panic (or out of fuel). -/
def square_mask_from_index (file_index : Int) (rank_index : Int) : Option UInt64 := do
  u64Shl (1 : UInt64) (← square_shift_from_index file_index rank_index)

/-- `fn square_shift_from_fen_unchecked(fen: &str) -> SquareShiftBits` in `module level` (board/src/board/constants.rs:293).
* `fen` = parameter `fen: str`
`none` = panic (or out of fuel). -/
def square_shift_from_fen_unchecked (fen : List Char) : Option Int := do
  let _ ← rsAssert (decide ((strLen fen) = 2))
  let chars : List Char := fen
  let (item_1, chars) := iterNext chars
  let first_char : Char ← item_1
  let file_index : Int := cast .u32 (← chk .u8 ((cast .u8 (ofChar first_char)) - 97))
  let (item_2, chars) := iterNext chars
  let second_char : Char ← item_2
  let rank_index : Int ← chk .u32 (8 - (← (toDigit10 second_char)))
  square_shift_from_index file_index rank_index

/-- `fn queens_ref() -> usize` in `impl PlayerState` (board/src/board.rs:198).
`none` = panic (or out of fuel). -/
def PlayerState.queens_ref_index : Option Int := do
  pure (cast .usize (u64ToInt QUEEN))

/-- `fn bishops_ref() -> usize` in `impl PlayerState` (board/src/board.rs:202).
`none` = panic (or out of fuel). -/
def PlayerState.bishops_ref_index : Option Int := do
  pure (cast .usize (u64ToInt BISHOP))

/-- `fn knights_ref() -> usize` in `impl PlayerState` (board/src/board.rs:204).
`none` = panic (or out of fuel). -/
def PlayerState.knights_ref_index : Option Int := do
  pure (cast .usize (u64ToInt KNIGHT))

/-- `fn parse_turn(&self) -> ColorBits` in `impl FenParseExt for Fen` (board/src/board.rs:1538).
* `fen` = field `self.fen: str`
* `active_color` = field `self.active_color: Range<usize>`
`none` = panic (or out of fuel). -/
def Fen.parse_turn (fen : List Char) (active_color : (Int × Int)) : Option Int := do
  let scrutinee_1 : List Char ← Fen.get_active_color fen active_color
  if scrutinee_1 = ['b'] then do
    pure BLACK
  else do
    if scrutinee_1 = ['w'] then do
      pure WHITE
    else do
      none

/-- `fn parse_en_passant_square_shift(&self) -> SquareShiftBits` in `impl FenParseExt for Fen` (board/src/board.rs:1545).
* `fen` = field `self.fen: str`
* `en_passant_target_square` = field `self.en_passant_target_square: Range<usize>`
`none` = panic (or out of fuel). -/
def Fen.parse_en_passant_square_shift (fen : List Char) (en_passant_target_square : (Int × Int)) : Option Int := do
  if (← Fen.get_en_passant_target_square fen en_passant_target_square) = ['-'] then do
    pure NO_SQUARE
  else do
    square_shift_from_fen_unchecked (← Fen.get_en_passant_target_square fen en_passant_target_square)

/-- `fn parse_fullmove_clock(&self) -> u32` in `impl FenParseExt for Fen` (board/src/board.rs:1547).
* `fen` = field `self.fen: str`
* `fullmove_clock` = field `self.fullmove_clock: Option<Range<usize>>`
`none` = panic (or out of fuel). -/
def Fen.parse_fullmove_clock (fen : List Char) (fullmove_clock : Option (Int × Int)) : Option Int := do
  (parseU32 (← Fen.get_fullmove_clock fen fullmove_clock))

/-- `fn parse_halfmove_clock(&self) -> u32` in `impl FenParseExt for Fen` (board/src/board.rs:1549).
* `fen` = field `self.fen: str`
* `halfmove_clock` = field `self.halfmove_clock: Option<Range<usize>>`
`none` = panic (or out of fuel). -/
def Fen.parse_halfmove_clock (fen : List Char) (halfmove_clock : Option (Int × Int)) : Option Int := do
  (parseU32 (← Fen.get_halfmove_clock fen halfmove_clock))

/-- `for` loop of `parse_player_states` over a list (board/src/board.rs:1507), by structural recursion on the list.  Reads: rank_index : usize.  State: white : PlayerState, black : PlayerState, file_index : u32.  `none` = panic. -/
def Fen.parse_player_states.for_2 (rank_index : Int) : (List Char) → Inkayaku.Rs.PlayerState → Inkayaku.Rs.PlayerState → Int → Option (Inkayaku.Rs.PlayerState × Inkayaku.Rs.PlayerState × Int)
  | [], white, black, file_index => pure (white, black, file_index)
  | c :: rest_8, white, black, file_index => do
    let (white, black, file_index) ← (
      if isAsciiDigit c then do
        let file_index : Int ← chk .u32 (file_index + (← (toDigit10 c)))
        pure (white, black, file_index)
      else do
        let borrow_cond_2 : Bool ← charIsUppercase c
        let board : Inkayaku.Rs.PlayerState := if borrow_cond_2 then white else black
        let pieces_index_4 : Int ← (
          let scrutinee_3 : Char := charToAsciiLowercase c
          if scrutinee_3 = 'p' then do
            PlayerState.pawns_ref_index
          else do
            if scrutinee_3 = 'n' then do
              PlayerState.knights_ref_index
            else do
              if scrutinee_3 = 'b' then do
                PlayerState.bishops_ref_index
              else do
                if scrutinee_3 = 'r' then do
                  PlayerState.rooks_ref_index
                else do
                  if scrutinee_3 = 'q' then do
                    PlayerState.queens_ref_index
                  else do
                    if scrutinee_3 = 'k' then do
                      PlayerState.kings_ref_index
                    else do
                      none)
        let old_5 : UInt64 ← vecIdx board.occupancy pieces_index_4
        let new_6 : UInt64 := old_5 ||| (← square_mask_from_index file_index (cast .u32 rank_index))
        let array_7 ← vecSet board.occupancy pieces_index_4 new_6
        let board := { board with occupancy := array_7 }
        let file_index : Int ← chk .u32 (file_index + 1)
        let white := if borrow_cond_2 then board else white
        let black := if borrow_cond_2 then black else board
        pure (white, black, file_index))
    Fen.parse_player_states.for_2 rank_index rest_8 white black file_index

/-- `for` loop of `parse_player_states` over a list (board/src/board.rs:1504), by structural recursion on the list.  Reads: nothing.  State: white : PlayerState, black : PlayerState.  `none` = panic. -/
def Fen.parse_player_states.for_1 : (List (Int × (List Char))) → Inkayaku.Rs.PlayerState → Inkayaku.Rs.PlayerState → Option (Inkayaku.Rs.PlayerState × Inkayaku.Rs.PlayerState)
  | [], white, black => pure (white, black)
  | (rank_index, file) :: rest_9, white, black => do
    let file_index : Int := 0
    let (white, black, file_index) ← Fen.parse_player_states.for_2 rank_index file white black file_index
    Fen.parse_player_states.for_1 rest_9 white black

/-- `fn parse_player_states(&self) ->(PlayerState, PlayerState)` in `impl FenParseExt for Fen` (board/src/board.rs:1500).
* `fen` = field `self.fen: str`
* `piece_placement` = field `self.piece_placement: Range<usize>`
* `castling_availability` = field `self.castling_availability: Range<usize>`
`none` = panic (or out of fuel). -/
def Fen.parse_player_states (fen : List Char) (piece_placement : (Int × Int)) (castling_availability : (Int × Int)) : Option (Inkayaku.Rs.PlayerState × Inkayaku.Rs.PlayerState) := do
  let white : Inkayaku.Rs.PlayerState := ({ occupancy := List.replicate 7 (0 : UInt64), queen_side_castle := false, king_side_castle := false } : Inkayaku.Rs.PlayerState)
  let black : Inkayaku.Rs.PlayerState := ({ occupancy := List.replicate 7 (0 : UInt64), queen_side_castle := false, king_side_castle := false } : Inkayaku.Rs.PlayerState)
  let items_1 : List (Int × (List Char)) := iterEnumerate (strSplit '/' (← Fen.get_piece_placement fen piece_placement))
  let (white, black) ← Fen.parse_player_states.for_1 items_1 white black
  let field_10 : Bool := strContains (← Fen.get_castling_availability fen castling_availability) 'Q'
  let white := { white with queen_side_castle := field_10 }
  let field_11 : Bool := strContains (← Fen.get_castling_availability fen castling_availability) 'K'
  let white := { white with king_side_castle := field_11 }
  let field_12 : Bool := strContains (← Fen.get_castling_availability fen castling_availability) 'q'
  let black := { black with queen_side_castle := field_12 }
  let field_13 : Bool := strContains (← Fen.get_castling_availability fen castling_availability) 'k'
  let black := { black with king_side_castle := field_13 }
  pure (white, black)

/-- `fn from(fen: &Fen) -> Self` in `impl From<&Fen> for Bitboard` (board/src/board.rs:1559).
* `fen` = parameter `fen: Fen`
Result: the fields of the new `Bitboard`: `white`, `black`, `turn`, `en_passant_square_shift`, `fullmove_clock`, `halfmove_clock`.
`none` = panic (or out of fuel). -/
def Bitboard.from (fen : Inkayaku.Rs.Fen) : Option (Inkayaku.Rs.PlayerState × Inkayaku.Rs.PlayerState × Int × Int × Int × Int) := do
  let (white, black) ← Fen.parse_player_states fen.fen fen.piece_placement fen.castling_availability
  let field_turn_1 : Int ← Fen.parse_turn fen.fen fen.active_color
  let field_en_passant_square_shift_2 : Int ← Fen.parse_en_passant_square_shift fen.fen fen.en_passant_target_square
  let field_fullmove_clock_3 : Int ← Fen.parse_fullmove_clock fen.fen fen.fullmove_clock
  let field_halfmove_clock_4 : Int ← Fen.parse_halfmove_clock fen.fen fen.halfmove_clock
  pure (white, black, field_turn_1, field_en_passant_square_shift_2, field_fullmove_clock_3, field_halfmove_clock_4)

end Inkayaku.Rs
