/-
GENERATED FILE — do not edit.  Regenerated from the CURRENT Rust sources by /verif/translator:
    rs2lean <repo root> <out dir>
Run-time library of the translated definitions.

Semantics of the translation (rs2lean)
--------------------------------------
* A Rust function `fn f(p1: T1, ..) -> R` becomes ONE Lean definition `f (p1 : ⟦T1⟧) .. : Option ⟦R⟧`.
  `none` means: the Rust function PANICS in the dev profile (arithmetic overflow, division by zero, shift amount out
  of range; in the release profile the same inputs wrap silently, which is equally outside the intended behaviour),
  or the fuel ran out (see below).  `some v` = it returns `v`.  (A Rust `Option<T>` result is an inner `Option`.)
* Machine integers (`u8 … u128`, `usize` = 64 bit, `i8 … i128`, `isize`) are Lean `Int`s; the translator tracks the
  Rust TYPE of every sub-expression and wraps every `+ - * / % << -x abs` in a range check for that type:
  `chk .i32 (a - b)` is `some (a - b)` if the mathematical result fits `i32` and `none` otherwise.
  Integer parameters are plain `Int`s: the range the Rust type imposes on an ARGUMENT is a precondition of the
  equivalence theorems (stated there explicitly), it is not checked by the definition.
* `e as T` between integer types is `cast .T e` = the unique value of type `T` congruent to `e` modulo 2^bits
  (exactly Rust's `as`); `char as uN` goes through the code point, `bool as T` / `T::from(bool)` is 0/1.
* `saturating_sub`, `wrapping_sub`, `checked_sub` (result is a Rust `Option`, not a panic), `abs`, `signum`,
  `max`, `min` are the prelude functions of the same name.
* `bool` is `Bool`; `&&`/`||` are short-circuit: if the right operand can panic it is only evaluated when needed.
* `let`/`let mut`/assignment/compound assignment become shadowing `let`s in the `Option` monad.  An `if` statement that
  assigns to outer variables yields the tuple of these variables.  An early `return` makes the statements that
  follow the enclosing `if` part of the `else` branch (the remaining statements are duplicated per branch if needed).
* `while c { body }` becomes a separate structurally recursive definition `f.while_n` over an explicit FUEL argument,
  one unit per iteration; out of fuel = `none`.  Its arguments are the variables the loop reads (in order of
  declaration), the fuel, and the variables it assigns (the loop state).  If the body contains `return`, the loop
  yields `Ctl.ret r` (the function returned `r`) or `Ctl.next state` (the loop ended normally).
  `for i in a..b { body }` is treated as `let mut i = a; while i < b { body; i += 1 }` (no overflow check on the
  increment since `i < b`).  Every function with a loop has a last argument `fuel`.
* `self.field` and `param.field` of struct-typed parameters become separate parameters `field` / `param_field`
  (only the fields that are read, in declaration order; their types are taken from the struct definition in the
  Rust source).  A `Vec<T>` field that is only indexed becomes a function `Nat → ⟦T⟧` (no bounds check: an
  out-of-range index is a precondition of the theorems that use it).  Method calls on parameters that are listed as
  OPAQUE in the translator's table (e.g. `bitboard.is_current_in_check()`, `self.evaluate_ongoing(..)`) become
  parameters holding the result of that call.
* `&str`/`String` values are `List Char` (`len()` is the UTF-8 byte length `strLen`), `s.chars()` and `.map(f)` are lists,
  `.sum()` is `iterSum` (overflow-checked fold), `.collect::<Vec<_>>()` is the list; `Vec` locals are lists with
  checked indexing (`vecIdx`, `none` = index out of bounds).  `Result<T, E>` is `Except E T`.
* `Duration` is an `Int` of whole nanoseconds (`as_secs`, `div`/`mul` by `u32` exact; `mul_f64` only for dyadic
  literal factors, see the ASSUMPTION at `durMulF64`).
* MAPPING-TABLE ASSUMPTION for the std collections ("std `HashMap` / `VecDeque` behave as a map / a queue"; not derived
  from the Rust library source): a `HashMap<K, V, S>` value is an `HMap K V` = association list with pairwise distinct
  keys (`hmNew`, `hmInsert` returning the previous value, `hmRemove`, `hmGet`, `hmLen`, `hmClear`; the order of the
  list is a representation detail, the hasher `S` plays no role); a `VecDeque<T>` value is a `VecDeque T` = list with
  head = front (`vdNew`, `vdPushBack`, `vdPopFront` returning `None` on an empty queue, `vdLen`, `vdClear`).
  A call that modifies a field of `&mut self` (`self.map.insert(k, v)`) becomes `let (map, r) := hmInsert map k v`
  BEFORE the statement it occurs in; this is only accepted where that is the Rust evaluation order (the call is a
  statement of its own or the head of the method chain that is the whole `let` initialiser / first `if` condition).
  `x.unwrap()` of an `Option` is `← x` (`None` = panic).  The fields of `&mut self` that a function modifies are
  parameters (value at entry) and their final values are the result (in declaration order); a constructor
  (`-> Self`) yields the tuple of all fields.  Generic type parameters of an `impl` are Lean type variables.
* BIT-MANIPULATING functions (marked `bits` in the translator's table): a value of type `u64` is a Lean `UInt64`
  (not a range-checked `Int`); `& | ^ !` are `&&& ||| ^^^ ~~~`; `a << n` / `a >> n` are `u64Shl a n` / `u64Shr a n`
  (`none` = shift amount not in `0 .. 64`, a panic); `+ - *` are `u64Add/u64Sub/u64Mul` (`none` = overflow panic);
  `wrapping_mul`/`overflowing_mul(..).0` is the `UInt64` product; `x as u64` from another integer type is
  `u64OfInt` (wrap-around), `u64 as T` is `cast .T (u64ToInt x)`; `trailing_zeros` is `u64Tz` (64 for 0).
  All other integer types stay range-checked `Int`s.  `slice.get_unchecked(i)` (in `unsafe` code) is translated as a
  CHECKED access: `none` = out of bounds = undefined behaviour, which the theorems exclude.
* STRUCT VALUES: a struct listed as `Struct` in the translator's table (`Move`, `PlayerState`) is regenerated as a Lean
  structure (arrays / slices of primitives are `List`s, indexing is bounds-checked like the Rust: `vecIdx`/`vecSet`,
  `none` = panic).  `x.f` is the projection, `x.f = e` / `x.f op= e` on a mutable local rebinds `x := { x with f := .. }`,
  `x.m(args)` calls the translated `m` with the fields of `x` it reads.  Tuples are Lean tuples (`let (a, b) = e`).
* `&mut` AND ALIASING (only these patterns; anything else is an error):
  - a method whose body is `if C { (&mut self.a, &mut self.b) } else { (&mut self.b, &mut self.a) }`
    (`get_active_and_passive_mut`) produces no definition; `let (x, y) = self.m();` at the top level of a caller
    evaluates `C` ONCE into `borrow_cond`, copies the two fields into the mutable locals `x`, `y`, and the result tuple of
    the caller writes them back (`if borrow_cond then x else y`, ..).  While the borrow lives a direct access to
    `self.a` / `self.b` is rejected.
  - a method whose body is `&mut self.field[INDEX]` (`pawns_ref`, `occupancy_ref(piece)`) becomes the definition
    `m_index` of the index; `*x.m(args) op= e` is `let i ← m_index args; let old ← vecIdx x.field i;
    x := { x with field := ← vecSet x.field i (old op e) }`.
  - a parameter `p: &mut S` of a regenerated struct is a mutable variable whose final value is (part of) the result;
    `f(x, ..);` as a statement of its own rebinds `x`.
  - `self.m(args);` as a statement of its own, for a translated `&mut self` method `m` of the same type, rebinds the
    fields `m` modifies (`let (white, black, ..) ← m white black .. args`).
* OPAQUE FUNCTIONS: calls listed as opaque whose receiver is a global (`ROOK_MAGICS.get_attacks(sq, occ)`) or another
  type (`Zobrist::piece_square_hash(p, sq, c)`, the constant `Zobrist::BLACK_TO_MOVE_HASH`) become FUNCTION (value)
  parameters applied to the translated arguments; callers of such a function get the same parameters.
* `match` on an integer with constant patterns (`C1 => ..`) is a chain of equality tests; `panic!()` as the value of an
  arm is `none`.  `unsafe { e }` is `e` (every operation inside must still be in the mapping table).
* Enums used by the functions are regenerated from the Rust `enum` definition as Lean inductives.
* MOVE GENERATION (round 3).  In a bit-manipulating function a value of a struct that is regenerated with `Int` fields (`Move`)
  is FLATTENED: a parameter `mv: Move` is one parameter per field read (`mv_bits`), a local `let mut mv = Move { bits: 0, mvvlva: 0 }`
  is one mutable variable per field (`mv_bits`, `mv_mvvlva`; `mv.f = e` rebinds `mv_f`, `mv.set_x(a);` rebinds the fields the
  translated `&mut self` method `set_x` modifies), and a `Vec<Move>` / `&[Move]` is a `List` of PACKED values = tuples of the fields in
  declaration order (`(bits, mvvlva) : UInt64 × Int`).  A parameter `result: &mut Vec<Move>` is an in/out list (its final value is
  (part of) the result; `f(result, ..);` / `self.m(result, ..);` as a statement of its own rebinds it), `result.push(mv)` is
  `result ++ [(mv_bits, mv_mvvlva)]`, `Vec::new()` is `[]`.
  - `let x;` (deferred initialisation) binds `x` at its first assignment (an `if` whose branches assign it yields it).  The type of an
    UNTYPED integer literal bound by `let` (`let off = if c { 0 } else { 8 };`, `d = 56;`) is taken from the first typed operand the
    variable is later combined with (`target + off`, `A8 + d`); this is only a hint for the literal: every use is type-checked.
  - OPAQUE TABLE TYPES (`Magics`, `Nonmagics`): a value of such a type — a parameter `magics: &Magics`, a local chosen between two
    global tables, a global passed as an argument (`&ROOK_MAGICS`) — is represented by its lookup FUNCTION (`Int → UInt64 → UInt64`,
    `Int → UInt64`); `t.get_attacks(..)` applies it; a global table is the OPAQUE function parameter `ROOK_MAGICS_get_attacks` the
    check-detection functions already take.  An array constant (`const PIECE_VALUES: [i32; 7] = [..]`) is a list, indexing is checked.
  - `for &x in list { body }` over a list parameter is a definition `f.for_n` by STRUCTURAL recursion on the list (no fuel); a packed
    element is destructured into a flattened struct local.  `list.into_iter().filter(|&x| self.m(x)).collect()` where `m` is a translated
    `&mut self` method returning `bool` is a definition `f.filter_n` by structural recursion that threads the fields `m` modifies
    through the calls in list order (the iterator is lazy: the predicate runs once per element, in order).
  - `self.m(args)` for a translated `&mut self` method that RETURNS A VALUE may be the head of a `let` initialiser / of the first `if`
    condition of a statement: `let (r, fields..) ← m ..` runs before the statement, the value is `r`.  Fields of `&mut self` modified
    inside a loop are part of the loop state; a `return` inside such a loop yields `Ctl.ret` of the COMPLETE result of the function
    (returned value and final fields).
  - `a && b` / `a || b` with a right operand that can panic is `(← (if a then (do b) else pure false))`: a parenthesised TERM-level
    `if` (so that Lean does not duplicate the rest of the `do` block into both branches).
* FEN READER / WRITER (round 4).  `&str` / `String` values are `List Char`: string literals are written out, `==` is list equality,
  `&s[a..b]` is `strSlice` (BYTE offsets; `none` = out of range or not on a char boundary: a panic), `s.split(c)` / `.enumerate()` /
  `.chars()` are lists (`strSplit`, `iterEnumerate`), `s.contains(c)`, `s.is_empty()`, `s.parse::<u32>()` is `parseU32` (an `Option`-like
  value; see the ASSUMPTION there), `n.to_string()` is `uintToString`, `char::from_digit(d, 10)` is `fromDigit10`; a mutable local string
  is rebound by `s.push(c)` / `s.push_str(&t)` (`s ++ [c]` / `s ++ t`); `c.is_uppercase()` is only modelled on ASCII (`charIsUppercase`:
  `none` outside).  `it.next()` on a mutable local iterator rebinds it BEFORE the statement (`iterNext`; only as head of a `let` initialiser).
  `Range<usize>` is the pair `(start, end)`.  `assert!/assert_eq!` are `rsAssert` (`none` = the assertion fails).
  - `ITER.for_each(|pat| { body })` and `for pat in ITER { body }` over a list / iterator expression are definitions by structural
    recursion on the list; `pat` may be a tuple of variables.  `ITER.map(F).find(P)` with a translated `F` is the LAZY `iterMapFind`.
  - `let x = if C { &mut a } else { &mut b };` for two distinct mutable struct locals: `C` is evaluated once, `x` is a copy, and it is
    written back into `a` / `b` at the end of the block (`a`, `b` must not be used in the rest of that block; no `return` there).
    `let p = match E { P1 => x.m1_ref(), .., _ => panic!() };` where every arm is a place method of the struct local `x` (or `panic!()`):
    the INDEX of the place is computed by the `match`; `*p op= e` updates `x.field` at that index (bounds-checked).
  - a `match` whose patterns are built from `Some(name)` / `Some(_)` / `None` / `_` is a Lean `match` on the `Option` values (same arm order).
  - `let f = |x| body;` is a local closure: every call `f(arg)` (plain argument) is the body with `x` bound to the argument.
  - `E?` on a `Result` with the error type of the function (as a `let` initialiser or a statement) is a `match` whose `Err` arm returns.
  - OPAQUE TYPES (`Square`, `Piece`, `ColoredPiece`, regex `Captures` / `Match`): values are elements of a Lean type variable; the fields /
    methods / associated functions listed as opaque for the target (`square.mask`, `piece.to_white()`, `captures.get(i)`,
    `Piece::from_index(i)`, `Self::parse(s)`, `Self::default()`) are FUNCTION (value) parameters `Type_member`; what they are assumed to
    compute is stated as a hypothesis of the theorems (`Props/Translated/FenFromStr.lean`, `FenWrite.lean`).
  - a struct literal of a regenerated struct writes the fields in SOURCE order (nested actions run in that order); a constructor
    (`-> Self` of a flattened struct) whose literal has panicking initialisers binds them first, in source order.
* Anything else makes rs2lean stop with an error naming file, line, function and construct.  It never guesses.
-/
namespace Inkayaku.Rs

/-- Rust machine-integer types (`usize`/`isize` = 64 bit, the only target the engine is built for). -/
inductive Ty where
  | u8 | u16 | u32 | u64 | u128 | usize | i8 | i16 | i32 | i64 | i128 | isize
deriving DecidableEq, Repr

/-- `T::MIN` -/
def Ty.lo : Ty → Int
  | .u8 => 0 | .u16 => 0 | .u32 => 0 | .u64 => 0 | .u128 => 0 | .usize => 0
  | .i8 => -128 | .i16 => -32768 | .i32 => -2147483648 | .i64 => -9223372036854775808
  | .i128 => -170141183460469231731687303715884105728 | .isize => -9223372036854775808

/-- `T::MAX` -/
def Ty.hi : Ty → Int
  | .u8 => 255 | .u16 => 65535 | .u32 => 4294967295 | .u64 => 18446744073709551615
  | .u128 => 340282366920938463463374607431768211455 | .usize => 18446744073709551615
  | .i8 => 127 | .i16 => 32767 | .i32 => 2147483647 | .i64 => 9223372036854775807
  | .i128 => 170141183460469231731687303715884105727 | .isize => 9223372036854775807

/-- `T::BITS` -/
def Ty.bits : Ty → Int
  | .u8 => 8 | .u16 => 16 | .u32 => 32 | .u64 => 64 | .u128 => 128 | .usize => 64
  | .i8 => 8 | .i16 => 16 | .i32 => 32 | .i64 => 64 | .i128 => 128 | .isize => 64

/-- `2 ^ T::BITS` -/
def Ty.modulus (t : Ty) : Int := t.hi - t.lo + 1

/-- Range check of an arithmetic result of type `t`: `none` = overflow panic. -/
def chk (t : Ty) (x : Int) : Option Int := if t.lo ≤ x ∧ x ≤ t.hi then some x else none

/-- `x as t` between integer types: the value of type `t` congruent to `x` modulo `2 ^ bits`. -/
def cast (t : Ty) (x : Int) : Int := (x - t.lo) % t.modulus + t.lo

/-- `a.saturating_sub(b)` at type `t` -/
def satSub (t : Ty) (a b : Int) : Int := max t.lo (min t.hi (a - b))

/-- `a.saturating_add(b)` at type `t` -/
def satAdd (t : Ty) (a b : Int) : Int := max t.lo (min t.hi (a + b))

/-- `a.wrapping_sub(b)` at type `t` -/
def wrappingSub (t : Ty) (a b : Int) : Int := cast t (a - b)

/-- `a.wrapping_add(b)` at type `t` -/
def wrappingAdd (t : Ty) (a b : Int) : Int := cast t (a + b)

/-- `a.checked_sub(b)` at type `t`: a Rust `Option` VALUE (no panic) -/
def checkedSub (t : Ty) (a b : Int) : Option Int := chk t (a - b)

/-- `a.checked_add(b)` at type `t`: a Rust `Option` VALUE (no panic) -/
def checkedAdd (t : Ty) (a b : Int) : Option Int := chk t (a + b)

/-- `a / b` at type `t` (truncating; panics on `b = 0` and on `MIN / -1`) -/
def div (t : Ty) (a b : Int) : Option Int := if b = 0 then none else chk t (Int.tdiv a b)

/-- `a % b` at type `t` (sign of the dividend; panics on `b = 0` and on `MIN % -1`) -/
def rem (t : Ty) (a b : Int) : Option Int :=
  if b = 0 then none else if (chk t (Int.tdiv a b)).isNone then none else some (Int.tmod a b)

/-- `a << b` at type `t`: panics iff the shift amount is not in `0 .. bits`; bits shifted out are dropped. -/
def shl (t : Ty) (a b : Int) : Option Int := if 0 ≤ b ∧ b < t.bits then some (cast t (a * 2 ^ b.toNat)) else none

/-- `a >> b` at type `t` (arithmetic for signed types): panics iff the shift amount is not in `0 .. bits`. -/
def shr (t : Ty) (a b : Int) : Option Int := if 0 ≤ b ∧ b < t.bits then some (a / 2 ^ b.toNat) else none

/-- `a.abs()` at type `t` (panics on `MIN`) -/
def abs (t : Ty) (a : Int) : Option Int := chk t (a.natAbs : Int)

/-- `a.signum()` -/
def signum (a : Int) : Int := Int.sign a

/-- `bool as T`, `T::from(bool)` -/
def ofBool (b : Bool) : Int := if b then 1 else 0

/-- `char as uN` before the truncation: the code point -/
def ofChar (c : Char) : Int := (c.toNat : Int)

/-- `c.to_digit(10)`: a Rust `Option` VALUE -/
def toDigit10 (c : Char) : Option Int := if 48 ≤ c.toNat ∧ c.toNat ≤ 57 then some ((c.toNat : Int) - 48) else none

/-- `c.is_ascii_digit()` -/
def isAsciiDigit (c : Char) : Bool := decide (48 ≤ c.toNat ∧ c.toNat ≤ 57)

/-- Result of a loop whose body contains `return`: `ret r` = the enclosing function returned `r`,
`next s` = the loop ended normally with state `s`. -/
inductive Ctl (ρ σ : Type) where
  | ret (r : ρ)
  | next (s : σ)

/-- `v.resize(n, d)` on a `Vec` modelled as a `List` -/
def vecResize {α : Type} (v : List α) (n : Int) (d : α) : List α :=
  if v.length ≥ n.toNat then v.take n.toNat else v ++ List.replicate (n.toNat - v.length) d

/-- `v[i] = x`: panics if out of bounds -/
def vecSet {α : Type} (v : List α) (i : Int) (x : α) : Option (List α) :=
  if i.toNat < v.length then some (v.set i.toNat x) else none

/-- `v[i]`: panics if out of bounds -/
def vecIdx {α : Type} (v : List α) (i : Int) : Option α := v[i.toNat]?

/-- `v.get(i)`: a Rust `Option` VALUE -/
def vecGet {α : Type} (v : List α) (i : Int) : Option α := v[i.toNat]?

/-- `v.len()` -/
def vecLen {α : Type} (v : List α) : Int := (v.length : Int)

/-- `d.as_secs()` of a `Duration` given in whole nanoseconds -/
def durAsSecs (ns : Int) : Int := ns / 1000000000

/-- `d.mul_f64(f)` for a LITERAL factor `f = num / den` that is a dyadic rational (`1.0`, `0.75`, `0.5`, `0.25`, ..).
MAPPING-TABLE ASSUMPTION (not derived from the Rust library source): the result is the exact product truncated to whole
nanoseconds.  (`mul_f64` is `from_secs_f64(f * d.as_secs_f64())`, i.e. floating point; for the millisecond-valued
durations of the UCI `go` command and these factors the harness checks this differentially.)  Panics if negative or
beyond `Duration::MAX`. -/
def durMulF64 (ns : Int) (f : Int × Int) : Option Int :=
  if 0 ≤ ns * f.1 / f.2 ∧ ns * f.1 / f.2 < 18446744073709551616000000000 then some (ns * f.1 / f.2) else none

/-- `d.div(k)` / `d / k` for `k : u32`: exact floor division of the nanoseconds; panics on `k = 0` -/
def durDiv (ns k : Int) : Option Int := if k = 0 then none else some (ns / k)

/-- `d.mul(k)` / `d * k` for `k : u32`; panics beyond `Duration::MAX` -/
def durMul (ns k : Int) : Option Int := if ns * k < 18446744073709551616000000000 then some (ns * k) else none

/-- `u64 as T` before the truncation: the value -/
def u64ToInt (x : UInt64) : Int := (x.toNat : Int)

/-- `x as u64` from another integer type (wrap-around) -/
def u64OfInt (x : Int) : UInt64 := UInt64.ofNat (x % 18446744073709551616).toNat

/-- `bool as u64` -/
def u64OfBool (b : Bool) : UInt64 := if b then 1 else 0

/-- `a << n` on `u64`: panics iff the shift amount is not in `0 .. 64`; bits shifted out are dropped -/
def u64Shl (a : UInt64) (n : Int) : Option UInt64 := if 0 ≤ n ∧ n < 64 then some (a <<< UInt64.ofNat n.toNat) else none

/-- `a >> n` on `u64` (logical): panics iff the shift amount is not in `0 .. 64` -/
def u64Shr (a : UInt64) (n : Int) : Option UInt64 := if 0 ≤ n ∧ n < 64 then some (a >>> UInt64.ofNat n.toNat) else none

/-- `a + b` on `u64`: `none` = overflow panic -/
def u64Add (a b : UInt64) : Option UInt64 := if a.toNat + b.toNat < 18446744073709551616 then some (a + b) else none

/-- `a - b` on `u64`: `none` = overflow panic -/
def u64Sub (a b : UInt64) : Option UInt64 := if b.toNat ≤ a.toNat then some (a - b) else none

/-- `a * b` on `u64`: `none` = overflow panic -/
def u64Mul (a b : UInt64) : Option UInt64 := if a.toNat * b.toNat < 18446744073709551616 then some (a * b) else none

/-- `a.overflowing_mul(b)`: the wrapped product and whether it overflowed -/
def u64OverflowingMul (a b : UInt64) : UInt64 × Bool := (a * b, decide (18446744073709551616 ≤ a.toNat * b.toNat))

/-- `x.trailing_zeros()` (64 for 0) -/
def u64Tz (x : UInt64) : Int := (((List.range 64).find? (fun i => x.toNat.testBit i)).getD 64 : Nat)

/-- `x.leading_zeros()` (64 for 0) -/
def u64Lz (x : UInt64) : Int := (((List.range 64).find? (fun i => x.toNat.testBit (63 - i))).getD 64 : Nat)

/-- `x.count_ones()` -/
def u64Popcnt (x : UInt64) : Int := (((List.range 64).filter (fun i => x.toNat.testBit i)).length : Nat)

/-- `std::collections::HashMap<K, V, S>` (see the MAPPING-TABLE ASSUMPTION in the header): association list, distinct keys -/
abbrev HMap (K V : Type) : Type := List (K × V)

/-- `HashMap::new()` / `HashMap::with_hasher(..)` -/
def hmNew {K V : Type} : HMap K V := []

/-- `m.get(&k)` (the reference is the value) -/
def hmGet {K V : Type} [DecidableEq K] : HMap K V → K → Option V
  | [], _ => none
  | (k', v) :: rest, k => if k' = k then some v else hmGet rest k

/-- `m.insert(k, v)`: the new map and the returned previous value (`None` = the key was absent) -/
def hmInsert {K V : Type} [DecidableEq K] (m : HMap K V) (k : K) (v : V) : HMap K V × Option V :=
  match hmGet m k with
  | some old => (m.map (fun e => if e.1 = k then (e.1, v) else e), some old)
  | none => (m ++ [(k, v)], none)

/-- `m.remove(&k)`: the new map and the returned removed value -/
def hmRemove {K V : Type} [DecidableEq K] (m : HMap K V) (k : K) : HMap K V × Option V :=
  (m.filter (fun e => decide (e.1 ≠ k)), hmGet m k)

/-- `m.len()` -/
def hmLen {K V : Type} (m : HMap K V) : Int := (m.length : Int)

/-- `m.clear()` -/
def hmClear {K V : Type} (_ : HMap K V) : HMap K V := []

/-- `std::collections::VecDeque<T>` (see the MAPPING-TABLE ASSUMPTION in the header): list, head = front -/
abbrev VecDeque (T : Type) : Type := List T

/-- `VecDeque::new()` -/
def vdNew {T : Type} : VecDeque T := []

/-- `q.push_back(x)` -/
def vdPushBack {T : Type} (q : VecDeque T) (x : T) : VecDeque T := q ++ [x]

/-- `q.pop_front()`: the new queue and the returned element (`None` = the queue was empty) -/
def vdPopFront {T : Type} : VecDeque T → VecDeque T × Option T
  | [] => ([], none)
  | x :: rest => (rest, some x)

/-- `q.len()` -/
def vdLen {T : Type} (q : VecDeque T) : Int := (q.length : Int)

/-- `q.clear()` -/
def vdClear {T : Type} (_ : VecDeque T) : VecDeque T := []

/-- `s.len()` of a `&str`: its length in UTF-8 BYTES (not chars) -/
def strLen (s : List Char) : Int := ((s.map Char.utf8Size).sum : Nat)

/-- `iter.sum::<T>()`: `fold(0, |a, b| a + b)` with the overflow check of `T` -/
def iterSum (t : Ty) (l : List Int) : Option Int := l.foldl (fun acc x => acc.bind fun a => chk t (a + x)) (some 0)

/-- the rest of `s` after its first `n` BYTES (UTF-8); `none` = `n` is beyond the end or inside a char -/
def strDropBytes : List Char → Nat → Option (List Char)
  | s, 0 => some s
  | [], _ + 1 => none
  | c :: cs, n + 1 => if c.utf8Size ≤ n + 1 then strDropBytes cs (n + 1 - c.utf8Size) else none

/-- the first `n` BYTES (UTF-8) of `s`; `none` = `n` is beyond the end or inside a char -/
def strTakeBytes : List Char → Nat → Option (List Char)
  | _, 0 => some []
  | [], _ + 1 => none
  | c :: cs, n + 1 => if c.utf8Size ≤ n + 1 then (strTakeBytes cs (n + 1 - c.utf8Size)).map (c :: ·) else none

/-- `&s[a..b]` of a `&str`: BYTE offsets; panics unless `a ≤ b ≤ s.len()` and both lie on char boundaries -/
def strSlice (s : List Char) (a b : Int) : Option (List Char) :=
  if 0 ≤ a ∧ a ≤ b then (strDropBytes s a.toNat).bind (fun r => strTakeBytes r (b - a).toNat) else none

/-- `o.map(f)` for an `f` that can panic: `f` only runs on `Some` -/
def optMapM {α β : Type} (f : α → Option β) : Option α → Option (Option β)
  | none => some none
  | some a => (f a).map some

/-- `s.split(sep)` for a `char` pattern, as the list of the pieces (n separators give n + 1 pieces) -/
def strSplit (sep : Char) : List Char → List (List Char)
  | [] => [[]]
  | c :: cs =>
    if c = sep then [] :: strSplit sep cs
    else match strSplit sep cs with
      | [] => [[c]]
      | p :: ps => (c :: p) :: ps

/-- `iter.enumerate()` continued at index `i` -/
def iterEnumerateFrom {α : Type} : Int → List α → List (Int × α)
  | _, [] => []
  | i, x :: xs => (i, x) :: iterEnumerateFrom (i + 1) xs

/-- `iter.enumerate()` (no overflow check: the index is bounded by the length of the list) -/
def iterEnumerate {α : Type} (l : List α) : List (Int × α) := iterEnumerateFrom 0 l

/-- `it.next()`: the item (a Rust `Option` VALUE) and the advanced iterator -/
def iterNext {α : Type} : List α → Option α × List α
  | [] => (none, [])
  | x :: xs => (some x, xs)

/-- `s.contains(c)` for a `char` pattern -/
def strContains (s : List Char) (c : Char) : Bool := s.contains c

/-- `c.is_uppercase()` (Unicode property `Uppercase`).  MAPPING-TABLE RESTRICTION: only ASCII is modelled (`'A'..='Z'`);
for a non-ASCII char the translation yields `none` (= outside the modelled domain; the theorems assume ASCII input, which
`FEN_REGEX` guarantees). -/
def charIsUppercase (c : Char) : Option Bool :=
  if c.toNat < 128 then some (decide (65 ≤ c.toNat ∧ c.toNat ≤ 90)) else none

/-- `c.to_ascii_lowercase()`: `'A'..='Z'` to lower case, everything else unchanged -/
def charToAsciiLowercase (c : Char) : Char := if 65 ≤ c.toNat ∧ c.toNat ≤ 90 then Char.ofNat (c.toNat + 32) else c

/-- drops one leading `+` -/
def stripPlus : List Char → List Char
  | '+' :: rest => rest
  | s => s

/-- `s.parse::<u32>()` as a Rust `Option`-like VALUE (`none` = `Err(ParseIntError)`).  MAPPING-TABLE ASSUMPTION
(`core::num::from_str_radix` for an unsigned type, radix 10): one optional leading `+`, then at least one ASCII digit and
nothing else, value at most `u32::MAX`. -/
def parseU32 (s : List Char) : Option Int :=
  let ds := stripPlus s
  if ds.isEmpty || !ds.all isAsciiDigit then none
  else
    let v : Nat := ds.foldl (fun acc c => 10 * acc + (c.toNat - 48)) 0
    if v ≤ 4294967295 then some (v : Int) else none

/-- `assert!(b)` / `assert_eq!(a, b)`: `none` = the assertion fails (panic) -/
def rsAssert (b : Bool) : Option Unit := if b then some () else none

/-- `char::from_digit(d, 10)`: a Rust `Option` VALUE -/
def fromDigit10 (d : Int) : Option Char := if 0 ≤ d ∧ d < 10 then some (Char.ofNat (48 + d.toNat)) else none

/-- `n.to_string()` of an unsigned integer: decimal digits without sign or padding -/
def uintToString (n : Int) : List Char := (Nat.repr n.toNat).toList

/-- `r.is_err()` -/
def resIsErr {ε α : Type} : Except ε α → Bool
  | .error _ => true
  | .ok _ => false

/-- `r.unwrap()` of a `Result`: `none` = `Err` (panic) -/
def resUnwrap {ε α : Type} : Except ε α → Option α
  | .error _ => none
  | .ok a => some a

/-- `r.is_ok()` -/
def resIsOk {ε α : Type} : Except ε α → Bool
  | .error _ => false
  | .ok _ => true

/-- `iter.map(f).find(p)` for an `f` that can panic: iterator adaptors are LAZY, `f` runs on the items in order until the
first result satisfying `p` (later items are not evaluated); `none` = `f` panicked on an item that was reached -/
def iterMapFind {α β : Type} (f : α → Option β) (p : β → Bool) : List α → Option (Option β)
  | [] => some none
  | x :: xs => (f x).bind (fun y => if p y then some (some y) else iterMapFind f p xs)

end Inkayaku.Rs
