/-
GENERATED FILE — do not edit.  Regenerated from the CURRENT Rust sources by /verif/translator:
    rs2lean <repo root> <out dir>
Module `Legal`.  Semantics of the translation: see the header of `Prelude.lean`.
Rust sources: board/src/board.rs
-/
import Inkayaku.Gen.Rs.Prelude
import Inkayaku.Gen.Rs.Check
import Inkayaku.Gen.Rs.MakeUnmake

set_option linter.unusedVariables false

namespace Inkayaku.Rs

/-- `fn is_move_legal(&mut self, mv: Move) -> bool` in `impl Bitboard` (board/src/board.rs:1117).
* `white` = field `self.white: PlayerState`
* `black` = field `self.black: PlayerState`
* `turn` = field `self.turn: u32`
* `en_passant_square_shift` = field `self.en_passant_square_shift: u32`
* `fullmove_clock` = field `self.fullmove_clock: u32`
* `halfmove_clock` = field `self.halfmove_clock: u32`
* `mv_bits` = field `mv.bits: u64`
* `ROOK_MAGICS_get_attacks` = OPAQUE associated function `Self::ROOK_MAGICS_get_attacks`
* `BISHOP_MAGICS_get_attacks` = OPAQUE associated function `Self::BISHOP_MAGICS_get_attacks`
* `KNIGHT_NONMAGICS_get_attacks` = OPAQUE associated function `Self::KNIGHT_NONMAGICS_get_attacks`
* `WHITE_PAWN_NONMAGICS_get_attacks` = OPAQUE associated function `Self::WHITE_PAWN_NONMAGICS_get_attacks`
* `BLACK_PAWN_NONMAGICS_get_attacks` = OPAQUE associated function `Self::BLACK_PAWN_NONMAGICS_get_attacks`
* `KING_NONMAGICS_get_attacks` = OPAQUE associated function `Self::KING_NONMAGICS_get_attacks`
Result: the returned value and the new value of `self.white`, `self.black`, `self.turn`, `self.en_passant_square_shift`, `self.fullmove_clock`, `self.halfmove_clock`.
`none` = panic (or out of fuel). -/
def Bitboard.is_move_legal (white : Inkayaku.Rs.PlayerState) (black : Inkayaku.Rs.PlayerState) (turn : Int) (en_passant_square_shift : Int) (fullmove_clock : Int) (halfmove_clock : Int) (mv_bits : UInt64) (ROOK_MAGICS_get_attacks : Int → UInt64 → UInt64) (BISHOP_MAGICS_get_attacks : Int → UInt64 → UInt64) (KNIGHT_NONMAGICS_get_attacks : Int → UInt64) (WHITE_PAWN_NONMAGICS_get_attacks : Int → UInt64) (BLACK_PAWN_NONMAGICS_get_attacks : Int → UInt64) (KING_NONMAGICS_get_attacks : Int → UInt64) : Option (Bool × Inkayaku.Rs.PlayerState × Inkayaku.Rs.PlayerState × Int × Int × Int × Int) := do
  let (white, black, turn, en_passant_square_shift, fullmove_clock, halfmove_clock) ← Bitboard.make white black turn en_passant_square_shift fullmove_clock halfmove_clock mv_bits
  let result : Bool ← Bitboard.is_valid white black turn ROOK_MAGICS_get_attacks BISHOP_MAGICS_get_attacks KNIGHT_NONMAGICS_get_attacks WHITE_PAWN_NONMAGICS_get_attacks BLACK_PAWN_NONMAGICS_get_attacks KING_NONMAGICS_get_attacks
  let (white, black, turn, en_passant_square_shift, fullmove_clock, halfmove_clock) ← Bitboard.unmake white black turn en_passant_square_shift fullmove_clock halfmove_clock mv_bits
  pure (result, white, black, turn, en_passant_square_shift, fullmove_clock, halfmove_clock)

end Inkayaku.Rs
