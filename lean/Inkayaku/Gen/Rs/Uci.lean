/-
GENERATED FILE — do not edit.  Regenerated from the CURRENT Rust sources by /verif/translator:
    rs2lean <repo root> <out dir>
Module `Uci`.  Semantics of the translation: see the header of `Prelude.lean`.
Rust sources: uci/src/uci.rs
-/
import Inkayaku.Gen.Rs.Prelude

set_option linter.unusedVariables false

namespace Inkayaku.Rs

/-- `enum Bound` (uci/src/uci.rs:120) -/
inductive Bound where
  | LOWER
  | UPPER
deriving DecidableEq, Repr

/-- `enum Score` (uci/src/uci.rs:217) -/
inductive Score where
  | Centipawn (score : Int)
  | CentipawnBounded (score : Int) (bound : Inkayaku.Rs.Bound)
  | Mate (mate_in : Int)
deriving DecidableEq, Repr

end Inkayaku.Rs
