/-
GENERATED FILE — do not edit.  Regenerated from the CURRENT Rust sources by /verif/translator:
    rs2lean <repo root> <out dir>
Module `ZobristHistory`.  Semantics of the translation: see the header of `Prelude.lean`.
Rust sources: engine_core/src/engine/zobrist_history.rs
-/
import Inkayaku.Gen.Rs.Prelude

set_option linter.unusedVariables false

namespace Inkayaku.Rs

/-- `while` loop of `count_repetitions` (engine_core/src/engine/zobrist_history.rs:27).  Reads: history : Vec<u64>, zobrist : u64, min_index : i32.  State: current_index : i32, repetitions : usize.  `none` = panic or out of fuel; `Ctl.ret r` = the function returned `r` from inside the loop, `Ctl.next s` = the loop ended. -/
def ZobristHistory.count_repetitions.while_1 (history : Nat → Int) (zobrist : Int) (min_index : Int) : Nat → Int → Int → Option (Ctl Int (Int × Int))
  | 0, _, _ => none
  | fuel + 1, current_index, repetitions =>
    if current_index ≥ min_index then do
      let current_zobrist : Int := history (cast .usize current_index).toNat
      if current_zobrist = zobrist then do
        let repetitions : Int ← chk .usize (repetitions + 1)
        if repetitions ≥ 3 then do
          pure (Ctl.ret 3)
        else do
          let current_index : Int ← chk .i32 (current_index - 2)
          ZobristHistory.count_repetitions.while_1 history zobrist min_index fuel current_index repetitions
      else do
        let current_index : Int ← chk .i32 (current_index - 2)
        ZobristHistory.count_repetitions.while_1 history zobrist min_index fuel current_index repetitions
    else pure (Ctl.next (current_index, repetitions))

/-- `fn count_repetitions(&self, start_index: u16, halfmove_clock: u16) -> usize` in `impl ZobristHistory` (engine_core/src/engine/zobrist_history.rs:16).
* `history` = field `self.history: Vec<u64>`
* `start_index` = parameter `start_index: u16`
* `halfmove_clock` = parameter `halfmove_clock: u16`
* `fuel` = loop fuel (one unit per loop iteration)
`none` = panic (or out of fuel). -/
def ZobristHistory.count_repetitions (history : Nat → Int) (start_index : Int) (halfmove_clock : Int) (fuel : Nat) : Option Int := do
  if start_index < 4 then do
    pure 0
  else do
    let current_index : Int ← chk .i32 ((cast .i32 start_index) - 4)
    let repetitions : Int := 1
    let zobrist : Int := history (cast .usize start_index).toNat
    let min_index : Int := max 0 (← chk .i32 ((cast .i32 start_index) - (cast .i32 halfmove_clock)))
    match (← ZobristHistory.count_repetitions.while_1 history zobrist min_index fuel current_index repetitions) with
    | Ctl.ret r => pure r
    | Ctl.next (current_index, repetitions) => do
      pure repetitions

end Inkayaku.Rs
