/-
GENERATED FILE — do not edit.  Regenerated from the CURRENT Rust sources by /verif/translator:
    rs2lean <repo root> <out dir>
Module `FenFromStr`.  Semantics of the translation: see the header of `Prelude.lean`.
Rust sources: core/src/fen.rs
-/
import Inkayaku.Gen.Rs.Prelude
import Inkayaku.Gen.Rs.Fen
import Inkayaku.Gen.Rs.FenText

set_option linter.unusedVariables false

namespace Inkayaku.Rs

/-- `fn validate_ranks(ranks: &str) -> Result<(), FenParseError>` in `impl Fen` (core/src/fen.rs:83).
* `ranks` = parameter `ranks: str`
* `fuel` = loop fuel (one unit per loop iteration)
`none` = panic (or out of fuel). -/
def Fen.validate_ranks (ranks : List Char) (fuel : Nat) : Option (Except Inkayaku.Rs.FenParseError Unit) := do
  pure ((← iterMapFind (fun x_1 => Fen.validate_rank x_1 fuel) resIsErr (strSplit '/' ranks)).getD (Except.ok ()))

/-- `for` loop of `from_str` over a list (core/src/fen.rs:131), by structural recursion on the list.  Reads: s : str, Captures_get : CapturesT → Int → Option MatchT, Match_range : MatchT → (Int × Int), fen : str, captures : CapturesT.  State: none.  `none` = panic; `Ctl.ret r` = the function returned (`r` = its complete result) from inside the loop, `Ctl.next s` = the loop ended. -/
def Fen.from_str.for_1 (s : List Char) (Captures_get : CapturesT → Int → Option MatchT) (Match_range : MatchT → (Int × Int)) (fen : List Char) (captures : CapturesT) : (List Int) → Option (Ctl (Except Inkayaku.Rs.FenParseError Inkayaku.Rs.Fen) (Unit))
  | [] => pure (Ctl.next ())
  | clock_group :: rest_1 => do
    match ((Captures_get captures clock_group).map (fun m => (Match_range m))) with
    | some range => do
      if (parseU32 (← strSlice fen range.1 range.2)).isNone then do
        pure (Ctl.ret (Except.error (FenParseError.InvalidCapture s)))
      else do
        Fen.from_str.for_1 s Captures_get Match_range fen captures rest_1
    | none => do
      Fen.from_str.for_1 s Captures_get Match_range fen captures rest_1

/-- `fn from_str(s: &str) -> Result<Self, Self:: Err>` in `impl FromStr for Fen` (core/src/fen.rs:113).
* `s` = parameter `s: str`
* `Self_default` = OPAQUE associated function `Self::default`
* `parse` = OPAQUE associated function `Self::parse`
* `Captures_get` = OPAQUE associated function `Self::Captures_get`
* `Match_range` = OPAQUE associated function `Self::Match_range`
* `fuel` = loop fuel (one unit per loop iteration)
`none` = panic (or out of fuel). -/
def Fen.from_str {CapturesT : Type} {MatchT : Type} (s : List Char) (Self_default : Inkayaku.Rs.Fen) (parse : (List Char) → Except Inkayaku.Rs.FenParseError CapturesT) (Captures_get : CapturesT → Int → Option MatchT) (Match_range : MatchT → (Int × Int)) (fuel : Nat) : Option (Except Inkayaku.Rs.FenParseError Inkayaku.Rs.Fen) := do
  if s = ['s', 't', 'a', 'r', 't', 'p', 'o', 's'] then do
    pure (Except.ok Self_default)
  else do
    let fen : List Char := s
    let temp_fen : List Char := fen
    match parse temp_fen with
    | Except.error err => pure (Except.error err)
    | Except.ok captures => do
      match (← Fen.validate_ranks (← (← optMapM (fun range => (strSlice fen range.1 range.2)) (((Captures_get captures 1).map (fun m => (Match_range m)))))) fuel) with
      | Except.error err => pure (Except.error err)
      | Except.ok _ => do
        match (← Fen.from_str.for_1 s Captures_get Match_range fen captures [5, 6]) with
        | Ctl.ret r => pure r
        | Ctl.next () => do
          pure (Except.ok ({ fen := fen, piece_placement := (← (((Captures_get captures 1).map (fun m => (Match_range m))))), active_color := (← (((Captures_get captures 2).map (fun m => (Match_range m))))), castling_availability := (← (((Captures_get captures 3).map (fun m => (Match_range m))))), en_passant_target_square := (← (((Captures_get captures 4).map (fun m => (Match_range m))))), halfmove_clock := ((Captures_get captures 5).map (fun m => (Match_range m))), fullmove_clock := ((Captures_get captures 6).map (fun m => (Match_range m))) } : Inkayaku.Rs.Fen))

end Inkayaku.Rs
