/-
GENERATED FILE — do not edit.  Regenerated from the CURRENT Rust sources by /verif/translator:
    rs2lean <repo root> <out dir>
Module `Simple`.  Semantics of the translation: see the header of `Prelude.lean`.
Rust sources: engine_core/src/engine/heuristic/simple.rs, board/src/board/constants.rs
-/
import Inkayaku.Gen.Rs.Prelude
import Inkayaku.Gen.Rs.Check
import Inkayaku.Gen.Rs.Generate
import Inkayaku.Gen.Rs.MoveBits

set_option linter.unusedVariables false

namespace Inkayaku.Rs

/-- `const QUEEN_VALUE: u32 = 900` (engine_core/src/engine/heuristic/simple.rs:7) -/
def QUEEN_VALUE : Int := 900

/-- `const ROOK_VALUE: u32 = 500` (engine_core/src/engine/heuristic/simple.rs:8) -/
def ROOK_VALUE : Int := 500

/-- `const BISHOP_VALUE: u32 = 330` (engine_core/src/engine/heuristic/simple.rs:9) -/
def BISHOP_VALUE : Int := 330

/-- `const KNIGHT_VALUE: u32 = 320` (engine_core/src/engine/heuristic/simple.rs:10) -/
def KNIGHT_VALUE : Int := 320

/-- `const PAWN_VALUE: u32 = 100` (engine_core/src/engine/heuristic/simple.rs:11) -/
def PAWN_VALUE : Int := 100

/-- `const MID: usize = 1` (board/src/board/constants.rs:58) -/
def MID : Int := 1

/-- `const LATE: usize = 2` (board/src/board/constants.rs:59) -/
def LATE : Int := 2

/-- `const fn piece_value(state: &PlayerState) -> i32` in `impl SimpleHeuristic` (engine_core/src/engine/heuristic/simple.rs:106).
* `state` = parameter `state: PlayerState`
`none` = panic (or out of fuel). -/
def SimpleHeuristic.piece_value (state : Inkayaku.Rs.PlayerState) : Option Int := do
  pure (cast .i32 (← chk .u32 ((← chk .u32 ((← chk .u32 ((← chk .u32 ((← chk .u32 ((u64Popcnt (← PlayerState.queens state.occupancy)) * QUEEN_VALUE)) + (← chk .u32 ((u64Popcnt (← PlayerState.rooks state.occupancy)) * ROOK_VALUE)))) + (← chk .u32 ((u64Popcnt (← PlayerState.bishops state.occupancy)) * BISHOP_VALUE)))) + (← chk .u32 ((u64Popcnt (← PlayerState.knights state.occupancy)) * KNIGHT_VALUE)))) + (← chk .u32 ((u64Popcnt (← PlayerState.pawns state.occupancy)) * PAWN_VALUE)))))

/-- `const fn game_stage(board: &Bitboard) -> GameStageBits` in `impl SimpleHeuristic` (engine_core/src/engine/heuristic/simple.rs:114).
* `board_white` = field `board.white: PlayerState`
* `board_black` = field `board.black: PlayerState`
`none` = panic (or out of fuel). -/
def SimpleHeuristic.game_stage (board_white : Inkayaku.Rs.PlayerState) (board_black : Inkayaku.Rs.PlayerState) : Option Int := do
  let white_has_queens : Bool := decide ((← PlayerState.queens board_white.occupancy) ≠ (0 : UInt64))
  let black_has_queens : Bool := decide ((← PlayerState.queens board_black.occupancy) ≠ (0 : UInt64))
  let white_has_one_or_fewer_minor_pieces : Bool := decide ((u64Popcnt ((← PlayerState.knights board_white.occupancy) ||| (← PlayerState.bishops board_white.occupancy))) ≤ 1)
  let black_has_one_or_fewer_minor_pieces : Bool := decide ((u64Popcnt ((← PlayerState.knights board_black.occupancy) ||| (← PlayerState.bishops board_black.occupancy))) ≤ 1)
  let white_has_queens_but_one_or_fewer_minor_pieces : Bool := white_has_queens && white_has_one_or_fewer_minor_pieces
  let black_has_queens_but_one_or_fewer_minor_pieces : Bool := black_has_queens && black_has_one_or_fewer_minor_pieces
  if ((((!white_has_queens) && (!black_has_queens)) || (white_has_queens_but_one_or_fewer_minor_pieces && (!black_has_queens))) || (black_has_queens_but_one_or_fewer_minor_pieces && (!white_has_queens))) || (white_has_one_or_fewer_minor_pieces && black_has_one_or_fewer_minor_pieces) then do
    pure LATE
  else do
    pure MID

/-- `while` loop of `piece_square_sum` (engine_core/src/engine/heuristic/simple.rs:156).  Reads: values : Vec<i32>.  State: occupancy : u64, sum : i32.  `none` = panic or out of fuel. -/
def SimpleHeuristic.piece_square_sum.while_1 (values : List Int) : Nat → UInt64 → Int → Option (UInt64 × Int)
  | 0, _, _ => none
  | fuel + 1, occupancy, sum =>
    if occupancy ≠ (0 : UInt64) then do
      let (mask, shift) ← mask_and_shift_from_lowest_one_bit occupancy
      let occupancy : UInt64 := occupancy &&& (~~~mask)
      let sum : Int ← chk .i32 (sum + (← vecIdx values (cast .usize shift)))
      SimpleHeuristic.piece_square_sum.while_1 values fuel occupancy sum
    else pure (occupancy, sum)

/-- `const fn piece_square_sum(mut occupancy: OccupancyBits, values: &[i32 ; 64]) -> i32` in `impl SimpleHeuristic` (engine_core/src/engine/heuristic/simple.rs:153).
* `occupancy` = parameter `occupancy: u64`
* `values` = parameter `values: Vec<i32>`
* `fuel` = loop fuel (one unit per loop iteration)
`none` = panic (or out of fuel). -/
def SimpleHeuristic.piece_square_sum (occupancy : UInt64) (values : List Int) (fuel : Nat) : Option Int := do
  let sum : Int := 0
  let (occupancy, sum) ← SimpleHeuristic.piece_square_sum.while_1 values fuel occupancy sum
  pure sum

/-- `const fn piece_square_sum_for_player(player: &PlayerState, tables: &[[i32 ; 64] ; 6]) -> i32` in `impl SimpleHeuristic` (engine_core/src/engine/heuristic/simple.rs:144).
* `player` = parameter `player: PlayerState`
* `tables` = parameter `tables: Vec<Vec<i32>>`
* `fuel` = loop fuel (one unit per loop iteration)
`none` = panic (or out of fuel). -/
def SimpleHeuristic.piece_square_sum_for_player (player : Inkayaku.Rs.PlayerState) (tables : List (List Int)) (fuel : Nat) : Option Int := do
  chk .i32 ((← chk .i32 ((← chk .i32 ((← chk .i32 ((← chk .i32 ((← SimpleHeuristic.piece_square_sum (← PlayerState.pawns player.occupancy) (← vecIdx tables (← chk .usize ((cast .usize (u64ToInt PAWN)) - 1))) fuel) + (← SimpleHeuristic.piece_square_sum (← PlayerState.knights player.occupancy) (← vecIdx tables (← chk .usize ((cast .usize (u64ToInt KNIGHT)) - 1))) fuel))) + (← SimpleHeuristic.piece_square_sum (← PlayerState.bishops player.occupancy) (← vecIdx tables (← chk .usize ((cast .usize (u64ToInt BISHOP)) - 1))) fuel))) + (← SimpleHeuristic.piece_square_sum (← PlayerState.rooks player.occupancy) (← vecIdx tables (← chk .usize ((cast .usize (u64ToInt ROOK)) - 1))) fuel))) + (← SimpleHeuristic.piece_square_sum (← PlayerState.queens player.occupancy) (← vecIdx tables (← chk .usize ((cast .usize (u64ToInt QUEEN)) - 1))) fuel))) + (← SimpleHeuristic.piece_square_sum (← PlayerState.kings player.occupancy) (← vecIdx tables (← chk .usize ((cast .usize (u64ToInt KING)) - 1))) fuel))

/-- `const fn piece_square_value(board: &Bitboard) -> i32` in `impl SimpleHeuristic` (engine_core/src/engine/heuristic/simple.rs:135).
* `board_white` = field `board.white: PlayerState`
* `board_black` = field `board.black: PlayerState`
* `WHITE_TABLES` = OPAQUE associated function `Self::WHITE_TABLES`
* `BLACK_TABLES` = OPAQUE associated function `Self::BLACK_TABLES`
* `fuel` = loop fuel (one unit per loop iteration)
`none` = panic (or out of fuel). -/
def SimpleHeuristic.piece_square_value (board_white : Inkayaku.Rs.PlayerState) (board_black : Inkayaku.Rs.PlayerState) (WHITE_TABLES : List (List (List Int))) (BLACK_TABLES : List (List (List Int))) (fuel : Nat) : Option Int := do
  let stage : Int ← SimpleHeuristic.game_stage board_white board_black
  let white_sum : Int ← SimpleHeuristic.piece_square_sum_for_player board_white (← vecIdx WHITE_TABLES stage) fuel
  let black_sum : Int ← SimpleHeuristic.piece_square_sum_for_player board_black (← vecIdx BLACK_TABLES stage) fuel
  chk .i32 (white_sum + black_sum)

/-- `fn evaluate_ongoing(&self, bitboard: &Bitboard, _: ZobristHash) -> i32` in `impl Heuristic for SimpleHeuristic` (engine_core/src/engine/heuristic/simple.rs:167).
* `bitboard_white` = field `bitboard.white: PlayerState`
* `bitboard_black` = field `bitboard.black: PlayerState`
* `_arg2` = parameter `_arg2: u64`
* `WHITE_TABLES` = OPAQUE associated function `Self::WHITE_TABLES`
* `BLACK_TABLES` = OPAQUE associated function `Self::BLACK_TABLES`
* `fuel` = loop fuel (one unit per loop iteration)
`none` = panic (or out of fuel). -/
def SimpleHeuristic.evaluate_ongoing (bitboard_white : Inkayaku.Rs.PlayerState) (bitboard_black : Inkayaku.Rs.PlayerState) (_arg2 : UInt64) (WHITE_TABLES : List (List (List Int))) (BLACK_TABLES : List (List (List Int))) (fuel : Nat) : Option Int := do
  let my_sum : Int ← SimpleHeuristic.piece_value bitboard_white
  let their_sum : Int ← SimpleHeuristic.piece_value bitboard_black
  let psv : Int ← SimpleHeuristic.piece_square_value bitboard_white bitboard_black WHITE_TABLES BLACK_TABLES fuel
  chk .i32 ((← chk .i32 (my_sum - their_sum)) + psv)

end Inkayaku.Rs
