/-
GENERATED FILE — do not edit.  Regenerated from the CURRENT Rust sources by /verif/translator:
    rs2lean <repo root> <out dir>
Module `Table`.  Semantics of the translation: see the header of `Prelude.lean`.
Rust sources: engine_core/src/engine/table.rs
-/
import Inkayaku.Gen.Rs.Prelude

set_option linter.unusedVariables false

namespace Inkayaku.Rs

/-- `fn new(capacity: usize) -> Self` in `impl HashTable` (engine_core/src/engine/table.rs:16).
* `capacity` = parameter `capacity: usize`
Result: the fields of the new `HashTable`: `capacity`, `entry_list`, `entry_map`.
`none` = panic (or out of fuel). -/
def HashTable.new {V : Type} (capacity : Int) : Option (Int × (VecDeque Int) × (HMap Int V)) := do
  let map : HMap _ _ := hmNew
  pure (capacity, vdNew, map)

/-- `fn clear(&mut self)` in `impl HashTable` (engine_core/src/engine/table.rs:21).
* `entry_list` = field `self.entry_list: VecDeque<u64>`
* `entry_map` = field `self.entry_map: HashMap<u64, V>`
Result: the new value of `self.entry_list`, `self.entry_map`.
`none` = panic (or out of fuel). -/
def HashTable.clear {V : Type} (entry_list : VecDeque Int) (entry_map : HMap Int V) : Option ((VecDeque Int) × (HMap Int V)) := do
  let entry_list := vdClear entry_list
  let entry_map := hmClear entry_map
  pure (entry_list, entry_map)

/-- `fn put(&mut self, key: ZobristHash, value: V)` in `impl HashTable` (engine_core/src/engine/table.rs:27).
* `capacity` = field `self.capacity: usize`
* `entry_list` = field `self.entry_list: VecDeque<u64>`
* `entry_map` = field `self.entry_map: HashMap<u64, V>`
* `key` = parameter `key: u64`
* `value` = parameter `value: V`
Result: the new value of `self.entry_list`, `self.entry_map`.
`none` = panic (or out of fuel). -/
def HashTable.put {V : Type} (capacity : Int) (entry_list : VecDeque Int) (entry_map : HMap Int V) (key : Int) (value : V) : Option ((VecDeque Int) × (HMap Int V)) := do
  let (entry_list, entry_map) ← (do
    let (entry_map, r_1) := hmInsert entry_map key value
    if r_1.isNone then do
      let entry_list := vdPushBack entry_list key
      pure (entry_list, entry_map)
    else do
      pure (entry_list, entry_map))
  if (hmLen entry_map) > capacity then do
    let (entry_list, r_2) := vdPopFront entry_list
    let remove_key : Int ← r_2
    let (entry_map, _) := hmRemove entry_map remove_key
    pure (entry_list, entry_map)
  else do
    pure (entry_list, entry_map)

/-- `fn get(&self, key: ZobristHash) -> Option<&V>` in `impl HashTable` (engine_core/src/engine/table.rs:37).
* `entry_map` = field `self.entry_map: HashMap<u64, V>`
* `key` = parameter `key: u64`
`none` = panic (or out of fuel). -/
def HashTable.get {V : Type} (entry_map : HMap Int V) (key : Int) : Option (Option V) := do
  pure (hmGet entry_map key)

/-- `fn len(&self) -> usize` in `impl HashTable` (engine_core/src/engine/table.rs:41).
* `entry_map` = field `self.entry_map: HashMap<u64, V>`
`none` = panic (or out of fuel). -/
def HashTable.len {V : Type} (entry_map : HMap Int V) : Option Int := do
  pure (hmLen entry_map)

end Inkayaku.Rs
