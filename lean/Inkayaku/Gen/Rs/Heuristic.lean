/-
GENERATED FILE — do not edit.  Regenerated from the CURRENT Rust sources by /verif/translator:
    rs2lean <repo root> <out dir>
Module `Heuristic`.  Semantics of the translation: see the header of `Prelude.lean`.
Rust sources: engine_core/src/engine/heuristic.rs, engine_core/src/engine/heuristic/simple.rs
-/
import Inkayaku.Gen.Rs.Prelude
import Inkayaku.Gen.Rs.Board
import Inkayaku.Gen.Rs.Uci

set_option linter.unusedVariables false

namespace Inkayaku.Rs

/-- `const MAX_FULL_MOVES: i32 = 1 << 20` (engine_core/src/engine/heuristic.rs:10); `none` would be a compile-time overflow -/
def Heuristic.MAX_FULL_MOVES : Option Int := (shl .i32 1 20)

/-- `const MAX_HALF_MOVES: u32 = 100` (engine_core/src/engine/heuristic.rs:11) -/
def Heuristic.MAX_HALF_MOVES : Int := 100

/-- `fn win_score(&self) -> i32` in `trait Heuristic` (engine_core/src/engine/heuristic.rs:13).
`none` = panic (or out of fuel). -/
def Heuristic.win_score : Option Int := do
  shl .i32 1 24

/-- `fn loss_score(&self) -> i32` in `trait Heuristic` (engine_core/src/engine/heuristic.rs:15).
`none` = panic (or out of fuel). -/
def Heuristic.loss_score : Option Int := do
  chk .i32 (-(← Heuristic.win_score))

/-- `fn draw_score(&self) -> i32` in `trait Heuristic` (engine_core/src/engine/heuristic.rs:17).
`none` = panic (or out of fuel). -/
def Heuristic.draw_score : Option Int := do
  pure 0

/-- `fn is_checkmate(&self, value: i32) -> bool` in `trait Heuristic` (engine_core/src/engine/heuristic.rs:19).
* `value` = parameter `value: i32`
`none` = panic (or out of fuel). -/
def Heuristic.is_checkmate (value : Int) : Option Bool := do
  (if value > (← chk .i32 ((← Heuristic.win_score) - (← Heuristic.MAX_FULL_MOVES))) then pure true else (do pure (decide (value < (← chk .i32 ((← Heuristic.loss_score) + (← Heuristic.MAX_FULL_MOVES)))))))

/-- `fn evaluate(&self, bitboard: &Bitboard, zobrist_pawn_hash: ZobristHash, legal_moves_remaining: bool) -> i32` in `trait Heuristic` (engine_core/src/engine/heuristic.rs:22).
* `evaluate_ongoing` = OPAQUE result of `self.evaluate_ongoing(..)`: i32
* `bitboard_turn` = field `bitboard.turn: u32`
* `bitboard_fullmove_clock` = field `bitboard.fullmove_clock: u32`
* `bitboard_halfmove_clock` = field `bitboard.halfmove_clock: u32`
* `bitboard_is_current_in_check` = OPAQUE result of `bitboard.is_current_in_check(..)`: bool
* `zobrist_pawn_hash` = parameter `zobrist_pawn_hash: u64`
* `legal_moves_remaining` = parameter `legal_moves_remaining: bool`
`none` = panic (or out of fuel). -/
def Heuristic.evaluate (evaluate_ongoing : Int) (bitboard_turn : Int) (bitboard_fullmove_clock : Int) (bitboard_halfmove_clock : Int) (bitboard_is_current_in_check : Bool) (zobrist_pawn_hash : Int) (legal_moves_remaining : Bool) : Option Int := do
  if legal_moves_remaining then do
    if bitboard_halfmove_clock ≥ Heuristic.MAX_HALF_MOVES then do
      Heuristic.draw_score
    else do
      pure evaluate_ongoing
  else do
    if (bitboard_is_current_in_check = true) ∧ (bitboard_turn = WHITE) then do
      chk .i32 ((← Heuristic.loss_score) + (cast .i32 bitboard_fullmove_clock))
    else do
      if (bitboard_is_current_in_check = true) ∧ (bitboard_turn = BLACK) then do
        chk .i32 ((← Heuristic.win_score) - (cast .i32 bitboard_fullmove_clock))
      else do
        Heuristic.draw_score

/-- `fn score_from_value(&self, value: i32, bitboard: &Bitboard) -> Score` in `trait Heuristic` (engine_core/src/engine/heuristic.rs:37).
* `value` = parameter `value: i32`
* `bitboard_turn` = field `bitboard.turn: u32`
* `bitboard_fullmove_clock` = field `bitboard.fullmove_clock: u32`
`none` = panic (or out of fuel). -/
def Heuristic.score_from_value (value : Int) (bitboard_turn : Int) (bitboard_fullmove_clock : Int) : Option Inkayaku.Rs.Score := do
  if (← abs .i32 value) > (← div .i32 (← Heuristic.win_score) 2) then do
    let offset : Int := ofBool ((decide (value > 0)) && (decide (bitboard_turn = WHITE)))
    let mate_in : Int ← chk .i32 ((← chk .i32 ((← chk .i32 ((← chk .i32 ((← Heuristic.win_score) - (← abs .i32 value))) - (cast .i32 bitboard_fullmove_clock))) + offset)) * (signum value))
    pure (Score.Mate mate_in)
  else do
    pure (Score.Centipawn value)

end Inkayaku.Rs
