/-
GENERATED FILE — do not edit.  Regenerated from the CURRENT Rust sources by /verif/translator:
    rs2lean <repo root> <out dir>
Module `MoveBits`.  Semantics of the translation: see the header of `Prelude.lean`.
Rust sources: board/src/board/constants.rs, board/src/board.rs
-/
import Inkayaku.Gen.Rs.Prelude

set_option linter.unusedVariables false

namespace Inkayaku.Rs

/-- `const NO_PIECE: u64 = 0` (board/src/board/constants.rs:61) -/
def NO_PIECE : UInt64 := (0 : UInt64)

/-- `const PAWN: u64 = 1` (board/src/board/constants.rs:62) -/
def PAWN : UInt64 := (1 : UInt64)

/-- `const KNIGHT: u64 = 2` (board/src/board/constants.rs:63) -/
def KNIGHT : UInt64 := (2 : UInt64)

/-- `const BISHOP: u64 = 3` (board/src/board/constants.rs:64) -/
def BISHOP : UInt64 := (3 : UInt64)

/-- `const ROOK: u64 = 4` (board/src/board/constants.rs:65) -/
def ROOK : UInt64 := (4 : UInt64)

/-- `const QUEEN: u64 = 5` (board/src/board/constants.rs:66) -/
def QUEEN : UInt64 := (5 : UInt64)

/-- `const KING: u64 = 6` (board/src/board/constants.rs:67) -/
def KING : UInt64 := (6 : UInt64)

/-- `const PIECE_MOVED_MASK: u64 = 0b111` (board/src/board/constants.rs:69) -/
def PIECE_MOVED_MASK : UInt64 := (7 : UInt64)

/-- `const PIECE_ATTACKED_MASK: u64 = 0b111000` (board/src/board/constants.rs:70) -/
def PIECE_ATTACKED_MASK : UInt64 := (56 : UInt64)

/-- `const SELF_LOST_KING_SIDE_CASTLE_MASK: u64 = 0b1000000` (board/src/board/constants.rs:71) -/
def SELF_LOST_KING_SIDE_CASTLE_MASK : UInt64 := (64 : UInt64)

/-- `const SELF_LOST_QUEEN_SIDE_CASTLE_MASK: u64 = 0b10000000` (board/src/board/constants.rs:72) -/
def SELF_LOST_QUEEN_SIDE_CASTLE_MASK : UInt64 := (128 : UInt64)

/-- `const OPPONENT_LOST_KING_SIDE_CASTLE_MASK: u64 = 0b100000000` (board/src/board/constants.rs:73) -/
def OPPONENT_LOST_KING_SIDE_CASTLE_MASK : UInt64 := (256 : UInt64)

/-- `const OPPONENT_LOST_QUEEN_SIDE_CASTLE_MASK: u64 = 0b1000000000` (board/src/board/constants.rs:74) -/
def OPPONENT_LOST_QUEEN_SIDE_CASTLE_MASK : UInt64 := (512 : UInt64)

/-- `const CASTLE_MOVE_MASK: u64 = 0b10000000000` (board/src/board/constants.rs:75) -/
def CASTLE_MOVE_MASK : UInt64 := (1024 : UInt64)

/-- `const EN_PASSANT_ATTACK_MASK: u64 = 0b100000000000` (board/src/board/constants.rs:76) -/
def EN_PASSANT_ATTACK_MASK : UInt64 := (2048 : UInt64)

/-- `const SOURCE_SQUARE_MASK: u64 = 0b111111000000000000` (board/src/board/constants.rs:77) -/
def SOURCE_SQUARE_MASK : UInt64 := (258048 : UInt64)

/-- `const TARGET_SQUARE_MASK: u64 = 0b111111000000000000000000` (board/src/board/constants.rs:78) -/
def TARGET_SQUARE_MASK : UInt64 := (16515072 : UInt64)

/-- `const HALFMOVE_RESET_MASK: u64 = 0b1000000000000000000000000` (board/src/board/constants.rs:79) -/
def HALFMOVE_RESET_MASK : UInt64 := (16777216 : UInt64)

/-- `const PREVIOUS_HALFMOVE_MASK: u64 = 0b1111111111110000000000000000000000000` (board/src/board/constants.rs:80) -/
def PREVIOUS_HALFMOVE_MASK : UInt64 := (137405399040 : UInt64)

/-- `const PREVIOUS_EN_PASSANT_SQUARE_MASK: u64 = 0b1111110000000000000000000000000000000000000` (board/src/board/constants.rs:81) -/
def PREVIOUS_EN_PASSANT_SQUARE_MASK : UInt64 := (8658654068736 : UInt64)

/-- `const NEXT_EN_PASSANT_SQUARE_MASK: u64 = 0b1111110000000000000000000000000000000000000000000` (board/src/board/constants.rs:82) -/
def NEXT_EN_PASSANT_SQUARE_MASK : UInt64 := (554153860399104 : UInt64)

/-- `const PROMOTION_PIECE_MASK: u64 = 0b1110000000000000000000000000000000000000000000000000` (board/src/board/constants.rs:83) -/
def PROMOTION_PIECE_MASK : UInt64 := (3940649673949184 : UInt64)

/-- `const SIDE_TO_MOVE_MASK: u64 = 0b10000000000000000000000000000000000000000000000000000` (board/src/board/constants.rs:84) -/
def SIDE_TO_MOVE_MASK : UInt64 := (4503599627370496 : UInt64)

/-- `const PIECE_MOVED_SHIFT: u32 = PIECE_MOVED_MASK . trailing_zeros ()` (board/src/board/constants.rs:86) -/
def PIECE_MOVED_SHIFT : Int := u64Tz PIECE_MOVED_MASK

/-- `const PIECE_ATTACKED_SHIFT: u32 = PIECE_ATTACKED_MASK . trailing_zeros ()` (board/src/board/constants.rs:87) -/
def PIECE_ATTACKED_SHIFT : Int := u64Tz PIECE_ATTACKED_MASK

/-- `const SELF_LOST_KING_SIDE_CASTLE_SHIFT: u32 = SELF_LOST_KING_SIDE_CASTLE_MASK . trailing_zeros ()` (board/src/board/constants.rs:88) -/
def SELF_LOST_KING_SIDE_CASTLE_SHIFT : Int := u64Tz SELF_LOST_KING_SIDE_CASTLE_MASK

/-- `const SELF_LOST_QUEEN_SIDE_CASTLE_SHIFT: u32 = SELF_LOST_QUEEN_SIDE_CASTLE_MASK . trailing_zeros ()` (board/src/board/constants.rs:89) -/
def SELF_LOST_QUEEN_SIDE_CASTLE_SHIFT : Int := u64Tz SELF_LOST_QUEEN_SIDE_CASTLE_MASK

/-- `const OPPONENT_LOST_KING_SIDE_CASTLE_SHIFT: u32 = OPPONENT_LOST_KING_SIDE_CASTLE_MASK . trailing_zeros ()` (board/src/board/constants.rs:90) -/
def OPPONENT_LOST_KING_SIDE_CASTLE_SHIFT : Int := u64Tz OPPONENT_LOST_KING_SIDE_CASTLE_MASK

/-- `const OPPONENT_LOST_QUEEN_SIDE_CASTLE_SHIFT: u32 = OPPONENT_LOST_QUEEN_SIDE_CASTLE_MASK . trailing_zeros ()` (board/src/board/constants.rs:91) -/
def OPPONENT_LOST_QUEEN_SIDE_CASTLE_SHIFT : Int := u64Tz OPPONENT_LOST_QUEEN_SIDE_CASTLE_MASK

/-- `const CASTLE_MOVE_SHIFT: u32 = CASTLE_MOVE_MASK . trailing_zeros ()` (board/src/board/constants.rs:92) -/
def CASTLE_MOVE_SHIFT : Int := u64Tz CASTLE_MOVE_MASK

/-- `const EN_PASSANT_ATTACK_SHIFT: u32 = EN_PASSANT_ATTACK_MASK . trailing_zeros ()` (board/src/board/constants.rs:93) -/
def EN_PASSANT_ATTACK_SHIFT : Int := u64Tz EN_PASSANT_ATTACK_MASK

/-- `const SOURCE_SQUARE_SHIFT: u32 = SOURCE_SQUARE_MASK . trailing_zeros ()` (board/src/board/constants.rs:94) -/
def SOURCE_SQUARE_SHIFT : Int := u64Tz SOURCE_SQUARE_MASK

/-- `const TARGET_SQUARE_SHIFT: u32 = TARGET_SQUARE_MASK . trailing_zeros ()` (board/src/board/constants.rs:95) -/
def TARGET_SQUARE_SHIFT : Int := u64Tz TARGET_SQUARE_MASK

/-- `const HALFMOVE_RESET_SHIFT: u32 = HALFMOVE_RESET_MASK . trailing_zeros ()` (board/src/board/constants.rs:96) -/
def HALFMOVE_RESET_SHIFT : Int := u64Tz HALFMOVE_RESET_MASK

/-- `const PREVIOUS_HALFMOVE_SHIFT: u32 = PREVIOUS_HALFMOVE_MASK . trailing_zeros ()` (board/src/board/constants.rs:97) -/
def PREVIOUS_HALFMOVE_SHIFT : Int := u64Tz PREVIOUS_HALFMOVE_MASK

/-- `const PREVIOUS_EN_PASSANT_SQUARE_SHIFT: u32 = PREVIOUS_EN_PASSANT_SQUARE_MASK . trailing_zeros ()` (board/src/board/constants.rs:98) -/
def PREVIOUS_EN_PASSANT_SQUARE_SHIFT : Int := u64Tz PREVIOUS_EN_PASSANT_SQUARE_MASK

/-- `const NEXT_EN_PASSANT_SQUARE_SHIFT: u32 = NEXT_EN_PASSANT_SQUARE_MASK . trailing_zeros ()` (board/src/board/constants.rs:99) -/
def NEXT_EN_PASSANT_SQUARE_SHIFT : Int := u64Tz NEXT_EN_PASSANT_SQUARE_MASK

/-- `const PROMOTION_PIECE_SHIFT: u32 = PROMOTION_PIECE_MASK . trailing_zeros ()` (board/src/board/constants.rs:100) -/
def PROMOTION_PIECE_SHIFT : Int := u64Tz PROMOTION_PIECE_MASK

/-- `const SIDE_TO_MOVE_SHIFT: u32 = SIDE_TO_MOVE_MASK . trailing_zeros ()` (board/src/board/constants.rs:101) -/
def SIDE_TO_MOVE_SHIFT : Int := u64Tz SIDE_TO_MOVE_MASK

/-- `const fn get_piece_moved(&self) -> PieceBits` in `impl Move` (board/src/board.rs:46).
* `bits` = field `self.bits: u64`
`none` = panic (or out of fuel). -/
def Move.get_piece_moved (bits : UInt64) : Option UInt64 := do
  u64Shr (bits &&& PIECE_MOVED_MASK) PIECE_MOVED_SHIFT

/-- `const fn get_piece_attacked(&self) -> PieceBits` in `impl Move` (board/src/board.rs:48).
* `bits` = field `self.bits: u64`
`none` = panic (or out of fuel). -/
def Move.get_piece_attacked (bits : UInt64) : Option UInt64 := do
  u64Shr (bits &&& PIECE_ATTACKED_MASK) PIECE_ATTACKED_SHIFT

/-- `const fn get_self_lost_king_side_castle(&self) -> u64` in `impl Move` (board/src/board.rs:50).
* `bits` = field `self.bits: u64`
`none` = panic (or out of fuel). -/
def Move.get_self_lost_king_side_castle (bits : UInt64) : Option UInt64 := do
  u64Shr (bits &&& SELF_LOST_KING_SIDE_CASTLE_MASK) SELF_LOST_KING_SIDE_CASTLE_SHIFT

/-- `const fn get_self_lost_queen_side_castle(&self) -> u64` in `impl Move` (board/src/board.rs:52).
* `bits` = field `self.bits: u64`
`none` = panic (or out of fuel). -/
def Move.get_self_lost_queen_side_castle (bits : UInt64) : Option UInt64 := do
  u64Shr (bits &&& SELF_LOST_QUEEN_SIDE_CASTLE_MASK) SELF_LOST_QUEEN_SIDE_CASTLE_SHIFT

/-- `const fn get_opponent_lost_king_side_castle(&self) -> u64` in `impl Move` (board/src/board.rs:54).
* `bits` = field `self.bits: u64`
`none` = panic (or out of fuel). -/
def Move.get_opponent_lost_king_side_castle (bits : UInt64) : Option UInt64 := do
  u64Shr (bits &&& OPPONENT_LOST_KING_SIDE_CASTLE_MASK) OPPONENT_LOST_KING_SIDE_CASTLE_SHIFT

/-- `const fn get_opponent_lost_queen_side_castle(&self) -> u64` in `impl Move` (board/src/board.rs:56).
* `bits` = field `self.bits: u64`
`none` = panic (or out of fuel). -/
def Move.get_opponent_lost_queen_side_castle (bits : UInt64) : Option UInt64 := do
  u64Shr (bits &&& OPPONENT_LOST_QUEEN_SIDE_CASTLE_MASK) OPPONENT_LOST_QUEEN_SIDE_CASTLE_SHIFT

/-- `const fn get_castle_move(&self) -> u64` in `impl Move` (board/src/board.rs:58).
* `bits` = field `self.bits: u64`
`none` = panic (or out of fuel). -/
def Move.get_castle_move (bits : UInt64) : Option UInt64 := do
  u64Shr (bits &&& CASTLE_MOVE_MASK) CASTLE_MOVE_SHIFT

/-- `const fn get_en_passant_attack(&self) -> u64` in `impl Move` (board/src/board.rs:60).
* `bits` = field `self.bits: u64`
`none` = panic (or out of fuel). -/
def Move.get_en_passant_attack (bits : UInt64) : Option UInt64 := do
  u64Shr (bits &&& EN_PASSANT_ATTACK_MASK) EN_PASSANT_ATTACK_SHIFT

/-- `const fn get_source_square(&self) -> SquareShiftBits` in `impl Move` (board/src/board.rs:62).
* `bits` = field `self.bits: u64`
`none` = panic (or out of fuel). -/
def Move.get_source_square (bits : UInt64) : Option Int := do
  pure (cast .u32 (u64ToInt (← u64Shr (bits &&& SOURCE_SQUARE_MASK) SOURCE_SQUARE_SHIFT)))

/-- `const fn get_target_square(&self) -> SquareShiftBits` in `impl Move` (board/src/board.rs:64).
* `bits` = field `self.bits: u64`
`none` = panic (or out of fuel). -/
def Move.get_target_square (bits : UInt64) : Option Int := do
  pure (cast .u32 (u64ToInt (← u64Shr (bits &&& TARGET_SQUARE_MASK) TARGET_SQUARE_SHIFT)))

/-- `const fn get_halfmove_reset(&self) -> u64` in `impl Move` (board/src/board.rs:66).
* `bits` = field `self.bits: u64`
`none` = panic (or out of fuel). -/
def Move.get_halfmove_reset (bits : UInt64) : Option UInt64 := do
  u64Shr (bits &&& HALFMOVE_RESET_MASK) HALFMOVE_RESET_SHIFT

/-- `const fn get_previous_halfmove(&self) -> u32` in `impl Move` (board/src/board.rs:68).
* `bits` = field `self.bits: u64`
`none` = panic (or out of fuel). -/
def Move.get_previous_halfmove (bits : UInt64) : Option Int := do
  pure (cast .u32 (u64ToInt (← u64Shr (bits &&& PREVIOUS_HALFMOVE_MASK) PREVIOUS_HALFMOVE_SHIFT)))

/-- `const fn get_previous_en_passant_square(&self) -> SquareShiftBits` in `impl Move` (board/src/board.rs:70).
* `bits` = field `self.bits: u64`
`none` = panic (or out of fuel). -/
def Move.get_previous_en_passant_square (bits : UInt64) : Option Int := do
  pure (cast .u32 (u64ToInt (← u64Shr (bits &&& PREVIOUS_EN_PASSANT_SQUARE_MASK) PREVIOUS_EN_PASSANT_SQUARE_SHIFT)))

/-- `const fn get_next_en_passant_square(&self) -> SquareShiftBits` in `impl Move` (board/src/board.rs:72).
* `bits` = field `self.bits: u64`
`none` = panic (or out of fuel). -/
def Move.get_next_en_passant_square (bits : UInt64) : Option Int := do
  pure (cast .u32 (u64ToInt (← u64Shr (bits &&& NEXT_EN_PASSANT_SQUARE_MASK) NEXT_EN_PASSANT_SQUARE_SHIFT)))

/-- `const fn get_promotion_piece(&self) -> PieceBits` in `impl Move` (board/src/board.rs:74).
* `bits` = field `self.bits: u64`
`none` = panic (or out of fuel). -/
def Move.get_promotion_piece (bits : UInt64) : Option UInt64 := do
  u64Shr (bits &&& PROMOTION_PIECE_MASK) PROMOTION_PIECE_SHIFT

/-- `const fn get_side_to_move(&self) -> ColorBits` in `impl Move` (board/src/board.rs:76).
* `bits` = field `self.bits: u64`
`none` = panic (or out of fuel). -/
def Move.get_side_to_move (bits : UInt64) : Option Int := do
  pure (cast .u32 (u64ToInt (← u64Shr (bits &&& SIDE_TO_MOVE_MASK) SIDE_TO_MOVE_SHIFT)))

/-- `fn set_piece_moved(&mut self, value: PieceBits)` in `impl Move` (board/src/board.rs:79).
* `bits` = field `self.bits: u64`
* `value` = parameter `value: u64`
Result: the new value of `self.bits`.
`none` = panic (or out of fuel). -/
def Move.set_piece_moved (bits : UInt64) (value : UInt64) : Option UInt64 := do
  let bits : UInt64 := bits ||| (← u64Shl value PIECE_MOVED_SHIFT)
  pure bits

/-- `fn set_piece_attacked(&mut self, value: PieceBits)` in `impl Move` (board/src/board.rs:81).
* `bits` = field `self.bits: u64`
* `value` = parameter `value: u64`
Result: the new value of `self.bits`.
`none` = panic (or out of fuel). -/
def Move.set_piece_attacked (bits : UInt64) (value : UInt64) : Option UInt64 := do
  let bits : UInt64 := bits ||| (← u64Shl value PIECE_ATTACKED_SHIFT)
  pure bits

/-- `fn set_self_lost_king_side_castle(&mut self)` in `impl Move` (board/src/board.rs:83).
* `bits` = field `self.bits: u64`
Result: the new value of `self.bits`.
`none` = panic (or out of fuel). -/
def Move.set_self_lost_king_side_castle (bits : UInt64) : Option UInt64 := do
  let bits : UInt64 := bits ||| SELF_LOST_KING_SIDE_CASTLE_MASK
  pure bits

/-- `fn set_self_lost_queen_side_castle(&mut self)` in `impl Move` (board/src/board.rs:85).
* `bits` = field `self.bits: u64`
Result: the new value of `self.bits`.
`none` = panic (or out of fuel). -/
def Move.set_self_lost_queen_side_castle (bits : UInt64) : Option UInt64 := do
  let bits : UInt64 := bits ||| SELF_LOST_QUEEN_SIDE_CASTLE_MASK
  pure bits

/-- `fn set_opponent_lost_king_side_castle(&mut self)` in `impl Move` (board/src/board.rs:87).
* `bits` = field `self.bits: u64`
Result: the new value of `self.bits`.
`none` = panic (or out of fuel). -/
def Move.set_opponent_lost_king_side_castle (bits : UInt64) : Option UInt64 := do
  let bits : UInt64 := bits ||| OPPONENT_LOST_KING_SIDE_CASTLE_MASK
  pure bits

/-- `fn set_opponent_lost_queen_side_castle(&mut self)` in `impl Move` (board/src/board.rs:89).
* `bits` = field `self.bits: u64`
Result: the new value of `self.bits`.
`none` = panic (or out of fuel). -/
def Move.set_opponent_lost_queen_side_castle (bits : UInt64) : Option UInt64 := do
  let bits : UInt64 := bits ||| OPPONENT_LOST_QUEEN_SIDE_CASTLE_MASK
  pure bits

/-- `fn set_castle_move(&mut self, value: u64)` in `impl Move` (board/src/board.rs:91).
* `bits` = field `self.bits: u64`
* `value` = parameter `value: u64`
Result: the new value of `self.bits`.
`none` = panic (or out of fuel). -/
def Move.set_castle_move (bits : UInt64) (value : UInt64) : Option UInt64 := do
  let bits : UInt64 := bits ||| value
  pure bits

/-- `fn set_en_passant_attack(&mut self, value: u64)` in `impl Move` (board/src/board.rs:93).
* `bits` = field `self.bits: u64`
* `value` = parameter `value: u64`
Result: the new value of `self.bits`.
`none` = panic (or out of fuel). -/
def Move.set_en_passant_attack (bits : UInt64) (value : UInt64) : Option UInt64 := do
  let bits : UInt64 := bits ||| value
  pure bits

/-- `fn set_source_square(&mut self, value: SquareShiftBits)` in `impl Move` (board/src/board.rs:95).
* `bits` = field `self.bits: u64`
* `value` = parameter `value: u32`
Result: the new value of `self.bits`.
`none` = panic (or out of fuel). -/
def Move.set_source_square (bits : UInt64) (value : Int) : Option UInt64 := do
  let bits : UInt64 := bits ||| (← u64Shl (u64OfInt value) SOURCE_SQUARE_SHIFT)
  pure bits

/-- `fn set_target_square(&mut self, value: SquareShiftBits)` in `impl Move` (board/src/board.rs:97).
* `bits` = field `self.bits: u64`
* `value` = parameter `value: u32`
Result: the new value of `self.bits`.
`none` = panic (or out of fuel). -/
def Move.set_target_square (bits : UInt64) (value : Int) : Option UInt64 := do
  let bits : UInt64 := bits ||| (← u64Shl (u64OfInt value) TARGET_SQUARE_SHIFT)
  pure bits

/-- `fn set_halfmove_reset(&mut self)` in `impl Move` (board/src/board.rs:99).
* `bits` = field `self.bits: u64`
Result: the new value of `self.bits`.
`none` = panic (or out of fuel). -/
def Move.set_halfmove_reset (bits : UInt64) : Option UInt64 := do
  let bits : UInt64 := bits ||| HALFMOVE_RESET_MASK
  pure bits

/-- `fn set_previous_halfmove(&mut self, value: u32)` in `impl Move` (board/src/board.rs:101).
* `bits` = field `self.bits: u64`
* `value` = parameter `value: u32`
Result: the new value of `self.bits`.
`none` = panic (or out of fuel). -/
def Move.set_previous_halfmove (bits : UInt64) (value : Int) : Option UInt64 := do
  let bits : UInt64 := bits ||| (← u64Shl (u64OfInt value) PREVIOUS_HALFMOVE_SHIFT)
  pure bits

/-- `fn set_previous_en_passant_square(&mut self, value: SquareShiftBits)` in `impl Move` (board/src/board.rs:103).
* `bits` = field `self.bits: u64`
* `value` = parameter `value: u32`
Result: the new value of `self.bits`.
`none` = panic (or out of fuel). -/
def Move.set_previous_en_passant_square (bits : UInt64) (value : Int) : Option UInt64 := do
  let bits : UInt64 := bits ||| (← u64Shl (u64OfInt value) PREVIOUS_EN_PASSANT_SQUARE_SHIFT)
  pure bits

/-- `fn set_next_en_passant_square(&mut self, value: SquareShiftBits)` in `impl Move` (board/src/board.rs:105).
* `bits` = field `self.bits: u64`
* `value` = parameter `value: u32`
Result: the new value of `self.bits`.
`none` = panic (or out of fuel). -/
def Move.set_next_en_passant_square (bits : UInt64) (value : Int) : Option UInt64 := do
  let bits : UInt64 := bits ||| (← u64Shl (u64OfInt value) NEXT_EN_PASSANT_SQUARE_SHIFT)
  pure bits

/-- `fn set_promotion_piece(&mut self, value: PieceBits)` in `impl Move` (board/src/board.rs:107).
* `bits` = field `self.bits: u64`
* `value` = parameter `value: u64`
Result: the new value of `self.bits`.
`none` = panic (or out of fuel). -/
def Move.set_promotion_piece (bits : UInt64) (value : UInt64) : Option UInt64 := do
  let bits : UInt64 := bits ||| (← u64Shl value PROMOTION_PIECE_SHIFT)
  pure bits

/-- `fn set_side_to_move(&mut self, value: ColorBits)` in `impl Move` (board/src/board.rs:109).
* `bits` = field `self.bits: u64`
* `value` = parameter `value: u32`
Result: the new value of `self.bits`.
`none` = panic (or out of fuel). -/
def Move.set_side_to_move (bits : UInt64) (value : Int) : Option UInt64 := do
  let bits : UInt64 := bits ||| (← u64Shl (u64OfInt value) SIDE_TO_MOVE_SHIFT)
  pure bits

/-- `const fn is_self_lost_king_side_castle(&self) -> bool` in `impl Move` (board/src/board.rs:112).
* `bits` = field `self.bits: u64`
`none` = panic (or out of fuel). -/
def Move.is_self_lost_king_side_castle (bits : UInt64) : Option Bool := do
  pure (decide ((← Move.get_self_lost_king_side_castle bits) ≠ (0 : UInt64)))

/-- `const fn is_self_lost_queen_side_castle(&self) -> bool` in `impl Move` (board/src/board.rs:114).
* `bits` = field `self.bits: u64`
`none` = panic (or out of fuel). -/
def Move.is_self_lost_queen_side_castle (bits : UInt64) : Option Bool := do
  pure (decide ((← Move.get_self_lost_queen_side_castle bits) ≠ (0 : UInt64)))

/-- `const fn is_opponent_lost_king_side_castle(&self) -> bool` in `impl Move` (board/src/board.rs:116).
* `bits` = field `self.bits: u64`
`none` = panic (or out of fuel). -/
def Move.is_opponent_lost_king_side_castle (bits : UInt64) : Option Bool := do
  pure (decide ((← Move.get_opponent_lost_king_side_castle bits) ≠ (0 : UInt64)))

/-- `const fn is_opponent_lost_queen_side_castle(&self) -> bool` in `impl Move` (board/src/board.rs:118).
* `bits` = field `self.bits: u64`
`none` = panic (or out of fuel). -/
def Move.is_opponent_lost_queen_side_castle (bits : UInt64) : Option Bool := do
  pure (decide ((← Move.get_opponent_lost_queen_side_castle bits) ≠ (0 : UInt64)))

/-- `const fn is_en_passant_attack(&self) -> bool` in `impl Move` (board/src/board.rs:120).
* `bits` = field `self.bits: u64`
`none` = panic (or out of fuel). -/
def Move.is_en_passant_attack (bits : UInt64) : Option Bool := do
  pure (decide ((← Move.get_en_passant_attack bits) ≠ (0 : UInt64)))

/-- `const fn is_castle_move(&self) -> bool` in `impl Move` (board/src/board.rs:122).
* `bits` = field `self.bits: u64`
`none` = panic (or out of fuel). -/
def Move.is_castle_move (bits : UInt64) : Option Bool := do
  pure (decide ((← Move.get_castle_move bits) ≠ (0 : UInt64)))

/-- `const fn is_halfmove_reset(&self) -> bool` in `impl Move` (board/src/board.rs:124).
* `bits` = field `self.bits: u64`
`none` = panic (or out of fuel). -/
def Move.is_halfmove_reset (bits : UInt64) : Option Bool := do
  pure (decide ((← Move.get_halfmove_reset bits) ≠ (0 : UInt64)))

/-- `const fn is_attack(&self) -> bool` in `impl Move` (board/src/board.rs:126).
* `bits` = field `self.bits: u64`
`none` = panic (or out of fuel). -/
def Move.is_attack (bits : UInt64) : Option Bool := do
  pure (decide ((← Move.get_piece_attacked bits) ≠ NO_PIECE))

/-- `const fn is_promotion(&self) -> bool` in `impl Move` (board/src/board.rs:128).
* `bits` = field `self.bits: u64`
`none` = panic (or out of fuel). -/
def Move.is_promotion (bits : UInt64) : Option Bool := do
  pure (decide ((← Move.get_promotion_piece bits) ≠ NO_PIECE))

/-- `const NO_SQUARE: u32 = 0` (board/src/board/constants.rs:104) -/
def NO_SQUARE : Int := 0

/-- `const A8: u32 = 0` (board/src/board/constants.rs:105) -/
def A8 : Int := 0

/-- `const C8: u32 = 2` (board/src/board/constants.rs:107) -/
def C8 : Int := 2

/-- `const D8: u32 = 3` (board/src/board/constants.rs:108) -/
def D8 : Int := 3

/-- `const E8: u32 = 4` (board/src/board/constants.rs:109) -/
def E8 : Int := 4

/-- `const F8: u32 = 5` (board/src/board/constants.rs:110) -/
def F8 : Int := 5

/-- `const G8: u32 = 6` (board/src/board/constants.rs:111) -/
def G8 : Int := 6

/-- `const H8: u32 = 7` (board/src/board/constants.rs:112) -/
def H8 : Int := 7

/-- `const A1: u32 = 56` (board/src/board/constants.rs:161) -/
def A1 : Int := 56

/-- `const C1: u32 = 58` (board/src/board/constants.rs:163) -/
def C1 : Int := 58

/-- `const D1: u32 = 59` (board/src/board/constants.rs:164) -/
def D1 : Int := 59

/-- `const E1: u32 = 60` (board/src/board/constants.rs:165) -/
def E1 : Int := 60

/-- `const F1: u32 = 61` (board/src/board/constants.rs:166) -/
def F1 : Int := 61

/-- `const G1: u32 = 62` (board/src/board/constants.rs:167) -/
def G1 : Int := 62

/-- `const H1: u32 = 63` (board/src/board/constants.rs:168) -/
def H1 : Int := 63

end Inkayaku.Rs
