/-
GENERATED FILE — do not edit.  Regenerated from the CURRENT Rust sources by /verif/translator:
    rs2lean <repo root> <out dir>
Module `MakeAllUci`.  Semantics of the translation: see the header of `Prelude.lean`.
Rust sources: board/src/board.rs
-/
import Inkayaku.Gen.Rs.Prelude
import Inkayaku.Gen.Rs.Check
import Inkayaku.Gen.Rs.FindUci
import Inkayaku.Gen.Rs.MakeUnmake

set_option linter.unusedVariables false

namespace Inkayaku.Rs

/-- `for` loop of `make_all_uci` over a list (board/src/board.rs:1207), by structural recursion on the list.  Reads: nothing.  State: white : PlayerState, black : PlayerState, turn : u32, en_passant_square_shift : u32, fullmove_clock : u32, halfmove_clock : u32.  `none` = panic. -/
def Bitboard.make_all_uci.for_2 : (List (UInt64 × Int)) → Inkayaku.Rs.PlayerState → Inkayaku.Rs.PlayerState → Int → Int → Int → Int → Option (Inkayaku.Rs.PlayerState × Inkayaku.Rs.PlayerState × Int × Int × Int × Int)
  | [], white, black, turn, en_passant_square_shift, fullmove_clock, halfmove_clock => pure (white, black, turn, en_passant_square_shift, fullmove_clock, halfmove_clock)
  | (mv_bits, mv_mvvlva) :: rest_3, white, black, turn, en_passant_square_shift, fullmove_clock, halfmove_clock => do
    let (white, black, turn, en_passant_square_shift, fullmove_clock, halfmove_clock) ← Bitboard.unmake white black turn en_passant_square_shift fullmove_clock halfmove_clock mv_bits
    Bitboard.make_all_uci.for_2 rest_3 white black turn en_passant_square_shift fullmove_clock halfmove_clock

/-- `for` loop of `make_all_uci` over a list (board/src/board.rs:1200), by structural recursion on the list.  Reads: ROOK_MAGICS_get_attacks : Int → UInt64 → UInt64, BISHOP_MAGICS_get_attacks : Int → UInt64 → UInt64, KNIGHT_NONMAGICS_get_attacks : Int → UInt64, KING_NONMAGICS_get_attacks : Int → UInt64, WHITE_PAWN_NONMAGICS_get_attacks : Int → UInt64, BLACK_PAWN_NONMAGICS_get_attacks : Int → UInt64, Square_from_index : Int → Option SquareT, Square_fen : SquareT → List Char, Piece_from_index : Int → Option PieceT, Piece_fen : PieceT → Char, fuel : Nat.  State: white : PlayerState, black : PlayerState, turn : u32, en_passant_square_shift : u32, fullmove_clock : u32, halfmove_clock : u32, potential_unmake : Vec<Move>.  `none` = panic; `Ctl.ret r` = the function returned (`r` = its complete result) from inside the loop, `Ctl.next s` = the loop ended. -/
def Bitboard.make_all_uci.for_1 (ROOK_MAGICS_get_attacks : Int → UInt64 → UInt64) (BISHOP_MAGICS_get_attacks : Int → UInt64 → UInt64) (KNIGHT_NONMAGICS_get_attacks : Int → UInt64) (KING_NONMAGICS_get_attacks : Int → UInt64) (WHITE_PAWN_NONMAGICS_get_attacks : Int → UInt64) (BLACK_PAWN_NONMAGICS_get_attacks : Int → UInt64) (Square_from_index : Int → Option SquareT) (Square_fen : SquareT → List Char) (Piece_from_index : Int → Option PieceT) (Piece_fen : PieceT → Char) (fuel : Nat) : (List (List Char)) → Inkayaku.Rs.PlayerState → Inkayaku.Rs.PlayerState → Int → Int → Int → Int → (List (UInt64 × Int)) → Option (Ctl ((Except Inkayaku.Rs.MoveFromUciError Unit) × Inkayaku.Rs.PlayerState × Inkayaku.Rs.PlayerState × Int × Int × Int × Int) (Inkayaku.Rs.PlayerState × Inkayaku.Rs.PlayerState × Int × Int × Int × Int × (List (UInt64 × Int))))
  | [], white, black, turn, en_passant_square_shift, fullmove_clock, halfmove_clock, potential_unmake => pure (Ctl.next (white, black, turn, en_passant_square_shift, fullmove_clock, halfmove_clock, potential_unmake))
  | uci :: rest_4, white, black, turn, en_passant_square_shift, fullmove_clock, halfmove_clock, potential_unmake => do
    let (r_1, white, black, turn, en_passant_square_shift, fullmove_clock, halfmove_clock) ← Bitboard.find_uci white black turn en_passant_square_shift fullmove_clock halfmove_clock uci ROOK_MAGICS_get_attacks BISHOP_MAGICS_get_attacks KNIGHT_NONMAGICS_get_attacks KING_NONMAGICS_get_attacks WHITE_PAWN_NONMAGICS_get_attacks BLACK_PAWN_NONMAGICS_get_attacks Square_from_index Square_fen Piece_from_index Piece_fen fuel
    match r_1 with
    | Except.ok (mv_bits, mv_mvvlva) => do
      let (white, black, turn, en_passant_square_shift, fullmove_clock, halfmove_clock) ← Bitboard.make white black turn en_passant_square_shift fullmove_clock halfmove_clock mv_bits
      let potential_unmake : List (UInt64 × Int) := potential_unmake ++ [(mv_bits, mv_mvvlva)]
      Bitboard.make_all_uci.for_1 ROOK_MAGICS_get_attacks BISHOP_MAGICS_get_attacks KNIGHT_NONMAGICS_get_attacks KING_NONMAGICS_get_attacks WHITE_PAWN_NONMAGICS_get_attacks BLACK_PAWN_NONMAGICS_get_attacks Square_from_index Square_fen Piece_from_index Piece_fen fuel rest_4 white black turn en_passant_square_shift fullmove_clock halfmove_clock potential_unmake
    | Except.error error => do
      let items_2 : List (UInt64 × Int) := List.reverse potential_unmake
      let (white, black, turn, en_passant_square_shift, fullmove_clock, halfmove_clock) ← Bitboard.make_all_uci.for_2 items_2 white black turn en_passant_square_shift fullmove_clock halfmove_clock
      pure (Ctl.ret (Except.error error, white, black, turn, en_passant_square_shift, fullmove_clock, halfmove_clock))

/-- `fn make_all_uci(&mut self, moves: &[String]) -> Result<(), MoveFromUciError>` in `impl Bitboard` (board/src/board.rs:1197).
* `white` = field `self.white: PlayerState`
* `black` = field `self.black: PlayerState`
* `turn` = field `self.turn: u32`
* `en_passant_square_shift` = field `self.en_passant_square_shift: u32`
* `fullmove_clock` = field `self.fullmove_clock: u32`
* `halfmove_clock` = field `self.halfmove_clock: u32`
* `moves` = parameter `moves: Vec<str>`
* `ROOK_MAGICS_get_attacks` = OPAQUE associated function `Self::ROOK_MAGICS_get_attacks`
* `BISHOP_MAGICS_get_attacks` = OPAQUE associated function `Self::BISHOP_MAGICS_get_attacks`
* `KNIGHT_NONMAGICS_get_attacks` = OPAQUE associated function `Self::KNIGHT_NONMAGICS_get_attacks`
* `KING_NONMAGICS_get_attacks` = OPAQUE associated function `Self::KING_NONMAGICS_get_attacks`
* `WHITE_PAWN_NONMAGICS_get_attacks` = OPAQUE associated function `Self::WHITE_PAWN_NONMAGICS_get_attacks`
* `BLACK_PAWN_NONMAGICS_get_attacks` = OPAQUE associated function `Self::BLACK_PAWN_NONMAGICS_get_attacks`
* `Square_from_index` = OPAQUE associated function `Self::Square_from_index`
* `Square_fen` = OPAQUE associated function `Self::Square_fen`
* `Piece_from_index` = OPAQUE associated function `Self::Piece_from_index`
* `Piece_fen` = OPAQUE associated function `Self::Piece_fen`
* `fuel` = loop fuel (one unit per loop iteration)
Result: the returned value and the new value of `self.white`, `self.black`, `self.turn`, `self.en_passant_square_shift`, `self.fullmove_clock`, `self.halfmove_clock`.
`none` = panic (or out of fuel). -/
def Bitboard.make_all_uci {SquareT : Type} {PieceT : Type} (white : Inkayaku.Rs.PlayerState) (black : Inkayaku.Rs.PlayerState) (turn : Int) (en_passant_square_shift : Int) (fullmove_clock : Int) (halfmove_clock : Int) (moves : List (List Char)) (ROOK_MAGICS_get_attacks : Int → UInt64 → UInt64) (BISHOP_MAGICS_get_attacks : Int → UInt64 → UInt64) (KNIGHT_NONMAGICS_get_attacks : Int → UInt64) (KING_NONMAGICS_get_attacks : Int → UInt64) (WHITE_PAWN_NONMAGICS_get_attacks : Int → UInt64) (BLACK_PAWN_NONMAGICS_get_attacks : Int → UInt64) (Square_from_index : Int → Option SquareT) (Square_fen : SquareT → List Char) (Piece_from_index : Int → Option PieceT) (Piece_fen : PieceT → Char) (fuel : Nat) : Option ((Except Inkayaku.Rs.MoveFromUciError Unit) × Inkayaku.Rs.PlayerState × Inkayaku.Rs.PlayerState × Int × Int × Int × Int) := do
  let potential_unmake : List _ := []
  match (← Bitboard.make_all_uci.for_1 ROOK_MAGICS_get_attacks BISHOP_MAGICS_get_attacks KNIGHT_NONMAGICS_get_attacks KING_NONMAGICS_get_attacks WHITE_PAWN_NONMAGICS_get_attacks BLACK_PAWN_NONMAGICS_get_attacks Square_from_index Square_fen Piece_from_index Piece_fen fuel moves white black turn en_passant_square_shift fullmove_clock halfmove_clock potential_unmake) with
  | Ctl.ret r => pure r
  | Ctl.next (white, black, turn, en_passant_square_shift, fullmove_clock, halfmove_clock, potential_unmake) => do
    pure (Except.ok (), white, black, turn, en_passant_square_shift, fullmove_clock, halfmove_clock)

end Inkayaku.Rs
