/-
GENERATED FILE — do not edit.  Regenerated from the CURRENT Rust sources by /verif/translator:
    rs2lean <repo root> <out dir>
Module `FenText`.  Semantics of the translation: see the header of `Prelude.lean`.
Rust sources: core/src/fen.rs
-/
import Inkayaku.Gen.Rs.Prelude

set_option linter.unusedVariables false

namespace Inkayaku.Rs

/-- `struct Fen` (core/src/fen.rs) -/
structure Fen where
  /-- `str` -/
  fen : List Char
  /-- `Range<usize>` -/
  piece_placement : (Int × Int)
  /-- `Range<usize>` -/
  active_color : (Int × Int)
  /-- `Range<usize>` -/
  castling_availability : (Int × Int)
  /-- `Range<usize>` -/
  en_passant_target_square : (Int × Int)
  /-- `Option<Range<usize>>` -/
  halfmove_clock : Option (Int × Int)
  /-- `Option<Range<usize>>` -/
  fullmove_clock : Option (Int × Int)
deriving DecidableEq, Repr

/-- `fn get_piece_placement(&self) -> &str` in `impl Fen` (core/src/fen.rs:55).
* `fen` = field `self.fen: str`
* `piece_placement` = field `self.piece_placement: Range<usize>`
`none` = panic (or out of fuel). -/
def Fen.get_piece_placement (fen : List Char) (piece_placement : (Int × Int)) : Option (List Char) := do
  strSlice fen piece_placement.1 piece_placement.2

/-- `fn get_active_color(&self) -> &str` in `impl Fen` (core/src/fen.rs:58).
* `fen` = field `self.fen: str`
* `active_color` = field `self.active_color: Range<usize>`
`none` = panic (or out of fuel). -/
def Fen.get_active_color (fen : List Char) (active_color : (Int × Int)) : Option (List Char) := do
  strSlice fen active_color.1 active_color.2

/-- `fn get_castling_availability(&self) -> &str` in `impl Fen` (core/src/fen.rs:61).
* `fen` = field `self.fen: str`
* `castling_availability` = field `self.castling_availability: Range<usize>`
`none` = panic (or out of fuel). -/
def Fen.get_castling_availability (fen : List Char) (castling_availability : (Int × Int)) : Option (List Char) := do
  strSlice fen castling_availability.1 castling_availability.2

/-- `fn get_en_passant_target_square(&self) -> &str` in `impl Fen` (core/src/fen.rs:64).
* `fen` = field `self.fen: str`
* `en_passant_target_square` = field `self.en_passant_target_square: Range<usize>`
`none` = panic (or out of fuel). -/
def Fen.get_en_passant_target_square (fen : List Char) (en_passant_target_square : (Int × Int)) : Option (List Char) := do
  strSlice fen en_passant_target_square.1 en_passant_target_square.2

/-- `fn get_halfmove_clock(&self) -> &str` in `impl Fen` (core/src/fen.rs:67).
* `fen` = field `self.fen: str`
* `halfmove_clock` = field `self.halfmove_clock: Option<Range<usize>>`
`none` = panic (or out of fuel). -/
def Fen.get_halfmove_clock (fen : List Char) (halfmove_clock : Option (Int × Int)) : Option (List Char) := do
  (match halfmove_clock with | some range => (strSlice fen range.1 range.2) | none => pure ['0'])

/-- `fn get_fullmove_clock(&self) -> &str` in `impl Fen` (core/src/fen.rs:70).
* `fen` = field `self.fen: str`
* `fullmove_clock` = field `self.fullmove_clock: Option<Range<usize>>`
`none` = panic (or out of fuel). -/
def Fen.get_fullmove_clock (fen : List Char) (fullmove_clock : Option (Int × Int)) : Option (List Char) := do
  (match fullmove_clock with | some range => (strSlice fen range.1 range.2) | none => pure ['1'])

end Inkayaku.Rs
