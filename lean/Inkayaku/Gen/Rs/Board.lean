/-
GENERATED FILE — do not edit.  Regenerated from the CURRENT Rust sources by /verif/translator:
    rs2lean <repo root> <out dir>
Module `Board`.  Semantics of the translation: see the header of `Prelude.lean`.
Rust sources: board/src/board/constants.rs, board/src/board.rs
-/
import Inkayaku.Gen.Rs.Prelude

set_option linter.unusedVariables false

namespace Inkayaku.Rs

/-- `const WHITE: u32 = 0` (board/src/board/constants.rs:15) -/
def WHITE : Int := 0

/-- `const BLACK: u32 = 1` (board/src/board/constants.rs:16) -/
def BLACK : Int := 1

/-- `const fn ply_clock(&self) -> u16` in `impl Bitboard` (board/src/board.rs:1060).
* `turn` = field `self.turn: u32`
* `fullmove_clock` = field `self.fullmove_clock: u32`
`none` = panic (or out of fuel). -/
def Bitboard.ply_clock (turn : Int) (fullmove_clock : Int) : Option Int := do
  pure (cast .u16 (← chk .u32 ((← chk .u32 (2 * (satSub .u32 fullmove_clock 1))) + turn)))

/-- `struct Move` (board/src/board.rs) -/
structure Move where
  /-- `u64` -/
  bits : Int
  /-- `i32` -/
  mvvlva : Int
deriving DecidableEq, Repr

end Inkayaku.Rs
