/-
GENERATED FILE — do not edit.  Regenerated from the CURRENT Rust sources by /verif/translator:
    rs2lean <repo root> <out dir>
Module `Generate`.  Semantics of the translation: see the header of `Prelude.lean`.
Rust sources: board/src/board/constants.rs, board/src/lib.rs, board/src/board.rs
-/
import Inkayaku.Gen.Rs.Prelude
import Inkayaku.Gen.Rs.Board
import Inkayaku.Gen.Rs.Check
import Inkayaku.Gen.Rs.MakeUnmake
import Inkayaku.Gen.Rs.MoveBits
import Inkayaku.Gen.Rs.MoveCtor

set_option linter.unusedVariables false

namespace Inkayaku.Rs

/-- `const B8: u32 = 1` (board/src/board/constants.rs:106) -/
def B8 : Int := 1

/-- `const A7: u32 = 8` (board/src/board/constants.rs:113) -/
def A7 : Int := 8

/-- `const B7: u32 = 9` (board/src/board/constants.rs:114) -/
def B7 : Int := 9

/-- `const C7: u32 = 10` (board/src/board/constants.rs:115) -/
def C7 : Int := 10

/-- `const D7: u32 = 11` (board/src/board/constants.rs:116) -/
def D7 : Int := 11

/-- `const E7: u32 = 12` (board/src/board/constants.rs:117) -/
def E7 : Int := 12

/-- `const F7: u32 = 13` (board/src/board/constants.rs:118) -/
def F7 : Int := 13

/-- `const G7: u32 = 14` (board/src/board/constants.rs:119) -/
def G7 : Int := 14

/-- `const H7: u32 = 15` (board/src/board/constants.rs:120) -/
def H7 : Int := 15

/-- `const A2: u32 = 48` (board/src/board/constants.rs:153) -/
def A2 : Int := 48

/-- `const B2: u32 = 49` (board/src/board/constants.rs:154) -/
def B2 : Int := 49

/-- `const C2: u32 = 50` (board/src/board/constants.rs:155) -/
def C2 : Int := 50

/-- `const D2: u32 = 51` (board/src/board/constants.rs:156) -/
def D2 : Int := 51

/-- `const E2: u32 = 52` (board/src/board/constants.rs:157) -/
def E2 : Int := 52

/-- `const F2: u32 = 53` (board/src/board/constants.rs:158) -/
def F2 : Int := 53

/-- `const G2: u32 = 54` (board/src/board/constants.rs:159) -/
def G2 : Int := 54

/-- `const H2: u32 = 55` (board/src/board/constants.rs:160) -/
def H2 : Int := 55

/-- `const B1: u32 = 57` (board/src/board/constants.rs:162) -/
def B1 : Int := 57

/-- `const B8_MASK: u64 = 1 << B8` (board/src/board/constants.rs:171); `none` would be a compile-time overflow -/
def B8_MASK : Option UInt64 := (u64Shl (1 : UInt64) B8)

/-- `const C8_MASK: u64 = 1 << C8` (board/src/board/constants.rs:172); `none` would be a compile-time overflow -/
def C8_MASK : Option UInt64 := (u64Shl (1 : UInt64) C8)

/-- `const E8_MASK: u64 = 1 << E8` (board/src/board/constants.rs:174); `none` would be a compile-time overflow -/
def E8_MASK : Option UInt64 := (u64Shl (1 : UInt64) E8)

/-- `const G8_MASK: u64 = 1 << G8` (board/src/board/constants.rs:176); `none` would be a compile-time overflow -/
def G8_MASK : Option UInt64 := (u64Shl (1 : UInt64) G8)

/-- `const A7_MASK: u64 = 1 << A7` (board/src/board/constants.rs:178); `none` would be a compile-time overflow -/
def A7_MASK : Option UInt64 := (u64Shl (1 : UInt64) A7)

/-- `const B7_MASK: u64 = 1 << B7` (board/src/board/constants.rs:179); `none` would be a compile-time overflow -/
def B7_MASK : Option UInt64 := (u64Shl (1 : UInt64) B7)

/-- `const C7_MASK: u64 = 1 << C7` (board/src/board/constants.rs:180); `none` would be a compile-time overflow -/
def C7_MASK : Option UInt64 := (u64Shl (1 : UInt64) C7)

/-- `const D7_MASK: u64 = 1 << D7` (board/src/board/constants.rs:181); `none` would be a compile-time overflow -/
def D7_MASK : Option UInt64 := (u64Shl (1 : UInt64) D7)

/-- `const E7_MASK: u64 = 1 << E7` (board/src/board/constants.rs:182); `none` would be a compile-time overflow -/
def E7_MASK : Option UInt64 := (u64Shl (1 : UInt64) E7)

/-- `const F7_MASK: u64 = 1 << F7` (board/src/board/constants.rs:183); `none` would be a compile-time overflow -/
def F7_MASK : Option UInt64 := (u64Shl (1 : UInt64) F7)

/-- `const G7_MASK: u64 = 1 << G7` (board/src/board/constants.rs:184); `none` would be a compile-time overflow -/
def G7_MASK : Option UInt64 := (u64Shl (1 : UInt64) G7)

/-- `const H7_MASK: u64 = 1 << H7` (board/src/board/constants.rs:185); `none` would be a compile-time overflow -/
def H7_MASK : Option UInt64 := (u64Shl (1 : UInt64) H7)

/-- `const A2_MASK: u64 = 1 << A2` (board/src/board/constants.rs:218); `none` would be a compile-time overflow -/
def A2_MASK : Option UInt64 := (u64Shl (1 : UInt64) A2)

/-- `const B2_MASK: u64 = 1 << B2` (board/src/board/constants.rs:219); `none` would be a compile-time overflow -/
def B2_MASK : Option UInt64 := (u64Shl (1 : UInt64) B2)

/-- `const C2_MASK: u64 = 1 << C2` (board/src/board/constants.rs:220); `none` would be a compile-time overflow -/
def C2_MASK : Option UInt64 := (u64Shl (1 : UInt64) C2)

/-- `const D2_MASK: u64 = 1 << D2` (board/src/board/constants.rs:221); `none` would be a compile-time overflow -/
def D2_MASK : Option UInt64 := (u64Shl (1 : UInt64) D2)

/-- `const E2_MASK: u64 = 1 << E2` (board/src/board/constants.rs:222); `none` would be a compile-time overflow -/
def E2_MASK : Option UInt64 := (u64Shl (1 : UInt64) E2)

/-- `const F2_MASK: u64 = 1 << F2` (board/src/board/constants.rs:223); `none` would be a compile-time overflow -/
def F2_MASK : Option UInt64 := (u64Shl (1 : UInt64) F2)

/-- `const G2_MASK: u64 = 1 << G2` (board/src/board/constants.rs:224); `none` would be a compile-time overflow -/
def G2_MASK : Option UInt64 := (u64Shl (1 : UInt64) G2)

/-- `const H2_MASK: u64 = 1 << H2` (board/src/board/constants.rs:225); `none` would be a compile-time overflow -/
def H2_MASK : Option UInt64 := (u64Shl (1 : UInt64) H2)

/-- `const B1_MASK: u64 = 1 << B1` (board/src/board/constants.rs:227); `none` would be a compile-time overflow -/
def B1_MASK : Option UInt64 := (u64Shl (1 : UInt64) B1)

/-- `const C1_MASK: u64 = 1 << C1` (board/src/board/constants.rs:228); `none` would be a compile-time overflow -/
def C1_MASK : Option UInt64 := (u64Shl (1 : UInt64) C1)

/-- `const E1_MASK: u64 = 1 << E1` (board/src/board/constants.rs:230); `none` would be a compile-time overflow -/
def E1_MASK : Option UInt64 := (u64Shl (1 : UInt64) E1)

/-- `const G1_MASK: u64 = 1 << G1` (board/src/board/constants.rs:232); `none` would be a compile-time overflow -/
def G1_MASK : Option UInt64 := (u64Shl (1 : UInt64) G1)

/-- `const WHITE_QUEEN_SIDE_CASTLE_EMPTY_OCCUPANCY: u64 = B1_MASK | C1_MASK | D1_MASK` (board/src/board/constants.rs:235); `none` would be a compile-time overflow -/
def WHITE_QUEEN_SIDE_CASTLE_EMPTY_OCCUPANCY : Option UInt64 := (do pure (((← B1_MASK) ||| (← C1_MASK)) ||| (← D1_MASK)))

/-- `const WHITE_KING_SIDE_CASTLE_EMPTY_OCCUPANCY: u64 = F1_MASK | G1_MASK` (board/src/board/constants.rs:236); `none` would be a compile-time overflow -/
def WHITE_KING_SIDE_CASTLE_EMPTY_OCCUPANCY : Option UInt64 := (do pure ((← F1_MASK) ||| (← G1_MASK)))

/-- `const BLACK_QUEEN_SIDE_CASTLE_EMPTY_OCCUPANCY: u64 = B8_MASK | C8_MASK | D8_MASK` (board/src/board/constants.rs:238); `none` would be a compile-time overflow -/
def BLACK_QUEEN_SIDE_CASTLE_EMPTY_OCCUPANCY : Option UInt64 := (do pure (((← B8_MASK) ||| (← C8_MASK)) ||| (← D8_MASK)))

/-- `const BLACK_KING_SIDE_CASTLE_EMPTY_OCCUPANCY: u64 = F8_MASK | G8_MASK` (board/src/board/constants.rs:239); `none` would be a compile-time overflow -/
def BLACK_KING_SIDE_CASTLE_EMPTY_OCCUPANCY : Option UInt64 := (do pure ((← F8_MASK) ||| (← G8_MASK)))

/-- `const WHITE_QUEEN_SIDE_CASTLE_CHECK_OCCUPANCY: u64 = C1_MASK | D1_MASK | E1_MASK` (board/src/board/constants.rs:242); `none` would be a compile-time overflow -/
def WHITE_QUEEN_SIDE_CASTLE_CHECK_OCCUPANCY : Option UInt64 := (do pure (((← C1_MASK) ||| (← D1_MASK)) ||| (← E1_MASK)))

/-- `const WHITE_KING_SIDE_CASTLE_CHECK_OCCUPANCY: u64 = E1_MASK | F1_MASK | G1_MASK` (board/src/board/constants.rs:243); `none` would be a compile-time overflow -/
def WHITE_KING_SIDE_CASTLE_CHECK_OCCUPANCY : Option UInt64 := (do pure (((← E1_MASK) ||| (← F1_MASK)) ||| (← G1_MASK)))

/-- `const BLACK_QUEEN_SIDE_CASTLE_CHECK_OCCUPANCY: u64 = C8_MASK | D8_MASK | E8_MASK` (board/src/board/constants.rs:245); `none` would be a compile-time overflow -/
def BLACK_QUEEN_SIDE_CASTLE_CHECK_OCCUPANCY : Option UInt64 := (do pure (((← C8_MASK) ||| (← D8_MASK)) ||| (← E8_MASK)))

/-- `const BLACK_KING_SIDE_CASTLE_CHECK_OCCUPANCY: u64 = E8_MASK | F8_MASK | G8_MASK` (board/src/board/constants.rs:246); `none` would be a compile-time overflow -/
def BLACK_KING_SIDE_CASTLE_CHECK_OCCUPANCY : Option UInt64 := (do pure (((← E8_MASK) ||| (← F8_MASK)) ||| (← G8_MASK)))

/-- `const RANK_1_OCCUPANCY: u64 = A1_MASK | B1_MASK | C1_MASK | D1_MASK | E1_MASK | F1_MASK | G1_MASK | H1_MASK` (board/src/board/constants.rs:248); `none` would be a compile-time overflow -/
def RANK_1_OCCUPANCY : Option UInt64 := (do pure ((((((((← A1_MASK) ||| (← B1_MASK)) ||| (← C1_MASK)) ||| (← D1_MASK)) ||| (← E1_MASK)) ||| (← F1_MASK)) ||| (← G1_MASK)) ||| (← H1_MASK)))

/-- `const RANK_2_OCCUPANCY: u64 = A2_MASK | B2_MASK | C2_MASK | D2_MASK | E2_MASK | F2_MASK | G2_MASK | H2_MASK` (board/src/board/constants.rs:249); `none` would be a compile-time overflow -/
def RANK_2_OCCUPANCY : Option UInt64 := (do pure ((((((((← A2_MASK) ||| (← B2_MASK)) ||| (← C2_MASK)) ||| (← D2_MASK)) ||| (← E2_MASK)) ||| (← F2_MASK)) ||| (← G2_MASK)) ||| (← H2_MASK)))

/-- `const RANK_7_OCCUPANCY: u64 = A7_MASK | B7_MASK | C7_MASK | D7_MASK | E7_MASK | F7_MASK | G7_MASK | H7_MASK` (board/src/board/constants.rs:254); `none` would be a compile-time overflow -/
def RANK_7_OCCUPANCY : Option UInt64 := (do pure ((((((((← A7_MASK) ||| (← B7_MASK)) ||| (← C7_MASK)) ||| (← D7_MASK)) ||| (← E7_MASK)) ||| (← F7_MASK)) ||| (← G7_MASK)) ||| (← H7_MASK)))

/-- `const RANK_8_OCCUPANCY: u64 = A8_MASK | B8_MASK | C8_MASK | D8_MASK | E8_MASK | F8_MASK | G8_MASK | H8_MASK` (board/src/board/constants.rs:255); `none` would be a compile-time overflow -/
def RANK_8_OCCUPANCY : Option UInt64 := (do pure ((((((((← A8_MASK) ||| (← B8_MASK)) ||| (← C8_MASK)) ||| (← D8_MASK)) ||| (← E8_MASK)) ||| (← F8_MASK)) ||| (← G8_MASK)) ||| (← H8_MASK)))

/-- `const CASTLE_MOVE_TRUE_MASK: u64 = CASTLE_MOVE_MASK` (board/src/board/constants.rs:266) -/
def CASTLE_MOVE_TRUE_MASK : UInt64 := CASTLE_MOVE_MASK

/-- `const CASTLE_MOVE_FALSE_MASK: u64 = 0` (board/src/board/constants.rs:267) -/
def CASTLE_MOVE_FALSE_MASK : UInt64 := (0 : UInt64)

/-- `const EN_PASSANT_ATTACK_TRUE_MASK: u64 = EN_PASSANT_ATTACK_MASK` (board/src/board/constants.rs:269) -/
def EN_PASSANT_ATTACK_TRUE_MASK : UInt64 := EN_PASSANT_ATTACK_MASK

/-- `const EN_PASSANT_ATTACK_FALSE_MASK: u64 = 0` (board/src/board/constants.rs:270) -/
def EN_PASSANT_ATTACK_FALSE_MASK : UInt64 := (0 : UInt64)

/-- `const fn mask_and_shift_from_lowest_one_bit(u: OccupancyBits) ->(SquareMaskBits, SquareShiftBits)` in `module level` (board/src/lib.rs:51).
* `u` = parameter `u: u64`
`none` = panic (or out of fuel). -/
def mask_and_shift_from_lowest_one_bit (u : UInt64) : Option (UInt64 × Int) := do
  let shift : Int := u64Tz u
  pure ((← u64Shl (1 : UInt64) shift), shift)

/-- `const fn get_active_and_passive(&self) ->(&PlayerState, &PlayerState)` in `impl Bitboard` (board/src/board.rs:1070).
* `white` = field `self.white: PlayerState`
* `black` = field `self.black: PlayerState`
* `turn` = field `self.turn: u32`
`none` = panic (or out of fuel). -/
def Bitboard.get_active_and_passive (white : Inkayaku.Rs.PlayerState) (black : Inkayaku.Rs.PlayerState) (turn : Int) : Option (Inkayaku.Rs.PlayerState × Inkayaku.Rs.PlayerState) := do
  if (← Bitboard.is_white_turn turn) then do
    pure (white, black)
  else do
    pure (black, white)

/-- `while` loop of `_is_occupancy_in_check` (board/src/board.rs:852).  Reads: color_bits : u32, passive : PlayerState, full_occupancy : u64, ROOK_MAGICS_get_attacks : Int → UInt64 → UInt64, BISHOP_MAGICS_get_attacks : Int → UInt64 → UInt64, KNIGHT_NONMAGICS_get_attacks : Int → UInt64, WHITE_PAWN_NONMAGICS_get_attacks : Int → UInt64, BLACK_PAWN_NONMAGICS_get_attacks : Int → UInt64, KING_NONMAGICS_get_attacks : Int → UInt64.  State: king_occupancy : u64.  `none` = panic or out of fuel; `Ctl.ret r` = the function returned `r` from inside the loop, `Ctl.next s` = the loop ended. -/
def Bitboard._is_occupancy_in_check.while_1 (color_bits : Int) (passive : Inkayaku.Rs.PlayerState) (full_occupancy : UInt64) (ROOK_MAGICS_get_attacks : Int → UInt64 → UInt64) (BISHOP_MAGICS_get_attacks : Int → UInt64 → UInt64) (KNIGHT_NONMAGICS_get_attacks : Int → UInt64) (WHITE_PAWN_NONMAGICS_get_attacks : Int → UInt64) (BLACK_PAWN_NONMAGICS_get_attacks : Int → UInt64) (KING_NONMAGICS_get_attacks : Int → UInt64) : Nat → UInt64 → Option (Ctl Bool (UInt64))
  | 0, _ => none
  | fuel + 1, king_occupancy =>
    if king_occupancy ≠ (0 : UInt64) then do
      let (king_square_mask, king_square_shift) ← mask_and_shift_from_lowest_one_bit king_occupancy
      let king_occupancy : UInt64 := king_occupancy &&& (~~~king_square_mask)
      if (← Bitboard._is_square_in_check color_bits passive king_square_shift full_occupancy ROOK_MAGICS_get_attacks BISHOP_MAGICS_get_attacks KNIGHT_NONMAGICS_get_attacks WHITE_PAWN_NONMAGICS_get_attacks BLACK_PAWN_NONMAGICS_get_attacks KING_NONMAGICS_get_attacks) then do
        pure (Ctl.ret true)
      else do
        Bitboard._is_occupancy_in_check.while_1 color_bits passive full_occupancy ROOK_MAGICS_get_attacks BISHOP_MAGICS_get_attacks KNIGHT_NONMAGICS_get_attacks WHITE_PAWN_NONMAGICS_get_attacks BLACK_PAWN_NONMAGICS_get_attacks KING_NONMAGICS_get_attacks fuel king_occupancy
    else pure (Ctl.next king_occupancy)

/-- `fn _is_occupancy_in_check(color_bits: ColorBits, passive: &PlayerState, full_occupancy: OccupancyBits, mut king_occupancy: OccupancyBits) -> bool` in `impl Bitboard` (board/src/board.rs:851).
* `color_bits` = parameter `color_bits: u32`
* `passive` = parameter `passive: PlayerState`
* `full_occupancy` = parameter `full_occupancy: u64`
* `king_occupancy` = parameter `king_occupancy: u64`
* `ROOK_MAGICS_get_attacks` = OPAQUE associated function `Self::ROOK_MAGICS_get_attacks`
* `BISHOP_MAGICS_get_attacks` = OPAQUE associated function `Self::BISHOP_MAGICS_get_attacks`
* `KNIGHT_NONMAGICS_get_attacks` = OPAQUE associated function `Self::KNIGHT_NONMAGICS_get_attacks`
* `WHITE_PAWN_NONMAGICS_get_attacks` = OPAQUE associated function `Self::WHITE_PAWN_NONMAGICS_get_attacks`
* `BLACK_PAWN_NONMAGICS_get_attacks` = OPAQUE associated function `Self::BLACK_PAWN_NONMAGICS_get_attacks`
* `KING_NONMAGICS_get_attacks` = OPAQUE associated function `Self::KING_NONMAGICS_get_attacks`
* `fuel` = loop fuel (one unit per loop iteration)
`none` = panic (or out of fuel). -/
def Bitboard._is_occupancy_in_check (color_bits : Int) (passive : Inkayaku.Rs.PlayerState) (full_occupancy : UInt64) (king_occupancy : UInt64) (ROOK_MAGICS_get_attacks : Int → UInt64 → UInt64) (BISHOP_MAGICS_get_attacks : Int → UInt64 → UInt64) (KNIGHT_NONMAGICS_get_attacks : Int → UInt64) (WHITE_PAWN_NONMAGICS_get_attacks : Int → UInt64) (BLACK_PAWN_NONMAGICS_get_attacks : Int → UInt64) (KING_NONMAGICS_get_attacks : Int → UInt64) (fuel : Nat) : Option Bool := do
  match (← Bitboard._is_occupancy_in_check.while_1 color_bits passive full_occupancy ROOK_MAGICS_get_attacks BISHOP_MAGICS_get_attacks KNIGHT_NONMAGICS_get_attacks WHITE_PAWN_NONMAGICS_get_attacks BLACK_PAWN_NONMAGICS_get_attacks KING_NONMAGICS_get_attacks fuel king_occupancy) with
  | Ctl.ret r => pure r
  | Ctl.next king_occupancy => do
    pure false

/-- `while` loop of `generate_attacks` (board/src/board.rs:535).  Reads: white : PlayerState, black : PlayerState, turn : u32, en_passant_square_shift : u32, halfmove_clock : u32, non_quiescent_only : bool, source_square_shift : u32, piece : u64.  State: result : Vec<Move>, attack_occupancy : u64.  `none` = panic or out of fuel. -/
def Bitboard.generate_attacks.while_1 (white : Inkayaku.Rs.PlayerState) (black : Inkayaku.Rs.PlayerState) (turn : Int) (en_passant_square_shift : Int) (halfmove_clock : Int) (non_quiescent_only : Bool) (source_square_shift : Int) (piece : UInt64) : Nat → (List (UInt64 × Int)) → UInt64 → Option ((List (UInt64 × Int)) × UInt64)
  | 0, _, _ => none
  | fuel + 1, result, attack_occupancy =>
    if attack_occupancy ≠ (0 : UInt64) then do
      let (target_square_mask, target_square_shift) ← mask_and_shift_from_lowest_one_bit attack_occupancy
      let attack_occupancy : UInt64 := attack_occupancy &&& (~~~target_square_mask)
      let result ← Bitboard.make_move white black turn en_passant_square_shift halfmove_clock result non_quiescent_only source_square_shift target_square_shift piece CASTLE_MOVE_FALSE_MASK EN_PASSANT_ATTACK_FALSE_MASK NO_PIECE NO_SQUARE
      Bitboard.generate_attacks.while_1 white black turn en_passant_square_shift halfmove_clock non_quiescent_only source_square_shift piece fuel result attack_occupancy
    else pure (result, attack_occupancy)

/-- `fn generate_attacks(&self, result: &mut Vec<Move>, non_quiescent_only: bool, source_square_shift: SquareShiftBits, mut attack_occupancy: OccupancyBits, piece: PieceBits,)` in `impl Bitboard` (board/src/board.rs:527).
* `white` = field `self.white: PlayerState`
* `black` = field `self.black: PlayerState`
* `turn` = field `self.turn: u32`
* `en_passant_square_shift` = field `self.en_passant_square_shift: u32`
* `halfmove_clock` = field `self.halfmove_clock: u32`
* `result` = parameter `result: Vec<Move>`
* `non_quiescent_only` = parameter `non_quiescent_only: bool`
* `source_square_shift` = parameter `source_square_shift: u32`
* `attack_occupancy` = parameter `attack_occupancy: u64`
* `piece` = parameter `piece: u64`
* `fuel` = loop fuel (one unit per loop iteration)
Result: the new value of the `&mut` parameter(s) `result`.
`none` = panic (or out of fuel). -/
def Bitboard.generate_attacks (white : Inkayaku.Rs.PlayerState) (black : Inkayaku.Rs.PlayerState) (turn : Int) (en_passant_square_shift : Int) (halfmove_clock : Int) (result : List (UInt64 × Int)) (non_quiescent_only : Bool) (source_square_shift : Int) (attack_occupancy : UInt64) (piece : UInt64) (fuel : Nat) : Option (List (UInt64 × Int)) := do
  let (result, attack_occupancy) ← Bitboard.generate_attacks.while_1 white black turn en_passant_square_shift halfmove_clock non_quiescent_only source_square_shift piece fuel result attack_occupancy
  pure result

/-- `while` loop of `sliding_moves` (board/src/board.rs:338).  Reads: white : PlayerState, black : PlayerState, turn : u32, en_passant_square_shift : u32, halfmove_clock : u32, non_quiescent_only : bool, active_occupancy : u64, full_occupancy : u64, magics : Magics, piece : u64.  State: result : Vec<Move>, piece_occupancy : u64.  `none` = panic or out of fuel. -/
def Bitboard.sliding_moves.while_1 (white : Inkayaku.Rs.PlayerState) (black : Inkayaku.Rs.PlayerState) (turn : Int) (en_passant_square_shift : Int) (halfmove_clock : Int) (non_quiescent_only : Bool) (active_occupancy : UInt64) (full_occupancy : UInt64) (magics : Int → UInt64 → UInt64) (piece : UInt64) : Nat → (List (UInt64 × Int)) → UInt64 → Option ((List (UInt64 × Int)) × UInt64)
  | 0, _, _ => none
  | fuel + 1, result, piece_occupancy =>
    if piece_occupancy ≠ (0 : UInt64) then do
      let (source_square_mask, source_square_shift) ← mask_and_shift_from_lowest_one_bit piece_occupancy
      let piece_occupancy : UInt64 := piece_occupancy &&& (~~~source_square_mask)
      let attack_occupancy : UInt64 := (magics source_square_shift full_occupancy) &&& (~~~active_occupancy)
      let result ← Bitboard.generate_attacks white black turn en_passant_square_shift halfmove_clock result non_quiescent_only source_square_shift attack_occupancy piece fuel
      Bitboard.sliding_moves.while_1 white black turn en_passant_square_shift halfmove_clock non_quiescent_only active_occupancy full_occupancy magics piece fuel result piece_occupancy
    else pure (result, piece_occupancy)

/-- `fn sliding_moves(&self, result: &mut Vec<Move>, non_quiescent_only: bool, mut piece_occupancy: OccupancyBits, active_occupancy: OccupancyBits, full_occupancy: OccupancyBits, magics: &Magics, piece: PieceBits,)` in `impl Bitboard` (board/src/board.rs:328).
* `white` = field `self.white: PlayerState`
* `black` = field `self.black: PlayerState`
* `turn` = field `self.turn: u32`
* `en_passant_square_shift` = field `self.en_passant_square_shift: u32`
* `halfmove_clock` = field `self.halfmove_clock: u32`
* `result` = parameter `result: Vec<Move>`
* `non_quiescent_only` = parameter `non_quiescent_only: bool`
* `piece_occupancy` = parameter `piece_occupancy: u64`
* `active_occupancy` = parameter `active_occupancy: u64`
* `full_occupancy` = parameter `full_occupancy: u64`
* `magics` = parameter `magics: Magics`
* `piece` = parameter `piece: u64`
* `fuel` = loop fuel (one unit per loop iteration)
Result: the new value of the `&mut` parameter(s) `result`.
`none` = panic (or out of fuel). -/
def Bitboard.sliding_moves (white : Inkayaku.Rs.PlayerState) (black : Inkayaku.Rs.PlayerState) (turn : Int) (en_passant_square_shift : Int) (halfmove_clock : Int) (result : List (UInt64 × Int)) (non_quiescent_only : Bool) (piece_occupancy : UInt64) (active_occupancy : UInt64) (full_occupancy : UInt64) (magics : Int → UInt64 → UInt64) (piece : UInt64) (fuel : Nat) : Option (List (UInt64 × Int)) := do
  let (result, piece_occupancy) ← Bitboard.sliding_moves.while_1 white black turn en_passant_square_shift halfmove_clock non_quiescent_only active_occupancy full_occupancy magics piece fuel result piece_occupancy
  pure result

/-- `while` loop of `single_moves` (board/src/board.rs:357).  Reads: white : PlayerState, black : PlayerState, turn : u32, en_passant_square_shift : u32, halfmove_clock : u32, non_quiescent_only : bool, active_occupancy : u64, nonmagics : Nonmagics, piece : u64.  State: result : Vec<Move>, piece_occupancy : u64.  `none` = panic or out of fuel. -/
def Bitboard.single_moves.while_1 (white : Inkayaku.Rs.PlayerState) (black : Inkayaku.Rs.PlayerState) (turn : Int) (en_passant_square_shift : Int) (halfmove_clock : Int) (non_quiescent_only : Bool) (active_occupancy : UInt64) (nonmagics : Int → UInt64) (piece : UInt64) : Nat → (List (UInt64 × Int)) → UInt64 → Option ((List (UInt64 × Int)) × UInt64)
  | 0, _, _ => none
  | fuel + 1, result, piece_occupancy =>
    if piece_occupancy ≠ (0 : UInt64) then do
      let (source_square_mask, source_square_shift) ← mask_and_shift_from_lowest_one_bit piece_occupancy
      let piece_occupancy : UInt64 := piece_occupancy &&& (~~~source_square_mask)
      let attack_occupancy : UInt64 := ((nonmagics source_square_shift)) &&& (~~~active_occupancy)
      let result ← Bitboard.generate_attacks white black turn en_passant_square_shift halfmove_clock result non_quiescent_only source_square_shift attack_occupancy piece fuel
      Bitboard.single_moves.while_1 white black turn en_passant_square_shift halfmove_clock non_quiescent_only active_occupancy nonmagics piece fuel result piece_occupancy
    else pure (result, piece_occupancy)

/-- `fn single_moves(&self, result: &mut Vec<Move>, non_quiescent_only: bool, mut piece_occupancy: OccupancyBits, active_occupancy: OccupancyBits, nonmagics: &Nonmagics, piece: PieceBits,)` in `impl Bitboard` (board/src/board.rs:348).
* `white` = field `self.white: PlayerState`
* `black` = field `self.black: PlayerState`
* `turn` = field `self.turn: u32`
* `en_passant_square_shift` = field `self.en_passant_square_shift: u32`
* `halfmove_clock` = field `self.halfmove_clock: u32`
* `result` = parameter `result: Vec<Move>`
* `non_quiescent_only` = parameter `non_quiescent_only: bool`
* `piece_occupancy` = parameter `piece_occupancy: u64`
* `active_occupancy` = parameter `active_occupancy: u64`
* `nonmagics` = parameter `nonmagics: Nonmagics`
* `piece` = parameter `piece: u64`
* `fuel` = loop fuel (one unit per loop iteration)
Result: the new value of the `&mut` parameter(s) `result`.
`none` = panic (or out of fuel). -/
def Bitboard.single_moves (white : Inkayaku.Rs.PlayerState) (black : Inkayaku.Rs.PlayerState) (turn : Int) (en_passant_square_shift : Int) (halfmove_clock : Int) (result : List (UInt64 × Int)) (non_quiescent_only : Bool) (piece_occupancy : UInt64) (active_occupancy : UInt64) (nonmagics : Int → UInt64) (piece : UInt64) (fuel : Nat) : Option (List (UInt64 × Int)) := do
  let (result, piece_occupancy) ← Bitboard.single_moves.while_1 white black turn en_passant_square_shift halfmove_clock non_quiescent_only active_occupancy nonmagics piece fuel result piece_occupancy
  pure result

/-- `fn generate_pawn_promotion(&self, result: &mut Vec<Move>, source_square_shift: SquareShiftBits, attack_square_shift: SquareShiftBits, promote_to: PieceBits)` in `impl Bitboard` (board/src/board.rs:413).
* `white` = field `self.white: PlayerState`
* `black` = field `self.black: PlayerState`
* `turn` = field `self.turn: u32`
* `en_passant_square_shift` = field `self.en_passant_square_shift: u32`
* `halfmove_clock` = field `self.halfmove_clock: u32`
* `result` = parameter `result: Vec<Move>`
* `source_square_shift` = parameter `source_square_shift: u32`
* `attack_square_shift` = parameter `attack_square_shift: u32`
* `promote_to` = parameter `promote_to: u64`
Result: the new value of the `&mut` parameter(s) `result`.
`none` = panic (or out of fuel). -/
def Bitboard.generate_pawn_promotion (white : Inkayaku.Rs.PlayerState) (black : Inkayaku.Rs.PlayerState) (turn : Int) (en_passant_square_shift : Int) (halfmove_clock : Int) (result : List (UInt64 × Int)) (source_square_shift : Int) (attack_square_shift : Int) (promote_to : UInt64) : Option (List (UInt64 × Int)) := do
  let result ← Bitboard.make_move white black turn en_passant_square_shift halfmove_clock result false source_square_shift attack_square_shift PAWN CASTLE_MOVE_FALSE_MASK EN_PASSANT_ATTACK_FALSE_MASK promote_to NO_SQUARE
  pure result

/-- `fn generate_pawn_promotions(&self, result: &mut Vec<Move>, source_square_shift: SquareShiftBits, target_square_shift: SquareShiftBits)` in `impl Bitboard` (board/src/board.rs:406).
* `white` = field `self.white: PlayerState`
* `black` = field `self.black: PlayerState`
* `turn` = field `self.turn: u32`
* `en_passant_square_shift` = field `self.en_passant_square_shift: u32`
* `halfmove_clock` = field `self.halfmove_clock: u32`
* `result` = parameter `result: Vec<Move>`
* `source_square_shift` = parameter `source_square_shift: u32`
* `target_square_shift` = parameter `target_square_shift: u32`
Result: the new value of the `&mut` parameter(s) `result`.
`none` = panic (or out of fuel). -/
def Bitboard.generate_pawn_promotions (white : Inkayaku.Rs.PlayerState) (black : Inkayaku.Rs.PlayerState) (turn : Int) (en_passant_square_shift : Int) (halfmove_clock : Int) (result : List (UInt64 × Int)) (source_square_shift : Int) (target_square_shift : Int) : Option (List (UInt64 × Int)) := do
  let result ← Bitboard.generate_pawn_promotion white black turn en_passant_square_shift halfmove_clock result source_square_shift target_square_shift QUEEN
  let result ← Bitboard.generate_pawn_promotion white black turn en_passant_square_shift halfmove_clock result source_square_shift target_square_shift ROOK
  let result ← Bitboard.generate_pawn_promotion white black turn en_passant_square_shift halfmove_clock result source_square_shift target_square_shift BISHOP
  let result ← Bitboard.generate_pawn_promotion white black turn en_passant_square_shift halfmove_clock result source_square_shift target_square_shift KNIGHT
  pure result

/-- `while` loop of `generate_pawn_attacks` (board/src/board.rs:382).  Reads: white : PlayerState, black : PlayerState, turn : u32, en_passant_square_shift : u32, halfmove_clock : u32, source_square_shift : u32.  State: result : Vec<Move>, attack_occupancy : u64.  `none` = panic or out of fuel. -/
def Bitboard.generate_pawn_attacks.while_1 (white : Inkayaku.Rs.PlayerState) (black : Inkayaku.Rs.PlayerState) (turn : Int) (en_passant_square_shift : Int) (halfmove_clock : Int) (source_square_shift : Int) : Nat → (List (UInt64 × Int)) → UInt64 → Option ((List (UInt64 × Int)) × UInt64)
  | 0, _, _ => none
  | fuel + 1, result, attack_occupancy =>
    if attack_occupancy ≠ (0 : UInt64) then do
      let (attack_square_mask, attack_square_shift) ← mask_and_shift_from_lowest_one_bit attack_occupancy
      let attack_occupancy : UInt64 := attack_occupancy &&& (~~~attack_square_mask)
      let result ← (
        if (← (if (attack_square_mask &&& (← RANK_8_OCCUPANCY)) ≠ (0 : UInt64) then pure true else (do pure (decide ((attack_square_mask &&& (← RANK_1_OCCUPANCY)) ≠ (0 : UInt64)))))) then do
          let result ← Bitboard.generate_pawn_promotions white black turn en_passant_square_shift halfmove_clock result source_square_shift attack_square_shift
          pure result
        else do
          let is_en_passant : Bool := decide (attack_square_shift = en_passant_square_shift)
          let result ← Bitboard.make_move white black turn en_passant_square_shift halfmove_clock result false source_square_shift attack_square_shift PAWN CASTLE_MOVE_FALSE_MASK (if is_en_passant then EN_PASSANT_ATTACK_TRUE_MASK else EN_PASSANT_ATTACK_FALSE_MASK) NO_PIECE NO_SQUARE
          pure result)
      Bitboard.generate_pawn_attacks.while_1 white black turn en_passant_square_shift halfmove_clock source_square_shift fuel result attack_occupancy
    else pure (result, attack_occupancy)

/-- `fn generate_pawn_attacks(&self, result: &mut Vec<Move>, mut attack_occupancy: OccupancyBits, source_square_shift: SquareShiftBits)` in `impl Bitboard` (board/src/board.rs:381).
* `white` = field `self.white: PlayerState`
* `black` = field `self.black: PlayerState`
* `turn` = field `self.turn: u32`
* `en_passant_square_shift` = field `self.en_passant_square_shift: u32`
* `halfmove_clock` = field `self.halfmove_clock: u32`
* `result` = parameter `result: Vec<Move>`
* `attack_occupancy` = parameter `attack_occupancy: u64`
* `source_square_shift` = parameter `source_square_shift: u32`
* `fuel` = loop fuel (one unit per loop iteration)
Result: the new value of the `&mut` parameter(s) `result`.
`none` = panic (or out of fuel). -/
def Bitboard.generate_pawn_attacks (white : Inkayaku.Rs.PlayerState) (black : Inkayaku.Rs.PlayerState) (turn : Int) (en_passant_square_shift : Int) (halfmove_clock : Int) (result : List (UInt64 × Int)) (attack_occupancy : UInt64) (source_square_shift : Int) (fuel : Nat) : Option (List (UInt64 × Int)) := do
  let (result, attack_occupancy) ← Bitboard.generate_pawn_attacks.while_1 white black turn en_passant_square_shift halfmove_clock source_square_shift fuel result attack_occupancy
  pure result

/-- `while` loop of `pawn_attacks` (board/src/board.rs:369).  Reads: white : PlayerState, black : PlayerState, turn : u32, en_passant_square_shift : u32, halfmove_clock : u32, active_occupancy : u64, passive_occupancy : u64, pawn_attacks : Nonmagics.  State: result : Vec<Move>, pawn_occupancy : u64.  `none` = panic or out of fuel. -/
def Bitboard.pawn_attacks.while_1 (white : Inkayaku.Rs.PlayerState) (black : Inkayaku.Rs.PlayerState) (turn : Int) (en_passant_square_shift : Int) (halfmove_clock : Int) (active_occupancy : UInt64) (passive_occupancy : UInt64) (pawn_attacks : Int → UInt64) : Nat → (List (UInt64 × Int)) → UInt64 → Option ((List (UInt64 × Int)) × UInt64)
  | 0, _, _ => none
  | fuel + 1, result, pawn_occupancy =>
    if pawn_occupancy ≠ (0 : UInt64) then do
      let (source_square_mask, source_square_shift) ← mask_and_shift_from_lowest_one_bit pawn_occupancy
      let pawn_occupancy : UInt64 := pawn_occupancy &&& (~~~source_square_mask)
      let attack_occupancy : UInt64 := (((pawn_attacks source_square_shift)) &&& (passive_occupancy ||| ((← u64Shl (1 : UInt64) en_passant_square_shift) &&& (~~~((← RANK_1_OCCUPANCY) ||| (← RANK_8_OCCUPANCY)))))) &&& (~~~active_occupancy)
      let result ← Bitboard.generate_pawn_attacks white black turn en_passant_square_shift halfmove_clock result attack_occupancy source_square_shift fuel
      Bitboard.pawn_attacks.while_1 white black turn en_passant_square_shift halfmove_clock active_occupancy passive_occupancy pawn_attacks fuel result pawn_occupancy
    else pure (result, pawn_occupancy)

/-- `fn pawn_attacks(&self, result: &mut Vec<Move>, mut pawn_occupancy: OccupancyBits, active_occupancy: OccupancyBits, passive_occupancy: OccupancyBits)` in `impl Bitboard` (board/src/board.rs:366).
* `white` = field `self.white: PlayerState`
* `black` = field `self.black: PlayerState`
* `turn` = field `self.turn: u32`
* `en_passant_square_shift` = field `self.en_passant_square_shift: u32`
* `halfmove_clock` = field `self.halfmove_clock: u32`
* `result` = parameter `result: Vec<Move>`
* `pawn_occupancy` = parameter `pawn_occupancy: u64`
* `active_occupancy` = parameter `active_occupancy: u64`
* `passive_occupancy` = parameter `passive_occupancy: u64`
* `WHITE_PAWN_NONMAGICS_get_attacks` = OPAQUE associated function `Self::WHITE_PAWN_NONMAGICS_get_attacks`
* `BLACK_PAWN_NONMAGICS_get_attacks` = OPAQUE associated function `Self::BLACK_PAWN_NONMAGICS_get_attacks`
* `fuel` = loop fuel (one unit per loop iteration)
Result: the new value of the `&mut` parameter(s) `result`.
`none` = panic (or out of fuel). -/
def Bitboard.pawn_attacks (white : Inkayaku.Rs.PlayerState) (black : Inkayaku.Rs.PlayerState) (turn : Int) (en_passant_square_shift : Int) (halfmove_clock : Int) (result : List (UInt64 × Int)) (pawn_occupancy : UInt64) (active_occupancy : UInt64) (passive_occupancy : UInt64) (WHITE_PAWN_NONMAGICS_get_attacks : Int → UInt64) (BLACK_PAWN_NONMAGICS_get_attacks : Int → UInt64) (fuel : Nat) : Option (List (UInt64 × Int)) := do
  let pawn_attacks : Int → UInt64 ← (
    if (← Bitboard.is_white_turn turn) then do
      pure WHITE_PAWN_NONMAGICS_get_attacks
    else do
      pure BLACK_PAWN_NONMAGICS_get_attacks)
  let (result, pawn_occupancy) ← Bitboard.pawn_attacks.while_1 white black turn en_passant_square_shift halfmove_clock active_occupancy passive_occupancy pawn_attacks fuel result pawn_occupancy
  pure result

/-- `while` loop of `pawn_moves` (board/src/board.rs:428).  Reads: white : PlayerState, black : PlayerState, turn : u32, en_passant_square_shift : u32, halfmove_clock : u32, non_quiescent_only : bool, full_occupancy : u64.  State: result : Vec<Move>, pawn_occupancy : u64.  `none` = panic or out of fuel. -/
def Bitboard.pawn_moves.while_1 (white : Inkayaku.Rs.PlayerState) (black : Inkayaku.Rs.PlayerState) (turn : Int) (en_passant_square_shift : Int) (halfmove_clock : Int) (non_quiescent_only : Bool) (full_occupancy : UInt64) : Nat → (List (UInt64 × Int)) → UInt64 → Option ((List (UInt64 × Int)) × UInt64)
  | 0, _, _ => none
  | fuel + 1, result, pawn_occupancy =>
    if pawn_occupancy ≠ (0 : UInt64) then do
      let (source_square_mask, source_square_shift) ← mask_and_shift_from_lowest_one_bit pawn_occupancy
      let pawn_occupancy : UInt64 := pawn_occupancy &&& (~~~source_square_mask)
      let is_white_turn : Bool ← Bitboard.is_white_turn turn
      let (single_move_target_mask, promote_rank) ← (
        if is_white_turn then do
          pure ((← u64Shr source_square_mask 8), (← RANK_8_OCCUPANCY))
        else do
          pure ((← u64Shl source_square_mask 8), (← RANK_1_OCCUPANCY)))
      let single_move_target_shift : Int := u64Tz single_move_target_mask
      let result ← (
        if (single_move_target_mask &&& full_occupancy) = (0 : UInt64) then do
          let result ← (
            if (single_move_target_mask &&& promote_rank) = (0 : UInt64) then do
              let result ← Bitboard.make_move white black turn en_passant_square_shift halfmove_clock result non_quiescent_only source_square_shift single_move_target_shift PAWN CASTLE_MOVE_FALSE_MASK EN_PASSANT_ATTACK_FALSE_MASK NO_PIECE NO_SQUARE
              let (double_move_target_mask, double_move_source_rank) ← (
                if is_white_turn then do
                  pure ((← u64Shr single_move_target_mask 8), (← RANK_2_OCCUPANCY))
                else do
                  pure ((← u64Shl single_move_target_mask 8), (← RANK_7_OCCUPANCY)))
              let result ← (
                if ((source_square_mask &&& double_move_source_rank) ≠ (0 : UInt64)) ∧ ((double_move_target_mask &&& full_occupancy) = (0 : UInt64)) then do
                  let result ← Bitboard.make_move white black turn en_passant_square_shift halfmove_clock result non_quiescent_only source_square_shift (u64Tz double_move_target_mask) PAWN CASTLE_MOVE_FALSE_MASK EN_PASSANT_ATTACK_FALSE_MASK NO_PIECE single_move_target_shift
                  pure result
                else do
                  pure result)
              pure result
            else do
              let result ← Bitboard.generate_pawn_promotions white black turn en_passant_square_shift halfmove_clock result source_square_shift single_move_target_shift
              pure result)
          pure result
        else do
          pure result)
      Bitboard.pawn_moves.while_1 white black turn en_passant_square_shift halfmove_clock non_quiescent_only full_occupancy fuel result pawn_occupancy
    else pure (result, pawn_occupancy)

/-- `fn pawn_moves(&self, result: &mut Vec<Move>, non_quiescent_only: bool, mut pawn_occupancy: OccupancyBits, full_occupancy: OccupancyBits)` in `impl Bitboard` (board/src/board.rs:427).
* `white` = field `self.white: PlayerState`
* `black` = field `self.black: PlayerState`
* `turn` = field `self.turn: u32`
* `en_passant_square_shift` = field `self.en_passant_square_shift: u32`
* `halfmove_clock` = field `self.halfmove_clock: u32`
* `result` = parameter `result: Vec<Move>`
* `non_quiescent_only` = parameter `non_quiescent_only: bool`
* `pawn_occupancy` = parameter `pawn_occupancy: u64`
* `full_occupancy` = parameter `full_occupancy: u64`
* `fuel` = loop fuel (one unit per loop iteration)
Result: the new value of the `&mut` parameter(s) `result`.
`none` = panic (or out of fuel). -/
def Bitboard.pawn_moves (white : Inkayaku.Rs.PlayerState) (black : Inkayaku.Rs.PlayerState) (turn : Int) (en_passant_square_shift : Int) (halfmove_clock : Int) (result : List (UInt64 × Int)) (non_quiescent_only : Bool) (pawn_occupancy : UInt64) (full_occupancy : UInt64) (fuel : Nat) : Option (List (UInt64 × Int)) := do
  let (result, pawn_occupancy) ← Bitboard.pawn_moves.while_1 white black turn en_passant_square_shift halfmove_clock non_quiescent_only full_occupancy fuel result pawn_occupancy
  pure result

/-- `fn make_castle_move(&self, result: &mut Vec<Move>, king_source_square_shift: SquareShiftBits, king_target_square_shift: SquareShiftBits)` in `impl Bitboard` (board/src/board.rs:513).
* `white` = field `self.white: PlayerState`
* `black` = field `self.black: PlayerState`
* `turn` = field `self.turn: u32`
* `en_passant_square_shift` = field `self.en_passant_square_shift: u32`
* `halfmove_clock` = field `self.halfmove_clock: u32`
* `result` = parameter `result: Vec<Move>`
* `king_source_square_shift` = parameter `king_source_square_shift: u32`
* `king_target_square_shift` = parameter `king_target_square_shift: u32`
Result: the new value of the `&mut` parameter(s) `result`.
`none` = panic (or out of fuel). -/
def Bitboard.make_castle_move (white : Inkayaku.Rs.PlayerState) (black : Inkayaku.Rs.PlayerState) (turn : Int) (en_passant_square_shift : Int) (halfmove_clock : Int) (result : List (UInt64 × Int)) (king_source_square_shift : Int) (king_target_square_shift : Int) : Option (List (UInt64 × Int)) := do
  let result ← Bitboard.make_move white black turn en_passant_square_shift halfmove_clock result false king_source_square_shift king_target_square_shift KING CASTLE_MOVE_TRUE_MASK EN_PASSANT_ATTACK_FALSE_MASK NO_PIECE NO_SQUARE
  pure result

/-- `fn castle_moves(&self, result: &mut Vec<Move>, full_occupancy: OccupancyBits)` in `impl Bitboard` (board/src/board.rs:484).
* `white` = field `self.white: PlayerState`
* `black` = field `self.black: PlayerState`
* `turn` = field `self.turn: u32`
* `en_passant_square_shift` = field `self.en_passant_square_shift: u32`
* `halfmove_clock` = field `self.halfmove_clock: u32`
* `result` = parameter `result: Vec<Move>`
* `full_occupancy` = parameter `full_occupancy: u64`
* `ROOK_MAGICS_get_attacks` = OPAQUE associated function `Self::ROOK_MAGICS_get_attacks`
* `BISHOP_MAGICS_get_attacks` = OPAQUE associated function `Self::BISHOP_MAGICS_get_attacks`
* `KNIGHT_NONMAGICS_get_attacks` = OPAQUE associated function `Self::KNIGHT_NONMAGICS_get_attacks`
* `WHITE_PAWN_NONMAGICS_get_attacks` = OPAQUE associated function `Self::WHITE_PAWN_NONMAGICS_get_attacks`
* `BLACK_PAWN_NONMAGICS_get_attacks` = OPAQUE associated function `Self::BLACK_PAWN_NONMAGICS_get_attacks`
* `KING_NONMAGICS_get_attacks` = OPAQUE associated function `Self::KING_NONMAGICS_get_attacks`
* `fuel` = loop fuel (one unit per loop iteration)
Result: the new value of the `&mut` parameter(s) `result`.
`none` = panic (or out of fuel). -/
def Bitboard.castle_moves (white : Inkayaku.Rs.PlayerState) (black : Inkayaku.Rs.PlayerState) (turn : Int) (en_passant_square_shift : Int) (halfmove_clock : Int) (result : List (UInt64 × Int)) (full_occupancy : UInt64) (ROOK_MAGICS_get_attacks : Int → UInt64 → UInt64) (BISHOP_MAGICS_get_attacks : Int → UInt64 → UInt64) (KNIGHT_NONMAGICS_get_attacks : Int → UInt64) (WHITE_PAWN_NONMAGICS_get_attacks : Int → UInt64) (BLACK_PAWN_NONMAGICS_get_attacks : Int → UInt64) (KING_NONMAGICS_get_attacks : Int → UInt64) (fuel : Nat) : Option (List (UInt64 × Int)) := do
  if (← Bitboard.is_white_turn turn) then do
    let result ← (
      if (← (if (← (if white.queen_side_castle then (do pure (decide ((full_occupancy &&& (← WHITE_QUEEN_SIDE_CASTLE_EMPTY_OCCUPANCY)) = (0 : UInt64)))) else pure false)) then (do pure (!(← Bitboard._is_occupancy_in_check WHITE black full_occupancy (← WHITE_QUEEN_SIDE_CASTLE_CHECK_OCCUPANCY) ROOK_MAGICS_get_attacks BISHOP_MAGICS_get_attacks KNIGHT_NONMAGICS_get_attacks WHITE_PAWN_NONMAGICS_get_attacks BLACK_PAWN_NONMAGICS_get_attacks KING_NONMAGICS_get_attacks fuel))) else pure false)) then do
        let result ← Bitboard.make_castle_move white black turn en_passant_square_shift halfmove_clock result E1 C1
        pure result
      else do
        pure result)
    if (← (if (← (if white.king_side_castle then (do pure (decide ((full_occupancy &&& (← WHITE_KING_SIDE_CASTLE_EMPTY_OCCUPANCY)) = (0 : UInt64)))) else pure false)) then (do pure (!(← Bitboard._is_occupancy_in_check WHITE black full_occupancy (← WHITE_KING_SIDE_CASTLE_CHECK_OCCUPANCY) ROOK_MAGICS_get_attacks BISHOP_MAGICS_get_attacks KNIGHT_NONMAGICS_get_attacks WHITE_PAWN_NONMAGICS_get_attacks BLACK_PAWN_NONMAGICS_get_attacks KING_NONMAGICS_get_attacks fuel))) else pure false)) then do
      let result ← Bitboard.make_castle_move white black turn en_passant_square_shift halfmove_clock result E1 G1
      pure result
    else do
      pure result
  else do
    let result ← (
      if (← (if (← (if black.queen_side_castle then (do pure (decide ((full_occupancy &&& (← BLACK_QUEEN_SIDE_CASTLE_EMPTY_OCCUPANCY)) = (0 : UInt64)))) else pure false)) then (do pure (!(← Bitboard._is_occupancy_in_check BLACK white full_occupancy (← BLACK_QUEEN_SIDE_CASTLE_CHECK_OCCUPANCY) ROOK_MAGICS_get_attacks BISHOP_MAGICS_get_attacks KNIGHT_NONMAGICS_get_attacks WHITE_PAWN_NONMAGICS_get_attacks BLACK_PAWN_NONMAGICS_get_attacks KING_NONMAGICS_get_attacks fuel))) else pure false)) then do
        let result ← Bitboard.make_castle_move white black turn en_passant_square_shift halfmove_clock result E8 C8
        pure result
      else do
        pure result)
    if (← (if (← (if black.king_side_castle then (do pure (decide ((full_occupancy &&& (← BLACK_KING_SIDE_CASTLE_EMPTY_OCCUPANCY)) = (0 : UInt64)))) else pure false)) then (do pure (!(← Bitboard._is_occupancy_in_check BLACK white full_occupancy (← BLACK_KING_SIDE_CASTLE_CHECK_OCCUPANCY) ROOK_MAGICS_get_attacks BISHOP_MAGICS_get_attacks KNIGHT_NONMAGICS_get_attacks WHITE_PAWN_NONMAGICS_get_attacks BLACK_PAWN_NONMAGICS_get_attacks KING_NONMAGICS_get_attacks fuel))) else pure false)) then do
      let result ← Bitboard.make_castle_move white black turn en_passant_square_shift halfmove_clock result E8 G8
      pure result
    else do
      pure result

/-- `fn generate_pseudo_legal_moves_with_buffer(&self, result: &mut Vec<Move>)` in `impl Bitboard` (board/src/board.rs:279).
* `white` = field `self.white: PlayerState`
* `black` = field `self.black: PlayerState`
* `turn` = field `self.turn: u32`
* `en_passant_square_shift` = field `self.en_passant_square_shift: u32`
* `halfmove_clock` = field `self.halfmove_clock: u32`
* `result` = parameter `result: Vec<Move>`
* `ROOK_MAGICS_get_attacks` = OPAQUE associated function `Self::ROOK_MAGICS_get_attacks`
* `BISHOP_MAGICS_get_attacks` = OPAQUE associated function `Self::BISHOP_MAGICS_get_attacks`
* `KNIGHT_NONMAGICS_get_attacks` = OPAQUE associated function `Self::KNIGHT_NONMAGICS_get_attacks`
* `KING_NONMAGICS_get_attacks` = OPAQUE associated function `Self::KING_NONMAGICS_get_attacks`
* `WHITE_PAWN_NONMAGICS_get_attacks` = OPAQUE associated function `Self::WHITE_PAWN_NONMAGICS_get_attacks`
* `BLACK_PAWN_NONMAGICS_get_attacks` = OPAQUE associated function `Self::BLACK_PAWN_NONMAGICS_get_attacks`
* `fuel` = loop fuel (one unit per loop iteration)
Result: the new value of the `&mut` parameter(s) `result`.
`none` = panic (or out of fuel). -/
def Bitboard.generate_pseudo_legal_moves_with_buffer (white : Inkayaku.Rs.PlayerState) (black : Inkayaku.Rs.PlayerState) (turn : Int) (en_passant_square_shift : Int) (halfmove_clock : Int) (result : List (UInt64 × Int)) (ROOK_MAGICS_get_attacks : Int → UInt64 → UInt64) (BISHOP_MAGICS_get_attacks : Int → UInt64 → UInt64) (KNIGHT_NONMAGICS_get_attacks : Int → UInt64) (KING_NONMAGICS_get_attacks : Int → UInt64) (WHITE_PAWN_NONMAGICS_get_attacks : Int → UInt64) (BLACK_PAWN_NONMAGICS_get_attacks : Int → UInt64) (fuel : Nat) : Option (List (UInt64 × Int)) := do
  let (active, passive) ← Bitboard.get_active_and_passive white black turn
  let active_occupancy : UInt64 ← PlayerState.full_occupancy active.occupancy
  let passive_occupancy : UInt64 ← PlayerState.full_occupancy passive.occupancy
  let full_occupancy : UInt64 := active_occupancy ||| passive_occupancy
  let result ← Bitboard.sliding_moves white black turn en_passant_square_shift halfmove_clock result false (← PlayerState.queens active.occupancy) active_occupancy full_occupancy ROOK_MAGICS_get_attacks QUEEN fuel
  let result ← Bitboard.sliding_moves white black turn en_passant_square_shift halfmove_clock result false (← PlayerState.queens active.occupancy) active_occupancy full_occupancy BISHOP_MAGICS_get_attacks QUEEN fuel
  let result ← Bitboard.sliding_moves white black turn en_passant_square_shift halfmove_clock result false (← PlayerState.bishops active.occupancy) active_occupancy full_occupancy BISHOP_MAGICS_get_attacks BISHOP fuel
  let result ← Bitboard.sliding_moves white black turn en_passant_square_shift halfmove_clock result false (← PlayerState.rooks active.occupancy) active_occupancy full_occupancy ROOK_MAGICS_get_attacks ROOK fuel
  let result ← Bitboard.single_moves white black turn en_passant_square_shift halfmove_clock result false (← PlayerState.knights active.occupancy) active_occupancy KNIGHT_NONMAGICS_get_attacks KNIGHT fuel
  let result ← Bitboard.single_moves white black turn en_passant_square_shift halfmove_clock result false (← PlayerState.kings active.occupancy) active_occupancy KING_NONMAGICS_get_attacks KING fuel
  let result ← Bitboard.pawn_attacks white black turn en_passant_square_shift halfmove_clock result (← PlayerState.pawns active.occupancy) active_occupancy passive_occupancy WHITE_PAWN_NONMAGICS_get_attacks BLACK_PAWN_NONMAGICS_get_attacks fuel
  let result ← Bitboard.pawn_moves white black turn en_passant_square_shift halfmove_clock result false (← PlayerState.pawns active.occupancy) full_occupancy fuel
  let result ← Bitboard.castle_moves white black turn en_passant_square_shift halfmove_clock result full_occupancy ROOK_MAGICS_get_attacks BISHOP_MAGICS_get_attacks KNIGHT_NONMAGICS_get_attacks WHITE_PAWN_NONMAGICS_get_attacks BLACK_PAWN_NONMAGICS_get_attacks KING_NONMAGICS_get_attacks fuel
  pure result

/-- `fn generate_pseudo_legal_non_quiescent_moves_with_buffer(&self, result: &mut Vec<Move>)` in `impl Bitboard` (board/src/board.rs:307).
* `white` = field `self.white: PlayerState`
* `black` = field `self.black: PlayerState`
* `turn` = field `self.turn: u32`
* `en_passant_square_shift` = field `self.en_passant_square_shift: u32`
* `halfmove_clock` = field `self.halfmove_clock: u32`
* `result` = parameter `result: Vec<Move>`
* `ROOK_MAGICS_get_attacks` = OPAQUE associated function `Self::ROOK_MAGICS_get_attacks`
* `BISHOP_MAGICS_get_attacks` = OPAQUE associated function `Self::BISHOP_MAGICS_get_attacks`
* `KNIGHT_NONMAGICS_get_attacks` = OPAQUE associated function `Self::KNIGHT_NONMAGICS_get_attacks`
* `KING_NONMAGICS_get_attacks` = OPAQUE associated function `Self::KING_NONMAGICS_get_attacks`
* `WHITE_PAWN_NONMAGICS_get_attacks` = OPAQUE associated function `Self::WHITE_PAWN_NONMAGICS_get_attacks`
* `BLACK_PAWN_NONMAGICS_get_attacks` = OPAQUE associated function `Self::BLACK_PAWN_NONMAGICS_get_attacks`
* `fuel` = loop fuel (one unit per loop iteration)
Result: the new value of the `&mut` parameter(s) `result`.
`none` = panic (or out of fuel). -/
def Bitboard.generate_pseudo_legal_non_quiescent_moves_with_buffer (white : Inkayaku.Rs.PlayerState) (black : Inkayaku.Rs.PlayerState) (turn : Int) (en_passant_square_shift : Int) (halfmove_clock : Int) (result : List (UInt64 × Int)) (ROOK_MAGICS_get_attacks : Int → UInt64 → UInt64) (BISHOP_MAGICS_get_attacks : Int → UInt64 → UInt64) (KNIGHT_NONMAGICS_get_attacks : Int → UInt64) (KING_NONMAGICS_get_attacks : Int → UInt64) (WHITE_PAWN_NONMAGICS_get_attacks : Int → UInt64) (BLACK_PAWN_NONMAGICS_get_attacks : Int → UInt64) (fuel : Nat) : Option (List (UInt64 × Int)) := do
  let (active, passive) ← Bitboard.get_active_and_passive white black turn
  let active_occupancy : UInt64 ← PlayerState.full_occupancy active.occupancy
  let passive_occupancy : UInt64 ← PlayerState.full_occupancy passive.occupancy
  let full_occupancy : UInt64 := active_occupancy ||| passive_occupancy
  let result ← Bitboard.sliding_moves white black turn en_passant_square_shift halfmove_clock result true (← PlayerState.queens active.occupancy) active_occupancy full_occupancy ROOK_MAGICS_get_attacks QUEEN fuel
  let result ← Bitboard.sliding_moves white black turn en_passant_square_shift halfmove_clock result true (← PlayerState.queens active.occupancy) active_occupancy full_occupancy BISHOP_MAGICS_get_attacks QUEEN fuel
  let result ← Bitboard.sliding_moves white black turn en_passant_square_shift halfmove_clock result true (← PlayerState.bishops active.occupancy) active_occupancy full_occupancy BISHOP_MAGICS_get_attacks BISHOP fuel
  let result ← Bitboard.sliding_moves white black turn en_passant_square_shift halfmove_clock result true (← PlayerState.rooks active.occupancy) active_occupancy full_occupancy ROOK_MAGICS_get_attacks ROOK fuel
  let result ← Bitboard.single_moves white black turn en_passant_square_shift halfmove_clock result true (← PlayerState.knights active.occupancy) active_occupancy KNIGHT_NONMAGICS_get_attacks KNIGHT fuel
  let result ← Bitboard.single_moves white black turn en_passant_square_shift halfmove_clock result true (← PlayerState.kings active.occupancy) active_occupancy KING_NONMAGICS_get_attacks KING fuel
  let result ← Bitboard.pawn_attacks white black turn en_passant_square_shift halfmove_clock result (← PlayerState.pawns active.occupancy) active_occupancy passive_occupancy WHITE_PAWN_NONMAGICS_get_attacks BLACK_PAWN_NONMAGICS_get_attacks fuel
  let result ← Bitboard.pawn_moves white black turn en_passant_square_shift halfmove_clock result true (← PlayerState.pawns active.occupancy) full_occupancy fuel
  pure result

/-- `fn generate_pseudo_legal_moves(&self) -> Vec<Move>` in `impl Bitboard` (board/src/board.rs:273).
* `white` = field `self.white: PlayerState`
* `black` = field `self.black: PlayerState`
* `turn` = field `self.turn: u32`
* `en_passant_square_shift` = field `self.en_passant_square_shift: u32`
* `halfmove_clock` = field `self.halfmove_clock: u32`
* `ROOK_MAGICS_get_attacks` = OPAQUE associated function `Self::ROOK_MAGICS_get_attacks`
* `BISHOP_MAGICS_get_attacks` = OPAQUE associated function `Self::BISHOP_MAGICS_get_attacks`
* `KNIGHT_NONMAGICS_get_attacks` = OPAQUE associated function `Self::KNIGHT_NONMAGICS_get_attacks`
* `KING_NONMAGICS_get_attacks` = OPAQUE associated function `Self::KING_NONMAGICS_get_attacks`
* `WHITE_PAWN_NONMAGICS_get_attacks` = OPAQUE associated function `Self::WHITE_PAWN_NONMAGICS_get_attacks`
* `BLACK_PAWN_NONMAGICS_get_attacks` = OPAQUE associated function `Self::BLACK_PAWN_NONMAGICS_get_attacks`
* `fuel` = loop fuel (one unit per loop iteration)
`none` = panic (or out of fuel). -/
def Bitboard.generate_pseudo_legal_moves (white : Inkayaku.Rs.PlayerState) (black : Inkayaku.Rs.PlayerState) (turn : Int) (en_passant_square_shift : Int) (halfmove_clock : Int) (ROOK_MAGICS_get_attacks : Int → UInt64 → UInt64) (BISHOP_MAGICS_get_attacks : Int → UInt64 → UInt64) (KNIGHT_NONMAGICS_get_attacks : Int → UInt64) (KING_NONMAGICS_get_attacks : Int → UInt64) (WHITE_PAWN_NONMAGICS_get_attacks : Int → UInt64) (BLACK_PAWN_NONMAGICS_get_attacks : Int → UInt64) (fuel : Nat) : Option (List (UInt64 × Int)) := do
  let buffer : List _ := []
  let buffer ← Bitboard.generate_pseudo_legal_moves_with_buffer white black turn en_passant_square_shift halfmove_clock buffer ROOK_MAGICS_get_attacks BISHOP_MAGICS_get_attacks KNIGHT_NONMAGICS_get_attacks KING_NONMAGICS_get_attacks WHITE_PAWN_NONMAGICS_get_attacks BLACK_PAWN_NONMAGICS_get_attacks fuel
  pure buffer

/-- `fn generate_pseudo_legal_non_quiescent_moves(&self) -> Vec<Move>` in `impl Bitboard` (board/src/board.rs:301).
* `white` = field `self.white: PlayerState`
* `black` = field `self.black: PlayerState`
* `turn` = field `self.turn: u32`
* `en_passant_square_shift` = field `self.en_passant_square_shift: u32`
* `halfmove_clock` = field `self.halfmove_clock: u32`
* `ROOK_MAGICS_get_attacks` = OPAQUE associated function `Self::ROOK_MAGICS_get_attacks`
* `BISHOP_MAGICS_get_attacks` = OPAQUE associated function `Self::BISHOP_MAGICS_get_attacks`
* `KNIGHT_NONMAGICS_get_attacks` = OPAQUE associated function `Self::KNIGHT_NONMAGICS_get_attacks`
* `KING_NONMAGICS_get_attacks` = OPAQUE associated function `Self::KING_NONMAGICS_get_attacks`
* `WHITE_PAWN_NONMAGICS_get_attacks` = OPAQUE associated function `Self::WHITE_PAWN_NONMAGICS_get_attacks`
* `BLACK_PAWN_NONMAGICS_get_attacks` = OPAQUE associated function `Self::BLACK_PAWN_NONMAGICS_get_attacks`
* `fuel` = loop fuel (one unit per loop iteration)
`none` = panic (or out of fuel). -/
def Bitboard.generate_pseudo_legal_non_quiescent_moves (white : Inkayaku.Rs.PlayerState) (black : Inkayaku.Rs.PlayerState) (turn : Int) (en_passant_square_shift : Int) (halfmove_clock : Int) (ROOK_MAGICS_get_attacks : Int → UInt64 → UInt64) (BISHOP_MAGICS_get_attacks : Int → UInt64 → UInt64) (KNIGHT_NONMAGICS_get_attacks : Int → UInt64) (KING_NONMAGICS_get_attacks : Int → UInt64) (WHITE_PAWN_NONMAGICS_get_attacks : Int → UInt64) (BLACK_PAWN_NONMAGICS_get_attacks : Int → UInt64) (fuel : Nat) : Option (List (UInt64 × Int)) := do
  let buffer : List _ := []
  let buffer ← Bitboard.generate_pseudo_legal_non_quiescent_moves_with_buffer white black turn en_passant_square_shift halfmove_clock buffer ROOK_MAGICS_get_attacks BISHOP_MAGICS_get_attacks KNIGHT_NONMAGICS_get_attacks KING_NONMAGICS_get_attacks WHITE_PAWN_NONMAGICS_get_attacks BLACK_PAWN_NONMAGICS_get_attacks fuel
  pure buffer

end Inkayaku.Rs
