/-
GENERATED FILE — do not edit.  Regenerated from the CURRENT Rust sources by /verif/translator:
    rs2lean <repo root> <out dir>
Module `MakeUnmake`.  Semantics of the translation: see the header of `Prelude.lean`.
Rust sources: board/src/board/constants.rs, board/src/board.rs
-/
import Inkayaku.Gen.Rs.Prelude
import Inkayaku.Gen.Rs.Check
import Inkayaku.Gen.Rs.MoveBits

set_option linter.unusedVariables false

namespace Inkayaku.Rs

/-- `const A1_MASK: u64 = 1 << A1` (board/src/board/constants.rs:226); `none` would be a compile-time overflow -/
def A1_MASK : Option UInt64 := (u64Shl (1 : UInt64) A1)

/-- `const D1_MASK: u64 = 1 << D1` (board/src/board/constants.rs:229); `none` would be a compile-time overflow -/
def D1_MASK : Option UInt64 := (u64Shl (1 : UInt64) D1)

/-- `const F1_MASK: u64 = 1 << F1` (board/src/board/constants.rs:231); `none` would be a compile-time overflow -/
def F1_MASK : Option UInt64 := (u64Shl (1 : UInt64) F1)

/-- `const H1_MASK: u64 = 1 << H1` (board/src/board/constants.rs:233); `none` would be a compile-time overflow -/
def H1_MASK : Option UInt64 := (u64Shl (1 : UInt64) H1)

/-- `const A8_MASK: u64 = 1 << A8` (board/src/board/constants.rs:170); `none` would be a compile-time overflow -/
def A8_MASK : Option UInt64 := (u64Shl (1 : UInt64) A8)

/-- `const D8_MASK: u64 = 1 << D8` (board/src/board/constants.rs:173); `none` would be a compile-time overflow -/
def D8_MASK : Option UInt64 := (u64Shl (1 : UInt64) D8)

/-- `const F8_MASK: u64 = 1 << F8` (board/src/board/constants.rs:175); `none` would be a compile-time overflow -/
def F8_MASK : Option UInt64 := (u64Shl (1 : UInt64) F8)

/-- `const H8_MASK: u64 = 1 << H8` (board/src/board/constants.rs:177); `none` would be a compile-time overflow -/
def H8_MASK : Option UInt64 := (u64Shl (1 : UInt64) H8)

/-- `fn occupancy_ref(piece: PieceBits) -> usize` in `impl PlayerState` (board/src/board.rs:194).
* `piece` = parameter `piece: u64`
`none` = panic (or out of fuel). -/
def PlayerState.occupancy_ref_index (piece : UInt64) : Option Int := do
  pure (cast .usize (u64ToInt piece))

/-- `fn kings_ref() -> usize` in `impl PlayerState` (board/src/board.rs:196).
`none` = panic (or out of fuel). -/
def PlayerState.kings_ref_index : Option Int := do
  pure (cast .usize (u64ToInt KING))

/-- `fn rooks_ref() -> usize` in `impl PlayerState` (board/src/board.rs:200).
`none` = panic (or out of fuel). -/
def PlayerState.rooks_ref_index : Option Int := do
  pure (cast .usize (u64ToInt ROOK))

/-- `fn pawns_ref() -> usize` in `impl PlayerState` (board/src/board.rs:206).
`none` = panic (or out of fuel). -/
def PlayerState.pawns_ref_index : Option Int := do
  pure (cast .usize (u64ToInt PAWN))

/-- `fn make_castle(active: &mut PlayerState, rook_source_mask: SquareMaskBits, king_source_mask: SquareMaskBits, rook_target_mask: SquareMaskBits, king_target_mask: SquareMaskBits,)` in `impl Bitboard` (board/src/board.rs:792).
* `active` = parameter `active: PlayerState`
* `rook_source_mask` = parameter `rook_source_mask: u64`
* `king_source_mask` = parameter `king_source_mask: u64`
* `rook_target_mask` = parameter `rook_target_mask: u64`
* `king_target_mask` = parameter `king_target_mask: u64`
Result: the new value of the `&mut` parameter(s) `active`.
`none` = panic (or out of fuel). -/
def Bitboard.make_castle (active : Inkayaku.Rs.PlayerState) (rook_source_mask : UInt64) (king_source_mask : UInt64) (rook_target_mask : UInt64) (king_target_mask : UInt64) : Option Inkayaku.Rs.PlayerState := do
  let index_1 : Int ← PlayerState.rooks_ref_index
  let old_2 : UInt64 ← vecIdx active.occupancy index_1
  let new_3 : UInt64 := old_2 &&& (~~~rook_source_mask)
  let array_4 ← vecSet active.occupancy index_1 new_3
  let active := { active with occupancy := array_4 }
  let index_5 : Int ← PlayerState.kings_ref_index
  let old_6 : UInt64 ← vecIdx active.occupancy index_5
  let new_7 : UInt64 := old_6 &&& (~~~king_source_mask)
  let array_8 ← vecSet active.occupancy index_5 new_7
  let active := { active with occupancy := array_8 }
  let index_9 : Int ← PlayerState.rooks_ref_index
  let old_10 : UInt64 ← vecIdx active.occupancy index_9
  let new_11 : UInt64 := old_10 ||| rook_target_mask
  let array_12 ← vecSet active.occupancy index_9 new_11
  let active := { active with occupancy := array_12 }
  let index_13 : Int ← PlayerState.kings_ref_index
  let old_14 : UInt64 ← vecIdx active.occupancy index_13
  let new_15 : UInt64 := old_14 ||| king_target_mask
  let array_16 ← vecSet active.occupancy index_13 new_15
  let active := { active with occupancy := array_16 }
  pure active

/-- `fn unmake_castle(active: &mut PlayerState, rook_source_mask: SquareMaskBits, king_source_mask: SquareMaskBits, rook_target_mask: SquareMaskBits, king_target_mask: SquareMaskBits,)` in `impl Bitboard` (board/src/board.rs:807).
* `active` = parameter `active: PlayerState`
* `rook_source_mask` = parameter `rook_source_mask: u64`
* `king_source_mask` = parameter `king_source_mask: u64`
* `rook_target_mask` = parameter `rook_target_mask: u64`
* `king_target_mask` = parameter `king_target_mask: u64`
Result: the new value of the `&mut` parameter(s) `active`.
`none` = panic (or out of fuel). -/
def Bitboard.unmake_castle (active : Inkayaku.Rs.PlayerState) (rook_source_mask : UInt64) (king_source_mask : UInt64) (rook_target_mask : UInt64) (king_target_mask : UInt64) : Option Inkayaku.Rs.PlayerState := do
  let active ← Bitboard.make_castle active rook_target_mask king_target_mask rook_source_mask king_source_mask
  pure active

/-- `fn make(&mut self, mv: Move)` in `impl Bitboard` (board/src/board.rs:653).
* `white` = field `self.white: PlayerState`
* `black` = field `self.black: PlayerState`
* `turn` = field `self.turn: u32`
* `en_passant_square_shift` = field `self.en_passant_square_shift: u32`
* `fullmove_clock` = field `self.fullmove_clock: u32`
* `halfmove_clock` = field `self.halfmove_clock: u32`
* `mv_bits` = field `mv.bits: u64`
Result: the new value of `self.white`, `self.black`, `self.turn`, `self.en_passant_square_shift`, `self.fullmove_clock`, `self.halfmove_clock`.
`none` = panic (or out of fuel). -/
def Bitboard.make (white : Inkayaku.Rs.PlayerState) (black : Inkayaku.Rs.PlayerState) (turn : Int) (en_passant_square_shift : Int) (fullmove_clock : Int) (halfmove_clock : Int) (mv_bits : UInt64) : Option (Inkayaku.Rs.PlayerState × Inkayaku.Rs.PlayerState × Int × Int × Int × Int) := do
  let is_white_turn : Bool ← Bitboard.is_white_turn turn
  let fullmove_clock : Int ← chk .u32 (fullmove_clock + turn)
  let halfmove_clock ← (
    if (← Move.is_halfmove_reset mv_bits) then do
      let halfmove_clock : Int := 0
      pure halfmove_clock
    else do
      let halfmove_clock : Int ← chk .u32 (halfmove_clock + 1)
      pure halfmove_clock)
  let en_passant_square_shift : Int ← Move.get_next_en_passant_square mv_bits
  let turn : Int ← Bitboard.opposite_turn turn
  let borrow_cond_1 : Bool ← Bitboard.is_white_turn turn
  let (passive, active) := if borrow_cond_1 then (white, black) else (black, white)
  let active ← (
    if (← Move.is_self_lost_king_side_castle mv_bits) then do
      let field_2 : Bool := false
      let active := { active with king_side_castle := field_2 }
      pure active
    else do
      pure active)
  let active ← (
    if (← Move.is_self_lost_queen_side_castle mv_bits) then do
      let field_3 : Bool := false
      let active := { active with queen_side_castle := field_3 }
      pure active
    else do
      pure active)
  let passive ← (
    if (← Move.is_opponent_lost_king_side_castle mv_bits) then do
      let field_4 : Bool := false
      let passive := { passive with king_side_castle := field_4 }
      pure passive
    else do
      pure passive)
  let passive ← (
    if (← Move.is_opponent_lost_queen_side_castle mv_bits) then do
      let field_5 : Bool := false
      let passive := { passive with queen_side_castle := field_5 }
      pure passive
    else do
      pure passive)
  let source_square_shift : Int ← Move.get_source_square mv_bits
  let target_square_shift : Int ← Move.get_target_square mv_bits
  let source_square_mask : UInt64 ← u64Shl (1 : UInt64) source_square_shift
  let target_square_mask : UInt64 ← u64Shl (1 : UInt64) target_square_shift
  if (← Move.is_castle_move mv_bits) then do
    let active ← (
      if target_square_shift = C1 then do
        let active ← Bitboard.make_castle active (← A1_MASK) source_square_mask (← D1_MASK) target_square_mask
        pure active
      else do
        if target_square_shift = G1 then do
          let active ← Bitboard.make_castle active (← H1_MASK) source_square_mask (← F1_MASK) target_square_mask
          pure active
        else do
          if target_square_shift = C8 then do
            let active ← Bitboard.make_castle active (← A8_MASK) source_square_mask (← D8_MASK) target_square_mask
            pure active
          else do
            if target_square_shift = G8 then do
              let active ← Bitboard.make_castle active (← H8_MASK) source_square_mask (← F8_MASK) target_square_mask
              pure active
            else do
              none)
    pure ((if borrow_cond_1 then passive else active), (if borrow_cond_1 then active else passive), turn, en_passant_square_shift, fullmove_clock, halfmove_clock)
  else do
    if (← Move.is_en_passant_attack mv_bits) then do
      let index_6 : Int ← PlayerState.pawns_ref_index
      let old_7 : UInt64 ← vecIdx active.occupancy index_6
      let new_8 : UInt64 := old_7 &&& (~~~source_square_mask)
      let array_9 ← vecSet active.occupancy index_6 new_8
      let active := { active with occupancy := array_9 }
      let index_10 : Int ← PlayerState.pawns_ref_index
      let old_11 : UInt64 ← vecIdx active.occupancy index_10
      let new_12 : UInt64 := old_11 ||| target_square_mask
      let array_13 ← vecSet active.occupancy index_10 new_12
      let active := { active with occupancy := array_13 }
      let pawn_target_mask : UInt64 ← (
        if is_white_turn then do
          u64Shl target_square_mask 8
        else do
          u64Shr target_square_mask 8)
      let index_14 : Int ← PlayerState.pawns_ref_index
      let old_15 : UInt64 ← vecIdx passive.occupancy index_14
      let new_16 : UInt64 := old_15 &&& (~~~pawn_target_mask)
      let array_17 ← vecSet passive.occupancy index_14 new_16
      let passive := { passive with occupancy := array_17 }
      pure ((if borrow_cond_1 then passive else active), (if borrow_cond_1 then active else passive), turn, en_passant_square_shift, fullmove_clock, halfmove_clock)
    else do
      if (← Move.is_promotion mv_bits) then do
        let index_18 : Int ← PlayerState.pawns_ref_index
        let old_19 : UInt64 ← vecIdx active.occupancy index_18
        let new_20 : UInt64 := old_19 &&& (~~~source_square_mask)
        let array_21 ← vecSet active.occupancy index_18 new_20
        let active := { active with occupancy := array_21 }
        let index_22 : Int ← PlayerState.occupancy_ref_index (← Move.get_promotion_piece mv_bits)
        let old_23 : UInt64 ← vecIdx active.occupancy index_22
        let new_24 : UInt64 := old_23 ||| target_square_mask
        let array_25 ← vecSet active.occupancy index_22 new_24
        let active := { active with occupancy := array_25 }
        let index_26 : Int ← PlayerState.occupancy_ref_index (← Move.get_piece_attacked mv_bits)
        let old_27 : UInt64 ← vecIdx passive.occupancy index_26
        let new_28 : UInt64 := old_27 &&& (~~~target_square_mask)
        let array_29 ← vecSet passive.occupancy index_26 new_28
        let passive := { passive with occupancy := array_29 }
        pure ((if borrow_cond_1 then passive else active), (if borrow_cond_1 then active else passive), turn, en_passant_square_shift, fullmove_clock, halfmove_clock)
      else do
        let index_30 : Int ← PlayerState.occupancy_ref_index (← Move.get_piece_moved mv_bits)
        let old_31 : UInt64 ← vecIdx active.occupancy index_30
        let new_32 : UInt64 := old_31 &&& (~~~source_square_mask)
        let array_33 ← vecSet active.occupancy index_30 new_32
        let active := { active with occupancy := array_33 }
        let index_34 : Int ← PlayerState.occupancy_ref_index (← Move.get_piece_moved mv_bits)
        let old_35 : UInt64 ← vecIdx active.occupancy index_34
        let new_36 : UInt64 := old_35 ||| target_square_mask
        let array_37 ← vecSet active.occupancy index_34 new_36
        let active := { active with occupancy := array_37 }
        let index_38 : Int ← PlayerState.occupancy_ref_index (← Move.get_piece_attacked mv_bits)
        let old_39 : UInt64 ← vecIdx passive.occupancy index_38
        let new_40 : UInt64 := old_39 &&& (~~~target_square_mask)
        let array_41 ← vecSet passive.occupancy index_38 new_40
        let passive := { passive with occupancy := array_41 }
        pure ((if borrow_cond_1 then passive else active), (if borrow_cond_1 then active else passive), turn, en_passant_square_shift, fullmove_clock, halfmove_clock)

/-- `fn unmake(&mut self, mv: Move)` in `impl Bitboard` (board/src/board.rs:726).
* `white` = field `self.white: PlayerState`
* `black` = field `self.black: PlayerState`
* `turn` = field `self.turn: u32`
* `en_passant_square_shift` = field `self.en_passant_square_shift: u32`
* `fullmove_clock` = field `self.fullmove_clock: u32`
* `halfmove_clock` = field `self.halfmove_clock: u32`
* `mv_bits` = field `mv.bits: u64`
Result: the new value of `self.white`, `self.black`, `self.turn`, `self.en_passant_square_shift`, `self.fullmove_clock`, `self.halfmove_clock`.
`none` = panic (or out of fuel). -/
def Bitboard.unmake (white : Inkayaku.Rs.PlayerState) (black : Inkayaku.Rs.PlayerState) (turn : Int) (en_passant_square_shift : Int) (fullmove_clock : Int) (halfmove_clock : Int) (mv_bits : UInt64) : Option (Inkayaku.Rs.PlayerState × Inkayaku.Rs.PlayerState × Int × Int × Int × Int) := do
  let is_white_turn : Bool ← Bitboard.is_white_turn turn
  let fullmove_clock : Int ← chk .u32 (fullmove_clock - (← chk .u32 (1 - turn)))
  let halfmove_clock : Int ← Move.get_previous_halfmove mv_bits
  let en_passant_square_shift : Int ← Move.get_previous_en_passant_square mv_bits
  let turn : Int ← Bitboard.opposite_turn turn
  let borrow_cond_1 : Bool ← Bitboard.is_white_turn turn
  let (active, passive) := if borrow_cond_1 then (white, black) else (black, white)
  let active ← (
    if (← Move.is_self_lost_king_side_castle mv_bits) then do
      let field_2 : Bool := true
      let active := { active with king_side_castle := field_2 }
      pure active
    else do
      pure active)
  let active ← (
    if (← Move.is_self_lost_queen_side_castle mv_bits) then do
      let field_3 : Bool := true
      let active := { active with queen_side_castle := field_3 }
      pure active
    else do
      pure active)
  let passive ← (
    if (← Move.is_opponent_lost_king_side_castle mv_bits) then do
      let field_4 : Bool := true
      let passive := { passive with king_side_castle := field_4 }
      pure passive
    else do
      pure passive)
  let passive ← (
    if (← Move.is_opponent_lost_queen_side_castle mv_bits) then do
      let field_5 : Bool := true
      let passive := { passive with queen_side_castle := field_5 }
      pure passive
    else do
      pure passive)
  let source_square_shift : Int ← Move.get_source_square mv_bits
  let target_square_shift : Int ← Move.get_target_square mv_bits
  let source_square_mask : UInt64 ← u64Shl (1 : UInt64) source_square_shift
  let target_square_mask : UInt64 ← u64Shl (1 : UInt64) target_square_shift
  let piece_moved : UInt64 ← Move.get_piece_moved mv_bits
  let piece_attacked : UInt64 ← Move.get_piece_attacked mv_bits
  if (← Move.is_castle_move mv_bits) then do
    let active ← (
      if target_square_shift = C1 then do
        let active ← Bitboard.unmake_castle active (← A1_MASK) source_square_mask (← D1_MASK) target_square_mask
        pure active
      else do
        if target_square_shift = G1 then do
          let active ← Bitboard.unmake_castle active (← H1_MASK) source_square_mask (← F1_MASK) target_square_mask
          pure active
        else do
          if target_square_shift = C8 then do
            let active ← Bitboard.unmake_castle active (← A8_MASK) source_square_mask (← D8_MASK) target_square_mask
            pure active
          else do
            if target_square_shift = G8 then do
              let active ← Bitboard.unmake_castle active (← H8_MASK) source_square_mask (← F8_MASK) target_square_mask
              pure active
            else do
              none)
    pure ((if borrow_cond_1 then active else passive), (if borrow_cond_1 then passive else active), turn, en_passant_square_shift, fullmove_clock, halfmove_clock)
  else do
    if (← Move.is_en_passant_attack mv_bits) then do
      let index_6 : Int ← PlayerState.pawns_ref_index
      let old_7 : UInt64 ← vecIdx active.occupancy index_6
      let new_8 : UInt64 := old_7 &&& (~~~target_square_mask)
      let array_9 ← vecSet active.occupancy index_6 new_8
      let active := { active with occupancy := array_9 }
      let index_10 : Int ← PlayerState.pawns_ref_index
      let old_11 : UInt64 ← vecIdx active.occupancy index_10
      let new_12 : UInt64 := old_11 ||| source_square_mask
      let array_13 ← vecSet active.occupancy index_10 new_12
      let active := { active with occupancy := array_13 }
      let en_passant_attack_target_mask : UInt64 ← (
        if is_white_turn then do
          u64Shr target_square_mask 8
        else do
          u64Shl target_square_mask 8)
      let index_14 : Int ← PlayerState.occupancy_ref_index piece_attacked
      let old_15 : UInt64 ← vecIdx passive.occupancy index_14
      let new_16 : UInt64 := old_15 ||| en_passant_attack_target_mask
      let array_17 ← vecSet passive.occupancy index_14 new_16
      let passive := { passive with occupancy := array_17 }
      pure ((if borrow_cond_1 then active else passive), (if borrow_cond_1 then passive else active), turn, en_passant_square_shift, fullmove_clock, halfmove_clock)
    else do
      if (← Move.is_promotion mv_bits) then do
        let index_18 : Int ← PlayerState.occupancy_ref_index piece_attacked
        let old_19 : UInt64 ← vecIdx passive.occupancy index_18
        let new_20 : UInt64 := old_19 ||| target_square_mask
        let array_21 ← vecSet passive.occupancy index_18 new_20
        let passive := { passive with occupancy := array_21 }
        let index_22 : Int ← PlayerState.pawns_ref_index
        let old_23 : UInt64 ← vecIdx active.occupancy index_22
        let new_24 : UInt64 := old_23 ||| source_square_mask
        let array_25 ← vecSet active.occupancy index_22 new_24
        let active := { active with occupancy := array_25 }
        let index_26 : Int ← PlayerState.occupancy_ref_index (← Move.get_promotion_piece mv_bits)
        let old_27 : UInt64 ← vecIdx active.occupancy index_26
        let new_28 : UInt64 := old_27 &&& (~~~target_square_mask)
        let array_29 ← vecSet active.occupancy index_26 new_28
        let active := { active with occupancy := array_29 }
        pure ((if borrow_cond_1 then active else passive), (if borrow_cond_1 then passive else active), turn, en_passant_square_shift, fullmove_clock, halfmove_clock)
      else do
        let index_30 : Int ← PlayerState.occupancy_ref_index piece_attacked
        let old_31 : UInt64 ← vecIdx passive.occupancy index_30
        let new_32 : UInt64 := old_31 ||| target_square_mask
        let array_33 ← vecSet passive.occupancy index_30 new_32
        let passive := { passive with occupancy := array_33 }
        let index_34 : Int ← PlayerState.occupancy_ref_index piece_moved
        let old_35 : UInt64 ← vecIdx active.occupancy index_34
        let new_36 : UInt64 := old_35 ||| source_square_mask
        let array_37 ← vecSet active.occupancy index_34 new_36
        let active := { active with occupancy := array_37 }
        let index_38 : Int ← PlayerState.occupancy_ref_index piece_moved
        let old_39 : UInt64 ← vecIdx active.occupancy index_38
        let new_40 : UInt64 := old_39 &&& (~~~target_square_mask)
        let array_41 ← vecSet active.occupancy index_38 new_40
        let active := { active with occupancy := array_41 }
        pure ((if borrow_cond_1 then active else passive), (if borrow_cond_1 then passive else active), turn, en_passant_square_shift, fullmove_clock, halfmove_clock)

end Inkayaku.Rs
