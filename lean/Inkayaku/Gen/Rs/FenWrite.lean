/-
GENERATED FILE — do not edit.  Regenerated from the CURRENT Rust sources by /verif/translator:
    rs2lean <repo root> <out dir>
Module `FenWrite`.  Semantics of the translation: see the header of `Prelude.lean`.
Rust sources: board/src/board.rs, board/src/lib.rs
-/
import Inkayaku.Gen.Rs.Prelude
import Inkayaku.Gen.Rs.Check
import Inkayaku.Gen.Rs.FenFromStr
import Inkayaku.Gen.Rs.FenText
import Inkayaku.Gen.Rs.MoveBits
import Inkayaku.Gen.Rs.MoveCtor
import Inkayaku.Gen.Rs.Square

set_option linter.unusedVariables false

namespace Inkayaku.Rs

/-- `const fn find_piece_struct_by_square_mask(&self, square: SquareMaskBits) -> Option<Piece>` in `impl PlayerState` (board/src/board.rs:249).
* `occupancy` = field `self.occupancy: Vec<u64>`
* `square` = parameter `square: u64`
* `Piece_from_index` = OPAQUE associated function `Self::Piece_from_index`
`none` = panic (or out of fuel). -/
def PlayerState.find_piece_struct_by_square_mask {PieceT : Type} (occupancy : List UInt64) (square : UInt64) (Piece_from_index : Int → Option PieceT) : Option (Option PieceT) := do
  pure (Piece_from_index (cast .usize (u64ToInt (← PlayerState.get_piece_const_by_square_mask occupancy square))))

/-- `fn get_colored_piece(&self, square: Square) -> Option<ColoredPiece>` in `impl Bitboard` (board/src/board.rs:1087).
* `white` = field `self.white: PlayerState`
* `black` = field `self.black: PlayerState`
* `square` = parameter `square: SquareT`
* `Square_mask` = OPAQUE associated function `Self::Square_mask`
* `Piece_from_index` = OPAQUE associated function `Self::Piece_from_index`
* `Piece_to_white` = OPAQUE associated function `Self::Piece_to_white`
* `Piece_to_black` = OPAQUE associated function `Self::Piece_to_black`
`none` = panic (or out of fuel). -/
def Bitboard.get_colored_piece {SquareT : Type} {PieceT : Type} {ColoredPieceT : Type} (white : Inkayaku.Rs.PlayerState) (black : Inkayaku.Rs.PlayerState) (square : SquareT) (Square_mask : SquareT → UInt64) (Piece_from_index : Int → Option PieceT) (Piece_to_white : PieceT → ColoredPieceT) (Piece_to_black : PieceT → ColoredPieceT) : Option (Option ColoredPieceT) := do
  let maybe_white : Option PieceT ← PlayerState.find_piece_struct_by_square_mask white.occupancy (Square_mask square) Piece_from_index
  let maybe_black : Option PieceT ← PlayerState.find_piece_struct_by_square_mask black.occupancy (Square_mask square) Piece_from_index
  match maybe_white, maybe_black with
  | some piece, none => do
    pure (some (Piece_to_white piece))
  | none, some piece => do
    pure (some (Piece_to_black piece))
  | none, none => do
    pure none
  | some _, some _ => do
    none

/-- `fn square_to_string(square_shift_bits: SquareShiftBits) -> String` in `module level` (board/src/lib.rs:41).
* `square_shift_bits` = parameter `square_shift_bits: u32`
* `Square_from_index` = OPAQUE associated function `Self::Square_from_index`
* `Square_fen` = OPAQUE associated function `Self::Square_fen`
`none` = panic (or out of fuel). -/
def square_to_string {SquareT : Type} (square_shift_bits : Int) (Square_from_index : Int → Option SquareT) (Square_fen : SquareT → List Char) : Option (List Char) := do
  pure (match (Square_from_index (cast .usize square_shift_bits)) with | some s => Square_fen s | none => ([] : List Char))

/-- `for` loop of `from` (board/src/board.rs:1588).  Reads: bitboard_white : PlayerState, bitboard_black : PlayerState, from_index : Int → Option SquareT, Square_mask : SquareT → UInt64, Piece_from_index : Int → Option PieceT, Piece_to_white : PieceT → ColoredPieceT, Piece_to_black : PieceT → ColoredPieceT, ColoredPiece_fen : ColoredPieceT → Char, rank : usize, range_end_2 : usize.  State: file : usize, result : str, consecutive_empty : u32.  `none` = panic or out of fuel. -/
def Fen.from.for_2 (bitboard_white : Inkayaku.Rs.PlayerState) (bitboard_black : Inkayaku.Rs.PlayerState) (from_index : Int → Option SquareT) (Square_mask : SquareT → UInt64) (Piece_from_index : Int → Option PieceT) (Piece_to_white : PieceT → ColoredPieceT) (Piece_to_black : PieceT → ColoredPieceT) (ColoredPiece_fen : ColoredPieceT → Char) (rank : Int) (range_end_2 : Int) : Nat → Int → (List Char) → Int → Option (Int × (List Char) × Int)
  | 0, _, _, _ => none
  | fuel + 1, file, result, consecutive_empty =>
    if file < range_end_2 then do
      let square : SquareT ← (← Square.from_indices file rank from_index)
      let maybe_piece : Option ColoredPieceT ← Bitboard.get_colored_piece bitboard_white bitboard_black square Square_mask Piece_from_index Piece_to_white Piece_to_black
      let (result, consecutive_empty) ← (
        match maybe_piece with
        | some piece => do
          let result ← (
            if consecutive_empty > 0 then do
              let pushed_3 : Char ← (fromDigit10 consecutive_empty)
              let result : List Char := result ++ [pushed_3]
              pure result
            else do
              pure result)
          let consecutive_empty : Int := 0
          let result : List Char := result ++ [ColoredPiece_fen piece]
          pure (result, consecutive_empty)
        | none => do
          let consecutive_empty : Int ← chk .u32 (consecutive_empty + 1)
          pure (result, consecutive_empty))
      let file := file + 1
      Fen.from.for_2 bitboard_white bitboard_black from_index Square_mask Piece_from_index Piece_to_white Piece_to_black ColoredPiece_fen rank range_end_2 fuel file result consecutive_empty
    else pure (file, result, consecutive_empty)

/-- `for` loop of `from` (board/src/board.rs:1586).  Reads: bitboard_white : PlayerState, bitboard_black : PlayerState, from_index : Int → Option SquareT, Square_mask : SquareT → UInt64, Piece_from_index : Int → Option PieceT, Piece_to_white : PieceT → ColoredPieceT, Piece_to_black : PieceT → ColoredPieceT, ColoredPiece_fen : ColoredPieceT → Char, range_end_1 : usize.  State: rank : usize, result : str.  `none` = panic or out of fuel. -/
def Fen.from.for_1 (bitboard_white : Inkayaku.Rs.PlayerState) (bitboard_black : Inkayaku.Rs.PlayerState) (from_index : Int → Option SquareT) (Square_mask : SquareT → UInt64) (Piece_from_index : Int → Option PieceT) (Piece_to_white : PieceT → ColoredPieceT) (Piece_to_black : PieceT → ColoredPieceT) (ColoredPiece_fen : ColoredPieceT → Char) (range_end_1 : Int) : Nat → Int → (List Char) → Option (Int × (List Char))
  | 0, _, _ => none
  | fuel + 1, rank, result =>
    if rank < range_end_1 then do
      let consecutive_empty : Int := 0
      let range_end_2 : Int := 8
      let file : Int := 0
      let (file, result, consecutive_empty) ← Fen.from.for_2 bitboard_white bitboard_black from_index Square_mask Piece_from_index Piece_to_white Piece_to_black ColoredPiece_fen rank range_end_2 fuel file result consecutive_empty
      let result ← (
        if consecutive_empty > 0 then do
          let pushed_4 : Char ← (fromDigit10 consecutive_empty)
          let result : List Char := result ++ [pushed_4]
          pure result
        else do
          pure result)
      let result ← (
        if rank < 7 then do
          let result : List Char := result ++ ['/']
          pure result
        else do
          pure result)
      let rank := rank + 1
      Fen.from.for_1 bitboard_white bitboard_black from_index Square_mask Piece_from_index Piece_to_white Piece_to_black ColoredPiece_fen range_end_1 fuel rank result
    else pure (rank, result)

/-- `fn from(bitboard: &Bitboard) -> Self` in `impl From<&Bitboard> for Fen` (board/src/board.rs:1583).
* `bitboard_white` = field `bitboard.white: PlayerState`
* `bitboard_black` = field `bitboard.black: PlayerState`
* `bitboard_turn` = field `bitboard.turn: u32`
* `bitboard_en_passant_square_shift` = field `bitboard.en_passant_square_shift: u32`
* `bitboard_fullmove_clock` = field `bitboard.fullmove_clock: u32`
* `bitboard_halfmove_clock` = field `bitboard.halfmove_clock: u32`
* `from_index` = OPAQUE associated function `Self::from_index`
* `Square_mask` = OPAQUE associated function `Self::Square_mask`
* `Piece_from_index` = OPAQUE associated function `Self::Piece_from_index`
* `Piece_to_white` = OPAQUE associated function `Self::Piece_to_white`
* `Piece_to_black` = OPAQUE associated function `Self::Piece_to_black`
* `ColoredPiece_fen` = OPAQUE associated function `Self::ColoredPiece_fen`
* `Square_from_index` = OPAQUE associated function `Self::Square_from_index`
* `Square_fen` = OPAQUE associated function `Self::Square_fen`
* `default` = OPAQUE associated function `Self::default`
* `parse` = OPAQUE associated function `Self::parse`
* `Captures_get` = OPAQUE associated function `Self::Captures_get`
* `Match_range` = OPAQUE associated function `Self::Match_range`
* `fuel` = loop fuel (one unit per loop iteration)
`none` = panic (or out of fuel). -/
def Fen.from {SquareT : Type} {PieceT : Type} {ColoredPieceT : Type} {CapturesT : Type} {MatchT : Type} (bitboard_white : Inkayaku.Rs.PlayerState) (bitboard_black : Inkayaku.Rs.PlayerState) (bitboard_turn : Int) (bitboard_en_passant_square_shift : Int) (bitboard_fullmove_clock : Int) (bitboard_halfmove_clock : Int) (from_index : Int → Option SquareT) (Square_mask : SquareT → UInt64) (Piece_from_index : Int → Option PieceT) (Piece_to_white : PieceT → ColoredPieceT) (Piece_to_black : PieceT → ColoredPieceT) (ColoredPiece_fen : ColoredPieceT → Char) (Square_from_index : Int → Option SquareT) (Square_fen : SquareT → List Char) (default : Inkayaku.Rs.Fen) (parse : (List Char) → Except Inkayaku.Rs.FenParseError CapturesT) (Captures_get : CapturesT → Int → Option MatchT) (Match_range : MatchT → (Int × Int)) (fuel : Nat) : Option Inkayaku.Rs.Fen := do
  let result : List Char := ([] : List Char)
  let range_end_1 : Int := 8
  let rank : Int := 0
  let (rank, result) ← Fen.from.for_1 bitboard_white bitboard_black from_index Square_mask Piece_from_index Piece_to_white Piece_to_black ColoredPiece_fen range_end_1 fuel rank result
  let result : List Char := result ++ [(Char.ofNat 32)]
  let pushed_5 : Char ← (
    if (← Bitboard.is_white_turn bitboard_turn) then do
      pure 'w'
    else do
      pure 'b')
  let result : List Char := result ++ [pushed_5]
  let result : List Char := result ++ [(Char.ofNat 32)]
  let castle : List Char := ([('K', bitboard_white.king_side_castle), ('Q', bitboard_white.queen_side_castle), ('k', bitboard_black.king_side_castle), ('q', bitboard_black.queen_side_castle)].filter (fun t => t.2)).map (fun t => t.1)
  let result ← (
    if castle.isEmpty then do
      let result : List Char := result ++ ['-']
      pure result
    else do
      let result : List Char := result ++ castle
      pure result)
  let result : List Char := result ++ [(Char.ofNat 32)]
  let result ← (
    if bitboard_en_passant_square_shift = NO_SQUARE then do
      let result : List Char := result ++ ['-']
      pure result
    else do
      let pushed_6 : List Char ← square_to_string bitboard_en_passant_square_shift Square_from_index Square_fen
      let result : List Char := result ++ pushed_6
      pure result)
  let result : List Char := result ++ [(Char.ofNat 32)]
  let result : List Char := result ++ (uintToString bitboard_halfmove_clock)
  let result : List Char := result ++ [(Char.ofNat 32)]
  let result : List Char := result ++ (uintToString bitboard_fullmove_clock)
  resUnwrap (← Fen.from_str result default parse Captures_get Match_range fuel)

end Inkayaku.Rs
