/-
GENERATED FILE — do not edit.  Regenerated from the CURRENT Rust sources by /verif/translator:
    rs2lean <repo root> <out dir>
Module `Pgn` (MONADIC MODE: `&mut self` methods as `do` blocks in the state monad `RsM`; see the module documentation of translator/src/monadic.rs and the header of `Prelude.lean`).
Rust sources: pgn/src/reader.rs

SEMANTICS OF THE MONADIC MODE (translator/src/monadic.rs).
* The struct with the `&mut self` methods is regenerated as a Lean structure (integers = `Int`, `Vec<u8>` = `List Int`, `String` =
  `List Char`, `HashMap` = `HMap`, its generic parameter `R` = a type variable `RT`); a method is a `do` block in
  `RsM σ α := σ → Option (α × σ)` (σ = that structure): `none` = a Rust panic (overflow of `+= 1`, index out of bounds, `panic!`) or a
  loop counter running out.  `self.f` reads `(← RsM.get).f`, `self.f = e` is `RsM.set { (← RsM.get) with f := e }`; `x += n` on an integer
  field is range-checked (`chk`).
* Statements are transliterated one to one: `let [mut]`, assignment, `if`, `match`, `return e` (Lean's `do` elaborator implements the
  early return); the tail expression of the function body is `return e`.  A `Result` is an `Except` VALUE; `CALL?` is
  `match (← CALL) with | Except.ok v => pure v | Except.error e => return (Except.error e)` bound to a temporary.
* A call `self.m(args)` inside an expression is hoisted into a preceding `let t ← …` in evaluation order (a `self` field read BEFORE
  such a call in the same expression is an error); `a || b` / `a && b` whose `b` calls a method is
  `let t ← if a then pure true else do … pure b` (short circuit).
* `while C { B }`, `while let P = E { B }`, `loop { B }` are separate definitions `F.loop_k Read_read fuel <captured> : Nat → <loop-carried
  locals> → RsM σ (Ctl R S)` by recursion on the counter (`0` ↦ `none`): `Ctl.ret r` = the function returned `r` from inside the loop,
  `Ctl.next s` = the loop ended (condition false or `break`) with the loop-carried locals `s` (the locals assigned in the body).  Method
  calls inside the body get the ORIGINAL `fuel` of the function; the caller starts the counter at `fuel`.  After a `loop` without `break`
  the code is unreachable (`RsM.panic`).  Nested loops are not supported.
* `match` on an integer with literal patterns is an `if` chain (a binding catch-all is a `let`); `match` on a `Result` whose arms are
  `Ok(literal | x) [if guard]` followed by one `_` is one `match` with an `if` chain in the `Ok` arm (fall-through to the `_` arm).
* OPAQUE: `self.<field of the generic type>.read(&mut self.<buffer field>)` is the function parameter
  `Read_read : RT → List Int → Except IoErrorT Int × RT × List Int` (reader, buffer) ↦ (result, reader after the call, buffer after the
  call); what it is assumed to do is a hypothesis of the theorems (`ReadModel`, Props/Translated/PgnBuffer.lean).
* Anything else is an error naming file, line, function and construct.
-/
import Inkayaku.Gen.Rs.Prelude

set_option linter.unusedVariables false

namespace Inkayaku.Rs

/-- State-passing computations that may panic (`none` = panic / out of fuel): the `&mut self` methods of the monadic mode -/
def RsM (σ α : Type) : Type := σ → Option (α × σ)

namespace RsM
variable {σ α β : Type}
@[inline] def pure' (a : α) : RsM σ α := fun s => some (a, s)
@[inline] def bind' (m : RsM σ α) (f : α → RsM σ β) : RsM σ β := fun s => match m s with | none => none | some (a, s') => f a s'
instance : Monad (RsM σ) where
  pure := pure'
  bind := bind'
/-- the whole `self` -/
def get : RsM σ σ := fun s => some (s, s)
def set (s : σ) : RsM σ Unit := fun _ => some ((), s)
/-- a panicking pure computation -/
def liftO (o : Option α) : RsM σ α := fun s => o.map (fun a => (a, s))
/-- `panic!()` / out of fuel -/
def panic : RsM σ α := fun _ => none
end RsM


/-- `enum PgnRawParserError` (pgn/src/reader.rs) -/
inductive PgnRawParserError where
  | ReadingFromClosedRead
  | IllegalConsume (position : Int) (expected : Int) (actual : Int)
  | IllegalSymbol (position : Int) (actual : Int)
deriving DecidableEq, Repr

/-- `struct PgnRawAnnotatedMove` (pgn/src/reader.rs) -/
structure PgnRawAnnotatedMove where
  mv : (List Char)
  annotation : (Option (List Char))

/-- `struct PgnRaw` (pgn/src/reader.rs) -/
structure PgnRaw where
  tag_pairs : (HMap (List Char) (List Char))
  moves : (List PgnRawAnnotatedMove)

/-- `struct PgnRawParser` (pgn/src/reader.rs) -/
structure PgnRawParser (RT : Type) where
  reader : RT
  chunk_size : Int
  eof_reached : Bool
  current_buffer : (List Int)
  current_byte : Int
  position : Int

/-- `const fn new (mv : String , annotation : Option < String >) -> Self` (pgn/src/reader.rs:13) -/
def PgnRawAnnotatedMove.new (mv : (List Char)) (annotation : (Option (List Char))) : PgnRawAnnotatedMove :=
  { mv := mv, annotation := annotation }

/-- `fn new (tag_pairs : HashMap < String , String > , moves : Vec < PgnRawAnnotatedMove >) -> Self` (pgn/src/reader.rs:25) -/
def PgnRaw.new (tag_pairs : (HMap (List Char) (List Char))) (moves : (List PgnRawAnnotatedMove)) : PgnRaw :=
  { tag_pairs := tag_pairs, moves := moves }

/-- `fn with_chunk_size (reader : R , chunk_size : usize) -> Self` (pgn/src/reader.rs:51) -/
def PgnRawParser.with_chunk_size {RT : Type} (reader : RT) (chunk_size : Int) : (PgnRawParser RT) :=
  { reader := reader, chunk_size := chunk_size, eof_reached := false, current_buffer := (List.replicate (Int.toNat chunk_size) 0), current_byte := chunk_size, position := 0 }

/-- `fn ensure_buffer (& mut self) -> bool` in `impl PgnRawParser` (pgn/src/reader.rs:55).  `Read_read` = the OPAQUE `Read::read` of the underlying reader: (reader, buffer) ↦ (result, reader after the call, buffer after the call). -/
def PgnRawParser.ensure_buffer {RT IoErrorT : Type} (Read_read : RT → List Int → (Except IoErrorT Int × RT × List Int)) : RsM (PgnRawParser RT) Bool := do
  if (decide ((← RsM.get).current_byte ≥ (vecLen (← RsM.get).current_buffer))) then
    RsM.set { (← RsM.get) with current_byte := 0 }
    let (result, reader', buffer') := Read_read (← RsM.get).reader (← RsM.get).current_buffer
    RsM.set { (← RsM.get) with reader := reader', current_buffer := buffer' }
    match result with
    | Except.ok t2 =>
      if (t2 == 0) then
        RsM.set { (← RsM.get) with current_buffer := [] }
        RsM.set { (← RsM.get) with eof_reached := true }
        return false
      else
        let bytes_read := t2
        if (decide (bytes_read < (← RsM.get).chunk_size)) then
          RsM.set { (← RsM.get) with current_buffer := (vecResize (← RsM.get).current_buffer bytes_read 0) }
        else
          let bytes_read := t2
          if (decide (bytes_read > (← RsM.get).chunk_size)) then
            RsM.panic
          else
            pure ()
    | _ =>
      pure ()
  return true

/-- `fn increment_byte (& mut self)` in `impl PgnRawParser` (pgn/src/reader.rs:101).  `Read_read` = the OPAQUE `Read::read` of the underlying reader: (reader, buffer) ↦ (result, reader after the call, buffer after the call). -/
def PgnRawParser.increment_byte {RT IoErrorT : Type} (Read_read : RT → List Int → (Except IoErrorT Int × RT × List Int)) : RsM (PgnRawParser RT) Unit := do
  RsM.set { (← RsM.get) with current_byte := (← RsM.liftO (chk .usize ((← RsM.get).current_byte + 1))) }
  RsM.set { (← RsM.get) with position := (← RsM.liftO (chk .u64 ((← RsM.get).position + 1))) }

/-- `fn peek_byte (& mut self) -> Result < u8 , PgnRawParserError >` in `impl PgnRawParser` (pgn/src/reader.rs:78).  `Read_read` = the OPAQUE `Read::read` of the underlying reader: (reader, buffer) ↦ (result, reader after the call, buffer after the call). -/
def PgnRawParser.peek_byte {RT IoErrorT : Type} (Read_read : RT → List Int → (Except IoErrorT Int × RT × List Int)) : RsM (PgnRawParser RT) (Except PgnRawParserError Int) := do
  let t1 ← PgnRawParser.ensure_buffer Read_read
  if t1 then
    return (Except.ok (← RsM.liftO (vecIdx (← RsM.get).current_buffer (← RsM.get).current_byte)))
  else
    return (Except.error PgnRawParserError.ReadingFromClosedRead)

/-- `fn pop_byte (& mut self) -> Result < u8 , PgnRawParserError >` in `impl PgnRawParser` (pgn/src/reader.rs:86).  `Read_read` = the OPAQUE `Read::read` of the underlying reader: (reader, buffer) ↦ (result, reader after the call, buffer after the call). -/
def PgnRawParser.pop_byte {RT IoErrorT : Type} (Read_read : RT → List Int → (Except IoErrorT Int × RT × List Int)) : RsM (PgnRawParser RT) (Except PgnRawParserError Int) := do
  let t1 ← match (← PgnRawParser.peek_byte Read_read) with
    | Except.ok v => pure v
    | Except.error e => return (Except.error e)
  let result : Int := t1
  let _ ← PgnRawParser.increment_byte Read_read
  return (Except.ok result)

/-- `fn skip_byte (& mut self) -> Result < () , PgnRawParserError >` in `impl PgnRawParser` (pgn/src/reader.rs:92).  `Read_read` = the OPAQUE `Read::read` of the underlying reader: (reader, buffer) ↦ (result, reader after the call, buffer after the call). -/
def PgnRawParser.skip_byte {RT IoErrorT : Type} (Read_read : RT → List Int → (Except IoErrorT Int × RT × List Int)) : RsM (PgnRawParser RT) (Except PgnRawParserError Unit) := do
  let t1 ← PgnRawParser.ensure_buffer Read_read
  if t1 then
    let _ ← PgnRawParser.increment_byte Read_read
    return (Except.ok ())
  else
    return (Except.error PgnRawParserError.ReadingFromClosedRead)

/-- `fn consume (& mut self , expected : u8) -> Result < () , PgnRawParserError >` in `impl PgnRawParser` (pgn/src/reader.rs:106).  `Read_read` = the OPAQUE `Read::read` of the underlying reader: (reader, buffer) ↦ (result, reader after the call, buffer after the call). -/
def PgnRawParser.consume {RT IoErrorT : Type} (Read_read : RT → List Int → (Except IoErrorT Int × RT × List Int)) (expected : Int) : RsM (PgnRawParser RT) (Except PgnRawParserError Unit) := do
  let t1 ← match (← PgnRawParser.pop_byte Read_read) with
    | Except.ok v => pure v
    | Except.error e => return (Except.error e)
  let actual : Int := t1
  if (actual == expected) then
    return (Except.ok ())
  else
    return (Except.error (PgnRawParserError.IllegalConsume (← RsM.get).position expected actual))

/-- loop of `skip_blank_lines` (pgn/src/reader.rs:116).  Captured: -.  Loop-carried locals: -.  `Ctl.ret r` = the function returned `r` from inside the loop, `Ctl.next s` = the loop ended (condition false / `break`); `none` = panic or the counter ran out.  Calls in the body get the fuel `fuel` of the function. -/
def PgnRawParser.skip_blank_lines.loop_1 {RT IoErrorT : Type} (Read_read : RT → List Int → (Except IoErrorT Int × RT × List Int)) (fuel : Nat) : Nat → RsM (PgnRawParser RT) (Ctl (Except PgnRawParserError Unit) Unit)
  | 0 => RsM.panic
  | cnt + 1 => do
    let t1 ← match (← PgnRawParser.peek_byte Read_read) with
      | Except.ok v => pure v
      | Except.error e => return (Ctl.ret (Except.error e))
    if (t1 == 10) = false then return (Ctl.next ())
    let t2 ← match (← PgnRawParser.skip_byte Read_read) with
      | Except.ok v => pure v
      | Except.error e => return (Ctl.ret (Except.error e))
    PgnRawParser.skip_blank_lines.loop_1 Read_read fuel cnt

/-- `fn skip_blank_lines (& mut self) -> Result < () , PgnRawParserError >` in `impl PgnRawParser` (pgn/src/reader.rs:115).  `Read_read` = the OPAQUE `Read::read` of the underlying reader: (reader, buffer) ↦ (result, reader after the call, buffer after the call); `fuel` = bound of every loop (`none` when it runs out). -/
def PgnRawParser.skip_blank_lines {RT IoErrorT : Type} (Read_read : RT → List Int → (Except IoErrorT Int × RT × List Int)) (fuel : Nat) : RsM (PgnRawParser RT) (Except PgnRawParserError Unit) := do
  match (← PgnRawParser.skip_blank_lines.loop_1 Read_read fuel fuel) with
  | Ctl.ret r => return r
  | Ctl.next _ => pure ()
  return (Except.ok ())

/-- loop of `skip_blank_lines_and_spaces` (pgn/src/reader.rs:124).  Captured: -.  Loop-carried locals: -.  `Ctl.ret r` = the function returned `r` from inside the loop, `Ctl.next s` = the loop ended (condition false / `break`); `none` = panic or the counter ran out.  Calls in the body get the fuel `fuel` of the function. -/
def PgnRawParser.skip_blank_lines_and_spaces.loop_1 {RT IoErrorT : Type} (Read_read : RT → List Int → (Except IoErrorT Int × RT × List Int)) (fuel : Nat) : Nat → RsM (PgnRawParser RT) (Ctl (Except PgnRawParserError Unit) Unit)
  | 0 => RsM.panic
  | cnt + 1 => do
    let t1 ← match (← PgnRawParser.peek_byte Read_read) with
      | Except.ok v => pure v
      | Except.error e => return (Ctl.ret (Except.error e))
    let t3 ← if (t1 == 10) then pure true else do
        let t2 ← match (← PgnRawParser.peek_byte Read_read) with
          | Except.ok v => pure v
          | Except.error e => return (Ctl.ret (Except.error e))
        pure (t2 == 32)
    if t3 = false then return (Ctl.next ())
    let t4 ← match (← PgnRawParser.skip_byte Read_read) with
      | Except.ok v => pure v
      | Except.error e => return (Ctl.ret (Except.error e))
    PgnRawParser.skip_blank_lines_and_spaces.loop_1 Read_read fuel cnt

/-- `fn skip_blank_lines_and_spaces (& mut self) -> Result < () , PgnRawParserError >` in `impl PgnRawParser` (pgn/src/reader.rs:123).  `Read_read` = the OPAQUE `Read::read` of the underlying reader: (reader, buffer) ↦ (result, reader after the call, buffer after the call); `fuel` = bound of every loop (`none` when it runs out). -/
def PgnRawParser.skip_blank_lines_and_spaces {RT IoErrorT : Type} (Read_read : RT → List Int → (Except IoErrorT Int × RT × List Int)) (fuel : Nat) : RsM (PgnRawParser RT) (Except PgnRawParserError Unit) := do
  match (← PgnRawParser.skip_blank_lines_and_spaces.loop_1 Read_read fuel fuel) with
  | Ctl.ret r => return r
  | Ctl.next _ => pure ()
  return (Except.ok ())

/-- loop of `skip_spaces` (pgn/src/reader.rs:132).  Captured: -.  Loop-carried locals: -.  `Ctl.ret r` = the function returned `r` from inside the loop, `Ctl.next s` = the loop ended (condition false / `break`); `none` = panic or the counter ran out.  Calls in the body get the fuel `fuel` of the function. -/
def PgnRawParser.skip_spaces.loop_1 {RT IoErrorT : Type} (Read_read : RT → List Int → (Except IoErrorT Int × RT × List Int)) (fuel : Nat) : Nat → RsM (PgnRawParser RT) (Ctl (Except PgnRawParserError Unit) Unit)
  | 0 => RsM.panic
  | cnt + 1 => do
    let t1 ← match (← PgnRawParser.peek_byte Read_read) with
      | Except.ok v => pure v
      | Except.error e => return (Ctl.ret (Except.error e))
    if (t1 == 32) = false then return (Ctl.next ())
    let t2 ← match (← PgnRawParser.skip_byte Read_read) with
      | Except.ok v => pure v
      | Except.error e => return (Ctl.ret (Except.error e))
    PgnRawParser.skip_spaces.loop_1 Read_read fuel cnt

/-- `fn skip_spaces (& mut self) -> Result < () , PgnRawParserError >` in `impl PgnRawParser` (pgn/src/reader.rs:131).  `Read_read` = the OPAQUE `Read::read` of the underlying reader: (reader, buffer) ↦ (result, reader after the call, buffer after the call); `fuel` = bound of every loop (`none` when it runs out). -/
def PgnRawParser.skip_spaces {RT IoErrorT : Type} (Read_read : RT → List Int → (Except IoErrorT Int × RT × List Int)) (fuel : Nat) : RsM (PgnRawParser RT) (Except PgnRawParserError Unit) := do
  match (← PgnRawParser.skip_spaces.loop_1 Read_read fuel fuel) with
  | Ctl.ret r => return r
  | Ctl.next _ => pure ()
  return (Except.ok ())

/-- loop of `skip_to_next_line` (pgn/src/reader.rs:140).  Captured: -.  Loop-carried locals: -.  `Ctl.ret r` = the function returned `r` from inside the loop, `Ctl.next s` = the loop ended (condition false / `break`); `none` = panic or the counter ran out.  Calls in the body get the fuel `fuel` of the function. -/
def PgnRawParser.skip_to_next_line.loop_1 {RT IoErrorT : Type} (Read_read : RT → List Int → (Except IoErrorT Int × RT × List Int)) (fuel : Nat) : Nat → RsM (PgnRawParser RT) (Ctl (Except PgnRawParserError Unit) Unit)
  | 0 => RsM.panic
  | cnt + 1 => do
    let t1 ← match (← PgnRawParser.pop_byte Read_read) with
      | Except.ok v => pure v
      | Except.error e => return (Ctl.ret (Except.error e))
    if (t1 != 10) = false then return (Ctl.next ())
    pure ()
    PgnRawParser.skip_to_next_line.loop_1 Read_read fuel cnt

/-- `fn skip_to_next_line (& mut self) -> Result < () , PgnRawParserError >` in `impl PgnRawParser` (pgn/src/reader.rs:139).  `Read_read` = the OPAQUE `Read::read` of the underlying reader: (reader, buffer) ↦ (result, reader after the call, buffer after the call); `fuel` = bound of every loop (`none` when it runs out). -/
def PgnRawParser.skip_to_next_line {RT IoErrorT : Type} (Read_read : RT → List Int → (Except IoErrorT Int × RT × List Int)) (fuel : Nat) : RsM (PgnRawParser RT) (Except PgnRawParserError Unit) := do
  match (← PgnRawParser.skip_to_next_line.loop_1 Read_read fuel fuel) with
  | Ctl.ret r => return r
  | Ctl.next _ => pure ()
  return (Except.ok ())

/-- loop of `read_until` (pgn/src/reader.rs:149).  Captured: byte.  Loop-carried locals: result, cur_byte.  `Ctl.ret r` = the function returned `r` from inside the loop, `Ctl.next s` = the loop ended (condition false / `break`); `none` = panic or the counter ran out.  Calls in the body get the fuel `fuel` of the function. -/
def PgnRawParser.read_until.loop_1 {RT IoErrorT : Type} (Read_read : RT → List Int → (Except IoErrorT Int × RT × List Int)) (fuel : Nat) (byte : Int) : Nat → (List Char) → Int → RsM (PgnRawParser RT) (Ctl (Except PgnRawParserError (List Char)) ((List Char) × Int))
  | 0, _, _ => RsM.panic
  | cnt + 1, result, cur_byte => do
    let mut result := result
    let mut cur_byte := cur_byte
    if (cur_byte != byte) = false then return (Ctl.next (result, cur_byte))
    result := result ++ [(Char.ofNat (Int.toNat cur_byte))]
    let t2 ← match (← PgnRawParser.skip_byte Read_read) with
      | Except.ok v => pure v
      | Except.error e => return (Ctl.ret (Except.error e))
    let t3 ← match (← PgnRawParser.peek_byte Read_read) with
      | Except.ok v => pure v
      | Except.error e => return (Ctl.ret (Except.error e))
    cur_byte := t3
    PgnRawParser.read_until.loop_1 Read_read fuel byte cnt result cur_byte

/-- `fn read_until (& mut self , byte : u8) -> Result < String , PgnRawParserError >` in `impl PgnRawParser` (pgn/src/reader.rs:145).  `Read_read` = the OPAQUE `Read::read` of the underlying reader: (reader, buffer) ↦ (result, reader after the call, buffer after the call); `fuel` = bound of every loop (`none` when it runs out). -/
def PgnRawParser.read_until {RT IoErrorT : Type} (Read_read : RT → List Int → (Except IoErrorT Int × RT × List Int)) (fuel : Nat) (byte : Int) : RsM (PgnRawParser RT) (Except PgnRawParserError (List Char)) := do
  let mut result : (List Char) := []
  let t1 ← match (← PgnRawParser.peek_byte Read_read) with
    | Except.ok v => pure v
    | Except.error e => return (Except.error e)
  let mut cur_byte : Int := t1
  match (← PgnRawParser.read_until.loop_1 Read_read fuel byte fuel result cur_byte) with
  | Ctl.ret r => return r
  | Ctl.next (s1, s2) =>
    result := s1
    cur_byte := s2
  return (Except.ok result)

/-- loop of `read_token` (pgn/src/reader.rs:162).  Captured: -.  Loop-carried locals: result.  `Ctl.ret r` = the function returned `r` from inside the loop, `Ctl.next s` = the loop ended (condition false / `break`); `none` = panic or the counter ran out.  Calls in the body get the fuel `fuel` of the function. -/
def PgnRawParser.read_token.loop_1 {RT IoErrorT : Type} (Read_read : RT → List Int → (Except IoErrorT Int × RT × List Int)) (fuel : Nat) : Nat → (List Char) → RsM (PgnRawParser RT) (Ctl (List Char) (List Char))
  | 0, _ => RsM.panic
  | cnt + 1, result => do
    let mut result := result
    let t1 ← PgnRawParser.ensure_buffer Read_read
    if t1 = false then return (Ctl.next result)
    let byte : Int := (← RsM.liftO (vecIdx (← RsM.get).current_buffer (← RsM.get).current_byte))
    if ((byte == 32) || (byte == 10)) then
      return (Ctl.next result)
    result := result ++ [(Char.ofNat (Int.toNat byte))]
    let _ ← PgnRawParser.increment_byte Read_read
    PgnRawParser.read_token.loop_1 Read_read fuel cnt result

/-- `fn read_token (& mut self) -> String` in `impl PgnRawParser` (pgn/src/reader.rs:159).  `Read_read` = the OPAQUE `Read::read` of the underlying reader: (reader, buffer) ↦ (result, reader after the call, buffer after the call); `fuel` = bound of every loop (`none` when it runs out). -/
def PgnRawParser.read_token {RT IoErrorT : Type} (Read_read : RT → List Int → (Except IoErrorT Int × RT × List Int)) (fuel : Nat) : RsM (PgnRawParser RT) (List Char) := do
  let mut result : (List Char) := []
  match (← PgnRawParser.read_token.loop_1 Read_read fuel fuel result) with
  | Ctl.ret r => return r
  | Ctl.next s1 =>
    result := s1
  return result

/-- `fn read_tag_name (& mut self) -> Result < String , PgnRawParserError >` in `impl PgnRawParser` (pgn/src/reader.rs:199).  `Read_read` = the OPAQUE `Read::read` of the underlying reader: (reader, buffer) ↦ (result, reader after the call, buffer after the call); `fuel` = bound of every loop (`none` when it runs out). -/
def PgnRawParser.read_tag_name {RT IoErrorT : Type} (Read_read : RT → List Int → (Except IoErrorT Int × RT × List Int)) (fuel : Nat) : RsM (PgnRawParser RT) (Except PgnRawParserError (List Char)) := do
  let t1 ← PgnRawParser.read_until Read_read fuel 32
  return t1

/-- `fn read_tag_value (& mut self) -> Result < String , PgnRawParserError >` in `impl PgnRawParser` (pgn/src/reader.rs:203).  `Read_read` = the OPAQUE `Read::read` of the underlying reader: (reader, buffer) ↦ (result, reader after the call, buffer after the call); `fuel` = bound of every loop (`none` when it runs out). -/
def PgnRawParser.read_tag_value {RT IoErrorT : Type} (Read_read : RT → List Int → (Except IoErrorT Int × RT × List Int)) (fuel : Nat) : RsM (PgnRawParser RT) (Except PgnRawParserError (List Char)) := do
  let t1 ← match (← PgnRawParser.consume Read_read 34) with
    | Except.ok v => pure v
    | Except.error e => return (Except.error e)
  let t2 ← PgnRawParser.read_until Read_read fuel 34
  let value : (Except PgnRawParserError (List Char)) := t2
  let t3 ← match (← PgnRawParser.consume Read_read 34) with
    | Except.ok v => pure v
    | Except.error e => return (Except.error e)
  return value

/-- `fn read_tag_pair_line (& mut self) -> Result < (String , String) , PgnRawParserError >` in `impl PgnRawParser` (pgn/src/reader.rs:189).  `Read_read` = the OPAQUE `Read::read` of the underlying reader: (reader, buffer) ↦ (result, reader after the call, buffer after the call); `fuel` = bound of every loop (`none` when it runs out). -/
def PgnRawParser.read_tag_pair_line {RT IoErrorT : Type} (Read_read : RT → List Int → (Except IoErrorT Int × RT × List Int)) (fuel : Nat) : RsM (PgnRawParser RT) (Except PgnRawParserError ((List Char) × (List Char))) := do
  let t1 ← match (← PgnRawParser.consume Read_read 91) with
    | Except.ok v => pure v
    | Except.error e => return (Except.error e)
  let t2 ← match (← PgnRawParser.read_tag_name Read_read fuel) with
    | Except.ok v => pure v
    | Except.error e => return (Except.error e)
  let name : (List Char) := t2
  let t3 ← match (← PgnRawParser.consume Read_read 32) with
    | Except.ok v => pure v
    | Except.error e => return (Except.error e)
  let t4 ← match (← PgnRawParser.read_tag_value Read_read fuel) with
    | Except.ok v => pure v
    | Except.error e => return (Except.error e)
  let value : (List Char) := t4
  let t5 ← match (← PgnRawParser.consume Read_read 93) with
    | Except.ok v => pure v
    | Except.error e => return (Except.error e)
  let t6 ← match (← PgnRawParser.consume Read_read 10) with
    | Except.ok v => pure v
    | Except.error e => return (Except.error e)
  return (Except.ok (name, value))

/-- loop of `read_tag_pairs` (pgn/src/reader.rs:177).  Captured: -.  Loop-carried locals: result.  `Ctl.ret r` = the function returned `r` from inside the loop, `Ctl.next s` = the loop ended (condition false / `break`); `none` = panic or the counter ran out.  Calls in the body get the fuel `fuel` of the function. -/
def PgnRawParser.read_tag_pairs.loop_1 {RT IoErrorT : Type} (Read_read : RT → List Int → (Except IoErrorT Int × RT × List Int)) (fuel : Nat) : Nat → (HMap (List Char) (List Char)) → RsM (PgnRawParser RT) (Ctl (Except PgnRawParserError (HMap (List Char) (List Char))) (HMap (List Char) (List Char)))
  | 0, _ => RsM.panic
  | cnt + 1, result => do
    let mut result := result
    let t1 ← match (← PgnRawParser.peek_byte Read_read) with
      | Except.ok v => pure v
      | Except.error e => return (Ctl.ret (Except.error e))
    if (t1 == 91) then
      let t4 ← match (← PgnRawParser.read_tag_pair_line Read_read fuel) with
        | Except.ok v => pure v
        | Except.error e => return (Ctl.ret (Except.error e))
      let (k, v) := t4
      result := (hmInsert result k v).1
    else
      if (t1 == 10) then
        return (Ctl.ret (Except.ok result))
      else
        let other := t1
        return (Ctl.ret (Except.error (PgnRawParserError.IllegalSymbol (← RsM.get).position other)))
    PgnRawParser.read_tag_pairs.loop_1 Read_read fuel cnt result

/-- `fn read_tag_pairs (& mut self) -> Result < HashMap < String , String > , PgnRawParserError >` in `impl PgnRawParser` (pgn/src/reader.rs:174).  `Read_read` = the OPAQUE `Read::read` of the underlying reader: (reader, buffer) ↦ (result, reader after the call, buffer after the call); `fuel` = bound of every loop (`none` when it runs out). -/
def PgnRawParser.read_tag_pairs {RT IoErrorT : Type} (Read_read : RT → List Int → (Except IoErrorT Int × RT × List Int)) (fuel : Nat) : RsM (PgnRawParser RT) (Except PgnRawParserError (HMap (List Char) (List Char))) := do
  let mut result : (HMap (List Char) (List Char)) := hmNew
  match (← PgnRawParser.read_tag_pairs.loop_1 Read_read fuel fuel result) with
  | Ctl.ret r => return r
  | Ctl.next _ => RsM.panic

/-- `fn read_braced_annotation (& mut self) -> Result < String , PgnRawParserError >` in `impl PgnRawParser` (pgn/src/reader.rs:252).  `Read_read` = the OPAQUE `Read::read` of the underlying reader: (reader, buffer) ↦ (result, reader after the call, buffer after the call); `fuel` = bound of every loop (`none` when it runs out). -/
def PgnRawParser.read_braced_annotation {RT IoErrorT : Type} (Read_read : RT → List Int → (Except IoErrorT Int × RT × List Int)) (fuel : Nat) : RsM (PgnRawParser RT) (Except PgnRawParserError (List Char)) := do
  let t1 ← match (← PgnRawParser.consume Read_read 123) with
    | Except.ok v => pure v
    | Except.error e => return (Except.error e)
  let t2 ← PgnRawParser.read_until Read_read fuel 125
  let result : (Except PgnRawParserError (List Char)) := t2
  let t3 ← match (← PgnRawParser.consume Read_read 125) with
    | Except.ok v => pure v
    | Except.error e => return (Except.error e)
  return result

/-- `fn read_semicolon_annotation (& mut self) -> Result < String , PgnRawParserError >` in `impl PgnRawParser` (pgn/src/reader.rs:259).  `Read_read` = the OPAQUE `Read::read` of the underlying reader: (reader, buffer) ↦ (result, reader after the call, buffer after the call); `fuel` = bound of every loop (`none` when it runs out). -/
def PgnRawParser.read_semicolon_annotation {RT IoErrorT : Type} (Read_read : RT → List Int → (Except IoErrorT Int × RT × List Int)) (fuel : Nat) : RsM (PgnRawParser RT) (Except PgnRawParserError (List Char)) := do
  let t1 ← match (← PgnRawParser.consume Read_read 59) with
    | Except.ok v => pure v
    | Except.error e => return (Except.error e)
  let t2 ← PgnRawParser.read_until Read_read fuel 10
  let result : (Except PgnRawParserError (List Char)) := t2
  let t3 ← match (← PgnRawParser.consume Read_read 10) with
    | Except.ok v => pure v
    | Except.error e => return (Except.error e)
  return result

/-- `fn read_move (& mut self) -> Result < Option < PgnRawAnnotatedMove > , PgnRawParserError >` in `impl PgnRawParser` (pgn/src/reader.rs:223).  `Read_read` = the OPAQUE `Read::read` of the underlying reader: (reader, buffer) ↦ (result, reader after the call, buffer after the call); `fuel` = bound of every loop (`none` when it runs out). -/
def PgnRawParser.read_move {RT IoErrorT : Type} (Read_read : RT → List Int → (Except IoErrorT Int × RT × List Int)) (fuel : Nat) : RsM (PgnRawParser RT) (Except PgnRawParserError (Option PgnRawAnnotatedMove)) := do
  let t1 ← match (← PgnRawParser.skip_blank_lines_and_spaces Read_read fuel) with
    | Except.ok v => pure v
    | Except.error e => return (Except.error e)
  let t2 ← PgnRawParser.read_token Read_read fuel
  let token : (List Char) := t2
  if ((token == ([Char.ofNat 42] : List Char)) || (token == ([Char.ofNat 49, Char.ofNat 45, Char.ofNat 48] : List Char)) || (token == ([Char.ofNat 48, Char.ofNat 45, Char.ofNat 49] : List Char)) || (token == ([Char.ofNat 49, Char.ofNat 47, Char.ofNat 50, Char.ofNat 45, Char.ofNat 49, Char.ofNat 47, Char.ofNat 50] : List Char))) then
    return (Except.ok none)
  let mv ←
    if (strContains token (Char.ofNat 46)) then
      let t3 ← match (← PgnRawParser.skip_spaces Read_read fuel) with
        | Except.ok v => pure v
        | Except.error e => return (Except.error e)
      let t4 ← PgnRawParser.read_token Read_read fuel
      pure t4
    else
      pure token
  let t5 ← match (← PgnRawParser.skip_spaces Read_read fuel) with
    | Except.ok v => pure v
    | Except.error e => return (Except.error e)
  let t6 ← match (← PgnRawParser.peek_byte Read_read) with
    | Except.ok v => pure v
    | Except.error e => return (Except.error e)
  let byte : Int := t6
  let annotation ←
    if (byte == 123) then
      let t9 ← match (← PgnRawParser.read_braced_annotation Read_read fuel) with
        | Except.ok v => pure v
        | Except.error e => return (Except.error e)
      pure (some t9)
    else
      if (byte == 59) then
        let t10 ← match (← PgnRawParser.read_semicolon_annotation Read_read fuel) with
          | Except.ok v => pure v
          | Except.error e => return (Except.error e)
        pure (some t10)
      else
        pure none
  return (Except.ok (some (PgnRawAnnotatedMove.new mv annotation)))

/-- loop of `read_moves` (pgn/src/reader.rs:213).  Captured: -.  Loop-carried locals: result.  `Ctl.ret r` = the function returned `r` from inside the loop, `Ctl.next s` = the loop ended (condition false / `break`); `none` = panic or the counter ran out.  Calls in the body get the fuel `fuel` of the function. -/
def PgnRawParser.read_moves.loop_1 {RT IoErrorT : Type} (Read_read : RT → List Int → (Except IoErrorT Int × RT × List Int)) (fuel : Nat) : Nat → (List PgnRawAnnotatedMove) → RsM (PgnRawParser RT) (Ctl (Except PgnRawParserError (List PgnRawAnnotatedMove)) (List PgnRawAnnotatedMove))
  | 0, _ => RsM.panic
  | cnt + 1, result => do
    let mut result := result
    let t1 ← match (← PgnRawParser.read_move Read_read fuel) with
      | Except.ok v => pure v
      | Except.error e => return (Ctl.ret (Except.error e))
    match t1 with
    | some mv =>
      result := result ++ [mv]
    | _ => return (Ctl.next result)
    PgnRawParser.read_moves.loop_1 Read_read fuel cnt result

/-- `fn read_moves (& mut self) -> Result < Vec < PgnRawAnnotatedMove > , PgnRawParserError >` in `impl PgnRawParser` (pgn/src/reader.rs:210).  `Read_read` = the OPAQUE `Read::read` of the underlying reader: (reader, buffer) ↦ (result, reader after the call, buffer after the call); `fuel` = bound of every loop (`none` when it runs out). -/
def PgnRawParser.read_moves {RT IoErrorT : Type} (Read_read : RT → List Int → (Except IoErrorT Int × RT × List Int)) (fuel : Nat) : RsM (PgnRawParser RT) (Except PgnRawParserError (List PgnRawAnnotatedMove)) := do
  let mut result : (List PgnRawAnnotatedMove) := []
  match (← PgnRawParser.read_moves.loop_1 Read_read fuel fuel result) with
  | Ctl.ret r => return r
  | Ctl.next s1 =>
    result := s1
  let t2 ← PgnRawParser.skip_to_next_line Read_read fuel
  match t2 with
  | Except.ok () | Except.error PgnRawParserError.ReadingFromClosedRead =>
    return (Except.ok result)
  | Except.error error =>
    return (Except.error error)

/-- `fn read_pgn (& mut self) -> Result < PgnRaw , PgnRawParserError >` in `impl PgnRawParser` (pgn/src/reader.rs:266).  `Read_read` = the OPAQUE `Read::read` of the underlying reader: (reader, buffer) ↦ (result, reader after the call, buffer after the call); `fuel` = bound of every loop (`none` when it runs out). -/
def PgnRawParser.read_pgn {RT IoErrorT : Type} (Read_read : RT → List Int → (Except IoErrorT Int × RT × List Int)) (fuel : Nat) : RsM (PgnRawParser RT) (Except PgnRawParserError PgnRaw) := do
  let t1 ← match (← PgnRawParser.read_tag_pairs Read_read fuel) with
    | Except.ok v => pure v
    | Except.error e => return (Except.error e)
  let tag_pairs : (HMap (List Char) (List Char)) := t1
  let t2 ← match (← PgnRawParser.skip_blank_lines Read_read fuel) with
    | Except.ok v => pure v
    | Except.error e => return (Except.error e)
  let t3 ← match (← PgnRawParser.read_moves Read_read fuel) with
    | Except.ok v => pure v
    | Except.error e => return (Except.error e)
  let moves : (List PgnRawAnnotatedMove) := t3
  let raw := (PgnRaw.new tag_pairs moves)
  return (Except.ok raw)

/-- `fn next (& mut self) -> Option < Self :: Item >` in `impl PgnRawParser` (pgn/src/reader.rs:282).  `Read_read` = the OPAQUE `Read::read` of the underlying reader: (reader, buffer) ↦ (result, reader after the call, buffer after the call); `fuel` = bound of every loop (`none` when it runs out). -/
def PgnRawParser.next {RT IoErrorT : Type} (Read_read : RT → List Int → (Except IoErrorT Int × RT × List Int)) (fuel : Nat) : RsM (PgnRawParser RT) (Option (Except PgnRawParserError PgnRaw)) := do
  let t1 ← PgnRawParser.skip_blank_lines_and_spaces Read_read fuel
  match t1 with
  | Except.ok () =>
    let t2 ← PgnRawParser.read_pgn Read_read fuel
    return (some t2)
  | Except.error PgnRawParserError.ReadingFromClosedRead =>
    return none
  | Except.error err =>
    return (some (Except.error err))

end Inkayaku.Rs
