/-
GENERATED FILE — do not edit.  Regenerated from the CURRENT Rust sources by /verif/translator:
    rs2lean <repo root> <out dir>
Module `UciText`.  Semantics of the translation: see the header of `Prelude.lean`.
Rust sources: board/src/lib.rs, board/src/board.rs
-/
import Inkayaku.Gen.Rs.Prelude
import Inkayaku.Gen.Rs.FenWrite
import Inkayaku.Gen.Rs.MoveBits

set_option linter.unusedVariables false

namespace Inkayaku.Rs

/-- Unicode `White_Space` (what `str::trim` removes; `char::is_whitespace`) -/
def isWhiteSpace (c : Char) : Bool :=
  let n := c.toNat
  (0x9 ≤ n && n ≤ 0xD) || n == 0x20 || n == 0x85 || n == 0xA0 || n == 0x1680 || (0x2000 ≤ n && n ≤ 0x200A)
    || n == 0x2028 || n == 0x2029 || n == 0x202F || n == 0x205F || n == 0x3000

/-- `str::trim` on the list of chars -/
def strTrim (s : List Char) : List Char :=
  ((s.dropWhile isWhiteSpace).reverse.dropWhile isWhiteSpace).reverse

/-- `fn piece_to_string(piece_bits: PieceBits) -> String` in `module level` (board/src/lib.rs:37).
* `piece_bits` = parameter `piece_bits: u64`
* `Piece_from_index` = OPAQUE associated function `Self::Piece_from_index`
* `Piece_fen` = OPAQUE associated function `Self::Piece_fen`
`none` = panic (or out of fuel). -/
def piece_to_string {PieceT : Type} (piece_bits : UInt64) (Piece_from_index : Int → Option PieceT) (Piece_fen : PieceT → Char) : Option (List Char) := do
  pure (match (Piece_from_index (cast .usize (u64ToInt piece_bits))) with | some p => [Piece_fen p] | none => ([] : List Char))

/-- `fn to_uci_string(&self) -> String` in `impl Move` (board/src/board.rs:130).
* `bits` = field `self.bits: u64`
* `Square_from_index` = OPAQUE associated function `Self::Square_from_index`
* `Square_fen` = OPAQUE associated function `Self::Square_fen`
* `Piece_from_index` = OPAQUE associated function `Self::Piece_from_index`
* `Piece_fen` = OPAQUE associated function `Self::Piece_fen`
`none` = panic (or out of fuel). -/
def Move.to_uci_string {SquareT : Type} {PieceT : Type} (bits : UInt64) (Square_from_index : Int → Option SquareT) (Square_fen : SquareT → List Char) (Piece_from_index : Int → Option PieceT) (Piece_fen : PieceT → Char) : Option (List Char) := do
  pure ((← square_to_string (← Move.get_source_square bits) Square_from_index Square_fen) ++ (← square_to_string (← Move.get_target_square bits) Square_from_index Square_fen) ++ (← piece_to_string (← Move.get_promotion_piece bits) Piece_from_index Piece_fen))

end Inkayaku.Rs
