/-
GENERATED FILE — do not edit.  Regenerated from the CURRENT Rust sources by /verif/translator:
    rs2lean <repo root> <out dir>
Module `KillerTable`.  Semantics of the translation: see the header of `Prelude.lean`.
Rust sources: engine_core/src/engine/table/killer.rs
-/
import Inkayaku.Gen.Rs.Prelude
import Inkayaku.Gen.Rs.Board

set_option linter.unusedVariables false

namespace Inkayaku.Rs

/-- `fn put(&mut self, depth: usize, mv: Move)` in `impl KillerTable` (engine_core/src/engine/table/killer.rs:18).
* `table` = field `self.table: Vec<Move>`
* `depth` = parameter `depth: usize`
* `mv` = parameter `mv: Move`
Result: the new value of `self.table`.
`none` = panic (or out of fuel). -/
def KillerTable.put (table : List Inkayaku.Rs.Move) (depth : Int) (mv : Inkayaku.Rs.Move) : Option (List Inkayaku.Rs.Move) := do
  let table := vecResize table (← chk .usize (depth + 1)) ({ bits := 0, mvvlva := 0 } : Inkayaku.Rs.Move)
  let table ← vecSet table depth mv
  pure table

/-- `fn get(&self, depth: usize) -> Option<Move>` in `impl KillerTable` (engine_core/src/engine/table/killer.rs:23).
* `table` = field `self.table: Vec<Move>`
* `depth` = parameter `depth: usize`
`none` = panic (or out of fuel). -/
def KillerTable.get (table : List Inkayaku.Rs.Move) (depth : Int) : Option (Option Inkayaku.Rs.Move) := do
  pure ((vecGet table depth).filter (fun mv => decide (mv.bits ≠ 0)))

end Inkayaku.Rs
