/-
GENERATED FILE — do not edit.  Regenerated from the CURRENT Rust sources by /verif/translator:
    rs2lean <repo root> <out dir>
Module `Square`.  Semantics of the translation: see the header of `Prelude.lean`.
Rust sources: core/src/constants/mod.rs, core/src/constants/square.rs
-/
import Inkayaku.Gen.Rs.Prelude

set_option linter.unusedVariables false

namespace Inkayaku.Rs

/-- `const fn to_square_index_from_indices(file_index: usize, rank_index: usize) -> usize` in `module level` (core/src/constants/mod.rs:18).
* `file_index` = parameter `file_index: usize`
* `rank_index` = parameter `rank_index: usize`
`none` = panic (or out of fuel). -/
def to_square_index_from_indices (file_index : Int) (rank_index : Int) : Option Int := do
  chk .usize (file_index + (← chk .usize (rank_index * 8)))

/-- `const fn from_indices(file_index: usize, rank_index: usize) -> Option<Self>` in `impl Square` (core/src/constants/square.rs:130).
* `file_index` = parameter `file_index: usize`
* `rank_index` = parameter `rank_index: usize`
* `from_index` = OPAQUE associated function `Self::from_index`
`none` = panic (or out of fuel). -/
def Square.from_indices {SquareT : Type} (file_index : Int) (rank_index : Int) (from_index : Int → Option SquareT) : Option (Option SquareT) := do
  if (file_index < 8) ∧ (rank_index < 8) then do
    pure (from_index (← to_square_index_from_indices file_index rank_index))
  else do
    pure none

/-- `fn from_chars(file: char, rank: char) -> Option<Self>` in `impl Square` (core/src/constants/square.rs:118).
* `file` = parameter `file: char`
* `rank` = parameter `rank: char`
* `from_index` = OPAQUE associated function `Self::from_index`
`none` = panic (or out of fuel). -/
def Square.from_chars {SquareT : Type} (file : Char) (rank : Char) (from_index : Int → Option SquareT) : Option (Option SquareT) := do
  match checkedSub .usize (cast .usize (ofChar file)) (cast .usize (ofChar 'a')) with
  | none => pure none
  | some file => do
    match toDigit10 rank with
    | none => pure none
    | some i => do
      let rank : Int := cast .usize (wrappingSub .u32 8 i)
      Square.from_indices file rank from_index

end Inkayaku.Rs
