/-
GENERATED FILE — do not edit.  Regenerated from the CURRENT Rust sources by /verif/translator:
    rs2lean <repo root> <out dir>
Module `Search`.  Semantics of the translation: see the header of `Prelude.lean`.
Rust sources: engine_core/src/engine/search.rs
-/
import Inkayaku.Gen.Rs.Prelude
import Inkayaku.Gen.Rs.Board

set_option linter.unusedVariables false

namespace Inkayaku.Rs

/-- `const fn get_self_time_remaining(&self) -> Option<Duration>` in `impl Search` (engine_core/src/engine/search.rs:165).
* `state_bitboard_turn` = field `self.state.bitboard.turn: u32`
* `params_go_white_time` = field `self.params.go.white_time: Option<Duration>`
* `params_go_black_time` = field `self.params.go.black_time: Option<Duration>`
`none` = panic (or out of fuel). -/
def Search.get_self_time_remaining (state_bitboard_turn : Int) (params_go_white_time : Option Int) (params_go_black_time : Option Int) : Option (Option Int) := do
  if state_bitboard_turn = WHITE then do
    pure params_go_white_time
  else do
    pure params_go_black_time

/-- `const fn get_self_increment(&self) -> Option<Duration>` in `impl Search` (engine_core/src/engine/search.rs:170).
* `state_bitboard_turn` = field `self.state.bitboard.turn: u32`
* `params_go_white_increment` = field `self.params.go.white_increment: Option<Duration>`
* `params_go_black_increment` = field `self.params.go.black_increment: Option<Duration>`
`none` = panic (or out of fuel). -/
def Search.get_self_increment (state_bitboard_turn : Int) (params_go_white_increment : Option Int) (params_go_black_increment : Option Int) : Option (Option Int) := do
  if state_bitboard_turn = WHITE then do
    pure params_go_white_increment
  else do
    pure params_go_black_increment

/-- `fn calculate_max_thinking_time(&self) -> Option<Duration>` in `impl Search` (engine_core/src/engine/search.rs:204).
* `state_bitboard_turn` = field `self.state.bitboard.turn: u32`
* `params_go_white_time` = field `self.params.go.white_time: Option<Duration>`
* `params_go_black_time` = field `self.params.go.black_time: Option<Duration>`
* `params_go_white_increment` = field `self.params.go.white_increment: Option<Duration>`
* `params_go_black_increment` = field `self.params.go.black_increment: Option<Duration>`
`none` = panic (or out of fuel). -/
def Search.calculate_max_thinking_time (state_bitboard_turn : Int) (params_go_white_time : Option Int) (params_go_black_time : Option Int) (params_go_white_increment : Option Int) (params_go_black_increment : Option Int) : Option (Option Int) := do
  let increment : Option Int ← Search.get_self_increment state_bitboard_turn params_go_white_increment params_go_black_increment
  let time_remaining : Option Int ← Search.get_self_time_remaining state_bitboard_turn params_go_white_time params_go_black_time
  match time_remaining with
  | some time_remaining_1 => do
    match increment with
    | some increment_2 => do
      let increment_factor : (Int × Int) ← (
        let scrutinee_3 : Int := durAsSecs time_remaining_1
        if 20 ≤ scrutinee_3 then do
          pure (1, 1)
        else do
          if 10 ≤ scrutinee_3 then do
            pure (3, 4)
          else do
            if 2 ≤ scrutinee_3 then do
              pure (1, 2)
            else do
              pure (1, 4))
      pure (some (← durMulF64 increment_2 increment_factor))
    | none => do
      pure (some (← durDiv time_remaining_1 60))
  | none => do
    pure none

end Inkayaku.Rs
