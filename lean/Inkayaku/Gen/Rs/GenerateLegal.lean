/-
GENERATED FILE — do not edit.  Regenerated from the CURRENT Rust sources by /verif/translator:
    rs2lean <repo root> <out dir>
Module `GenerateLegal`.  Semantics of the translation: see the header of `Prelude.lean`.
Rust sources: board/src/board.rs
-/
import Inkayaku.Gen.Rs.Prelude
import Inkayaku.Gen.Rs.Check
import Inkayaku.Gen.Rs.Generate
import Inkayaku.Gen.Rs.Legal

set_option linter.unusedVariables false

namespace Inkayaku.Rs

/-- `.filter(|mv| self.is_move_legal(..)).collect()` of `generate_legal_moves` (board/src/board.rs:267), by structural recursion on the list; the predicate modifies `self`: the fields are threaded through the calls in list order.  Reads: ROOK_MAGICS_get_attacks : Int → UInt64 → UInt64, BISHOP_MAGICS_get_attacks : Int → UInt64 → UInt64, KNIGHT_NONMAGICS_get_attacks : Int → UInt64, KING_NONMAGICS_get_attacks : Int → UInt64, WHITE_PAWN_NONMAGICS_get_attacks : Int → UInt64, BLACK_PAWN_NONMAGICS_get_attacks : Int → UInt64.  State: white : PlayerState, black : PlayerState, turn : u32, en_passant_square_shift : u32, fullmove_clock : u32, halfmove_clock : u32.  `none` = panic. -/
def Bitboard.generate_legal_moves.filter_1 (ROOK_MAGICS_get_attacks : Int → UInt64 → UInt64) (BISHOP_MAGICS_get_attacks : Int → UInt64 → UInt64) (KNIGHT_NONMAGICS_get_attacks : Int → UInt64) (KING_NONMAGICS_get_attacks : Int → UInt64) (WHITE_PAWN_NONMAGICS_get_attacks : Int → UInt64) (BLACK_PAWN_NONMAGICS_get_attacks : Int → UInt64) : (List (UInt64 × Int)) → Inkayaku.Rs.PlayerState → Inkayaku.Rs.PlayerState → Int → Int → Int → Int → Option ((List (UInt64 × Int)) × Inkayaku.Rs.PlayerState × Inkayaku.Rs.PlayerState × Int × Int × Int × Int)
  | [], white, black, turn, en_passant_square_shift, fullmove_clock, halfmove_clock => pure ([], white, black, turn, en_passant_square_shift, fullmove_clock, halfmove_clock)
  | (mv_bits, mv_mvvlva) :: rest_2, white, black, turn, en_passant_square_shift, fullmove_clock, halfmove_clock => do
    let (keep_3, white, black, turn, en_passant_square_shift, fullmove_clock, halfmove_clock) ← Bitboard.is_move_legal white black turn en_passant_square_shift fullmove_clock halfmove_clock mv_bits ROOK_MAGICS_get_attacks BISHOP_MAGICS_get_attacks KNIGHT_NONMAGICS_get_attacks WHITE_PAWN_NONMAGICS_get_attacks BLACK_PAWN_NONMAGICS_get_attacks KING_NONMAGICS_get_attacks
    let (out_4, white, black, turn, en_passant_square_shift, fullmove_clock, halfmove_clock) ← Bitboard.generate_legal_moves.filter_1 ROOK_MAGICS_get_attacks BISHOP_MAGICS_get_attacks KNIGHT_NONMAGICS_get_attacks KING_NONMAGICS_get_attacks WHITE_PAWN_NONMAGICS_get_attacks BLACK_PAWN_NONMAGICS_get_attacks rest_2 white black turn en_passant_square_shift fullmove_clock halfmove_clock
    pure (if keep_3 then (mv_bits, mv_mvvlva) :: out_4 else out_4, white, black, turn, en_passant_square_shift, fullmove_clock, halfmove_clock)

/-- `fn generate_legal_moves(&mut self) -> Vec<Move>` in `impl Bitboard` (board/src/board.rs:266).
* `white` = field `self.white: PlayerState`
* `black` = field `self.black: PlayerState`
* `turn` = field `self.turn: u32`
* `en_passant_square_shift` = field `self.en_passant_square_shift: u32`
* `fullmove_clock` = field `self.fullmove_clock: u32`
* `halfmove_clock` = field `self.halfmove_clock: u32`
* `ROOK_MAGICS_get_attacks` = OPAQUE associated function `Self::ROOK_MAGICS_get_attacks`
* `BISHOP_MAGICS_get_attacks` = OPAQUE associated function `Self::BISHOP_MAGICS_get_attacks`
* `KNIGHT_NONMAGICS_get_attacks` = OPAQUE associated function `Self::KNIGHT_NONMAGICS_get_attacks`
* `KING_NONMAGICS_get_attacks` = OPAQUE associated function `Self::KING_NONMAGICS_get_attacks`
* `WHITE_PAWN_NONMAGICS_get_attacks` = OPAQUE associated function `Self::WHITE_PAWN_NONMAGICS_get_attacks`
* `BLACK_PAWN_NONMAGICS_get_attacks` = OPAQUE associated function `Self::BLACK_PAWN_NONMAGICS_get_attacks`
* `fuel` = loop fuel (one unit per loop iteration)
Result: the returned value and the new value of `self.white`, `self.black`, `self.turn`, `self.en_passant_square_shift`, `self.fullmove_clock`, `self.halfmove_clock`.
`none` = panic (or out of fuel). -/
def Bitboard.generate_legal_moves (white : Inkayaku.Rs.PlayerState) (black : Inkayaku.Rs.PlayerState) (turn : Int) (en_passant_square_shift : Int) (fullmove_clock : Int) (halfmove_clock : Int) (ROOK_MAGICS_get_attacks : Int → UInt64 → UInt64) (BISHOP_MAGICS_get_attacks : Int → UInt64 → UInt64) (KNIGHT_NONMAGICS_get_attacks : Int → UInt64) (KING_NONMAGICS_get_attacks : Int → UInt64) (WHITE_PAWN_NONMAGICS_get_attacks : Int → UInt64) (BLACK_PAWN_NONMAGICS_get_attacks : Int → UInt64) (fuel : Nat) : Option ((List (UInt64 × Int)) × Inkayaku.Rs.PlayerState × Inkayaku.Rs.PlayerState × Int × Int × Int × Int) := do
  let source_1 : List (UInt64 × Int) ← Bitboard.generate_pseudo_legal_moves white black turn en_passant_square_shift halfmove_clock ROOK_MAGICS_get_attacks BISHOP_MAGICS_get_attacks KNIGHT_NONMAGICS_get_attacks KING_NONMAGICS_get_attacks WHITE_PAWN_NONMAGICS_get_attacks BLACK_PAWN_NONMAGICS_get_attacks fuel
  let (collected_5, white, black, turn, en_passant_square_shift, fullmove_clock, halfmove_clock) ← Bitboard.generate_legal_moves.filter_1 ROOK_MAGICS_get_attacks BISHOP_MAGICS_get_attacks KNIGHT_NONMAGICS_get_attacks KING_NONMAGICS_get_attacks WHITE_PAWN_NONMAGICS_get_attacks BLACK_PAWN_NONMAGICS_get_attacks source_1 white black turn en_passant_square_shift fullmove_clock halfmove_clock
  pure (collected_5, white, black, turn, en_passant_square_shift, fullmove_clock, halfmove_clock)

/-- `for` loop of `is_any_move_legal` over a list (board/src/board.rs:1106), by structural recursion on the list.  Reads: ROOK_MAGICS_get_attacks : Int → UInt64 → UInt64, BISHOP_MAGICS_get_attacks : Int → UInt64 → UInt64, KNIGHT_NONMAGICS_get_attacks : Int → UInt64, WHITE_PAWN_NONMAGICS_get_attacks : Int → UInt64, BLACK_PAWN_NONMAGICS_get_attacks : Int → UInt64, KING_NONMAGICS_get_attacks : Int → UInt64.  State: white : PlayerState, black : PlayerState, turn : u32, en_passant_square_shift : u32, fullmove_clock : u32, halfmove_clock : u32.  `none` = panic; `Ctl.ret r` = the function returned (`r` = its complete result) from inside the loop, `Ctl.next s` = the loop ended. -/
def Bitboard.is_any_move_legal.for_1 (ROOK_MAGICS_get_attacks : Int → UInt64 → UInt64) (BISHOP_MAGICS_get_attacks : Int → UInt64 → UInt64) (KNIGHT_NONMAGICS_get_attacks : Int → UInt64) (WHITE_PAWN_NONMAGICS_get_attacks : Int → UInt64) (BLACK_PAWN_NONMAGICS_get_attacks : Int → UInt64) (KING_NONMAGICS_get_attacks : Int → UInt64) : (List (UInt64 × Int)) → Inkayaku.Rs.PlayerState → Inkayaku.Rs.PlayerState → Int → Int → Int → Int → Option (Ctl (Bool × Inkayaku.Rs.PlayerState × Inkayaku.Rs.PlayerState × Int × Int × Int × Int) (Inkayaku.Rs.PlayerState × Inkayaku.Rs.PlayerState × Int × Int × Int × Int))
  | [], white, black, turn, en_passant_square_shift, fullmove_clock, halfmove_clock => pure (Ctl.next (white, black, turn, en_passant_square_shift, fullmove_clock, halfmove_clock))
  | (mv_bits, mv_mvvlva) :: rest_2, white, black, turn, en_passant_square_shift, fullmove_clock, halfmove_clock => do
    let (r_1, white, black, turn, en_passant_square_shift, fullmove_clock, halfmove_clock) ← Bitboard.is_move_legal white black turn en_passant_square_shift fullmove_clock halfmove_clock mv_bits ROOK_MAGICS_get_attacks BISHOP_MAGICS_get_attacks KNIGHT_NONMAGICS_get_attacks WHITE_PAWN_NONMAGICS_get_attacks BLACK_PAWN_NONMAGICS_get_attacks KING_NONMAGICS_get_attacks
    if r_1 then do
      pure (Ctl.ret (true, white, black, turn, en_passant_square_shift, fullmove_clock, halfmove_clock))
    else do
      Bitboard.is_any_move_legal.for_1 ROOK_MAGICS_get_attacks BISHOP_MAGICS_get_attacks KNIGHT_NONMAGICS_get_attacks WHITE_PAWN_NONMAGICS_get_attacks BLACK_PAWN_NONMAGICS_get_attacks KING_NONMAGICS_get_attacks rest_2 white black turn en_passant_square_shift fullmove_clock halfmove_clock

/-- `fn is_any_move_legal(&mut self, moves: &[Move]) -> bool` in `impl Bitboard` (board/src/board.rs:1105).
* `white` = field `self.white: PlayerState`
* `black` = field `self.black: PlayerState`
* `turn` = field `self.turn: u32`
* `en_passant_square_shift` = field `self.en_passant_square_shift: u32`
* `fullmove_clock` = field `self.fullmove_clock: u32`
* `halfmove_clock` = field `self.halfmove_clock: u32`
* `moves` = parameter `moves: Vec<Move>`
* `ROOK_MAGICS_get_attacks` = OPAQUE associated function `Self::ROOK_MAGICS_get_attacks`
* `BISHOP_MAGICS_get_attacks` = OPAQUE associated function `Self::BISHOP_MAGICS_get_attacks`
* `KNIGHT_NONMAGICS_get_attacks` = OPAQUE associated function `Self::KNIGHT_NONMAGICS_get_attacks`
* `WHITE_PAWN_NONMAGICS_get_attacks` = OPAQUE associated function `Self::WHITE_PAWN_NONMAGICS_get_attacks`
* `BLACK_PAWN_NONMAGICS_get_attacks` = OPAQUE associated function `Self::BLACK_PAWN_NONMAGICS_get_attacks`
* `KING_NONMAGICS_get_attacks` = OPAQUE associated function `Self::KING_NONMAGICS_get_attacks`
Result: the returned value and the new value of `self.white`, `self.black`, `self.turn`, `self.en_passant_square_shift`, `self.fullmove_clock`, `self.halfmove_clock`.
`none` = panic (or out of fuel). -/
def Bitboard.is_any_move_legal (white : Inkayaku.Rs.PlayerState) (black : Inkayaku.Rs.PlayerState) (turn : Int) (en_passant_square_shift : Int) (fullmove_clock : Int) (halfmove_clock : Int) (moves : List (UInt64 × Int)) (ROOK_MAGICS_get_attacks : Int → UInt64 → UInt64) (BISHOP_MAGICS_get_attacks : Int → UInt64 → UInt64) (KNIGHT_NONMAGICS_get_attacks : Int → UInt64) (WHITE_PAWN_NONMAGICS_get_attacks : Int → UInt64) (BLACK_PAWN_NONMAGICS_get_attacks : Int → UInt64) (KING_NONMAGICS_get_attacks : Int → UInt64) : Option (Bool × Inkayaku.Rs.PlayerState × Inkayaku.Rs.PlayerState × Int × Int × Int × Int) := do
  match (← Bitboard.is_any_move_legal.for_1 ROOK_MAGICS_get_attacks BISHOP_MAGICS_get_attacks KNIGHT_NONMAGICS_get_attacks WHITE_PAWN_NONMAGICS_get_attacks BLACK_PAWN_NONMAGICS_get_attacks KING_NONMAGICS_get_attacks moves white black turn en_passant_square_shift fullmove_clock halfmove_clock) with
  | Ctl.ret r => pure r
  | Ctl.next (white, black, turn, en_passant_square_shift, fullmove_clock, halfmove_clock) => do
    pure (false, white, black, turn, en_passant_square_shift, fullmove_clock, halfmove_clock)

end Inkayaku.Rs
