/-
GENERATED FILE — do not edit.  Regenerated from the CURRENT Rust sources by /verif/translator:
    rs2lean <repo root> <out dir>
Module `MoveCtor`.  Semantics of the translation: see the header of `Prelude.lean`.
Rust sources: board/src/board.rs
-/
import Inkayaku.Gen.Rs.Prelude
import Inkayaku.Gen.Rs.Check
import Inkayaku.Gen.Rs.MoveBits

set_option linter.unusedVariables false

namespace Inkayaku.Rs

/-- `const fn get_piece_const_by_square_mask(&self, square_mask: SquareMaskBits) -> PieceBits` in `impl PlayerState` (board/src/board.rs:227).
* `occupancy` = field `self.occupancy: Vec<u64>`
* `square_mask` = parameter `square_mask: u64`
`none` = panic (or out of fuel). -/
def PlayerState.get_piece_const_by_square_mask (occupancy : List UInt64) (square_mask : UInt64) : Option UInt64 := do
  if ((← PlayerState.pawns occupancy) &&& square_mask) ≠ (0 : UInt64) then do
    pure PAWN
  else do
    if ((← PlayerState.knights occupancy) &&& square_mask) ≠ (0 : UInt64) then do
      pure KNIGHT
    else do
      if ((← PlayerState.bishops occupancy) &&& square_mask) ≠ (0 : UInt64) then do
        pure BISHOP
      else do
        if ((← PlayerState.rooks occupancy) &&& square_mask) ≠ (0 : UInt64) then do
          pure ROOK
        else do
          if ((← PlayerState.queens occupancy) &&& square_mask) ≠ (0 : UInt64) then do
            pure QUEEN
          else do
            if ((← PlayerState.kings occupancy) &&& square_mask) ≠ (0 : UInt64) then do
              pure KING
            else do
              pure NO_PIECE

/-- `const fn get_piece_const_by_square_shift(&self, square_shift: SquareShiftBits) -> PieceBits` in `impl PlayerState` (board/src/board.rs:223).
* `occupancy` = field `self.occupancy: Vec<u64>`
* `square_shift` = parameter `square_shift: u32`
`none` = panic (or out of fuel). -/
def PlayerState.get_piece_const_by_square_shift (occupancy : List UInt64) (square_shift : Int) : Option UInt64 := do
  PlayerState.get_piece_const_by_square_mask occupancy (← u64Shl (1 : UInt64) square_shift)

/-- `const PIECE_VALUES: Vec<i32> = [0 , 100 , 320 , 330 , 500 , 900 , 901]` (board/src/board.rs:635) -/
def Bitboard.PIECE_VALUES : List Int := [0, 100, 320, 330, 500, 900, 901]

/-- `const fn mvv_lva(piece_active: PieceBits, piece_attacked: PieceBits) -> i32` in `impl Bitboard` (board/src/board.rs:638).
* `piece_active` = parameter `piece_active: u64`
* `piece_attacked` = parameter `piece_attacked: u64`
`none` = panic (or out of fuel). -/
def Bitboard.mvv_lva (piece_active : UInt64) (piece_attacked : UInt64) : Option Int := do
  if (piece_attacked = NO_PIECE) ∨ (piece_attacked = KING) then do
    pure 0
  else do
    let active_value : Int ← vecIdx Bitboard.PIECE_VALUES (cast .usize (u64ToInt piece_active))
    let target_value : Int ← vecIdx Bitboard.PIECE_VALUES (cast .usize (u64ToInt piece_attacked))
    chk .i32 ((← shl .i32 target_value 8) - active_value)

/-- `fn make_move(&self, result: &mut Vec<Move>, non_quiescent_only: bool, source_square_shift: SquareShiftBits, target_square_shift: SquareShiftBits, piece_active: PieceBits, is_castle_move_mask: u64, is_en_passant_attack_mask: u64, promote_to: PieceBits, en_passant_opportunity_square_shift: SquareShiftBits,)` in `impl Bitboard` (board/src/board.rs:554).
* `white` = field `self.white: PlayerState`
* `black` = field `self.black: PlayerState`
* `turn` = field `self.turn: u32`
* `en_passant_square_shift` = field `self.en_passant_square_shift: u32`
* `halfmove_clock` = field `self.halfmove_clock: u32`
* `result` = parameter `result: Vec<Move>`
* `non_quiescent_only` = parameter `non_quiescent_only: bool`
* `source_square_shift` = parameter `source_square_shift: u32`
* `target_square_shift` = parameter `target_square_shift: u32`
* `piece_active` = parameter `piece_active: u64`
* `is_castle_move_mask` = parameter `is_castle_move_mask: u64`
* `is_en_passant_attack_mask` = parameter `is_en_passant_attack_mask: u64`
* `promote_to` = parameter `promote_to: u64`
* `en_passant_opportunity_square_shift` = parameter `en_passant_opportunity_square_shift: u32`
Result: the new value of the `&mut` parameter(s) `result`.
`none` = panic (or out of fuel). -/
def Bitboard.make_move (white : Inkayaku.Rs.PlayerState) (black : Inkayaku.Rs.PlayerState) (turn : Int) (en_passant_square_shift : Int) (halfmove_clock : Int) (result : List (UInt64 × Int)) (non_quiescent_only : Bool) (source_square_shift : Int) (target_square_shift : Int) (piece_active : UInt64) (is_castle_move_mask : UInt64) (is_en_passant_attack_mask : UInt64) (promote_to : UInt64) (en_passant_opportunity_square_shift : Int) : Option (List (UInt64 × Int)) := do
  let en_passant_offset : Int := if is_en_passant_attack_mask = (0 : UInt64) then 0 else 8
  let (active, passive, d_castle, attack_square_shift) ← (
    if (← Bitboard.is_white_turn turn) then do
      let active : Inkayaku.Rs.PlayerState := white
      let passive : Inkayaku.Rs.PlayerState := black
      let d_castle : Int := 0
      let attack_square_shift : Int ← chk .u32 (target_square_shift + en_passant_offset)
      pure (active, passive, d_castle, attack_square_shift)
    else do
      let active : Inkayaku.Rs.PlayerState := black
      let passive : Inkayaku.Rs.PlayerState := white
      let d_castle : Int := 56
      let attack_square_shift : Int ← chk .u32 (target_square_shift - en_passant_offset)
      pure (active, passive, d_castle, attack_square_shift))
  let piece_attacked : UInt64 ← PlayerState.get_piece_const_by_square_shift passive.occupancy attack_square_shift
  if ((decide (piece_attacked = NO_PIECE)) && (decide (promote_to = NO_PIECE))) && non_quiescent_only then do
    pure result
  else do
    let mv_bits : UInt64 := (0 : UInt64)
    let mv_mvvlva : Int := 0
    let mv_bits ← Move.set_en_passant_attack mv_bits is_en_passant_attack_mask
    let mv_bits ← Move.set_next_en_passant_square mv_bits en_passant_opportunity_square_shift
    let mv_bits ← Move.set_piece_moved mv_bits piece_active
    let mv_bits ← Move.set_piece_attacked mv_bits piece_attacked
    let mv_bits ← Move.set_source_square mv_bits source_square_shift
    let mv_bits ← Move.set_target_square mv_bits target_square_shift
    let mv_bits ← Move.set_castle_move mv_bits is_castle_move_mask
    let mv_bits ← Move.set_previous_halfmove mv_bits halfmove_clock
    let mv_bits ← Move.set_previous_en_passant_square mv_bits en_passant_square_shift
    let mv_bits ← Move.set_promotion_piece mv_bits promote_to
    let mv_bits ← Move.set_side_to_move mv_bits turn
    let mv_bits ← (
      if (piece_active = PAWN) ∨ (piece_attacked ≠ NO_PIECE) then do
        let mv_bits ← Move.set_halfmove_reset mv_bits
        pure mv_bits
      else do
        pure mv_bits)
    let mv_bits ← (
      if (← (if passive.queen_side_castle then (do pure (decide (target_square_shift = (← chk .u32 (A8 + d_castle))))) else pure false)) then do
        let mv_bits ← Move.set_opponent_lost_queen_side_castle mv_bits
        pure mv_bits
      else do
        if (← (if passive.king_side_castle then (do pure (decide (target_square_shift = (← chk .u32 (H8 + d_castle))))) else pure false)) then do
          let mv_bits ← Move.set_opponent_lost_king_side_castle mv_bits
          pure mv_bits
        else do
          pure mv_bits)
    let mv_bits ← (
      if (← (if active.queen_side_castle then (do (if source_square_shift = (← chk .u32 (A1 - d_castle)) then pure true else (do pure (decide (source_square_shift = (← chk .u32 (E1 - d_castle))))))) else pure false)) then do
        let mv_bits ← Move.set_self_lost_queen_side_castle mv_bits
        pure mv_bits
      else do
        pure mv_bits)
    let mv_bits ← (
      if (← (if active.king_side_castle then (do (if source_square_shift = (← chk .u32 (H1 - d_castle)) then pure true else (do pure (decide (source_square_shift = (← chk .u32 (E1 - d_castle))))))) else pure false)) then do
        let mv_bits ← Move.set_self_lost_king_side_castle mv_bits
        pure mv_bits
      else do
        pure mv_bits)
    let mv_mvvlva : Int ← Bitboard.mvv_lva piece_active piece_attacked
    let result : List (UInt64 × Int) := result ++ [(mv_bits, mv_mvvlva)]
    pure result

end Inkayaku.Rs
