/-
GENERATED FILE — do not edit.  Regenerated from the CURRENT Rust sources by /verif/translator:
    rs2lean <repo root> <out dir>
Module `FindUci`.  Semantics of the translation: see the header of `Prelude.lean`.
Rust sources: board/src/board.rs
-/
import Inkayaku.Gen.Rs.Prelude
import Inkayaku.Gen.Rs.Check
import Inkayaku.Gen.Rs.Generate
import Inkayaku.Gen.Rs.MakeUnmake
import Inkayaku.Gen.Rs.UciText

set_option linter.unusedVariables false

namespace Inkayaku.Rs

/-- `enum MoveFromUciError` (board/src/board.rs:171) -/
inductive MoveFromUciError where
  | MoveDoesNotExist (_0 : List Char)
  | MoveIsNotValid (_0 : (UInt64 × Int))
deriving DecidableEq, Repr

/-- `.find(|mv| ..)` of `find_uci` (board/src/board.rs:1178), by structural recursion on the list: the first element the predicate holds for (the predicate is not evaluated on later elements).  Reads: uci : str, Square_from_index : Int → Option SquareT, Square_fen : SquareT → List Char, Piece_from_index : Int → Option PieceT, Piece_fen : PieceT → Char.  `none` = panic. -/
def Bitboard.find_uci.find_1 (uci : List Char) (Square_from_index : Int → Option SquareT) (Square_fen : SquareT → List Char) (Piece_from_index : Int → Option PieceT) (Piece_fen : PieceT → Char) : (List (UInt64 × Int)) → Option (Option (UInt64 × Int))
  | [] => pure none
  | (mv_bits, mv_mvvlva) :: rest_2 => do
    let hit_3 : Bool := decide ((← Move.to_uci_string mv_bits Square_from_index Square_fen Piece_from_index Piece_fen) = uci)
    if hit_3 then pure (some (mv_bits, mv_mvvlva)) else Bitboard.find_uci.find_1 uci Square_from_index Square_fen Piece_from_index Piece_fen rest_2

/-- `fn find_uci(&mut self, uci: &str) -> Result<Move, MoveFromUciError>` in `impl Bitboard` (board/src/board.rs:1176).
* `white` = field `self.white: PlayerState`
* `black` = field `self.black: PlayerState`
* `turn` = field `self.turn: u32`
* `en_passant_square_shift` = field `self.en_passant_square_shift: u32`
* `fullmove_clock` = field `self.fullmove_clock: u32`
* `halfmove_clock` = field `self.halfmove_clock: u32`
* `uci` = parameter `uci: str`
* `ROOK_MAGICS_get_attacks` = OPAQUE associated function `Self::ROOK_MAGICS_get_attacks`
* `BISHOP_MAGICS_get_attacks` = OPAQUE associated function `Self::BISHOP_MAGICS_get_attacks`
* `KNIGHT_NONMAGICS_get_attacks` = OPAQUE associated function `Self::KNIGHT_NONMAGICS_get_attacks`
* `KING_NONMAGICS_get_attacks` = OPAQUE associated function `Self::KING_NONMAGICS_get_attacks`
* `WHITE_PAWN_NONMAGICS_get_attacks` = OPAQUE associated function `Self::WHITE_PAWN_NONMAGICS_get_attacks`
* `BLACK_PAWN_NONMAGICS_get_attacks` = OPAQUE associated function `Self::BLACK_PAWN_NONMAGICS_get_attacks`
* `Square_from_index` = OPAQUE associated function `Self::Square_from_index`
* `Square_fen` = OPAQUE associated function `Self::Square_fen`
* `Piece_from_index` = OPAQUE associated function `Self::Piece_from_index`
* `Piece_fen` = OPAQUE associated function `Self::Piece_fen`
* `fuel` = loop fuel (one unit per loop iteration)
Result: the returned value and the new value of `self.white`, `self.black`, `self.turn`, `self.en_passant_square_shift`, `self.fullmove_clock`, `self.halfmove_clock`.
`none` = panic (or out of fuel). -/
def Bitboard.find_uci {SquareT : Type} {PieceT : Type} (white : Inkayaku.Rs.PlayerState) (black : Inkayaku.Rs.PlayerState) (turn : Int) (en_passant_square_shift : Int) (fullmove_clock : Int) (halfmove_clock : Int) (uci : List Char) (ROOK_MAGICS_get_attacks : Int → UInt64 → UInt64) (BISHOP_MAGICS_get_attacks : Int → UInt64 → UInt64) (KNIGHT_NONMAGICS_get_attacks : Int → UInt64) (KING_NONMAGICS_get_attacks : Int → UInt64) (WHITE_PAWN_NONMAGICS_get_attacks : Int → UInt64) (BLACK_PAWN_NONMAGICS_get_attacks : Int → UInt64) (Square_from_index : Int → Option SquareT) (Square_fen : SquareT → List Char) (Piece_from_index : Int → Option PieceT) (Piece_fen : PieceT → Char) (fuel : Nat) : Option ((Except Inkayaku.Rs.MoveFromUciError (UInt64 × Int)) × Inkayaku.Rs.PlayerState × Inkayaku.Rs.PlayerState × Int × Int × Int × Int) := do
  let uci : List Char := strTrim uci
  let source_1 : List (UInt64 × Int) ← Bitboard.generate_pseudo_legal_moves white black turn en_passant_square_shift halfmove_clock ROOK_MAGICS_get_attacks BISHOP_MAGICS_get_attacks KNIGHT_NONMAGICS_get_attacks KING_NONMAGICS_get_attacks WHITE_PAWN_NONMAGICS_get_attacks BLACK_PAWN_NONMAGICS_get_attacks fuel
  let found_4 : Option (UInt64 × Int) ← Bitboard.find_uci.find_1 uci Square_from_index Square_fen Piece_from_index Piece_fen source_1
  match found_4 with
  | none => pure ((Except.error (MoveFromUciError.MoveDoesNotExist uci)), white, black, turn, en_passant_square_shift, fullmove_clock, halfmove_clock)
  | some (result_bits, result_mvvlva) => do
    let (white, black, turn, en_passant_square_shift, fullmove_clock, halfmove_clock) ← Bitboard.make white black turn en_passant_square_shift fullmove_clock halfmove_clock result_bits
    if !(← Bitboard.is_valid white black turn ROOK_MAGICS_get_attacks BISHOP_MAGICS_get_attacks KNIGHT_NONMAGICS_get_attacks WHITE_PAWN_NONMAGICS_get_attacks BLACK_PAWN_NONMAGICS_get_attacks KING_NONMAGICS_get_attacks) then do
      let (white, black, turn, en_passant_square_shift, fullmove_clock, halfmove_clock) ← Bitboard.unmake white black turn en_passant_square_shift fullmove_clock halfmove_clock result_bits
      pure (Except.error (MoveFromUciError.MoveIsNotValid (result_bits, result_mvvlva)), white, black, turn, en_passant_square_shift, fullmove_clock, halfmove_clock)
    else do
      let (white, black, turn, en_passant_square_shift, fullmove_clock, halfmove_clock) ← Bitboard.unmake white black turn en_passant_square_shift fullmove_clock halfmove_clock result_bits
      pure (Except.ok (result_bits, result_mvvlva), white, black, turn, en_passant_square_shift, fullmove_clock, halfmove_clock)

/-- `fn make_uci(&mut self, uci: &str) -> Result<(), MoveFromUciError>` in `impl Bitboard` (board/src/board.rs:1190).
* `white` = field `self.white: PlayerState`
* `black` = field `self.black: PlayerState`
* `turn` = field `self.turn: u32`
* `en_passant_square_shift` = field `self.en_passant_square_shift: u32`
* `fullmove_clock` = field `self.fullmove_clock: u32`
* `halfmove_clock` = field `self.halfmove_clock: u32`
* `uci` = parameter `uci: str`
* `ROOK_MAGICS_get_attacks` = OPAQUE associated function `Self::ROOK_MAGICS_get_attacks`
* `BISHOP_MAGICS_get_attacks` = OPAQUE associated function `Self::BISHOP_MAGICS_get_attacks`
* `KNIGHT_NONMAGICS_get_attacks` = OPAQUE associated function `Self::KNIGHT_NONMAGICS_get_attacks`
* `KING_NONMAGICS_get_attacks` = OPAQUE associated function `Self::KING_NONMAGICS_get_attacks`
* `WHITE_PAWN_NONMAGICS_get_attacks` = OPAQUE associated function `Self::WHITE_PAWN_NONMAGICS_get_attacks`
* `BLACK_PAWN_NONMAGICS_get_attacks` = OPAQUE associated function `Self::BLACK_PAWN_NONMAGICS_get_attacks`
* `Square_from_index` = OPAQUE associated function `Self::Square_from_index`
* `Square_fen` = OPAQUE associated function `Self::Square_fen`
* `Piece_from_index` = OPAQUE associated function `Self::Piece_from_index`
* `Piece_fen` = OPAQUE associated function `Self::Piece_fen`
* `fuel` = loop fuel (one unit per loop iteration)
Result: the returned value and the new value of `self.white`, `self.black`, `self.turn`, `self.en_passant_square_shift`, `self.fullmove_clock`, `self.halfmove_clock`.
`none` = panic (or out of fuel). -/
def Bitboard.make_uci {SquareT : Type} {PieceT : Type} (white : Inkayaku.Rs.PlayerState) (black : Inkayaku.Rs.PlayerState) (turn : Int) (en_passant_square_shift : Int) (fullmove_clock : Int) (halfmove_clock : Int) (uci : List Char) (ROOK_MAGICS_get_attacks : Int → UInt64 → UInt64) (BISHOP_MAGICS_get_attacks : Int → UInt64 → UInt64) (KNIGHT_NONMAGICS_get_attacks : Int → UInt64) (KING_NONMAGICS_get_attacks : Int → UInt64) (WHITE_PAWN_NONMAGICS_get_attacks : Int → UInt64) (BLACK_PAWN_NONMAGICS_get_attacks : Int → UInt64) (Square_from_index : Int → Option SquareT) (Square_fen : SquareT → List Char) (Piece_from_index : Int → Option PieceT) (Piece_fen : PieceT → Char) (fuel : Nat) : Option ((Except Inkayaku.Rs.MoveFromUciError Unit) × Inkayaku.Rs.PlayerState × Inkayaku.Rs.PlayerState × Int × Int × Int × Int) := do
  let (r_1, white, black, turn, en_passant_square_shift, fullmove_clock, halfmove_clock) ← Bitboard.find_uci white black turn en_passant_square_shift fullmove_clock halfmove_clock uci ROOK_MAGICS_get_attacks BISHOP_MAGICS_get_attacks KNIGHT_NONMAGICS_get_attacks KING_NONMAGICS_get_attacks WHITE_PAWN_NONMAGICS_get_attacks BLACK_PAWN_NONMAGICS_get_attacks Square_from_index Square_fen Piece_from_index Piece_fen fuel
  match r_1 with
  | Except.error err => pure ((Except.error err), white, black, turn, en_passant_square_shift, fullmove_clock, halfmove_clock)
  | Except.ok (mv_bits, mv_mvvlva) => do
    let (white, black, turn, en_passant_square_shift, fullmove_clock, halfmove_clock) ← Bitboard.make white black turn en_passant_square_shift fullmove_clock halfmove_clock mv_bits
    pure (Except.ok (), white, black, turn, en_passant_square_shift, fullmove_clock, halfmove_clock)

end Inkayaku.Rs
