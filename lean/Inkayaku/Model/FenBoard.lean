import Inkayaku.Model.Board
import Inkayaku.Model.FenSyntax
/-!
Model of the board-level FEN decoding (`FenParseExt`, `From<&Fen> for Bitboard`) and of the serialiser
(`From<&Bitboard> for Fen`) in board/src/board.rs.  Core Lean only.
-/
namespace Inkayaku.FenBoard
open Inkayaku.Board Inkayaku.FenSyntax

def isUpper (c : Char) : Bool := 'A' ≤ c && c ≤ 'Z'
def toLower (c : Char) : Char := if isUpper c then Char.ofNat (c.toNat + 32) else c

def pieceOfChar (c : Char) : Option Nat :=
  match toLower c with
  | 'p' => some PAWN | 'n' => some KNIGHT | 'b' => some BISHOP | 'r' => some ROOK | 'q' => some QUEEN | 'k' => some KING
  | _ => none

/-- one rank of `parse_player_states`: walks the characters, digits advance the file -/
def placeRank (rankIdx : Nat) : List Char → Nat → Side × Side → Side × Side
  | [], _, ws => ws
  | c :: cs, file, (w, bl) =>
    if isAsciiDigit c then placeRank rankIdx cs (file + digitVal c) (w, bl)
    else
      match pieceOfChar c with
      | none => (w, bl)      -- Rust: panic!() (unreachable after the grammar check)
      | some p =>
        let m := bitU (file + 8 * rankIdx)
        if isUpper c then placeRank rankIdx cs (file + 1) (w.set p (w.get p ||| m), bl)
        else placeRank rankIdx cs (file + 1) (w, bl.set p (bl.get p ||| m))

def placeRanks : List (List Char) → Nat → Side × Side → Side × Side
  | [], _, ws => ws
  | r :: rs, idx, ws => placeRanks rs (idx + 1) (placeRank idx r 0 ws)

/-- `square_shift_from_fen_unchecked` on a two-character square name -/
def squareOfName (s : List Char) : Nat :=
  match s with
  | [f, r] => (f.toNat - 97) + 8 * (8 - digitVal r)
  | _ => 0

/-- `Bitboard::from(&Fen)` -/
def boardOfFields (f : FenFields) : Board :=
  let (w, bl) := placeRanks (splitOnChar '/' f.placement) 0 ({}, {})
  { white := { w with qs := f.castling.contains 'Q', ks := f.castling.contains 'K' }
    black := { bl with qs := f.castling.contains 'q', ks := f.castling.contains 'k' }
    turn := if f.side = 'b' then 1 else 0
    ep := if f.ep = ['-'] then 0 else squareOfName f.ep
    fullmove := f.full
    halfmove := f.half }

/-- `Bitboard::from_fen_string` -/
def fromFenString (s : String) : Except FenErr Board :=
  match FenSyntax.parse s with
  | .ok f => .ok (boardOfFields f)
  | .error e => .error e

def pieceFenChar (p : Nat) (white : Bool) : Char :=
  let c := match p with | 1 => 'p' | 2 => 'n' | 3 => 'b' | 4 => 'r' | 5 => 'q' | 6 => 'k' | _ => '?'
  if white then Char.ofNat (c.toNat - 32) else c

/-- `get_colored_piece`: `none` = Rust panic (both colours on one square); `some none` = empty -/
def coloredPiece (b : Board) (sq : Nat) : Option (Option Char) :=
  let w := b.white.pieceAt sq
  let bl := b.black.pieceAt sq
  if w != 0 && bl != 0 then none
  else if w != 0 then some (some (pieceFenChar w true))
  else if bl != 0 then some (some (pieceFenChar bl false))
  else some none

def natToChars (n : Nat) : List Char := (toString n).toList

def printRank (b : Board) (rank : Nat) : Nat → Nat → Nat → Option (List Char)
  | 0, _, empty => some (if empty > 0 then natToChars empty else [])
  | fuel + 1, file, empty =>
    match coloredPiece b (file + 8 * rank) with
    | none => none
    | some none => printRank b rank fuel (file + 1) (empty + 1)
    | some (some c) =>
      match printRank b rank fuel (file + 1) 0 with
      | none => none
      | some rest => some ((if empty > 0 then natToChars empty else []) ++ c :: rest)

def printRanks (b : Board) : Nat → Nat → Option (List Char)
  | 0, _ => some []
  | fuel + 1, rank =>
    match printRank b rank 8 0 0, printRanks b fuel (rank + 1) with
    | some r, some rest => some (r ++ (if rank < 7 then ['/'] else []) ++ rest)
    | _, _ => none

/-- `Fen::from(&Bitboard).fen`; `none` = the Rust panics -/
def printFen (b : Board) : Option String :=
  match printRanks b 8 0 with
  | none => none
  | some placement =>
    let castle := (if b.white.ks then ['K'] else []) ++ (if b.white.qs then ['Q'] else [])
      ++ (if b.black.ks then ['k'] else []) ++ (if b.black.qs then ['q'] else [])
    let s := placement ++ [' ', if b.whiteTurn then 'w' else 'b', ' '] ++ (if castle.isEmpty then ['-'] else castle)
      ++ [' '] ++ (if b.ep == 0 then ['-'] else (squareString b.ep).toList)
      ++ [' '] ++ natToChars b.halfmove ++ [' '] ++ natToChars b.fullmove
    -- `result.parse().unwrap()`: the printed text has to pass the grammar again
    match FenSyntax.parseChars s with
    | .ok _ => some (String.ofList s)
    | .error _ => none

def startBoard : Board :=
  match fromFenString FenSyntax.startposString with
  | .ok b => b
  | .error _ => default

end Inkayaku.FenBoard
