import Inkayaku.Model.Uci

/-!
Model of the engine-to-GUI printer `ConsoleUciTx` (`uci/src/uci/console.rs`) with the values it prints
(`uci/src/uci.rs`: `Info`, `Score`, `Bound`, `CurrentLine`, `ProtectionMessage`, `UciMove` `Display`).  Core Lean only.

Conventions of this model
* a Rust `&str` / `String` is a `List Char` (as in `Inkayaku.Model.Uci`); `render : TxMsg → String` packs the result;
* a move is `Inkayaku.Uci.UciMove` (source, target, promotion option; a square is its index 0..63, `a8 = 0 … h1 = 63`),
  printed by `Inkayaku.Uci.UciMove.render` (file letter `'a' + sq % 8`, rank digit `8 - sq / 8`, lower-case piece letter);
* `u32`/`u64`/`u128` are `Nat`, `i32` is `Int` (the model is total on *all* integers, the Rust types are sub-ranges);
  `Display` of an integer is its decimal numeral, `-` for negatives, no `+`, no leading zeros;
* `Info.time` is the `Duration` already converted by `as_millis()` (a `u128`);
* every `tx(..)` call is one `println!("{}", line)` on stdout (`engine_app/src/main.rs`): the model value is `line`
  *without* the line terminator;
* `UciTx::debug` is not a `TxMsg`: `ConsoleUciTx::debug` goes to the *debug consumer*, which the application binds to
  `eprintln!("DEBUG: {}", …)` (stderr), not to stdout;
* `id_name` / `id_author` `assert!` that the text is not empty: the model prints the empty text too
  (`Props/C16Console.lean` states the guard explicitly).

Quirks kept (see `Props/C16Console.lean`)
* `move_array_to_string` of an empty slice is `""`, so `principal_variation: Some(vec![])` prints ` pv ` followed by
  nothing: `info depth 1 pv  score cp 3` (two spaces) or a trailing space at the end of the line.  Same for
  `refutation` and for `currline` (`"{} {}"` always prints the space after the cpu number).
* `tx_options` prints `option name {} type {} {}` and then `trim`s the *whole* line (that is how `button`, whose
  remainder is empty, loses its trailing space; it also eats white space at the end of a default value).
-/
namespace Inkayaku.Console
open Inkayaku.Uci (UciMove Piece Tok)

/-! ## `Display` of integers -/

def digitChar (d : Nat) : Char := Char.ofNat (48 + d)

/-- `Display` of an unsigned integer -/
def natText (n : Nat) : List Char :=
  if n < 10 then [digitChar n] else natText (n / 10) ++ [digitChar (n % 10)]
decreasing_by omega

/-- `Display` of a signed integer -/
def intText (v : Int) : List Char :=
  if v < 0 then '-' :: natText v.natAbs else natText v.toNat

/-- `[..].join(" ")` -/
def joinSp : List Tok → List Char
  | [] => []
  | [t] => t
  | t :: t' :: ts => t ++ ' ' :: joinSp (t' :: ts)

/-! ## values -/

inductive Bound where
  | lower | upper
deriving DecidableEq, Repr, Inhabited

/-- `impl Display for Bound` -/
def Bound.text : Bound → List Char
  | .lower => "lowerbound".toList
  | .upper => "upperbound".toList

inductive Score where
  | cp (score : Int)
  | cpBounded (score : Int) (bound : Bound)
  | mate (mateIn : Int)
deriving DecidableEq, Repr, Inhabited

inductive Protection where
  | checking | ok | error
deriving DecidableEq, Repr, Inhabited

/-- `impl Display for ProtectionMessage` -/
def Protection.text : Protection → List Char
  | .checking => "checking".toList
  | .ok => "ok".toList
  | .error => "error".toList

structure CurrentLine where
  cpu : Nat
  line : List UciMove
deriving DecidableEq, Repr, Inhabited

/-- `Info` (17 optional fields, in the order in which `ConsoleUciTx::info` prints them) -/
structure Info where
  depth : Option Nat := none
  seldepth : Option Nat := none
  /-- milliseconds (`Duration::as_millis`) -/
  time : Option Nat := none
  nodes : Option Nat := none
  pv : Option (List UciMove) := none
  multipv : Option Nat := none
  score : Option Score := none
  currmove : Option UciMove := none
  currmovenumber : Option Nat := none
  hashfull : Option Nat := none
  nps : Option Nat := none
  tbhits : Option Nat := none
  sbhits : Option Nat := none
  cpuload : Option Nat := none
  refutation : Option (List UciMove) := none
  currline : Option CurrentLine := none
  string : Option (List Char) := none
deriving DecidableEq, Repr, Inhabited

/-- `Info::EMPTY` -/
def Info.empty : Info := {}

/-- one call of a `UciTx` method that writes to stdout -/
inductive TxMsg where
  | idName (name : List Char)
  | idAuthor (author : List Char)
  | uciOk
  | readyOk
  | bestMove (best ponder : Option UciMove)
  | copyProtection (p : Protection)
  | registration (p : Protection)
  | info (i : Info)
  | optionCheck (name : List Char) (default : Bool)
  | optionSpin (name : List Char) (default min max : Int)
  | optionCombo (name default : List Char) (vars : List (List Char))
  | optionButton (name : List Char)
  | optionString (name default : List Char)
deriving DecidableEq, Repr, Inhabited

/-! ## the printer -/

/-- `move_array_to_string` -/
def movesText (ms : List UciMove) : List Char := joinSp (ms.map UciMove.render)

/-- `score_to_string` -/
def scoreText : Score → List Char
  | .mate v => "mate ".toList ++ intText v
  | .cp v => "cp ".toList ++ intText v
  | .cpBounded v b => "cp ".toList ++ (intText v ++ ' ' :: b.text)

/-- `current_line_to_string` -/
def currentLineText (c : CurrentLine) : List Char := natText c.cpu ++ ' ' :: movesText c.line

/-- `append_maybe`: the text appended to the accumulator -/
def appendMaybe (key : List Char) : Option (List Char) → List Char
  | none => []
  | some v => ' ' :: (key ++ ' ' :: v)

/-- the 17 `append_maybe` calls of `ConsoleUciTx::info`, in order -/
def infoSegments (i : Info) : List (List Char) :=
  [ appendMaybe "depth".toList (i.depth.map natText),
    appendMaybe "seldepth".toList (i.seldepth.map natText),
    appendMaybe "time".toList (i.time.map natText),
    appendMaybe "nodes".toList (i.nodes.map natText),
    appendMaybe "pv".toList (i.pv.map movesText),
    appendMaybe "multipv".toList (i.multipv.map natText),
    appendMaybe "score".toList (i.score.map scoreText),
    appendMaybe "currmove".toList (i.currmove.map UciMove.render),
    appendMaybe "currmovenumber".toList (i.currmovenumber.map natText),
    appendMaybe "hashfull".toList (i.hashfull.map natText),
    appendMaybe "nps".toList (i.nps.map natText),
    appendMaybe "tbhits".toList (i.tbhits.map natText),
    appendMaybe "sbhits".toList (i.sbhits.map natText),
    appendMaybe "cpuload".toList (i.cpuload.map natText),
    appendMaybe "refutation".toList (i.refutation.map movesText),
    appendMaybe "currline".toList (i.currline.map currentLineText),
    appendMaybe "string".toList i.string ]

/-- `ConsoleUciTx::info` -/
def infoText (i : Info) : List Char := "info".toList ++ (infoSegments i).flatten

/-- `ConsoleUciTx::best_move` -/
def bestMoveText (best ponder : Option UciMove) : List Char :=
  "bestmove ".toList ++
    ((match best with | none => "0000".toList | some m => m.render) ++
     (match ponder with | none => [] | some p => " ponder ".toList ++ p.render))

/-- `format!("{}", bool)` -/
def boolText (b : Bool) : List Char := if b then "true".toList else "false".toList

/-- `tx_options`: `format!("option name {} type {} {}", name, the_type, remainder).trim()` -/
def optionText (name type remainder : List Char) : List Char :=
  Uci.trim ("option name ".toList ++ (name ++ (" type ".toList ++ (type ++ ' ' :: remainder))))

/-- the `vars_string` loop of `option_combo` -/
def varsText : List (List Char) → List Char
  | [] => []
  | v :: vs => " var ".toList ++ (v ++ varsText vs)

/-- the line handed to the consumer (`println!("{}", line)`) -/
def renderChars : TxMsg → List Char
  | .idName name => "id name ".toList ++ name
  | .idAuthor author => "id author ".toList ++ author
  | .uciOk => "uciok".toList
  | .readyOk => "readyok".toList
  | .bestMove best ponder => bestMoveText best ponder
  | .copyProtection p => "copyprotection ".toList ++ p.text
  | .registration p => "registration ".toList ++ p.text
  | .info i => infoText i
  | .optionCheck name d => optionText name "check".toList ("default ".toList ++ boolText d)
  | .optionSpin name d lo hi =>
    optionText name "spin".toList
      ("default ".toList ++ (intText d ++ (" min ".toList ++ (intText lo ++ (" max ".toList ++ intText hi)))))
  | .optionCombo name d vars => optionText name "combo".toList ("default ".toList ++ (d ++ varsText vars))
  | .optionButton name => optionText name "button".toList []
  | .optionString name d => optionText name "string".toList ("default ".toList ++ d)

def render (m : TxMsg) : String := String.ofList (renderChars m)

/-! ## examples (the expected strings of the commented-out tests in `console.rs`) -/

/-- the `info_all` test value -/
def infoAll : Info :=
  { depth := some 20, seldepth := some 10, time := some 21234, nodes := some 45000000,
    pv := some [⟨56, 48, none⟩, ⟨40, 32, none⟩], multipv := some 1, score := some (.cpBounded 200 .lower),
    currmove := some ⟨7, 15, some .queen⟩, currmovenumber := some 24, hashfull := some 80, nps := some 200000000,
    tbhits := some 213333, sbhits := some 2040, cpuload := some 99,
    refutation := some [⟨59, 51, none⟩, ⟨42, 34, none⟩], currline := some ⟨1, [⟨63, 55, none⟩, ⟨41, 33, none⟩]⟩,
    string := some "hi it's info".toList }

#guard render (.info infoAll) == "info depth 20 seldepth 10 time 21234 nodes 45000000 pv a1a2 a3a4 multipv 1 score cp 200 lowerbound currmove h8h7q currmovenumber 24 hashfull 80 nps 200000000 tbhits 213333 sbhits 2040 cpuload 99 refutation d1d2 c3c4 currline 1 h1h2 b3b4 string hi it's info"
#guard render (.info Info.empty) == "info"
#guard render (.info { currmove := some ⟨56, 48, none⟩ }) == "info currmove a1a2"
#guard render (.idName "marv".toList) == "id name marv"
#guard render (.idAuthor "marv".toList) == "id author marv"
#guard render .uciOk == "uciok" && render .readyOk == "readyok"
#guard render (.bestMove (some ⟨56, 48, none⟩) none) == "bestmove a1a2"
#guard render (.bestMove (some ⟨56, 48, some .queen⟩) (some ⟨24, 16, some .queen⟩)) == "bestmove a1a2q ponder a5a6q"
#guard render (.bestMove none none) == "bestmove 0000"
#guard render (.copyProtection .ok) == "copyprotection ok" && render (.registration .error) == "registration error"
#guard render (.optionButton "Clear Hash".toList) == "option name Clear Hash type button"
#guard render (.optionCheck "Nullmove".toList true) == "option name Nullmove type check default true"
#guard render (.optionSpin "Selectivity".toList 2 0 4) == "option name Selectivity type spin default 2 min 0 max 4"
#guard render (.optionCombo "Style".toList "Normal".toList ["Solid".toList, "Normal".toList, "Risky".toList])
  == "option name Style type combo default Normal var Solid var Normal var Risky"
#guard render (.optionString "NalimovPath".toList "c:\\".toList) == "option name NalimovPath type string default c:\\"
-- the empty-list quirk: two spaces after `pv`
#guard render (.info { depth := some 1, pv := some [], score := some (.cp 3) }) == "info depth 1 pv  score cp 3"
#guard render (.info { score := some (.mate (-3)), currline := some ⟨2, []⟩ }) == "info score mate -3 currline 2 "
#guard (List.range 1200).all (fun n => String.ofList (natText n) == toString n)
#guard [(-2147483648 : Int), -10, -1, 0, 7, 2147483647].all (fun v => String.ofList (intText v) == toString v)

/-! ## line protocol: op `console` -/

/-- `-` is `none`; otherwise `f` must succeed -/
def optArg {α : Type} (f : String → Option α) (tok : String) : Option (Option α) :=
  if tok = "-" then some none else (f tok).map some

def moveArg (tok : String) : Option UciMove :=
  match UciMove.parse tok.toList with
  | .ok m => if UciMove.render m = tok.toList then some m else none
  | .error _ => none

/-- `m,m,…`; the word `empty` (or the empty text) is the empty list -/
def movesOfChars (s : List Char) : Option (List UciMove) :=
  if s = [] ∨ s = "empty".toList then some []
  else (FenSyntax.splitOnChar ',' s).mapM (fun t => moveArg (String.ofList t))

def movesArg (tok : String) : Option (List UciMove) := movesOfChars tok.toList

def intOfChars (s : List Char) : Option Int := (String.ofList s).toInt?

/-- `cpN | cpN:lower | cpN:upper | mateN` -/
def scoreArg (tok : String) : Option Score :=
  match tok.toList with
  | 'c' :: 'p' :: rest =>
    match FenSyntax.splitOnChar ':' rest with
    | [v] => (intOfChars v).map Score.cp
    | [v, b] =>
      if b = "lower".toList then (intOfChars v).map (Score.cpBounded · .lower)
      else if b = "upper".toList then (intOfChars v).map (Score.cpBounded · .upper)
      else none
    | _ => none
  | 'm' :: 'a' :: 't' :: 'e' :: rest => (intOfChars rest).map Score.mate
  | _ => none

/-- `cpu:m,m,…` -/
def currlineArg (tok : String) : Option CurrentLine :=
  match FenSyntax.splitOnChar ':' tok.toList with
  | [c, ms] =>
    match (String.ofList c).toNat?, movesOfChars ms with
    | some cpu, some line => some ⟨cpu, line⟩
    | _, _ => none
  | _ => none

def textArg (tok : String) : Option (List Char) := (Util.tokenString tok).map String.toList

def protectionArg : String → Option Protection
  | "checking" => some .checking
  | "ok" => some .ok
  | "error" => some .error
  | _ => none

def natArg (tok : String) : Option (Option Nat) := optArg String.toNat? tok

def infoArgs : List String → Option Info
  | [d, sd, t, n, pv, mpv, sc, cm, cmn, hf, nps, tb, sb, cl, rf, cln, str] =>
    match natArg d, natArg sd, natArg t, natArg n, optArg movesArg pv, natArg mpv, optArg scoreArg sc,
      optArg moveArg cm, natArg cmn with
    | some d, some sd, some t, some n, some pv, some mpv, some sc, some cm, some cmn =>
      match natArg hf, natArg nps, natArg tb, natArg sb, natArg cl, optArg movesArg rf, optArg currlineArg cln,
        optArg textArg str with
      | some hf, some nps, some tb, some sb, some cl, some rf, some cln, some str =>
        some { depth := d, seldepth := sd, time := t, nodes := n, pv := pv, multipv := mpv, score := sc,
               currmove := cm, currmovenumber := cmn, hashfull := hf, nps := nps, tbhits := tb, sbhits := sb,
               cpuload := cl, refutation := rf, currline := cln, string := str }
      | _, _, _, _, _, _, _, _ => none
    | _, _, _, _, _, _, _, _, _ => none
  | _ => none

def msgOfArgs : List String → Option TxMsg
  | ["bestmove", b, p] =>
    match optArg moveArg b, optArg moveArg p with
    | some b, some p => some (.bestMove b p)
    | _, _ => none
  | "info" :: rest => (infoArgs rest).map TxMsg.info
  | ["id", "name", x] => (textArg x).map TxMsg.idName
  | ["id", "author", x] => (textArg x).map TxMsg.idAuthor
  | ["uciok"] => some .uciOk
  | ["readyok"] => some .readyOk
  | ["registration", p] => (protectionArg p).map TxMsg.registration
  | ["copyprotection", p] => (protectionArg p).map TxMsg.copyProtection
  | _ => none

/-- answer: `x:<hex of the UTF-8 bytes of the printed line>`.  `id name`/`id author` with an empty text answer
`PANIC` (the `assert!`). -/
def handleConsole (args : List String) : String :=
  match msgOfArgs args with
  | none => "bad-request"
  | some (.idName []) => "PANIC"
  | some (.idAuthor []) => "PANIC"
  | some m => Util.stringToken (render m)

#guard handleConsole ["bestmove", "e2e4", "-"] == Util.stringToken "bestmove e2e4"
#guard handleConsole ["bestmove", "-", "-"] == Util.stringToken "bestmove 0000"
#guard handleConsole ["bestmove", "e7e8q", "a7a6"] == Util.stringToken "bestmove e7e8q ponder a7a6"
#guard handleConsole ["info", "20", "10", "21234", "45000000", "a1a2,a3a4", "1", "cp200:lower", "h8h7q", "24", "80",
    "200000000", "213333", "2040", "99", "d1d2,c3c4", "1:h1h2,b3b4", Util.stringToken "hi it's info"]
  == Util.stringToken (render (.info infoAll))
#guard handleConsole ["info", "1", "-", "-", "-", "empty", "-", "mate-2", "-", "-", "-", "-", "-", "-", "-", "-", "-", "-"]
  == Util.stringToken "info depth 1 pv  score mate -2"
#guard handleConsole ["id", "name", "x:6d617276"] == Util.stringToken "id name marv"
#guard handleConsole ["id", "name", "x:"] == "PANIC"
#guard handleConsole ["registration", "checking"] == Util.stringToken "registration checking"
#guard handleConsole ["copyprotection", "nope"] == "bad-request"
#guard handleConsole ["bestmove", "e2e9", "-"] == "bad-request"

end Inkayaku.Console
