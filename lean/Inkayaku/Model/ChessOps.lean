import Inkayaku.Model.FenBoard
import Inkayaku.Model.Zobrist
import Inkayaku.Model.San
import Inkayaku.Model.Eval
/-!
Line-protocol handlers for the chess ops (model side).  Every answer has to be textually identical to the answer of
/verif/harness (`dispatch` in src/lib.rs) when model and implementation agree.
-/
namespace Inkayaku.ChessOps
open Inkayaku.Board Inkayaku.Util Inkayaku.FenBoard Inkayaku.San

def fenArg (tok : String) : String := tok.replace "_" " "

def boardOf (tok : String) : Option Board :=
  match fromFenString (fenArg tok) with
  | .ok b => some b
  | .error _ => none

def fenOut (b : Board) : String :=
  match printFen b with
  | some s => s.replace " " "_"
  | none => "PANIC"

def hexU (x : UInt64) : String := String.ofList (Nat.toDigits 16 x.toNat)

def sortStrings (xs : List String) : List String := (xs.toArray.qsort (· < ·)).toList

def sortedJoin (xs : List String) : String :=
  if xs.isEmpty then "-" else ",".intercalate (sortStrings xs)

def sideSnap (s : Side) : String :=
  s!"{hexU s.pawns},{hexU s.knights},{hexU s.bishops},{hexU s.rooks},{hexU s.queens},{hexU s.kings},{if s.ks then "k" else "-"}{if s.qs then "q" else "-"}"

/-- same text as `snapshot` in the harness: everything except the scratch slot 0 -/
def snapshot (b : Board) : String :=
  s!"w[{sideSnap b.white}]b[{sideSnap b.black}]t{b.turn}e{b.ep}h{b.halfmove}f{b.fullmove}z{hexU (Zobrist.hash b)}p{hexU (Zobrist.pawnHash b)}"

def sameFlag (before : String) (b : Board) : String := if before == snapshot b then "same" else "changed"

def terminalOf (b : Board) : String :=
  if (genLegal b).isEmpty then (if isCurrentInCheck b then "mate" else "stalemate") else "ongoing"

def errKind : UciErr → String
  | .notExist => "notexist"
  | .notValid => "notvalid"

def b01 (b : Bool) : String := if b then "1" else "0"

def withBoard (tok : String) (k : Board → String) : String :=
  match boardOf tok with
  | some b => k b
  | none => "badfen"

def handleLegal (args : List String) : String :=
  match args with
  | [f] => withBoard f fun b => sortedJoin ((genLegal b).map Move.uci)
  | _ => "bad-request"

def handlePseudo (args : List String) : String :=
  match args with
  | [f] => withBoard f fun b =>
      sortedJoin (((genPseudo b).filter fun m => isValid (make b m)).map Move.uci)
  | _ => "bad-request"

def handlePseudoRaw (args : List String) : String :=
  match args with
  | [f] => withBoard f fun b => sortedJoin ((genPseudo b).map Move.uci)
  | _ => "bad-request"

def handleNq (args : List String) : String :=
  match args with
  | [f] => withBoard f fun b => sortedJoin ((genNonQuiescent b).map Move.uci)
  | _ => "bad-request"

def handlePerft (args : List String) : String :=
  match args with
  | [f, d] =>
    match d.toNat? with
    | some (d + 1) => withBoard f fun b => sortedJoin ((perft b (d + 1)).map fun (m, c) => s!"{m.uci}:{c}")
    | _ => "bad-request"
  | _ => "bad-request"

def handleMake (args : List String) : String :=
  match args with
  | [f, u] => withBoard f fun b =>
      match (genLegal b).find? (fun m => m.uci == u) with
      | some m => fenOut (make b m)
      | none => "ERR"
  | _ => "bad-request"

/-- every legal move with the FEN of the position after it -/
def handleSucc (args : List String) : String :=
  match args with
  | [f] => withBoard f fun b => sortedJoin ((genLegal b).map fun m => s!"{m.uci}>{fenOut (make b m)}")
  | _ => "bad-request"

def handleLegalAfter (args : List String) : String :=
  match args with
  | f :: ucis => withBoard f fun b =>
      let rec go (cur : Board) : List String → String
        | [] => s!"{fenOut cur} {sortedJoin ((genLegal cur).map Move.uci)}"
        | u :: rest =>
          match (genLegal cur).find? (fun m => m.uci == u) with
          | some m => go (make cur m) rest
          | none => s!"ERR {u}"
      go b ucis
  | _ => "bad-request"

def handleMkUnmk (args : List String) : String :=
  match args with
  | [f] => withBoard f fun b =>
      let before := snapshot b
      let moves := genPseudo b
      let rec go (ms : List Move) (cur : Board) : String :=
        match ms with
        | [] => s!"same {moves.length}"
        | m :: rest =>
          let after := unmake (make cur m) m
          if snapshot after != before then s!"diff {m.uci} {before} {snapshot after}" else go rest after
      go moves b
  | _ => "bad-request"

def handleLine (args : List String) : String :=
  match args with
  | f :: ucis => withBoard f fun b =>
      let before := snapshot b
      let rec go (us : List String) (cur : Board) (made : List Move) : String :=
        match us with
        | [] =>
          let endFen := fenOut cur
          let back := made.foldl (fun acc m => unmake acc m) cur
          s!"{if snapshot back == before then "same" else "diff"} {endFen}"
        | u :: rest =>
          match (genPseudo cur).find? (fun m => m.uci == u) with
          | some m => go rest (make cur m) (m :: made)
          | none => s!"ERR {u}"
      go ucis b []
  | _ => "bad-request"

def handleInCheck (args : List String) : String :=
  match args with
  | [f] => withBoard f fun b => b01 (inCheck b 0) ++ b01 (inCheck b 1) ++ b01 (isCurrentInCheck b) ++ b01 (isValid b)
  | _ => "bad-request"

def handleTerminal (args : List String) : String :=
  match args with
  | [f] => withBoard f terminalOf
  | _ => "bad-request"

/-- `anylegal <fen_>`: `Bitboard::is_any_move_legal` on the pseudo-legal buffer (the evaluator's and the SAN writer's path) -/
def handleAnyLegal (args : List String) : String :=
  match args with
  | [f] => withBoard f fun b => if isAnyMoveLegal b (genPseudo b) then "1" else "0"
  | _ => "bad-request"

def handleHash (args : List String) : String :=
  match args with
  | [f] => withBoard f fun b => s!"{hexU (Zobrist.hash b)} {hexU (Zobrist.pawnHash b)}"
  | _ => "bad-request"

def handleXor (args : List String) : String :=
  match args with
  | [f] => withBoard f fun b =>
      let h0 := Zobrist.hash b
      let p0 := Zobrist.pawnHash b
      sortedJoin ((genPseudo b).map fun m =>
        let (dx, dp) := Zobrist.xorOf m.f
        let b' := make b m
        let ok := Zobrist.hash b' == h0 ^^^ dx && Zobrist.pawnHash b' == p0 ^^^ dp
        s!"{m.uci}:{hexU dx}:{hexU dp}:{if ok then "ok" else "BAD"}")
  | _ => "bad-request"

def pieceCharAt (b : Board) (sq : Nat) : Option Char :=
  match coloredPiece b sq with
  | none => none
  | some none => some '.'
  | some (some c) => some c

def handleFen (args : List String) : String :=
  match args with
  | [t] =>
    match tokenString t with
    | none => "bad-request"
    | some s =>
      match fromFenString s with
      | .error _ => "err"
      | .ok b =>
        match (List.range 64).mapM (pieceCharAt b), printFen b with
        | some cs, some printed =>
          let rights := String.ofList [if b.white.ks then 'K' else '-', if b.white.qs then 'Q' else '-',
            if b.black.ks then 'k' else '-', if b.black.qs then 'q' else '-']
          s!"ok {String.ofList cs} {if b.turn == 0 then "w" else "b"} {rights} {b.ep} {b.halfmove} {b.fullmove} {stringToken printed}"
        | _, _ => "PANIC"
  | _ => "bad-request"

def handleFenValid (args : List String) : String :=
  match args with
  | [t] => match tokenString t with
    | some s => b01 (FenSyntax.isValid s)
    | none => "bad-request"
  | _ => "bad-request"

def handleFindUci (args : List String) : String :=
  match args with
  | [f, t] => withBoard f fun b =>
      match tokenString t with
      | none => "bad-request"
      | some s =>
        let before := snapshot b
        match findUci b s with
        | (.ok m, b') => s!"ok {m.uci} {sameFlag before b'}"
        | (.error e, b') => s!"err {errKind e} {sameFlag before b'}"
  | _ => "bad-request"

def allMoveStrings : List String :=
  (List.range 64).flatMap fun src => (List.range 64).flatMap fun tgt =>
    ["", "q", "r", "b", "n", "k"].map fun p => squareString src ++ squareString tgt ++ p

def handleFindUciAll (args : List String) : String :=
  match args with
  | [f] => withBoard f fun b =>
      let before := snapshot b
      let (acc, ne, nv, ch, _) := allMoveStrings.foldl (fun (acc, ne, nv, ch, cur) s =>
        match findUci cur s with
        | (.ok m, b') => (s!"{s}>{m.uci}" :: acc, ne, nv, if snapshot b' != before then ch + 1 else ch, b')
        | (.error .notExist, b') => (acc, ne + 1, nv, if snapshot b' != before then ch + 1 else ch, b')
        | (.error .notValid, b') => (acc, ne, nv + 1, if snapshot b' != before then ch + 1 else ch, b'))
        (([] : List String), 0, 0, 0, b)
      s!"{sortedJoin acc} notexist={ne} notvalid={nv} {if ch == 0 then "same" else "changed"}"
  | _ => "bad-request"

def handleMakeUci (args : List String) : String :=
  match args with
  | [f, t] => withBoard f fun b =>
      match tokenString t with
      | none => "bad-request"
      | some s =>
        let before := snapshot b
        match makeUci b s with
        | (.ok (), b') => s!"ok {fenOut b'}"
        | (.error e, b') => s!"err {errKind e} {sameFlag before b'}"
  | _ => "bad-request"

def handleMakeAll (args : List String) : String :=
  match args with
  | f :: toks => withBoard f fun b =>
      match toks.mapM tokenString with
      | none => "bad-request"
      | some ss =>
        let before := snapshot b
        match makeAllUci b ss with
        | (.ok (), b') => s!"ok {fenOut b'}"
        | (.error e, b') => s!"err {errKind e} {sameFlag before b'}"
  | _ => "bad-request"

def handleUciPgn (args : List String) : String :=
  match args with
  | [f, t] => withBoard f fun b =>
      match tokenString t with
      | none => "bad-request"
      | some s =>
        let before := snapshot b
        match uciToSan b s with
        | (.ok san, b') => s!"ok {stringToken san} {sameFlag before b'}"
        | (.error e, b') => s!"err {errKind e} {sameFlag before b'}"
  | _ => "bad-request"

def handleSanMv (args : List String) : String :=
  match args with
  | [f, t] => withBoard f fun b =>
      match tokenString t with
      | none => "bad-request"
      | some s =>
        match sanToMove b s with
        | some m => s!"ok {m.uci} same"
        | none => "err same"
  | _ => "bad-request"

def handleSan (args : List String) : String :=
  match args with
  | [f] => withBoard f fun b =>
      let items := (genLegal b).map fun m =>
        let san := match uciToSan b m.uci with
          | (.ok s, _) => s
          | (.error _, _) => "ERR"
        let back := match sanToMove b san with
          | some m' => m'.uci
          | none => "ERR"
        s!"{m.uci}={san}={back}"
      s!"{sortedJoin items} same"
  | _ => "bad-request"

def handleEval (args : List String) : String :=
  match args with
  | [f] => withBoard f fun b => toString (Eval.evaluate b (!(genLegal b).isEmpty))
  | _ => "bad-request"

def handleScoreFromValue (args : List String) : String :=
  match args with
  | [f, v] => withBoard f fun b =>
      match v.toInt? with
      | some v => match Eval.scoreFromValue v b with
        | .cp x => s!"cp {x}"
        | .mate n => s!"mate {n}"
      | none => "bad-request"
  | _ => "bad-request"

/-- generator-quality report: features of a position that the properties care about -/
def handleFeatures (args : List String) : String :=
  match args with
  | [f] => withBoard f fun b =>
      let legal := genLegal b
      let pieces := (bitsAsc (b.white.full ||| b.black.full)).length
      let checkers := if isCurrentInCheck b then 1 else 0
      let promo := legal.any Move.isPromotion
      let castle := legal.any fun m => m.f.castle
      let epCap := legal.any fun m => m.f.enPassant
      let rights := (if b.white.ks then 1 else 0) + (if b.white.qs then 1 else 0) + (if b.black.ks then 1 else 0) + (if b.black.qs then 1 else 0)
      let illegalPseudo := (genPseudo b).length - legal.length
      s!"pieces={pieces} turn={b.turn} incheck={checkers} legal={legal.length} pinned_or_illegal={illegalPseudo} promo={b01 promo} castle={b01 castle} epcap={b01 epCap} epset={b01 (b.ep != 0)} rights={rights} hm={b.halfmove}"
  | _ => "bad-request"

def handleMagic (args : List String) : String :=
  match args with
  | [k, sq, occ] =>
    match sq.toNat?, hexDecodeNat occ.toList with
    | some sq, some occ =>
      if sq ≥ 64 then "bad-request" else
      let c := if k == "r" then Gen.rookCfg sq else Gen.bishopCfg sq
      s!"{String.ofList (Nat.toDigits 16 (Magic.lookup c occ))} {Magic.magicIndex c occ} {c.len}"
    | _, _ => "bad-request"
  | _ => "bad-request"
where
  hexDecodeNat (cs : List Char) : Option Nat :=
    cs.foldlM (fun acc c => (hexVal c).map (fun v => 16 * acc + v)) 0

end Inkayaku.ChessOps
