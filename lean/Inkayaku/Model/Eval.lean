import Inkayaku.Model.Board
import Inkayaku.Gen.Eval
/-!
Model of `Heuristic::evaluate`, `score_from_value`, `is_checkmate` (engine_core/src/engine/heuristic.rs) and of
`SimpleHeuristic` (heuristic/simple.rs) with the tables and thresholds of the current build (`Gen.Eval`).
All values are white-centric, as in the Rust; the search multiplies by ±1.
-/
namespace Inkayaku.Eval
open Inkayaku.Board Inkayaku.Gen

def popcount (x : UInt64) : Nat := (bitsAsc x).length

def pieceValue (s : Side) : Int :=
  ((popcount s.queens * queenValue + popcount s.rooks * rookValue + popcount s.bishops * bishopValue
    + popcount s.knights * knightValue + popcount s.pawns * pawnValue : Nat) : Int)

/-- 0 = EARLY (never produced), 1 = MID, 2 = LATE -/
def gameStage (b : Board) : Nat :=
  let wq := b.white.queens != 0
  let bq := b.black.queens != 0
  let wMinor := popcount (b.white.knights ||| b.white.bishops) ≤ 1
  let bMinor := popcount (b.black.knights ||| b.black.bishops) ≤ 1
  if (!wq && !bq) || ((wq && wMinor) && !bq) || ((bq && bMinor) && !wq) || (wMinor && bMinor) then 2 else 1

def squareSum (occ : UInt64) (tbl : List Int) : Int :=
  (bitsAsc occ).foldl (fun acc sq => acc + tbl.getD sq 0) 0

def sideSquareSum (s : Side) (tables : List (List Int)) : Int :=
  squareSum s.pawns (tables.getD 0 []) + squareSum s.knights (tables.getD 1 []) + squareSum s.bishops (tables.getD 2 [])
    + squareSum s.rooks (tables.getD 3 []) + squareSum s.queens (tables.getD 4 []) + squareSum s.kings (tables.getD 5 [])

def pieceSquareValue (b : Board) : Int :=
  let stage := gameStage b
  sideSquareSum b.white (whiteTables.getD stage []) + sideSquareSum b.black (blackTables.getD stage [])

/-- `SimpleHeuristic::evaluate_ongoing` -/
def evaluateOngoing (b : Board) : Int := pieceValue b.white - pieceValue b.black + pieceSquareValue b

def lossScore : Int := -winScore

/-- `Heuristic::evaluate` -/
def evaluate (b : Board) (legalMovesRemaining : Bool) : Int :=
  if legalMovesRemaining then
    if b.halfmove ≥ maxHalfMoves then drawScore else evaluateOngoing b
  else if isCurrentInCheck b then
    if b.turn == 0 then lossScore + b.fullmove else winScore - b.fullmove
  else drawScore

/-- `is_checkmate(value)` -/
def isCheckmateValue (v : Int) : Bool := v > winScore - maxFullMoves || v < lossScore + maxFullMoves

inductive Score where
  | cp (v : Int)
  | mate (n : Int)
deriving DecidableEq, Repr, Inhabited

/-- `score_from_value` -/
def scoreFromValue (v : Int) (b : Board) : Score :=
  if v.natAbs > winScore / 2 then
    let offset : Int := if v > 0 && b.turn == 0 then 1 else 0
    .mate ((winScore - v.natAbs - b.fullmove + offset) * v.sign)
  else .cp v

def Score.render : Score → String
  | .cp v => "cp" ++ toString v
  | .mate n => "mate" ++ toString n

end Inkayaku.Eval
