import Inkayaku.Model.SpecSearch
import Inkayaku.Model.San
import Inkayaku.Model.WF
/-!
# Specification of the search value WITH the draw-by-repetition rule (property C10, deeper than one ply)

"A line is valued as a draw by repetition exactly when the position it reaches has then occurred at least three times —
counting the game history supplied with the position command and the line itself, with no capture or pawn move in
between — and that value ignores material (it is the draw score up to the engine's fixed contempt offset)."

The specification game of `Model/SpecSearch.lean` (exact minimax over legal lines, horizon positions resolved by capture
search) is extended by the PATH: a node carries the positions that occurred before it (game history, then the search
line), newest first.  A node below the root whose position has occurred at least three times (itself included) inside
its reversible stretch (the last `halfmove` plies) is terminal and valued `drawScore ± contempt` (sign by ply parity, from
the root mover's point of view `+`).  Positions are compared by what FIDE compares: placement, side to move, castling
rights, e.p. file (`key`), never by hash.  Everything else (moves, horizon values, mate/stalemate) is the game of
`SpecSearch.chess`.  The value is computed by the verified alpha-beta `Minimax.ab` (equal to `Minimax.mm` for every game:
`C08.root_exact`), so `repValue` is the exact path-dependent minimax value.  No transposition table: the specification is
what a table-free search would return; the engine's table makes it inexact in general (graph-history interaction), which is
why the check uses it only on positions where the engine's answer is determined (forced lines), validated when the corpus
was built.
-/
namespace Inkayaku.RepSpec
open Inkayaku.Board Inkayaku.Eval Inkayaku.Minimax Inkayaku.SpecSearch

/-- what the repetition rule compares -/
structure Key where
  w : List UInt64
  b : List UInt64
  turn : Nat
  rights : List Bool
  epFile : Nat
  epNone : Bool
deriving DecidableEq, Repr

def key (p : Board) : Key :=
  { w := [p.white.pawns, p.white.knights, p.white.bishops, p.white.rooks, p.white.queens, p.white.kings]
    b := [p.black.pawns, p.black.knights, p.black.bishops, p.black.rooks, p.black.queens, p.black.kings]
    turn := p.turn
    rights := [p.white.ks, p.white.qs, p.black.ks, p.black.qs]
    epFile := p.ep % 8
    epNone := p.ep == 0 }

structure RPos where
  board : Board
  only : List String          -- `searchmoves` (root only)
  ply : Nat
  /-- keys of the positions before this one, newest first (parent first) -/
  before : List Key

/-- occurrences of the node's position, itself included: earlier positions at even distance `2, 4, …` within the last
`halfmove` plies (an odd distance has the other side to move; nothing older than the last capture/pawn move counts) -/
def occurrences (p : RPos) : Nat :=
  let k := key p.board
  let window := p.before.take p.board.halfmove
  1 + ((List.range window.length).filter fun i => (i + 1) % 2 == 0 && window[i]? == some k).length

def isRepetition (p : RPos) : Bool := p.ply > 0 && occurrences p ≥ 3

def repChess : SearchGame RPos Move :=
  { moves := fun p => if isRepetition p then [] else rootMoves p.board p.only
    child := fun p m => { board := make p.board m, only := [], ply := p.ply + 1, before := key p.board :: p.before }
    term := fun p =>
      if isRepetition p then Gen.drawScore + (if p.ply % 2 == 0 then 1 else -1) * Gen.contempt
      else Search.evalFor p.board p.board.turn false
    captures := fun p => legalCaptures p.board
    standPat := fun p => Search.evalFor p.board p.board.turn true
    noisy := fun p => noisy p.board
    static := fun p => Search.evalFor p.board p.board.turn true
    loss := lossScore
    fuel := quiescenceFuel }

def byMvvLvaR : RPos → List Move → List Move := fun _ l => l.mergeSort fun a b => a.mvvlva ≥ b.mvvlva

def repGame : Game RPos Move := repChess.game byMvvLvaR

/-- play the accepted UCI strings from `b`; returns the final board and the keys of all earlier positions, newest first -/
def playHistory (b : Board) : List String → List Key → Option (Board × List Key)
  | [], acc => some (b, acc)
  | u :: rest, acc =>
    match San.findUci b u with
    | (.ok m, b') => playHistory (make b' m) rest (key b :: acc)
    | (.error _, _) => none

/-- exact minimax value of depth `depth` with the repetition rule, after the game `ucis` from `b0` -/
def repSearch (depth : Nat) (b0 : Board) (ucis only : List String) : Option (Board × Int × Option Move) :=
  match playHistory b0 ucis [] with
  | some (b, before) =>
    let r := ab repGame byMvvLvaR depth { board := b, only := only, ply := 0, before := before } lossScore (-lossScore)
    some (b, r.1, r.2)
  | none => none

/-- the same game WITHOUT the repetition rule (for comparison: does the rule matter here?) -/
def plainValue (depth : Nat) (b : Board) (only : List String) : Int := specValueOnly depth b only

/-- `rep-search <fen_> <depth> <uci history…> [| searchmove …]` → `<score with rule> <score without rule>` -/
def handleRepSearch (args : List String) : String :=
  match args with
  | f :: d :: rest =>
    let ucis := rest.takeWhile (· != "|")
    let only := (rest.dropWhile (· != "|")).drop 1
    match d.toNat? with
    | some depth =>
      if depth == 0 then "bad-request" else
      ChessOps.withBoard f fun b0 =>
        match repSearch depth b0 ucis only with
        | some (b, v, _) =>
          if (rootMoves b only).isEmpty then "nomoves"
          else s!"{renderValue v b} {renderValue (plainValue depth b only) b}"
        | none => "illegal-history"
    | none => "bad-request"
  | _ => "bad-request"

/-- a forced four-ply cycle from `b`: a checking move with at most two legal replies, then a checking move with at most two
legal reply, after which the position of `b` stands again (a perpetual check).  Used to BUILD the corpus of positions in
which the repetition rule decides the value at depth 4. -/
def findPerpetual (b : Board) : Option (List Move) :=
  (genLegal b).findSome? fun a =>
    let b1 := make b a
    if !isCurrentInCheck b1 then none else
    let rs1 := genLegal b1
    if rs1.length == 0 || rs1.length > 2 then none else
    rs1.findSome? fun r1 =>
      let b2 := make b1 r1
      (genLegal b2).findSome? fun a2 =>
        let b3 := make b2 a2
        if !isCurrentInCheck b3 then none else
        let rs2 := genLegal b3
        if rs2.length == 0 || rs2.length > 2 then none else
        rs2.findSome? fun r2 =>
          let b4 := make b3 r2
          if key b4 == key b && !(a.isAttack || r1.isAttack || a2.isAttack || r2.isAttack) then some [a, r1, a2, r2] else none

/-- `perpetual <fen_>` → `<a> <r1> <a2> <r2>` | `-` -/
def handlePerpetual (args : List String) : String :=
  match args with
  | [f] => ChessOps.withBoard f fun b =>
      if !Inkayaku.WF.wf b then "-" else
      match findPerpetual b with
      | some ms => " ".intercalate (ms.map Move.uci)
      | none => "-"
  | _ => "bad-request"

end Inkayaku.RepSpec
