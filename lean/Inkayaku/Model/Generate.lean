import Inkayaku.Model.FenBoard
import Inkayaku.Model.San
import Inkayaku.Model.WF
/-!
Input generation for the correspondence checks.  Positions are produced by the MODEL's own move generator
(random legal play from root positions, random legal placements), so the generated cases do not depend on the
implementation under test.  All randomness comes from one xorshift64* state.

Also here: the decidable well-formedness predicate `wf` ("legal position" in the sense of the theorems).
-/
namespace Inkayaku.Generate
open Inkayaku.Board Inkayaku.FenBoard Inkayaku.WF

/-! ## PRNG -/

structure Rng where
  s : UInt64
deriving Inhabited

def Rng.next (r : Rng) : UInt64 × Rng :=
  let x := r.s
  let x := x ^^^ (x >>> 12)
  let x := x ^^^ (x <<< 25)
  let x := x ^^^ (x >>> 27)
  (x * 0x2545F4914F6CDD1D, ⟨x⟩)

def Rng.ofSeed (seed : Nat) : Rng :=
  let s := (seed * 0x9E3779B97F4A7C15 + 0x1234567890ABCDEF) % 18446744073709551616
  let r : Rng := ⟨if s == 0 then 88172645463325252 else s.toUInt64⟩
  (r.next.2.next.2.next).2

/-- uniform-ish in `[0, n)`; `n = 0` gives 0 -/
def Rng.below (r : Rng) (n : Nat) : Nat × Rng :=
  let (x, r) := r.next
  (if n == 0 then 0 else (x >>> 11).toNat % n, r)

def Rng.pick {α} [Inhabited α] (r : Rng) (xs : List α) : α × Rng :=
  let (i, r) := r.below xs.length
  (xs.getD i default, r)

/-! ## random legal play -/

def givesCheck (b : Board) (m : Move) : Bool := isCurrentInCheck (make b m)

def isSpecial (b : Board) (m : Move) : Bool :=
  m.isPromotion || m.f.castle || m.f.enPassant || givesCheck b m || (m.isAttack && m.f.pieceMoved != PAWN && m.f.source % 3 == 0)

/-- choose a legal move; with probability 1/2 among the "special" ones (captures, promotions, castling,
en passant, checks) when there are any -/
def chooseMove (b : Board) (r : Rng) : Option Move × Rng :=
  let legal := genLegal b
  if legal.isEmpty then (none, r) else
  let special := legal.filter (isSpecial b)
  let (coin, r) := r.below 3
  if coin == 0 && !special.isEmpty then
    let (m, r) := r.pick special
    (some m, r)
  else
    let (m, r) := r.pick legal
    (some m, r)

/-- one playout: the list of (position, move played from it), and the final position -/
def playout : Nat → Board → Rng → List (Board × Move) → List (Board × Move) × Board × Rng
  | 0, b, r, acc => (acc.reverse, b, r)
  | n + 1, b, r, acc =>
    match chooseMove b r with
    | (none, r) => (acc.reverse, b, r)
    | (some m, r) => playout n (make b m) r ((b, m) :: acc)

/-! ## random placements -/

def emptySide : Side := {}

def placePiece (b : Board) (white : Bool) (p : Nat) (sq : Nat) : Board :=
  if white then { b with white := b.white.set p (b.white.get p ||| bitU sq) }
  else { b with black := b.black.set p (b.black.get p ||| bitU sq) }

def occupied (b : Board) (sq : Nat) : Bool := testU (b.white.full ||| b.black.full) sq

def randomPlacement (r : Rng) : Board × Rng :=
  let b : Board := { white := emptySide, black := emptySide, turn := 0, ep := 0, fullmove := 1, halfmove := 0 }
  let (wk, r) := r.below 64
  let b := placePiece b true KING wk
  let (bk, r) := r.below 64
  let b := if occupied b bk then placePiece b false KING ((bk + 17) % 64) else placePiece b false KING bk
  let (n, r) := r.below 9
  let rec addPieces : Nat → Board → Rng → Board × Rng
    | 0, b, r => (b, r)
    | k + 1, b, r =>
      let (sq, r) := r.below 64
      let (p, r) := r.pick [PAWN, PAWN, PAWN, KNIGHT, BISHOP, ROOK, QUEEN, QUEEN, ROOK]
      let (c, r) := r.below 2
      if occupied b sq || (p == PAWN && (sq / 8 == 0 || sq / 8 == 7)) then addPieces k b r
      else addPieces k (placePiece b (c == 0) p sq) r
  let (b, r) := addPieces (n + 1) b r
  let (t, r) := r.below 2
  let b := { b with turn := t }
  -- castling rights where the pieces stand right, with probability 1/2 each
  let (c1, r) := r.below 2
  let (c2, r) := r.below 2
  let (c3, r) := r.below 2
  let (c4, r) := r.below 2
  let w := b.white
  let k := b.black
  let b := { b with
    white := { w with ks := c1 == 0 && testU w.kings E1 && testU w.rooks H1, qs := c2 == 0 && testU w.kings E1 && testU w.rooks A1 },
    black := { k with ks := c3 == 0 && testU k.kings E8 && testU k.rooks H8, qs := c4 == 0 && testU k.kings E8 && testU k.rooks A8 } }
  -- an e.p. square when some enemy pawn could just have made a double step
  let full := b.white.full ||| b.black.full
  let cands := (List.range 8).filterMap fun file =>
    if b.turn == 0 then
      let ep := 16 + file
      if testU b.black.pawns (ep + 8) && !testU full ep && !testU full (ep - 8) then some ep else none
    else
      let ep := 40 + file
      if testU b.white.pawns (ep - 8) && !testU full ep && !testU full (ep + 8) then some ep else none
  let (coin, r) := r.below 2
  if coin == 0 && !cands.isEmpty then
    let (ep, r) := r.pick cands
    ({ b with ep := ep }, r)
  else (b, r)

/-! ## clock skew and colour flip -/

def skewClocks (b : Board) (r : Rng) : Board × Rng :=
  let (mode, r) := r.below 6
  let (x, r) := r.below 4096
  let (fm, r) := r.below 2400
  match mode with
  | 0 => (b, r)
  | 1 => ({ b with halfmove := x % 151, fullmove := fm + 1 }, r)
  | 2 => ({ b with halfmove := 120 + x % 21, fullmove := fm + 1 }, r)
  | 3 => ({ b with halfmove := 4000 + x % 96, fullmove := fm + 1 }, r)
  | 4 => ({ b with halfmove := 90 + x % 20, fullmove := fm + 1 }, r)
  | _ => ({ b with halfmove := x % 100, fullmove := 1 + x % 60 }, r)

/-- vertical mirror of a 64-bit board (row i ↔ row 7 − i) -/
def flipU (x : UInt64) : UInt64 :=
  (List.range 8).foldl (fun acc row => acc ||| (((x >>> (8 * row).toUInt64) &&& 0xFF) <<< (8 * (7 - row)).toUInt64)) 0

def flipSide (s : Side) : Side :=
  { o0 := 0, pawns := flipU s.pawns, knights := flipU s.knights, bishops := flipU s.bishops, rooks := flipU s.rooks,
    queens := flipU s.queens, kings := flipU s.kings, qs := s.qs, ks := s.ks }

/-- mirror vertically, swap colours, side to move and castling rights -/
def flipBoard (b : Board) : Board :=
  { white := flipSide b.black, black := flipSide b.white, turn := 1 - b.turn,
    ep := if b.ep == 0 then 0 else (7 - b.ep / 8) * 8 + b.ep % 8,
    fullmove := b.fullmove, halfmove := b.halfmove }

def fenTok (b : Board) : String :=
  match printFen b with
  | some s => s.replace " " "_"
  | none => "PANIC"

def roots : List String := [
  "rnbqkbnr/pppppppp/8/8/8/8/PPPPPPPP/RNBQKBNR w KQkq - 0 1",
  "r3k2r/p1ppqpb1/bn2pnp1/3PN3/1p2P3/2N2Q1p/PPPBBPPP/R3K2R w KQkq - 0 1",
  "8/2p5/3p4/KP5r/1R3p1k/8/4P1P1/8 w - - 0 1",
  "r3k2r/Pppp1ppp/1b3nbN/nP6/BBP1P3/q4N2/Pp1P2PP/R2Q1RK1 w kq - 0 1",
  "r2q1rk1/pP1p2pp/Q4n2/bbp1p3/Np6/1B3NBn/pPPP1PPP/R3K2R b KQ - 0 1",
  "rnbq1k1r/pp1Pbppp/2p5/8/2B5/8/PPP1NnPP/RNBQK2R w KQ - 1 8",
  "r4rk1/1pp1qppp/p1np1n2/2b1p1B1/2B1P1b1/P1NP1N2/1PP1QPPP/R4RK1 w - - 0 10",
  "n1n5/PPPk4/8/8/8/8/4Kppp/5N1N b - - 0 1",
  "r3k2r/8/8/8/8/8/8/R3K2R w KQkq - 0 1",
  "r3k2r/8/8/8/8/8/8/R3K2R b KQkq - 0 1",
  "4k3/8/8/8/8/8/8/4K2R w K - 130 70",
  "8/8/8/2k5/2pP4/8/B7/4K3 b - d3 0 3",
  "8/8/8/8/k2Pp2Q/8/8/3K4 b - d3 0 1",
  "rnbqkb1r/pp1p1pPp/8/2p1pP2/1P1P4/3P3P/P1P1P3/RNBQKBNR w KQkq e6 0 1",
  "r1bqkbnr/pppppppp/n7/8/8/P7/1PPPPPPP/RNBQKBNR w KQkq - 2 2",
  "2kr3r/p1ppqpb1/bn2Qnp1/3PN3/1p2P3/2N5/PPPBBPPP/R3K2R b KQ - 3 2",
  "rnb2k1r/pp1Pbppp/2p5/q7/2B5/8/PPPQNnPP/RNB1K2R w KQ - 3 9",
  "2r5/3pk3/8/2P5/8/2K5/8/8 w - - 5 4",
  "3k4/3p4/8/K1P4r/8/8/8/8 b - - 0 1",
  "8/8/4k3/8/2p5/8/B2P2K1/8 w - - 0 1",
  "8/8/1k6/2b5/2pP4/8/5K2/8 b - d3 0 1",
  "5k2/8/8/8/8/8/8/4K2R w K - 0 1",
  "3k4/8/8/8/8/8/8/R3K3 w Q - 0 1",
  "r3k2r/1b4bq/8/8/8/8/7B/R3K2R w KQkq - 0 1",
  "r3k2r/8/3Q4/8/8/5q2/8/R3K2R b KQkq - 0 1",
  "2K2r2/4P3/8/8/8/8/8/3k4 w - - 0 1",
  "8/8/1P2K3/8/2n5/1q6/8/5k2 b - - 0 1",
  "4k3/1P6/8/8/8/8/K7/8 w - - 0 1",
  "8/P1k5/K7/8/8/8/8/8 w - - 0 1",
  "K1k5/8/P7/8/8/8/8/8 w - - 0 1",
  "8/k1P5/8/1K6/8/8/8/8 w - - 0 1",
  "8/8/2k5/5q2/5n2/8/5K2/8 b - - 0 1",
  "7k/5Q2/6K1/8/8/8/8/8 b - - 0 1",
  "7k/8/5K2/8/8/8/6Q1/8 w - - 0 1",
  "4k3/8/8/8/8/5N2/8/1N2K3 w - - 0 1",
  "4k3/8/8/8/8/8/6B1/5K1r w - - 0 1",
  "7k/8/8/8/8/8/8/KQ6 w - - 49 80",
  "6k1/5ppp/8/8/8/8/8/R3K3 w Q - 0 1",
  "k7/8/8/8/5q2/6Pp/7Q/K7 w - - 0 1",
  -- checkmates and stalemates (no legal move), several mating patterns, both colours
  "rnb1kbnr/pppp1ppp/8/4p3/6Pq/5P2/PPPPP2P/RNBQKBNR w KQkq - 1 3",
  "r1bqkb1r/pppp1Qpp/2n2n2/4p3/2B1P3/8/PPPP1PPP/RNB1K1NR b KQkq - 0 4",
  "R5k1/5ppp/8/8/8/8/8/4K3 b - - 1 1",
  "6k1/5ppp/8/8/8/8/8/r3K3 w - - 1 1",
  "7k/6Q1/5K2/8/8/8/8/8 b - - 5 60",
  "7k/5Q2/6K1/8/8/8/8/8 b - - 0 1",
  "k7/2Q5/1K6/8/8/8/8/8 b - - 0 1",
  "5k2/5P2/5K2/8/8/8/8/8 b - - 0 1",
  "8/8/8/8/8/5k2/5p2/5K2 w - - 0 1",
  "kr6/ppN5/8/8/8/8/8/6K1 b - - 0 1",
  "6rk/5Npp/8/8/8/8/8/6K1 b - - 0 1",
  "3rkr2/3p1p2/8/4N3/8/8/4Q3/4K3 w - - 0 1",
  "r3k2r/ppp2Npp/1b5n/4p2b/2B1P2q/BQP2P2/P5PP/RN5K w kq - 1 0",
  "8/8/8/8/8/6k1/6p1/6K1 w - - 0 70",
  "K7/2k5/1q6/8/8/8/8/8 w - - 10 99",
  "1R4k1/5ppp/8/8/8/8/8/6K1 b - - 0 1",
  "5rk1/5ppp/8/8/8/8/1b6/K1n5 w - - 0 1",
  "4k3/4P3/4K3/8/8/8/8/8 b - - 0 1",
  "8/8/8/8/8/1k6/1p6/1K6 w - - 99 120",
  "7k/7P/7K/8/8/8/8/8 b - - 0 1"
]

/-- middlegame-rich roots: playouts from these stay complex for a while -/
def richRoots : List String := [
  "rnbqkbnr/pppppppp/8/8/8/8/PPPPPPPP/RNBQKBNR w KQkq - 0 1",
  "rnbqkbnr/pppppppp/8/8/8/8/PPPPPPPP/RNBQKBNR w KQkq - 0 1",
  "r3k2r/p1ppqpb1/bn2pnp1/3PN3/1p2P3/2N2Q1p/PPPBBPPP/R3K2R w KQkq - 0 1",
  "r3k2r/Pppp1ppp/1b3nbN/nP6/BBP1P3/q4N2/Pp1P2PP/R2Q1RK1 w kq - 0 1",
  "r2q1rk1/pP1p2pp/Q4n2/bbp1p3/Np6/1B3NBn/pPPP1PPP/R3K2R b KQ - 0 1",
  "rnbq1k1r/pp1Pbppp/2p5/8/2B5/8/PPP1NnPP/RNBQK2R w KQ - 1 8",
  "r4rk1/1pp1qppp/p1np1n2/2b1p1B1/2B1P1b1/P1NP1N2/1PP1QPPP/R4RK1 w - - 0 10",
  "r1bqk2r/pppp1ppp/2n2n2/2b1p3/2B1P3/2N2N2/PPPP1PPP/R1BQK2R w KQkq - 6 5",
  "r3k2r/pppq1ppp/2npbn2/2b1p3/2B1P3/2NPBN2/PPPQ1PPP/R3K2R b KQkq - 4 8",
  "rnbqkb1r/pp2pppp/3p1n2/8/3NP3/2N5/PPP2PPP/R1BQKB1R b KQkq - 2 5",
  "r1bq1rk1/pp2ppbp/2np1np1/8/3NP3/2N1BP2/PPPQ2PP/R3KB1R w KQ - 3 9",
  "rnbqkbnr/ppp1p1pp/8/3pPp2/8/8/PPPP1PPP/RNBQKBNR w KQkq f6 0 3",
  "rnbqkbnr/pp1ppppp/8/8/2pPP3/8/PPP2PPP/RNBQKBNR b KQkq d3 0 3",
  "r3k2r/1P4P1/8/8/8/8/1p4p1/R3K2R w KQkq - 0 1",
  "4k2r/6P1/8/8/8/8/1p6/R3K3 b Qk - 0 1",
  "r3k2r/8/8/8/8/8/8/R3K2R w KQkq - 0 1"
]

/-- double pawn pushes after which an enemy pawn can capture en passant -/
def epCreating (b : Board) : List Move :=
  (genLegal b).filter fun m =>
    m.f.nextEp != 0 && (genLegal (make b m)).any fun r => r.f.enPassant

/-- emit `n` positions: `pos <fen_>` lines.  Sources: short playouts from middlegame-rich roots (most), long playouts
(endgames), random few-piece placements with short playouts (mates, stalemates, promotions), positions with an
en-passant capture available, the roots themselves and colour-flipped twins; a quarter gets skewed clocks.
Only positions satisfying `wf` are emitted. -/
def genPositions (seed n : Nat) : List String := Id.run do
  let mut r := Rng.ofSeed seed
  let mut out : Array String := #[]
  let parse := fun (l : List String) => l.filterMap fun s => match fromFenString s with | .ok b => some b | .error _ => none
  let rootBoards := parse roots
  let richBoards := parse richRoots
  let emit := fun (b : Board) (r : Rng) (out : Array String) =>
    let (sk, r) := r.below 4
    let (b', r) := if sk == 0 then skewClocks b r else (b, r)
    let (fl, r) := r.below 6
    let b'' := if fl == 0 then flipBoard b' else b'
    (if wf b'' then out.push s!"pos {fenTok b''}" else out, r)
  let mut guard := 0
  while out.size < n && guard < 100 * n + 1000 do
    guard := guard + 1
    let (kind, r1) := r.below 21
    r := r1
    if kind < 10 then
      -- short playout from a rich root: middlegames with castling rights, pins, en passant
      let (root, r1) := r.pick richBoards
      let (len, r2) := r1.below 70
      let (steps, final, r3) := playout len root r2 []
      r := r3
      let (stride, r4) := r.below 6
      r := r4
      let mut i := 0
      for (b, _) in steps do
        if i % (stride + 2) == 0 && out.size < n then
          let (o, r5) := emit b r out
          out := o
          r := r5
        i := i + 1
      if out.size < n then
        let (o, r5) := emit final r out
        out := o
        r := r5
    else if kind < 12 then
      -- long playout: endgames
      let (root, r1) := r.pick rootBoards
      let (len, r2) := r1.below 200
      let (steps, final, r3) := playout (len + 60) root r2 []
      r := r3
      let mut i := 0
      for (b, _) in steps do
        if i % 23 == 22 && out.size < n then
          let (o, r5) := emit b r out
          out := o
          r := r5
        i := i + 1
      if out.size < n then
        let (o, r5) := emit final r out
        out := o
        r := r5
    else if kind < 15 then
      let (b, r1) := randomPlacement r
      r := r1
      if wf b then
        -- a short playout from the placement reaches mates / stalemates / promotions quickly
        -- moves that end the game at once (mate or stalemate in one): emit the terminal position
        match (genLegal b).find? (fun m => (genLegal (make b m)).isEmpty) with
        | some m =>
          if out.size < n then
            let (o, r2) := emit (make b m) r out
            out := o
            r := r2
        | none => pure ()
        let (long, r3) := r.below 2
        let (len, r4) := r3.below (if long == 0 then 60 else 10)
        let (steps, final, r5) := playout len b r4 []
        r := r5
        let (o, r6) := emit b r out
        out := o
        r := r6
        if out.size < n && !steps.isEmpty then
          let (o, r7) := emit final r out
          out := o
          r := r7
          -- the position before a terminal position (mate / stalemate in one)
          if (genLegal final).isEmpty && out.size < n then
            match steps.getLast? with
            | some (prev, _) =>
              let (o, r8) := emit prev r out
              out := o
              r := r8
            | none => pure ()
    else if kind < 19 then
      -- positions in which an en-passant capture is available
      let (root, r1) := r.pick richBoards
      let (len, r2) := r1.below 30
      let (_, p, r3) := playout len root r2 []
      r := r3
      let cands := epCreating p
      if !cands.isEmpty then
        let (m, r4) := r.pick cands
        r := r4
        let (o, r5) := emit (make p m) r out
        out := o
        r := r5
    else
      let (root, r1) := r.pick (rootBoards ++ richBoards)
      r := r1
      if wf root then out := out.push s!"pos {fenTok root}"
      if out.size < n && wf (flipBoard root) then out := out.push s!"pos {fenTok (flipBoard root)}"
  return out.toList

/-- emit `n` games: `game <rootfen_> <uci> <uci> …` (legal playouts) -/
def genGames (seed n maxLen : Nat) : List String := Id.run do
  let mut r := Rng.ofSeed (seed + 7919)
  let mut out : Array String := #[]
  let rootBoards := roots.filterMap fun s => match fromFenString s with | .ok b => some b | .error _ => none
  for _ in [0:n] do
    let (startCoin, r0) := r.below 3
    let (root, r1) := if startCoin == 0 then (startBoard, r0) else r0.pick rootBoards
    let (root, r1) := skewClocks root r1
    -- keep the whole line inside the 12-bit undo field of the half-move clock (property C03 bounds it by 4095)
    let root := { root with halfmove := min root.halfmove (4095 - maxLen - 64) }
    let (len, r2) := r1.below (maxLen + 1)
    let (steps, _, r3) := playout len root r2 []
    r := r3
    if wf root then
      out := out.push (s!"game {fenTok root}" ++ String.join (steps.map fun (_, m) => " " ++ m.uci))
  return out.toList

/-- a legal quiet, reversible move (no capture, pawn move, castling or promotion) -/
def isQuietReversible (m : Move) : Bool :=
  !m.isAttack && !m.isPromotion && !m.f.castle && !m.f.enPassant && m.f.pieceMoved != PAWN

/-- emit `n` lines `repgame <rootfen_> <prefix moves…> | <m1> <n1> <m2> <n2>`: after the prefix the four moves
shuffle two pieces out and back, so repeating them repeats the position -/
def genRepGames (seed n : Nat) : List String := Id.run do
  let mut r := Rng.ofSeed (seed + 104729)
  let mut out : Array String := #[]
  let rootBoards := roots.filterMap fun s => match fromFenString s with | .ok b => some b | .error _ => none
  let mut guard := 0
  while out.size < n && guard < 50 * n + 100 do
    guard := guard + 1
    let (startCoin, r0) := r.below 2
    let (root, r1) := if startCoin == 0 then (startBoard, r0) else r0.pick rootBoards
    let (hm, r1) := r1.below 90
    let root := { root with halfmove := if root.ep == 0 then hm else root.halfmove }
    let (len, r2) := r1.below 30
    let (steps, p, r3) := playout len root r2 []
    r := r3
    if !wf root then continue
    let q1 := (genLegal p).filter isQuietReversible
    if q1.isEmpty then continue
    let (m1, r4) := r.pick q1
    r := r4
    let p1 := make p m1
    let q2 := (genLegal p1).filter isQuietReversible
    if q2.isEmpty then continue
    let (n1, r5) := r.pick q2
    r := r5
    let p2 := make p1 n1
    match (genLegal p2).find? (fun m => m.f.source == m1.f.target && m.f.target == m1.f.source && isQuietReversible m) with
    | none => continue
    | some m2 =>
      let p3 := make p2 m2
      match (genLegal p3).find? (fun m => m.f.source == n1.f.target && m.f.target == n1.f.source && isQuietReversible m) with
      | none => continue
      | some n2 =>
        out := out.push (s!"repgame {fenTok root}" ++ String.join (steps.map fun (_, m) => " " ++ m.uci)
          ++ s!" | {m1.uci} {n1.uci} {m2.uci} {n2.uci}")
  return out.toList

end Inkayaku.Generate
