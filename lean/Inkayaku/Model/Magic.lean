import Inkayaku.Gen.MagicCfg
/-!
Model of `magic_hash` / `MagicConfiguration::get_attacks` (board/src/board/precalculated/magic.rs) on `Nat`
(`u64` wrapping multiply = multiplication modulo 2^64).  The attack array of a configuration is packed into one
big number `tbl = Σ attacks[i] <<< (64 i)`, so `attacks[i] = (tbl >>> (64 i)) &&& (2^64 - 1)`.
-/
namespace Inkayaku.Magic
open Inkayaku.Gen

def M64 : Nat := 0xFFFFFFFFFFFFFFFF

/-- `magic_hash(mask, hash_shift, hash_mask, magic, occupancy)` -/
def magicIndex (c : MagicCfg) (occ : Nat) : Nat :=
  ((((occ &&& c.mask) * c.magic) % 18446744073709551616) >>> c.hshift) &&& c.hmask

/-- `attacks[i]` -/
def entry (c : MagicCfg) (i : Nat) : Nat := (c.tbl >>> (64 * i)) &&& M64

/-- `attacks.get_unchecked(hash(occupancy))` -/
def lookup (c : MagicCfg) (occ : Nat) : Nat := entry c (magicIndex c occ)

end Inkayaku.Magic
