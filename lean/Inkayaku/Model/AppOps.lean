import Inkayaku.Model.App
/-!
Model side of the `app` op: the stdout of the engine PROCESS (`Inkayaku.App.appRun`) for a script of stdin lines.

request   `app [status] [fuel=<n>] <tok> <tok> …`   one token `x:<hex of the UTF-8 bytes of one stdin line>` per script line
                                                    (`x:` = the empty line; the line terminator is not part of the token)
answer    the stdout lines, first the banner, each line PROJECTED (`projectLine`), joined by ` | `;
          with the flag `status` one more element is appended: `exit:quit` (the process ended after `quit`),
          `exit:panic` (a `setoption` line reached `todo!()`), `exit:none` (still reading: end of the script).
          A token that is not `x:<hex>` of valid UTF-8 answers `bad-request`.

The projection removes what depends on the run (wall clock, node counts, table occupancy, debug statistics) and is
defined on the TEXT of a line, so that the harness can apply the very same function to the lines of the real binary:
* a line whose first field is not `info` is kept as it is;
* of an `info` line the fields are scanned left to right: `time v`, `nodes v`, `hashfull v`, `nps v` are dropped,
  `string` drops itself and the rest of the line, every other field is kept (`depth v`, `pv m…`, `score cp|mate v`);
  if what is kept starts with `depth` the result is `info` + the kept fields, otherwise (a periodic info, which has no
  depth) it is `info poll`.
-/
namespace Inkayaku.AppOps
open Inkayaku.App

def projectInfo : List String → List String
  | [] => []
  | "string" :: _ => []
  | [t] => [t]
  | k :: v :: rest =>
    if k == "time" || k == "nodes" || k == "hashfull" || k == "nps" then projectInfo rest
    else k :: projectInfo (v :: rest)

def projectLine (line : String) : String :=
  match line.splitOn " " with
  | "info" :: rest =>
    let kept := projectInfo rest
    if kept.head? == some "depth" then " ".intercalate ("info" :: kept) else "info poll"
  | _ => line

def statusOf (s : AppSt) : String :=
  if s.panicked then "exit:panic" else if s.terminated then "exit:quit" else "exit:none"

/-- leading options, then the script -/
def splitArgs : Bool → Option Nat → List String → Bool × Option Nat × List String
  | _, fu, "status" :: rest => splitArgs true fu rest
  | st, fu, a :: rest =>
    if a.startsWith "fuel=" then
      match (a.drop 5).toString.toNat? with
      | some n => splitArgs st (some n) rest
      | none => (st, fu, a :: rest)
    else (st, fu, a :: rest)
  | st, fu, [] => (st, fu, [])

def handleApp (args : List String) : String :=
  let (withStatus, fuel, toks) := splitArgs false none args
  match toks.mapM Util.tokenString with
  | none => "bad-request"
  | some lines =>
    let cfg : Cfg := match fuel with | some n => { fuel := n } | none => {}
    let r := appSteps cfg (appInit cfg) lines
    let out := (bannerLine :: r.2).map projectLine
    " | ".intercalate (if withStatus then out ++ [statusOf r.1] else out)

section Tests
open Inkayaku.Util

#guard projectLine "info depth 2 time 0 nodes 181 pv b8c6 b1c3 score cp -40 hashfull 0 nps 766358" ==
  "info depth 2 pv b8c6 b1c3 score cp -40"
#guard projectLine "info depth 1 time 0 nodes 21 pv b8c6 score cp 10 hashfull 0 nps 986146 string tphitrate 0 nrate 1 qrate 0" ==
  "info depth 1 pv b8c6 score cp 10"
#guard projectLine "info time 12 nodes 100000 hashfull 3 nps 7000000" == "info poll"
#guard projectLine "info depth 0 time 0 nodes 1 hashfull 0 nps 0" == "info depth 0"
#guard projectLine "bestmove b8c6 ponder b1c3" == "bestmove b8c6 ponder b1c3"
#guard projectLine "info depth 3 time 1 nodes 9 pv e7e8q score mate 1 hashfull 0 nps 0" == "info depth 3 pv e7e8q score mate 1"

#guard handleApp (["uci", "isready", "position startpos moves e2e4", "go depth 2", "quit"].map stringToken) ==
  "Inkayaku by Marvin Kuhnke (see https://github.com/marvk/rust-chess) | id name Inkayaku | " ++
  "id author Marvin Kuhnke (see https://github.com/marvk/rust-chess) | uciok | readyok | " ++
  "info depth 1 pv b8c6 score cp 10 | info depth 2 pv b8c6 b1c3 score cp -40 | bestmove b8c6 ponder b1c3"
#guard handleApp ("status" :: ["isready", "", "setoption name x", "isready"].map stringToken) ==
  "Inkayaku by Marvin Kuhnke (see https://github.com/marvk/rust-chess) | readyok | exit:panic"
#guard handleApp ("status" :: ["quit", "isready"].map stringToken) ==
  "Inkayaku by Marvin Kuhnke (see https://github.com/marvk/rust-chess) | exit:quit"
#guard handleApp ["status"] == "Inkayaku by Marvin Kuhnke (see https://github.com/marvk/rust-chess) | exit:none"
#guard handleApp ["status", "fuel=2", stringToken "go"] ==
  "Inkayaku by Marvin Kuhnke (see https://github.com/marvk/rust-chess) | info depth 1 pv b1c3 score cp 50 | " ++
  "info depth 2 pv b1c3 b8c6 score cp 0 | bestmove b1c3 ponder b8c6 | exit:none"
#guard handleApp ["x:zz"] == "bad-request"
#guard handleApp ["x:", "x:"] == "Inkayaku by Marvin Kuhnke (see https://github.com/marvk/rust-chess)"

end Tests

end Inkayaku.AppOps
