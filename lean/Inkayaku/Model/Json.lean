/-!
JSON texts as `serde_json::from_str` (1.0.x, default features, `StrRead`) reads them and as `serde_json::to_string`
prints them -- the part that the Lichess payload model (`Inkayaku.Model.Lichess`, property C19) needs.

* `JVal`      : value tree.  Object members are kept as a list in document order (duplicates included).
                A string remembers whether its literal contained a backslash escape (`esc`), because serde can hand out a
                *borrowed* `&str` only for escape-free literals.  Integers keep sign and magnitude separately
                (`-0` is a float for serde_json); numbers with fraction / exponent are `float` (value not modelled).
* `parsePrefix` : one JSON value at the start of the text and the remaining text (what `Deserializer::deserialize_any`
                consumes); `parseJson` = value followed by white space only (`Deserializer::end`).
                Errors modelled: every syntax error of RFC 8259 as serde_json reports it (leading zeros, bare `.`/`e`,
                trailing commas, control characters in strings, bad escapes, lone surrogates), the recursion limit of
                128, and "number out of range" for literals that overflow `f64`
                (the latter up to the last-digit rounding of serde_json's fast path, see `floatOverflows`).
* `render`    : compact printer, `serde_json::ser::CompactFormatter` (`"`, `\\`, `\b \f \n \r \t`, other controls as
                `\u00xx`, everything else verbatim, including DEL and non-ASCII).

Core Lean only.
-/
namespace Inkayaku.Json

inductive JVal where
  | null
  | bool (b : Bool)
  /-- integer literal: optional minus, digits (no fraction, no exponent) -/
  | num (neg : Bool) (n : Nat)
  /-- literal with a fraction and/or an exponent -/
  | float
  /-- `esc` = the literal contained at least one backslash escape -/
  | str (esc : Bool) (s : List Char)
  | arr (xs : List JVal)
  | obj (kvs : List (List Char × JVal))
deriving Repr, Inhabited

/-! ## Printing -/

def hexDigit (n : Nat) : Char :=
  if n < 10 then Char.ofNat (48 + n) else Char.ofNat (87 + n)

def digitChar (n : Nat) : Char := Char.ofNat (48 + n)

/-- decimal digits, most significant first; `0 ↦ "0"` -/
def natDigits (n : Nat) : List Char :=
  if n < 10 then [digitChar n] else natDigits (n / 10) ++ [digitChar (n % 10)]

/-- characters `serde_json` escapes when printing -/
def needsEscape (c : Char) : Bool := c == '"' || c == '\\' || c.toNat < 32

def escapeChar (c : Char) : List Char :=
  if c = '"' then ['\\', '"']
  else if c = '\\' then ['\\', '\\']
  else if c.toNat = 8 then ['\\', 'b']
  else if c.toNat = 12 then ['\\', 'f']
  else if c.toNat = 10 then ['\\', 'n']
  else if c.toNat = 13 then ['\\', 'r']
  else if c.toNat = 9 then ['\\', 't']
  else if c.toNat < 32 then ['\\', 'u', '0', '0', hexDigit (c.toNat / 16), hexDigit (c.toNat % 16)]
  else [c]

def escapeChars : List Char → List Char
  | [] => []
  | c :: cs => escapeChar c ++ escapeChars cs

def renderStr (s : List Char) : List Char := '"' :: (escapeChars s ++ ['"'])

mutual
def render : JVal → List Char
  | .null => ['n', 'u', 'l', 'l']
  | .bool true => ['t', 'r', 'u', 'e']
  | .bool false => ['f', 'a', 'l', 's', 'e']
  | .num neg n => if neg then '-' :: natDigits n else natDigits n
  | .float => ['0', '.', '5']
  | .str _ s => renderStr s
  | .arr [] => ['[', ']']
  | .arr (x :: xs) => '[' :: (render x ++ renderTail xs)
  | .obj [] => ['{', '}']
  | .obj ((k, v) :: kvs) => '{' :: (renderStr k ++ ':' :: (render v ++ renderMembersTail kvs))
/-- `,x,y]` -/
def renderTail : List JVal → List Char
  | [] => [']']
  | x :: xs => ',' :: (render x ++ renderTail xs)
/-- `,"k":v,"l":w}` -/
def renderMembersTail : List (List Char × JVal) → List Char
  | [] => ['}']
  | (k, v) :: kvs => ',' :: (renderStr k ++ ':' :: (render v ++ renderMembersTail kvs))
end

/-! ## Parsing -/

def isWs (c : Char) : Bool := c == ' ' || c == '\n' || c == '\t' || c == '\r'

def skipWs : List Char → List Char
  | [] => []
  | c :: cs => if isWs c then skipWs cs else c :: cs

def isDigit (c : Char) : Bool := 48 ≤ c.toNat && c.toNat ≤ 57

def hexVal (c : Char) : Option Nat :=
  let n := c.toNat
  if 48 ≤ n ∧ n ≤ 57 then some (n - 48)
  else if 97 ≤ n ∧ n ≤ 102 then some (n - 87)
  else if 65 ≤ n ∧ n ≤ 70 then some (n - 55)
  else none

def hex4 (a b c d : Char) : Option Nat :=
  match hexVal a, hexVal b, hexVal c, hexVal d with
  | some x, some y, some z, some w => some (4096 * x + 256 * y + 16 * z + w)
  | _, _, _, _ => none

/-- the body of a string literal after the opening quote: content, "had an escape", rest after the closing quote.
`fuel` bounds the number of steps (one character or one escape each). -/
def parseStrBody : Nat → List Char → Option (List Char × Bool × List Char)
  | 0, _ => none
  | _ + 1, [] => none
  | fuel + 1, c :: cs =>
    if c = '"' then some ([], false, cs)
    else if c = '\\' then
      match cs with
      | [] => none
      | e :: r =>
        let simple (x : Char) : Option (List Char × Bool × List Char) :=
          match parseStrBody fuel r with
          | some (s, _, rest) => some (x :: s, true, rest)
          | none => none
        if e = '"' then simple '"'
        else if e = '\\' then simple '\\'
        else if e = '/' then simple '/'
        else if e = 'b' then simple (Char.ofNat 8)
        else if e = 'f' then simple (Char.ofNat 12)
        else if e = 'n' then simple (Char.ofNat 10)
        else if e = 'r' then simple (Char.ofNat 13)
        else if e = 't' then simple (Char.ofNat 9)
        else if e = 'u' then
          match r with
          | a :: b :: c' :: d :: r1 =>
            match hex4 a b c' d with
            | none => none
            | some n =>
              if 0xDC00 ≤ n ∧ n ≤ 0xDFFF then none                 -- lone trailing surrogate
              else if 0xD800 ≤ n ∧ n ≤ 0xDBFF then
                match r1 with
                | '\\' :: 'u' :: a2 :: b2 :: c2 :: d2 :: r2 =>
                  match hex4 a2 b2 c2 d2 with
                  | none => none
                  | some m =>
                    if 0xDC00 ≤ m ∧ m ≤ 0xDFFF then
                      match parseStrBody fuel r2 with
                      | some (s, _, rest) => some (Char.ofNat ((n - 0xD800) * 1024 + (m - 0xDC00) + 0x10000) :: s, true, rest)
                      | none => none
                    else none
                | _ => none
              else
                match parseStrBody fuel r1 with
                | some (s, _, rest) => some (Char.ofNat n :: s, true, rest)
                | none => none
          | _ => none
        else none
    else if c.toNat < 32 then none
    else
      match parseStrBody fuel cs with
      | some (s, e, rest) => some (c :: s, e, rest)
      | none => none

def spanDigits : List Char → List Char × List Char
  | [] => ([], [])
  | c :: cs => if isDigit c then ((spanDigits cs).1.cons c, (spanDigits cs).2) else ([], c :: cs)

def digitsVal (ds : List Char) : Nat := ds.foldl (fun acc c => 10 * acc + (c.toNat - 48)) 0

/-- `f64::MAX` plus half an ulp: literals at or above round to infinity -/
def f64Overflow : Nat := 2 ^ 1024 - 2 ^ 970

/-- "number out of range": the literal `mant · 10^e10` is not representable as a finite `f64`.
serde_json (without `float_roundtrip`) computes `(mant as f64) * 10^e10` with two roundings; we compare the exact value
with the overflow threshold, which can differ only for literals within a few ulps of `f64::MAX`. -/
def floatOverflows (mant : Nat) (e10 : Int) : Bool :=
  if mant = 0 then false
  else match e10 with
    | .ofNat e => if e > 400 then true else decide (f64Overflow ≤ mant * 10 ^ e)
    | .negSucc k => if k + 1 > 400 + (natDigits mant).length then false else decide (f64Overflow * 10 ^ (k + 1) ≤ mant)

/-- a number; `cs` starts at the first digit (the minus sign, if any, is already consumed) -/
def parseNumber (neg : Bool) (cs : List Char) : Option (JVal × List Char) :=
  let ds := (spanDigits cs).1
  let r := (spanDigits cs).2
  if ds = [] then none
  else if ds.head? = some '0' ∧ ds.length > 1 then none            -- leading zero
  else
    -- optional fraction
    let fracPart : Option (List Char × List Char × Bool) :=
      match r with
      | '.' :: r1 =>
        let fs := (spanDigits r1).1
        if fs = [] then none else some (fs, (spanDigits r1).2, true)
      | _ => some ([], r, false)
    match fracPart with
    | none => none
    | some (fs, r2, hasFrac) =>
      -- optional exponent
      let expPart : Option (Int × List Char × Bool) :=
        match r2 with
        | c :: r3 =>
          if c = 'e' ∨ c = 'E' then
            let (sgnNeg, r4) : Bool × List Char :=
              match r3 with
              | '+' :: r4 => (false, r4)
              | '-' :: r4 => (true, r4)
              | _ => (false, r3)
            let es := (spanDigits r4).1
            if es = [] then none
            else some (if sgnNeg then - (digitsVal es : Int) else (digitsVal es : Int), (spanDigits r4).2, true)
          else some (0, r2, false)
        | [] => some (0, r2, false)
      match expPart with
      | none => none
      | some (e, r5, hasExp) =>
        if hasFrac || hasExp then
          if floatOverflows (digitsVal (ds ++ fs)) (e - fs.length) then none else some (.float, r5)
        else
          -- integers beyond u64 / below i64 become f64 in serde_json; they may overflow to infinity as well
          if f64Overflow ≤ digitsVal ds then none else some (.num neg (digitsVal ds), r5)

/-- serde_json's `remaining_depth`: 128 at the top; entering an array/object decrements, reaching 0 is an error -/
def maxDepth : Nat := 128

mutual
/-- `depth` = serde_json's `remaining_depth`.  `fuel` bounds the recursion (see `parsePrefix`). -/
def parseValue : Nat → Nat → List Char → Option (JVal × List Char)
  | 0, _, _ => none
  | fuel + 1, depth, cs =>
    match skipWs cs with
    | [] => none
    | c :: r =>
      if c = '"' then
        match parseStrBody (r.length + 1) r with
        | some (s, e, rest) => some (.str e s, rest)
        | none => none
      else if c = '[' then
        if depth ≤ 1 then none
        else match skipWs r with
          | ']' :: r' => some (.arr [], r')
          | _ =>
            match parseElems fuel (depth - 1) r with
            | some (xs, rest) => some (.arr xs, rest)
            | none => none
      else if c = '{' then
        if depth ≤ 1 then none
        else match skipWs r with
          | '}' :: r' => some (.obj [], r')
          | _ =>
            match parseMembers fuel (depth - 1) r with
            | some (kvs, rest) => some (.obj kvs, rest)
            | none => none
      else if c = '-' then parseNumber true r
      else if isDigit c then parseNumber false (c :: r)
      else match c :: r with
        | 'n' :: 'u' :: 'l' :: 'l' :: rest => some (.null, rest)
        | 't' :: 'r' :: 'u' :: 'e' :: rest => some (.bool true, rest)
        | 'f' :: 'a' :: 'l' :: 's' :: 'e' :: rest => some (.bool false, rest)
        | _ => none
/-- one value, then `,` + more or `]` -/
def parseElems : Nat → Nat → List Char → Option (List JVal × List Char)
  | 0, _, _ => none
  | fuel + 1, depth, cs =>
    match parseValue fuel depth cs with
    | none => none
    | some (v, r) =>
      match skipWs r with
      | ',' :: r' =>
        match parseElems fuel depth r' with
        | some (vs, rest) => some (v :: vs, rest)
        | none => none
      | ']' :: r' => some ([v], r')
      | _ => none
/-- `"key" : value`, then `,` + more or `}` -/
def parseMembers : Nat → Nat → List Char → Option (List (List Char × JVal) × List Char)
  | 0, _, _ => none
  | fuel + 1, depth, cs =>
    match skipWs cs with
    | '"' :: r =>
      match parseStrBody (r.length + 1) r with
      | none => none
      | some (k, _, r1) =>
        match skipWs r1 with
        | ':' :: r2 =>
          match parseValue fuel depth r2 with
          | none => none
          | some (v, r3) =>
            match skipWs r3 with
            | ',' :: r4 =>
              match parseMembers fuel depth r4 with
              | some (kvs, rest) => some ((k, v) :: kvs, rest)
              | none => none
            | '}' :: r4 => some ([(k, v)], r4)
            | _ => none
        | _ => none
    | _ => none
end

/-- the first JSON value of the text and what follows it (`deserialize_any` into serde's `Content`) -/
def parsePrefix (cs : List Char) : Option (JVal × List Char) := parseValue (2 * cs.length + 1) maxDepth cs

/-- `Deserializer::end`: only white space may follow -/
def onlyWs (cs : List Char) : Bool := (skipWs cs).isEmpty

/-- `serde_json::from_str::<Value-like>`: one value, then only white space -/
def parseJson (cs : List Char) : Option JVal :=
  match parsePrefix cs with
  | some (v, rest) => if onlyWs rest then some v else none
  | none => none

end Inkayaku.Json
