import Inkayaku.Gen.Magic
import Inkayaku.Gen.Leapers
import Inkayaku.Gen.BoardConsts
import Inkayaku.Model.Magic
/-!
Executable model of `inkayaku_board::Bitboard` (board/src/board.rs): position representation, packed moves,
pseudo-legal generation, `make`/`unmake`, check detection, perft.  It mirrors the Rust AS IT IS:

* squares are shifts 0..63 with a8 = 0 … h1 = 63, `NO_SQUARE = 0 = A8`;
* each side has SEVEN occupancy words; word 0 belongs to `NO_PIECE` and is scribbled on by `make`/`unmake`
  (`occupancy_ref(piece_attacked)` with no piece attacked) — it is not part of the chess position;
* all side effects of a move are computed at generation time and packed into 64 bits (`Move.bits`), the packing
  uses the masks and shifts of the CURRENT code (`Gen.BoardConsts`);
* castling rights are dropped by *square* (a move from/to a corner or from the king's home square);
* the en-passant victim is found arithmetically (target ± 8).

`u32`/`u64` arithmetic is modelled on `Nat`/`UInt64`; where the Rust would overflow or index out of range
(only possible outside the well-formedness predicate used by the theorems) the model says so in a comment.
Core Lean only.
-/
namespace Inkayaku.Board
open Inkayaku.Gen

abbrev BB := UInt64

def bitU (s : Nat) : UInt64 := (1 : UInt64) <<< s.toUInt64

def testU (x : UInt64) (s : Nat) : Bool := x.toNat.testBit s

/-- set bits in ascending order = the order of the `while occ != 0 { lowest one bit }` loops -/
def bitsAsc (x : UInt64) : List Nat := (List.range 64).filter (testU x)

/-- `trailing_zeros` (64 for 0) -/
def trailingZeros (x : UInt64) : Nat := ((List.range 64).find? (testU x)).getD 64

-- piece codes
def NO_PIECE : Nat := 0
def PAWN : Nat := 1
def KNIGHT : Nat := 2
def BISHOP : Nat := 3
def ROOK : Nat := 4
def QUEEN : Nat := 5
def KING : Nat := 6

def A8 : Nat := 0
def C8 : Nat := 2
def D8 : Nat := 3
def E8 : Nat := 4
def F8 : Nat := 5
def G8 : Nat := 6
def H8 : Nat := 7
def A1 : Nat := 56
def C1 : Nat := 58
def D1 : Nat := 59
def E1 : Nat := 60
def F1 : Nat := 61
def G1 : Nat := 62
def H1 : Nat := 63

/-- `PlayerState` -/
structure Side where
  o0 : UInt64 := 0      -- occupancy[NO_PIECE]: scratch
  pawns : UInt64 := 0
  knights : UInt64 := 0
  bishops : UInt64 := 0
  rooks : UInt64 := 0
  queens : UInt64 := 0
  kings : UInt64 := 0
  qs : Bool := false    -- queen_side_castle
  ks : Bool := false    -- king_side_castle
deriving DecidableEq, Repr, Inhabited

/-- `occupancy[piece]`; the Rust array has 7 entries, an index ≥ 7 would panic (never produced: piece codes
come from the constants 0..6) -/
def Side.get (s : Side) : Nat → UInt64
  | 0 => s.o0 | 1 => s.pawns | 2 => s.knights | 3 => s.bishops | 4 => s.rooks | 5 => s.queens | 6 => s.kings
  | _ => 0

def Side.set (s : Side) (p : Nat) (v : UInt64) : Side :=
  match p with
  | 0 => { s with o0 := v } | 1 => { s with pawns := v } | 2 => { s with knights := v }
  | 3 => { s with bishops := v } | 4 => { s with rooks := v } | 5 => { s with queens := v }
  | 6 => { s with kings := v } | _ => s

def Side.full (s : Side) : UInt64 :=
  s.kings ||| s.queens ||| s.rooks ||| s.bishops ||| s.knights ||| s.pawns

/-- `get_piece_const_by_square_mask` -/
def Side.pieceAtMask (s : Side) (m : UInt64) : Nat :=
  if s.pawns &&& m != 0 then PAWN
  else if s.knights &&& m != 0 then KNIGHT
  else if s.bishops &&& m != 0 then BISHOP
  else if s.rooks &&& m != 0 then ROOK
  else if s.queens &&& m != 0 then QUEEN
  else if s.kings &&& m != 0 then KING
  else NO_PIECE

/-- `get_piece_const_by_square_shift` (`1 << shift`; a shift ≥ 64 would panic in the Rust) -/
def Side.pieceAt (s : Side) (sq : Nat) : Nat := s.pieceAtMask (bitU sq)

/-- `Bitboard` -/
structure Board where
  white : Side
  black : Side
  turn : Nat          -- 0 = white, 1 = black
  ep : Nat            -- en_passant_square_shift, 0 = none (= a8)
  fullmove : Nat
  halfmove : Nat
deriving DecidableEq, Repr, Inhabited

def Board.whiteTurn (b : Board) : Bool := b.turn == 0
def Board.active (b : Board) : Side := if b.whiteTurn then b.white else b.black
def Board.passive (b : Board) : Side := if b.whiteTurn then b.black else b.white
def Board.setActive (b : Board) (s : Side) : Board := if b.whiteTurn then { b with white := s } else { b with black := s }
def Board.setPassive (b : Board) (s : Side) : Board := if b.whiteTurn then { b with black := s } else { b with white := s }

/-! ## Packed moves -/

/-- the fields of a move, as the generator computes them -/
structure MoveF where
  pieceMoved : Nat := 0
  pieceAttacked : Nat := 0
  selfLostKing : Bool := false
  selfLostQueen : Bool := false
  oppLostKing : Bool := false
  oppLostQueen : Bool := false
  castle : Bool := false
  enPassant : Bool := false
  source : Nat := 0
  target : Nat := 0
  halfmoveReset : Bool := false
  prevHalfmove : Nat := 0
  prevEp : Nat := 0
  nextEp : Nat := 0
  promotion : Nat := 0
  side : Nat := 0
deriving DecidableEq, Repr, Inhabited

def flagBits (b : Bool) (mask : Nat) : UInt64 := if b then mask.toUInt64 else 0

/-- the 64-bit word `make_move` builds with its `set_*` calls (same order; `|=` only) -/
def encode (f : MoveF) : UInt64 :=
  let bits : UInt64 := 0
  let bits := bits ||| flagBits f.enPassant enPassantAttackTrueMask
  let bits := bits ||| (f.nextEp.toUInt64 <<< nextEnPassantShift.toUInt64)
  let bits := bits ||| (f.pieceMoved.toUInt64 <<< pieceMovedShift.toUInt64)
  let bits := bits ||| (f.pieceAttacked.toUInt64 <<< pieceAttackedShift.toUInt64)
  let bits := bits ||| (f.source.toUInt64 <<< sourceSquareShift.toUInt64)
  let bits := bits ||| (f.target.toUInt64 <<< targetSquareShift.toUInt64)
  let bits := bits ||| flagBits f.castle castleMoveTrueMask
  let bits := bits ||| (f.prevHalfmove.toUInt64 <<< previousHalfmoveShift.toUInt64)
  let bits := bits ||| (f.prevEp.toUInt64 <<< previousEnPassantShift.toUInt64)
  let bits := bits ||| (f.promotion.toUInt64 <<< promotionPieceShift.toUInt64)
  let bits := bits ||| (f.side.toUInt64 <<< sideToMoveShift.toUInt64)
  let bits := bits ||| flagBits f.halfmoveReset halfmoveResetMask
  let bits := bits ||| flagBits f.oppLostQueen oppLostQueenMask
  let bits := bits ||| flagBits f.oppLostKing oppLostKingMask
  let bits := bits ||| flagBits f.selfLostQueen selfLostQueenMask
  let bits := bits ||| flagBits f.selfLostKing selfLostKingMask
  bits

def field (bits : UInt64) (mask shift : Nat) : Nat := ((bits &&& mask.toUInt64) >>> shift.toUInt64).toNat

/-- the getters -/
def decode (bits : UInt64) : MoveF :=
  { pieceMoved := field bits pieceMovedMask pieceMovedShift
    pieceAttacked := field bits pieceAttackedMask pieceAttackedShift
    selfLostKing := field bits selfLostKingMask selfLostKingShift != 0
    selfLostQueen := field bits selfLostQueenMask selfLostQueenShift != 0
    oppLostKing := field bits oppLostKingMask oppLostKingShift != 0
    oppLostQueen := field bits oppLostQueenMask oppLostQueenShift != 0
    castle := field bits castleMoveMask castleMoveShift != 0
    enPassant := field bits enPassantAttackMask enPassantAttackShift != 0
    source := field bits sourceSquareMask sourceSquareShift
    target := field bits targetSquareMask targetSquareShift
    halfmoveReset := field bits halfmoveResetMask halfmoveResetShift != 0
    prevHalfmove := field bits previousHalfmoveMask previousHalfmoveShift
    prevEp := field bits previousEnPassantMask previousEnPassantShift
    nextEp := field bits nextEnPassantMask nextEnPassantShift
    promotion := field bits promotionPieceMask promotionPieceShift
    side := field bits sideToMoveMask sideToMoveShift }

/-- `Move` -/
structure Move where
  bits : UInt64
  mvvlva : Int
deriving DecidableEq, Repr, Inhabited

def Move.f (m : Move) : MoveF := decode m.bits
def Move.isAttack (m : Move) : Bool := m.f.pieceAttacked != NO_PIECE
def Move.isPromotion (m : Move) : Bool := m.f.promotion != NO_PIECE

def fileChar (sq : Nat) : Char := Char.ofNat (97 + sq % 8)
def rankChar (sq : Nat) : Char := Char.ofNat (56 - sq / 8)
/-- `square_to_string` (empty for an index ≥ 64) -/
def squareString (sq : Nat) : String := if sq < 64 then String.ofList [fileChar sq, rankChar sq] else ""
/-- `piece_to_string` -/
def pieceString : Nat → String
  | 1 => "p" | 2 => "n" | 3 => "b" | 4 => "r" | 5 => "q" | 6 => "k" | _ => ""

def MoveF.uci (f : MoveF) : String := squareString f.source ++ squareString f.target ++ pieceString f.promotion
def Move.uci (m : Move) : String := m.f.uci

/-! ## Attack lookups (the table lookups of C04) -/

def rookAttacks (sq : Nat) (occ : UInt64) : UInt64 := (Magic.lookup (rookCfg sq) occ.toNat).toUInt64
def bishopAttacks (sq : Nat) (occ : UInt64) : UInt64 := (Magic.lookup (bishopCfg sq) occ.toNat).toUInt64
def leaperAttacks (tbl : List Nat) (sq : Nat) : UInt64 := (tbl.getD sq 0).toUInt64

/-! ## Move construction (`make_move`) -/

def pieceValues : List Int := [0, 100, 320, 330, 500, 900, 901]

def mvvLva (active attacked : Nat) : Int :=
  if attacked == NO_PIECE || attacked == KING then 0
  else (pieceValues.getD attacked 0) * 256 - pieceValues.getD active 0

/-- `make_move`: returns the move to push, or `none` for the early return of the capture/promotion-only generator -/
def mkMove (b : Board) (nq : Bool) (src tgt piece : Nat) (castle ep : Bool) (promo epOpp : Nat) : Option Move :=
  let white := b.whiteTurn
  let active := b.active
  let passive := b.passive
  let dCastle := if white then 0 else 56
  let epOffset := if ep then 8 else 0
  -- `target - offset` is u32 subtraction (would panic below zero); only reached with target on rank 3
  let attackSq := if white then tgt + epOffset else tgt - epOffset
  let attacked := passive.pieceAt attackSq
  if attacked == NO_PIECE && promo == NO_PIECE && nq then none
  else
    let oppLostQueen := passive.qs && tgt == A8 + dCastle
    let oppLostKing := !oppLostQueen && passive.ks && tgt == H8 + dCastle
    let selfLostQueen := active.qs && (src == A1 - dCastle || src == E1 - dCastle)
    let selfLostKing := active.ks && (src == H1 - dCastle || src == E1 - dCastle)
    let f : MoveF :=
      { pieceMoved := piece, pieceAttacked := attacked, selfLostKing, selfLostQueen, oppLostKing, oppLostQueen,
        castle, enPassant := ep, source := src, target := tgt,
        halfmoveReset := piece == PAWN || attacked != NO_PIECE,
        prevHalfmove := b.halfmove, prevEp := b.ep, nextEp := epOpp, promotion := promo, side := b.turn }
    some { bits := encode f, mvvlva := mvvLva piece attacked }

def pushOpt (acc : List Move) (m : Option Move) : List Move :=
  match m with | some x => acc ++ [x] | none => acc

/-! ## Generation (moves are appended in exactly the order of the Rust loops) -/

def genAttacks (b : Board) (nq : Bool) (src : Nat) (attackOcc : UInt64) (piece : Nat) (acc : List Move) : List Move :=
  (bitsAsc attackOcc).foldl (fun acc tgt => pushOpt acc (mkMove b nq src tgt piece false false NO_PIECE 0)) acc

def slidingMoves (b : Board) (nq : Bool) (pieceOcc activeOcc fullOcc : UInt64) (rook : Bool) (piece : Nat)
    (acc : List Move) : List Move :=
  (bitsAsc pieceOcc).foldl (fun acc src =>
    let att := (if rook then rookAttacks src fullOcc else bishopAttacks src fullOcc) &&& ~~~activeOcc
    genAttacks b nq src att piece acc) acc

def singleMoves (b : Board) (nq : Bool) (pieceOcc activeOcc : UInt64) (tbl : List Nat) (piece : Nat)
    (acc : List Move) : List Move :=
  (bitsAsc pieceOcc).foldl (fun acc src =>
    genAttacks b nq src (leaperAttacks tbl src &&& ~~~activeOcc) piece acc) acc

def promotions (b : Board) (src tgt : Nat) (acc : List Move) : List Move :=
  [QUEEN, ROOK, BISHOP, KNIGHT].foldl (fun acc p => pushOpt acc (mkMove b false src tgt PAWN false false p 0)) acc

def rank18 : UInt64 := (rank1 ||| rank8).toUInt64

def pawnAttacks (b : Board) (pawnOcc activeOcc passiveOcc : UInt64) (acc : List Move) : List Move :=
  let tbl := if b.whiteTurn then whitePawnTable else blackPawnTable
  (bitsAsc pawnOcc).foldl (fun acc src =>
    let att := leaperAttacks tbl src &&& (passiveOcc ||| (bitU b.ep &&& ~~~rank18)) &&& ~~~activeOcc
    (bitsAsc att).foldl (fun acc tgt =>
      if bitU tgt &&& rank8.toUInt64 != 0 || bitU tgt &&& rank1.toUInt64 != 0 then promotions b src tgt acc
      else pushOpt acc (mkMove b false src tgt PAWN false (tgt == b.ep) NO_PIECE 0)) acc) acc

def pawnMoves (b : Board) (nq : Bool) (pawnOcc fullOcc : UInt64) (acc : List Move) : List Move :=
  (bitsAsc pawnOcc).foldl (fun acc src =>
    let srcMask := bitU src
    let white := b.whiteTurn
    let singleMask := if white then srcMask >>> 8 else srcMask <<< 8
    let promoteRank := if white then rank8.toUInt64 else rank1.toUInt64
    -- `trailing_zeros` of the mask (64 when the mask is empty, which needs a pawn on its last rank)
    let singleSq := trailingZeros singleMask
    if singleMask &&& fullOcc == 0 then
      if singleMask &&& promoteRank == 0 then
        let acc := pushOpt acc (mkMove b nq src singleSq PAWN false false NO_PIECE 0)
        let doubleMask := if white then singleMask >>> 8 else singleMask <<< 8
        let doubleRank := if white then rank2.toUInt64 else rank7.toUInt64
        let doubleSq := trailingZeros doubleMask
        if srcMask &&& doubleRank != 0 && doubleMask &&& fullOcc == 0 then
          pushOpt acc (mkMove b nq src doubleSq PAWN false false NO_PIECE singleSq)
        else acc
      else promotions b src singleSq acc
    else acc) acc

/-- `_is_square_in_check`: is `sq` attacked by a piece of `passive`; `color` is the colour of the (would-be) king -/
def squareInCheck (color : Nat) (passive : Side) (sq : Nat) (fullOcc : UInt64) : Bool :=
  if rookAttacks sq fullOcc &&& (passive.rooks ||| passive.queens) != 0 then true
  else if bishopAttacks sq fullOcc &&& (passive.bishops ||| passive.queens) != 0 then true
  else if leaperAttacks knightTable sq &&& passive.knights != 0 then true
  else if leaperAttacks (if color == 0 then whitePawnTable else blackPawnTable) sq &&& passive.pawns != 0 then true
  else leaperAttacks kingTable sq &&& passive.kings != 0

/-- `_is_occupancy_in_check` -/
def occupancyInCheck (color : Nat) (passive : Side) (fullOcc : UInt64) (squares : UInt64) : Bool :=
  (bitsAsc squares).any fun sq => squareInCheck color passive sq fullOcc

def castleMoves (b : Board) (fullOcc : UInt64) (acc : List Move) : List Move :=
  let castle (src tgt : Nat) (acc : List Move) : List Move :=
    pushOpt acc (mkMove b false src tgt KING true false NO_PIECE 0)
  if b.whiteTurn then
    let acc := if b.white.qs && fullOcc &&& whiteQueenSideCastleEmpty.toUInt64 == 0
        && !occupancyInCheck 0 b.black fullOcc whiteQueenSideCastleCheck.toUInt64 then castle E1 C1 acc else acc
    if b.white.ks && fullOcc &&& whiteKingSideCastleEmpty.toUInt64 == 0
        && !occupancyInCheck 0 b.black fullOcc whiteKingSideCastleCheck.toUInt64 then castle E1 G1 acc else acc
  else
    let acc := if b.black.qs && fullOcc &&& blackQueenSideCastleEmpty.toUInt64 == 0
        && !occupancyInCheck 1 b.white fullOcc blackQueenSideCastleCheck.toUInt64 then castle E8 C8 acc else acc
    if b.black.ks && fullOcc &&& blackKingSideCastleEmpty.toUInt64 == 0
        && !occupancyInCheck 1 b.white fullOcc blackKingSideCastleCheck.toUInt64 then castle E8 G8 acc else acc

/-- `generate_pseudo_legal_moves` -/
def genPseudo (b : Board) : List Move :=
  let active := b.active
  let activeOcc := active.full
  let passiveOcc := b.passive.full
  let fullOcc := activeOcc ||| passiveOcc
  let acc : List Move := []
  let acc := slidingMoves b false active.queens activeOcc fullOcc true QUEEN acc
  let acc := slidingMoves b false active.queens activeOcc fullOcc false QUEEN acc
  let acc := slidingMoves b false active.bishops activeOcc fullOcc false BISHOP acc
  let acc := slidingMoves b false active.rooks activeOcc fullOcc true ROOK acc
  let acc := singleMoves b false active.knights activeOcc knightTable KNIGHT acc
  let acc := singleMoves b false active.kings activeOcc kingTable KING acc
  let acc := pawnAttacks b active.pawns activeOcc passiveOcc acc
  let acc := pawnMoves b false active.pawns fullOcc acc
  castleMoves b fullOcc acc

/-- `generate_pseudo_legal_non_quiescent_moves` -/
def genNonQuiescent (b : Board) : List Move :=
  let active := b.active
  let activeOcc := active.full
  let passiveOcc := b.passive.full
  let fullOcc := activeOcc ||| passiveOcc
  let acc : List Move := []
  let acc := slidingMoves b true active.queens activeOcc fullOcc true QUEEN acc
  let acc := slidingMoves b true active.queens activeOcc fullOcc false QUEEN acc
  let acc := slidingMoves b true active.bishops activeOcc fullOcc false BISHOP acc
  let acc := slidingMoves b true active.rooks activeOcc fullOcc true ROOK acc
  let acc := singleMoves b true active.knights activeOcc knightTable KNIGHT acc
  let acc := singleMoves b true active.kings activeOcc kingTable KING acc
  let acc := pawnAttacks b active.pawns activeOcc passiveOcc acc
  pawnMoves b true active.pawns fullOcc acc

/-! ## make / unmake on the decoded fields -/

def clearBit (x : UInt64) (m : UInt64) : UInt64 := x &&& ~~~m

/-- rook source / rook target squares of a castling move by the king's target square;
`none` = the Rust `panic!()` arm -/
def castleRook (tgt : Nat) : Option (Nat × Nat) :=
  if tgt == C1 then some (A1, D1) else if tgt == G1 then some (H1, F1)
  else if tgt == C8 then some (A8, D8) else if tgt == G8 then some (H8, F8) else none

/-- `Bitboard::make` -/
def makeF (b : Board) (f : MoveF) : Board :=
  let white := b.whiteTurn
  let mover := b.active
  let other := b.passive
  let mover := { mover with ks := if f.selfLostKing then false else mover.ks,
                             qs := if f.selfLostQueen then false else mover.qs }
  let other := { other with ks := if f.oppLostKing then false else other.ks,
                             qs := if f.oppLostQueen then false else other.qs }
  let srcM := bitU f.source
  let tgtM := bitU f.target
  let (mover, other) :=
    if f.castle then
      match castleRook f.target with
      | some (rs, rt) =>
        ({ mover with rooks := clearBit mover.rooks (bitU rs) ||| bitU rt,
                      kings := clearBit mover.kings srcM ||| tgtM }, other)
      | none => (mover, other)   -- Rust: panic!()
    else if f.enPassant then
      let victim := if white then tgtM <<< 8 else tgtM >>> 8
      ({ mover with pawns := clearBit mover.pawns srcM ||| tgtM }, { other with pawns := clearBit other.pawns victim })
    else if f.promotion != NO_PIECE then
      let mover := { mover with pawns := clearBit mover.pawns srcM }
      let mover := mover.set f.promotion (mover.get f.promotion ||| tgtM)
      (mover, other.set f.pieceAttacked (clearBit (other.get f.pieceAttacked) tgtM))
    else
      let mover := mover.set f.pieceMoved (clearBit (mover.get f.pieceMoved) srcM ||| tgtM)
      (mover, other.set f.pieceAttacked (clearBit (other.get f.pieceAttacked) tgtM))
  { white := if white then mover else other
    black := if white then other else mover
    turn := 1 - b.turn
    ep := f.nextEp
    fullmove := b.fullmove + b.turn
    halfmove := if f.halfmoveReset then 0 else b.halfmove + 1 }

/-- `Bitboard::unmake` (`b` is the position AFTER the move) -/
def unmakeF (b : Board) (f : MoveF) : Board :=
  let whiteNow := b.whiteTurn            -- side to move after the move
  -- after flipping the turn back: active = the side that made the move
  let mover := if whiteNow then b.black else b.white
  let other := if whiteNow then b.white else b.black
  let mover := { mover with ks := if f.selfLostKing then true else mover.ks,
                             qs := if f.selfLostQueen then true else mover.qs }
  let other := { other with ks := if f.oppLostKing then true else other.ks,
                             qs := if f.oppLostQueen then true else other.qs }
  let srcM := bitU f.source
  let tgtM := bitU f.target
  let (mover, other) :=
    if f.castle then
      match castleRook f.target with
      | some (rs, rt) =>
        ({ mover with rooks := clearBit mover.rooks (bitU rt) ||| bitU rs,
                      kings := clearBit mover.kings tgtM ||| srcM }, other)
      | none => (mover, other)   -- Rust: panic!()
    else if f.enPassant then
      let victim := if whiteNow then tgtM >>> 8 else tgtM <<< 8
      ({ mover with pawns := clearBit mover.pawns tgtM ||| srcM },
       other.set f.pieceAttacked (other.get f.pieceAttacked ||| victim))
    else if f.promotion != NO_PIECE then
      let other := other.set f.pieceAttacked (other.get f.pieceAttacked ||| tgtM)
      let mover := { mover with pawns := mover.pawns ||| srcM }
      (mover.set f.promotion (clearBit (mover.get f.promotion) tgtM), other)
    else
      let other := other.set f.pieceAttacked (other.get f.pieceAttacked ||| tgtM)
      (mover.set f.pieceMoved (clearBit (mover.get f.pieceMoved ||| srcM) tgtM), other)
  { white := if whiteNow then other else mover
    black := if whiteNow then mover else other
    turn := 1 - b.turn
    ep := f.prevEp
    fullmove := b.fullmove - (1 - b.turn)     -- u32: `fullmove_clock -= 1 - turn`
    halfmove := f.prevHalfmove }

def make (b : Board) (m : Move) : Board := makeF b m.f
def unmake (b : Board) (m : Move) : Board := unmakeF b m.f

/-! ## Validity -/

/-- `_is_in_check_by_bits` -/
def inCheck (b : Board) (color : Nat) : Bool :=
  let active := if color == 0 then b.white else b.black
  let passive := if color == 0 then b.black else b.white
  let fullOcc := active.full ||| passive.full
  -- with no king `trailing_zeros` is 64 and the unchecked table access is out of range (excluded by WF)
  squareInCheck color passive (trailingZeros active.kings) fullOcc

def isValid (b : Board) : Bool := !inCheck b (1 - b.turn)
def isCurrentInCheck (b : Board) : Bool := inCheck b b.turn

/-- `is_move_legal` = make; is_valid; unmake -/
def isMoveLegal (b : Board) (m : Move) : Bool := isValid (make b m)

/-- `generate_legal_moves` -/
def genLegal (b : Board) : List Move := (genPseudo b).filter (isMoveLegal b)

def isAnyMoveLegal (b : Board) (ms : List Move) : Bool := ms.any (isMoveLegal b)

/-- `_perft` -/
def perftCount (b : Board) : Nat → Nat
  | 0 => 1
  | d + 1 => ((genPseudo b).map fun m =>
      let b' := make b m
      if isValid b' then perftCount b' d else 0).sum

/-- `perft` (divide) for depth ≥ 1 -/
def perft (b : Board) (depth : Nat) : List (Move × Nat) :=
  (genPseudo b).filterMap fun m =>
    let b' := make b m
    if isValid b' then some (m, perftCount b' (depth - 1)) else none

/-- `ply_clock` (after the fix: saturating; result truncated to u16) -/
def plyClock (b : Board) : Nat := (2 * (b.fullmove - 1) + b.turn) % 65536

end Inkayaku.Board
