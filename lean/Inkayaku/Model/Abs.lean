import Inkayaku.Model.Board
import Inkayaku.Spec.Chess
/-!
The abstraction map from the bitboard model to the mailbox position of the Spec (`Spec.Chess`).
Theorems relating the code model to the rules of chess are stated through `abs`.
-/
namespace Inkayaku.Abs
open Inkayaku.Board

def kindOf : Nat → Spec.Kind
  | 1 => .pawn | 2 => .knight | 3 => .bishop | 4 => .rook | 5 => .queen | _ => .king

def kindCode : Spec.Kind → Nat
  | .pawn => 1 | .knight => 2 | .bishop => 3 | .rook => 4 | .queen => 5 | .king => 6

/-- the piece standing on `sq` (white pieces take precedence; on well-formed boards at most one word has the bit) -/
def pieceOn (b : Board) (sq : Nat) : Option Spec.Piece :=
  let w := b.white.pieceAt sq
  let k := b.black.pieceAt sq
  if w != 0 then some ⟨true, kindOf w⟩ else if k != 0 then some ⟨false, kindOf k⟩ else none

def abs (b : Board) : Spec.Pos :=
  { sq := (Array.range 64).map (pieceOn b)
    whiteToMove := b.turn == 0
    wk := b.white.ks, wq := b.white.qs, bk := b.black.ks, bq := b.black.qs
    ep := if b.ep == 0 then none else some b.ep
    half := b.halfmove, full := b.fullmove }

/-- the Spec move denoted by a decoded model move -/
def absMove (f : MoveF) : Spec.SMove :=
  { src := f.source, tgt := f.target, promo := if f.promotion == 0 then none else some (kindOf f.promotion) }

end Inkayaku.Abs
