import Inkayaku.Spec.Chess
import Inkayaku.Model.ChessOps
/-!
Line-protocol handlers that answer from the rules of chess (`Spec.Chess`), in the same text format as the
implementation ops, so that implementation-vs-rules can be compared directly.
-/
namespace Inkayaku.SpecOps
open Inkayaku.Spec Inkayaku.ChessOps

def withPos (tok : String) (k : Pos → String) : String :=
  match ofFen (fenArg tok) with
  | some p => k p
  | none => "badfen"

def fenTok (p : Pos) : String := (fen p).replace " " "_"

def handleLegal (args : List String) : String :=
  match args with
  | [f] => withPos f fun p => sortedJoin ((legalMoves p).map SMove.uci)
  | _ => "bad-request"

def handleSucc (args : List String) : String :=
  match args with
  | [f] => withPos f fun p => sortedJoin ((legalMoves p).map fun m => s!"{m.uci}>{fenTok (apply p m)}")
  | _ => "bad-request"

def handleInCheck (args : List String) : String :=
  match args with
  | [f] => withPos f fun p =>
      b01 (inCheck p true) ++ b01 (inCheck p false) ++ b01 (inCheck p p.whiteToMove) ++ b01 (!inCheck p (!p.whiteToMove))
  | _ => "bad-request"

def handleTerminal (args : List String) : String :=
  match args with
  | [f] => withPos f fun p => if isCheckmate p then "mate" else if isStalemate p then "stalemate" else "ongoing"
  | _ => "bad-request"

def handleAnyLegal (args : List String) : String :=
  match args with
  | [f] => withPos f fun p => if (legalMoves p).isEmpty then "0" else "1"
  | _ => "bad-request"

def handleSan (args : List String) : String :=
  match args with
  | [f] => withPos f fun p =>
      s!"{sortedJoin ((legalMoves p).map fun m => s!"{m.uci}={san p m}={m.uci}")} same"
  | _ => "bad-request"

/-- capture-or-promotion subset of the pseudo-legal moves (what the quiescence generator must produce);
castling is neither -/
def handleNq (args : List String) : String :=
  match args with
  | [f] => withPos f fun p =>
      sortedJoin (((pseudoMoves p).filter fun m => isCapture p m || m.promo.isSome).map SMove.uci)
  | _ => "bad-request"

/-! ### move strings judged by the rules: a string is applied iff (trimmed) it is the UCI text of a legal move -/

def classify (p : Pos) (s : String) : Option SMove × String :=
  let t := Util.rustTrim s
  match (legalMoves p).find? (fun m => m.uci == t) with
  | some m => (some m, "ok")
  | none => if (pseudoMoves p).any (fun m => m.uci == t) then (none, "err notvalid same") else (none, "err notexist same")

def handleFindUci (args : List String) : String :=
  match args with
  | [f, t] => withPos f fun p =>
      match Util.tokenString t with
      | none => "bad-request"
      | some s => match classify p s with
        | (some m, _) => s!"ok {m.uci} same"
        | (none, e) => e
  | _ => "bad-request"

def handleMakeUci (args : List String) : String :=
  match args with
  | [f, t] => withPos f fun p =>
      match Util.tokenString t with
      | none => "bad-request"
      | some s => match classify p s with
        | (some m, _) => s!"ok {fenTok (apply p m)}"
        | (none, e) => e
  | _ => "bad-request"

def handleUciPgn (args : List String) : String :=
  match args with
  | [f, t] => withPos f fun p =>
      match Util.tokenString t with
      | none => "bad-request"
      | some s => match classify p s with
        | (some m, _) => s!"ok {Util.stringToken (san p m)} same"
        | (none, e) => e
  | _ => "bad-request"

def handleMakeAll (args : List String) : String :=
  match args with
  | f :: toks => withPos f fun p =>
      match toks.mapM Util.tokenString with
      | none => "bad-request"
      | some ss =>
        let rec go (cur : Pos) : List String → String
          | [] => s!"ok {fenTok cur}"
          | s :: rest => match classify cur s with
            | (some m, _) => go (apply cur m) rest
            | (none, e) => e
        go p ss
  | _ => "bad-request"

def handleFindUciAll (args : List String) : String :=
  match args with
  | [f] => withPos f fun p =>
      let legal := (legalMoves p).map SMove.uci
      let pseudo := (pseudoMoves p).map SMove.uci
      let (acc, ne, nv) := ChessOps.allMoveStrings.foldl (fun (acc, ne, nv) s =>
        if legal.contains s then (s!"{s}>{s}" :: acc, ne, nv)
        else if pseudo.contains s then (acc, ne, nv + 1) else (acc, ne + 1, nv)) (([] : List String), 0, 0)
      s!"{sortedJoin acc} notexist={ne} notvalid={nv} same"
  | _ => "bad-request"

/-- standard SAN reading: the unique legal move whose SAN equals the text up to check/mate marks and !? annotations;
used to judge the parser on strings that ARE the SAN of some move (other strings are compared with the model only) -/
def stripSuffix (s : String) : String :=
  String.ofList ((s.toList.reverse.dropWhile fun c => c == '!' || c == '?' || c == '+' || c == '#').reverse)

def handleSanMv (args : List String) : String :=
  match args with
  | [f, t] => withPos f fun p =>
      match Util.tokenString t with
      | none => "bad-request"
      | some s =>
        match (legalMoves p).filter (fun m => san p m == s) with
        | [m] => s!"ok {m.uci} same"
        | _ => "skip"
  | _ => "bad-request"

/-- SAN of every move of a game given as UCI strings: `gamesan <fen_> <uci>…` → SANs joined by spaces, then `>` and the final FEN -/
def handleGameSan (args : List String) : String :=
  match args with
  | f :: ucis => withPos f fun p =>
      let rec go (cur : Pos) (acc : List String) : List String → String
        | [] => " ".intercalate acc.reverse ++ " > " ++ fenTok cur
        | u :: rest =>
          match (legalMoves cur).find? (fun m => m.uci == u) with
          | some m => go (apply cur m) (san cur m :: acc) rest
          | none => "ERR"
      go p [] ucis
  | _ => "bad-request"

/-- perft by the rules: divide table for depth ≥ 1 -/
def perftCount (p : Pos) : Nat → Nat
  | 0 => 1
  | d + 1 => ((legalMoves p).map fun m => perftCount (apply p m) d).sum

def handlePerft (args : List String) : String :=
  match args with
  | [f, d] =>
    match d.toNat? with
    | some (d + 1) => withPos f fun p => sortedJoin ((legalMoves p).map fun m => s!"{m.uci}:{perftCount (apply p m) d}")
    | _ => "bad-request"
  | _ => "bad-request"

def handleLegalAfter (args : List String) : String :=
  match args with
  | f :: ucis => withPos f fun p =>
      let rec go (cur : Pos) : List String → String
        | [] => s!"{fenTok cur} {sortedJoin ((legalMoves cur).map SMove.uci)}"
        | u :: rest =>
          match (legalMoves cur).find? (fun m => m.uci == u) with
          | some m => go (apply cur m) rest
          | none => s!"ERR {u}"
      go p ucis
  | _ => "bad-request"

end Inkayaku.SpecOps
