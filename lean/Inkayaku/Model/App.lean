import Inkayaku.Model.EngineOut
import Inkayaku.Model.SessionOps
/-!
Executable model of the engine PROCESS (`engine_app`): what the binary writes to stdout for a list of stdin lines.
Core Lean only (the driver links it).

Sources
* `engine_app/src/main.rs` — `main`: build `ConsoleUciTx` (stdout = `println!`, debug consumer = `eprintln!`), print the
  banner, create the `Engine` (which spawns the search thread running `Search::idle`), then `ConsoleUciRx::start`;
  the `on_command` closure: `Ok(command)` → (`SetDebug` also flips the transmitter's debug switch, which only gates
  *stderr* output) `engine.accept(command)`; `Err(..)` → `eprintln!` only;
* `uci/src/uci/console.rs` — `ConsoleUciRx::start`: `loop { read a line; parse; on_command; if it was Ok(Quit) return }`;
  `read_line` = `stdin().read_line` (line terminator included; the parser `trim`s);
* `engine_core/src/engine.rs` — `Engine::accept` (`EngineOut.engineReplies` is its stdout part): `uci`, `isready`,
  `register` are answered on the main thread; `setoption` is `todo!()`; `debug`, `ucinewgame`, `position`, `go`, `stop`,
  `ponderhit`, `quit` are sent to the search thread; `quit` also joins it;
* `engine_core/src/engine/search.rs` — `Search::idle`: `UciUciNewGame` → `new_game()` (clear table and killers),
  `UciDebug(d)` → `options.debug = d`, `UciPositionFrom` → `set_position_from`, `UciGo` → `go()`, `UciStop` and
  `UciPonderHit` are ignored while idle, `UciQuit` ends the loop.

## the schedule that is modelled

The process has two threads (main: reads stdin and answers `uci`/`isready`/`register`; search: everything else) that
both print.  The model is the **sequential schedule**: the GUI sends the next line only after the previous command has
been processed completely (for `go`: after its `bestmove` line).  Then
* the stdout lines of one input line are a function of the state and the line — `appStep`;
* `stop` / `ponderhit` / `ucinewgame` / `debug` / `position` / `quit` always reach the *idle* loop (never
  `check_messages` of a running search): `Search.St.pending` stays `[]`, `stop` and `ponderhit` do nothing at all.
A GUI that does not wait (e.g. `go depth 5` immediately followed by `isready`) may see `readyok` before the search output;
such interleavings are outside this model (the search-internal side of them — messages arriving at a poll — is the
`pending` parameter of `Search.goCmd`, properties C07/C09).

## quirks mirrored (each confirmed on the real binary)

* the first stdout line is the **banner** (free text, not a UCI message), printed before any input is read;
* a line that does not parse (empty line, blanks only, unknown first word, bad FEN, bad move text, bad number, duplicated
  `go` parameter, …) is reported on **stderr** only; stdout gets nothing and no state changes;
* `setoption …` (with or without `value`) reaches `todo!()` in `Engine::accept`: the main thread **panics**, the process
  exits with status 101; nothing is written to stdout for that line or any later line (`panicked`);
* `register later` prints nothing; `register name … code …` prints `registration checking` and `registration ok`;
* `position … moves …` with a move that does not exist or is illegal: `set_position_from` reports on stderr and
  `return`s before assigning — the search thread **keeps the old position** (and the old move list / history); nothing on
  stdout (`Search.setPosition`);
* `go` before any `position`: the search thread starts from `SearchState::default()` = the start position
  (`Search.initial`);
* `debug on` makes every *iteration* info of later searches carry `string tphitrate … qtphitrate …` (the periodic
  poll infos never do); `debug off` switches it off again.  The transmitter's own switch only gates `UciTx::debug`
  texts, which go to stderr;
* `quit` ends the read loop: later input lines are never read (`terminated`);
* **end of input without `quit` does not terminate the process**: `read_line` returns `Ok("")` at EOF, the parser
  answers `UnexpectedEndOfCommand`, the closure prints the error on stderr and the loop reads again — a busy loop that
  floods stderr until the process is killed.  Stdout gets nothing more, so for `appRun` (stdout only) end of input looks
  like termination; the state after the last line is still `alive` (`terminated = false`), see `atEof`;
* what `go` prints is `Search.goCmd` on the search thread's state, converted by `EngineOut.toTx` and printed by
  `Console.render`: iteration infos `info depth D time T nodes N [pv …] [score …] hashfull H nps P [string …]`, periodic
  infos `info time T nodes N hashfull H nps P` (one every 100 000 negamax nodes), then `bestmove M [ponder P]`;
  `bestmove 0000` when there is no legal (search)move.

## parameters of the model (`Cfg`)

* `fuel` — the iteration bound handed to `Search.goCmd` for a `go` WITHOUT `depth`.  The engine's own bound is 999 999
  iterations; under the sequential schedule such a search only ends through its time budget (or never: `go`,
  `go infinite`), and with the model's default clock (`nsPerNode = none`: time does not advance) never.  A `go depth d`
  is modelled exactly (`maxIter = max d 1`, which is the engine's `max_depth`); a `go` without depth is cut after `fuel`
  iterations — scripts meant for comparison with the real binary must use `go depth d` and no time parameter
  (`movetime`, `wtime`/`btime` make the real run depend on the wall clock).
* `hashfull`, `nps`, `rates` — the run dependent numbers of each message (`EngineOut.Aux`); the theorems quantify over
  them, the `app` driver op projects them away.
* `debugDefault` — the cargo feature `debug` (`DEBUG_DEFAULT`), off in the released binary.
-/
namespace Inkayaku.App
open Inkayaku.Search Inkayaku.EngineOut
open Inkayaku.Uci (UciCommand UciMove parseLine)

/-- runtime parameters of the process model -/
structure Cfg where
  /-- iteration bound for a `go` without `depth` -/
  fuel : Nat := 4
  /-- `hash_full` of each message -/
  hashfull : Out → Nat := fun _ => 0
  /-- `nps` of each message -/
  nps : Out → Nat := fun _ => 0
  /-- the six `f64` texts of the debug string of each message (used only while the debug switch is on) -/
  rates : Out → DebugRates := fun _ => ⟨"0".toList, "1".toList, "0".toList, "0".toList, "0".toList, "NaN".toList⟩
  /-- cargo feature `debug` -/
  debugDefault : Bool := false

/-- the state of the process between two input lines -/
structure AppSt where
  /-- the search thread (`Search<..>`: board, history, played moves, table, killers, previous PV, …);
  between two commands `out = []` and `pending = []` -/
  search : Search.St
  /-- `options.debug` of the search thread (= `Engine.debug` = the transmitter's switch) -/
  debug : Bool
  /-- `ConsoleUciRx::start` has returned (after `quit`): `main` has returned, exit status 0 -/
  terminated : Bool
  /-- `todo!()` was reached (a `setoption` line): the process is gone, exit status 101 -/
  panicked : Bool
deriving Inhabited

/-- the process still reads input -/
def AppSt.alive (s : AppSt) : Bool := !s.terminated && !s.panicked

/-- after `Engine::new`: search thread idle on `SearchState::default()` (start position), nothing printed yet except
the banner -/
def appInit (cfg : Cfg := {}) : AppSt :=
  { search := Search.initial, debug := cfg.debugDefault, terminated := false, panicked := false }

/-- the run dependent fields of one message; the debug string is present iff the search thread's switch is on -/
def auxOf (cfg : Cfg) (debug : Bool) (o : Out) : Aux :=
  { hashfull := cfg.hashfull o, nps := cfg.nps o, debug := if debug then some (cfg.rates o) else none }

/-- `max_depth` of `best_move` for an explicit depth; `fuel` otherwise (see the header) -/
def maxIterOf (cfg : Cfg) (g : Uci.Go) : Nat :=
  match g.depth with
  | some d => max d 1
  | none => cfg.fuel

/-- `UciGo(go)` in `idle`: run the search to its end (no message arrives meanwhile), print its stream -/
def runGo (cfg : Cfg) (s : AppSt) (g : Uci.Go) : AppSt × List String :=
  let s1 := goCmd { s.search with out := [], pending := [] } (SessionOps.goParamsOf g) (maxIterOf cfg g)
  ({ s with search := { s1 with out := [], pending := [] } }, searchLines (auxOf cfg s.debug) s1.out)

/-- `UciPositionFrom(fen, moves)` in `idle`.  `Bitboard::from(&fen)` reads the text of an already validated `Fen`
value, so the `.error` branch is unreachable (`C16App.position_fen_readable`); it keeps the state. -/
def runPosition (s : AppSt) (fen : List Char) (moves : List UciMove) : AppSt :=
  match FenBoard.fromFenString (String.ofList fen) with
  | .ok b => { s with search := setPosition s.search b (moves.map fun m => String.ofList m.render) }
  | .error _ => s

/-- `on_command(Ok(c))` followed by the search thread's handling of what was forwarded -/
def accept (cfg : Cfg) (s : AppSt) (c : UciCommand) : AppSt × List String :=
  match c with
  | .uci => (s, replyLines c)
  | .isReady => (s, replyLines c)
  | .register _ _ => (s, replyLines c)
  | .registerLater => (s, [])
  | .setOption _ => ({ s with panicked := true }, [])
  | .setOptionValue _ _ => ({ s with panicked := true }, [])
  | .setDebug d => ({ s with debug := d }, [])
  | .uciNewGame => ({ s with search := { s.search with tt := {}, killers := [] } }, [])
  | .positionFrom fen moves => (runPosition s fen moves, [])
  | .go g => runGo cfg s g
  | .stop => (s, [])
  | .ponderHit => (s, [])
  | .quit => ({ s with search := { s.search with quit := true }, terminated := true }, [])

/-- one turn of the read loop: the stdout lines caused by one stdin line.  The line may or may not carry its
terminator (`\n`, `\r\n`): the parser trims. -/
def appStep (cfg : Cfg) (s : AppSt) (line : String) : AppSt × List String :=
  if s.alive then
    match parseLine line with
    | .ok c => accept cfg s c
    | .error _ => (s, [])
  else (s, [])

/-- the read loop over a list of lines -/
def appSteps (cfg : Cfg) : AppSt → List String → AppSt × List String
  | s, [] => (s, [])
  | s, l :: ls =>
    let r1 := appStep cfg s l
    let r2 := appSteps cfg r1.1 ls
    (r2.1, r1.2 ++ r2.2)

/-- what stdin at EOF does to a live process: the read loop spins on `Ok("")` → parse error → stderr, forever.
No stdout, no state change, no termination. -/
def atEof (cfg : Cfg) (s : AppSt) : AppSt × List String := appStep cfg s ""

/-- the banner line -/
def bannerLine : String := String.ofList banner

/-- stdout of the process for the given stdin lines (banner first) -/
def appRun (lines : List String) (cfg : Cfg := {}) : List String :=
  bannerLine :: (appSteps cfg (appInit cfg) lines).2

/-- the final state -/
def appFinal (lines : List String) (cfg : Cfg := {}) : AppSt := (appSteps cfg (appInit cfg) lines).1

/-! ## examples (all lines below were compared with the output of the real binary, modulo time / nodes / nps) -/

#guard appRun [] == ["Inkayaku by Marvin Kuhnke (see https://github.com/marvk/rust-chess)"]

#guard appRun ["uci", "isready", "position startpos moves e2e4", "go depth 2", "quit"] ==
  ["Inkayaku by Marvin Kuhnke (see https://github.com/marvk/rust-chess)",
   "id name Inkayaku", "id author Marvin Kuhnke (see https://github.com/marvk/rust-chess)", "uciok",
   "readyok",
   "info depth 1 time 0 nodes 23 pv b8c6 score cp 10 hashfull 0 nps 0",
   "info depth 2 time 0 nodes 181 pv b8c6 b1c3 score cp -40 hashfull 0 nps 0",
   "bestmove b8c6 ponder b1c3"]

-- empty line, unknown command, malformed commands: nothing on stdout; register; illegal move keeps the old position;
-- debug on: `string …`; nothing after quit
#guard (appRun ["", "   ", "foo", "go depth x", "position fen 8/8 w", "isready\n", "register later",
                "register name a code b", "position startpos moves e2e4", "position startpos moves e2e5",
                "debug on", "go depth 1", "stop", "ponderhit", "quit", "isready"]).drop 1 ==
  ["readyok", "registration checking", "registration ok",
   "info depth 1 time 0 nodes 23 pv b8c6 score cp 10 hashfull 0 nps 0 string tphitrate 0 nrate 1 qrate 0 avgqdepth 0 qstartedrate 0 qtphitrate NaN",
   "bestmove b8c6"]

-- `setoption`: panic; nothing more
#guard appRun ["isready", "setoption name Hash value 3", "isready"] == [bannerLine, "readyok"]
#guard (appFinal ["isready", "setoption name Hash value 3", "isready"]).panicked
#guard !(appFinal ["isready", "setoption"]).panicked      -- does not parse: stderr only
-- end of input: still alive (the real process spins)
#guard (appFinal ["isready"]).alive && (atEof {} (appFinal ["isready"])).2 == []
#guard (appFinal ["quit"]).terminated
-- go before any position: start position; mated position: `bestmove 0000`
#guard ((appRun ["go depth 1"]).drop 1).getLast? == some "bestmove b1c3"
#guard (appRun ["position startpos moves f2f3 e7e5 g2g4 d8h4", "go depth 2"]).drop 1 ==
  ["info depth 0 time 0 nodes 1 hashfull 0 nps 0", "bestmove 0000"]

end Inkayaku.App
